(* C19 part B - proofs about the bayesian_opt outer-loop bookkeeping machine (B_Bayes.v). *)
From Coq Require Import List ZArith Bool Arith Lia.
From SV Require Import C19.B_Common C19.B_Bayes C19.B_ProofsCommon.
Import ListNotations.
Open Scope Z_scope.

Lemma bo_loop_ok minimize us max_iter cb interval k : forall it last best st r st',
  let ivs := ev_internal (ev_sign minimize) us in
  wf ivs st -> is_min ivs (evals st) best ->
  bo_loop (ev_sign minimize) max_iter cb interval k it last best st = Some (r, st') ->
  result_ok minimize us r st'.
Proof.
  induction k as [|k IH]; intros it last best st r st' ivs W HM H; cbn [bo_loop] in H.
  - inversion H; subst. apply mk_result_ok; assumption.
  - destruct (eval st) as [[y st1]|] eqn:E; [|discriminate].
    destruct (eval_spec ivs _ _ _ W E) as (W1 & A2 & A3 & A4).
    assert (HM1 : is_min ivs (evals st1) (if eval_ y <? eval_ best then y else best)).
    { destruct (eval_ y <? eval_ best) eqn:C.
      - apply Z.ltb_lt in C. apply (is_min_new ivs st y st1 best); auto. lia.
      - apply Z.ltb_ge in C. apply (is_min_keep ivs st y st1 best); auto. }
    destruct (report_progress cb interval (it + 1)).
    + inversion H; subst. apply mk_result_ok; assumption.
    + eapply IH; eauto.
Qed.

Theorem bo_run_ok minimize n_initial max_iter cb interval us r st :
  bo_run_st minimize n_initial max_iter cb interval us = Some (r, st) ->
  result_ok minimize us r st.
Proof.
  unfold bo_run_st. set (ivs := ev_internal (ev_sign minimize) us).
  destruct (eval_n _ (est0 ivs)) as [[ys st0]|] eqn:E; [|discriminate].
  destruct (argmin_first ys) as [best|] eqn:EA; [|discriminate].
  intros H.
  destruct (eval_n_spec ivs _ _ _ _ (wf_est0 ivs) E) as (W & A2 & A3 & A4 & A5).
  specialize (A5 [] (covers_nil0 ivs)). cbn [app] in A5.
  eapply bo_loop_ok; [exact W | | exact H].
  eapply argmin_is_min; eauto.
Qed.

Lemma bo_loop_mirror max_iter cb interval k : forall it last best st,
  bo_loop (-1) max_iter cb interval k it last best st
  = neg_out (bo_loop 1 max_iter cb interval k it last best st).
Proof.
  induction k as [|k IH]; intros it last best st; cbn [bo_loop].
  - cbn. rewrite mk_result_neg. reflexivity.
  - destruct (eval st) as [[y st1]|]; [|reflexivity].
    destruct (report_progress cb interval (it + 1)); [cbn; rewrite mk_result_neg; reflexivity|].
    apply IH.
Qed.

Theorem bo_run_mirror n_initial max_iter cb interval us :
  bo_run_st false n_initial max_iter cb interval us
  = neg_out (bo_run_st true n_initial max_iter cb interval (map Z.opp us)).
Proof.
  unfold bo_run_st. cbn [ev_sign]. rewrite internal_mirror.
  destruct (eval_n _ _) as [[ys st0]|]; [|reflexivity].
  destruct (argmin_first ys) as [best|]; [|reflexivity].
  apply bo_loop_mirror.
Qed.
