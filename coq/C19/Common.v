(* C19 - shared vocabulary of the search-heuristic bookkeeping machines (parts A and B).

   Shape O (DESIGN.md 1.2): the machines never compute points.  Every point handed to the
   objective gets its EVALUATION INDEX (0-based position in the evaluator's call log) as identity;
   the machines move identities between the roles the code has (current, best, population slot...)
   according to comparisons of objective values and recorded oracle bits.

   Objective values are Z (the harness feeds integer-valued objectives: comparisons are exact).
   `us` always denotes the log of USER-sign values f(x) in call order; the Evaluator of
   solvor/utils/helpers.py multiplies by sign = +1 (minimize) / -1 (maximize) on the way in and
   again on the way out (`to_user`).  Definitions + small lemmas only; keep this file stable. *)
From Coq Require Import List ZArith Bool Arith Lia.
Import ListNotations.
Open Scope Z_scope.

(* ---------------------------------------------------------------- Evaluator (helpers.py @143) *)
Definition sgn (minimize : bool) : Z := if minimize then 1 else -1.
(* Evaluator.__call__: self.sign * self.objective_fn(sol)   (evals += 1 is done by the machines) *)
Definition ev_call (minimize : bool) (u : Z) : Z := sgn minimize * u.
(* Evaluator.to_user: internal_obj * self.sign *)
Definition to_user (minimize : bool) (x : Z) : Z := x * sgn minimize.

Lemma to_user_ev_call m u : to_user m (ev_call m u) = u.
Proof. unfold to_user, ev_call, sgn. destruct m; lia. Qed.

Lemma ev_call_to_user m x : ev_call m (to_user m x) = x.
Proof. unfold to_user, ev_call, sgn. destruct m; lia. Qed.

Lemma ev_call_mirror u : ev_call false u = ev_call true (- u).
Proof. unfold ev_call, sgn. lia. Qed.

Lemma to_user_mirror x : to_user false x = - to_user true x.
Proof. unfold to_user, sgn. lia. Qed.

Lemma ev_call_inj m a b : ev_call m a = ev_call m b -> a = b.
Proof. unfold ev_call, sgn. destruct m; lia. Qed.

(* "a is at least as good as b" in the user's own sign *)
Definition better_eq (minimize : bool) (a b : Z) : Prop := if minimize then a <= b else b <= a.
Definition better_eqb (minimize : bool) (a b : Z) : bool := if minimize then a <=? b else b <=? a.

Lemma better_eqb_spec m a b : better_eqb m a b = true <-> better_eq m a b.
Proof. unfold better_eqb, better_eq. destruct m; apply Z.leb_le. Qed.

Lemma better_eq_internal m a b : better_eq m a b <-> ev_call m a <= ev_call m b.
Proof. unfold better_eq, ev_call, sgn. destruct m; lia. Qed.

Lemma better_eq_mirror a b : better_eq false a b <-> better_eq true (- a) (- b).
Proof. unfold better_eq. lia. Qed.

(* ---------------------------------------------------------------- results *)
(* what a machine reports: identity of the returned solution, objective in the USER's sign,
   Result.evaluations, Result.iterations *)
Record result := mkResult { r_id : nat; r_obj : Z; r_evals : nat; r_iters : nat }.

Definition neg_result (r : result) : result :=
  {| r_id := r_id r; r_obj := - r_obj r; r_evals := r_evals r; r_iters := r_iters r |}.

Definition result_eqb (a b : result) : bool :=
  Nat.eqb (r_id a) (r_id b) && Z.eqb (r_obj a) (r_obj b) && Nat.eqb (r_evals a) (r_evals b)
  && Nat.eqb (r_iters a) (r_iters b).

(* what the harness observes of the implementation: the set of log indices whose (deep-copied)
   point equals the returned solution, Result.objective, .evaluations, .iterations *)
Record observed := mkObs { o_ids : list nat; o_obj : Z; o_evals : nat; o_iters : nat }.

(* model output vs implementation observable; `cmp_iters=false` skips Result.iterations *)
Definition obs_matches (cmp_iters : bool) (r : option result) (o : observed) : bool :=
  match r with
  | None => false
  | Some r => existsb (Nat.eqb (r_id r)) (o_ids o) && Z.eqb (r_obj r) (o_obj o)
              && Nat.eqb (r_evals r) (o_evals o)
              && (negb cmp_iters || Nat.eqb (r_iters r) (o_iters o))
  end.

(* ---------------------------------------------------------------- the specification *)
(* C19, first group, for one run: `us` = user-sign values the objective returned, in call order.
   best_is_f   : the reported objective is the value logged for the returned identity;
   best_is_min : it is at least as good (user sign) as every logged value, start point(s) included;
   evals_count : Result.evaluations = number of objective calls. *)
Definition BestSpec (minimize : bool) (us : list Z) (r : result) : Prop :=
  nth_error us (r_id r) = Some (r_obj r)
  /\ Forall (better_eq minimize (r_obj r)) us
  /\ r_evals r = length us.

(* the same judgement on an implementation observable (some matching index carries the objective) *)
Definition ObsSpec (minimize : bool) (us : list Z) (o : observed) : Prop :=
  (exists i, In i (o_ids o) /\ nth_error us i = Some (o_obj o))
  /\ Forall (better_eq minimize (o_obj o)) us
  /\ o_evals o = length us.

Definition nth_is (us : list Z) (v : Z) (i : nat) : bool :=
  match nth_error us i with Some w => Z.eqb w v | None => false end.

Definition obs_spec_check (minimize : bool) (us : list Z) (o : observed) : bool :=
  existsb (nth_is us (o_obj o)) (o_ids o)
  && forallb (better_eqb minimize (o_obj o)) us
  && Nat.eqb (o_evals o) (length us).

Lemma obs_spec_check_sound m us o : obs_spec_check m us o = true -> ObsSpec m us o.
Proof.
  unfold obs_spec_check, ObsSpec. intros H.
  apply andb_true_iff in H. destruct H as [H H3].
  apply andb_true_iff in H. destruct H as [H1 H2].
  split; [|split].
  - apply existsb_exists in H1. destruct H1 as [i [Hi Hn]]. exists i. split; [exact Hi|].
    unfold nth_is in Hn. destruct (nth_error us i) as [w|]; [|discriminate].
    apply Z.eqb_eq in Hn. subst w. reflexivity.
  - apply Forall_forall. intros u Hu. apply better_eqb_spec.
    rewrite forallb_forall in H2. apply H2. exact Hu.
  - apply Nat.eqb_eq. exact H3.
Qed.

Definition obs_of_result (r : result) : observed :=
  {| o_ids := [r_id r]; o_obj := r_obj r; o_evals := r_evals r; o_iters := r_iters r |}.

Lemma BestSpec_ObsSpec m us r : BestSpec m us r -> ObsSpec m us (obs_of_result r).
Proof.
  intros [H1 [H2 H3]]. split; [|split]; simpl; auto.
  exists (r_id r). split; [left; reflexivity | exact H1].
Qed.

(* ---------------------------------------------------------------- internal-sign invariant *)
(* `seen` = INTERNAL values (sign applied) consumed so far, in call order.
   IsBest seen bid bobj : role `best` holds identity bid with value bobj, minimal among seen. *)
Definition IsBest (seen : list Z) (bid : nat) (bobj : Z) : Prop :=
  nth_error seen bid = Some bobj /\ Forall (Z.le bobj) seen.

(* a role that merely holds some evaluated point with its own value (current, population slot) *)
Definition Holds (seen : list Z) (id : nat) (obj : Z) : Prop := nth_error seen id = Some obj.

Lemma Holds_app seen more id obj : Holds seen id obj -> Holds (seen ++ more) id obj.
Proof.
  unfold Holds. intros H. rewrite nth_error_app1; [exact H|].
  apply nth_error_Some. rewrite H. discriminate.
Qed.

Lemma Holds_new seen x more : Holds (seen ++ x :: more) (length seen) x.
Proof. unfold Holds. rewrite nth_error_app2 by lia. rewrite Nat.sub_diag. reflexivity. Qed.

Lemma Holds_lt seen id obj : Holds seen id obj -> (id < length seen)%nat.
Proof. unfold Holds. intros H. apply nth_error_Some. rewrite H. discriminate. Qed.

Lemma IsBest_single x : IsBest [x] 0 x.
Proof. split; [reflexivity|]. constructor; [lia|constructor]. Qed.

Lemma IsBest_keep seen b o x : IsBest seen b o -> o <= x -> IsBest (seen ++ [x]) b o.
Proof.
  intros [H1 H2] Hle. split.
  - apply Holds_app. exact H1.
  - apply Forall_app. split; [exact H2|]. constructor; [exact Hle|constructor].
Qed.

Lemma Forall_le_trans (a b : Z) l : a <= b -> Forall (Z.le b) l -> Forall (Z.le a) l.
Proof. intros Hab H. eapply Forall_impl; [|exact H]. simpl. intros c Hc. lia. Qed.

Lemma IsBest_new seen b o x : IsBest seen b o -> x <= o -> IsBest (seen ++ [x]) (length seen) x.
Proof.
  intros [H1 H2] Hlt. split.
  - apply Holds_new.
  - apply Forall_app. split.
    + apply Forall_le_trans with (b := o); [exact Hlt | exact H2].
    + constructor; [lia|constructor].
Qed.

Lemma IsBest_Holds seen b o : IsBest seen b o -> Holds seen b o.
Proof. intros [H _]. exact H. Qed.

Lemma IsBest_nil_app seen b o : IsBest seen b o -> IsBest (seen ++ []) b o.
Proof. rewrite app_nil_r. auto. Qed.

(* a holder whose value is <= the best value IS a best (used when a role replaces `best`) *)
Lemma IsBest_of_Holds seen b o id x : IsBest seen b o -> Holds seen id x -> x <= o -> IsBest seen id x.
Proof.
  intros [_ H2] Hh Hle. split; [exact Hh|]. apply Forall_le_trans with (b := o); assumption.
Qed.

(* from the internal invariant to the user-sign specification *)
Lemma nth_error_map_ev m us i x :
  nth_error (map (ev_call m) us) i = Some x -> nth_error us i = Some (to_user m x).
Proof.
  rewrite nth_error_map. destruct (nth_error us i) as [u|]; simpl; [|discriminate].
  intros H. injection H as H. subst x. rewrite to_user_ev_call. reflexivity.
Qed.

Lemma IsBest_BestSpec m us bid bobj evals iters :
  IsBest (map (ev_call m) us) bid bobj -> evals = length us ->
  BestSpec m us {| r_id := bid; r_obj := to_user m bobj; r_evals := evals; r_iters := iters |}.
Proof.
  intros [H1 H2] He. split; [|split]; simpl.
  - apply nth_error_map_ev. exact H1.
  - apply Forall_forall. intros u Hu. apply better_eq_internal. rewrite ev_call_to_user.
    rewrite Forall_forall in H2. apply H2. apply in_map. exact Hu.
  - exact He.
Qed.

Lemma BestSpec_minimize us r :
  BestSpec true us r -> forall u, In u us -> r_obj r <= u.
Proof. intros [_ [H _]] u Hu. rewrite Forall_forall in H. exact (H u Hu). Qed.

Lemma BestSpec_maximize us r :
  BestSpec false us r -> forall u, In u us -> u <= r_obj r.
Proof. intros [_ [H _]] u Hu. rewrite Forall_forall in H. exact (H u Hu). Qed.

(* ---------------------------------------------------------------- the generic main loop *)
(* `for iteration in range(1, max_iter + 1): <body>` where the body consumes one recorded event and
   may leave the loop (break / return): step it s e = (s', leave).  The event list must be exactly
   what the run consumed: running out of events, or stopping with events left over, is the explicit
   error None.  Returns the final state and the value of `iteration` the code reports
   (the iteration at which it left, or max_iter when the range was exhausted). *)
Section Loop.
  Context {S E : Type}.
  Variable step : nat -> S -> E -> S * bool.

  Fixpoint loop (n it : nat) (s : S) (evs : list E) : option (S * nat) :=
    match n with
    | O => match evs with [] => Some (s, Nat.pred it) | _ :: _ => None end
    | Datatypes.S n' =>
        match evs with
        | [] => None
        | e :: evs' =>
            let '(s', leave) := step it s e in
            if leave then match evs' with [] => Some (s', it) | _ :: _ => None end
            else loop n' (Datatypes.S it) s' evs'
        end
    end.

  (* invariants indexed by the values consumed so far *)
  Variable ev_vals : E -> list Z.
  Variable Inv : list Z -> S -> Prop.
  Hypothesis step_inv : forall it s e seen,
    Inv seen s -> Inv (seen ++ ev_vals e) (fst (step it s e)).

  Lemma loop_inv : forall n it s evs seen s' it',
    Inv seen s -> loop n it s evs = Some (s', it') ->
    Inv (seen ++ flat_map ev_vals evs) s'.
  Proof.
    induction n as [|n IH]; intros it s evs seen s' it' HI HL; simpl in HL.
    - destruct evs; [|discriminate]. injection HL as <- _. simpl. rewrite app_nil_r. exact HI.
    - destruct evs as [|e evs']; [discriminate|].
      pose proof (step_inv it s e seen HI) as HS.
      destruct (step it s e) as [s1 leave]. simpl in HS.
      destruct leave.
      + destruct evs'; [|discriminate]. injection HL as <- _. simpl. rewrite app_nil_r. exact HS.
      + simpl. rewrite app_assoc. eapply IH; [exact HS | exact HL].
  Qed.

  (* iterations reported never exceed the bound (start at it, n rounds left) *)
  Lemma loop_iters : forall n it s evs s' it',
    loop n it s evs = Some (s', it') -> (Nat.pred it <= it' <= Nat.pred it + n)%nat.
  Proof.
    induction n as [|n IH]; intros it s evs s' it' HL; simpl in HL.
    - destruct evs; [|discriminate]. injection HL as _ <-. lia.
    - destruct evs as [|e evs']; [discriminate|].
      destruct (step it s e) as [s1 leave]. destruct leave.
      + destruct evs'; [|discriminate]. injection HL as _ <-. lia.
      + apply IH in HL. simpl in HL. lia.
  Qed.
End Loop.

(* two step functions that agree up to a renaming of events give the same run (used for mirror) *)
Lemma loop_map {S E} (step1 step2 : nat -> S -> E -> S * bool) (f : E -> E) :
  (forall it s e, step1 it s e = step2 it s (f e)) ->
  forall n it s evs, loop step1 n it s evs = loop step2 n it s (map f evs).
Proof.
  intros Hstep. induction n as [|n IH]; intros it s evs; simpl.
  - destruct evs; reflexivity.
  - destruct evs as [|e evs']; [reflexivity|]. simpl. rewrite <- Hstep.
    destruct (step1 it s e) as [s1 leave]. destruct leave.
    + destruct evs'; reflexivity.
    + apply IH.
Qed.

Lemma map_ev_call_mirror us : map (ev_call false) us = map (ev_call true) (map Z.opp us).
Proof. rewrite map_map. apply map_ext. intros u. apply ev_call_mirror. Qed.
