(* Model of solvor/tabu.py: tabu_search() (lines 59-116).  Definitions only.

   One event per loop iteration: the candidate list AFTER `rng.shuffle(candidates)` in evaluation
   order, each as (move identity, f(neighbor) in user sign) - moves are numbered by first occurrence
   (the code only hashes / compares them) - and stop = `report_progress(...)` returned True.
   The tabu memory is modelled as the code has it: a deque(maxlen=cooldown) and a set which can
   drift apart (a tabu move re-chosen by aspiration is discarded from the set while its later copy
   is still in the deque).  cooldown = 0 makes the code raise IndexError (tabu_list[0] of an empty
   deque) at the first move: the explicit error None.  max_iter = 0 (with `iteration = 0` bound
   before the `for`) returns the start point with 0 iterations. *)
From Coq Require Import List ZArith Bool Arith.
From SV Require Import C19.Common.
Import ListNotations.
Open Scope Z_scope.

Record tevent := mkT { t_cands : list (nat * Z); t_stop : bool }.

Record tst := mkTS { t_cur : nat; t_cur_obj : Z; t_best : nat; t_best_obj : Z; t_best_iter : nat;
                     t_list : list nat; t_set : list nat; t_evals : nat }.

Definition t_init (m : bool) (u0 : Z) : tst :=
  let x := ev_call m u0 in mkTS 0 x 0 x 0 [] [] 1.

Definition memb (a : nat) (l : list nat) : bool := existsb (Nat.eqb a) l.
Definition set_discard (a : nat) (l : list nat) : list nat := filter (fun b => negb (Nat.eqb a b)) l.
Definition set_add (a : nat) (l : list nat) : list nat := if memb a l then l else a :: l.

(* for move, neighbor in candidates:
       neighbor_obj = evaluate(neighbor)
       if move in tabu_set and neighbor_obj >= best_obj: continue
       if neighbor_obj < best_neighbor_obj: best_neighbor_obj, best_neighbor, best_move = ...
   bn = None stands for (None, None, inf); returns bn and the evaluation counter *)
Fixpoint t_scan (m : bool) (bobj : Z) (tset : list nat) (cands : list (nat * Z)) (id : nat)
         (bn : option (Z * nat * nat)) : option (Z * nat * nat) * nat :=
  match cands with
  | [] => (bn, id)
  | (mv, u) :: rest =>
      let x := ev_call m u in
      let bn' :=
        if memb mv tset && (bobj <=? x) then bn
        else match bn with
             | None => Some (x, id, mv)
             | Some (bx, _, _) => if x <? bx then Some (x, id, mv) else bn
             end in
      t_scan m bobj tset rest (S id) bn'
  end.

Definition t_leave (mni : Z) (it : nat) (best_iter : nat) (stop : bool) : bool :=
  stop || (mni <=? Z.of_nat it - Z.of_nat best_iter).

Definition t_step (m : bool) (cooldown : nat) (mni : Z) (it : nat) (s : tst) (e : tevent) : tst * bool :=
  match t_cands e with
  | [] => (s, true)                                       (* if not candidates: break *)
  | _ :: _ =>
      let '(bn, ev') := t_scan m (t_best_obj s) (t_set s) (t_cands e) (t_evals s) None in
      match bn with
      | None =>                                           (* if best_neighbor is None: break *)
          (mkTS (t_cur s) (t_cur_obj s) (t_best s) (t_best_obj s) (t_best_iter s) (t_list s) (t_set s) ev', true)
      | Some (x, id, mv) =>
          let full := Nat.eqb (length (t_list s)) cooldown in
          (* if len(tabu_list) == cooldown: tabu_set.discard(tabu_list[0]) *)
          let set1 := if full then match t_list s with [] => t_set s | h :: _ => set_discard h (t_set s) end
                      else t_set s in
          (* tabu_list.append(best_move)  (deque with maxlen) ; tabu_set.add(best_move) *)
          let list1 := (if full then tl (t_list s) else t_list s) ++ [mv] in
          let set2 := set_add mv set1 in
          let s2 := if x <? t_best_obj s
                    then mkTS id x id x it list1 set2 ev'
                    else mkTS id x (t_best s) (t_best_obj s) (t_best_iter s) list1 set2 ev' in
          (s2, t_leave mni it (t_best_iter s2) (t_stop e))
      end
  end.

Definition t_result (m : bool) (s : tst) (it : nat) : result :=
  {| r_id := t_best s; r_obj := to_user m (t_best_obj s); r_evals := t_evals s; r_iters := it |}.

Definition tabu (m : bool) (cooldown max_iter : nat) (mni : Z) (u0 : Z) (evs : list tevent) : option result :=
  if Nat.eqb cooldown 0 then None else
  match loop (t_step m cooldown mni) max_iter 1 (t_init m u0) evs with
  | None => None
  | Some (s, it) => Some (t_result m s it)
  end.

Definition t_vals (e : tevent) : list Z := map snd (t_cands e).
Definition tabu_log (u0 : Z) (evs : list tevent) : list Z := u0 :: flat_map t_vals evs.

Definition t_neg (e : tevent) : tevent :=
  mkT (map (fun c => (fst c, - snd c)) (t_cands e)) (t_stop e).
