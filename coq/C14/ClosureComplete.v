(* Completeness of the Gallina transitive closure: |nodes| rounds always reach a closed set, hence
   reachb g nodes s x = true <-> reach g nodes s x   (soundness: SccSpecProofs.reach_closure_sound). *)
From Coq Require Import List Arith Bool Lia.
From SV Require Import C14.Scc C14.SccSpec C14.SccLemmas C14.SccSpecProofs.
Import ListNotations.

Lemma add_new_length_ge ws : forall acc, length acc <= length (add_new ws acc).
Proof.
  induction ws as [|w r IH]; intros acc; simpl; [lia|].
  destruct (mem w acc); [apply IH|]. specialize (IH (acc ++ [w])). rewrite app_length in IH. simpl in IH. lia.
Qed.

Lemma add_new_length_eq ws : forall acc, length (add_new ws acc) = length acc -> incl ws acc.
Proof.
  induction ws as [|w r IH]; intros acc H; simpl in H; [intros x []|].
  destruct (mem w acc) eqn:E.
  - apply mem_In in E. intros x [<- | Hx]; [exact E | apply (IH acc H); exact Hx].
  - exfalso. pose proof (add_new_length_ge r (acc ++ [w])) as Hg. rewrite app_length in Hg. simpl in Hg. lia.
Qed.

Lemma add_new_incl_id ws : forall acc, incl ws acc -> add_new ws acc = acc.
Proof.
  induction ws as [|w r IH]; intros acc H; simpl; [reflexivity|].
  assert (Hw : mem w acc = true) by (apply mem_In; apply H; left; reflexivity).
  rewrite Hw. apply IH. intros x Hx. apply H. right. exact Hx.
Qed.

Lemma add_new_NoDup ws : forall acc, NoDup acc -> NoDup (add_new ws acc).
Proof.
  induction ws as [|w r IH]; intros acc H; simpl; [exact H|].
  destruct (mem w acc) eqn:E; [apply IH; exact H|].
  apply IH. apply mem_false in E. clear IH.
  induction acc as [|a t IHt]; simpl.
  - constructor; [intros [] | constructor].
  - inversion H; subst. constructor.
    + intros Hi. apply in_app_or in Hi. destruct Hi as [Hi | [Hi | []]]; [contradiction|].
      subst. apply E. left. reflexivity.
    + apply IHt; [assumption|]. intros Hi. apply E. right. exact Hi.
Qed.

Lemma closedb_iff g nodes acc :
  closedb g nodes acc = true <-> incl (flat_map (succs_in g nodes) acc) acc.
Proof.
  unfold closedb. rewrite forallb_forall. split.
  - intros H x Hx. apply in_flat_map in Hx. destruct Hx as [u [Hu Hx]].
    specialize (H u Hu). apply inclb_incl in H. apply H. exact Hx.
  - intros H u Hu. apply inclb_incl. intros x Hx. apply H. apply in_flat_map. exists u. auto.
Qed.

Lemma closed_iter_id g nodes k : forall acc,
  closedb g nodes acc = true -> closure_iter k g nodes acc = acc.
Proof.
  induction k as [|k IH]; intros acc H; simpl; [reflexivity|].
  assert (E : closure_step g nodes acc = acc).
  { unfold closure_step. apply add_new_incl_id. apply closedb_iff. exact H. }
  rewrite E. apply IH. exact H.
Qed.

Lemma closure_iter_progress g nodes k : forall acc,
  closedb g nodes (closure_iter k g nodes acc) = true \/ length acc + k <= length (closure_iter k g nodes acc).
Proof.
  induction k as [|k IH]; intros acc; simpl; [right; lia|].
  destruct (Nat.eq_dec (length (closure_step g nodes acc)) (length acc)) as [E | E].
  - left. assert (Hc : closedb g nodes acc = true).
    { apply closedb_iff. apply add_new_length_eq. exact E. }
    assert (E2 : closure_step g nodes acc = acc).
    { unfold closure_step. apply add_new_incl_id. apply closedb_iff. exact Hc. }
    rewrite E2, closed_iter_id by exact Hc. exact Hc.
  - pose proof (add_new_length_ge (flat_map (succs_in g nodes) acc) acc) as Hg.
    fold (closure_step g nodes acc) in Hg.
    destruct (IH (closure_step g nodes acc)) as [H | H]; [left; exact H | right; lia].
Qed.

Lemma closure_iter_NoDup g nodes k : forall acc, NoDup acc -> NoDup (closure_iter k g nodes acc).
Proof.
  induction k as [|k IH]; intros acc H; simpl; [exact H|].
  apply IH. unfold closure_step. apply add_new_NoDup. exact H.
Qed.

Lemma reach_in_nodes g nodes s x : reach g nodes s x -> x = s \/ In x nodes.
Proof.
  intros H. induction H as [u | u v w He _ IH]; [left; reflexivity|].
  destruct IH as [-> | IH]; [right; apply He | right; exact IH].
Qed.

Theorem reach_closure_closed g nodes s : closedb g nodes (reach_closure g nodes s) = true.
Proof.
  unfold reach_closure.
  destruct (in_dec Nat.eq_dec s nodes) as [Hs | Hs].
  - destruct (closure_iter_progress g nodes (length nodes) [s]) as [H | H]; [exact H | exfalso].
    assert (Hnd : NoDup (closure_iter (length nodes) g nodes [s])).
    { apply closure_iter_NoDup. constructor; [intros [] | constructor]. }
    assert (Hi : incl (closure_iter (length nodes) g nodes [s]) nodes).
    { intros x Hx. apply reach_closure_sound in Hx. apply reach_in_nodes in Hx.
      destruct Hx as [-> | Hx]; assumption. }
    pose proof (NoDup_incl_length Hnd Hi). simpl in H. lia.
  - assert (Hc : closedb g nodes [s] = true).
    { unfold closedb. simpl. unfold succs_in. apply mem_false in Hs. rewrite Hs. reflexivity. }
    rewrite closed_iter_id by exact Hc. exact Hc.
Qed.

Theorem reachb_reach g nodes s x : reachb g nodes s x = true <-> reach g nodes s x.
Proof. apply reachb_iff. apply reach_closure_closed. Qed.

Theorem closures_ok_always g nodes : closures_ok g nodes = true.
Proof. unfold closures_ok. apply forallb_forall. intros x _. apply reach_closure_closed. Qed.

(* the checkers are also complete for the cycle test (used: INFEASIBLE answers are accepted iff a cycle exists) *)
Theorem has_cycleb_iff g nodes : has_cycleb g nodes = true <-> has_cycle g nodes.
Proof.
  split; [apply has_cycleb_sound | apply has_cycleb_complete; apply closures_ok_always].
Qed.
