(* Tarjan (model [scc]), reachability half of the invariant: every emitted component is strongly connected
   (any two of its nodes are mutually reachable inside the node set). *)
From Coq Require Import List Arith Bool Lia.
From SV Require Import C14.Scc C14.SccSpec C14.SccLemmas C14.TarjanInv C14.TarjanProofs.
Import ListNotations.

Lemma stk_sorted_inj f l x y : stk_sorted f l -> In x l -> In y l -> f x = f y -> x = y.
Proof.
  induction l as [|a r IH]; simpl; [intros _ []|].
  intros [H1 H2] [<- | Hx] [<- | Hy] E; try reflexivity.
  - specialize (H1 y Hy). lia.
  - specialize (H1 x Hx). lia.
  - apply IH; assumption.
Qed.

Section Reach.
  Variable g : graph.
  Variable nodes : list nat.
  Notation R := (reach g nodes).

  Record rinv (s : st) : Prop := {
    r_up : forall x y, In x (stk s) -> In y (stk s) -> ix s x <= ix s y -> R x y;
    r_low : forall y z, In y (stk s) -> In z (stk s) -> ix s z = lw s y -> R y z;
    r_comp : forall c x y, In c (comps s) -> In x c -> In y c -> R x y
  }.

  (* nodes above the active node v: low_link between low_link[v] and their own index (strictly below it) *)
  Definition above_ok (s : st) (v : nat) : Prop :=
    forall y, In y (stk s) -> ix s v < ix s y -> lw s v <= lw s y /\ lw s y < ix s y.

  Lemma reach_down s v : tinv nodes s -> rinv s -> In v (stk s) -> above_ok s v ->
    forall n y, ix s y <= n -> In y (stk s) -> ix s v <= ix s y -> R y v.
  Proof.
    intros Hi Hr Hv Hab. induction n as [|n IH]; intros y Hn Hy Hle.
    - assert (E : y = v).
      { apply (stk_sorted_inj (ix s) (stk s)); [apply (t_sorted _ _ Hi) | exact Hy | exact Hv | lia]. }
      subst. apply reach_refl.
    - destruct (Nat.eq_dec (ix s y) (ix s v)) as [E | E].
      + assert (E2 : y = v).
        { apply (stk_sorted_inj (ix s) (stk s)); [apply (t_sorted _ _ Hi) | exact Hy | exact Hv | exact E]. }
        subst. apply reach_refl.
      + assert (Hlt : ix s v < ix s y) by lia.
        destruct (Hab y Hy Hlt) as [H1 H2].
        destruct (t_low _ _ Hi y Hy) as [_ [z [Hz1 Hz2]]].
        apply (reach_trans g nodes y z v); [apply (r_low _ Hr y z Hy Hz1 Hz2)|].
        destruct (le_lt_dec (ix s v) (ix s z)) as [Hc | Hc].
        * apply IH; [lia | exact Hz1 | exact Hc].
        * apply (r_up _ Hr z v Hz1 Hv). lia.
  Qed.

  Lemma all_reach_active s v : tinv nodes s -> rinv s -> In v (stk s) -> above_ok s v ->
    forall y, In y (stk s) -> R y v.
  Proof.
    intros Hi Hr Hv Hab y Hy. destruct (le_lt_dec (ix s v) (ix s y)) as [Hc | Hc].
    - apply (reach_down s v Hi Hr Hv Hab (ix s y) y); [lia | exact Hy | exact Hc].
    - apply (r_up _ Hr y v Hy Hv). lia.
  Qed.

  Lemma set_low_rinv s v x : rinv s ->
    (forall z, In z (stk s) -> ix s z = x -> R v z) -> rinv (set_low s v x).
  Proof.
    intros [R1 R2 R3] Hz. constructor; simpl.
    - exact R1.
    - intros y z Hy Hzs. unfold lw, ix. simpl. fold (ix s z). destruct (Nat.eq_dec v y) as [<-|Hn].
      + rewrite agetd_aset_eq. apply Hz. exact Hzs.
      + rewrite agetd_aset_neq by exact Hn. apply R2; assumption.
    - exact R3.
  Qed.

  Lemma set_low_lw_other s v x y : y <> v -> lw (set_low s v x) y = lw s y.
  Proof. intros Hn. unfold lw. simpl. apply agetd_aset_neq. congruence. Qed.

  Lemma set_low_lw_same s v x : lw (set_low s v x) v = x.
  Proof. unfold lw. simpl. apply agetd_aset_eq. Qed.

  (* second specification of a call strongconnect(w), on top of TarjanProofs.sc_post *)
  Definition sc_post2 (s : st) (w : nat) (s' : st) : Prop :=
    rinv s' /\ (forall y, In y (stk s) -> lw s' y = lw s y) /\
    (forall y, In y (stk s') -> ~ In y (stk s) -> lw s' w <= lw s' y /\ lw s' y < ix s' y).

  Definition rec_ok2 (rec : nat -> st -> option st) (f : nat) : Prop :=
    forall s w s', tinv nodes s -> rinv s -> aget (idx s) w = None -> In w nodes -> count_un nodes s < f ->
                   (forall x, In x (stk s) -> R x w) -> rec w s = Some s' -> sc_post2 s w s'.

  Lemma sc_loop_spec2 rec f v : rec_ok nodes rec f -> rec_ok2 rec f -> In v nodes ->
    forall ws s s', incl ws (nbr g v) -> tinv nodes s -> rinv s -> In v (stk s) -> count_un nodes s < f ->
      above_ok s v -> sc_loop rec nodes v ws s = Some s' ->
      rinv s' /\ above_ok s' v /\ (forall y, In y (stk s) -> y <> v -> lw s' y = lw s y).
  Proof.
    intros Hrec Hrec2 Hvn. induction ws as [|a r IH]; intros s s' Hws Hinv Hr Hv Hc Hab Hrun; simpl in Hrun.
    - inversion Hrun; subst. split; [exact Hr|]. split; [exact Hab|]. intros; reflexivity.
    - assert (Hwr : incl r (nbr g v)) by (intros x Hx; apply Hws; right; exact Hx).
      destruct (negb (mem a nodes)) eqn:Em; [apply (IH s s'); assumption|].
      apply negb_false_iff in Em. apply mem_In in Em.
      assert (Hedge : edge g nodes v a) by (repeat split; try assumption; apply Hws; left; reflexivity).
      destruct (aget (idx s) a) as [iw|] eqn:Ea.
      + destruct (mem a (onstk s)) eqn:Eon; [|apply (IH s s'); assumption].
        apply mem_In in Eon. apply (t_on _ _ Hinv) in Eon.
        assert (Hia : ix s a = iw) by (unfold ix, agetd; rewrite Ea; reflexivity).
        fold (lw s v) in Hrun.
        set (x := Nat.min (lw s v) iw) in *.
        assert (Hi1 : tinv nodes (set_low s v x)).
        { apply set_low_tinv; [exact Hinv | exact Hv | apply Nat.le_min_l |].
          unfold x. destruct (Nat.min_dec (lw s v) iw) as [E | E]; rewrite E.
          - destruct (t_low _ _ Hinv v Hv) as [_ Hz]. exact Hz.
          - exists a. split; [exact Eon | exact Hia]. }
        assert (Hr1 : rinv (set_low s v x)).
        { apply set_low_rinv; [exact Hr|]. intros z Hz Hzx. unfold x in Hzx.
          destruct (Nat.min_dec (lw s v) iw) as [E | E]; rewrite E in Hzx.
          - apply (r_low _ Hr v z Hv Hz Hzx).
          - assert (z = a).
            { apply (stk_sorted_inj (ix s) (stk s)); [apply (t_sorted _ _ Hinv) | exact Hz | exact Eon | lia]. }
            subst z. eapply reach_step; [exact Hedge | apply reach_refl]. }
        assert (Hab1 : above_ok (set_low s v x) v).
        { intros y Hy Hlt. change (ix (set_low s v x) v) with (ix s v) in Hlt.
          change (ix (set_low s v x) y) with (ix s y) in *. simpl in Hy.
          assert (Hn : y <> v) by (intros ->; lia).
          rewrite set_low_lw_same, (set_low_lw_other s v x y Hn).
          destruct (Hab y Hy Hlt) as [H1 H2]. split; [|exact H2]. unfold x. pose proof (Nat.le_min_l (lw s v) iw). lia. }
        destruct (IH (set_low s v x) s' Hwr Hi1 Hr1 Hv Hc Hab1 Hrun) as [F1 [F2 F3]].
        split; [exact F1|]. split; [exact F2|].
        intros y Hy Hn. rewrite (F3 y Hy Hn). apply set_low_lw_other. exact Hn.
      + destruct (Hrec s a Hinv Ea Em Hc) as [s1 [E1 (P1 & P2 & P3 & P4 & _)]].
        rewrite E1 in Hrun.
        assert (Hpre : forall x, In x (stk s) -> R x a).
        { intros x Hx. apply (reach_trans g nodes x v a); [apply (all_reach_active s v); assumption|].
          eapply reach_step; [exact Hedge | apply reach_refl]. }
        destruct (Hrec2 s a s1 Hinv Hr Ea Em Hc Hpre E1) as (Q1 & Q3 & Q2).
        fold (lw s1 v) in Hrun. fold (lw s1 a) in Hrun.
        set (x := Nat.min (lw s1 v) (lw s1 a)) in *.
        assert (Hv1 : In v (stk s1)) by (eapply ext_stk_in; eassumption).
        assert (Hvk : In v (keys s)) by (apply (stk_in_keys nodes); assumption).
        assert (Hixv : ix s1 v = ix s v) by (apply ext_ix; assumption).
        assert (Hlv : lw s1 v <= ix s v).
        { destruct (t_low _ _ P1 v Hv1) as [Hl _]. lia. }
        assert (Hctr : ix s v < ctr s) by (apply (t_ctr _ _ Hinv); exact Hv).
        assert (Hcase : lw s1 v <= lw s1 a \/ In a (stk s1)).
        { destruct P4 as [P4 | P4]; [right; exact P4 | left; lia]. }
        assert (Hi2 : tinv nodes (set_low s1 v x)).
        { apply set_low_tinv; [exact P1 | exact Hv1 | apply Nat.le_min_l |]. unfold x.
          destruct (le_lt_dec (lw s1 v) (lw s1 a)) as [Hle | Hlt].
          - rewrite Nat.min_l by exact Hle. destruct (t_low _ _ P1 v Hv1) as [_ Hz]. exact Hz.
          - rewrite Nat.min_r by lia. destruct Hcase as [Hc1 | Hc1]; [lia|].
            destruct (t_low _ _ P1 a Hc1) as [_ Hz]. exact Hz. }
        assert (Hr2 : rinv (set_low s1 v x)).
        { apply set_low_rinv; [exact Q1|]. intros z Hz Hzx. unfold x in Hzx.
          destruct (le_lt_dec (lw s1 v) (lw s1 a)) as [Hle | Hlt].
          - rewrite Nat.min_l in Hzx by exact Hle. apply (r_low _ Q1 v z Hv1 Hz Hzx).
          - rewrite Nat.min_r in Hzx by lia. destruct Hcase as [Hc1 | Hc1]; [lia|].
            eapply reach_step; [exact Hedge|]. apply (r_low _ Q1 a z Hc1 Hz Hzx). }
        assert (Hab2 : above_ok (set_low s1 v x) v).
        { intros y Hy Hlt. change (ix (set_low s1 v x) v) with (ix s1 v) in Hlt.
          change (ix (set_low s1 v x) y) with (ix s1 y) in *. simpl in Hy.
          assert (Hn : y <> v) by (intros ->; lia).
          rewrite set_low_lw_same, (set_low_lw_other s1 v x y Hn).
          pose proof (Nat.le_min_l (lw s1 v) (lw s1 a)). pose proof (Nat.le_min_r (lw s1 v) (lw s1 a)).
          destruct (in_dec Nat.eq_dec y (stk s)) as [Hys | Hys].
          - assert (Hyk : In y (keys s)) by (apply (stk_in_keys nodes); assumption).
            rewrite (ext_ix s s1 y P2 Hyk), Hixv in Hlt.
            destruct (Hab y Hys Hlt) as [H1 H2].
            rewrite (Q3 y Hys), (ext_ix s s1 y P2 Hyk). pose proof (Q3 v Hv). unfold x. lia.
          - destruct (Q2 y Hy Hys) as [H1 H2]. unfold x. lia. }
        assert (Hc2 : count_un nodes (set_low s1 v x) < f).
        { pose proof (count_un_mono nodes s s1 P2) as Hm.
          change (count_un nodes (set_low s1 v x)) with (count_un nodes s1). lia. }
        destruct (IH (set_low s1 v x) s' Hwr Hi2 Hr2 Hv1 Hc2 Hab2 Hrun) as [F1 [F2 F3]].
        split; [exact F1|]. split; [exact F2|].
        intros y Hy Hn. assert (Hy1 : In y (stk s1)) by (eapply ext_stk_in; eassumption).
        rewrite (F3 y Hy1 Hn), (set_low_lw_other s1 v x y Hn). apply Q3. exact Hy.
  Qed.

  Lemma enter_rinv s v : tinv nodes s -> rinv s -> aget (idx s) v = None ->
    (forall x, In x (stk s) -> R x v) -> rinv (enter v s).
  Proof.
    intros Hinv [R1 R2 R3] Hnone Hpre.
    assert (Hvk : ~ In v (keys s)) by (apply aget_None_keys; exact Hnone).
    assert (Hsk : forall y, In y (stk s) -> y <> v).
    { intros y Hy ->. apply Hvk. apply (stk_in_keys nodes); assumption. }
    assert (Hix : forall y, y <> v -> ix (enter v s) y = ix s y).
    { intros y Hy. unfold ix. simpl. apply agetd_aset_neq. congruence. }
    assert (Hlw : forall y, y <> v -> lw (enter v s) y = lw s y).
    { intros y Hy. unfold lw. simpl. apply agetd_aset_neq. congruence. }
    assert (Hixv : ix (enter v s) v = ctr s) by (unfold ix; simpl; apply agetd_aset_eq).
    assert (Hlwv : lw (enter v s) v = ctr s) by (unfold lw; simpl; apply agetd_aset_eq).
    constructor; simpl.
    - intros x y [<- | Hx] [<- | Hy] Hle.
      + apply reach_refl.
      + rewrite Hixv, (Hix y (Hsk y Hy)) in Hle. pose proof (t_ctr _ _ Hinv y Hy). lia.
      + apply Hpre. exact Hx.
      + rewrite (Hix x (Hsk x Hx)), (Hix y (Hsk y Hy)) in Hle. apply R1; assumption.
    - intros y z [<- | Hy] [<- | Hz] E.
      + apply reach_refl.
      + rewrite Hlwv, (Hix z (Hsk z Hz)) in E. pose proof (t_ctr _ _ Hinv z Hz). lia.
      + rewrite Hixv, (Hlw y (Hsk y Hy)) in E. destruct (t_low _ _ Hinv y Hy) as [H1 _].
        pose proof (t_ctr _ _ Hinv y Hy). lia.
      + rewrite (Hix z (Hsk z Hz)), (Hlw y (Hsk y Hy)) in E. apply R2; assumption.
    - exact R3.
  Qed.

  Lemma strongconnect_spec2 : forall f, rec_ok2 (strongconnect f g nodes) f.
  Proof.
    induction f as [|f IH]; intros s v s' Hinv Hr Hnone Hv Hc Hpre Hrun; [lia|].
    simpl in Hrun.
    pose proof (enter_tinv nodes s v Hinv Hnone Hv) as Hi1.
    pose proof (enter_ext s v Hnone) as He1.
    pose proof (enter_rinv s v Hinv Hr Hnone Hpre) as Hr1.
    assert (Hc1 : count_un nodes (enter v s) < f).
    { pose proof (count_un_enter nodes s v Hnone Hv). lia. }
    assert (Hv1 : In v (stk (enter v s))) by (left; reflexivity).
    assert (Hvk : ~ In v (keys s)) by (apply aget_None_keys; exact Hnone).
    assert (Hab1 : above_ok (enter v s) v).
    { intros y Hy Hlt. exfalso. pose proof (t_ctr _ _ Hi1 y Hy) as H1. simpl in H1.
      assert (E : ix (enter v s) v = ctr s) by (unfold ix; simpl; apply agetd_aset_eq). lia. }
    destruct (sc_loop_spec nodes (strongconnect f g nodes) f v (strongconnect_spec g nodes f)
                (nbr g v) (enter v s) Hi1 Hv1 Hc1) as [s2 [E2 [Hi2 He2]]].
    rewrite E2 in Hrun.
    destruct (sc_loop_spec2 (strongconnect f g nodes) f v (strongconnect_spec g nodes f) IH Hv
                (nbr g v) (enter v s) s2 (incl_refl _) Hi1 Hr1 Hv1 Hc1 Hab1 E2) as [Hr2 [Hab2 Hlow2]].
    destruct (e_stk _ _ He2) as [T HT]. simpl in HT.
    assert (Hlows : forall y, In y (stk s) -> lw s2 y = lw s y).
    { intros y Hy. assert (Hn : y <> v) by (intros ->; apply Hvk; apply (stk_in_keys nodes); assumption).
      rewrite (Hlow2 y (or_intror Hy) Hn). unfold lw. simpl. apply agetd_aset_neq. congruence. }
    pose proof (t_sorted _ _ Hi2) as Hsort. rewrite HT in Hsort.
    assert (HTabove : forall y, In y T -> ix s2 v < ix s2 y).
    { intros y Hy. apply stk_sorted_app in Hsort. destruct Hsort as [_ Hs]. apply Hs; [exact Hy | left; reflexivity]. }
    assert (Hvs2 : In v (stk s2)) by (rewrite HT; apply in_or_app; right; left; reflexivity).
    assert (HTs2 : forall y, In y T -> In y (stk s2)) by (intros y Hy; rewrite HT; apply in_or_app; left; exact Hy).
    unfold finish in Hrun. fold (lw s2 v) in Hrun. fold (ix s2 v) in Hrun.
    destruct (lw s2 v =? ix s2 v) eqn:E.
    - (* the component T ++ [v] is popped *)
      assert (HvT : ~ In v T).
      { intros H. specialize (HTabove v H). lia. }
      rewrite HT, (pop_until_spec v T (stk s) (onstk s2) [] HvT) in Hrun. inversion Hrun; subst s'. clear Hrun.
      unfold sc_post2. simpl. split; [|split].
      + constructor; simpl.
        * intros x y Hx Hy. apply (r_up _ Hr2); rewrite HT; apply in_or_app; right; right; assumption.
        * intros y z Hy Hz. apply (r_low _ Hr2); rewrite HT; apply in_or_app; right; right; assumption.
        * intros c x y Hc' Hx Hy. apply in_app_or in Hc'. destruct Hc' as [Hc' | [<- | []]].
          -- apply (r_comp _ Hr2 c); assumption.
          -- assert (Hin : forall z, In z (T ++ [v]) -> In z (stk s2) /\ ix s2 v <= ix s2 z).
             { intros z Hz. apply in_app_or in Hz. destruct Hz as [Hz | [<- | []]].
               - split; [apply HTs2; exact Hz | specialize (HTabove z Hz); lia].
               - split; [exact Hvs2 | lia]. }
             destruct (Hin x Hx) as [Hx1 Hx2]. destruct (Hin y Hy) as [Hy1 Hy2].
             apply (reach_trans g nodes x v y).
             ++ apply (reach_down s2 v Hi2 Hr2 Hvs2 Hab2 (ix s2 x) x); [lia | exact Hx1 | exact Hx2].
             ++ apply (r_up _ Hr2 v y Hvs2 Hy1 Hy2).
      + exact Hlows.
      + intros y Hy Hn. contradiction.
    - (* nothing popped *)
      inversion Hrun; subst s'. clear Hrun. apply Nat.eqb_neq in E.
      unfold sc_post2. split; [exact Hr2|]. split; [exact Hlows|].
      intros y Hy Hn. rewrite HT in Hy. apply in_app_or in Hy. destruct Hy as [Hy | [<- | Hy]].
      + apply Hab2; [apply HTs2; exact Hy | apply HTabove; exact Hy].
      + destruct (t_low _ _ Hi2 v Hvs2) as [Hle _]. lia.
      + contradiction.
  Qed.

  Lemma rinv_st0 : rinv st0.
  Proof. constructor; simpl; intros; contradiction. Qed.

  Lemma scc_main_spec2 : forall vs s s',
    incl vs nodes -> tinv nodes s -> rinv s -> stk s = [] ->
    scc_main (scc_fuel nodes) g nodes vs s = Some s' -> rinv s'.
  Proof.
    induction vs as [|v r IH]; intros s s' Hincl Hinv Hr Hstk Hrun; cbn [scc_main] in Hrun.
    - inversion Hrun; subst. exact Hr.
    - assert (Hri : incl r nodes) by (intros x Hx; apply Hincl; right; exact Hx).
      destruct (aget (idx s) v) as [i|] eqn:Ea.
      + apply (IH s s'); assumption.
      + assert (Hv : In v nodes) by (apply Hincl; left; reflexivity).
        assert (Hc : count_un nodes s < scc_fuel nodes).
        { unfold scc_fuel, count_un. pose proof (filter_len_all (unidx s) nodes). lia. }
        destruct (strongconnect_spec g nodes (scc_fuel nodes) s v Hinv Ea Hv Hc) as [s1 [F1 (P1 & P2 & P3 & _ & P5)]].
        rewrite F1 in Hrun.
        assert (Hpre : forall x, In x (stk s) -> R x v) by (rewrite Hstk; intros x []).
        destruct (strongconnect_spec2 (scc_fuel nodes) s v s1 Hinv Hr Ea Hv Hc Hpre F1) as [Q1 _].
        apply (IH s1 s'); try assumption. apply P5. exact Hstk.
  Qed.

  Theorem scc_components_strongly_connected cs :
    scc g nodes = Some cs -> forall x y, same_comp cs x y -> mutual g nodes x y.
  Proof.
    unfold scc, scc_state. intros H x y [c [Hc [Hx Hy]]].
    destruct (scc_main (scc_fuel nodes) g nodes nodes st0) as [s|] eqn:E; [|discriminate].
    simpl in H. inversion H; subst cs.
    pose proof (scc_main_spec2 nodes st0 s (incl_refl nodes) (tinv_st0 nodes) rinv_st0 eq_refl E) as Hr.
    split; apply (r_comp _ Hr c); assumption.
  Qed.
End Reach.
