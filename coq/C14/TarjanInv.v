(* Tarjan (model [strongconnect]): the state invariant and its preservation by the elementary steps
   enter / set_low / finish.  Used by TarjanProofs.v for the partition theorem. *)
From Coq Require Import List Arith Bool Lia Permutation.
From SV Require Import C14.Scc C14.SccSpec C14.SccLemmas.
Import ListNotations.

Definition keys (s : st) : list nat := map fst (idx s).
Definition ix (s : st) (x : nat) : nat := agetd 0 (idx s) x.
Definition lw (s : st) (x : nat) : nat := agetd 0 (low s) x.

(* indices strictly decrease from the top of the stack to its bottom *)
Fixpoint stk_sorted (f : nat -> nat) (l : list nat) : Prop :=
  match l with
  | [] => True
  | x :: r => (forall y, In y r -> f y < f x) /\ stk_sorted f r
  end.

Lemma stk_sorted_ext f f' l : (forall x, In x l -> f x = f' x) -> stk_sorted f l -> stk_sorted f' l.
Proof.
  induction l as [|a r IH]; simpl; [tauto|].
  intros He [H1 H2]. split.
  - intros y Hy. rewrite <- (He y), <- (He a) by auto. apply H1. exact Hy.
  - apply IH; [intros x Hx; apply He; right; exact Hx | exact H2].
Qed.

Lemma stk_sorted_app f a b :
  stk_sorted f (a ++ b) -> stk_sorted f b /\ forall x y, In x a -> In y b -> f y < f x.
Proof.
  induction a as [|x r IH]; simpl.
  - intros H. split; [exact H | intros x y []].
  - intros [H1 H2]. destruct (IH H2) as [H3 H4]. split; [exact H3|].
    intros x' y [<- | Hx] Hy.
    + apply H1. apply in_or_app. right. exact Hy.
    + apply H4; assumption.
Qed.

Record tinv (nodes : list nat) (s : st) : Prop := {
  t_keys : forall x, In x (keys s) <-> In x (stk s) \/ In x (concat (comps s));
  t_nodup : NoDup (stk s ++ concat (comps s));
  t_nonempty : Forall (fun c => c <> []) (comps s);
  t_nodes : forall x, In x (keys s) -> In x nodes;
  t_on : forall x, In x (onstk s) <-> In x (stk s);
  t_sorted : stk_sorted (ix s) (stk s);
  t_ctr : forall x, In x (stk s) -> ix s x < ctr s;
  t_low : forall y, In y (stk s) -> lw s y <= ix s y /\ exists z, In z (stk s) /\ ix s z = lw s y
}.

(* s' extends s: the stack grew on top, old indices are unchanged, the counter did not decrease *)
Record ext (s s' : st) : Prop := {
  e_stk : exists T, stk s' = T ++ stk s;
  e_idx : forall x, In x (keys s) -> aget (idx s') x = aget (idx s) x;
  e_ctr : ctr s <= ctr s'
}.

Lemma In_keys_aget {A} (m : list (nat * A)) k : In k (map fst m) -> exists a, aget m k = Some a.
Proof.
  intros H. destruct (aget m k) as [a|] eqn:E; [exists a; reflexivity|].
  apply aget_None_keys in E. contradiction.
Qed.

Lemma ext_keys s s' x : ext s s' -> In x (keys s) -> In x (keys s').
Proof.
  intros He Hx. pose proof (e_idx _ _ He x Hx) as H.
  destruct (In_keys_aget (idx s) x Hx) as [a Ha]. rewrite Ha in H.
  eapply aget_In_keys. exact H.
Qed.

Lemma ext_ix s s' x : ext s s' -> In x (keys s) -> ix s' x = ix s x.
Proof. intros He Hx. unfold ix, agetd. rewrite (e_idx _ _ He x Hx). reflexivity. Qed.

Lemma ext_refl s : ext s s.
Proof. constructor; [exists []; reflexivity | reflexivity | lia]. Qed.

Lemma ext_trans s1 s2 s3 : ext s1 s2 -> ext s2 s3 -> ext s1 s3.
Proof.
  intros H12 H23. constructor.
  - destruct (e_stk _ _ H12) as [T1 E1]. destruct (e_stk _ _ H23) as [T2 E2].
    exists (T2 ++ T1). rewrite E2, E1, app_assoc. reflexivity.
  - intros x Hx. rewrite (e_idx _ _ H23) by (eapply ext_keys; eassumption).
    apply (e_idx _ _ H12). exact Hx.
  - pose proof (e_ctr _ _ H12). pose proof (e_ctr _ _ H23). lia.
Qed.

Lemma ext_stk_in s s' x : ext s s' -> In x (stk s) -> In x (stk s').
Proof.
  intros He Hx. destruct (e_stk _ _ He) as [T E]. rewrite E. apply in_or_app. right. exact Hx.
Qed.

Lemma stk_in_keys nodes s x : tinv nodes s -> In x (stk s) -> In x (keys s).
Proof. intros Hi Hx. apply (t_keys _ _ Hi). left. exact Hx. Qed.

(* ---------------------------------------------------------------- set_low *)
Lemma set_low_tinv nodes s v x :
  tinv nodes s -> In v (stk s) -> x <= lw s v -> (exists z, In z (stk s) /\ ix s z = x) ->
  tinv nodes (set_low s v x).
Proof.
  intros [T1 T2 T3 T4 T5 T6 T7 T8] Hv Hx Hz.
  constructor; simpl; try assumption.
  intros y Hy. unfold lw, ix. simpl. destruct (Nat.eq_dec v y) as [<-|Hn].
  - rewrite agetd_aset_eq. split; [|exact Hz].
    destruct (T8 v Hv) as [H1 _]. unfold lw, ix in *. lia.
  - rewrite agetd_aset_neq by exact Hn. apply T8. exact Hy.
Qed.

Lemma set_low_ext s v x : ext s (set_low s v x).
Proof. constructor; simpl; [exists []; reflexivity | reflexivity | lia]. Qed.

(* ---------------------------------------------------------------- enter *)
Lemma enter_tinv nodes s v :
  tinv nodes s -> aget (idx s) v = None -> In v nodes -> tinv nodes (enter v s).
Proof.
  intros [T1 T2 T3 T4 T5 T6 T7 T8] Hnone Hv.
  assert (Hvk : ~ In v (keys s)) by (apply aget_None_keys; exact Hnone).
  assert (Hix : forall y, In y (keys s) -> ix (enter v s) y = ix s y).
  { intros y Hy. unfold ix. simpl. apply agetd_aset_neq. intros ->. contradiction. }
  assert (Hlw : forall y, In y (keys s) -> lw (enter v s) y = lw s y).
  { intros y Hy. unfold lw. simpl. apply agetd_aset_neq. intros ->. contradiction. }
  assert (Hsk : forall y, In y (stk s) -> In y (keys s)) by (intros y Hy; apply T1; left; exact Hy).
  constructor; simpl.
  - intros x. unfold keys. simpl. rewrite keys_aset. fold (keys s). rewrite T1.
    split; intros H; [destruct H as [-> | [H | H]]; auto | destruct H as [[<- | H] | H]; auto].
  - constructor; [|exact T2]. intros H. apply Hvk. apply T1. apply in_app_or in H. exact H.
  - exact T3.
  - intros x. unfold keys. simpl. rewrite keys_aset. intros [-> | H]; [exact Hv | apply T4; exact H].
  - intros x. rewrite T5. tauto.
  - split.
    + intros y Hy. rewrite (Hix y (Hsk y Hy)). unfold ix at 2. simpl. rewrite agetd_aset_eq.
      apply T7. exact Hy.
    + apply (stk_sorted_ext (ix s)); [|exact T6]. intros x Hx. symmetry. apply Hix. apply Hsk. exact Hx.
  - intros x [<- | Hx].
    + unfold ix. simpl. rewrite agetd_aset_eq. lia.
    + rewrite (Hix x (Hsk x Hx)). specialize (T7 x Hx). lia.
  - intros y [<- | Hy].
    + unfold lw, ix. simpl. rewrite !agetd_aset_eq. split; [lia|].
      exists v. split; [left; reflexivity|]. rewrite agetd_aset_eq. reflexivity.
    + rewrite (Hix y (Hsk y Hy)), (Hlw y (Hsk y Hy)). destruct (T8 y Hy) as [H1 [z [Hz1 Hz2]]].
      split; [exact H1|]. exists z. split; [right; exact Hz1|]. rewrite (Hix z (Hsk z Hz1)). exact Hz2.
Qed.

Lemma enter_ext s v : aget (idx s) v = None -> ext s (enter v s).
Proof.
  intros Hnone. constructor; simpl.
  - exists [v]. reflexivity.
  - intros x Hx. apply aget_aset_neq. intros ->. apply aget_None_keys in Hnone. contradiction.
  - lia.
Qed.

(* ---------------------------------------------------------------- the pop loop *)
Fixpoint remove_all (xs : list nat) (l : list nat) : list nat :=
  match xs with
  | [] => l
  | x :: r => remove_all r (remove Nat.eq_dec x l)
  end.

Lemma remove_all_In xs : forall l y, In y (remove_all xs l) <-> In y l /\ ~ In y xs.
Proof.
  induction xs as [|x r IH]; intros l y; simpl.
  - tauto.
  - rewrite IH. split.
    + intros [H1 H2]. apply in_remove in H1. destruct H1 as [H1 H3]. split; [exact H1|].
      intros [H | H]; [congruence | contradiction].
    + intros [H1 H2]. split; [apply in_in_remove; [intros ->; apply H2; left; reflexivity | exact H1]|].
      intros H. apply H2. right. exact H.
Qed.

Lemma pop_until_spec v T : forall S0 on acc,
  ~ In v T ->
  pop_until v (T ++ v :: S0) on acc = Some (S0, remove_all (T ++ [v]) on, acc ++ T ++ [v]).
Proof.
  induction T as [|w r IH]; intros S0 on acc Hv; simpl.
  - rewrite Nat.eqb_refl. reflexivity.
  - destruct (w =? v) eqn:E.
    + apply Nat.eqb_eq in E. exfalso. apply Hv. left. exact E.
    + rewrite IH by (intros H; apply Hv; right; exact H). rewrite <- app_assoc. reflexivity.
Qed.

Lemma NoDup_app_inv (a b : list nat) :
  NoDup (a ++ b) -> NoDup a /\ NoDup b /\ forall x, In x a -> ~ In x b.
Proof.
  induction a as [|x r IH]; simpl; intros H.
  - split; [constructor|]. split; [exact H | intros x []].
  - inversion H as [|? ? Hx Hr]; subst. destruct (IH Hr) as [H1 [H2 H3]]. split; [|split].
    + constructor; [|exact H1]. intros Hi. apply Hx. apply in_or_app. left. exact Hi.
    + exact H2.
    + intros y [<- | Hy]; [intros Hb; apply Hx; apply in_or_app; right; exact Hb | apply H3; exact Hy].
Qed.

(* ---------------------------------------------------------------- finish *)
Lemma finish_spec nodes s0 s v T :
  tinv nodes s -> stk s = T ++ v :: stk s0 ->
  exists s', finish v s = Some s' /\ tinv nodes s' /\
    idx s' = idx s /\ ctr s' = ctr s /\
    ((stk s' = stk s0 /\ lw s' v = ix s' v) \/ (s' = s /\ lw s v <> ix s v)).
Proof.
  intros Hinv Hstk. pose proof Hinv as [T1 T2 T3 T4 T5 T6 T7 T8].
  unfold finish. fold (lw s v). fold (ix s v).
  destruct (lw s v =? ix s v) eqn:E.
  2:{ apply Nat.eqb_neq in E. exists s. split; [reflexivity|]. split; [exact Hinv|]. split; [reflexivity|]. split; [reflexivity|].
      right. split; [reflexivity | exact E]. }
  apply Nat.eqb_eq in E.
  assert (HvT : ~ In v T).
  { rewrite Hstk in T2. rewrite <- app_assoc in T2. apply NoDup_remove_2 in T2.
    intros H. apply T2. apply in_or_app. left. exact H. }
  rewrite Hstk. rewrite pop_until_spec by exact HvT. simpl.
  eexists. split; [reflexivity|].
  assert (Hsplit : forall x, In x (stk s) <-> In x (T ++ [v]) \/ In x (stk s0)).
  { intros x. rewrite Hstk, !in_app_iff. simpl. tauto. }
  assert (Hdisj : forall x, In x (T ++ [v]) -> ~ In x (stk s0)).
  { intros x Hx H0. rewrite Hstk in T2. apply NoDup_app_inv in T2. destruct T2 as [T2 _].
    assert (Eq : T ++ v :: stk s0 = (T ++ [v]) ++ stk s0) by (rewrite <- app_assoc; reflexivity).
    rewrite Eq in T2. apply NoDup_app_inv in T2. destruct T2 as [_ [_ T2]]. apply (T2 x Hx H0). }
  destruct (stk_sorted_app (ix s) (T ++ [v]) (stk s0)) as [S1 S2].
  { assert (Eq : T ++ v :: stk s0 = (T ++ [v]) ++ stk s0) by (rewrite <- app_assoc; reflexivity).
    rewrite <- Eq, <- Hstk. exact T6. }
  split; [|split; [reflexivity | split; [reflexivity|]]].
  - constructor; simpl.
    + intros x. unfold keys. simpl. fold (keys s). rewrite T1, Hsplit, concat_app. simpl.
      rewrite app_nil_r, !in_app_iff. simpl. tauto.
    + rewrite concat_app. simpl. rewrite app_nil_r.
      apply (Permutation_NoDup (l := stk s ++ concat (comps s))); [|exact T2].
      rewrite Hstk.
      assert (Eq : T ++ v :: stk s0 = (T ++ [v]) ++ stk s0) by (rewrite <- app_assoc; reflexivity).
      rewrite Eq. rewrite <- app_assoc.
      rewrite (app_assoc (stk s0)). apply Permutation_app_comm.
    + apply Forall_app. split; [exact T3|]. constructor; [|constructor].
      destruct T; discriminate.
    + exact T4.
    + intros x. rewrite remove_all_In, T5, Hsplit. split.
      * intros [[H | H] Hn]; [contradiction | exact H].
      * intros H. split; [right; exact H|]. intros Hx. apply (Hdisj x Hx H).
    + unfold ix. simpl. exact S1.
    + intros x Hx. unfold ix. simpl. apply T7. apply Hsplit. right. exact Hx.
    + intros y Hy. unfold lw, ix. simpl. fold (lw s y). fold (ix s y).
      destruct (T8 y) as [H1 [z [Hz1 Hz2]]]; [apply Hsplit; right; exact Hy|].
      split; [exact H1|]. exists z. split; [|exact Hz2].
      apply Hsplit in Hz1. destruct Hz1 as [Hz1 | Hz1]; [|exact Hz1].
      exfalso. specialize (S2 z y Hz1 Hy). lia.
  - left. split; [reflexivity|]. unfold lw, ix. simpl. exact E.
Qed.
