(* Specification of property C14 (what the theorems and the per-run certificates talk about) and boolean
   checkers for it.  Soundness of the checkers: SccSpecProofs.v.  Nothing here mentions the model. *)
From Coq Require Import List Arith Bool.
From SV Require Import C14.Scc.
Import ListNotations.

(* ---------------------------------------------------------------- the graph a call denotes *)
(* in-set edge: both ends in the node iterable, w listed by neighbors(u) *)
Definition edge (g : graph) (nodes : list nat) (u w : nat) : Prop :=
  In u nodes /\ In w nodes /\ In w (nbr g u).

(* walks with at least one edge *)
Inductive path1 (g : graph) (nodes : list nat) : nat -> nat -> Prop :=
| path1_one : forall u w, edge g nodes u w -> path1 g nodes u w
| path1_cons : forall u v w, edge g nodes u v -> path1 g nodes v w -> path1 g nodes u w.

(* reachability (zero or more in-set edges) *)
Inductive reach (g : graph) (nodes : list nat) : nat -> nat -> Prop :=
| reach_refl : forall u, reach g nodes u u
| reach_step : forall u v w, edge g nodes u v -> reach g nodes v w -> reach g nodes u w.

Definition mutual g nodes u v : Prop := reach g nodes u v /\ reach g nodes v u.

(* a closed walk with at least one edge (a self loop is a cycle) *)
Definition has_cycle (g : graph) (nodes : list nat) : Prop := exists v, path1 g nodes v v.

(* ---------------------------------------------------------------- strongly connected components *)
Definition same_comp (cs : list (list nat)) (x y : nat) : Prop :=
  exists c, In c cs /\ In x c /\ In y c.

(* non-empty, pairwise disjoint (and duplicate free), cover exactly the node list *)
Definition is_partition (nodes : list nat) (cs : list (list nat)) : Prop :=
  Forall (fun c => c <> []) cs /\ NoDup (concat cs) /\ forall x, In x (concat cs) <-> In x nodes.

Definition scc_classes g nodes cs : Prop :=
  forall x y, In x nodes -> In y nodes -> (same_comp cs x y <-> mutual g nodes x y).

(* sinks first: no edge from an earlier component to a later one *)
Definition sinks_first g nodes (cs : list (list nat)) : Prop :=
  forall i j ci cj u w, nth_error cs i = Some ci -> nth_error cs j = Some cj -> i < j ->
                        In u ci -> In w cj -> ~ edge g nodes u w.

Definition scc_spec g nodes cs : Prop :=
  is_partition nodes cs /\ scc_classes g nodes cs /\ sinks_first g nodes cs.

(* ---------------------------------------------------------------- topological order *)
(* position of the first occurrence *)
Fixpoint pos (x : nat) (l : list nat) : nat :=
  match l with
  | [] => 0
  | y :: r => if y =? x then 0 else S (pos x r)
  end.

Definition topo_order g nodes (order : list nat) : Prop :=
  NoDup order /\ (forall x, In x order <-> In x nodes) /\ length order = length nodes /\
  forall u w, edge g nodes u w -> pos u order < pos w order.

(* out = Some order | None (= Status.INFEASIBLE) *)
Definition topo_spec g nodes (out : option (list nat)) : Prop :=
  match out with
  | Some order => topo_order g nodes order
  | None => has_cycle g nodes
  end.

(* ---------------------------------------------------------------- condensation *)
(* out = (components, successor index lists) *)
Definition cedge (succs : list (list nat)) (i j : nat) : Prop :=
  exists l, nth_error succs i = Some l /\ In j l.

Inductive cpath1 (succs : list (list nat)) : nat -> nat -> Prop :=
| cpath1_one : forall i j, cedge succs i j -> cpath1 succs i j
| cpath1_cons : forall i j k, cedge succs i j -> cpath1 succs j k -> cpath1 succs i k.

Definition cond_edges_spec g nodes (cs succs : list (list nat)) : Prop :=
  length succs = length cs /\
  forall i j, cedge succs i j <->
              (i <> j /\ exists ci cj u w, nth_error cs i = Some ci /\ nth_error cs j = Some cj /\
                                           In u ci /\ In w cj /\ edge g nodes u w).

Definition cond_acyclic (succs : list (list nat)) : Prop := forall i, ~ cpath1 succs i i.

Definition cond_spec g nodes (out : list (list nat) * list (list nat)) : Prop :=
  cond_edges_spec g nodes (fst out) (snd out) /\ cond_acyclic (snd out).

(* ================================================================ boolean checkers *)
Fixpoint nodupb (l : list nat) : bool :=
  match l with
  | [] => true
  | x :: r => negb (mem x r) && nodupb r
  end.
Definition inclb (a b : list nat) : bool := forallb (fun x => mem x b) a.
Definition seteqb (a b : list nat) : bool := inclb a b && inclb b a.

(* in-set successors of u *)
Definition succs_in (g : graph) (nodes : list nat) (u : nat) : list nat :=
  if mem u nodes then filter (fun w => mem w nodes) (nbr g u) else [].
Definition edgeb g nodes u w : bool := mem w (succs_in g nodes u).

(* one round: add the in-set successors of everything found so far *)
Fixpoint add_new (ws : list nat) (acc : list nat) : list nat :=
  match ws with
  | [] => acc
  | w :: r => if mem w acc then add_new r acc else add_new r (acc ++ [w])
  end.
Definition closure_step g nodes (acc : list nat) : list nat :=
  add_new (flat_map (succs_in g nodes) acc) acc.
Fixpoint closure_iter (k : nat) g nodes (acc : list nat) : list nat :=
  match k with
  | 0 => acc
  | S k' => closure_iter k' g nodes (closure_step g nodes acc)
  end.
(* everything reachable from s (s itself included) *)
Definition reach_closure g nodes (s : nat) : list nat := closure_iter (length nodes) g nodes [s].
Definition closedb g nodes (acc : list nat) : bool :=
  forallb (fun u => inclb (succs_in g nodes u) acc) acc.
Definition reachb g nodes u v : bool := mem v (reach_closure g nodes u).
(* reachable by at least one edge *)
Definition reach1b g nodes u v : bool :=
  existsb (fun w => reachb g nodes w v) (succs_in g nodes u).

Definition same_compb (cs : list (list nat)) (x y : nat) : bool :=
  existsb (fun c => mem x c && mem y c) cs.

Definition partitionb (nodes : list nat) (cs : list (list nat)) : bool :=
  forallb (fun c => match c with [] => false | _ => true end) cs
  && nodupb (concat cs) && seteqb (concat cs) nodes.

(* the closure of every node is closed (certificate: makes soundness independent of the number of rounds) *)
Definition closures_ok g nodes : bool :=
  forallb (fun x => closedb g nodes (reach_closure g nodes x)) nodes.

Definition classesb g nodes cs : bool :=
  forallb (fun x => forallb (fun y =>
     Bool.eqb (same_compb cs x y) (reachb g nodes x y && reachb g nodes y x)) nodes) nodes.

(* no edge from a component to a later one *)
Fixpoint sinks_firstb g nodes (cs : list (list nat)) : bool :=
  match cs with
  | [] => true
  | c :: r =>
      forallb (fun u => forallb (fun c' => forallb (fun w => negb (edgeb g nodes u w)) c') r) c
      && sinks_firstb g nodes r
  end.

Definition scc_check g nodes cs : bool :=
  partitionb nodes cs && closures_ok g nodes && classesb g nodes cs && sinks_firstb g nodes cs.

Definition has_cycleb g nodes : bool := existsb (fun v => reach1b g nodes v v) nodes.

Definition topo_orderb g nodes order : bool :=
  nodupb order && seteqb order nodes && (length order =? length nodes)
  && forallb (fun u => forallb (fun w => pos u order <? pos w order) (succs_in g nodes u)) nodes.

Definition topo_check g nodes (out : option (list nat)) : bool :=
  match out with
  | Some order => topo_orderb g nodes order
  | None => has_cycleb g nodes
  end.

(* condensation: edge iff some original edge joins two different components; acyclic *)
Definition comp_edgeb g nodes (ci cj : list nat) : bool :=
  existsb (fun u => existsb (fun w => edgeb g nodes u w) cj) ci.

Definition cond_edgesb g nodes (cs succs : list (list nat)) : bool :=
  (length succs =? length cs)
  && forallb (fun i => forallb (fun j =>
        Bool.eqb (mem j (nth i succs []))
                 (negb (i =? j) && comp_edgeb g nodes (nth i cs []) (nth j cs [])))
        (seq 0 (length cs))) (seq 0 (length cs))
  && forallb (fun l => forallb (fun j => j <? length cs) l) succs.

Definition cgraph (succs : list (list nat)) : graph := combine (seq 0 (length succs)) succs.
Definition cond_acyclicb (succs : list (list nat)) : bool :=
  let cn := seq 0 (length succs) in
  closures_ok (cgraph succs) cn && negb (has_cycleb (cgraph succs) cn).

Definition cond_check g nodes (out : list (list nat) * list (list nat)) : bool :=
  cond_edgesb g nodes (fst out) (snd out) && cond_acyclicb (snd out).

Definition ocheck {A} (f : A -> bool) (o : option A) : bool := match o with Some a => f a | None => false end.
