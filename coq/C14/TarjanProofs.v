(* Tarjan (model [scc]): never out of fuel / never a Python error, and the components form a partition of
   the node list (non-empty, pairwise disjoint, covering exactly the node list). *)
From Coq Require Import List Arith Bool Lia.
From SV Require Import C14.Scc C14.SccSpec C14.SccLemmas C14.TarjanInv.
Import ListNotations.

(* ---------------------------------------------------------------- the termination measure *)
Definition unidx (s : st) (x : nat) : bool :=
  match aget (idx s) x with None => true | Some _ => false end.
Definition count_un (nodes : list nat) (s : st) : nat := length (filter (unidx s) nodes).

Lemma filter_len_le {A} (f f' : A -> bool) l :
  (forall x, In x l -> f' x = true -> f x = true) -> length (filter f' l) <= length (filter f l).
Proof.
  induction l as [|a r IH]; simpl; intros H; [lia|].
  assert (IH' : length (filter f' r) <= length (filter f r)).
  { apply IH. intros x Hx. apply H. right. exact Hx. }
  destruct (f' a) eqn:E.
  - rewrite (H a (or_introl eq_refl) E). simpl. lia.
  - destruct (f a); simpl; lia.
Qed.

Lemma filter_len_lt {A} (f f' : A -> bool) l v :
  (forall x, In x l -> f' x = true -> f x = true) -> In v l -> f v = true -> f' v = false ->
  length (filter f' l) < length (filter f l).
Proof.
  induction l as [|a r IH]; simpl; intros H Hv Hf Hf'; [contradiction|].
  assert (Hr : forall x, In x r -> f' x = true -> f x = true) by (intros x Hx; apply H; right; exact Hx).
  pose proof (filter_len_le f f' r Hr) as Hle.
  destruct Hv as [-> | Hv].
  - rewrite Hf, Hf'. simpl. lia.
  - specialize (IH Hr Hv Hf Hf'). destruct (f' a) eqn:E.
    + rewrite (H a (or_introl eq_refl) E). simpl. lia.
    + destruct (f a); simpl; lia.
Qed.

Lemma filter_len_all {A} (f : A -> bool) l : length (filter f l) <= length l.
Proof. induction l as [|a r IH]; simpl; [lia|]. destruct (f a); simpl; lia. Qed.

Lemma unidx_true s x : unidx s x = true <-> ~ In x (keys s).
Proof.
  unfold unidx, keys. destruct (aget (idx s) x) eqn:E.
  - split; [discriminate|]. intros H. exfalso. apply H. eapply aget_In_keys. exact E.
  - split; [|reflexivity]. intros _. apply aget_None_keys. exact E.
Qed.

Lemma count_un_mono nodes s s' : ext s s' -> count_un nodes s' <= count_un nodes s.
Proof.
  intros He. apply filter_len_le. intros x _ H. apply unidx_true. apply unidx_true in H.
  intros Hx. apply H. eapply ext_keys; eassumption.
Qed.

Lemma count_un_enter nodes s v :
  aget (idx s) v = None -> In v nodes -> count_un nodes (enter v s) < count_un nodes s.
Proof.
  intros Hn Hv. apply (filter_len_lt _ _ nodes v).
  - intros x _ H. apply unidx_true. apply unidx_true in H. intros Hx. apply H.
    eapply ext_keys; [apply enter_ext; exact Hn | exact Hx].
  - exact Hv.
  - unfold unidx. rewrite Hn. reflexivity.
  - unfold unidx. simpl. rewrite aget_aset_eq. reflexivity.
Qed.

Section Tarjan.
  Variable g : graph.
  Variable nodes : list nat.

  (* what one call strongconnect(w) guarantees *)
  Definition sc_post (s : st) (w : nat) (s' : st) : Prop :=
    tinv nodes s' /\ ext s s' /\ In w (keys s') /\
    (In w (stk s') \/ ctr s <= lw s' w) /\ (stk s = [] -> stk s' = []).

  Definition rec_ok (rec : nat -> st -> option st) (f : nat) : Prop :=
    forall s w, tinv nodes s -> aget (idx s) w = None -> In w nodes -> count_un nodes s < f ->
                exists s', rec w s = Some s' /\ sc_post s w s'.

  Lemma sc_loop_spec rec f v : rec_ok rec f ->
    forall ws s, tinv nodes s -> In v (stk s) -> count_un nodes s < f ->
      exists s', sc_loop rec nodes v ws s = Some s' /\ tinv nodes s' /\ ext s s'.
  Proof.
    intros Hrec. induction ws as [|a r IH]; intros s Hinv Hv Hc; simpl.
    - exists s. split; [reflexivity|]. split; [exact Hinv | apply ext_refl].
    - destruct (negb (mem a nodes)) eqn:Em; [apply IH; assumption|].
      apply negb_false_iff in Em. apply mem_In in Em.
      destruct (aget (idx s) a) as [iw|] eqn:Ea.
      + destruct (mem a (onstk s)) eqn:Eon; [|apply IH; assumption].
        apply mem_In in Eon. apply (t_on _ _ Hinv) in Eon.
        fold (lw s v).
        assert (Hi1 : tinv nodes (set_low s v (Nat.min (lw s v) iw))).
        { apply set_low_tinv; [exact Hinv | exact Hv | apply Nat.le_min_l |].
          destruct (Nat.min_dec (lw s v) iw) as [E | E]; rewrite E.
          - destruct (t_low _ _ Hinv v Hv) as [_ Hz]. exact Hz.
          - exists a. split; [exact Eon|]. unfold ix, agetd. rewrite Ea. reflexivity. }
        destruct (IH _ Hi1 Hv Hc) as [s' [E1 [E2 E3]]].
        exists s'. split; [exact E1|]. split; [exact E2|].
        eapply ext_trans; [apply set_low_ext | exact E3].
      + destruct (Hrec s a Hinv Ea Em Hc) as [s1 [E1 (P1 & P2 & P3 & P4 & _)]]. rewrite E1.
        fold (lw s1 v). fold (lw s1 a).
        assert (Hv1 : In v (stk s1)) by (eapply ext_stk_in; eassumption).
        assert (Hi2 : tinv nodes (set_low s1 v (Nat.min (lw s1 v) (lw s1 a)))).
        { apply set_low_tinv; [exact P1 | exact Hv1 | apply Nat.le_min_l |].
          destruct (le_lt_dec (lw s1 v) (lw s1 a)) as [Hle | Hlt].
          - rewrite Nat.min_l by exact Hle. destruct (t_low _ _ P1 v Hv1) as [_ Hz]. exact Hz.
          - rewrite Nat.min_r by lia. destruct P4 as [P4 | P4].
            + destruct (t_low _ _ P1 a P4) as [_ Hz]. exact Hz.
            + exfalso. destruct (t_low _ _ P1 v Hv1) as [Hl _].
              pose proof (t_ctr _ _ Hinv v Hv) as Hc1.
              rewrite <- (ext_ix s s1 v P2 (stk_in_keys nodes s v Hinv Hv)) in Hc1. lia. }
        assert (Hc2 : count_un nodes (set_low s1 v (Nat.min (lw s1 v) (lw s1 a))) < f).
        { pose proof (count_un_mono nodes s s1 P2) as Hm.
          change (count_un nodes (set_low s1 v (Nat.min (lw s1 v) (lw s1 a)))) with (count_un nodes s1). lia. }
        destruct (IH _ Hi2 Hv1 Hc2) as [s' [F1 [F2 F3]]].
        exists s'. split; [exact F1|]. split; [exact F2|].
        eapply ext_trans; [exact P2|]. eapply ext_trans; [apply set_low_ext | exact F3].
  Qed.

  Lemma strongconnect_spec : forall f, rec_ok (strongconnect f g nodes) f.
  Proof.
    induction f as [|f IH]; intros s v Hinv Hnone Hv Hc; [lia|].
    simpl.
    pose proof (enter_tinv nodes s v Hinv Hnone Hv) as Hi1.
    pose proof (enter_ext s v Hnone) as He1.
    assert (Hc1 : count_un nodes (enter v s) < f).
    { pose proof (count_un_enter nodes s v Hnone Hv). lia. }
    assert (Hv1 : In v (stk (enter v s))) by (left; reflexivity).
    destruct (sc_loop_spec (strongconnect f g nodes) f v IH (nbr g v) (enter v s) Hi1 Hv1 Hc1)
      as [s2 [E2 [Hi2 He2]]].
    rewrite E2.
    destruct (e_stk _ _ He2) as [T HT]. simpl in HT.
    destruct (finish_spec nodes s s2 v T Hi2 HT) as [s3 [E3 [Hi3 [Hidx [Hctr Hcase]]]]].
    exists s3. split; [exact E3|].
    assert (He02 : ext s s2) by (eapply ext_trans; eassumption).
    assert (Hvk1 : In v (keys (enter v s))).
    { unfold keys. simpl. apply keys_aset. left. reflexivity. }
    assert (Hix2 : ix s2 v = ctr s).
    { rewrite (ext_ix _ _ v He2 Hvk1). unfold ix. simpl. apply agetd_aset_eq. }
    unfold sc_post. split; [exact Hi3|]. split; [|split; [|split]].
    - constructor.
      + destruct Hcase as [[Hs _] | [-> _]].
        * exists []. rewrite Hs. reflexivity.
        * exists (T ++ [v]). rewrite HT, <- app_assoc. reflexivity.
      + intros x Hx. rewrite Hidx. apply (e_idx _ _ He02). exact Hx.
      + rewrite Hctr. apply (e_ctr _ _ He02).
    - unfold keys. rewrite Hidx. fold (keys s2). exact (ext_keys _ _ v He2 Hvk1).
    - destruct Hcase as [[Hs Hl] | [-> _]].
      + right. rewrite Hl. unfold ix. rewrite Hidx. fold (ix s2 v). lia.
      + left. rewrite HT. apply in_or_app. right. left. reflexivity.
    - intros Hempty. destruct Hcase as [[Hs _] | [-> Hne]]; [rewrite Hs; exact Hempty | exfalso].
      rewrite Hempty in HT.
      assert (Hvs : In v (stk s2)) by (rewrite HT; apply in_or_app; right; left; reflexivity).
      destruct (t_low _ _ Hi2 v Hvs) as [Hle [z [Hz1 Hz2]]].
      pose proof (t_sorted _ _ Hi2) as Hs. rewrite HT in Hs.
      apply stk_sorted_app in Hs. destruct Hs as [_ Hs].
      rewrite HT in Hz1. apply in_app_or in Hz1. destruct Hz1 as [Hz1 | [<- | []]].
      + specialize (Hs z v Hz1 (or_introl eq_refl)). lia.
      + apply Hne. symmetry. exact Hz2.
  Qed.

  Lemma tinv_st0 : tinv nodes st0.
  Proof.
    constructor; simpl; try tauto; try constructor.
  Qed.

  Lemma scc_main_spec : forall vs s,
    incl vs nodes -> tinv nodes s -> stk s = [] ->
    exists s', scc_main (scc_fuel nodes) g nodes vs s = Some s' /\ tinv nodes s' /\ stk s' = [] /\
               forall x, In x vs \/ In x (keys s) -> In x (keys s').
  Proof.
    induction vs as [|v r IH]; intros s Hincl Hinv Hstk; cbn [scc_main].
    - exists s. split; [reflexivity|]. split; [exact Hinv|]. split; [exact Hstk|]. intros x [[] | H]. exact H.
    - assert (Hr : incl r nodes) by (intros x Hx; apply Hincl; right; exact Hx).
      destruct (aget (idx s) v) as [i|] eqn:Ea.
      + destruct (IH s Hr Hinv Hstk) as [s' [E1 [E2 [E3 E4]]]].
        exists s'. split; [exact E1|]. split; [exact E2|]. split; [exact E3|].
        intros x [[<- | Hx] | Hx]; apply E4; auto.
        right. eapply aget_In_keys. exact Ea.
      + assert (Hv : In v nodes) by (apply Hincl; left; reflexivity).
        assert (Hc : count_un nodes s < scc_fuel nodes).
        { unfold scc_fuel, count_un. pose proof (filter_len_all (unidx s) nodes). lia. }
        destruct (strongconnect_spec (scc_fuel nodes) s v Hinv Ea Hv Hc) as [s1 [F1 (P1 & P2 & P3 & _ & P5)]].
        rewrite F1.
        destruct (IH s1 Hr P1 (P5 Hstk)) as [s' [E1 [E2 [E3 E4]]]].
        exists s'. split; [exact E1|]. split; [exact E2|]. split; [exact E3|].
        intros x [[<- | Hx] | Hx]; apply E4; auto.
        right. eapply ext_keys; eassumption.
  Qed.

  Theorem scc_partition : exists cs, scc g nodes = Some cs /\ is_partition nodes cs.
  Proof.
    destruct (scc_main_spec nodes st0 (incl_refl nodes) tinv_st0 eq_refl) as [s [E1 [E2 [E3 E4]]]].
    exists (comps s). split.
    - unfold scc, scc_state. rewrite E1. reflexivity.
    - destruct E2 as [T1 T2 T3 T4 _ _ _ _]. rewrite E3 in *. simpl in *. split; [exact T3|]. split; [exact T2|].
      intros x. split.
      + intros H. apply T4. apply T1. right. exact H.
      + intros H. assert (Hk : In x (keys s)) by (apply E4; left; exact H).
        apply T1 in Hk. destruct Hk as [[] | Hk]. exact Hk.
  Qed.
End Tarjan.
