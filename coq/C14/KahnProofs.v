(* Kahn's algorithm (model [topological_sort]): the loop invariant and termination within the fuel. *)
From Coq Require Import List Arith ZArith Bool Lia.
From SV Require Import C14.Scc C14.SccSpec C14.SccLemmas.
Import ListNotations.

(* ---------------------------------------------------------------- counting *)
Definition cnt (l : list nat) (w : nat) : Z := Z.of_nat (count_occ Nat.eq_dec l w).
Definition sumz (l : list Z) : Z := fold_right Z.add 0%Z l.

Lemma cnt_nil w : cnt [] w = 0%Z.
Proof. reflexivity. Qed.

Lemma cnt_cons x l w : cnt (x :: l) w = ((if (x =? w)%nat then 1 else 0) + cnt l w)%Z.
Proof.
  unfold cnt. simpl. destruct (Nat.eq_dec x w) as [->|Hn].
  - rewrite Nat.eqb_refl. lia.
  - apply Nat.eqb_neq in Hn. rewrite Hn. lia.
Qed.

Lemma cnt_nonneg l w : (0 <= cnt l w)%Z.
Proof. unfold cnt. lia. Qed.

Lemma cnt_app l l' w : cnt (l ++ l') w = (cnt l w + cnt l' w)%Z.
Proof. unfold cnt. rewrite count_occ_app. lia. Qed.

Lemma cnt_pos_In l w : (0 < cnt l w)%Z <-> In w l.
Proof.
  unfold cnt. rewrite (count_occ_In Nat.eq_dec l w). lia.
Qed.

Lemma sumz_nonneg {A} (f : A -> Z) l : (forall x, In x l -> (0 <= f x)%Z) -> (0 <= sumz (map f l))%Z.
Proof.
  induction l as [|a r IH]; simpl; intros H; [lia|].
  assert (0 <= f a)%Z by (apply H; left; reflexivity).
  assert (0 <= sumz (map f r))%Z by (apply IH; intros x Hx; apply H; right; exact Hx). lia.
Qed.

Lemma sumz_ge_term {A} (f : A -> Z) l u :
  (forall x, In x l -> (0 <= f x)%Z) -> In u l -> (f u <= sumz (map f l))%Z.
Proof.
  induction l as [|a r IH]; simpl; intros H Hu; [contradiction|].
  assert (Ha : (0 <= f a)%Z) by (apply H; left; reflexivity).
  assert (Hr : forall x, In x r -> (0 <= f x)%Z) by (intros x Hx; apply H; right; exact Hx).
  pose proof (sumz_nonneg f r Hr). destruct Hu as [-> | Hu]; [lia|].
  specialize (IH Hr Hu). lia.
Qed.

Lemma sumz_nonzero_ex {A} (f : A -> Z) l : sumz (map f l) <> 0%Z -> exists u, In u l /\ f u <> 0%Z.
Proof.
  induction l as [|a r IH]; simpl; intros H; [contradiction H; reflexivity|].
  destruct (Z.eq_dec (f a) 0) as [E | E].
  - rewrite E in H. destruct IH as [u [Hu Hf]]; [lia|]. exists u. split; [right; exact Hu | exact Hf].
  - exists a. split; [left; reflexivity | exact E].
Qed.

(* ---------------------------------------------------------------- the in-set adjacency the code builds *)
Definition adjf (g : graph) (nodes : list nat) (v : nat) : list nat :=
  filter (fun w => mem w nodes) (nbr g v).

Lemma adjf_edge g nodes u w : In u nodes -> (In w (adjf g nodes u) <-> edge g nodes u w).
Proof.
  intros Hu. unfold adjf, edge. rewrite filter_In, mem_In. tauto.
Qed.

Lemma build_inner_spec nodes v ws : forall adj deg adj' deg',
  build_inner nodes v ws adj deg = (adj', deg') ->
  agetd [] adj' v = agetd [] adj v ++ filter (fun w => mem w nodes) ws /\
  (forall u, u <> v -> agetd [] adj' u = agetd [] adj u) /\
  (forall w, zget deg' w = (zget deg w + cnt (filter (fun w => mem w nodes) ws) w)%Z).
Proof.
  induction ws as [|a r IH]; intros adj deg adj' deg' H; simpl in H.
  - inversion H; subst. rewrite app_nil_r. repeat split; intros; try reflexivity. rewrite cnt_nil. lia.
  - simpl. destruct (mem a nodes) eqn:E.
    + apply IH in H. destruct H as (H1 & H2 & H3). repeat split.
      * rewrite H1, agetd_aset_eq, <- app_assoc. reflexivity.
      * intros u Hu. rewrite H2 by exact Hu. apply agetd_aset_neq. congruence.
      * intros w. rewrite H3, cnt_cons. unfold zget.
        destruct (Nat.eq_dec a w) as [->|Hn].
        -- rewrite agetd_aset_eq, Nat.eqb_refl. lia.
        -- rewrite agetd_aset_neq by exact Hn. apply Nat.eqb_neq in Hn. rewrite Hn. lia.
    + apply IH in H. exact H.
Qed.

Lemma build_outer_spec g nodes vs : NoDup vs -> forall adj deg adj' deg',
  build_outer g nodes vs adj deg = (adj', deg') ->
  (forall v, agetd [] adj' v = if mem v vs then agetd [] adj v ++ adjf g nodes v else agetd [] adj v) /\
  (forall w, zget deg' w = (zget deg w + sumz (map (fun v => cnt (adjf g nodes v) w) vs))%Z).
Proof.
  intros Hnd. induction Hnd as [|a r Hnin Hnd IH]; intros adj deg adj' deg' H; simpl in H.
  - inversion H; subst. split; intros; simpl; [reflexivity | lia].
  - destruct (build_inner nodes a (nbr g a) adj deg) as [adj1 deg1] eqn:E1.
    apply build_inner_spec in E1. destruct E1 as (A1 & A2 & A3).
    apply IH in H. destruct H as [B1 B2]. split.
    + intros v. rewrite B1. simpl. destruct (Nat.eq_dec a v) as [->|Hn].
      * rewrite Nat.eqb_refl. simpl. apply mem_false in Hnin. rewrite Hnin. exact A1.
      * assert (Hn' : (v =? a) = false) by (apply Nat.eqb_neq; congruence).
        rewrite Hn'. simpl. rewrite A2 by congruence. reflexivity.
    + intros w. rewrite B2, A3. simpl. unfold adjf. lia.
Qed.

(* ---------------------------------------------------------------- remaining in-degree *)
Definition indeg_rem g nodes (R : list nat) (w : nat) : Z :=
  sumz (map (fun v => if mem v R then 0%Z else cnt (adjf g nodes v) w) nodes).

Lemma indeg_rem_term_nonneg g nodes R w v :
  (0 <= (fun v => if mem v R then 0%Z else cnt (adjf g nodes v) w) v)%Z.
Proof. simpl. destruct (mem v R); [lia | apply cnt_nonneg]. Qed.

Lemma indeg_rem_ge g nodes R w u :
  In u nodes -> ~ In u R -> (cnt (adjf g nodes u) w <= indeg_rem g nodes R w)%Z.
Proof.
  intros Hu Hn. unfold indeg_rem.
  pose proof (sumz_ge_term (fun v => if mem v R then 0%Z else cnt (adjf g nodes v) w) nodes u
                (fun x _ => indeg_rem_term_nonneg g nodes R w x) Hu) as H.
  simpl in H. apply mem_false in Hn. rewrite Hn in H. exact H.
Qed.

Lemma indeg_rem_nonneg g nodes R w : (0 <= indeg_rem g nodes R w)%Z.
Proof. apply sumz_nonneg. intros x _. apply indeg_rem_term_nonneg. Qed.

Lemma indeg_rem_nonzero_ex g nodes R w :
  indeg_rem g nodes R w <> 0%Z -> exists u, In u nodes /\ ~ In u R /\ In w (adjf g nodes u).
Proof.
  intros H. apply sumz_nonzero_ex in H. destruct H as [u [Hu Hf]].
  exists u. destruct (mem u R) eqn:E; [contradiction Hf; reflexivity|].
  apply mem_false in E. repeat split; try assumption.
  apply cnt_pos_In. pose proof (cnt_nonneg (adjf g nodes u) w). lia.
Qed.

Lemma mem_app_single x R v : mem x (R ++ [v]) = mem x R || (x =? v).
Proof. unfold mem. rewrite existsb_app. simpl. rewrite orb_false_r. reflexivity. Qed.

Lemma indeg_rem_snoc_gen g nodes R v w ns :
  NoDup ns -> ~ In v R ->
  sumz (map (fun x => if mem x (R ++ [v]) then 0%Z else cnt (adjf g nodes x) w) ns)
  = (sumz (map (fun x => if mem x R then 0%Z else cnt (adjf g nodes x) w) ns)
     - (if mem v ns then cnt (adjf g nodes v) w else 0))%Z.
Proof.
  intros Hnd HvR. induction Hnd as [|a r Hnin Hnd IH]; simpl; [lia|].
  rewrite IH. rewrite mem_app_single.
  destruct (Nat.eq_dec a v) as [->|Hn].
  - rewrite Nat.eqb_refl. simpl. apply mem_false in HvR. rewrite HvR. simpl.
    apply mem_false in Hnin. rewrite Hnin. lia.
  - assert (E1 : (a =? v) = false) by (apply Nat.eqb_neq; exact Hn).
    assert (E2 : (v =? a) = false) by (apply Nat.eqb_neq; congruence).
    rewrite E1, E2, orb_false_r. simpl. lia.
Qed.

Lemma indeg_rem_snoc g nodes R v w :
  NoDup nodes -> In v nodes -> ~ In v R ->
  indeg_rem g nodes (R ++ [v]) w = (indeg_rem g nodes R w - cnt (adjf g nodes v) w)%Z.
Proof.
  intros Hnd Hv HvR. unfold indeg_rem. rewrite indeg_rem_snoc_gen by assumption.
  apply mem_In in Hv. rewrite Hv. reflexivity.
Qed.

(* ---------------------------------------------------------------- the inner loop *)
Lemma relax_spec ws : forall deg q deg' q',
  relax ws deg q = (deg', q') ->
  (forall w, zget deg' w = (zget deg w - cnt ws w)%Z) /\
  exists added, q' = q ++ added /\ NoDup added /\
    forall w, In w added <-> (In w ws /\ (1 <= zget deg w <= cnt ws w)%Z).
Proof.
  induction ws as [|a r IH]; intros deg q deg' q' H; simpl in H.
  - inversion H; subst. split; [intros; rewrite cnt_nil; lia|].
    exists []. rewrite app_nil_r. split; [reflexivity|]. split; [constructor|].
    intros w. simpl. tauto.
  - set (d := (zget deg a - 1)%Z) in *. set (dg := aset deg a d) in *.
    assert (Hdg : forall w, zget dg w = if a =? w then d else zget deg w).
    { intros w. unfold zget, dg. destruct (Nat.eq_dec a w) as [->|Hn].
      - rewrite agetd_aset_eq, Nat.eqb_refl. reflexivity.
      - rewrite agetd_aset_neq by exact Hn. apply Nat.eqb_neq in Hn. rewrite Hn. reflexivity. }
    destruct (d =? 0)%Z eqn:Ed.
    + apply Z.eqb_eq in Ed. apply IH in H. destruct H as [H1 [added [H2 [H3 H4]]]]. split.
      * intros w. rewrite H1, Hdg, cnt_cons. destruct (a =? w) eqn:E; [apply Nat.eqb_eq in E; rewrite <- E|]; unfold d; lia.
      * exists (a :: added). split; [rewrite H2, <- app_assoc; reflexivity|]. split.
        -- constructor; [|exact H3]. intros Hin. apply H4 in Hin. rewrite Hdg, Nat.eqb_refl in Hin. lia.
        -- intros w. simpl. rewrite H4, Hdg, cnt_cons. destruct (a =? w) eqn:E.
           ++ apply Nat.eqb_eq in E. subst w. pose proof (cnt_nonneg r a). unfold d in Ed. split.
              ** intros _. split; [left; reflexivity | lia].
              ** intros _. left. reflexivity.
           ++ apply Nat.eqb_neq in E. split.
              ** intros [Hc | [Hc1 Hc2]]; [contradiction|]. split; [right; exact Hc1 | lia].
              ** intros [[Hc | Hc] Hc2]; [contradiction|]. right. split; [exact Hc | lia].
    + apply Z.eqb_neq in Ed. apply IH in H. destruct H as [H1 [added [H2 [H3 H4]]]]. split.
      * intros w. rewrite H1, Hdg, cnt_cons. destruct (a =? w) eqn:E; [apply Nat.eqb_eq in E; rewrite <- E|]; unfold d; lia.
      * exists added. split; [exact H2|]. split; [exact H3|].
        intros w. rewrite H4, Hdg, cnt_cons. destruct (a =? w) eqn:E.
        -- apply Nat.eqb_eq in E. subst w. unfold d in *. split.
           ++ intros [Hc1 Hc2]. split; [right; exact Hc1 | lia].
           ++ intros [_ Hc2]. assert (Hp : (0 < cnt r a)%Z) by lia. apply cnt_pos_In in Hp.
              split; [exact Hp | lia].
        -- apply Nat.eqb_neq in E. split.
           ++ intros [Hc1 Hc2]. split; [right; exact Hc1 | lia].
           ++ intros [[Hc | Hc] Hc2]; [contradiction|]. split; [exact Hc | lia].
Qed.

(* ---------------------------------------------------------------- the loop invariant *)
Record kinv g nodes (deg : list (nat * Z)) (queue result : list nat) : Prop := {
  ki_nodup : NoDup (result ++ queue);
  ki_incl : incl (result ++ queue) nodes;
  ki_deg : forall w, zget deg w = indeg_rem g nodes result w;
  ki_zero : forall w, In w nodes -> (In w (result ++ queue) <-> zget deg w = 0%Z);
  ki_fwd : forall u w, In u nodes -> In w result -> In w (adjf g nodes u) ->
                       In u result /\ pos u result < pos w result
}.

Lemma kinv_step g nodes deg v q result deg' q' :
  NoDup nodes ->
  kinv g nodes deg (v :: q) result ->
  relax (adjf g nodes v) deg q = (deg', q') ->
  kinv g nodes deg' q' (result ++ [v]).
Proof.
  intros Hnd [I1 I2 I3 I4 I5] Hr.
  apply relax_spec in Hr. destruct Hr as [R1 [added [-> [R3 R4]]]].
  assert (Hv : In v nodes) by (apply I2; apply in_or_app; right; left; reflexivity).
  assert (HvR : ~ In v result).
  { apply NoDup_remove_2 in I1. intros H. apply I1. apply in_or_app. left. exact H. }
  assert (Hge : forall w, (cnt (adjf g nodes v) w <= zget deg w)%Z).
  { intros w. rewrite I3. apply indeg_rem_ge; assumption. }
  assert (Hadd_nodes : forall w, In w added -> In w nodes).
  { intros w Hw. apply R4 in Hw. destruct Hw as [Hw _]. unfold adjf in Hw.
    apply filter_In in Hw. destruct Hw as [_ Hw]. apply mem_In. exact Hw. }
  constructor.
  - (* NoDup *)
    rewrite <- app_assoc. simpl.
    assert (E : result ++ v :: q ++ added = (result ++ v :: q) ++ added) by (rewrite <- app_assoc; reflexivity).
    rewrite E. clear E.
    assert (Hdisj : forall w, In w (result ++ v :: q) -> ~ In w added).
    { intros w Hw Ha. pose proof (Hadd_nodes w Ha) as Hwn. apply R4 in Ha. destruct Ha as [_ Ha].
      apply (I4 w Hwn) in Hw. lia. }
    revert I1 Hdisj. generalize (result ++ v :: q). intros l Hl Hd.
    induction l as [|x l IH]; simpl; [exact R3|].
    inversion Hl; subst. constructor.
    + intros Hin. apply in_app_or in Hin. destruct Hin as [Hin | Hin]; [contradiction|].
      apply (Hd x); [left; reflexivity | exact Hin].
    + apply IH; [assumption|]. intros w Hw. apply Hd. right. exact Hw.
  - (* incl *)
    intros w Hw. rewrite <- app_assoc in Hw. simpl in Hw.
    assert (Hw' : In w (result ++ v :: q) \/ In w added).
    { apply in_app_or in Hw. destruct Hw as [Hw | [Hw | Hw]].
      - left. apply in_or_app. left. exact Hw.
      - left. apply in_or_app. right. left. exact Hw.
      - apply in_app_or in Hw. destruct Hw as [Hw | Hw]; [|right; exact Hw].
        left. apply in_or_app. right. right. exact Hw. }
    destruct Hw' as [Hw' | Hw']; [apply I2; exact Hw' | apply Hadd_nodes; exact Hw'].
  - (* deg *)
    intros w. rewrite R1, I3. symmetry. apply indeg_rem_snoc; assumption.
  - (* zero *)
    intros w Hw. rewrite R1. specialize (I4 w Hw). specialize (Hge w).
    pose proof (cnt_nonneg (adjf g nodes v) w) as Hc.
    assert (Hsplit : In w ((result ++ [v]) ++ q ++ added) <-> (In w (result ++ v :: q) \/ In w added)).
    { rewrite <- app_assoc. simpl. rewrite !in_app_iff. simpl. rewrite in_app_iff. tauto. }
    rewrite Hsplit. split.
    + intros [H | H].
      * apply I4 in H. lia.
      * apply R4 in H. lia.
    + intros H. destruct (Z.eq_dec (cnt (adjf g nodes v) w) 0) as [E | E].
      * left. apply I4. lia.
      * right. apply R4. split; [apply cnt_pos_In; lia | lia].
  - (* forward *)
    intros u w Hu Hw Hadj. apply in_app_or in Hw. destruct Hw as [Hw | [<- | []]].
    + destruct (I5 u w Hu Hw Hadj) as [H1 H2]. split; [apply in_or_app; left; exact H1|].
      rewrite !pos_app_in by assumption. exact H2.
    + assert (HuR : In u result).
      { destruct (in_dec Nat.eq_dec u result) as [H | H]; [exact H | exfalso].
        assert (Hz : zget deg v = 0%Z).
        { apply I4; [exact Hv | apply in_or_app; right; left; reflexivity]. }
        pose proof (indeg_rem_ge g nodes result v u Hu H) as Hle. rewrite <- I3, Hz in Hle.
        apply cnt_pos_In in Hadj. lia. }
      split; [apply in_or_app; left; exact HuR|].
      rewrite pos_app_in by exact HuR. rewrite pos_app_notin by exact HvR. simpl.
      rewrite Nat.eqb_refl. pose proof (pos_lt_length u result HuR). lia.
Qed.

Lemma kahn_loop_inv g nodes adj :
  NoDup nodes -> (forall v, In v nodes -> agetd [] adj v = adjf g nodes v) ->
  forall fuel deg queue result,
    kinv g nodes deg queue result -> length nodes < fuel + length result ->
    exists res deg', kahn_loop fuel adj deg queue result = Some res /\ kinv g nodes deg' [] res.
Proof.
  intros Hnd Hadj. induction fuel as [|f IH]; intros deg queue result Hinv Hlen.
  - destruct queue as [|v q].
    + exists result, deg. split; [reflexivity | exact Hinv].
    + exfalso. destruct Hinv as [I1 I2 _ _ _].
      pose proof (NoDup_incl_length I1 I2) as Hl. rewrite app_length in Hl. simpl in Hl, Hlen. lia.
  - destruct queue as [|v q].
    + exists result, deg. split; [reflexivity | exact Hinv].
    + simpl. assert (Hv : In v nodes).
      { apply (ki_incl _ _ _ _ _ Hinv). apply in_or_app. right. left. reflexivity. }
      rewrite (Hadj v Hv).
      destruct (relax (adjf g nodes v) deg q) as [deg' q'] eqn:Er.
      apply IH.
      * eapply kinv_step; eassumption.
      * rewrite app_length. simpl. lia.
Qed.

(* ---------------------------------------------------------------- the whole function *)
Lemma kahn_result_inv g nodes :
  NoDup nodes -> exists res deg, kahn_result g nodes = Some res /\ kinv g nodes deg [] res.
Proof.
  intros Hnd. unfold kahn_result.
  destruct (build_outer g nodes nodes (init_map [] nodes) (init_map 0%Z nodes)) as [adj deg] eqn:Eb.
  apply (build_outer_spec g nodes nodes Hnd) in Eb. destruct Eb as [B1 B2].
  assert (Hadj : forall v, In v nodes -> agetd [] adj v = adjf g nodes v).
  { intros v Hv. rewrite B1. apply mem_In in Hv. rewrite Hv. rewrite agetd_init_map. reflexivity. }
  assert (Hdeg : forall w, zget deg w = indeg_rem g nodes [] w).
  { intros w. rewrite B2. unfold zget. rewrite agetd_init_map. unfold indeg_rem. simpl. reflexivity. }
  apply (kahn_loop_inv g nodes adj Hnd Hadj).
  - constructor.
    + simpl. apply NoDup_filter. exact Hnd.
    + simpl. intros w Hw. apply filter_In in Hw. tauto.
    + exact Hdeg.
    + intros w Hw. simpl. rewrite filter_In, Z.eqb_eq. tauto.
    + intros u w _ [].
  - unfold kahn_fuel. simpl. lia.
Qed.
