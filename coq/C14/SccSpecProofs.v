(* Soundness of the boolean checkers of SccSpec.v w.r.t. the inductive specification:
     scc_check  g nodes cs  = true -> scc_spec  g nodes cs
     topo_check g nodes out = true -> topo_spec g nodes out
     cond_check g nodes out = true -> cond_spec g nodes out
   The transitive closure [reach_closure] is sound for [reach]; its completeness is obtained from the
   closedness certificate [closedb] that the checkers test (so soundness of the checkers does not depend on
   the number of closure rounds). *)
From Coq Require Import List Arith Bool Lia.
From SV Require Import C14.Scc C14.SccSpec C14.SccLemmas.
Import ListNotations.

(* ---------------------------------------------------------------- closure *)
Lemma add_new_In ws : forall acc x, In x (add_new ws acc) <-> In x acc \/ In x ws.
Proof.
  induction ws as [|w r IH]; intros acc x; simpl; [tauto|].
  destruct (mem w acc) eqn:E.
  - apply mem_In in E. rewrite IH. split; [tauto|]. intros [H | [<- | H]]; auto.
  - rewrite IH, in_app_iff. simpl. split; [tauto|]. intros [H | [<- | H]]; auto.
Qed.

Lemma closure_step_In g nodes acc x :
  In x (closure_step g nodes acc) <-> In x acc \/ exists u, In u acc /\ edge g nodes u x.
Proof.
  unfold closure_step. rewrite add_new_In, in_flat_map. split.
  - intros [H | [u [Hu Hx]]]; [auto|]. right. exists u. split; [exact Hu | apply succs_in_edge; exact Hx].
  - intros [H | [u [Hu Hx]]]; [auto|]. right. exists u. split; [exact Hu | apply succs_in_edge; exact Hx].
Qed.

Lemma closure_iter_sound g nodes k : forall acc x,
  In x (closure_iter k g nodes acc) -> exists u, In u acc /\ reach g nodes u x.
Proof.
  induction k as [|k IH]; intros acc x H; simpl in H.
  - exists x. split; [exact H | apply reach_refl].
  - apply IH in H. destruct H as [u [Hu Hr]]. apply closure_step_In in Hu.
    destruct Hu as [Hu | [u0 [Hu0 He]]].
    + exists u. auto.
    + exists u0. split; [exact Hu0|]. eapply reach_step; eassumption.
Qed.

Lemma closure_iter_incl g nodes k : forall acc x, In x acc -> In x (closure_iter k g nodes acc).
Proof.
  induction k as [|k IH]; intros acc x H; simpl; [exact H|].
  apply IH. apply closure_step_In. left. exact H.
Qed.

Lemma reach_closure_sound g nodes s x : In x (reach_closure g nodes s) -> reach g nodes s x.
Proof.
  intros H. apply closure_iter_sound in H. destruct H as [u [[<- | []] Hr]]. exact Hr.
Qed.

Lemma closed_complete g nodes acc s x :
  closedb g nodes acc = true -> In s acc -> reach g nodes s x -> In x acc.
Proof.
  intros Hc Hs Hr. induction Hr as [u | u v w He _ IH]; [exact Hs|].
  apply IH. unfold closedb in Hc. rewrite forallb_forall in Hc. specialize (Hc u Hs).
  apply inclb_incl in Hc. apply Hc. apply succs_in_edge. exact He.
Qed.

Lemma reachb_iff g nodes s x :
  closedb g nodes (reach_closure g nodes s) = true -> (reachb g nodes s x = true <-> reach g nodes s x).
Proof.
  intros Hc. unfold reachb. rewrite mem_In. split.
  - apply reach_closure_sound.
  - apply (closed_complete g nodes _ s x Hc). apply closure_iter_incl. left. reflexivity.
Qed.

Lemma closures_ok_reachb g nodes s x :
  closures_ok g nodes = true -> In s nodes -> (reachb g nodes s x = true <-> reach g nodes s x).
Proof.
  intros H Hs. apply reachb_iff. unfold closures_ok in H. rewrite forallb_forall in H. apply H. exact Hs.
Qed.

(* ---------------------------------------------------------------- scc_check *)
Lemma partitionb_sound nodes cs : partitionb nodes cs = true -> is_partition nodes cs.
Proof.
  unfold partitionb. rewrite !andb_true_iff. intros [[H1 H2] H3]. split; [|split].
  - apply Forall_forall. intros c Hc. rewrite forallb_forall in H1. specialize (H1 c Hc).
    destruct c; [discriminate | discriminate].
  - apply nodupb_NoDup. exact H2.
  - apply seteqb_iff. exact H3.
Qed.

Lemma same_compb_iff cs x y : same_compb cs x y = true <-> same_comp cs x y.
Proof.
  unfold same_compb, same_comp. rewrite existsb_exists. split.
  - intros [c [Hc H]]. apply andb_true_iff in H. rewrite !mem_In in H. exists c. tauto.
  - intros [c [Hc [Hx Hy]]]. exists c. split; [exact Hc|]. apply andb_true_iff. rewrite !mem_In. tauto.
Qed.

Lemma classesb_sound g nodes cs :
  closures_ok g nodes = true -> classesb g nodes cs = true -> scc_classes g nodes cs.
Proof.
  intros Hok H x y Hx Hy. unfold classesb in H. rewrite forallb_forall in H. specialize (H x Hx).
  rewrite forallb_forall in H. specialize (H y Hy). apply eqb_prop in H.
  rewrite <- same_compb_iff, H, andb_true_iff.
  rewrite (closures_ok_reachb g nodes x y Hok Hx), (closures_ok_reachb g nodes y x Hok Hy).
  unfold mutual. tauto.
Qed.

Lemma sinks_firstb_sound g nodes cs : sinks_firstb g nodes cs = true -> sinks_first g nodes cs.
Proof.
  unfold sinks_first. induction cs as [|c r IH]; intros H i j ci cj u w Hi Hj Hij Hu Hw.
  - destruct i; discriminate.
  - simpl in H. apply andb_true_iff in H. destruct H as [H1 H2].
    destruct j as [|j]; [lia|]. simpl in Hj. destruct i as [|i]; simpl in Hi.
    + inversion Hi; subst ci. rewrite forallb_forall in H1. specialize (H1 u Hu).
      rewrite forallb_forall in H1. specialize (H1 cj (nth_error_In _ _ Hj)).
      rewrite forallb_forall in H1. specialize (H1 w Hw). apply negb_true_iff in H1.
      intros He. apply edgeb_edge in He. congruence.
    + apply (IH H2 i j ci cj u w); try assumption. lia.
Qed.

Theorem scc_check_sound g nodes cs : scc_check g nodes cs = true -> scc_spec g nodes cs.
Proof.
  unfold scc_check. rewrite !andb_true_iff. intros [[[H1 H2] H3] H4]. split; [|split].
  - apply partitionb_sound. exact H1.
  - apply classesb_sound; assumption.
  - apply sinks_firstb_sound. exact H4.
Qed.

(* ---------------------------------------------------------------- topo_check *)
Lemma edge_reach_path1 g nodes u w v : edge g nodes u w -> reach g nodes w v -> path1 g nodes u v.
Proof.
  intros He Hr. apply reach_path1 in Hr. destruct Hr as [<- | Hp].
  - apply path1_one. exact He.
  - eapply path1_cons; eassumption.
Qed.

Lemma path1_edge_reach g nodes u v : path1 g nodes u v -> exists w, edge g nodes u w /\ reach g nodes w v.
Proof.
  intros H. destruct H as [u v He | u w v He Hp].
  - exists v. split; [exact He | apply reach_refl].
  - exists w. split; [exact He | apply path1_reach; exact Hp].
Qed.

Lemma has_cycleb_sound g nodes : has_cycleb g nodes = true -> has_cycle g nodes.
Proof.
  unfold has_cycleb, reach1b. rewrite existsb_exists. intros [v [Hv H]].
  apply existsb_exists in H. destruct H as [w [Hw Hr]].
  exists v. apply (edge_reach_path1 g nodes v w v).
  - apply succs_in_edge. exact Hw.
  - apply reach_closure_sound. apply mem_In. exact Hr.
Qed.

Lemma has_cycleb_complete g nodes :
  closures_ok g nodes = true -> has_cycle g nodes -> has_cycleb g nodes = true.
Proof.
  intros Hok [v Hp]. apply path1_edge_reach in Hp. destruct Hp as [w [He Hr]].
  unfold has_cycleb, reach1b. apply existsb_exists. exists v. split; [apply He|].
  apply existsb_exists. exists w. split; [apply succs_in_edge; exact He|].
  apply (closures_ok_reachb g nodes w v Hok); [apply He | exact Hr].
Qed.

Lemma topo_orderb_sound g nodes order : topo_orderb g nodes order = true -> topo_order g nodes order.
Proof.
  unfold topo_orderb. rewrite !andb_true_iff. intros [[[H1 H2] H3] H4]. split; [|split; [|split]].
  - apply nodupb_NoDup. exact H1.
  - apply seteqb_iff. exact H2.
  - apply Nat.eqb_eq. exact H3.
  - intros u w He. rewrite forallb_forall in H4. specialize (H4 u (proj1 He)).
    rewrite forallb_forall in H4. apply Nat.ltb_lt. apply H4. apply succs_in_edge. exact He.
Qed.

Theorem topo_check_sound g nodes out : topo_check g nodes out = true -> topo_spec g nodes out.
Proof.
  destruct out as [order|]; simpl; [apply topo_orderb_sound | apply has_cycleb_sound].
Qed.

(* ---------------------------------------------------------------- cond_check *)
Lemma aget_combine_seq {A} (l : list A) : forall a i,
  aget (combine (seq a (length l)) l) (a + i) = nth_error l i.
Proof.
  induction l as [|x r IH]; intros a i; simpl.
  - destruct i; reflexivity.
  - destruct i as [|i]; simpl.
    + rewrite Nat.add_0_r, Nat.eqb_refl. reflexivity.
    + assert (E : (a =? a + S i) = false) by (apply Nat.eqb_neq; lia). rewrite E.
      replace (a + S i) with (S a + i) by lia. apply IH.
Qed.

Lemma nbr_cgraph succs i : nbr (cgraph succs) i = nth i succs [].
Proof.
  unfold nbr, cgraph, agetd. pose proof (aget_combine_seq succs 0 i) as Hc. simpl in Hc. rewrite Hc. clear Hc.
  destruct (nth_error succs i) as [l|] eqn:E.
  - symmetry. apply nth_error_nth. exact E.
  - apply nth_error_None in E. symmetry. apply nth_overflow. exact E.
Qed.

Lemma comp_edgeb_iff g nodes ci cj :
  comp_edgeb g nodes ci cj = true <-> exists u w, In u ci /\ In w cj /\ edge g nodes u w.
Proof.
  unfold comp_edgeb. rewrite existsb_exists. split.
  - intros [u [Hu H]]. apply existsb_exists in H. destruct H as [w [Hw He]].
    exists u, w. repeat split; try assumption; apply edgeb_edge in He; apply He.
  - intros [u [w [Hu [Hw He]]]]. exists u. split; [exact Hu|]. apply existsb_exists.
    exists w. split; [exact Hw | apply edgeb_edge; exact He].
Qed.

Theorem cond_check_sound g nodes out : cond_check g nodes out = true -> cond_spec g nodes out.
Proof.
  destruct out as [cs succs]. unfold cond_check, cond_edgesb, cond_acyclicb. simpl.
  rewrite !andb_true_iff. intros [[[Hlen Hall] Hbound] [Hok Hnc]].
  apply Nat.eqb_eq in Hlen.
  assert (Hb : forall i l j, nth_error succs i = Some l -> In j l -> j < length cs).
  { intros i l j Hl Hj. rewrite forallb_forall in Hbound. specialize (Hbound l (nth_error_In _ _ Hl)).
    rewrite forallb_forall in Hbound. apply Nat.ltb_lt. apply Hbound. exact Hj. }
  assert (Hij : forall i j, i < length cs -> j < length cs ->
            (In j (nth i succs []) <->
             i <> j /\ exists u w, In u (nth i cs []) /\ In w (nth j cs []) /\ edge g nodes u w)).
  { intros i j Hi Hj. rewrite forallb_forall in Hall.
    assert (Hi' : In i (seq 0 (length cs))) by (apply in_seq; lia).
    assert (Hj' : In j (seq 0 (length cs))) by (apply in_seq; lia).
    specialize (Hall i Hi'). rewrite forallb_forall in Hall. specialize (Hall j Hj').
    apply eqb_prop in Hall. rewrite <- mem_In, Hall, andb_true_iff, negb_true_iff, Nat.eqb_neq, comp_edgeb_iff.
    tauto. }
  assert (Hedges : cond_edges_spec g nodes cs succs).
  { split; [exact Hlen|]. intros i j. unfold cedge. split.
    - intros [l [Hl Hj]].
      assert (Hi : i < length cs) by (rewrite <- Hlen; apply nth_error_Some; congruence).
      pose proof (Hb i l j Hl Hj) as Hj2.
      rewrite <- (nth_error_nth succs i [] Hl) in Hj. apply (Hij i j Hi Hj2) in Hj.
      destruct Hj as [Hn [u [w [Hu [Hw He]]]]]. split; [exact Hn|].
      exists (nth i cs []), (nth j cs []), u, w.
      repeat split; try assumption; try (apply nth_error_nth'; assumption); apply He.
    - intros [Hn [ci [cj [u [w [Hci [Hcj [Hu [Hw He]]]]]]]]].
      assert (Hi : i < length cs) by (apply nth_error_Some; congruence).
      assert (Hj : j < length cs) by (apply nth_error_Some; congruence).
      exists (nth i succs []). split; [apply nth_error_nth'; lia|].
      apply (Hij i j Hi Hj). split; [exact Hn|]. exists u, w.
      rewrite (nth_error_nth cs i [] Hci), (nth_error_nth cs j [] Hcj). tauto. }
  split; [exact Hedges|]. simpl.
  (* acyclic: a closed walk of the condensed graph is a cycle of cgraph, which the closure test excludes *)
  intros i Hp. apply negb_true_iff in Hnc.
  assert (Hcyc : has_cycle (cgraph succs) (seq 0 (length succs))).
  { exists i. clear Hnc Hok.
    assert (Hgen : forall a b, cpath1 succs a b -> path1 (cgraph succs) (seq 0 (length succs)) a b);
      [|apply Hgen; exact Hp].
    clear i Hp. intros a b Hp. induction Hp as [i j He | i j k He _ IH].
    - apply path1_one. destruct He as [l [Hl Hj]]. repeat split.
      + apply in_seq. assert (i < length succs) by (apply nth_error_Some; congruence). lia.
      + apply in_seq. pose proof (Hb i l j Hl Hj). lia.
      + rewrite nbr_cgraph, (nth_error_nth succs i [] Hl). exact Hj.
    - eapply path1_cons; [|exact IH]. destruct He as [l [Hl Hj]]. repeat split.
      + apply in_seq. assert (i < length succs) by (apply nth_error_Some; congruence). lia.
      + apply in_seq. pose proof (Hb i l j Hl Hj). lia.
      + rewrite nbr_cgraph, (nth_error_nth succs i [] Hl). exact Hj. }
  apply (has_cycleb_complete _ _ Hok) in Hcyc. congruence.
Qed.
