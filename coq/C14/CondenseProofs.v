(* condense (model [condense]): given that the components are the classes of mutual reachability, the
   condensed graph has an edge exactly where an original edge joins two different components, and is acyclic. *)
From Coq Require Import List Arith Bool Lia.
From SV Require Import C14.Scc C14.SccSpec C14.SccLemmas.
Import ListNotations.

(* ---------------------------------------------------------------- node -> component index *)
Lemma fold_aset_get (c : list nat) (i : nat) : forall (m : list (nat * nat)) x,
  aget (fold_left (fun m x => aset m x i) c m) x = if mem x c then Some i else aget m x.
Proof.
  induction c as [|a r IH]; intros m x; simpl; [reflexivity|].
  rewrite IH. destruct (Nat.eq_dec a x) as [->|Hn].
  - rewrite Nat.eqb_refl. simpl. rewrite aget_aset_eq. destruct (mem x r); reflexivity.
  - assert (E : (x =? a) = false) by (apply Nat.eqb_neq; congruence). rewrite E. simpl.
    rewrite aget_aset_neq by exact Hn. reflexivity.
Qed.

Lemma NoDup_app_disj (a b : list nat) x : NoDup (a ++ b) -> In x a -> ~ In x b.
Proof.
  induction a as [|y r IH]; simpl; intros H Hx; [contradiction|].
  inversion H; subst. destruct Hx as [-> | Hx].
  - intros Hb. apply H2. apply in_or_app. right. exact Hb.
  - apply IH; assumption.
Qed.

Lemma comp_map_spec : forall cs i0 m x i,
  NoDup (concat cs) ->
  (aget (comp_map i0 cs m) x = Some i <->
   (exists k c, nth_error cs k = Some c /\ In x c /\ i = i0 + k) \/ (~ In x (concat cs) /\ aget m x = Some i)).
Proof.
  induction cs as [|c r IH]; intros i0 m x i Hnd; simpl.
  - split.
    + intros H. right. split; [tauto | exact H].
    + intros [[k [c [H _]]] | [_ H]]; [destruct k; discriminate | exact H].
  - simpl in Hnd. assert (Hr : NoDup (concat r)).
    { clear - Hnd. induction c as [|a c IHc]; simpl in Hnd; [exact Hnd|]. inversion Hnd; subst. apply IHc. assumption. }
    rewrite (IH (S i0) _ x i Hr). rewrite fold_aset_get. split.
    + intros [[k [c' [H1 [H2 H3]]]] | [H1 H2]].
      * left. exists (S k), c'. simpl. repeat split; try assumption. lia.
      * destruct (mem x c) eqn:E.
        -- apply mem_In in E. left. exists 0, c. simpl. repeat split; try assumption.
           inversion H2. lia.
        -- apply mem_false in E. right. split; [|exact H2]. intros H. apply in_app_or in H. tauto.
    + intros [[k [c' [H1 [H2 H3]]]] | [H1 H2]].
      * destruct k as [|k]; simpl in H1.
        -- inversion H1; subst c'. right. split; [eapply NoDup_app_disj; eassumption|].
           apply mem_In in H2. rewrite H2. f_equal. lia.
        -- left. exists k, c'. repeat split; try assumption. lia.
      * right. assert (Hc : ~ In x c) by (intros H; apply H1; apply in_or_app; left; exact H).
        split; [intros H; apply H1; apply in_or_app; right; exact H|].
        apply mem_false in Hc. rewrite Hc. exact H2.
Qed.

Lemma n2c_spec (cs : list (list nat)) (x i : nat) :
  NoDup (concat cs) ->
  (aget (comp_map 0 cs []) x = Some i <-> exists c, nth_error cs i = Some c /\ In x c).
Proof.
  intros Hnd. rewrite (comp_map_spec cs 0 [] x i Hnd). simpl. split.
  - intros [[k [c [H1 [H2 H3]]]] | [_ H]]; [|discriminate]. subst i. exists c. tauto.
  - intros [c [H1 H2]]. left. exists i, c. tauto.
Qed.

Lemma comp_unique (cs : list (list nat)) i k ci ck (x : nat) :
  NoDup (concat cs) -> nth_error cs i = Some ci -> nth_error cs k = Some ck -> In x ci -> In x ck -> i = k.
Proof.
  intros Hnd Hi Hk Hxi Hxk.
  assert (H1 : aget (comp_map 0 cs []) x = Some i) by (apply n2c_spec; [exact Hnd | exists ci; tauto]).
  assert (H2 : aget (comp_map 0 cs []) x = Some k) by (apply n2c_spec; [exact Hnd | exists ck; tauto]).
  congruence.
Qed.

(* ---------------------------------------------------------------- the edge loops *)
Lemma set_add_In x l y : In y (set_add x l) <-> y = x \/ In y l.
Proof.
  unfold set_add. destruct (mem x l) eqn:E.
  - apply mem_In in E. split; [auto | intros [-> | H]; assumption].
  - rewrite in_app_iff. simpl. split; intros H.
    + destruct H as [H | [H | []]]; auto.
    + destruct H as [H | H]; auto.
Qed.

Lemma cond_inner_spec n2c vc ws : forall e i j,
  In j (agetd [] (cond_inner n2c vc ws e) i) <->
  In j (agetd [] e i) \/ (i = vc /\ vc <> j /\ exists w, In w ws /\ aget n2c w = Some j).
Proof.
  induction ws as [|a r IH]; intros e i j; simpl.
  - split; [auto | intros [H | [_ [_ [w [[] _]]]]]; exact H].
  - destruct (aget n2c a) as [wc|] eqn:Ea.
    + destruct (vc =? wc) eqn:E.
      * apply Nat.eqb_eq in E. subst wc. rewrite IH. split.
        -- intros [H | [H1 [H2 [w [H3 H4]]]]]; [auto|]. right. repeat split; try assumption. exists w. auto.
        -- intros [H | [H1 [H2 [w [[<- | H3] H4]]]]]; [auto | congruence |].
           right. repeat split; try assumption. exists w. auto.
      * apply Nat.eqb_neq in E. rewrite IH. destruct (Nat.eq_dec vc i) as [<-|Hn].
        -- rewrite agetd_aset_eq, set_add_In. split.
           ++ intros [[-> | H] | [H1 [H2 [w [H3 H4]]]]].
              ** right. repeat split; try assumption. exists a. auto.
              ** auto.
              ** right. repeat split; try assumption. exists w. auto.
           ++ intros [H | [H1 [H2 [w [[<- | H3] H4]]]]].
              ** auto.
              ** left. left. congruence.
              ** right. repeat split; try assumption. exists w. auto.
        -- rewrite agetd_aset_neq by exact Hn. split.
           ++ intros [H | [H1 _]]; [auto | congruence].
           ++ intros [H | [H1 _]]; [auto | congruence].
    + rewrite IH. split.
      * intros [H | [H1 [H2 [w [H3 H4]]]]]; [auto|]. right. repeat split; try assumption. exists w. auto.
      * intros [H | [H1 [H2 [w [[<- | H3] H4]]]]]; [auto | congruence |].
        right. repeat split; try assumption. exists w. auto.
Qed.

Lemma cond_outer_spec g n2c vs : forall e,
  (forall v, In v vs -> aget n2c v <> None) ->
  exists e', cond_outer g n2c vs e = Some e' /\
    forall i j, In j (agetd [] e' i) <->
      In j (agetd [] e i) \/
      (i <> j /\ exists v w, In v vs /\ In w (nbr g v) /\ aget n2c v = Some i /\ aget n2c w = Some j).
Proof.
  induction vs as [|a r IH]; intros e Hk; simpl.
  - exists e. split; [reflexivity|]. intros i j. split; [auto | intros [H | [_ [v [w [[] _]]]]]; exact H].
  - destruct (aget n2c a) as [vc|] eqn:Ea; [|exfalso; apply (Hk a); [left; reflexivity | exact Ea]].
    destruct (IH (cond_inner n2c vc (nbr g a) e)) as [e' [E1 E2]].
    { intros v Hv. apply Hk. right. exact Hv. }
    exists e'. split; [exact E1|]. intros i j. rewrite E2, cond_inner_spec. split.
    + intros [[H | [H1 [H2 [w [H3 H4]]]]] | [H1 [v [w [H2 H3]]]]].
      * auto.
      * right. subst i. split; [exact H2|]. exists a, w. auto.
      * right. split; [exact H1|]. exists v, w. tauto.
    + intros [H | [H1 [v [w [[<- | H2] [H3 [H4 H5]]]]]]].
      * auto.
      * left. right. rewrite Ea in H4. inversion H4; subst vc. repeat split; try assumption. exists w. auto.
      * right. split; [exact H1|]. exists v, w. tauto.
Qed.

(* ---------------------------------------------------------------- the result *)
Lemma nth_error_map_seq {A} (f : nat -> A) n i :
  nth_error (map f (seq 0 n)) i = if i <? n then Some (f i) else None.
Proof.
  destruct (i <? n) eqn:E.
  - apply Nat.ltb_lt in E. rewrite nth_error_map.
    rewrite (nth_error_nth' (seq 0 n) 0) by (rewrite seq_length; exact E).
    rewrite seq_nth by exact E. reflexivity.
  - apply Nat.ltb_ge in E. apply nth_error_None. rewrite map_length, seq_length. exact E.
Qed.

Section Condense.
  Variable g : graph.
  Variable nodes : list nat.
  Variable cs : list (list nat).
  Hypothesis Hscc : scc g nodes = Some cs.
  Hypothesis Hpart : is_partition nodes cs.

  Lemma condense_edges :
    exists succs, condense g nodes = Some (cs, succs) /\ cond_edges_spec g nodes cs succs.
  Proof.
    destruct Hpart as [Hne [Hnd Hcov]].
    unfold condense. rewrite Hscc.
    destruct (cond_outer_spec g (comp_map 0 cs []) nodes []) as [e [E1 E2]].
    { intros v Hv. apply Hcov in Hv. apply in_concat in Hv. destruct Hv as [c [Hc Hvc]].
      apply In_nth_error in Hc. destruct Hc as [i Hi].
      assert (H : aget (comp_map 0 cs []) v = Some i) by (apply n2c_spec; [exact Hnd | exists c; tauto]).
      congruence. }
    rewrite E1. eexists. split; [reflexivity|].
    split; [rewrite map_length, seq_length; reflexivity|].
    intros i j. unfold cedge. rewrite nth_error_map_seq. split.
    - intros [l [Hl Hj]]. destruct (i <? length cs) eqn:Ei; [|discriminate].
      inversion Hl; subst l. apply E2 in Hj. destruct Hj as [[] | [Hij [v [w [Hv [Hw [Hvi Hwj]]]]]]].
      split; [exact Hij|].
      apply n2c_spec in Hvi; [|exact Hnd]. apply n2c_spec in Hwj; [|exact Hnd].
      destruct Hvi as [ci [Hci Hvci]]. destruct Hwj as [cj [Hcj Hwcj]].
      exists ci, cj, v, w. repeat split; try assumption.
      apply Hcov. apply in_concat. exists cj. split; [eapply nth_error_In; exact Hcj | exact Hwcj].
    - intros [Hij [ci [cj [u [w [Hci [Hcj [Hu [Hw [He1 [He2 He3]]]]]]]]]]].
      assert (Hi : i < length cs) by (apply nth_error_Some; congruence).
      apply Nat.ltb_lt in Hi. rewrite Hi. eexists. split; [reflexivity|].
      apply E2. right. split; [exact Hij|]. exists u, w. repeat split; try assumption.
      + apply n2c_spec; [exact Hnd | exists ci; tauto].
      + apply n2c_spec; [exact Hnd | exists cj; tauto].
  Qed.

  Hypothesis Hclasses : scc_classes g nodes cs.

  Lemma comp_in_nodes i ci x : nth_error cs i = Some ci -> In x ci -> In x nodes.
  Proof.
    intros Hi Hx. destruct Hpart as [_ [_ Hcov]]. apply Hcov. apply in_concat.
    exists ci. split; [eapply nth_error_In; exact Hi | exact Hx].
  Qed.

  Lemma same_comp_reach i ci x y : nth_error cs i = Some ci -> In x ci -> In y ci -> reach g nodes x y.
  Proof.
    intros Hi Hx Hy.
    destruct (Hclasses x y (comp_in_nodes i ci x Hi Hx) (comp_in_nodes i ci y Hi Hy)) as [H _].
    destruct H as [H _]; [|exact H]. exists ci. split; [eapply nth_error_In; exact Hi | tauto].
  Qed.

  Definition creach (i k : nat) : Prop :=
    forall ci ck u w, nth_error cs i = Some ci -> nth_error cs k = Some ck -> In u ci -> In w ck ->
                      reach g nodes u w.

  Variable succs : list (list nat).
  Hypothesis Hedges : cond_edges_spec g nodes cs succs.

  Lemma cedge_creach i j : cedge succs i j -> creach i j /\ exists cj x, nth_error cs j = Some cj /\ In x cj.
  Proof.
    intros H. apply (proj2 Hedges) in H.
    destruct H as [_ [ci [cj [u [w [Hci [Hcj [Hu [Hw He]]]]]]]]]. split.
    - intros ci' cj' u' w' Hci' Hcj' Hu' Hw'. rewrite Hci in Hci'. rewrite Hcj in Hcj'.
      inversion Hci'; subst ci'. inversion Hcj'; subst cj'.
      apply (reach_trans g nodes u' u w'); [exact (same_comp_reach i ci u' u Hci Hu' Hu)|].
      eapply reach_step; [exact He|]. exact (same_comp_reach j cj w w' Hcj Hw Hw').
    - exists cj, w. tauto.
  Qed.

  Lemma cpath1_creach i k : cpath1 succs i k -> creach i k.
  Proof.
    intros H. induction H as [i j He | i j k He _ IH].
    - apply cedge_creach. exact He.
    - destruct (cedge_creach i j He) as [H1 [cj [x [Hcj Hx]]]].
      intros ci ck u w Hci Hck Hu Hw.
      apply (reach_trans g nodes u x w).
      + apply (H1 ci cj u x); assumption.
      + apply (IH cj ck x w); assumption.
  Qed.

  Lemma condense_acyclic : cond_acyclic succs.
  Proof.
    intros i Hp.
    assert (Hfirst : exists j, cedge succs i j /\ creach j i).
    { inversion Hp as [? ? He | ? j ? He Hp']; subst.
      - exists i. split; [exact He|]. apply (proj2 Hedges) in He. destruct He as [Hn _]. contradiction Hn. reflexivity.
      - exists j. split; [exact He | apply cpath1_creach; exact Hp']. }
    destruct Hfirst as [j [He Hback]].
    destruct (cedge_creach i j He) as [Hfwd _].
    apply (proj2 Hedges) in He.
    destruct He as [Hij [ci [cj [u [w [Hci [Hcj [Hu [Hw _]]]]]]]]].
    assert (Hm : mutual g nodes u w).
    { split; [apply (Hfwd ci cj u w) | apply (Hback cj ci w u)]; assumption. }
    destruct (Hclasses u w (comp_in_nodes i ci u Hci Hu) (comp_in_nodes j cj w Hcj Hw)) as [_ Hsame].
    destruct (Hsame Hm) as [c [Hc [Huc Hwc]]].
    apply In_nth_error in Hc. destruct Hc as [k Hk].
    destruct Hpart as [_ [Hnd _]].
    assert (E1 : i = k) by (eapply (comp_unique cs i k ci c u); eassumption).
    assert (E2 : j = k) by (eapply (comp_unique cs j k cj c w); eassumption).
    congruence.
  Qed.
End Condense.

Theorem condense_correct g nodes cs :
  scc g nodes = Some cs -> is_partition nodes cs -> scc_classes g nodes cs ->
  exists succs, condense g nodes = Some (cs, succs) /\ cond_spec g nodes (cs, succs).
Proof.
  intros Hscc Hpart Hcl.
  destruct (condense_edges g nodes cs Hscc Hpart) as [succs [E1 E2]].
  exists succs. split; [exact E1|]. split; [exact E2|].
  simpl. eapply condense_acyclic; eassumption.
Qed.
