(* Model of solvor/scc.py (definitions only; always compiles).

   strongly_connected_components  (Tarjan, recursive `strongconnect`)      -> [scc]
   topological_sort               (Kahn)                                   -> [topological_sort]
   condense                                                                -> [condense]
   strongly_connected_components_edges / topological_sort_edges (backend="python") -> [scc_edges] / [topo_edges]

   Node labels are nat (first-occurrence numbering done by the harness).  The `neighbors` call-back is an
   association list  node -> neighbour list  (a node without entry has no neighbours; the harness call-back
   is `adj.get(v, [])`).  dict = insertion-ordered association list ([aget]/[aset]); set = list used through
   membership only.

   MODELLED CODE = the code with the planned `fix:` (neighbours outside the node set are skipped in
   `strongconnect`, node set built once from the node iterable, as `topological_sort` already does):

       node_list = list(nodes); node_set = set(node_list)
       def strongconnect(v):
           index[v] = low_link[v] = index_counter[0]; index_counter[0] += 1
           stack.append(v); on_stack.add(v)
           for w in neighbors(v):
               if w not in node_set: continue                      # <- the fix
               if w not in index:   strongconnect(w); low_link[v] = min(low_link[v], low_link[w])
               elif w in on_stack:  low_link[v] = min(low_link[v], index[w])
           if low_link[v] == index[v]: pop until v, components.append(component)
       for v in node_list:
           if v not in index: strongconnect(v)

   Recursion of `strongconnect` -> explicit fuel (recursion depth); [None] = fuel exhausted or a Python
   exception of the modelled code (pop from an empty stack, KeyError); the theorems show neither happens. *)
From Coq Require Import List Arith ZArith Bool.
Import ListNotations.

(* ------------------------------------------------------------------ containers *)
Definition mem (x : nat) (l : list nat) : bool := existsb (Nat.eqb x) l.

Section Assoc.
  Context {A : Type}.
  Fixpoint aget (m : list (nat * A)) (k : nat) : option A :=
    match m with
    | [] => None
    | (k', a) :: r => if k' =? k then Some a else aget r k
    end.
  (* d[k] = a : keeps the position of an existing key, appends a new one *)
  Fixpoint aset (m : list (nat * A)) (k : nat) (a : A) : list (nat * A) :=
    match m with
    | [] => [(k, a)]
    | (k', a') :: r => if k' =? k then (k', a) :: r else (k', a') :: aset r k a
    end.
  Definition agetd (d : A) (m : list (nat * A)) (k : nat) : A :=
    match aget m k with Some a => a | None => d end.
End Assoc.

Definition graph := list (nat * list nat).
Definition nbr (g : graph) (v : nat) : list nat := agetd [] g v.

(* ------------------------------------------------------------------ Tarjan *)
Record st := mkst {
  ctr : nat;                     (* index_counter[0] *)
  idx : list (nat * nat);        (* index *)
  low : list (nat * nat);        (* low_link *)
  stk : list nat;                (* stack, head = top *)
  onstk : list nat;              (* on_stack *)
  comps : list (list nat)        (* components, in completion order *)
}.

Definition st0 : st := mkst 0 [] [] [] [] [].

Definition set_low (s : st) (v x : nat) : st :=
  mkst (ctr s) (idx s) (aset (low s) v x) (stk s) (onstk s) (comps s).

(* index[v] = low_link[v] = counter; counter += 1; stack.append(v); on_stack.add(v) *)
Definition enter (v : nat) (s : st) : st :=
  mkst (S (ctr s)) (aset (idx s) v (ctr s)) (aset (low s) v (ctr s)) (v :: stk s) (v :: onstk s) (comps s).

(* while True: w = stack.pop(); on_stack.remove(w); component.append(w); if w == v: break *)
Fixpoint pop_until (v : nat) (stack on acc : list nat) : option (list nat * list nat * list nat) :=
  match stack with
  | [] => None                                     (* IndexError: pop from empty list *)
  | w :: r =>
      let on' := remove Nat.eq_dec w on in
      let acc' := acc ++ [w] in
      if w =? v then Some (r, on', acc') else pop_until v r on' acc'
  end.

(* if low_link[v] == index[v]: pop the component *)
Definition finish (v : nat) (s : st) : option st :=
  if agetd 0 (low s) v =? agetd 0 (idx s) v then
    match pop_until v (stk s) (onstk s) [] with
    | None => None
    | Some (stk', on', c) => Some (mkst (ctr s) (idx s) (low s) stk' on' (comps s ++ [c]))
    end
  else Some s.

(* for w in neighbors(v): ...   ([rec] = the recursive call strongconnect) *)
Fixpoint sc_loop (rec : nat -> st -> option st) (nodes : list nat) (v : nat) (ws : list nat) (s : st)
  : option st :=
  match ws with
  | [] => Some s
  | w :: r =>
      if negb (mem w nodes) then sc_loop rec nodes v r s
      else match aget (idx s) w with
           | None =>
               match rec w s with
               | None => None
               | Some s1 =>
                   sc_loop rec nodes v r
                     (set_low s1 v (Nat.min (agetd 0 (low s1) v) (agetd 0 (low s1) w)))
               end
           | Some iw =>
               if mem w (onstk s)
               then sc_loop rec nodes v r (set_low s v (Nat.min (agetd 0 (low s) v) iw))
               else sc_loop rec nodes v r s
           end
  end.

Fixpoint strongconnect (fuel : nat) (g : graph) (nodes : list nat) (v : nat) (s : st) : option st :=
  match fuel with
  | 0 => None
  | S f =>
      match sc_loop (strongconnect f g nodes) nodes v (nbr g v) (enter v s) with
      | None => None
      | Some s2 => finish v s2
      end
  end.

(* for v in node_list: if v not in index: strongconnect(v) *)
Fixpoint scc_main (fuel : nat) (g : graph) (nodes : list nat) (vs : list nat) (s : st) : option st :=
  match vs with
  | [] => Some s
  | v :: r =>
      match aget (idx s) v with
      | Some _ => scc_main fuel g nodes r s
      | None =>
          match strongconnect fuel g nodes v s with
          | None => None
          | Some s' => scc_main fuel g nodes r s'
          end
      end
  end.

Definition scc_fuel (nodes : list nat) : nat := S (length nodes).

Definition scc_state (g : graph) (nodes : list nat) : option st :=
  scc_main (scc_fuel nodes) g nodes nodes st0.

(* Result.solution of strongly_connected_components *)
Definition scc (g : graph) (nodes : list nat) : option (list (list nat)) :=
  option_map comps (scc_state g nodes).

(* ------------------------------------------------------------------ Kahn *)
Definition zget (m : list (nat * Z)) (k : nat) : Z := agetd 0%Z m k.

(* in_degree = {v: 0 for v in node_list}; adjacency = {v: [] for v in node_list} *)
Definition init_map {A} (a : A) (nodes : list nat) : list (nat * A) :=
  fold_left (fun m v => aset m v a) nodes [].

(* for w in neighbors(v): if w in node_set: adjacency[v].append(w); in_degree[w] += 1 *)
Fixpoint build_inner (nodes : list nat) (v : nat) (ws : list nat)
         (adj : list (nat * list nat)) (deg : list (nat * Z)) : list (nat * list nat) * list (nat * Z) :=
  match ws with
  | [] => (adj, deg)
  | w :: r =>
      if mem w nodes
      then build_inner nodes v r (aset adj v (agetd [] adj v ++ [w])) (aset deg w (zget deg w + 1)%Z)
      else build_inner nodes v r adj deg
  end.

Fixpoint build_outer (g : graph) (nodes : list nat) (vs : list nat)
         (adj : list (nat * list nat)) (deg : list (nat * Z)) : list (nat * list nat) * list (nat * Z) :=
  match vs with
  | [] => (adj, deg)
  | v :: r => let '(adj', deg') := build_inner nodes v (nbr g v) adj deg in build_outer g nodes r adj' deg'
  end.

(* for w in adjacency[v]: in_degree[w] -= 1; if in_degree[w] == 0: queue.append(w) *)
Fixpoint relax (ws : list nat) (deg : list (nat * Z)) (queue : list nat) : list (nat * Z) * list nat :=
  match ws with
  | [] => (deg, queue)
  | w :: r =>
      let d := (zget deg w - 1)%Z in
      let deg' := aset deg w d in
      if (d =? 0)%Z then relax r deg' (queue ++ [w]) else relax r deg' queue
  end.

(* while queue: v = queue.popleft(); result.append(v); relax   (None = fuel exhausted) *)
Fixpoint kahn_loop (fuel : nat) (adj : list (nat * list nat)) (deg : list (nat * Z))
         (queue result : list nat) : option (list nat) :=
  match queue with
  | [] => Some result
  | v :: q =>
      match fuel with
      | 0 => None
      | S f =>
          let '(deg', q') := relax (agetd [] adj v) deg q in
          kahn_loop f adj deg' q' (result ++ [v])
      end
  end.

Definition kahn_fuel (nodes : list nat) : nat := S (2 * length nodes).

Definition kahn_result (g : graph) (nodes : list nat) : option (list nat) :=
  let '(adj, deg) := build_outer g nodes nodes (init_map [] nodes) (init_map 0%Z nodes) in
  let queue := filter (fun v => (zget deg v =? 0)%Z) nodes in
  kahn_loop (kahn_fuel nodes) adj deg queue [].

(* outer None = fuel exhausted (never, see proofs); Some None = Status.INFEASIBLE; Some (Some l) = order *)
Definition topological_sort (g : graph) (nodes : list nat) : option (option (list nat)) :=
  match kahn_result g nodes with
  | None => None
  | Some res => Some (if length res =? length nodes then Some res else None)
  end.

(* ------------------------------------------------------------------ condense *)
(* for i, component in enumerate(components): for node in component: node_to_component[node] = i *)
Fixpoint comp_map (i : nat) (cs : list (list nat)) (m : list (nat * nat)) : list (nat * nat) :=
  match cs with
  | [] => m
  | c :: r => comp_map (S i) r (fold_left (fun m x => aset m x i) c m)
  end.

Definition set_add (x : nat) (l : list nat) : list nat := if mem x l then l else l ++ [x].

Fixpoint cond_inner (n2c : list (nat * nat)) (vc : nat) (ws : list nat) (e : list (nat * list nat))
  : list (nat * list nat) :=
  match ws with
  | [] => e
  | w :: r =>
      match aget n2c w with
      | None => cond_inner n2c vc r e
      | Some wc => if vc =? wc then cond_inner n2c vc r e
                   else cond_inner n2c vc r (aset e vc (set_add wc (agetd [] e vc)))
      end
  end.

Fixpoint cond_outer (g : graph) (n2c : list (nat * nat)) (vs : list nat) (e : list (nat * list nat))
  : option (list (nat * list nat)) :=
  match vs with
  | [] => Some e
  | v :: r =>
      match aget n2c v with
      | None => None                                 (* KeyError: node_to_component[v] *)
      | Some vc => cond_outer g n2c r (cond_inner n2c vc (nbr g v) e)
      end
  end.

(* (components, [successor component indices of component i, for i in range(len(components))]) ;
   the successor lists are Python sets: compared as sets by the harness *)
Definition condense (g : graph) (nodes : list nat) : option (list (list nat) * list (list nat)) :=
  match scc g nodes with
  | None => None
  | Some cs =>
      let n2c := comp_map 0 cs [] in
      match cond_outer g n2c nodes [] with
      | None => None
      | Some e => Some (cs, map (fun i => agetd [] e i) (seq 0 (length cs)))
      end
  end.

(* ------------------------------------------------------------------ _edges variants (backend="python") *)
(* adj = [[] for _ in range(n)]; for u, v in edges: adj[u].append(v)   (requires u < n: valid input) *)
Definition graph_of_edges (n : nat) (edges : list (nat * nat)) : graph :=
  fold_left (fun g e => aset g (fst e) (agetd [] g (fst e) ++ [snd e])) edges (init_map [] (seq 0 n)).

Definition edges_valid (n : nat) (edges : list (nat * nat)) : bool :=
  forallb (fun e => fst e <? n) edges.

Definition scc_edges (n : nat) (edges : list (nat * nat)) := scc (graph_of_edges n edges) (seq 0 n).
Definition topo_edges (n : nat) (edges : list (nat * nat)) := topological_sort (graph_of_edges n edges) (seq 0 n).

(* ------------------------------------------------------------------ observables for the correspondence *)
Fixpoint leqb {A} (eqb : A -> A -> bool) (a b : list A) : bool :=
  match a, b with
  | [], [] => true
  | x :: xs, y :: ys => eqb x y && leqb eqb xs ys
  | _, _ => false
  end.
Definition oeqb {A} (eqb : A -> A -> bool) (a b : option A) : bool :=
  match a, b with
  | None, None => true
  | Some x, Some y => eqb x y
  | _, _ => false
  end.
Definition same_set_b (a b : list nat) : bool :=
  forallb (fun x => mem x b) a && forallb (fun x => mem x a) b && (length a =? length b).

Definition comps_eqb := leqb (leqb Nat.eqb).
Definition scc_obs_eqb (m i : option (list (list nat))) : bool := oeqb comps_eqb m i.
Definition topo_obs_eqb (m i : option (option (list nat))) : bool := oeqb (oeqb (leqb Nat.eqb)) m i.
Definition cond_obs_eqb (m i : option (list (list nat) * list (list nat))) : bool :=
  oeqb (fun a b => leqb same_set_b (fst a) (fst b) && leqb same_set_b (snd a) (snd b)) m i.
