(* Tarjan (model [scc]), closure half of the invariant: popped nodes are closed under in-set edges and an
   edge from a component goes to the same or an EARLIER component.  Consequences: sinks first, and
   mutually reachable nodes lie in the same component (components are maximal). *)
From Coq Require Import List Arith Bool Lia.
From SV Require Import C14.Scc C14.SccSpec C14.SccLemmas C14.TarjanInv C14.TarjanProofs C14.TarjanReach
     C14.CondenseProofs.
Import ListNotations.

Section Full.
  Variable g : graph.
  Variable nodes : list nat.
  Notation R := (reach g nodes).

  (* A = the active nodes (the DFS path): every other node on the stack has finished its neighbour loop *)
  Record cinv (A : list nat) (s : st) : Prop := {
    c_closed : forall i ci x w, nth_error (comps s) i = Some ci -> In x ci -> edge g nodes x w ->
                 exists j cj, j <= i /\ nth_error (comps s) j = Some cj /\ In w cj;
    c_idx : forall x w, In x (stk s) -> ~ In x A -> edge g nodes x w -> In w (keys s);
    c_low : forall x w, In x (stk s) -> ~ In x A -> edge g nodes x w -> In w (stk s) -> lw s x <= ix s w
  }.

  (* the neighbours dn of the active node v that its loop has already handled *)
  Definition Dn (s : st) (v : nat) (dn : list nat) : Prop :=
    forall w, In w dn -> In w nodes -> In w (keys s) /\ (In w (stk s) -> lw s v <= ix s w).

  Definition frame (s s' : st) : Prop :=
    (exists new, comps s' = comps s ++ new) /\
    (forall y, In y (stk s') -> ~ In y (stk s) -> ~ In y (keys s)).

  Lemma frame_refl s : frame s s.
  Proof. split; [exists []; rewrite app_nil_r; reflexivity | intros y H1 H2; contradiction]. Qed.

  Lemma frame_trans s1 s2 s3 : ext s1 s2 -> frame s1 s2 -> frame s2 s3 -> frame s1 s3.
  Proof.
    intros He [[n1 E1] F1] [[n2 E2] F2]. split.
    - exists (n1 ++ n2). rewrite E2, E1, app_assoc. reflexivity.
    - intros y Hy Hn. destruct (in_dec Nat.eq_dec y (stk s2)) as [H2 | H2].
      + apply F1; assumption.
      + intros Hk. apply (F2 y Hy H2). eapply ext_keys; eassumption.
  Qed.

  Lemma frame_set_low s v x : frame s (set_low s v x).
  Proof. split; [exists []; simpl; rewrite app_nil_r; reflexivity | simpl; intros y H1 H2; contradiction]. Qed.

  Lemma set_low_cinv A s v x : cinv A s -> In v A -> cinv A (set_low s v x).
  Proof.
    intros [C1 C3 C4] Hv. constructor.
    - exact C1.
    - exact C3.
    - intros y w Hy Hn He Hw.
      assert (Hne : y <> v) by (intros ->; contradiction).
      rewrite (set_low_lw_other s v x y Hne). change (ix (set_low s v x) w) with (ix s w).
      apply C4; assumption.
  Qed.

  Lemma Dn_set_low s v x dn : x <= lw s v -> Dn s v dn -> Dn (set_low s v x) v dn.
  Proof.
    intros Hx H w Hw Hn. destruct (H w Hw Hn) as [H1 H2]. split; [exact H1|].
    intros Hs. rewrite set_low_lw_same. change (ix (set_low s v x) w) with (ix s w).
    specialize (H2 Hs). lia.
  Qed.

  Lemma Dn_snoc s v dn a :
    Dn s v dn -> (In a nodes -> In a (keys s) /\ (In a (stk s) -> lw s v <= ix s a)) -> Dn s v (dn ++ [a]).
  Proof.
    intros H Ha w Hw Hn. apply in_app_or in Hw. destruct Hw as [Hw | [<- | []]]; [apply H; assumption | apply Ha; exact Hn].
  Qed.

  (* ---- the layer-2 facts for the intermediate states of the loop (same arguments as in TarjanReach) *)
  Lemma step_onstack s v a iw :
    tinv nodes s -> rinv g nodes s -> In v (stk s) -> above_ok s v -> edge g nodes v a -> In a (stk s) ->
    ix s a = iw ->
    tinv nodes (set_low s v (Nat.min (lw s v) iw)) /\ rinv g nodes (set_low s v (Nat.min (lw s v) iw)) /\
    above_ok (set_low s v (Nat.min (lw s v) iw)) v.
  Proof.
    intros Hinv Hr Hv Hab Hedge Eon Hia. set (x := Nat.min (lw s v) iw). split; [|split].
    - apply set_low_tinv; [exact Hinv | exact Hv | apply Nat.le_min_l |].
      unfold x. destruct (Nat.min_dec (lw s v) iw) as [E | E]; rewrite E.
      + destruct (t_low _ _ Hinv v Hv) as [_ Hz]. exact Hz.
      + exists a. split; [exact Eon | exact Hia].
    - apply set_low_rinv; [exact Hr|]. intros z Hz Hzx. unfold x in Hzx.
      destruct (Nat.min_dec (lw s v) iw) as [E | E]; rewrite E in Hzx.
      + apply (r_low _ _ _ Hr v z Hv Hz Hzx).
      + assert (z = a).
        { apply (stk_sorted_inj (ix s) (stk s)); [apply (t_sorted _ _ Hinv) | exact Hz | exact Eon | lia]. }
        subst z. eapply reach_step; [exact Hedge | apply reach_refl].
    - intros y Hy Hlt. change (ix (set_low s v x) v) with (ix s v) in Hlt.
      change (ix (set_low s v x) y) with (ix s y) in *. simpl in Hy.
      assert (Hn : y <> v) by (intros ->; lia).
      rewrite set_low_lw_same, (set_low_lw_other s v x y Hn).
      destruct (Hab y Hy Hlt) as [H1 H2]. split; [|exact H2]. unfold x. pose proof (Nat.le_min_l (lw s v) iw). lia.
  Qed.

  Lemma step_rec s s1 v a :
    tinv nodes s -> rinv g nodes s -> In v (stk s) -> above_ok s v -> edge g nodes v a ->
    sc_post nodes s a s1 -> sc_post2 g nodes s a s1 ->
    In v (stk s1) /\ lw s1 v = lw s v /\
    tinv nodes (set_low s1 v (Nat.min (lw s1 v) (lw s1 a))) /\
    rinv g nodes (set_low s1 v (Nat.min (lw s1 v) (lw s1 a))) /\
    above_ok (set_low s1 v (Nat.min (lw s1 v) (lw s1 a))) v.
  Proof.
    intros Hinv Hr Hv Hab Hedge (P1 & P2 & P3 & P4 & _) (Q1 & Q3 & Q2).
    set (x := Nat.min (lw s1 v) (lw s1 a)).
    assert (Hv1 : In v (stk s1)) by (eapply ext_stk_in; eassumption).
    assert (Hvk : In v (keys s)) by (apply (stk_in_keys nodes); assumption).
    assert (Hixv : ix s1 v = ix s v) by (apply ext_ix; assumption).
    assert (Hlv : lw s1 v <= ix s v).
    { destruct (t_low _ _ P1 v Hv1) as [Hl _]. lia. }
    assert (Hctr : ix s v < ctr s) by (apply (t_ctr _ _ Hinv); exact Hv).
    assert (Hcase : lw s1 v <= lw s1 a \/ In a (stk s1)).
    { destruct P4 as [P4 | P4]; [right; exact P4 | left; lia]. }
    split; [exact Hv1|]. split; [apply Q3; exact Hv|]. split; [|split].
    - apply set_low_tinv; [exact P1 | exact Hv1 | apply Nat.le_min_l |]. unfold x.
      destruct (le_lt_dec (lw s1 v) (lw s1 a)) as [Hle | Hlt].
      + rewrite Nat.min_l by exact Hle. destruct (t_low _ _ P1 v Hv1) as [_ Hz]. exact Hz.
      + rewrite Nat.min_r by lia. destruct Hcase as [Hc1 | Hc1]; [lia|].
        destruct (t_low _ _ P1 a Hc1) as [_ Hz]. exact Hz.
    - apply set_low_rinv; [exact Q1|]. intros z Hz Hzx. unfold x in Hzx.
      destruct (le_lt_dec (lw s1 v) (lw s1 a)) as [Hle | Hlt].
      + rewrite Nat.min_l in Hzx by exact Hle. apply (r_low _ _ _ Q1 v z Hv1 Hz Hzx).
      + rewrite Nat.min_r in Hzx by lia. destruct Hcase as [Hc1 | Hc1]; [lia|].
        eapply reach_step; [exact Hedge|]. apply (r_low _ _ _ Q1 a z Hc1 Hz Hzx).
    - intros y Hy Hlt. change (ix (set_low s1 v x) v) with (ix s1 v) in Hlt.
      change (ix (set_low s1 v x) y) with (ix s1 y) in *. simpl in Hy.
      assert (Hn : y <> v) by (intros ->; lia).
      rewrite set_low_lw_same, (set_low_lw_other s1 v x y Hn).
      pose proof (Nat.le_min_l (lw s1 v) (lw s1 a)). pose proof (Nat.le_min_r (lw s1 v) (lw s1 a)).
      destruct (in_dec Nat.eq_dec y (stk s)) as [Hys | Hys].
      + assert (Hyk : In y (keys s)) by (apply (stk_in_keys nodes); assumption).
        rewrite (ext_ix s s1 y P2 Hyk), Hixv in Hlt.
        destruct (Hab y Hys Hlt) as [H1 H2].
        rewrite (Q3 y Hys), (ext_ix s s1 y P2 Hyk). pose proof (Q3 v Hv). unfold x. lia.
      + destruct (Q2 y Hy Hys) as [H1 H2]. unfold x. lia.
  Qed.

  (* ---- layer 3 *)
  Definition rec_ok3 (rec : nat -> st -> option st) (f : nat) : Prop :=
    forall A s w s', tinv nodes s -> rinv g nodes s -> aget (idx s) w = None -> In w nodes ->
                     count_un nodes s < f -> (forall x, In x (stk s) -> R x w) ->
                     incl A (stk s) -> cinv A s -> rec w s = Some s' -> cinv A s' /\ frame s s'.

  Lemma sc_loop_spec3 rec f v A :
    rec_ok nodes rec f -> rec_ok2 g nodes rec f -> rec_ok3 rec f -> In v nodes ->
    forall ws dn s s', nbr g v = dn ++ ws -> tinv nodes s -> rinv g nodes s -> In v (stk s) ->
      count_un nodes s < f -> above_ok s v -> incl A (stk s) -> cinv (v :: A) s -> Dn s v dn ->
      sc_loop rec nodes v ws s = Some s' ->
      cinv (v :: A) s' /\ Dn s' v (nbr g v) /\ frame s s' /\ ext s s'.
  Proof.
    intros Hrec Hrec2 Hrec3 Hvn.
    induction ws as [|a r IH]; intros dn s s' Hnb Hinv Hr Hv Hc Hab HA Hci Hdn Hrun; simpl in Hrun.
    - inversion Hrun; subst. rewrite app_nil_r in Hnb. rewrite Hnb.
      split; [exact Hci|]. split; [exact Hdn|]. split; [apply frame_refl | apply ext_refl].
    - assert (Hnb' : nbr g v = (dn ++ [a]) ++ r) by (rewrite <- app_assoc; exact Hnb).
      destruct (negb (mem a nodes)) eqn:Em.
      { apply negb_true_iff in Em. apply mem_false in Em.
        apply (IH (dn ++ [a]) s s'); try assumption.
        apply Dn_snoc; [exact Hdn | intros H; contradiction]. }
      apply negb_false_iff in Em. apply mem_In in Em.
      assert (Hedge : edge g nodes v a).
      { repeat split; try assumption. rewrite Hnb. apply in_or_app. right. left. reflexivity. }
      destruct (aget (idx s) a) as [iw|] eqn:Ea.
      + assert (Hak : In a (keys s)) by (eapply aget_In_keys; exact Ea).
        destruct (mem a (onstk s)) eqn:Eon.
        * apply mem_In in Eon. apply (t_on _ _ Hinv) in Eon.
          assert (Hia : ix s a = iw) by (unfold ix, agetd; rewrite Ea; reflexivity).
          fold (lw s v) in Hrun.
          destruct (step_onstack s v a iw Hinv Hr Hv Hab Hedge Eon Hia) as [Hi1 [Hr1 Hab1]].
          set (s1 := set_low s v (Nat.min (lw s v) iw)) in *.
          assert (Hci1 : cinv (v :: A) s1) by (apply set_low_cinv; [exact Hci | left; reflexivity]).
          assert (Hdn1 : Dn s1 v (dn ++ [a])).
          { apply Dn_snoc.
            - apply Dn_set_low; [apply Nat.le_min_l | exact Hdn].
            - intros _. split; [exact Hak|]. intros _. unfold s1. rewrite set_low_lw_same.
              change (ix (set_low s v (Nat.min (lw s v) iw)) a) with (ix s a). rewrite Hia. apply Nat.le_min_r. }
          destruct (IH (dn ++ [a]) s1 s' Hnb' Hi1 Hr1 Hv Hc Hab1 HA Hci1 Hdn1 Hrun) as [F1 [F2 [F3 F4]]].
          split; [exact F1|]. split; [exact F2|]. split.
          -- eapply frame_trans; [apply set_low_ext | apply frame_set_low | exact F3].
          -- eapply ext_trans; [apply set_low_ext | exact F4].
        * apply mem_false in Eon.
          apply (IH (dn ++ [a]) s s'); try assumption.
          apply Dn_snoc; [exact Hdn|]. intros _. split; [exact Hak|].
          intros Hs. exfalso. apply Eon. apply (t_on _ _ Hinv). exact Hs.
      + destruct (Hrec s a Hinv Ea Em Hc) as [s1 [E1 Hpost]]. rewrite E1 in Hrun.
        assert (Hpre : forall x, In x (stk s) -> R x a).
        { intros x Hx. apply (reach_trans g nodes x v a); [apply (all_reach_active g nodes s v); assumption|].
          eapply reach_step; [exact Hedge | apply reach_refl]. }
        pose proof (Hrec2 s a s1 Hinv Hr Ea Em Hc Hpre E1) as Hpost2.
        assert (HvA : incl (v :: A) (stk s)) by (intros x [<- | Hx]; [exact Hv | apply HA; exact Hx]).
        destruct (Hrec3 (v :: A) s a s1 Hinv Hr Ea Em Hc Hpre HvA Hci E1) as [Hci1 Hfr1].
        destruct (step_rec s s1 v a Hinv Hr Hv Hab Hedge Hpost Hpost2) as [Hv1 [Hlv [Hi2 [Hr2 Hab2]]]].
        destruct Hpost as (P1 & P2 & P3 & P4 & _). destruct Hpost2 as (Q1 & Q3 & Q2).
        fold (lw s1 v) in Hrun. fold (lw s1 a) in Hrun.
        set (s2 := set_low s1 v (Nat.min (lw s1 v) (lw s1 a))) in *.
        assert (Hci2 : cinv (v :: A) s2) by (apply set_low_cinv; [exact Hci1 | left; reflexivity]).
        assert (Hdn1 : Dn s1 v dn).
        { intros w Hw Hn. destruct (Hdn w Hw Hn) as [H1 H2]. split; [eapply ext_keys; eassumption|].
          intros Hs1. assert (Hs : In w (stk s)).
          { destruct (in_dec Nat.eq_dec w (stk s)) as [H | H]; [exact H | exfalso].
            apply (proj2 Hfr1 w Hs1 H). exact H1. }
          rewrite Hlv, (ext_ix s s1 w P2 H1). apply H2. exact Hs. }
        assert (Hdn2 : Dn s2 v (dn ++ [a])).
        { apply Dn_snoc.
          - apply Dn_set_low; [apply Nat.le_min_l | exact Hdn1].
          - intros _. split; [exact P3|]. intros Hs. unfold s2. rewrite set_low_lw_same.
            change (ix (set_low s1 v (Nat.min (lw s1 v) (lw s1 a))) a) with (ix s1 a).
            destruct (t_low _ _ P1 a Hs) as [Hl _]. pose proof (Nat.le_min_r (lw s1 v) (lw s1 a)). lia. }
        assert (Hc2 : count_un nodes s2 < f).
        { pose proof (count_un_mono nodes s s1 P2) as Hm.
          change (count_un nodes s2) with (count_un nodes s1). lia. }
        assert (HA2 : incl A (stk s1)) by (intros x Hx; eapply ext_stk_in; [exact P2 | apply HA; exact Hx]).
        destruct (IH (dn ++ [a]) s2 s' Hnb' Hi2 Hr2 Hv1 Hc2 Hab2 HA2 Hci2 Hdn2 Hrun) as [F1 [F2 [F3 F4]]].
        split; [exact F1|]. split; [exact F2|]. split.
        * eapply frame_trans; [exact P2 | exact Hfr1|].
          eapply frame_trans; [apply set_low_ext | apply frame_set_low | exact F3].
        * eapply ext_trans; [exact P2|]. eapply ext_trans; [apply set_low_ext | exact F4].
  Qed.

  Lemma enter_cinv A s v : tinv nodes s -> aget (idx s) v = None -> cinv A s -> cinv (v :: A) (enter v s).
  Proof.
    intros Hinv Hnone [C1 C3 C4].
    assert (Hvk : ~ In v (keys s)) by (apply aget_None_keys; exact Hnone).
    assert (Hkeys : forall w, In w (keys s) -> In w (keys (enter v s))).
    { intros w Hw. unfold keys. simpl. apply keys_aset. right. exact Hw. }
    constructor.
    - exact C1.
    - intros x w Hx Hn He. simpl in Hx. destruct Hx as [<- | Hx]; [exfalso; apply Hn; left; reflexivity|].
      apply Hkeys. apply (C3 x w Hx); [intros H; apply Hn; right; exact H | exact He].
    - intros x w Hx Hn He Hw. simpl in Hx. destruct Hx as [<- | Hx]; [exfalso; apply Hn; left; reflexivity|].
      assert (HnA : ~ In x A) by (intros H; apply Hn; right; exact H).
      assert (Hwk : In w (keys s)) by (apply (C3 x w Hx HnA He)).
      assert (Hwv : w <> v) by (intros ->; contradiction).
      assert (Hxv : x <> v) by (intros ->; apply Hvk; apply (stk_in_keys nodes); assumption).
      simpl in Hw. destruct Hw as [Hw | Hw]; [congruence|].
      unfold lw, ix. simpl. rewrite !agetd_aset_neq by congruence. apply (C4 x w Hx HnA He Hw).
  Qed.

  Lemma strongconnect_spec3 : forall f, rec_ok3 (strongconnect f g nodes) f.
  Proof.
    induction f as [|f IH]; intros A s v s' Hinv Hr Hnone Hv Hc Hpre HA Hci Hrun; [lia|].
    simpl in Hrun.
    pose proof (enter_tinv nodes s v Hinv Hnone Hv) as Hi1.
    pose proof (enter_ext s v Hnone) as He1.
    pose proof (enter_rinv g nodes s v Hinv Hr Hnone Hpre) as Hr1.
    pose proof (enter_cinv A s v Hinv Hnone Hci) as Hci1.
    assert (Hc1 : count_un nodes (enter v s) < f).
    { pose proof (count_un_enter nodes s v Hnone Hv). lia. }
    assert (Hv1 : In v (stk (enter v s))) by (left; reflexivity).
    assert (Hvk : ~ In v (keys s)) by (apply aget_None_keys; exact Hnone).
    assert (Hab1 : above_ok (enter v s) v).
    { intros y Hy Hlt. exfalso. pose proof (t_ctr _ _ Hi1 y Hy) as H1. simpl in H1.
      assert (E : ix (enter v s) v = ctr s) by (unfold ix; simpl; apply agetd_aset_eq). lia. }
    assert (HA1 : incl A (stk (enter v s))) by (intros x Hx; right; apply HA; exact Hx).
    assert (Hdn0 : Dn (enter v s) v []) by (intros w []).
    destruct (sc_loop_spec nodes (strongconnect f g nodes) f v (strongconnect_spec g nodes f)
                (nbr g v) (enter v s) Hi1 Hv1 Hc1) as [s2 [E2 [Hi2 He2]]].
    rewrite E2 in Hrun.
    destruct (sc_loop_spec2 g nodes (strongconnect f g nodes) f v (strongconnect_spec g nodes f)
                (strongconnect_spec2 g nodes f) Hv
                (nbr g v) (enter v s) s2 (incl_refl _) Hi1 Hr1 Hv1 Hc1 Hab1 E2) as [Hr2 [Hab2 _]].
    destruct (sc_loop_spec3 (strongconnect f g nodes) f v A (strongconnect_spec g nodes f)
                (strongconnect_spec2 g nodes f) IH Hv
                (nbr g v) [] (enter v s) s2 eq_refl Hi1 Hr1 Hv1 Hc1 Hab1 HA1 Hci1 Hdn0 E2)
      as [Hci2 [Hdn2 [Hfr2 _]]].
    destruct (e_stk _ _ He2) as [T HT]. simpl in HT.
    pose proof (t_sorted _ _ Hi2) as Hsort. rewrite HT in Hsort.
    assert (HTabove : forall y, In y T -> ix s2 v < ix s2 y).
    { intros y Hy. apply stk_sorted_app in Hsort. destruct Hsort as [_ Hs]. apply Hs; [exact Hy | left; reflexivity]. }
    assert (Hbelow : forall y, In y (stk s) -> ix s2 y < ix s2 v).
    { intros y Hy. apply stk_sorted_app in Hsort. destruct Hsort as [Hs _]. simpl in Hs. apply Hs. exact Hy. }
    assert (Hvs2 : In v (stk s2)) by (rewrite HT; apply in_or_app; right; left; reflexivity).
    assert (HTs2 : forall y, In y T -> In y (stk s2)) by (intros y Hy; rewrite HT; apply in_or_app; left; exact Hy).
    assert (Hss2 : forall y, In y (stk s) -> In y (stk s2)) by (intros y Hy; rewrite HT; apply in_or_app; right; right; exact Hy).
    assert (HvS : ~ In v (stk s)) by (intros H; apply Hvk; apply (stk_in_keys nodes); assumption).
    assert (HTA : forall y, In y T -> ~ In y (v :: A)).
    { intros y Hy [<- | Hy2]; [specialize (HTabove v Hy); lia|].
      specialize (HTabove y Hy). specialize (Hbelow y (HA y Hy2)). lia. }
    (* the facts about the finished node v itself *)
    assert (Hv_idx : forall w, edge g nodes v w -> In w (keys s2)).
    { intros w He. apply (Hdn2 w); apply He. }
    assert (Hv_low : forall w, edge g nodes v w -> In w (stk s2) -> lw s2 v <= ix s2 w).
    { intros w He. apply (Hdn2 w); apply He. }
    assert (Hfr02 : frame s s2).
    { eapply frame_trans; [exact He1 | | exact Hfr2]. split; [exists []; simpl; rewrite app_nil_r; reflexivity|].
      simpl. intros y [<- | Hy] Hn; [exact Hvk | contradiction]. }
    unfold finish in Hrun. fold (lw s2 v) in Hrun. fold (ix s2 v) in Hrun.
    destruct (lw s2 v =? ix s2 v) eqn:E.
    - apply Nat.eqb_eq in E.
      assert (HvT : ~ In v T) by (intros H; specialize (HTabove v H); lia).
      rewrite HT, (pop_until_spec v T (stk s) (onstk s2) [] HvT) in Hrun. inversion Hrun; subst s'. clear Hrun.
      simpl. split.
      + constructor; simpl.
        * (* closed *)
          intros i ci x w Hi Hx He.
          destruct (lt_dec i (length (comps s2))) as [Hlt | Hge].
          -- rewrite nth_error_app1 in Hi by exact Hlt.
             destruct (c_closed _ _ Hci2 i ci x w Hi Hx He) as [j [cj [Hj1 [Hj2 Hj3]]]].
             exists j, cj. split; [exact Hj1|]. split; [|exact Hj3].
             rewrite nth_error_app1; [exact Hj2 | apply nth_error_Some; congruence].
          -- assert (Hi' : i = length (comps s2)).
             { assert (i < length (comps s2 ++ [T ++ [v]])) by (apply nth_error_Some; congruence).
               rewrite app_length in H. simpl in H. lia. }
             subst i. rewrite nth_error_app2, Nat.sub_diag in Hi by lia. simpl in Hi. inversion Hi; subst ci. clear Hi.
             assert (Hxs : In x (stk s2) /\ (x = v \/ In x T)).
             { apply in_app_or in Hx. destruct Hx as [Hx | [<- | []]]; [split; [apply HTs2; exact Hx | right; exact Hx] | split; [exact Hvs2 | left; reflexivity]]. }
             destruct Hxs as [Hxs Hxc].
             assert (Hwk : In w (keys s2)).
             { destruct Hxc as [-> | HxT]; [apply Hv_idx; exact He|].
               apply (c_idx _ _ Hci2 x w Hxs (HTA x HxT) He). }
             apply (t_keys _ _ Hi2) in Hwk. destruct Hwk as [Hws | Hwc].
             ++ rewrite HT in Hws. apply in_app_or in Hws.
                assert (Hcase : In w (T ++ [v]) \/ In w (stk s)).
                { destruct Hws as [H | [<- | H]]; [left; apply in_or_app; left; exact H | left; apply in_or_app; right; left; reflexivity | right; exact H]. }
                destruct Hcase as [Hin | Hin].
                ** exists (length (comps s2)), (T ++ [v]). split; [lia|]. split; [|exact Hin].
                   rewrite nth_error_app2, Nat.sub_diag by lia. reflexivity.
                ** exfalso. pose proof (Hbelow w Hin) as Hb.
                   destruct Hxc as [-> | HxT].
                   --- pose proof (Hv_low w He (Hss2 w Hin)). lia.
                   --- pose proof (c_low _ _ Hci2 x w Hxs (HTA x HxT) He (Hss2 w Hin)) as Hl.
                       destruct (Hab2 x Hxs (HTabove x HxT)) as [Hl2 _]. lia.
             ++ apply in_concat in Hwc. destruct Hwc as [cj [Hcj Hwcj]].
                apply In_nth_error in Hcj. destruct Hcj as [j Hj].
                exists j, cj. assert (j < length (comps s2)) by (apply nth_error_Some; congruence).
                split; [lia|]. split; [rewrite nth_error_app1 by assumption; exact Hj | exact Hwcj].
        * intros x w Hx Hn He. change (In w (keys s2)).
          assert (Hxv : x <> v) by (intros ->; contradiction).
          apply (c_idx _ _ Hci2 x w (Hss2 x Hx)); [intros [H | H]; [congruence | contradiction] | exact He].
        * intros x w Hx Hn He Hw. change (lw s2 x <= ix s2 w).
          assert (Hxv : x <> v) by (intros ->; contradiction).
          apply (c_low _ _ Hci2 x w (Hss2 x Hx)); [intros [H | H]; [congruence | contradiction] | exact He | apply Hss2; exact Hw].
      + split.
        * destruct (proj1 Hfr02) as [new Hnew]. exists (new ++ [T ++ [v]]). simpl. rewrite Hnew, app_assoc. reflexivity.
        * simpl. intros y Hy Hn. contradiction.
    - inversion Hrun; subst s'. clear Hrun. split; [|exact Hfr02].
      constructor.
      + apply (c_closed _ _ Hci2).
      + intros x w Hx Hn He. destruct (Nat.eq_dec x v) as [-> | Hxv]; [apply Hv_idx; exact He|].
        apply (c_idx _ _ Hci2 x w Hx); [intros [H | H]; [congruence | contradiction] | exact He].
      + intros x w Hx Hn He Hw. destruct (Nat.eq_dec x v) as [-> | Hxv]; [apply Hv_low; assumption|].
        apply (c_low _ _ Hci2 x w Hx); [intros [H | H]; [congruence | contradiction] | exact He | exact Hw].
  Qed.

  Lemma cinv_st0 : cinv [] st0.
  Proof.
    constructor; simpl.
    - intros i ci x w Hi. destruct i; discriminate.
    - intros x w [].
    - intros x w [].
  Qed.

  Lemma scc_main_spec3 : forall vs s s',
    incl vs nodes -> tinv nodes s -> rinv g nodes s -> cinv [] s -> stk s = [] ->
    scc_main (scc_fuel nodes) g nodes vs s = Some s' -> cinv [] s'.
  Proof.
    induction vs as [|v r IH]; intros s s' Hincl Hinv Hr Hci Hstk Hrun; cbn [scc_main] in Hrun.
    - inversion Hrun; subst. exact Hci.
    - assert (Hri : incl r nodes) by (intros x Hx; apply Hincl; right; exact Hx).
      destruct (aget (idx s) v) as [i|] eqn:Ea.
      + apply (IH s s'); assumption.
      + assert (Hv : In v nodes) by (apply Hincl; left; reflexivity).
        assert (Hc : count_un nodes s < scc_fuel nodes).
        { unfold scc_fuel, count_un. pose proof (filter_len_all (unidx s) nodes). lia. }
        destruct (strongconnect_spec g nodes (scc_fuel nodes) s v Hinv Ea Hv Hc) as [s1 [F1 (P1 & P2 & P3 & _ & P5)]].
        rewrite F1 in Hrun.
        assert (Hpre : forall x, In x (stk s) -> R x v) by (rewrite Hstk; intros x []).
        destruct (strongconnect_spec2 g nodes (scc_fuel nodes) s v s1 Hinv Hr Ea Hv Hc Hpre F1) as [Q1 _].
        assert (HA : incl [] (stk s)) by (intros x []).
        destruct (strongconnect_spec3 (scc_fuel nodes) [] s v s1 Hinv Hr Ea Hv Hc Hpre HA Hci F1) as [C1 _].
        apply (IH s1 s'); try assumption. apply P5. exact Hstk.
  Qed.

  (* ---- consequences for the final result *)
  Theorem scc_closed cs : scc g nodes = Some cs ->
    forall i ci x w, nth_error cs i = Some ci -> In x ci -> edge g nodes x w ->
                     exists j cj, j <= i /\ nth_error cs j = Some cj /\ In w cj.
  Proof.
    unfold scc, scc_state. intros H.
    destruct (scc_main (scc_fuel nodes) g nodes nodes st0) as [s|] eqn:E; [|discriminate].
    simpl in H. inversion H; subst cs.
    apply (c_closed _ _ (scc_main_spec3 nodes st0 s (incl_refl nodes) (tinv_st0 nodes) (rinv_st0 g nodes)
                           cinv_st0 eq_refl E)).
  Qed.

  Theorem scc_sinks_first cs : scc g nodes = Some cs -> sinks_first g nodes cs.
  Proof.
    intros H i j ci cj u w Hi Hj Hij Hu Hw He.
    destruct (scc_closed cs H i ci u w Hi Hu He) as [j' [cj' [Hle [Hj' Hw']]]].
    destruct (scc_partition g nodes) as [cs' [Hs [_ [Hnd _]]]]. rewrite H in Hs. inversion Hs; subst cs'.
    assert (j = j') by (apply (comp_unique cs j j' cj cj' w); assumption). lia.
  Qed.

  Lemma reach_comp_le cs : scc g nodes = Some cs ->
    forall x y, R x y -> forall i ci, nth_error cs i = Some ci -> In x ci ->
                exists j cj, j <= i /\ nth_error cs j = Some cj /\ In y cj.
  Proof.
    intros H x y Hr. induction Hr as [u | u v w He _ IH]; intros i ci Hi Hx.
    - exists i, ci. split; [lia|]. tauto.
    - destruct (scc_closed cs H i ci u v Hi Hx He) as [j [cj [Hle [Hj Hv]]]].
      destruct (IH j cj Hj Hv) as [k [ck [Hle2 [Hk Hw]]]].
      exists k, ck. split; [lia|]. tauto.
  Qed.

  Theorem scc_classes_thm cs : scc g nodes = Some cs -> scc_classes g nodes cs.
  Proof.
    intros H x y Hx Hy. split; [apply (scc_components_strongly_connected g nodes cs H)|].
    intros [Hxy Hyx].
    destruct (scc_partition g nodes) as [cs' [Hs [_ [Hnd Hcov]]]]. rewrite H in Hs. inversion Hs; subst cs'.
    apply Hcov in Hx. apply in_concat in Hx. destruct Hx as [ci [Hci Hxi]].
    apply In_nth_error in Hci. destruct Hci as [i Hi].
    destruct (reach_comp_le cs H x y Hxy i ci Hi Hxi) as [j [cj [Hji [Hj Hyj]]]].
    destruct (reach_comp_le cs H y x Hyx j cj Hj Hyj) as [k [ck [Hkj [Hk Hxk]]]].
    assert (i = k) by (apply (comp_unique cs i k ci ck x); assumption).
    assert (j = i) by lia. subst j k. rewrite Hi in Hj. inversion Hj; subst cj.
    exists ci. split; [eapply nth_error_In; exact Hi | tauto].
  Qed.
End Full.
