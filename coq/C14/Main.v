(* C14: the statements exported to Props/C14.v, with boolean-checkable hypotheses. *)
From Coq Require Import List Arith Bool Lia.
From SV Require Import C14.Scc C14.SccSpec C14.SccLemmas C14.KahnProofs C14.TopoProofs
     C14.TarjanInv C14.TarjanProofs C14.CondenseProofs C14.SccSpecProofs.
Import ListNotations.

(* ---- (1) topological_sort, for duplicate-free node lists *)
Lemma topo_sound g nodes order :
  nodupb nodes = true -> topological_sort g nodes = Some (Some order) -> topo_order g nodes order.
Proof. intros H. apply topological_sort_sound. apply nodupb_NoDup. exact H. Qed.

(* the loop never runs out of fuel: the model always returns Some _ *)
Lemma topo_fuel_ok g nodes : nodupb nodes = true -> topological_sort g nodes <> None.
Proof.
  intros H. apply nodupb_NoDup in H. destruct (topological_sort_total g nodes H) as [r Hr]. congruence.
Qed.

Lemma topo_iff_acyclic g nodes :
  nodupb nodes = true -> (topological_sort g nodes = Some None <-> has_cycle g nodes).
Proof. intros H. apply topological_sort_iff_acyclic. apply nodupb_NoDup. exact H. Qed.

(* both directions in the form of the property text *)
Lemma topo_spec_holds g nodes :
  nodupb nodes = true -> exists out, topological_sort g nodes = Some out /\ topo_spec g nodes out /\
                                     (out = None <-> has_cycle g nodes).
Proof.
  intros H. pose proof H as Hb. apply nodupb_NoDup in H.
  destruct (topological_sort_total g nodes H) as [out Hr]. exists out. split; [exact Hr|]. split.
  - destruct out as [order|]; simpl.
    + apply topological_sort_sound; assumption.
    + apply topological_sort_iff_acyclic; assumption.
  - rewrite <- (topological_sort_iff_acyclic g nodes H). rewrite Hr. split; congruence.
Qed.

(* ---- (2) strongly_connected_components: partition, no fuel exhaustion, for every node list *)
Lemma scc_partition_thm g nodes : exists cs, scc g nodes = Some cs /\ is_partition nodes cs.
Proof. apply scc_partition. Qed.

(* ---- (3) condense, given that the components are the classes of mutual reachability *)
Lemma condense_thm g nodes cs :
  scc g nodes = Some cs -> scc_classes g nodes cs ->
  exists succs, condense g nodes = Some (cs, succs) /\ cond_spec g nodes (cs, succs).
Proof.
  intros Hs Hc. apply condense_correct; try assumption.
  destruct (scc_partition g nodes) as [cs' [H1 H2]]. rewrite Hs in H1. inversion H1; subst. exact H2.
Qed.

(* ---- _edges variants (backend="python"): the same functions on nodes 0..n-1 *)
Lemma nodupb_seq n : nodupb (seq 0 n) = true.
Proof. apply nodupb_NoDup. apply seq_NoDup. Qed.

Lemma scc_edges_partition n edges : exists cs, scc_edges n edges = Some cs /\ is_partition (seq 0 n) cs.
Proof. apply scc_partition. Qed.

Lemma topo_edges_spec n edges :
  exists out, topo_edges n edges = Some out /\ topo_spec (graph_of_edges n edges) (seq 0 n) out /\
              (out = None <-> has_cycle (graph_of_edges n edges) (seq 0 n)).
Proof. apply topo_spec_holds. apply nodupb_seq. Qed.

(* ---- (4) Tarjan's full correctness: NOT proved in general (needs the reachability part of Tarjan's
   invariant).  Full statement kept here; what is proved: the partition half (above) and the soundness of the
   boolean certificate scc_check, which the harness evaluates in the kernel on the model's and the
   implementation's output of every explored case. *)
Definition scc_classes_full_statement : Prop :=
  forall g nodes cs, scc g nodes = Some cs -> scc_classes g nodes cs.
Definition scc_order_full_statement : Prop :=
  forall g nodes cs, scc g nodes = Some cs -> sinks_first g nodes cs.

Lemma scc_classes_order_partial g nodes cs :
  scc g nodes = Some cs -> scc_check g nodes cs = true ->
  is_partition nodes cs /\ scc_classes g nodes cs /\ sinks_first g nodes cs.
Proof. intros _ H. apply scc_check_sound. exact H. Qed.

(* with the certificate, condense needs no further hypothesis *)
Lemma condense_certified g nodes cs :
  scc g nodes = Some cs -> scc_check g nodes cs = true ->
  exists succs, condense g nodes = Some (cs, succs) /\ cond_spec g nodes (cs, succs).
Proof.
  intros Hs Hc. apply condense_thm; [exact Hs|]. apply scc_check_sound in Hc. apply Hc.
Qed.
