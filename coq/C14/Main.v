(* C14: the statements exported to Props/C14.v, with boolean-checkable hypotheses. *)
From Coq Require Import List Arith Bool Lia.
From SV Require Import C14.Scc C14.SccSpec C14.SccLemmas C14.KahnProofs C14.TopoProofs
     C14.TarjanInv C14.TarjanProofs C14.TarjanReach C14.TarjanFull C14.CondenseProofs C14.SccSpecProofs.
Import ListNotations.

(* ---- (1) topological_sort, for duplicate-free node lists *)
Lemma topo_sound g nodes order :
  nodupb nodes = true -> topological_sort g nodes = Some (Some order) -> topo_order g nodes order.
Proof. intros H. apply topological_sort_sound. apply nodupb_NoDup. exact H. Qed.

(* the loop never runs out of fuel: the model always returns Some _ *)
Lemma topo_fuel_ok g nodes : nodupb nodes = true -> topological_sort g nodes <> None.
Proof.
  intros H. apply nodupb_NoDup in H. destruct (topological_sort_total g nodes H) as [r Hr]. congruence.
Qed.

Lemma topo_iff_acyclic g nodes :
  nodupb nodes = true -> (topological_sort g nodes = Some None <-> has_cycle g nodes).
Proof. intros H. apply topological_sort_iff_acyclic. apply nodupb_NoDup. exact H. Qed.

(* both directions in the form of the property text *)
Lemma topo_spec_holds g nodes :
  nodupb nodes = true -> exists out, topological_sort g nodes = Some out /\ topo_spec g nodes out /\
                                     (out = None <-> has_cycle g nodes).
Proof.
  intros H. pose proof H as Hb. apply nodupb_NoDup in H.
  destruct (topological_sort_total g nodes H) as [out Hr]. exists out. split; [exact Hr|]. split.
  - destruct out as [order|]; simpl.
    + apply topological_sort_sound; assumption.
    + apply topological_sort_iff_acyclic; assumption.
  - rewrite <- (topological_sort_iff_acyclic g nodes H). rewrite Hr. split; congruence.
Qed.

(* ---- (2) strongly_connected_components: partition, no fuel exhaustion, for every node list *)
Lemma scc_partition_thm g nodes : exists cs, scc g nodes = Some cs /\ is_partition nodes cs.
Proof. apply scc_partition. Qed.

(* ---- (3) condense, given that the components are the classes of mutual reachability *)
Lemma condense_thm g nodes cs :
  scc g nodes = Some cs -> scc_classes g nodes cs ->
  exists succs, condense g nodes = Some (cs, succs) /\ cond_spec g nodes (cs, succs).
Proof.
  intros Hs Hc. apply condense_correct; try assumption.
  destruct (scc_partition g nodes) as [cs' [H1 H2]]. rewrite Hs in H1. inversion H1; subst. exact H2.
Qed.

(* ---- _edges variants (backend="python"): the same functions on nodes 0..n-1 *)
Lemma nodupb_seq n : nodupb (seq 0 n) = true.
Proof. apply nodupb_NoDup. apply seq_NoDup. Qed.

Lemma scc_edges_partition n edges : exists cs, scc_edges n edges = Some cs /\ is_partition (seq 0 n) cs.
Proof. apply scc_partition. Qed.

Lemma topo_edges_spec n edges :
  exists out, topo_edges n edges = Some out /\ topo_spec (graph_of_edges n edges) (seq 0 n) out /\
              (out = None <-> has_cycle (graph_of_edges n edges) (seq 0 n)).
Proof. apply topo_spec_holds. apply nodupb_seq. Qed.

(* ---- (4) Tarjan's full correctness, for every graph and every node list *)
Lemma scc_components_strongly_connected_thm g nodes cs :
  scc g nodes = Some cs -> forall x y, same_comp cs x y -> mutual g nodes x y.
Proof. apply scc_components_strongly_connected. Qed.

(* components are exactly the classes of mutual reachability *)
Lemma scc_classes_holds g nodes cs : scc g nodes = Some cs -> scc_classes g nodes cs.
Proof. apply scc_classes_thm. Qed.

(* sinks first: no edge from an earlier component to a later one *)
Lemma scc_order_holds g nodes cs : scc g nodes = Some cs -> sinks_first g nodes cs.
Proof. apply scc_sinks_first. Qed.

(* the whole statement about strongly_connected_components *)
Lemma scc_spec_holds g nodes : exists cs, scc g nodes = Some cs /\ scc_spec g nodes cs.
Proof.
  destruct (scc_partition g nodes) as [cs [H1 H2]]. exists cs. split; [exact H1|].
  split; [exact H2|]. split; [apply scc_classes_thm; exact H1 | apply scc_sinks_first; exact H1].
Qed.

Lemma scc_edges_spec n edges :
  exists cs, scc_edges n edges = Some cs /\ scc_spec (graph_of_edges n edges) (seq 0 n) cs.
Proof. apply scc_spec_holds. Qed.

(* condense without any hypothesis *)
Lemma condense_spec_holds g nodes :
  exists cs succs, scc g nodes = Some cs /\ condense g nodes = Some (cs, succs) /\
                   scc_spec g nodes cs /\ cond_spec g nodes (cs, succs).
Proof.
  destruct (scc_spec_holds g nodes) as [cs [H1 H2]].
  destruct (condense_thm g nodes cs H1 (proj1 (proj2 H2))) as [succs [H3 H4]].
  exists cs, succs. tauto.
Qed.

(* the kernel-evaluated certificates used by the harness on implementation outputs *)
Lemma scc_check_certifies g nodes cs :
  scc_check g nodes cs = true -> is_partition nodes cs /\ scc_classes g nodes cs /\ sinks_first g nodes cs.
Proof. apply scc_check_sound. Qed.
