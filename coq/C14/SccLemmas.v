(* Generic lemmas used by the C14 proofs: membership, association lists, positions, repeated elements. *)
From Coq Require Import List Arith ZArith Bool Lia.
From SV Require Import C14.Scc C14.SccSpec.
Import ListNotations.

(* ---------------------------------------------------------------- mem / nodupb *)
Lemma mem_In x l : mem x l = true <-> In x l.
Proof.
  unfold mem. rewrite existsb_exists. split.
  - intros [y [Hy He]]. apply Nat.eqb_eq in He. subst. exact Hy.
  - intros H. exists x. split; [exact H | apply Nat.eqb_refl].
Qed.

Lemma mem_false x l : mem x l = false <-> ~ In x l.
Proof.
  split.
  - intros H Hin. apply mem_In in Hin. congruence.
  - intros H. destruct (mem x l) eqn:E; [|reflexivity]. apply mem_In in E. contradiction.
Qed.

Lemma nodupb_NoDup l : nodupb l = true <-> NoDup l.
Proof.
  induction l as [|x r IH]; simpl.
  - split; [constructor | reflexivity].
  - rewrite andb_true_iff, negb_true_iff, mem_false, IH. split.
    + intros [H1 H2]. constructor; assumption.
    + intros H. inversion H; subst. split; assumption.
Qed.

Lemma inclb_incl a b : inclb a b = true <-> incl a b.
Proof.
  unfold inclb. rewrite forallb_forall. split.
  - intros H x Hx. apply mem_In. apply H. exact Hx.
  - intros H x Hx. apply mem_In. apply H. exact Hx.
Qed.

Lemma seteqb_iff a b : seteqb a b = true <-> (forall x, In x a <-> In x b).
Proof.
  unfold seteqb. rewrite andb_true_iff, !inclb_incl. split.
  - intros [H1 H2] x. split; [apply H1 | apply H2].
  - intros H. split; intros x Hx; apply H; exact Hx.
Qed.

(* ---------------------------------------------------------------- association lists *)
Section AssocLemmas.
  Context {A : Type}.
  Implicit Types m : list (nat * A).

  Lemma aget_aset_eq m k a : aget (aset m k a) k = Some a.
  Proof.
    induction m as [|[k' a'] r IH]; simpl.
    - rewrite Nat.eqb_refl. reflexivity.
    - destruct (k' =? k) eqn:E; simpl; rewrite E; [reflexivity | exact IH].
  Qed.

  Lemma aget_aset_neq m k k' a : k <> k' -> aget (aset m k a) k' = aget m k'.
  Proof.
    intros Hn. induction m as [|[k0 a0] r IH]; simpl.
    - destruct (k =? k') eqn:E; [apply Nat.eqb_eq in E; contradiction | reflexivity].
    - destruct (k0 =? k) eqn:E; simpl.
      + apply Nat.eqb_eq in E. subst k0.
        destruct (k =? k') eqn:E2; [apply Nat.eqb_eq in E2; contradiction | reflexivity].
      + destruct (k0 =? k'); [reflexivity | exact IH].
  Qed.

  Lemma agetd_aset_eq d m k a : agetd d (aset m k a) k = a.
  Proof. unfold agetd. rewrite aget_aset_eq. reflexivity. Qed.

  Lemma agetd_aset_neq d m k k' a : k <> k' -> agetd d (aset m k a) k' = agetd d m k'.
  Proof. intros H. unfold agetd. rewrite aget_aset_neq by exact H. reflexivity. Qed.

  Lemma aget_In_keys m k a : aget m k = Some a -> In k (map fst m).
  Proof.
    induction m as [|[k' a'] r IH]; simpl; [discriminate|].
    destruct (k' =? k) eqn:E.
    - apply Nat.eqb_eq in E. intros _. left. exact E.
    - intros H. right. apply IH. exact H.
  Qed.

  Lemma aget_None_keys m k : aget m k = None <-> ~ In k (map fst m).
  Proof.
    induction m as [|[k' a'] r IH]; simpl.
    - split; [intros _ [] | reflexivity].
    - destruct (k' =? k) eqn:E.
      + apply Nat.eqb_eq in E. split; [discriminate | intros H; exfalso; apply H; left; exact E].
      + apply Nat.eqb_neq in E. rewrite IH. split.
        * intros H [H1 | H1]; [contradiction | apply H; exact H1].
        * intros H H1. apply H. right. exact H1.
  Qed.

  Lemma keys_aset m k a x : In x (map fst (aset m k a)) <-> (x = k \/ In x (map fst m)).
  Proof.
    induction m as [|[k' a'] r IH]; simpl.
    - split; intros [H | H]; auto.
    - destruct (k' =? k) eqn:E; simpl.
      + apply Nat.eqb_eq in E. subst k'. split; intros H; [right; exact H|].
        destruct H as [H | H]; [left; symmetry; exact H | exact H].
      + rewrite IH. split; intros H.
        * destruct H as [H | [H | H]]; auto.
        * destruct H as [H | [H | H]]; auto.
  Qed.

  Lemma agetd_init_map (d : A) nodes k : agetd d (init_map d nodes) k = d.
  Proof.
    unfold init_map.
    assert (G : forall m, agetd d m k = d -> agetd d (fold_left (fun m v => aset m v d) nodes m) k = d).
    { induction nodes as [|v r IH]; intros m Hm; simpl; [exact Hm|].
      apply IH. destruct (Nat.eq_dec v k) as [->|Hn].
      - apply agetd_aset_eq.
      - rewrite agetd_aset_neq by exact Hn. exact Hm. }
    apply G. reflexivity.
  Qed.
End AssocLemmas.

(* ---------------------------------------------------------------- positions *)
Lemma pos_app_in x l l' : In x l -> pos x (l ++ l') = pos x l.
Proof.
  induction l as [|y r IH]; simpl; [intros []|].
  intros H. destruct (y =? x) eqn:E; [reflexivity|].
  f_equal. apply IH. destruct H as [H | H]; [|exact H].
  apply Nat.eqb_neq in E. contradiction.
Qed.

Lemma pos_app_notin x l l' : ~ In x l -> pos x (l ++ l') = length l + pos x l'.
Proof.
  induction l as [|y r IH]; simpl; [reflexivity|].
  intros H. destruct (y =? x) eqn:E.
  - apply Nat.eqb_eq in E. exfalso. apply H. left. exact E.
  - f_equal. apply IH. intros H1. apply H. right. exact H1.
Qed.

Lemma pos_lt_length x l : In x l -> pos x l < length l.
Proof.
  induction l as [|y r IH]; simpl; [intros []|].
  intros H. destruct (y =? x) eqn:E; [lia|].
  apply Nat.eqb_neq in E. destruct H as [H | H]; [contradiction|].
  specialize (IH H). lia.
Qed.

(* ---------------------------------------------------------------- a list that is not duplicate free repeats an element *)
Lemma dup_split (l : list nat) :
  ~ NoDup l -> exists a l1 l2 l3, l = l1 ++ a :: l2 ++ a :: l3.
Proof.
  induction l as [|a r IH]; intros H.
  - exfalso. apply H. constructor.
  - destruct (in_dec Nat.eq_dec a r) as [Hin | Hnin].
    + apply in_split in Hin. destruct Hin as [l2 [l3 ->]].
      exists a, [], l2, l3. reflexivity.
    + assert (Hr : ~ NoDup r) by (intros Hr; apply H; constructor; assumption).
      destruct (IH Hr) as [b [l1 [l2 [l3 ->]]]].
      exists b, (a :: l1), l2, l3. reflexivity.
Qed.

(* ---------------------------------------------------------------- paths *)
Lemma path1_trans g nodes u v w : path1 g nodes u v -> path1 g nodes v w -> path1 g nodes u w.
Proof.
  intros H1 H2. induction H1 as [u v He | u x v He _ IH].
  - eapply path1_cons; eassumption.
  - eapply path1_cons; [exact He | apply IH; exact H2].
Qed.

Lemma path1_reach g nodes u w : path1 g nodes u w -> reach g nodes u w.
Proof.
  intros H. induction H as [u w He | u v w He _ IH].
  - eapply reach_step; [exact He | apply reach_refl].
  - eapply reach_step; eassumption.
Qed.

Lemma reach_trans g nodes u v w : reach g nodes u v -> reach g nodes v w -> reach g nodes u w.
Proof.
  intros H1 H2. induction H1 as [u | u x v He _ IH]; [exact H2|].
  eapply reach_step; [exact He | apply IH; exact H2].
Qed.

Lemma reach_path1 g nodes u w : reach g nodes u w -> u = w \/ path1 g nodes u w.
Proof.
  intros H. induction H as [u | u v w He _ IH]; [left; reflexivity|].
  right. destruct IH as [-> | IH]; [apply path1_one; exact He | eapply path1_cons; eassumption].
Qed.

(* edges and the boolean successor lists *)
Lemma succs_in_edge g nodes u w : In w (succs_in g nodes u) <-> edge g nodes u w.
Proof.
  unfold succs_in, edge. destruct (mem u nodes) eqn:E.
  - apply mem_In in E. rewrite filter_In, mem_In. tauto.
  - apply mem_false in E. simpl. tauto.
Qed.

Lemma edgeb_edge g nodes u w : edgeb g nodes u w = true <-> edge g nodes u w.
Proof. unfold edgeb. rewrite mem_In. apply succs_in_edge. Qed.
