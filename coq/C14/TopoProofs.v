(* topological_sort: soundness of the order, never out of fuel, INFEASIBLE iff the in-set graph has a cycle. *)
From Coq Require Import List Arith ZArith Bool Lia.
From SV Require Import C14.Scc C14.SccSpec C14.SccLemmas C14.KahnProofs.
Import ListNotations.

(* ---------------------------------------------------------------- an order with all edges forward excludes cycles *)
Lemma topo_order_path1 g nodes order u w :
  topo_order g nodes order -> path1 g nodes u w -> pos u order < pos w order.
Proof.
  intros (_ & _ & _ & Hf) Hp. induction Hp as [u w He | u v w He _ IH].
  - apply Hf. exact He.
  - specialize (Hf u v He). lia.
Qed.

Lemma topo_order_acyclic g nodes order : topo_order g nodes order -> ~ has_cycle g nodes.
Proof.
  intros Ho [v Hp]. pose proof (topo_order_path1 g nodes order v v Ho Hp). lia.
Qed.

(* ---------------------------------------------------------------- every node of a set has a predecessor in the set => cycle *)
Fixpoint chain (g : graph) (nodes : list nat) (l : list nat) : Prop :=
  match l with
  | a :: (b :: _) as r => edge g nodes a b /\ chain g nodes r
  | _ => True
  end.

Lemma chain_app_r g nodes l1 l2 : chain g nodes (l1 ++ l2) -> chain g nodes l2.
Proof.
  induction l1 as [|a r IH]; simpl; [tauto|].
  destruct (r ++ l2) as [|b t] eqn:E.
  - intros _. destruct r; simpl in E; [subst; exact I | discriminate].
  - intros [_ H]. apply IH. exact H.
Qed.

Lemma chain_path1 g nodes l : forall a b, chain g nodes (a :: l ++ [b]) -> path1 g nodes a b.
Proof.
  induction l as [|x r IH]; intros a b H; simpl in H.
  - apply path1_one. tauto.
  - destruct H as [He H]. eapply path1_cons; [exact He|]. apply IH. exact H.
Qed.

Lemma backward_chain g nodes (S : nat -> Prop) :
  (forall w, S w -> exists u, S u /\ edge g nodes u w) ->
  forall n x, S x -> exists l, length l = n /\ chain g nodes (l ++ [x]) /\ Forall S l.
Proof.
  intros Hpred. induction n as [|n IH]; intros x Hx.
  - exists []. simpl. repeat split. constructor.
  - destruct (IH x Hx) as [l [Hl [Hc Hs]]].
    destruct l as [|y r].
    + destruct (Hpred x Hx) as [u [Hu He]]. exists [u]. simpl. split; [|split].
      * simpl in Hl. subst n. reflexivity.
      * split; [exact He | exact I].
      * constructor; [exact Hu | constructor].
    + inversion Hs as [|? ? Hy Hr]; subst.
      destruct (Hpred y Hy) as [u [Hu He]]. exists (u :: y :: r). split; [simpl in *; lia|]. split.
      * simpl. split; [exact He | exact Hc].
      * constructor; assumption.
Qed.

Lemma cycle_from_predecessors g nodes (S : nat -> Prop) x :
  (forall w, S w -> In w nodes) ->
  (forall w, S w -> exists u, S u /\ edge g nodes u w) ->
  S x -> has_cycle g nodes.
Proof.
  intros Hin Hpred Hx.
  destruct (backward_chain g nodes S Hpred (Datatypes.S (length nodes)) x Hx) as [l [Hl [Hc Hs]]].
  assert (Hnd : ~ NoDup l).
  { intros Hnd. assert (Hi : incl l nodes).
    { intros y Hy. apply Hin. rewrite Forall_forall in Hs. apply Hs. exact Hy. }
    pose proof (NoDup_incl_length Hnd Hi). lia. }
  destruct (dup_split l Hnd) as [a [l1 [l2 [l3 ->]]]].
  exists a. apply (chain_path1 g nodes l2 a a).
  rewrite <- app_assoc in Hc. apply chain_app_r in Hc.
  (* a :: l2 ++ a :: l3 ++ [x] : keep the prefix a :: l2 ++ [a] *)
  clear - Hc. revert a Hc.
  assert (G : forall l a b t, chain g nodes ((a :: l ++ [b]) ++ t) -> chain g nodes (a :: l ++ [b])).
  { induction l as [|y r IH]; intros a b t H; simpl in *.
    - split; [tauto | exact I].
    - destruct H as [He H]. split; [exact He|]. apply (IH y b t). exact H. }
  intros a Hc. apply (G l2 a a (l3 ++ [x])).
  simpl. simpl in Hc. rewrite <- app_assoc in Hc. simpl in Hc. rewrite <- app_assoc. simpl. exact Hc.
Qed.

(* ---------------------------------------------------------------- the theorems about the model *)
Lemma topological_sort_total g nodes :
  NoDup nodes -> exists r, topological_sort g nodes = Some r.
Proof.
  intros Hnd. destruct (kahn_result_inv g nodes Hnd) as [res [deg [Hr _]]].
  unfold topological_sort. rewrite Hr. eexists. reflexivity.
Qed.

Lemma topological_sort_sound g nodes order :
  NoDup nodes -> topological_sort g nodes = Some (Some order) -> topo_order g nodes order.
Proof.
  intros Hnd H. destruct (kahn_result_inv g nodes Hnd) as [res [deg [Hr Hinv]]].
  unfold topological_sort in H. rewrite Hr in H.
  destruct (length res =? length nodes) eqn:El; [|discriminate].
  apply Nat.eqb_eq in El. inversion H; subst res. clear H.
  destruct Hinv as [I1 I2 I3 I4 I5]. rewrite app_nil_r in *.
  assert (Hall : incl nodes order).
  { apply NoDup_length_incl; [exact I1 | lia | exact I2]. }
  unfold topo_order. split; [exact I1|]. split; [|split; [exact El|]].
  - intros x. split; [apply I2 | apply Hall].
  - intros u w H. destruct H as (Hu & Hw & Hn). destruct (I5 u w Hu (Hall w Hw)) as [_ Hp]; [|exact Hp].
    apply adjf_edge; [exact Hu | repeat split; assumption].
Qed.

Lemma topological_sort_infeasible_cycle g nodes :
  NoDup nodes -> topological_sort g nodes = Some None -> has_cycle g nodes.
Proof.
  intros Hnd H. destruct (kahn_result_inv g nodes Hnd) as [res [deg [Hr Hinv]]].
  unfold topological_sort in H. rewrite Hr in H.
  destruct (length res =? length nodes) eqn:El; [discriminate|].
  apply Nat.eqb_neq in El. clear H.
  destruct Hinv as [I1 I2 I3 I4 I5]. rewrite app_nil_r in *.
  (* some node is missing from the output *)
  assert (Hex : exists x, In x nodes /\ ~ In x res).
  { destruct (forallb (fun x => mem x res) nodes) eqn:E.
    - exfalso. rewrite forallb_forall in E.
      assert (Hi : incl nodes res) by (intros x Hx; apply mem_In; apply E; exact Hx).
      pose proof (NoDup_incl_length Hnd Hi). pose proof (NoDup_incl_length I1 I2). lia.
    - assert (Hne : ~ forallb (fun x => mem x res) nodes = true) by congruence.
      rewrite forallb_forall in Hne.
      destruct (existsb (fun x => negb (mem x res)) nodes) eqn:E2.
      + apply existsb_exists in E2. destruct E2 as [x [Hx Hm]]. exists x. split; [exact Hx|].
        apply mem_false. apply negb_true_iff. exact Hm.
      + exfalso. apply Hne. intros x Hx.
        assert (Hf : forall y, In y nodes -> negb (mem y res) = false).
        { intros y Hy. destruct (negb (mem y res)) eqn:E3; [|reflexivity].
          assert (existsb (fun x => negb (mem x res)) nodes = true) by (apply existsb_exists; exists y; auto).
          congruence. }
        specialize (Hf x Hx). apply negb_false_iff. exact Hf. }
  destruct Hex as [x [Hx Hxr]].
  apply (cycle_from_predecessors g nodes (fun w => In w nodes /\ ~ In w res) x).
  - intros w [Hw _]. exact Hw.
  - intros w [Hw Hwr].
    assert (Hnz : zget deg w <> 0%Z) by (intros Hz; apply Hwr; apply I4; assumption).
    rewrite I3 in Hnz. apply indeg_rem_nonzero_ex in Hnz. destruct Hnz as [u [Hu [Hur Hadj]]].
    exists u. split; [split; assumption|]. apply adjf_edge; assumption.
  - split; assumption.
Qed.

Lemma topological_sort_iff_acyclic g nodes :
  NoDup nodes -> (topological_sort g nodes = Some None <-> has_cycle g nodes).
Proof.
  intros Hnd. split.
  - apply topological_sort_infeasible_cycle. exact Hnd.
  - intros Hc. destruct (topological_sort_total g nodes Hnd) as [[order|] Hr]; [|exact Hr].
    exfalso. apply (topo_order_acyclic g nodes order); [|exact Hc].
    apply topological_sort_sound; assumption.
Qed.
