(* C16 - model of solvor/bin_pack.py: solve_bin_pack().  Definitions only.
   (The code after commit 6898168: the fit test is `size - remaining <= _EPS`, best-fit ties within _EPS, the
   remaining capacity stays signed.)  Sizes and capacity are rationals (decimal inputs idealised; float rounding
   of `remaining - size` is outside the model - the tolerance _EPS is what makes the float run agree with it).
   The algorithm string is parsed by the harness into (use_best_fit, decreasing) exactly as the code does
   (lower(), '_' -> '-', suffix '-decreasing', names first-fit/ff/best-fit/bf); an unknown name and every other
   ValueError (capacity <= 0, size > capacity, size < 0) is None.
   bins = list of remaining capacities in creation order (the item lists kept by the code are not observable);
   assignments = list indexed by item. *)
From Coq Require Import List Arith ZArith QArith Bool.
From SV Require Import C16.KnapCore C16.Knapsack.
Import ListNotations.

Record bresult := { basg : list nat; bobj : nat; bstatus : status }.

Fixpoint set_nth {A} (i : nat) (v : A) (l : list A) : list A :=
  match l, i with
  | [], _ => []
  | _ :: xs, O => v :: xs
  | x :: xs, S j => x :: set_nth j v xs
  end.

(* first-fit: for b, (remaining, _) in enumerate(bins): if size - remaining <= _EPS: best_bin = b; break *)
Fixpoint first_fit (eps size : Q) (bins : list Q) (b : nat) : option nat :=
  match bins with
  | [] => None
  | r :: rest => if Qle_bool (size - r) eps then Some b else first_fit eps size rest (S b)
  end.

(* best-fit: best_remaining = inf; for b, (remaining, _) in enumerate(bins):
       if size - remaining <= _EPS and best_remaining - remaining > _EPS: best_remaining = remaining; best_bin = b *)
Fixpoint best_fit (eps size : Q) (bins : list Q) (b : nat) (best : option (nat * Q)) : option (nat * Q) :=
  match bins with
  | [] => best
  | r :: rest =>
      let better := Qle_bool (size - r) eps &&
                    match best with None => true | Some (_, br) => Qltb eps (br - r) end in
      best_fit eps size rest (S b) (if better then Some (b, r) else best)
  end.

Definition choose (use_best_fit : bool) (eps size : Q) (bins : list Q) : option nat :=
  if use_best_fit then option_map fst (best_fit eps size bins 0 None) else first_fit eps size bins 0.

(* one iteration of `for item_idx in indices` : state = (bins, assignments); `remaining - size` is kept signed *)
Definition place (use_best_fit : bool) (eps cap : Q) (st : list Q * list nat) (item : nat * Q) : list Q * list nat :=
  let '(bins, asg) := st in
  let '(idx, size) := item in
  if Qeq_bool size 0 then
    (* zero-size items go in first bin (or create one) *)
    ((match bins with [] => [cap] | _ => bins end), set_nth idx 0%nat asg)
  else
    match choose use_best_fit eps size bins with
    | Some b => (set_nth b (nth b bins 0 - size) bins, set_nth idx b asg)
    | None => (bins ++ [cap - size], set_nth idx (length bins) asg)        (* open new bin *)
    end.

(* sorted(range(n), key=lambda i: item_sizes[i], reverse=True): stable, descending *)
Definition order_of (sizes : list Q) (decreasing : bool) : list (nat * Q) :=
  let items := combine (seq 0 (length sizes)) sizes in
  if decreasing then stable_sort (fun y x : nat * Q => Qltb (snd x) (snd y)) items else items.

Definition valid_sizes (sizes : list Q) (cap : Q) : bool :=
  forallb (fun s => Qle_bool s cap && Qle_bool 0 s) sizes.

(* eps = _EPS of the code (1e-9 = Knapsack.tol); a parameter so that the theorems hold for every eps >= 0 *)
Definition bin_pack (eps : Q) (sizes : list Q) (cap : Q) (use_best_fit decreasing : bool) : option bresult :=
  match sizes with
  | [] => Some {| basg := []; bobj := 0; bstatus := OPTIMAL |}
  | _ =>
    if Qle_bool cap 0 then None                                   (* check_positive *)
    else if negb (valid_sizes sizes cap) then None                 (* size > capacity / size < 0 *)
    else
      let '(bins, asg) := fold_left (place use_best_fit eps cap) (order_of sizes decreasing)
                                    ([], repeat 0%nat (length sizes)) in
      let k := length bins in
      Some {| basg := asg; bobj := k; bstatus := if (1 <? k)%nat then FEASIBLE else OPTIMAL |}
  end.

Definition bobs := option (list nat * nat * status).
Definition bobs_of (r : option bresult) : bobs :=
  match r with None => None | Some r => Some (basg r, bobj r, bstatus r) end.
Definition bobs_eqb (a b : bobs) : bool :=
  match a, b with
  | None, None => true
  | Some (s1, o1, t1), Some (s2, o2, t2) => nats_eqb s1 s2 && (o1 =? o2)%nat && status_eqb t1 t2
  | _, _ => false
  end.
