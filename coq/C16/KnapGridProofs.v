(* C16 - the code's final check `total_weight > capacity + 1e-9` leaves a slack of 1e-9.  When the weights and the
   capacity are multiples of 1/d with d < 10^9 (decimal inputs with up to 8 places, dyadic inputs, integers) an excess
   is at least 1/d > 1e-9, so the returned selection is within the capacity exactly. *)
From Coq Require Import List Arith ZArith QArith Bool Lia Lqa.
From SV Require Import C16.KnapCore C16.Knapsack C16.KnapSpec C16.KnapQProofs.
Import ListNotations.

Definition on_grid (d : positive) (q : Q) : Prop := exists z : Z, q == z # d.
Definition on_gridb (d : positive) (q : Q) : bool := ((Qnum q * Zpos d) mod Zpos (Qden q) =? 0)%Z.

Lemma on_gridb_sound d q : on_gridb d q = true -> on_grid d q.
Proof.
  unfold on_gridb, on_grid. intros H. apply Z.eqb_eq in H.
  exists ((Qnum q * Zpos d) / Zpos (Qden q))%Z. unfold Qeq. cbn [Qnum Qden].
  pose proof (Z.div_mod (Qnum q * Zpos d) (Zpos (Qden q)) ltac:(lia)) as Hdm. rewrite H in Hdm. lia.
Qed.

Lemma grid_zero d : on_grid d 0.
Proof. exists 0%Z. unfold Qeq. cbn. reflexivity. Qed.

Lemma grid_plus d a b : on_grid d a -> on_grid d b -> on_grid d (a + b).
Proof.
  intros [za Ha] [zb Hb]. exists (za + zb)%Z. rewrite Ha, Hb. unfold Qeq, Qplus. cbn [Qnum Qden]. lia.
Qed.

Lemma grid_sum d l : Forall (on_grid d) l -> on_grid d (sumQ l).
Proof.
  induction l as [|x l IH]; intros H; [apply grid_zero|].
  inversion H as [|y l' Hx Hl]; subst. rewrite sumQ_cons. apply grid_plus; [exact Hx|apply IH; exact Hl].
Qed.

Lemma grid_arith (za zb D K : Z) :
  (0 < D)%Z -> (D < K)%Z -> (za * (D * K) <= (zb * K + 1 * D) * D)%Z -> (za <= zb)%Z.
Proof.
  intros HD HK H.
  destruct (Z_le_gt_dec za zb) as [Hle|Hgt]; [exact Hle|]. exfalso.
  assert (H1 : ((zb + 1) * (D * K) <= za * (D * K))%Z) by (apply Z.mul_le_mono_nonneg_r; nia).
  assert (H2 : (D * D < D * K)%Z) by (apply Z.mul_lt_mono_pos_l; lia).
  replace ((zb + 1) * (D * K))%Z with (zb * K * D + D * K)%Z in H1 by ring.
  replace ((zb * K + 1 * D) * D)%Z with (zb * K * D + D * D)%Z in H by ring.
  lia.
Qed.

Lemma grid_tight d a b : (Zpos d < Zpos 1000000000)%Z -> on_grid d a -> on_grid d b -> a <= b + tol -> a <= b.
Proof.
  intros Hd [za Ha] [zb Hb] H. rewrite Ha, Hb in *. unfold tol, Qle, Qplus in *. cbn [Qnum Qden] in *.
  rewrite Pos2Z.inj_mul in H.
  apply Z.mul_le_mono_nonneg_r; [lia|].
  exact (grid_arith za zb (Zpos d) (Zpos 1000000000) ltac:(lia) Hd H).
Qed.

Lemma pick_on_grid d weights sel : forallb (on_gridb d) weights = true -> on_grid d (sumQ (pickQ weights sel)).
Proof.
  intros Hws. apply grid_sum. unfold pickQ. apply Forall_forall. intros q Hq.
  apply in_map_iff in Hq. destruct Hq as [i [<- _]].
  destruct (Nat.lt_ge_cases i (length weights)) as [Hi|Hi].
  - apply on_gridb_sound. rewrite forallb_forall in Hws. apply Hws. apply nth_In. exact Hi.
  - rewrite nth_overflow by exact Hi. apply grid_zero.
Qed.


Lemma knap_q_feasible_grid0 d values weights capacity minimize r :
  Qle_bool 0 capacity = true -> (Zpos d < Zpos 1000000000)%Z -> on_grid d capacity -> forallb (on_gridb d) weights = true ->
  knap_q values weights capacity minimize = Some r ->
  knap_feasible_q 0 values weights capacity (qsel r) (qobj r).
Proof.
  intros Hcap Hd Hc Hws Hr.
  destruct (knap_q_feasible values weights capacity minimize r Hcap Hr) as [H1 [H2 [H3 [H4 H5]]]].
  pose proof (grid_tight d _ _ Hd (pick_on_grid d weights (qsel r) Hws) Hc H4) as H6.
  unfold knap_feasible_q. split; [exact H1|]. split; [exact H2|]. split; [exact H3|]. split; [|exact H5].
  apply (Qle_trans _ _ _ H6). rewrite Qplus_0_r. apply Qle_refl.
Qed.

Lemma knap_q_feasible_grid d values weights capacity minimize r :
  Qle_bool 0 capacity = true ->
  (d <? 1000000000)%positive = true -> on_gridb d capacity = true -> forallb (on_gridb d) weights = true ->
  knap_q values weights capacity minimize = Some r ->
  knap_feasible_q 0 values weights capacity (qsel r) (qobj r).
Proof.
  intros Hcap Hd Hc Hws Hr.
  apply Pos.ltb_lt in Hd. apply on_gridb_sound in Hc.
  exact (knap_q_feasible_grid0 d values weights capacity minimize r Hcap (Pos2Z.pos_lt_pos _ _ Hd) Hc Hws Hr).
Qed.
