(* C16 - theorems about the integer instance knap_z: feasibility, faithful objective, optimality. *)
From Coq Require Import List Arith ZArith Bool Lia.
From SV Require Import C16.KnapCore C16.Knapsack C16.KnapSpec C16.KnapCoreProofs C16.KnapOptProofs.
Import ListNotations.

Lemma sumZ_cons x l : sumZ (x :: l) = (x + sumZ l)%Z.
Proof. reflexivity. Qed.
Lemma list_sum_cons x l : list_sum (x :: l) = (x + list_sum l)%nat.
Proof. reflexivity. Qed.

Lemma sumZ_app a b : sumZ (a ++ b) = (sumZ a + sumZ b)%Z.
Proof. induction a as [|x a IH]; [reflexivity|]. cbn [app]. rewrite !sumZ_cons, IH. lia. Qed.

Lemma sumZ_rev l : sumZ (rev l) = sumZ l.
Proof.
  induction l as [|x l IH]; [reflexivity|]. cbn [rev]. rewrite sumZ_app, IH, !sumZ_cons. cbn [sumZ fold_right]. lia.
Qed.

Lemma list_sum_rev l : list_sum (rev l) = list_sum l.
Proof.
  induction l as [|x l IH]; [reflexivity|]. cbn [rev]. rewrite list_sum_app, IH, !list_sum_cons. cbn [list_sum fold_right]. lia.
Qed.

Lemma nth_map_mul c : forall l i, nth i (map (Z.mul c) l) 0%Z = (c * nth i l 0)%Z.
Proof.
  induction l as [|x l IH]; intros i; destruct i; cbn [map nth]; try lia. apply IH.
Qed.

Lemma sum_map_mul c (g : nat -> Z) : forall s : list nat, sumZ (map (fun i => (c * g i)%Z) s) = (c * sumZ (map g s))%Z.
Proof.
  induction s as [|a t IH]; [cbn; lia|]. cbn [map]. rewrite !sumZ_cons, IH. lia.
Qed.

Lemma sum_of_nat (g : nat -> nat) : forall s, sumZ (map (fun i => Z.of_nat (g i)) s) = Z.of_nat (list_sum (map g s)).
Proof.
  induction s as [|a t IH]; [reflexivity|]. cbn [map]. rewrite sumZ_cons, list_sum_cons, IH. lia.
Qed.

Lemma int_weight_z_ok w : (0 <= w)%Z -> Z.of_nat (int_weight_z w) = w.
Proof. intros H. unfold int_weight_z. destruct (0 <? w)%Z eqn:E; lia. Qed.

Lemma nth_int_weights weights : forallb (fun w => (0 <=? w)%Z) weights = true ->
  forall i, Z.of_nat (nth i (map int_weight_z weights) 0%nat) = nth i weights 0%Z.
Proof.
  intros H i. change 0%nat with (int_weight_z 0). rewrite map_nth. apply int_weight_z_ok.
  destruct (Nat.lt_ge_cases i (length weights)) as [Hi|Hi].
  - rewrite forallb_forall in H. apply Z.leb_le. apply H. apply nth_In. exact Hi.
  - rewrite nth_overflow by exact Hi. lia.
Qed.

Lemma nth_repeat0 (n w : nat) : nth w (repeat 0%Z n) 0%Z = 0%Z.
Proof. revert w. induction n as [|n IH]; intros w; destruct w; cbn [repeat nth]; try reflexivity. apply IH. Qed.

(* the DP + backtracking, as a whole *)
Lemma solve_core_opt (vals : list Z) (iw : list nat) (C : nat) :
  length iw = length vals ->
  let sel := solve_core 0%Z Z.add Z.ltb vals iw C in
  sumZ (map (fun i => nth i vals 0%Z) sel) = opt (rev (combine vals iw)) C /\
  (list_sum (map (fun i => nth i iw 0%nat) sel) <= C)%nat.
Proof.
  intros Hlen sel. subst sel. unfold solve_core.
  pose proof (dp_run_inv C (fun i => nth i vals 0%Z) (fun i => nth i iw 0%nat) vals iw 0%nat [] (repeat 0%Z (S C)) []
                Hlen) as H.
  assert (H1 : forall j, (j < length vals)%nat ->
                nth (0 + j) vals 0%Z = nth j vals 0%Z /\ nth (0 + j) iw 0%nat = nth j iw 0%nat)
    by (intros j _; split; reflexivity).
  assert (H2 : row_ok C (repeat 0%Z (S C)) []).
  { split; [apply repeat_length|]. intros w _. rewrite nth_repeat0. reflexivity. }
  assert (H3 : bt_ok C (fun i => nth i vals 0%Z) (fun i => nth i iw 0%nat) [] []).
  { intros w _. cbn. split; [reflexivity|lia]. }
  specialize (H H1 H2 H3). destruct H as [Hbt _].
  destruct (dp_run Z.add Z.ltb (combine vals iw) (repeat 0%Z (S C))) as [keeps fin]. cbn [fst] in Hbt.
  rewrite !app_nil_r in Hbt. destruct (Hbt C (le_n C)) as [Hv Hw].
  unfold sumv, sumw in Hv, Hw. rewrite rows_of_from.
  rewrite !map_rev, sumZ_rev, list_sum_rev. split; assumption.
Qed.

Lemma valid_z_parts values weights capacity :
  knap_valid_z values weights capacity = true ->
  length weights = length values /\ (0 <= capacity)%Z /\ forallb (fun w => (0 <=? w)%Z) weights = true.
Proof.
  unfold knap_valid_z. intros H. apply andb_prop in H. destruct H as [H H3]. apply andb_prop in H. destruct H as [H1 H2].
  split; [apply Nat.eqb_eq; exact H1|]. split; [apply Z.leb_le; exact H2|exact H3].
Qed.

(* what knap_z returns on valid input *)
Lemma knap_z_unfold values weights capacity minimize :
  knap_valid_z values weights capacity = true -> values <> [] ->
  knap_z values weights capacity minimize =
  Some {| zsel := solve_core 0%Z Z.add Z.ltb (map (Z.mul (if minimize then (-1)%Z else 1%Z)) values)
                             (map int_weight_z weights) (Z.to_nat capacity);
          zobj := sumZ (pickZ values (solve_core 0%Z Z.add Z.ltb (map (Z.mul (if minimize then (-1)%Z else 1%Z)) values)
                             (map int_weight_z weights) (Z.to_nat capacity)));
          zstatus := OPTIMAL |}.
Proof.
  intros Hv Hne. destruct (valid_z_parts _ _ _ Hv) as [Hlen [Hcap _]].
  unfold knap_z. destruct values as [|v0 vs]; [contradiction|].
  rewrite Hlen, Nat.eqb_refl. cbn [negb].
  assert (Hc : (capacity <? 0)%Z = false) by lia. rewrite Hc. reflexivity.
Qed.

Lemma knap_z_feasible values weights capacity minimize r :
  knap_valid_z values weights capacity = true ->
  knap_z values weights capacity minimize = Some r ->
  knap_feasible_z values weights capacity (zsel r) (zobj r).
Proof.
  intros Hv Hr. destruct (valid_z_parts _ _ _ Hv) as [Hlen [Hcap Hw]].
  assert (Hcase : values = [] \/ values <> []) by (destruct values; [left; reflexivity|right; discriminate]).
  destruct Hcase as [-> | Hne].
  - cbn in Hr. inversion Hr; subst r. cbn [zsel zobj]. unfold knap_feasible_z.
    split; [exact I|]. split; [constructor|]. split; [constructor|]. split; [cbn; lia|reflexivity].
  - rewrite (knap_z_unfold _ _ _ minimize Hv Hne) in Hr. injection Hr as Hr. subst r. cbn [zsel zobj].
    set (vals := map (Z.mul (if minimize then (-1)%Z else 1%Z)) values).
    set (iw := map int_weight_z weights).
    assert (Hl : length iw = length vals) by (unfold iw, vals; rewrite !map_length; exact Hlen).
    destruct (solve_core_struct Z 0%Z Z.add Z.ltb vals iw (Z.to_nat capacity) Hl) as [Hi Hf].
    destruct (solve_core_opt vals iw (Z.to_nat capacity) Hl) as [_ Hwt].
    set (sel := solve_core 0%Z Z.add Z.ltb vals iw (Z.to_nat capacity)) in *.
    unfold knap_feasible_z. split; [exact Hi|]. split; [apply incr_NoDup; exact Hi|].
    split; [unfold vals in Hf; rewrite map_length in Hf; exact Hf|].
    split; [|reflexivity].
    unfold pickZ. rewrite (map_ext _ (fun i => Z.of_nat (nth i iw 0%nat))).
    + rewrite sum_of_nat. lia.
    + intros i. symmetry. apply nth_int_weights. exact Hw.
Qed.

Lemma knap_z_optimal values weights capacity minimize r :
  knap_valid_z values weights capacity = true ->
  knap_z values weights capacity minimize = Some r ->
  zstatus r = OPTIMAL ->
  knap_optimal_z values weights capacity minimize (zobj r).
Proof.
  intros Hv Hr _. destruct (valid_z_parts _ _ _ Hv) as [Hlen [Hcap Hw]].
  intros s Hnd Hrange Hsw.
  assert (Hcase : values = [] \/ values <> []) by (destruct values; [left; reflexivity|right; discriminate]).
  destruct Hcase as [-> | Hne].
  - cbn in Hr. inversion Hr; subst r. cbn [zobj].
    destruct s as [|a t]; [destruct minimize; cbn; lia|].
    inversion Hrange as [|x l Hx Hl]; subst. cbn [length] in Hx. lia.
  - rewrite (knap_z_unfold _ _ _ minimize Hv Hne) in Hr. injection Hr as Hr. subst r. cbn [zobj].
    set (sign := if minimize then (-1)%Z else 1%Z).
    set (vals := map (Z.mul sign) values).
    set (iw := map int_weight_z weights).
    assert (Hl : length iw = length vals) by (unfold iw, vals; rewrite !map_length; exact Hlen).
    destruct (solve_core_opt vals iw (Z.to_nat capacity) Hl) as [Hval _].
    set (sel := solve_core 0%Z Z.add Z.ltb vals iw (Z.to_nat capacity)) in *.
    (* the competitor s is bounded by opt *)
    assert (Hitems : forall i, nth i (combine vals iw) (0%Z, 0%nat) = (nth i vals 0%Z, nth i iw 0%nat))
      by (intros i; apply combine_nth; symmetry; exact Hl).
    pose proof (opt_upper_idx (combine vals iw) s (Z.to_nat capacity) Hnd) as Hup.
    assert (Hr' : Forall (fun i => (i < length (combine vals iw))%nat) s).
    { rewrite combine_length, Hl, Nat.min_id. unfold vals. rewrite map_length. exact Hrange. }
    specialize (Hup Hr').
    rewrite (map_ext (fun i => Z.of_nat (snd (nth i (combine vals iw) (0%Z, 0%nat)))) (fun i => nth i weights 0%Z)) in Hup
      by (intros i; rewrite Hitems; cbn [snd]; apply nth_int_weights; exact Hw).
    rewrite (map_ext (fun i => fst (nth i (combine vals iw) (0%Z, 0%nat))) (fun i => (sign * nth i values 0)%Z)) in Hup
      by (intros i; rewrite Hitems; cbn [fst]; unfold vals; apply nth_map_mul).
    unfold pickZ in Hsw. specialize (Hup ltac:(lia)).
    rewrite <- Hval in Hup.
    rewrite (map_ext (fun i => nth i vals 0%Z) (fun i => (sign * nth i values 0)%Z)) in Hup
      by (intros i; unfold vals; apply nth_map_mul).
    rewrite !sum_map_mul in Hup. unfold pickZ. unfold sign in Hup.
    destruct minimize; lia.
Qed.
