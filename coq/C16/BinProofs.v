(* C16 - solve_bin_pack: the loop invariant of the placement loop and the validity of the result.
   For every bin b:  remaining_b == capacity - (total size of the processed items assigned to b),
   remaining_b >= -eps, b holds at least one processed item; and
   (total size processed) == (#bins) * capacity - (sum of the remaining capacities). *)
From Coq Require Import List Arith ZArith QArith Bool Lia Lqa Permutation.
From SV Require Import C16.KnapCore C16.Knapsack C16.KnapSpec C16.KnapCoreProofs C16.KnapQProofs C16.BinPack C16.BinSpec.
Import ListNotations.

(* ---------------------------------------------------------------- list helpers *)
Lemma set_nth_length {A} (v : A) : forall l i, length (set_nth i v l) = length l.
Proof. induction l as [|x l IH]; intros i; destruct i; cbn [set_nth length]; try reflexivity. f_equal. apply IH. Qed.

Lemma nth_set_nth_eq {A} (v d : A) : forall l i, (i < length l)%nat -> nth i (set_nth i v l) d = v.
Proof.
  induction l as [|x l IH]; intros i Hi; cbn [length] in Hi; [lia|].
  destruct i; cbn [set_nth nth]; [reflexivity|]. apply IH. lia.
Qed.

Lemma nth_set_nth_neq {A} (v d : A) : forall l i j, i <> j -> nth j (set_nth i v l) d = nth j l d.
Proof.
  induction l as [|x l IH]; intros i j Hij; destruct i, j; cbn [set_nth nth]; try reflexivity; try lia.
  apply IH. lia.
Qed.

Lemma sumQ_app a b : sumQ (a ++ b) == sumQ a + sumQ b.
Proof. induction a as [|x a IH]; cbn [app]; rewrite ?sumQ_cons; [cbn; lra|]. rewrite IH. lra. Qed.

Lemma sumQ_set_nth v : forall l i, (i < length l)%nat -> sumQ (set_nth i v l) == sumQ l - nth i l 0 + v.
Proof.
  induction l as [|x l IH]; intros i Hi; cbn [length] in Hi; [lia|].
  destruct i; cbn [set_nth nth]; rewrite !sumQ_cons; [lra|]. rewrite IH by lia. lra.
Qed.

Lemma sumQ_lower (e : Q) : forall l, (forall b, (b < length l)%nat -> - e <= nth b l 0) ->
  - (inject_Z (Z.of_nat (length l)) * e) <= sumQ l.
Proof.
  induction l as [|x l IH]; intros H.
  - cbn [length sumQ fold_right]. change (inject_Z (Z.of_nat 0)) with 0. lra.
  - cbn [length]. rewrite Nat2Z.inj_succ. unfold Z.succ. rewrite inject_Z_plus, sumQ_cons.
    pose proof (H 0%nat ltac:(cbn [length]; lia)) as H0. cbn [nth] in H0.
    assert (Hl : forall b, (b < length l)%nat -> - e <= nth b l 0).
    { intros b Hb. apply (H (S b)). cbn [length]. lia. }
    specialize (IH Hl). change (inject_Z 1) with 1. lra.
Qed.

Lemma sumQ_nth_seq : forall (l : list Q) a, sumQ l == sumQ (map (fun i => nth (i - a) l 0) (seq a (length l))).
Proof.
  induction l as [|x l IH]; intros a; [reflexivity|].
  cbn [length seq map]. rewrite !sumQ_cons. rewrite Nat.sub_diag. cbn [nth].
  rewrite (IH (S a)). apply Qplus_comp; [reflexivity|].
  match goal with |- ?x == ?y => assert (Heq : x = y); [|rewrite Heq; reflexivity] end.
  f_equal. apply map_ext_in. intros i Hi. apply in_seq in Hi.
  replace (i - a)%nat with (S (i - S a)) by lia. reflexivity.
Qed.

(* ---------------------------------------------------------------- the choice of a bin *)
Lemma first_fit_spec eps size : forall bins b0 b, first_fit eps size bins b0 = Some b ->
  (b0 <= b < b0 + length bins)%nat /\ size - nth (b - b0) bins 0 <= eps.
Proof.
  induction bins as [|r rest IH]; intros b0 b H; cbn [first_fit] in H; [discriminate|].
  destruct (Qle_bool (size - r) eps) eqn:E.
  - injection H as <-. rewrite Nat.sub_diag. cbn [nth length]. split; [lia|apply Qle_bool_iff; exact E].
  - destruct (IH (S b0) b H) as [Hr Hle]. cbn [length]. split; [lia|].
    replace (b - b0)%nat with (S (b - S b0)) by lia. exact Hle.
Qed.

Lemma best_fit_spec eps size : forall bins b0 best b r, best_fit eps size bins b0 best = Some (b, r) ->
  best = Some (b, r) \/ ((b0 <= b < b0 + length bins)%nat /\ size - nth (b - b0) bins 0 <= eps).
Proof.
  induction bins as [|x rest IH]; intros b0 best b r H; cbn [best_fit] in H; [left; exact H|].
  destruct (IH (S b0) _ b r H) as [Hb|[Hr Hle]].
  - destruct (Qle_bool (size - x) eps) eqn:E; cbn [andb] in Hb.
    + destruct (match best with None => true | Some (_, br) => Qltb eps (br - x) end).
      * injection Hb as <- <-. right. rewrite Nat.sub_diag. cbn [nth length]. split; [lia|apply Qle_bool_iff; exact E].
      * left. exact Hb.
    + left. exact Hb.
  - right. cbn [length]. split; [lia|]. replace (b - b0)%nat with (S (b - S b0)) by lia. exact Hle.
Qed.

Lemma choose_spec bf eps size bins b : choose bf eps size bins = Some b ->
  (b < length bins)%nat /\ size - nth b bins 0 <= eps.
Proof.
  unfold choose. destruct bf.
  - destruct (best_fit eps size bins 0 None) as [[b' r]|] eqn:E; cbn [option_map fst]; [|discriminate].
    intros H. injection H as <-. destruct (best_fit_spec _ _ _ _ _ _ _ E) as [Hb|[Hr Hle]]; [discriminate|].
    rewrite Nat.sub_0_r in Hle. split; [lia|exact Hle].
  - intros H. destruct (first_fit_spec _ _ _ _ _ H) as [Hr Hle]. rewrite Nat.sub_0_r in Hle. split; [lia|exact Hle].
Qed.

(* ---------------------------------------------------------------- the loop invariant *)
Section Loop.
  Variables (eps cap : Q) (sizes : list Q) (bf : bool).
  Hypothesis Heps : 0 <= eps.
  Hypothesis Hcap : 0 < cap.

  Definition lsum (asg : list nat) (b : nat) (done : list nat) : Q := sumQ (map (contrib sizes asg b) done).

  Record inv (bins : list Q) (asg : list nat) (done : list nat) : Prop := {
    i_len : length asg = length sizes;
    i_empty : bins = [] -> done = [];
    i_rng : forall i, In i done -> (nth i asg 0 < length bins)%nat;
    i_rem : forall b, (b < length bins)%nat -> nth b bins 0 == cap - lsum asg b done;
    i_low : forall b, (b < length bins)%nat -> - eps <= nth b bins 0;
    i_used : forall b, (b < length bins)%nat -> exists i, In i done /\ nth i asg 0%nat = b;
    i_tot : sumQ (map (fun i => nth i sizes 0) done) == inject_Z (Z.of_nat (length bins)) * cap - sumQ bins
  }.

  Lemma lsum_set asg b done idx v : ~ In idx done -> lsum (set_nth idx v asg) b done = lsum asg b done.
  Proof.
    intros Hnin. unfold lsum. f_equal. apply map_ext_in. intros i Hi. unfold contrib.
    rewrite nth_set_nth_neq; [reflexivity|]. intros ->. contradiction.
  Qed.

  Lemma lsum_cons asg b done idx v : (idx < length asg)%nat -> ~ In idx done ->
    lsum (set_nth idx v asg) b (idx :: done) = (if (v =? b)%nat then nth idx sizes 0 else 0) + lsum asg b done.
  Proof.
    intros Hi Hnin. unfold lsum at 1. cbn [map]. rewrite sumQ_cons. fold (lsum (set_nth idx v asg) b done).
    rewrite lsum_set by exact Hnin. unfold contrib at 1. rewrite nth_set_nth_eq by exact Hi. reflexivity.
  Qed.

  Lemma lsum_zero asg b done : (forall i, In i done -> nth i asg 0%nat <> b) -> lsum asg b done == 0.
  Proof.
    induction done as [|i done IH]; intros H; [reflexivity|].
    unfold lsum. cbn [map]. rewrite sumQ_cons. fold (lsum asg b done).
    rewrite IH by (intros j Hj; apply H; right; exact Hj).
    unfold contrib. pose proof (H i (or_introl eq_refl)) as Hi. apply Nat.eqb_neq in Hi. rewrite Hi. lra.
  Qed.

  Lemma place_inv bins asg done idx size :
    inv bins asg done -> (idx < length sizes)%nat -> ~ In idx done -> size = nth idx sizes 0 ->
    0 <= size -> size <= cap ->
    inv (fst (place bf eps cap (bins, asg) (idx, size))) (snd (place bf eps cap (bins, asg) (idx, size))) (idx :: done).
  Proof.
    intros [Ilen Iempty Irng Irem Ilow Iused Itot] Hidx Hnin Hsize Hs0 Hscap.
    assert (Hidx' : (idx < length asg)%nat) by (rewrite Ilen; exact Hidx).
    assert (Hold : forall i v, In i done -> nth i (set_nth idx v asg) 0%nat = nth i asg 0%nat).
    { intros i v Hi. apply nth_set_nth_neq. intros ->. contradiction. }
    unfold place. destruct (Qeq_bool size 0) eqn:Ez.
    - (* zero-size item *)
      apply Qeq_bool_iff in Ez. cbn [fst snd].
      destruct bins as [|r rest].
      + rewrite (Iempty eq_refl) in *. constructor.
        * rewrite set_nth_length. exact Ilen.
        * discriminate.
        * intros i [<-|[]]. rewrite nth_set_nth_eq by exact Hidx'. cbn [length]. lia.
        * intros b Hb. cbn [length] in Hb. assert (b = 0)%nat by lia. subst b. cbn [nth].
          rewrite lsum_cons by (try exact Hidx'; intros []). cbn [Nat.eqb]. rewrite <- Hsize. cbn. lra.
        * intros b Hb. cbn [length] in Hb. assert (b = 0)%nat by lia. subst b. cbn [nth]. lra.
        * intros b Hb. cbn [length] in Hb. exists idx. split; [left; reflexivity|]. rewrite nth_set_nth_eq by exact Hidx'. lia.
        * cbn [map length]. rewrite !sumQ_cons. rewrite <- Hsize. change (inject_Z (Z.of_nat 1)) with 1. cbn [map sumQ fold_right]. lra.
      + set (bins := r :: rest) in *. constructor.
        * rewrite set_nth_length. exact Ilen.
        * discriminate.
        * intros i [<-|Hi]; [rewrite nth_set_nth_eq by exact Hidx'; unfold bins; cbn [length]; lia|]. rewrite Hold by exact Hi. apply Irng. exact Hi.
        * intros b Hb. rewrite lsum_cons by assumption. rewrite (Irem b Hb). rewrite <- Hsize.
          destruct (0 =? b)%nat; lra.
        * exact Ilow.
        * intros b Hb. destruct (Iused b Hb) as [i [Hi Hb']]. exists i. split; [right; exact Hi|]. rewrite Hold by exact Hi. exact Hb'.
        * cbn [map]. rewrite sumQ_cons, Itot, <- Hsize. lra.
    - destruct (choose bf eps size bins) as [b0|] eqn:Ech; cbn [fst snd].
      + (* an existing bin *)
        destruct (choose_spec _ _ _ _ _ Ech) as [Hb0 Hfit].
        constructor.
        * rewrite set_nth_length. exact Ilen.
        * intros He. apply (f_equal (@length Q)) in He. rewrite set_nth_length in He. cbn [length] in He. lia.
        * rewrite set_nth_length. intros i [<-|Hi]; [rewrite nth_set_nth_eq by exact Hidx'; exact Hb0|].
          rewrite Hold by exact Hi. apply Irng. exact Hi.
        * rewrite set_nth_length. intros b Hb. rewrite lsum_cons by assumption. rewrite <- Hsize.
          destruct (Nat.eq_dec b0 b) as [->|Hne].
          -- rewrite nth_set_nth_eq by exact Hb. rewrite Nat.eqb_refl. rewrite (Irem b Hb). lra.
          -- rewrite nth_set_nth_neq by exact Hne. apply Nat.eqb_neq in Hne. rewrite Hne. rewrite (Irem b Hb). lra.
        * rewrite set_nth_length. intros b Hb. destruct (Nat.eq_dec b0 b) as [->|Hne].
          -- rewrite nth_set_nth_eq by exact Hb. lra.
          -- rewrite nth_set_nth_neq by exact Hne. apply Ilow. exact Hb.
        * rewrite set_nth_length. intros b Hb. destruct (Iused b Hb) as [i [Hi Hb']]. exists i. split; [right; exact Hi|].
          rewrite Hold by exact Hi. exact Hb'.
        * rewrite set_nth_length. cbn [map]. rewrite sumQ_cons, Itot, <- Hsize. rewrite sumQ_set_nth by exact Hb0. lra.
      + (* a new bin *)
        assert (Hlen' : length (bins ++ [cap - size]) = S (length bins)) by (rewrite app_length; cbn [length]; lia).
        constructor.
        * rewrite set_nth_length. exact Ilen.
        * intros He. apply (f_equal (@length Q)) in He. rewrite Hlen' in He. discriminate He.
        * rewrite Hlen'. intros i [<-|Hi]; [rewrite nth_set_nth_eq by exact Hidx'; lia|].
          rewrite Hold by exact Hi. specialize (Irng i Hi). lia.
        * rewrite Hlen'. intros b Hb. rewrite lsum_cons by assumption. rewrite <- Hsize.
          destruct (Nat.eq_dec (length bins) b) as [<-|Hne].
          -- rewrite app_nth2 by lia. rewrite Nat.sub_diag. cbn [nth]. rewrite Nat.eqb_refl.
             rewrite lsum_zero; [lra|]. intros i Hi. specialize (Irng i Hi). lia.
          -- assert (Hb' : (b < length bins)%nat) by lia. rewrite app_nth1 by lia. apply Nat.eqb_neq in Hne. rewrite Hne. rewrite (Irem b Hb'). lra.
        * rewrite Hlen'. intros b Hb. destruct (Nat.eq_dec (length bins) b) as [<-|Hne].
          -- rewrite app_nth2 by lia. rewrite Nat.sub_diag. cbn [nth]. lra.
          -- rewrite app_nth1 by lia. apply Ilow. lia.
        * rewrite Hlen'. intros b Hb. destruct (Nat.eq_dec (length bins) b) as [<-|Hne].
          -- exists idx. split; [left; reflexivity|]. apply nth_set_nth_eq. exact Hidx'.
          -- destruct (Iused b ltac:(lia)) as [i [Hi Hb']]. exists i. split; [right; exact Hi|]. rewrite Hold by exact Hi. exact Hb'.
        * rewrite Hlen'. cbn [map]. rewrite sumQ_cons, Itot, <- Hsize, sumQ_app.
          rewrite Nat2Z.inj_succ. unfold Z.succ. rewrite inject_Z_plus. change (inject_Z 1) with 1.
          rewrite sumQ_cons. cbn [sumQ fold_right]. lra.
  Qed.

  Lemma fold_inv : forall order bins asg done,
    inv bins asg done ->
    NoDup (map fst order) -> (forall p, In p order -> ~ In (fst p) done) ->
    (forall p, In p order -> (fst p < length sizes)%nat /\ snd p = nth (fst p) sizes 0 /\ 0 <= snd p /\ snd p <= cap) ->
    inv (fst (fold_left (place bf eps cap) order (bins, asg))) (snd (fold_left (place bf eps cap) order (bins, asg)))
        (rev (map fst order) ++ done).
  Proof.
    induction order as [|[idx size] order IH]; intros bins asg done Hinv Hnd Hdis Hp; [exact Hinv|].
    cbn [fold_left map rev fst]. rewrite <- app_assoc. cbn [app].
    inversion Hnd as [|x l Hnin Hnd']; subst.
    destruct (Hp (idx, size) (or_introl eq_refl)) as [H1 [H2 [H3 H4]]]. cbn [fst snd] in *.
    pose proof (place_inv bins asg done idx size Hinv H1 (Hdis (idx, size) (or_introl eq_refl)) H2 H3 H4) as Hinv'.
    destruct (place bf eps cap (bins, asg) (idx, size)) as [bins' asg']. cbn [fst snd] in Hinv'.
    apply IH; [exact Hinv'|exact Hnd'| |].
    - intros p Hin [Heq|Hd]; [|exact (Hdis p (or_intror Hin) Hd)].
      apply Hnin. rewrite Heq. apply in_map. exact Hin.
    - intros p Hin. apply Hp. right. exact Hin.
  Qed.
End Loop.

(* ---------------------------------------------------------------- the processing order *)
Lemma in_combine_seq : forall (l : list Q) a p, In p (combine (seq a (length l)) l) ->
  (a <= fst p < a + length l)%nat /\ snd p = nth (fst p - a) l 0.
Proof.
  induction l as [|x l IH]; intros a p Hp; [destruct Hp|].
  cbn [length seq combine] in Hp. destruct Hp as [<-|Hp].
  - cbn [fst snd length]. rewrite Nat.sub_diag. split; [lia|reflexivity].
  - destruct (IH (S a) p Hp) as [Hr He]. cbn [length]. split; [lia|].
    replace (fst p - a)%nat with (S (fst p - S a)) by lia. exact He.
Qed.

Lemma map_fst_combine_seq : forall (l : list Q) a, map fst (combine (seq a (length l)) l) = seq a (length l).
Proof. induction l as [|x l IH]; intros a; [reflexivity|]. cbn [length seq combine map fst]. f_equal. apply IH. Qed.

Lemma order_of_perm sizes dec : Permutation (order_of sizes dec) (combine (seq 0 (length sizes)) sizes).
Proof. unfold order_of. destruct dec; [apply stable_sort_perm|apply Permutation_refl]. Qed.

(* ---------------------------------------------------------------- the result *)
Lemma bin_pack_valid eps sizes cap bf dec r :
  0 <= eps ->
  bin_pack eps sizes cap bf dec = Some r ->
  bin_valid eps sizes cap (basg r) (bobj r) (bstatus r).
Proof.
  intros Heps Hr.
  assert (Hcase : sizes = [] \/ sizes <> []) by (destruct sizes; [left; reflexivity|right; discriminate]).
  destruct Hcase as [-> | Hne].
  - cbn in Hr. injection Hr as Hr. subst r. cbn [basg bobj bstatus]. unfold bin_valid.
    split; [reflexivity|]. split; [constructor|]. split; [intros b Hb; lia|]. split; [intros b Hb; lia|].
    split; [cbn [sumQ fold_right]; change (inject_Z (Z.of_nat 0)) with 0; lra|]. split; [intros _; lia|]. intros H; contradiction.
  - unfold bin_pack in Hr. destruct sizes as [|s0 ss] eqn:Es; [contradiction|]. rewrite <- Es in *. clear Es s0 ss.
    destruct (Qle_bool cap 0) eqn:Ecap; [discriminate Hr|].
    destruct (negb (valid_sizes sizes cap)) eqn:Eval; [discriminate Hr|].
    apply negb_false_iff in Eval.
    assert (Hcap : 0 < cap).
    { apply Qnot_le_lt. intros Hle. apply Qle_bool_iff in Hle. congruence. }
    set (n := length sizes) in *.
    set (order := order_of sizes dec) in *.
    pose proof (order_of_perm sizes dec) as Hperm. fold order in Hperm.
    assert (Hfst : Permutation (map fst order) (seq 0 n)).
    { unfold n. rewrite <- (map_fst_combine_seq sizes 0). apply Permutation_map. exact Hperm. }
    assert (Hp : forall p, In p order -> (fst p < n)%nat /\ snd p = nth (fst p) sizes 0 /\ 0 <= snd p /\ snd p <= cap).
    { intros p Hin. apply (Permutation_in _ Hperm) in Hin. destruct (in_combine_seq sizes 0 p Hin) as [Hr' He].
      rewrite Nat.sub_0_r in He. split; [unfold n; lia|]. split; [exact He|].
      unfold valid_sizes in Eval. rewrite forallb_forall in Eval.
      assert (Hin' : In (snd p) sizes) by (rewrite He; apply nth_In; lia).
      specialize (Eval _ Hin'). apply andb_prop in Eval. destruct Eval as [E1 E2].
      apply Qle_bool_iff in E1. apply Qle_bool_iff in E2. split; assumption. }
    assert (Hinv0 : inv eps cap sizes [] (repeat 0%nat n) []).
    { constructor; try (intros; cbn [length] in *; lia).
      - apply repeat_length.
      - reflexivity.
      - intros i [].
      - cbn [map sumQ fold_right length]. change (inject_Z (Z.of_nat 0)) with 0. lra. }
    pose proof (fold_inv eps cap sizes bf Heps Hcap order [] (repeat 0%nat n) [] Hinv0
                  (Permutation_NoDup (Permutation_sym Hfst) (seq_NoDup n 0)) (fun p _ H => H) Hp) as Hinv.
    rewrite app_nil_r in Hinv.
    destruct (fold_left (place bf eps cap) order ([], repeat 0%nat n)) as [bins asg]. cbn [fst snd] in Hinv.
    injection Hr as Hr. subst r. cbn [basg bobj bstatus].
    destruct Hinv as [Ilen Iempty Irng Irem Ilow Iused Itot].
    assert (Hdone : Permutation (rev (map fst order)) (seq 0 n)).
    { eapply perm_trans; [apply Permutation_sym, Permutation_rev|exact Hfst]. }
    assert (Hin_done : forall i, (i < n)%nat -> In i (rev (map fst order))).
    { intros i Hi. apply (Permutation_in _ (Permutation_sym Hdone)). apply in_seq. lia. }
    unfold bin_valid. split; [exact Ilen|]. split; [|split; [|split; [|split; [|split]]]].
    + apply Forall_forall. intros x Hx. destruct (In_nth _ _ 0%nat Hx) as [i [Hi <-]].
      apply Irng. apply Hin_done. unfold n. rewrite <- Ilen. exact Hi.
    + intros b Hb. unfold load. fold n.
      rewrite <- (sumQ_perm (contrib sizes asg b) _ _ Hdone).
      specialize (Irem b Hb). specialize (Ilow b Hb). unfold lsum in Irem. lra.
    + intros b Hb. destruct (Iused b Hb) as [i [Hi <-]]. apply nth_In. rewrite Ilen.
      apply (Permutation_in _ Hdone) in Hi. apply in_seq in Hi. unfold n in Hi. lia.
    + rewrite (sumQ_nth_seq sizes 0). fold n.
      rewrite (map_ext (fun i => nth (i - 0) sizes 0) (fun i => nth i sizes 0)) by (intros i; rewrite Nat.sub_0_r; reflexivity).
      rewrite <- (sumQ_perm (fun i => nth i sizes 0) _ _ Hdone). rewrite Itot.
      pose proof (sumQ_lower eps bins Ilow). lra.
    + destruct (1 <? length bins)%nat eqn:E; [discriminate|]. intros _. apply Nat.ltb_ge in E. exact E.
    + intros _. destruct bins as [|b0 bins']; [|cbn [length]; lia].
      specialize (Iempty eq_refl).
      assert (Hn : (0 < n)%nat) by (unfold n; destruct sizes; [contradiction|cbn [length]; lia]).
      specialize (Hin_done 0%nat Hn). rewrite Iempty in Hin_done. destruct Hin_done.
Qed.
