(* C16 - specification of solve_knapsack's answer (what the property says) + boolean checkers that judge an
   observable (the implementation's or the model's) inside coqc, with soundness lemmas. *)
From Coq Require Import List Arith ZArith QArith Bool Lia.
From SV Require Import C16.KnapCore C16.Knapsack.
Import ListNotations.

(* strictly increasing list of indices (= sorted and distinct) *)
Fixpoint incr (l : list nat) : Prop :=
  match l with
  | a :: ((b :: _) as t) => (a < b)%nat /\ incr t
  | _ => True
  end.
Fixpoint incrb (l : list nat) : bool :=
  match l with
  | a :: ((b :: _) as t) => (a <? b)%nat && incrb t
  | _ => true
  end.

Lemma incrb_sound l : incrb l = true -> incr l.
Proof.
  induction l as [|a t IH]; [intros _; exact I|].
  destruct t as [|b t']; [intros _; exact I|].
  cbn [incrb incr]. intros H. apply andb_prop in H. destruct H as [H1 H2].
  split; [apply Nat.ltb_lt; exact H1 | apply IH; exact H2].
Qed.

Lemma incr_lower a l : incr (a :: l) -> forall x, In x l -> (a < x)%nat.
Proof.
  revert a. induction l as [|b t IH]; intros a H x Hx; [destruct Hx|].
  cbn [incr] in H. destruct H as [Hab Ht]. destruct Hx as [<-|Hx]; [exact Hab|].
  specialize (IH b Ht x Hx). lia.
Qed.

Lemma incr_tail a l : incr (a :: l) -> incr l.
Proof. destruct l as [|b t]; [intros _; exact I|]. cbn [incr]. intros [_ H]. exact H. Qed.

Lemma incr_NoDup l : incr l -> NoDup l.
Proof.
  induction l as [|a t IH]; intros H; [constructor|].
  constructor.
  - intros Hin. pose proof (incr_lower a t H a Hin). lia.
  - apply IH. exact (incr_tail a t H).
Qed.

(* ---------------------------------------------------------------- rational answers *)
(* feasibility and faithful scoring; `slack` is 0 for the property as stated, 1e-9 for what the code's own
   final check guarantees on arbitrary rationals *)
Definition knap_feasible_q (slack : Q) (values weights : list Q) (capacity : Q) (sel : list nat) (obj : Q) : Prop :=
  incr sel /\ NoDup sel /\ Forall (fun i => (i < length values)%nat) sel /\
  sumQ (pickQ weights sel) <= capacity + slack /\ obj == sumQ (pickQ values sel).

Definition knap_raises_q (values weights : list Q) (capacity : Q) : bool :=
  match values with
  | [] => false
  | _ => negb (length weights =? length values)%nat || Qltb capacity 0
  end.

(* the specification of an observable: ValueError exactly on malformed input, otherwise a feasible,
   faithfully scored selection.  (The guard 0 <= capacity only matters for the empty item list: the code returns
   the empty selection for n = 0 before it validates anything, so solve_knapsack([], [], -5) is accepted; a negative
   capacity is outside the property's quantifier.  For n > 0 `raises = false` already implies 0 <= capacity.) *)
Definition knap_spec_q (values weights : list Q) (capacity : Q) (o : qobs) : Prop :=
  match o with
  | None => knap_raises_q values weights capacity = true
  | Some (sel, obj, _) => knap_raises_q values weights capacity = false /\
                          (Qle_bool 0 capacity = true -> knap_feasible_q 0 values weights capacity sel obj)
  end.

Definition knap_check_q (values weights : list Q) (capacity : Q) (o : qobs) : bool :=
  match o with
  | None => knap_raises_q values weights capacity
  | Some (sel, obj, _) =>
      negb (knap_raises_q values weights capacity) &&
      (negb (Qle_bool 0 capacity) ||
       incrb sel && forallb (fun i => (i <? length values)%nat) sel &&
       Qle_bool (sumQ (pickQ weights sel)) capacity && Qeq_bool obj (sumQ (pickQ values sel)))
  end.

Lemma knap_check_q_sound values weights capacity o :
  knap_check_q values weights capacity o = true -> knap_spec_q values weights capacity o.
Proof.
  destruct o as [[[sel obj] st]|]; cbn [knap_check_q knap_spec_q]; [|intros H; exact H].
  intros H.
  apply andb_prop in H. destruct H as [H1 H].
  split; [destruct (knap_raises_q values weights capacity); [discriminate H1|reflexivity]|].
  intros Hcap. rewrite Hcap in H. cbn [negb orb] in H.
  apply andb_prop in H. destruct H as [H H5].
  apply andb_prop in H. destruct H as [H H4].
  apply andb_prop in H. destruct H as [H2 H3].
  pose proof (incrb_sound sel H2) as Hi.
  split; [exact Hi|]. split; [apply incr_NoDup; exact Hi|].
  split.
  - apply Forall_forall. intros i Hin. rewrite forallb_forall in H3. apply Nat.ltb_lt. apply H3. exact Hin.
  - split.
    + apply Qle_bool_iff in H4. rewrite Qplus_0_r. exact H4.
    + apply Qeq_bool_iff. exact H5.
Qed.

(* ---------------------------------------------------------------- integer answers *)
Definition knap_feasible_z (values weights : list Z) (capacity : Z) (sel : list nat) (obj : Z) : Prop :=
  incr sel /\ NoDup sel /\ Forall (fun i => (i < length values)%nat) sel /\
  (sumZ (pickZ weights sel) <= capacity)%Z /\ obj = sumZ (pickZ values sel).

(* what OPTIMAL means (maximize: no admissible index set has a larger value; minimize=True: none has a smaller
   one - the docstring's "minimize total value") *)
Definition knap_optimal_z (values weights : list Z) (capacity : Z) (minimize : bool) (obj : Z) : Prop :=
  forall s, NoDup s -> Forall (fun i => (i < length values)%nat) s ->
            (sumZ (pickZ weights s) <= capacity)%Z ->
            if minimize then (obj <= sumZ (pickZ values s))%Z else (sumZ (pickZ values s) <= obj)%Z.

(* inputs the integer theorems talk about: what the code accepts + non-negative weights (property's quantifier) *)
Definition knap_valid_z (values weights : list Z) (capacity : Z) : bool :=
  (length weights =? length values)%nat && (0 <=? capacity)%Z && forallb (fun w => (0 <=? w)%Z) weights.

Definition knap_valid_q (values weights : list Q) (capacity : Q) : bool :=
  (length weights =? length values)%nat && Qle_bool 0 capacity && forallb (fun w => Qle_bool 0 w) weights.
