(* C16 - bin packing on a grid coarser than the tolerance: the slack of bin_pack_valid disappears.
   Loads are sums of sizes, hence on the grid, so load <= cap + 1e-9 gives load <= cap; the total size is the sum of
   the loads (double counting), hence <= k * cap. *)
From Coq Require Import List Arith ZArith QArith Bool Lia Lqa Permutation.
From SV Require Import C16.KnapCore C16.Knapsack C16.KnapSpec C16.KnapQProofs C16.KnapGridProofs
                       C16.BinPack C16.BinSpec C16.BinProofs.
Import ListNotations.

Lemma sum_hit0 (s : Q) a : forall k st, (a < st)%nat ->
  sumQ (map (fun b => if (a =? b)%nat then s else 0) (seq st k)) == 0.
Proof.
  induction k as [|k IH]; intros st Hlt; [reflexivity|].
  cbn [seq map]. rewrite sumQ_cons. rewrite IH by lia.
  assert (E : (a =? st)%nat = false) by (apply Nat.eqb_neq; lia). rewrite E. lra.
Qed.

Lemma sum_hit (s : Q) a : forall k st, (st <= a < st + k)%nat ->
  sumQ (map (fun b => if (a =? b)%nat then s else 0) (seq st k)) == s.
Proof.
  induction k as [|k IH]; intros st Hr; [lia|].
  cbn [seq map]. rewrite sumQ_cons. destruct (Nat.eq_dec a st) as [->|Hne].
  - rewrite Nat.eqb_refl. rewrite sum_hit0 by lia. lra.
  - assert (E : (a =? st)%nat = false) by (apply Nat.eqb_neq; exact Hne). rewrite E. rewrite IH by lia. lra.
Qed.

Lemma sum_add (f g : nat -> Q) : forall l, sumQ (map (fun b => f b + g b) l) == sumQ (map f l) + sumQ (map g l).
Proof. induction l as [|x l IH]; cbn [map]; rewrite ?sumQ_cons; [cbn; lra|]. rewrite IH. lra. Qed.

Lemma sum_const0 : forall l : list nat, sumQ (map (fun _ => 0) l) == 0.
Proof. induction l as [|x l IH]; cbn [map]; rewrite ?sumQ_cons; [reflexivity|]. rewrite IH. lra. Qed.

Lemma sum_bound (f : nat -> Q) (c : Q) : forall l, (forall b, In b l -> f b <= c) ->
  sumQ (map f l) <= inject_Z (Z.of_nat (length l)) * c.
Proof.
  induction l as [|x l IH]; intros H.
  - cbn [map length sumQ fold_right]. change (inject_Z (Z.of_nat 0)) with 0. lra.
  - cbn [map length]. rewrite sumQ_cons. rewrite Nat2Z.inj_succ. unfold Z.succ. rewrite inject_Z_plus.
    change (inject_Z 1) with 1. pose proof (H x (or_introl eq_refl)).
    assert (IH' : sumQ (map f l) <= inject_Z (Z.of_nat (length l)) * c) by (apply IH; intros b Hb; apply H; right; exact Hb).
    lra.
Qed.

(* double counting: summing the per-bin contributions of a list of items over all bins gives their total size *)
Lemma double_count sizes asg k : forall l, (forall i, In i l -> (nth i asg 0 < k)%nat) ->
  sumQ (map (fun b => sumQ (map (contrib sizes asg b) l)) (seq 0 k)) == sumQ (map (fun i => nth i sizes 0) l).
Proof.
  induction l as [|i l IH]; intros H.
  - cbn [map]. apply sum_const0.
  - cbn [map]. rewrite sumQ_cons.
    rewrite (map_ext (fun b => sumQ (contrib sizes asg b i :: map (contrib sizes asg b) l))
                     (fun b => contrib sizes asg b i + sumQ (map (contrib sizes asg b) l))) by (intros b; reflexivity).
    rewrite sum_add. rewrite IH by (intros j Hj; apply H; right; exact Hj).
    unfold contrib at 1. rewrite sum_hit; [reflexivity|]. specialize (H i (or_introl eq_refl)). lia.
Qed.

Lemma bin_valid_grid d sizes cap asg k st :
  (d <? 1000000000)%positive = true -> on_gridb d cap = true -> forallb (on_gridb d) sizes = true ->
  bin_valid tol sizes cap asg k st -> bin_valid 0 sizes cap asg k st.
Proof.
  intros Hd Hc Hs [H1 [H2 [H3 [H4 [H5 [H6 H7]]]]]].
  apply Pos.ltb_lt in Hd. apply Pos2Z.pos_lt_pos in Hd. apply on_gridb_sound in Hc.
  assert (Hsz : forall i, on_grid d (nth i sizes 0)).
  { intros i. destruct (Nat.lt_ge_cases i (length sizes)) as [Hi|Hi].
    - apply on_gridb_sound. rewrite forallb_forall in Hs. apply Hs. apply nth_In. exact Hi.
    - rewrite nth_overflow by exact Hi. apply grid_zero. }
  assert (Hload : forall b, (b < k)%nat -> load sizes asg b <= cap).
  { intros b Hb. apply (grid_tight d); [exact Hd| |exact Hc|apply H3; exact Hb].
    unfold load. apply grid_sum. apply Forall_forall. intros q Hq. apply in_map_iff in Hq.
    destruct Hq as [i [<- _]]. unfold contrib. destruct (nth i asg 0%nat =? b)%nat; [apply Hsz|apply grid_zero]. }
  unfold bin_valid. split; [exact H1|]. split; [exact H2|]. split; [|split; [exact H4|split; [|split; [exact H6|exact H7]]]].
  - intros b Hb. rewrite Qplus_0_r. apply Hload. exact Hb.
  - rewrite Qplus_0_r. rewrite (sumQ_nth_seq sizes 0).
    rewrite (map_ext (fun i => nth (i - 0) sizes 0) (fun i => nth i sizes 0)) by (intros i; rewrite Nat.sub_0_r; reflexivity).
    rewrite <- (double_count sizes asg k).
    + pose proof (sum_bound (fun b => sumQ (map (contrib sizes asg b) (seq 0 (length sizes)))) cap (seq 0 k)) as Hb.
      rewrite seq_length in Hb. apply Hb. intros b Hin. apply in_seq in Hin. apply Hload. lia.
    + intros i Hi. apply in_seq in Hi. rewrite Forall_forall in H2. apply H2. apply nth_In. rewrite H1. lia.
Qed.

Lemma bin_pack_valid_grid d sizes cap bf dec r :
  (d <? 1000000000)%positive = true -> on_gridb d cap = true -> forallb (on_gridb d) sizes = true ->
  bin_pack tol sizes cap bf dec = Some r ->
  bin_valid 0 sizes cap (basg r) (bobj r) (bstatus r).
Proof.
  intros Hd Hc Hs Hr. apply (bin_valid_grid d); try assumption.
  apply (bin_pack_valid tol sizes cap bf dec r); [|exact Hr]. unfold tol, Qle. cbn. lia.
Qed.
