(* C16 - generic core of solvor/knapsack.py: solve_knapsack(), the DP over the integer capacity with the
   keep table and the backtracking (lines "dp = [0.0] * (int_capacity + 1)" ... "selected.reverse()").
   Definitions only.  The value type V is a parameter (Z for the integer model, Q for the scaling model).

   Python                                             model
   dp : list of length C+1                            list V of length C+1 (position = capacity w)
   for w in range(C, w_i - 1, -1):                    one pass over the OLD row: cell w reads old[w] and old[w - w_i]
       if dp[w - w_i] + v_i > dp[w]: ...              (the code walks w downwards exactly so that dp[w - w_i] is still the
                                                       old value when it is read; for w_i = 0 it reads dp[w] itself before
                                                       writing it; hence "new row from old row" is the same function)
   keep[i][w]                                         i-th element of the list of rows, w-th element of that row
   backtracking for i in range(n-1, -1, -1)           recursion over the reversed list of rows *)
From Coq Require Import List Arith Bool.
Import ListNotations.

Section Core.
  Variable V : Type.
  Variable vzero : V.
  Variable vadd : V -> V -> V.
  Variable vlt : V -> V -> bool.       (* vlt a b  <->  a < b *)

  (* shift k dp : position w holds None for w < k and Some dp[w-k] otherwise *)
  Fixpoint shift (k : nat) (dp : list V) : list (option V) :=
    match k with
    | O => map Some dp
    | S k' => None :: shift k' dp
    end.

  (* if dp[w - w_i] + v_i > dp[w]: dp[w] = dp[w - w_i] + v_i; keep[i][w] = True *)
  Definition cell (v : V) (old : V) (prev : option V) : bool * V :=
    match prev with
    | Some p => let c := vadd p v in if vlt old c then (true, c) else (false, old)
    | None => (false, old)
    end.

  Fixpoint zipcell (v : V) (dp : list V) (sh : list (option V)) : list (bool * V) :=
    match dp, sh with
    | o :: dp', p :: sh' => cell v o p :: zipcell v dp' sh'
    | _, _ => []
    end.

  Definition step (v : V) (wi : nat) (dp : list V) : list bool * list V :=
    let cells := zipcell v dp (shift wi dp) in (map fst cells, map snd cells).

  (* for i in range(n): ...   returns (keep rows in item order, final dp) *)
  Fixpoint dp_run (items : list (V * nat)) (dp : list V) : list (list bool) * list V :=
    match items with
    | [] => ([], dp)
    | (v, wi) :: rest =>
        let (k, dp') := step v wi dp in
        let (ks, fin) := dp_run rest dp' in
        (k :: ks, fin)
    end.

  (* w = C; for i in range(n-1,-1,-1): if keep[i][w]: selected.append(i); w -= int_weights[i]
     rows = [(i, keep[i], int_weights[i])] for i = n-1 downto 0; result in append order (descending i) *)
  Fixpoint backtrack (rows : list (nat * list bool * nat)) (w : nat) : list nat :=
    match rows with
    | [] => []
    | (i, k, wi) :: rest =>
        if nth w k false then i :: backtrack rest (w - wi) else backtrack rest w
    end.

  Definition rows_of (keeps : list (list bool)) (iw : list nat) : list (nat * list bool * nat) :=
    combine (combine (seq 0 (length keeps)) keeps) iw.

  (* selected (after selected.reverse()) *)
  Definition solve_core (vals : list V) (iw : list nat) (C : nat) : list nat :=
    let (keeps, _) := dp_run (combine vals iw) (repeat vzero (S C)) in
    rev (backtrack (rev (rows_of keeps iw)) C).

  (* final dp row, used by the optimality proof *)
  Definition final_dp (vals : list V) (iw : list nat) (C : nat) : list V :=
    snd (dp_run (combine vals iw) (repeat vzero (S C))).
End Core.

Arguments shift {V}.
Arguments cell {V}.
Arguments zipcell {V}.
Arguments step {V}.
Arguments dp_run {V}.
Arguments solve_core {V}.
Arguments final_dp {V}.

Inductive status := OPTIMAL | FEASIBLE.
Definition status_eqb (a b : status) : bool :=
  match a, b with OPTIMAL, OPTIMAL => true | FEASIBLE, FEASIBLE => true | _, _ => false end.
