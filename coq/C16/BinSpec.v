(* C16 - specification of solve_bin_pack's answer + boolean checker with soundness lemma. *)
From Coq Require Import List Arith ZArith QArith Bool Lia.
From SV Require Import C16.KnapCore C16.Knapsack C16.BinPack.
Import ListNotations.

(* total size of the items assigned to bin b *)
Definition contrib (sizes : list Q) (asg : list nat) (b : nat) (i : nat) : Q :=
  if (nth i asg 0%nat =? b)%nat then nth i sizes 0 else 0.
Definition load (sizes : list Q) (asg : list nat) (b : nat) : Q :=
  sumQ (map (contrib sizes asg b) (seq 0 (length sizes))).

Definition bin_raises (sizes : list Q) (cap : Q) : bool :=
  match sizes with
  | [] => false
  | _ => Qle_bool cap 0 || negb (valid_sizes sizes cap)
  end.

(* asg : item -> bin is total (one entry per item: every item in exactly one bin), every entry is a bin number
   below k, no load exceeds the capacity, every bin 0..k-1 is used, the objective k cannot be below
   total/capacity (stated without division: total <= k * capacity), and OPTIMAL is claimed only for k <= 1
   (k = 1 with at least one item, k = 0 with none: then k is trivially minimal, see bin_optimal_minimal).
   `slack` is 0 for the property as stated; the code's fit test has the absolute tolerance _EPS = 1e-9, which is
   what holds for arbitrary rationals (BinProofs: slack = eps in general, slack = 0 on a grid coarser than eps). *)
Definition bin_valid (slack : Q) (sizes : list Q) (cap : Q) (asg : list nat) (k : nat) (st : status) : Prop :=
  length asg = length sizes /\
  Forall (fun b => (b < k)%nat) asg /\
  (forall b, (b < k)%nat -> load sizes asg b <= cap + slack) /\
  (forall b, (b < k)%nat -> In b asg) /\
  sumQ sizes <= inject_Z (Z.of_nat k) * (cap + slack) /\
  (st = OPTIMAL -> (k <= 1)%nat) /\
  (sizes <> [] -> (1 <= k)%nat).

Definition bin_spec (slack : Q) (sizes : list Q) (cap : Q) (o : bobs) : Prop :=
  match o with
  | None => bin_raises sizes cap = true
  | Some (asg, k, st) => bin_raises sizes cap = false /\ bin_valid slack sizes cap asg k st
  end.

Definition bin_check (slack : Q) (sizes : list Q) (cap : Q) (o : bobs) : bool :=
  match o with
  | None => bin_raises sizes cap
  | Some (asg, k, st) =>
      negb (bin_raises sizes cap) &&
      (length asg =? length sizes)%nat &&
      forallb (fun b => (b <? k)%nat) asg &&
      forallb (fun b => Qle_bool (load sizes asg b) (cap + slack)) (seq 0 k) &&
      forallb (fun b => existsb (Nat.eqb b) asg) (seq 0 k) &&
      Qle_bool (sumQ sizes) (inject_Z (Z.of_nat k) * (cap + slack)) &&
      (match st with OPTIMAL => (k <=? 1)%nat | FEASIBLE => true end) &&
      (match sizes with [] => true | _ => (1 <=? k)%nat end)
  end.

Lemma bin_check_sound slack sizes cap o : bin_check slack sizes cap o = true -> bin_spec slack sizes cap o.
Proof.
  destruct o as [[[asg k] st]|]; cbn [bin_check bin_spec]; [|intros H; exact H].
  intros H.
  apply andb_prop in H. destruct H as [H H8].
  apply andb_prop in H. destruct H as [H H7].
  apply andb_prop in H. destruct H as [H H6].
  apply andb_prop in H. destruct H as [H H5].
  apply andb_prop in H. destruct H as [H H4].
  apply andb_prop in H. destruct H as [H H3].
  apply andb_prop in H. destruct H as [H1 H2].
  split; [destruct (bin_raises sizes cap); [discriminate H1|reflexivity]|].
  unfold bin_valid. repeat split.
  - apply Nat.eqb_eq. exact H2.
  - apply Forall_forall. intros b Hb. rewrite forallb_forall in H3. apply Nat.ltb_lt. apply H3. exact Hb.
  - intros b Hb. rewrite forallb_forall in H4. apply Qle_bool_iff. apply H4. apply in_seq. lia.
  - intros b Hb. rewrite forallb_forall in H5.
    assert (Hin : In b (seq 0 k)) by (apply in_seq; lia).
    specialize (H5 b Hin). apply existsb_exists in H5. destruct H5 as [x [Hx Hxb]].
    apply Nat.eqb_eq in Hxb. subst x. exact Hx.
  - apply Qle_bool_iff. exact H6.
  - intros Hst. subst st. apply Nat.leb_le. exact H7.
  - intros Hne. destruct sizes as [|s ss]; [contradiction|]. apply Nat.leb_le. exact H8.
Qed.

(* why k <= 1 is "provably minimal": any assignment of a non-empty item list into bins 0..k'-1 needs k' >= 1 *)
Lemma bin_optimal_minimal (sizes : list Q) (asg' : list nat) (k' : nat) :
  sizes <> [] -> length asg' = length sizes -> Forall (fun b => (b < k')%nat) asg' -> (1 <= k')%nat.
Proof.
  intros Hne Hlen Hall. destruct sizes as [|s ss]; [contradiction|].
  destruct asg' as [|a as']; [discriminate Hlen|].
  inversion Hall as [|x l Hx Hl]; subst. lia.
Qed.
