(* C16 - facts about the generic DP core that do not depend on the value type: the backtracking returns a
   strictly increasing list of item indices below n. *)
From Coq Require Import List Arith Bool Lia.
From SV Require Import C16.KnapCore C16.Knapsack C16.KnapSpec.
Import ListNotations.

Inductive subseq {A} : list A -> list A -> Prop :=
| sub_nil : subseq [] []
| sub_skip x l1 l2 : subseq l1 l2 -> subseq l1 (x :: l2)
| sub_take x l1 l2 : subseq l1 l2 -> subseq (x :: l1) (x :: l2).

Lemma subseq_nil_l {A} (l : list A) : subseq [] l.
Proof. induction l as [|x l IH]; [constructor|apply sub_skip; exact IH]. Qed.

Lemma subseq_refl {A} (l : list A) : subseq l l.
Proof. induction l as [|x l IH]; [constructor|apply sub_take; exact IH]. Qed.

Lemma subseq_app {A} (a b c d : list A) : subseq a b -> subseq c d -> subseq (a ++ c) (b ++ d).
Proof.
  intros H1 H2. induction H1 as [|x l1 l2 H IH|x l1 l2 H IH]; cbn [app].
  - exact H2.
  - apply sub_skip. exact IH.
  - apply sub_take. exact IH.
Qed.

Lemma subseq_rev {A} (a b : list A) : subseq a b -> subseq (rev a) (rev b).
Proof.
  intros H. induction H as [|x l1 l2 H IH|x l1 l2 H IH]; cbn [rev].
  - constructor.
  - rewrite <- (app_nil_r (rev l1)). apply subseq_app; [exact IH|apply subseq_nil_l].
  - apply subseq_app; [exact IH|apply subseq_refl].
Qed.

Lemma subseq_In {A} (a b : list A) : subseq a b -> forall x, In x a -> In x b.
Proof.
  intros H. induction H as [|y l1 l2 H IH|y l1 l2 H IH]; intros x Hx.
  - destruct Hx.
  - right. apply IH. exact Hx.
  - destruct Hx as [->|Hx]; [left; reflexivity|right; apply IH; exact Hx].
Qed.

Lemma subseq_seq_incr : forall m a l, subseq l (seq a m) -> incr l /\ Forall (fun i => a <= i < a + m) l.
Proof.
  induction m as [|m IH]; intros a l H; cbn [seq] in H.
  - inversion H; subst. split; [exact I|constructor].
  - inversion H as [|x l1 l2 H'|x l1 l2 H']; subst.
    + destruct (IH (S a) l H') as [Hi Hf]. split; [exact Hi|].
      eapply Forall_impl; [|exact Hf]. cbv beta. intros i Hi'. lia.
    + destruct (IH (S a) l1 H') as [Hi Hf]. split.
      * destruct l1 as [|b t]; [exact I|]. cbn [incr]. split; [|exact Hi].
        inversion Hf as [|y l' Hy Hl]; subst. lia.
      * constructor; [lia|]. eapply Forall_impl; [|exact Hf]. cbv beta. intros i Hi'. lia.
Qed.

Section Gen.
  Variable V : Type.
  Variable vzero : V.
  Variable vadd : V -> V -> V.
  Variable vlt : V -> V -> bool.

  Definition idx (r : nat * list bool * nat) : nat := fst (fst r).
  Definition rows_from (b : nat) (ks : list (list bool)) (iws : list nat) : list (nat * list bool * nat) :=
    combine (combine (seq b (length ks)) ks) iws.

  Lemma rows_of_from ks iws : rows_of ks iws = rows_from 0 ks iws.
  Proof. reflexivity. Qed.

  Lemma rows_from_cons b k ks wi iws :
    rows_from b (k :: ks) (wi :: iws) = (b, k, wi) :: rows_from (S b) ks iws.
  Proof. reflexivity. Qed.

  Lemma rows_from_idx : forall ks b iws,
    map idx (rows_from b ks iws) = seq b (Nat.min (length ks) (length iws)).
  Proof.
    induction ks as [|k ks IH]; intros b iws; [reflexivity|].
    destruct iws as [|wi iws]; [reflexivity|].
    rewrite rows_from_cons. cbn [map length Nat.min seq]. unfold idx at 1. cbn [fst].
    f_equal. apply IH.
  Qed.

  Lemma backtrack_subseq : forall rows w, subseq (backtrack rows w) (map idx rows).
  Proof.
    induction rows as [|[[i k] wi] rows IH]; intros w; cbn [backtrack map].
    - constructor.
    - unfold idx at 1. cbn [fst]. destruct (nth w k false).
      + apply sub_take. apply IH.
      + apply sub_skip. apply IH.
  Qed.

  Lemma dp_run_length : forall items dp,
    length (fst (dp_run vadd vlt items dp)) = length items.
  Proof.
    induction items as [|[v wi] rest IH]; intros dp; [reflexivity|].
    cbn [dp_run]. unfold step.
    specialize (IH (map snd (zipcell vadd vlt v dp (shift wi dp)))).
    destruct (dp_run vadd vlt rest (map snd (zipcell vadd vlt v dp (shift wi dp)))) as [ks fin].
    cbn [fst length] in *. f_equal. exact IH.
  Qed.

  (* the selection is a strictly increasing list of indices below n *)
  Lemma solve_core_struct vals iw C :
    length iw = length vals ->
    incr (solve_core vzero vadd vlt vals iw C) /\
    Forall (fun i => i < length vals) (solve_core vzero vadd vlt vals iw C).
  Proof.
    intros Hlen. unfold solve_core.
    pose proof (dp_run_length (combine vals iw) (repeat vzero (S C))) as Hl.
    destruct (dp_run vadd vlt (combine vals iw) (repeat vzero (S C))) as [keeps fin].
    cbn [fst] in Hl. rewrite combine_length, Hlen, Nat.min_id in Hl.
    pose proof (backtrack_subseq (rev (rows_of keeps iw)) C) as Hs.
    apply subseq_rev in Hs. rewrite map_rev, rev_involutive, rows_of_from, rows_from_idx in Hs.
    rewrite Hl, Hlen, Nat.min_id in Hs.
    destruct (subseq_seq_incr _ _ _ Hs) as [Hi Hf]. split; [exact Hi|].
    eapply Forall_impl; [|exact Hf]. cbv beta. intros i Hi'. lia.
  Qed.
End Gen.
