(* C16 - the DP invariant of solve_knapsack over Z:
     after the first i items the table holds  opt (those items) w  for every w <= C,
     the keep table records which branch of the recurrence was taken, and the backtracking reconstructs a
     selection whose value is the table entry and whose integer weight is at most w.
   `opt` is the recurrence; `opt_upper_idx` shows it bounds every duplicate-free index set within capacity. *)
From Coq Require Import List Arith ZArith Bool Lia.
From SV Require Import C16.KnapCore C16.Knapsack C16.KnapSpec C16.KnapCoreProofs.
Import ListNotations.

(* head of the list = the item processed last *)
Fixpoint opt (l : list (Z * nat)) (w : nat) : Z :=
  match l with
  | [] => 0%Z
  | (v, wi) :: l' => if (wi <=? w)%nat then Z.max (opt l' w) (opt l' (w - wi) + v) else opt l' w
  end.

Lemma opt_cons_ge v wi l w : (opt l w <= opt ((v, wi) :: l) w)%Z.
Proof. cbn [opt]. destruct (wi <=? w)%nat; lia. Qed.

(* ---------------------------------------------------------------- one row *)
Lemma zipcell_nth0 v : forall dp1 dp2 w, (w < length dp1)%nat -> (length dp1 <= length dp2)%nat ->
  nth w (zipcell Z.add Z.ltb v dp1 (map Some dp2)) (false, 0%Z)
  = cell Z.add Z.ltb v (nth w dp1 0%Z) (Some (nth w dp2 0%Z)).
Proof.
  induction dp1 as [|o dp1 IH]; intros dp2 w Hw Hl; cbn [length] in *; [lia|].
  destruct dp2 as [|p dp2]; cbn [length] in *; [lia|].
  cbn [map zipcell]. destruct w as [|w]; [reflexivity|].
  cbn [nth]. apply IH; lia.
Qed.

Lemma zipcell_nth v : forall wi dp1 dp2 w, (w < length dp1)%nat -> (length dp1 <= wi + length dp2)%nat ->
  nth w (zipcell Z.add Z.ltb v dp1 (shift wi dp2)) (false, 0%Z)
  = cell Z.add Z.ltb v (nth w dp1 0%Z) (if (wi <=? w)%nat then Some (nth (w - wi) dp2 0%Z) else None).
Proof.
  induction wi as [|k IH]; intros dp1 dp2 w Hw Hl.
  - cbn [shift]. rewrite Nat.sub_0_r. cbn [Nat.leb]. apply zipcell_nth0; lia.
  - destruct dp1 as [|o dp1]; cbn [length] in *; [lia|].
    cbn [shift zipcell]. destruct w as [|w]; [reflexivity|].
    cbn [nth]. rewrite IH by lia. reflexivity.
Qed.

Lemma zipcell_length v : forall wi dp1 dp2, (length dp1 <= wi + length dp2)%nat ->
  length (zipcell Z.add Z.ltb v dp1 (shift wi dp2)) = length dp1.
Proof.
  induction wi as [|k IH]; intros dp1 dp2 Hl.
  - cbn [shift]. revert dp2 Hl. induction dp1 as [|o dp1 IH1]; intros dp2 Hl; [reflexivity|].
    destruct dp2 as [|p dp2]; cbn [length] in *; [lia|]. cbn [map zipcell length]. f_equal. apply IH1. lia.
  - destruct dp1 as [|o dp1]; [reflexivity|]. cbn [length] in *. cbn [shift zipcell length]. f_equal. apply IH. lia.
Qed.

Section Row.
  Variable C : nat.

  Definition row_ok (dp : list Z) (l : list (Z * nat)) : Prop :=
    length dp = S C /\ forall w, (w <= C)%nat -> nth w dp 0%Z = opt l w.

  Lemma step_spec v wi dp l :
    row_ok dp l ->
    row_ok (snd (step Z.add Z.ltb v wi dp)) ((v, wi) :: l) /\
    forall w, (w <= C)%nat ->
      if nth w (fst (step Z.add Z.ltb v wi dp)) false
      then (wi <= w)%nat /\ opt ((v, wi) :: l) w = (opt l (w - wi) + v)%Z
      else opt ((v, wi) :: l) w = opt l w.
  Proof.
    intros [Hlen Hdp]. unfold step. cbn [fst snd].
    assert (Hcell : forall w, (w <= C)%nat ->
              nth w (zipcell Z.add Z.ltb v dp (shift wi dp)) (false, 0%Z)
              = cell Z.add Z.ltb v (opt l w) (if (wi <=? w)%nat then Some (opt l (w - wi)) else None)).
    { intros w Hw. rewrite zipcell_nth by lia. rewrite (Hdp w Hw).
      destruct (wi <=? w)%nat eqn:E; [|reflexivity]. rewrite Hdp by lia. reflexivity. }
    split; [split|].
    - rewrite map_length. rewrite zipcell_length by lia. exact Hlen.
    - intros w Hw. change 0%Z with (snd (false, 0%Z)). rewrite map_nth. rewrite (Hcell w Hw).
      cbn [opt]. destruct (wi <=? w)%nat eqn:E; cbn [cell snd]; [|reflexivity].
      destruct (Z.ltb (opt l w) (opt l (w - wi) + v)) eqn:E2; cbn [snd]; lia.
    - intros w Hw. change false with (fst (false, 0%Z)). rewrite map_nth. rewrite (Hcell w Hw).
      cbn [opt]. destruct (wi <=? w)%nat eqn:E; cbn [cell fst].
      + destruct (Z.ltb (opt l w) (opt l (w - wi) + v)) eqn:E2; cbn [fst].
        * split; [apply Nat.leb_le; exact E|lia].
        * lia.
      + reflexivity.
  Qed.

  (* ---------------------------------------------------------------- all rows + backtracking *)
  Variable val : nat -> Z.
  Variable wt : nat -> nat.

  Definition sumv (s : list nat) : Z := sumZ (map val s).
  Definition sumw (s : list nat) : nat := list_sum (map wt s).

  Definition bt_ok (acc : list (nat * list bool * nat)) (l : list (Z * nat)) : Prop :=
    forall w, (w <= C)%nat -> sumv (backtrack acc w) = opt l w /\ (sumw (backtrack acc w) <= w)%nat.

  Lemma dp_run_inv : forall vs ws base l dp acc,
    length ws = length vs ->
    (forall j, (j < length vs)%nat -> val (base + j) = nth j vs 0%Z /\ wt (base + j) = nth j ws 0%nat) ->
    row_ok dp l -> bt_ok acc l ->
    bt_ok (rev (rows_from base (fst (dp_run Z.add Z.ltb (combine vs ws) dp)) ws) ++ acc)
          (rev (combine vs ws) ++ l) /\
    row_ok (snd (dp_run Z.add Z.ltb (combine vs ws) dp)) (rev (combine vs ws) ++ l).
  Proof.
    induction vs as [|v vs IH]; intros ws base l dp acc Hlen Hval Hrow Hbt.
    - destruct ws; [|discriminate Hlen]. cbn [combine dp_run fst snd rev app]. unfold rows_from. cbn. split; assumption.
    - destruct ws as [|wi ws]; [discriminate Hlen|]. cbn [length] in Hlen.
      cbn [combine dp_run].
      destruct (step_spec v wi dp l Hrow) as [Hrow' Hkeep].
      destruct (step Z.add Z.ltb v wi dp) as [k dp'] eqn:Estep. cbn [fst snd] in Hrow', Hkeep.
      assert (Hbt' : bt_ok ((base, k, wi) :: acc) ((v, wi) :: l)).
      { intros w Hw. specialize (Hkeep w Hw). cbn [backtrack].
        destruct (Hval 0%nat ltac:(cbn [length]; lia)) as [Hv0 Hw0]. rewrite Nat.add_0_r in Hv0, Hw0. cbn [nth] in Hv0, Hw0.
        destruct (nth w k false).
        - destruct Hkeep as [Hle Hopt]. destruct (Hbt (w - wi)%nat ltac:(lia)) as [H1 H2].
          unfold sumv, sumw in *. cbn [map sumZ fold_right list_sum]. rewrite Hv0, Hw0.
          fold (sumZ (map val (backtrack acc (w - wi)))). rewrite H1, Hopt. split; [apply Z.add_comm|].
          unfold list_sum in H2. lia.
        - destruct (Hbt w Hw) as [H1 H2]. rewrite Hkeep. split; assumption. }
      specialize (IH ws (S base) ((v, wi) :: l) dp' ((base, k, wi) :: acc) ltac:(lia)).
      assert (Hval' : forall j, (j < length vs)%nat ->
                val (S base + j) = nth j vs 0%Z /\ wt (S base + j) = nth j ws 0%nat).
      { intros j Hj. specialize (Hval (S j) ltac:(cbn [length]; lia)). cbn [nth] in Hval.
        replace (S base + j)%nat with (base + S j)%nat by lia. exact Hval. }
      specialize (IH Hval' Hrow' Hbt').
      destruct (dp_run Z.add Z.ltb (combine vs ws) dp') as [ks fin]. cbn [fst snd] in *.
      rewrite rows_from_cons. cbn [rev]. rewrite <- !app_assoc. cbn [app]. exact IH.
  Qed.
End Row.

(* ---------------------------------------------------------------- opt bounds every admissible index set *)
Lemma sum_split (g : nat -> Z) (k : nat) : forall s, NoDup s ->
  sumZ (map g s) = ((if existsb (Nat.eqb k) s then g k else 0) + sumZ (map g (filter (fun i => negb (k =? i)%nat) s)))%Z.
Proof.
  induction s as [|a t IH]; intros Hnd; [reflexivity|].
  inversion Hnd as [|x l Hnotin Hnd']; subst.
  cbn [map sumZ fold_right existsb filter]. fold (sumZ (map g t)). rewrite (IH Hnd').
  destruct (k =? a)%nat eqn:E; cbn [orb negb].
  - apply Nat.eqb_eq in E. subst a.
    assert (Hex : existsb (Nat.eqb k) t = false).
    { destruct (existsb (Nat.eqb k) t) eqn:Ex; [|reflexivity].
      apply existsb_exists in Ex. destruct Ex as [y [Hy Hky]]. apply Nat.eqb_eq in Hky. subst y. contradiction. }
    rewrite Hex. unfold sumZ. lia.
  - cbn [map sumZ fold_right]. fold (sumZ (map g (filter (fun i => negb (k =? i)%nat) t))). lia.
Qed.

Lemma opt_upper_idx : forall (items : list (Z * nat)) (s : list nat) (w : nat),
  NoDup s -> Forall (fun i => (i < length items)%nat) s ->
  (sumZ (map (fun i => Z.of_nat (snd (nth i items (0%Z, 0%nat)))) s) <= Z.of_nat w)%Z ->
  (sumZ (map (fun i => fst (nth i items (0%Z, 0%nat))) s) <= opt (rev items) w)%Z.
Proof.
  induction items as [|[v wi] items IH] using rev_ind; intros s w Hnd Hrange Hw.
  - destruct s as [|a t]; [cbn; lia|]. inversion Hrange as [|x l Hx Hl]; subst. cbn [length] in Hx. lia.
  - rewrite rev_unit. set (k := length items).
    set (s' := filter (fun i => negb (k =? i)%nat) s).
    assert (Hnd' : NoDup s') by (apply NoDup_filter; exact Hnd).
    assert (Hrange' : Forall (fun i => (i < length items)%nat) s').
    { apply Forall_forall. intros i Hi. apply filter_In in Hi. destruct Hi as [Hi Hne].
      rewrite Forall_forall in Hrange. specialize (Hrange i Hi). rewrite app_length in Hrange. cbn [length] in Hrange.
      apply negb_true_iff in Hne. apply Nat.eqb_neq in Hne. fold k. lia. }
    assert (Hsame : forall (f : Z * nat -> Z),
              sumZ (map (fun i => f (nth i (items ++ [(v, wi)]) (0%Z, 0%nat))) s')
              = sumZ (map (fun i => f (nth i items (0%Z, 0%nat))) s')).
    { intros f. f_equal. apply map_ext_in. intros i Hi. rewrite Forall_forall in Hrange'.
      rewrite app_nth1 by (apply Hrange'; exact Hi). reflexivity. }
    rewrite (sum_split (fun i => Z.of_nat (snd (nth i (items ++ [(v, wi)]) (0%Z, 0%nat)))) k s Hnd) in Hw.
    rewrite (sum_split (fun i => fst (nth i (items ++ [(v, wi)]) (0%Z, 0%nat))) k s Hnd).
    fold s' in Hw |- *.
    rewrite (Hsame (fun p => Z.of_nat (snd p))) in Hw. rewrite (Hsame fst).
    assert (Hk : nth k (items ++ [(v, wi)]) (0%Z, 0%nat) = (v, wi)).
    { unfold k. rewrite app_nth2 by lia. rewrite Nat.sub_diag. reflexivity. }
    rewrite Hk in Hw |- *. cbn [fst snd] in Hw |- *.
    destruct (existsb (Nat.eqb k) s).
    + assert (Hle : (wi <= w)%nat).
      { assert (0 <= sumZ (map (fun i => Z.of_nat (snd (nth i items (0%Z, 0%nat)))) s'))%Z.
        { clear. induction s' as [|a t IHt]; cbn [map sumZ fold_right]; [lia|].
          fold (sumZ (map (fun i => Z.of_nat (snd (nth i items (0%Z, 0%nat)))) t)). lia. }
        lia. }
      specialize (IH s' (w - wi)%nat Hnd' Hrange' ltac:(lia)).
      cbn [opt]. apply Nat.leb_le in Hle. rewrite Hle. lia.
    + specialize (IH s' w Hnd' Hrange' ltac:(lia)).
      pose proof (opt_cons_ge v wi (rev items) w). lia.
Qed.
