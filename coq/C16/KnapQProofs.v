(* C16 - feasibility and faithful scoring of the rational instance knap_q, both exits:
   the DP answer that passed the code's own final weight check, and the greedy fallback. *)
From Coq Require Import List Arith ZArith QArith Bool Lia Lqa Permutation.
From SV Require Import C16.KnapCore C16.Knapsack C16.KnapSpec C16.KnapCoreProofs.
Import ListNotations.

Lemma sumQ_cons x l : sumQ (x :: l) = x + sumQ l.
Proof. reflexivity. Qed.

Lemma Qltb_false a b : Qltb a b = false -> b <= a.
Proof. unfold Qltb. intros H. apply negb_false_iff in H. apply Qle_bool_iff. exact H. Qed.

Lemma Qltb_true a b : Qltb a b = true -> a < b.
Proof.
  unfold Qltb. intros H. apply negb_true_iff in H. apply Qnot_le_lt. intros Hle.
  apply Qle_bool_iff in Hle. congruence.
Qed.

(* ---------------------------------------------------------------- the insertion sort *)
Lemma insert_by_perm {A} (before : A -> A -> bool) x : forall l, Permutation (insert_by before x l) (x :: l).
Proof.
  induction l as [|y r IH]; cbn [insert_by]; [apply Permutation_refl|].
  destruct (before y x); [|apply Permutation_refl].
  eapply perm_trans; [apply perm_skip; exact IH|apply perm_swap].
Qed.

Lemma stable_sort_perm {A} (before : A -> A -> bool) : forall l, Permutation (stable_sort before l) l.
Proof.
  induction l as [|x l IH]; [apply Permutation_refl|]. unfold stable_sort in *. cbn [fold_right].
  eapply perm_trans; [apply insert_by_perm|apply perm_skip; exact IH].
Qed.

Lemma incr_cons a l : (forall x, In x l -> (a < x)%nat) -> incr l -> incr (a :: l).
Proof. destruct l as [|b t]; intros H Hi; [exact I|]. cbn [incr]. split; [apply H; left; reflexivity|exact Hi]. Qed.

Lemma insert_incr x : forall l, incr l -> ~ In x l -> incr (insert_by Nat.ltb x l).
Proof.
  induction l as [|y r IH]; intros Hi Hnin; cbn [insert_by]; [exact I|].
  destruct (y <? x)%nat eqn:E.
  - apply Nat.ltb_lt in E. apply incr_cons.
    + intros z Hz. apply (Permutation_in _ (insert_by_perm Nat.ltb x r)) in Hz.
      destruct Hz as [<-|Hz]; [exact E|]. exact (incr_lower y r Hi z Hz).
    + apply IH; [exact (incr_tail y r Hi)|]. intros Hin. apply Hnin. right. exact Hin.
  - apply Nat.ltb_ge in E. apply incr_cons; [|exact Hi].
    assert (Hxy : (x < y)%nat).
    { destruct (Nat.eq_dec x y) as [->|Hne]; [exfalso; apply Hnin; left; reflexivity|lia]. }
    intros z [<-|Hz]; [exact Hxy|]. pose proof (incr_lower y r Hi z Hz). lia.
Qed.

Lemma nat_sort_incr : forall l, NoDup l -> incr (nat_sort l).
Proof.
  induction l as [|x l IH]; intros Hnd; [exact I|].
  inversion Hnd as [|y l' Hnin Hnd']; subst. unfold nat_sort, stable_sort in *. cbn [fold_right].
  apply insert_incr; [apply IH; exact Hnd'|].
  intros Hin. apply Hnin. exact (Permutation_in _ (stable_sort_perm Nat.ltb l) Hin).
Qed.

Lemma sumQ_perm (f : nat -> Q) l l' : Permutation l l' -> sumQ (map f l) == sumQ (map f l').
Proof.
  intros H. induction H as [|x l l' H IH|x y l|l l' l'' H1 IH1 H2 IH2]; cbn [map]; rewrite ?sumQ_cons.
  - reflexivity.
  - rewrite IH. reflexivity.
  - lra.
  - rewrite IH1. exact IH2.
Qed.

Lemma subseq_NoDup {A} (a b : list A) : subseq a b -> NoDup b -> NoDup a.
Proof.
  intros H. induction H as [|x l1 l2 H IH|x l1 l2 H IH]; intros Hnd.
  - constructor.
  - inversion Hnd; subst. apply IH. assumption.
  - inversion Hnd as [|y l Hnin Hnd']; subst. constructor; [|apply IH; exact Hnd'].
    intros Hin. apply Hnin. exact (subseq_In _ _ H x Hin).
Qed.

(* ---------------------------------------------------------------- the greedy fallback *)
Lemma greedy_take_subseq : forall order rem, subseq (greedy_take order rem) (map fst order).
Proof.
  induction order as [|[i w] rest IH]; intros rem; cbn [greedy_take map fst]; [constructor|].
  destruct (Qle_bool w rem); [apply sub_take|apply sub_skip]; apply IH.
Qed.

Lemma greedy_take_weight (weights : list Q) : forall order rem,
  0 <= rem -> (forall p, In p order -> snd p = nth (fst p) weights 0) ->
  sumQ (pickQ weights (greedy_take order rem)) <= rem.
Proof.
  induction order as [|[i w] rest IH]; intros rem Hrem Hw; cbn [greedy_take].
  - cbn. exact Hrem.
  - assert (Hw' : forall p, In p rest -> snd p = nth (fst p) weights 0) by (intros p Hp; apply Hw; right; exact Hp).
    destruct (Qle_bool w rem) eqn:E.
    + apply Qle_bool_iff in E. unfold pickQ. cbn [map]. rewrite sumQ_cons.
      specialize (Hw (i, w) (or_introl eq_refl)). cbn [fst snd] in Hw. rewrite <- Hw.
      assert (H0 : 0 <= rem - w) by lra.
      specialize (IH (rem - w) H0 Hw'). unfold pickQ in IH. lra.
    + apply IH; assumption.
Qed.

Lemma greedy_fallback_feasible values weights capacity minimize :
  0 <= capacity ->
  knap_feasible_q 0 values weights capacity
                  (qsel (greedy_fallback values weights capacity minimize))
                  (qobj (greedy_fallback values weights capacity minimize)).
Proof.
  intros Hcap. unfold greedy_fallback. cbn [qsel qobj].
  set (n := length values).
  set (keyed := map (fun i => (i, ratio (nth i values 0) (nth i weights 0))) (seq 0 n)).
  set (before := if minimize then (fun y x : nat * option Q => key_lt (snd y) (snd x))
                 else (fun y x : nat * option Q => key_lt (snd x) (snd y))).
  set (order := map (fun p : nat * option Q => (fst p, nth (fst p) weights 0)) (stable_sort before keyed)).
  set (taken := greedy_take order capacity).
  assert (Hord : Permutation (map fst order) (seq 0 n)).
  { unfold order. rewrite map_map. cbn [fst].
    eapply perm_trans; [apply Permutation_map; apply stable_sort_perm|].
    unfold keyed. rewrite map_map. cbn [fst]. rewrite map_id. apply Permutation_refl. }
  assert (Hnd : NoDup taken).
  { apply (subseq_NoDup _ _ (greedy_take_subseq order capacity)).
    apply (Permutation_NoDup (Permutation_sym Hord)). apply seq_NoDup. }
  assert (Hperm : Permutation (nat_sort taken) taken) by apply stable_sort_perm.
  pose proof (nat_sort_incr taken Hnd) as Hi.
  unfold knap_feasible_q. split; [exact Hi|]. split; [apply incr_NoDup; exact Hi|].
  split; [|split].
  - apply Forall_forall. intros i Hin.
    apply (Permutation_in _ Hperm) in Hin.
    apply (subseq_In _ _ (greedy_take_subseq order capacity)) in Hin.
    apply (Permutation_in _ Hord) in Hin. apply in_seq in Hin. fold n. lia.
  - unfold pickQ. rewrite (sumQ_perm (fun i => nth i weights 0) _ _ Hperm).
    pose proof (greedy_take_weight weights order capacity Hcap) as Hw.
    assert (Hsnd : forall p, In p order -> snd p = nth (fst p) weights 0).
    { intros p Hp. unfold order in Hp. apply in_map_iff in Hp. destruct Hp as [q [<- _]]. reflexivity. }
    specialize (Hw Hsnd). unfold pickQ in Hw. fold taken in Hw. lra.
  - reflexivity.
Qed.

(* ---------------------------------------------------------------- knap_q *)
Lemma knap_q_feasible values weights capacity minimize r :
  Qle_bool 0 capacity = true ->
  knap_q values weights capacity minimize = Some r ->
  knap_feasible_q tol values weights capacity (qsel r) (qobj r).
Proof.
  intros Hcap Hr. apply Qle_bool_iff in Hcap.
  assert (Htol : 0 <= tol) by (unfold tol; unfold Qle; cbn; lia).
  assert (Hcase : values = [] \/ values <> []) by (destruct values; [left; reflexivity|right; discriminate]).
  destruct Hcase as [-> | Hne].
  - cbn in Hr. injection Hr as Hr. subst r. cbn [qsel qobj]. unfold knap_feasible_q.
    split; [exact I|]. split; [constructor|]. split; [constructor|]. split; [cbn; lra|reflexivity].
  - unfold knap_q in Hr. destruct values as [|v0 vs] eqn:Ev; [contradiction|]. rewrite <- Ev in *. clear Ev v0 vs.
    destruct (negb (length weights =? length values)%nat) eqn:Elen; [discriminate Hr|].
    destruct (Qltb capacity 0); [discriminate Hr|].
    apply negb_false_iff, Nat.eqb_eq in Elen.
    destruct (to_int_capacity capacity weights) as [ic scale].
    set (vals := map (Qmult (if minimize then -1 # 1 else 1)) values) in Hr.
    set (iw := map (int_weight_q scale) weights) in Hr.
    set (sel := solve_core 0 Qplus Qltb vals iw (Z.to_nat ic)) in Hr.
    destruct (Qltb (capacity + tol) (sumQ (pickQ weights sel))) eqn:Egate.
    + injection Hr as Hr. subst r.
      destruct (greedy_fallback_feasible values weights capacity minimize Hcap) as [H1 [H2 [H3 [H4 H5]]]].
      unfold knap_feasible_q. repeat split; try assumption. lra.
    + injection Hr as Hr. subst r. cbn [qsel qobj].
      assert (Hl : length iw = length vals) by (unfold iw, vals; rewrite !map_length; exact Elen).
      destruct (solve_core_struct Q 0 Qplus Qltb vals iw (Z.to_nat ic) Hl) as [Hi Hf]. fold sel in Hi, Hf.
      unfold knap_feasible_q. split; [exact Hi|]. split; [apply incr_NoDup; exact Hi|].
      split; [unfold vals in Hf; rewrite map_length in Hf; exact Hf|].
      split; [apply Qltb_false; exact Egate|reflexivity].
Qed.

(* the status tells which exit was taken: FEASIBLE answers (the fallback) are within the capacity exactly *)
Lemma knap_q_feasible_exact_fallback values weights capacity minimize r :
  Qle_bool 0 capacity = true ->
  knap_q values weights capacity minimize = Some r -> qstatus r = FEASIBLE ->
  knap_feasible_q 0 values weights capacity (qsel r) (qobj r).
Proof.
  intros Hcap Hr Hst. apply Qle_bool_iff in Hcap.
  unfold knap_q in Hr. destruct values as [|v0 vs] eqn:Ev.
  - injection Hr as Hr. subst r. discriminate Hst.
  - rewrite <- Ev in *. clear Ev v0 vs.
    destruct (negb (length weights =? length values)%nat); [discriminate Hr|].
    destruct (Qltb capacity 0); [discriminate Hr|].
    destruct (to_int_capacity capacity weights) as [ic scale].
    match type of Hr with (if ?c then _ else _) = _ => destruct c end.
    + injection Hr as Hr. subst r. apply greedy_fallback_feasible. exact Hcap.
    + injection Hr as Hr. subst r. discriminate Hst.
Qed.
