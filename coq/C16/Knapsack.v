(* C16 - model of solvor/knapsack.py (solve_knapsack, _to_int_capacity, _greedy_fallback).  Definitions only.

   THE MODEL IS OF THE FIXED CODE: the early return `if int_capacity == 0: return Result((), 0.0, ...)` is absent
   (the DP loop handles capacity 0: the table has the single column w = 0 and zero-weight items are taken there).
   Everything else follows the source line by line.

   Two instances of the same function:
     knap_z : values, weights, capacity : Z  (Python ints / integral floats; `_to_int_capacity` takes the branch
              "all(v == int(v))" -> (int(capacity), 1.0); int_weights[i] = max(1, int(w*1)) if w > 0 else 0).
              The final check `total_weight > capacity + 1e-9` can never fire here (theorem knap_z_gate), so the
              greedy fallback is not part of knap_z.
     knap_q : values, weights, capacity : Q  (decimal inputs idealised as rationals; int() = truncation; the
              tolerance 1e-9 is the rational 1/10^9; floats' rounding error is outside the model).
   ValueError (length mismatch, negative capacity) = None.  *)
From Coq Require Import List Arith ZArith QArith Bool.
From SV Require Import C16.KnapCore.
Import ListNotations.

(* ---------------------------------------------------------------- integer instance *)
Record zresult := { zsel : list nat; zobj : Z; zstatus : status }.

Definition sumZ (l : list Z) : Z := fold_right Z.add 0%Z l.
Definition pickZ (xs : list Z) (sel : list nat) : list Z := map (fun i => nth i xs 0%Z) sel.

(* int_weights = [max(1, int(w * scale)) if w > 0 else 0 for w in weights]   with scale = 1 *)
Definition int_weight_z (w : Z) : nat := if (0 <? w)%Z then Z.to_nat (Z.max 1 w) else 0%nat.

Definition knap_z (values weights : list Z) (capacity : Z) (minimize : bool) : option zresult :=
  match values with
  | [] => Some {| zsel := []; zobj := 0%Z; zstatus := OPTIMAL |}          (* n == 0 *)
  | _ =>
    if negb (length weights =? length values)%nat then None                (* check_sequence_lengths *)
    else if (capacity <? 0)%Z then None                                    (* check_non_negative *)
    else
      let sign := if minimize then (-1)%Z else 1%Z in
      let vals := map (Z.mul sign) values in
      let C := Z.to_nat capacity in                                        (* int(capacity), scale 1.0 *)
      let iw := map int_weight_z weights in
      let sel := solve_core 0%Z Z.add Z.ltb vals iw C in
      Some {| zsel := sel; zobj := sumZ (pickZ values sel); zstatus := OPTIMAL |}
  end.

(* ---------------------------------------------------------------- rational instance *)
Record qresult := { qsel : list nat; qobj : Q; qstatus : status }.

Definition sumQ (l : list Q) : Q := fold_right Qplus 0%Q l.
Definition pickQ (xs : list Q) (sel : list nat) : list Q := map (fun i => nth i xs 0%Q) sel.

Definition Qltb (a b : Q) : bool := negb (Qle_bool b a).
(* Python int(): truncation toward zero *)
Definition qint (q : Q) : Z := Z.quot (Qnum q) (Zpos (Qden q)).
Definition is_int (q : Q) : bool := Qeq_bool q (inject_Z (qint q)).        (* v == int(v) *)

Definition tol : Q := 1 # 1000000000.                                       (* 1e-9 *)

(* _to_int_capacity(capacity, weights) -> (int_capacity, scale) *)
Definition to_int_capacity (capacity : Q) (weights : list Q) : Z * Q :=
  let all_vals := capacity :: filter (fun w => Qltb 0 w) weights in
  if forallb is_int all_vals then (qint capacity, 1%Q)
  else if Qle_bool capacity 0 then (0%Z, 1%Q)
  else
    let scale := let a := (100000 # 1) / capacity in let b := (1000 # 1)%Q in
                 if Qle_bool a b then a else b in                          (* min(max_capacity / capacity, 1000.0) *)
    (qint (capacity * scale), scale).

Definition int_weight_q (scale : Q) (w : Q) : nat :=
  if Qltb 0 w then Z.to_nat (Z.max 1 (qint (w * scale))) else 0%nat.

(* sort keys of _greedy_fallback: values[i] / weights[i] if weights[i] > 0 else float("inf");  None = inf *)
Definition ratio (v w : Q) : option Q := if Qltb 0 w then Some (v / w) else None.
Definition key_lt (a b : option Q) : bool :=
  match a, b with
  | Some x, Some y => Qltb x y
  | Some _, None => true
  | None, _ => false
  end.

(* list.sort is stable; with reverse=True equal keys also keep their original order.
   insert x before the first y that must not precede x; x is older than everything in the list *)
Fixpoint insert_by {A} (before : A -> A -> bool) (x : A) (l : list A) : list A :=
  match l with
  | [] => [x]
  | y :: r => if before y x then y :: insert_by before x r else x :: y :: r
  end.
Definition stable_sort {A} (before : A -> A -> bool) (l : list A) : list A :=
  fold_right (insert_by before) [] l.
(* `before y x` = y has a strictly better key than x (strictly smaller when ascending, strictly larger when
   descending); ties keep the original order *)

Fixpoint greedy_take (order : list (nat * Q)) (remaining : Q) : list nat :=
  match order with
  | [] => []
  | (i, w) :: rest =>
      if Qle_bool w remaining then i :: greedy_take rest (remaining - w) else greedy_take rest remaining
  end.

Definition nat_sort (l : list nat) : list nat := stable_sort Nat.ltb l.

Definition greedy_fallback (values weights : list Q) (capacity : Q) (minimize : bool) : qresult :=
  let n := length values in
  let keyed := map (fun i => (i, ratio (nth i values 0) (nth i weights 0))) (seq 0 n) in
  let before := if minimize
                then (fun y x : nat * option Q => key_lt (snd y) (snd x))
                else (fun y x : nat * option Q => key_lt (snd x) (snd y)) in
  let order := map (fun p => (fst p, nth (fst p) weights 0)) (stable_sort before keyed) in
  let sel := nat_sort (greedy_take order capacity) in
  {| qsel := sel; qobj := sumQ (pickQ values sel); qstatus := FEASIBLE |}.

Definition knap_q (values weights : list Q) (capacity : Q) (minimize : bool) : option qresult :=
  match values with
  | [] => Some {| qsel := []; qobj := 0; qstatus := OPTIMAL |}
  | _ =>
    if negb (length weights =? length values)%nat then None
    else if Qltb capacity 0 then None
    else
      let sign := if minimize then (-1 # 1) else 1 in
      let vals := map (Qmult sign) values in
      let (ic, scale) := to_int_capacity capacity weights in
      let C := Z.to_nat ic in
      let iw := map (int_weight_q scale) weights in
      let sel := solve_core 0 Qplus Qltb vals iw C in
      let objective := sumQ (pickQ values sel) in
      let total_weight := sumQ (pickQ weights sel) in
      if Qltb (capacity + tol) total_weight                                (* total_weight > capacity + 1e-9 *)
      then Some (greedy_fallback values weights capacity minimize)
      else Some {| qsel := sel; qobj := objective; qstatus := OPTIMAL |}
  end.

(* ---------------------------------------------------------------- observables compared with the implementation *)
Definition zobs := option (list nat * Z * status).
Definition zobs_of (r : option zresult) : zobs :=
  match r with None => None | Some r => Some (zsel r, zobj r, zstatus r) end.
Definition qobs := option (list nat * Q * status).
Definition qobs_of (r : option qresult) : qobs :=
  match r with None => None | Some r => Some (qsel r, qobj r, qstatus r) end.

Fixpoint nats_eqb (a b : list nat) : bool :=
  match a, b with
  | [], [] => true
  | x :: xs, y :: ys => (x =? y)%nat && nats_eqb xs ys
  | _, _ => false
  end.

Definition zobs_eqb (a b : zobs) : bool :=
  match a, b with
  | None, None => true
  | Some (s1, o1, t1), Some (s2, o2, t2) => nats_eqb s1 s2 && (o1 =? o2)%Z && status_eqb t1 t2
  | _, _ => false
  end.
Definition qobs_eqb (a b : qobs) : bool :=
  match a, b with
  | None, None => true
  | Some (s1, o1, t1), Some (s2, o2, t2) => nats_eqb s1 s2 && Qeq_bool o1 o2 && status_eqb t1 t2
  | _, _ => false
  end.
