(* C13: prim's returned tree is a spanning forest of the arc list, so by kruskal's minimality it is never
   lighter than kruskal's result on the same edges (first half of "agree"; the other half is PrimMin.v). *)
From Coq Require Import List Arith ZArith Bool Lia Relations.
From SV Require Import C20.UFSpec C20.UFUnion.
From SV Require Import C13.Mst C13.MstSpec C13.GraphLemmas C13.ForestCount C13.Greedy C13.PrimBasics C13.PrimProofs
  C13.MstSpecProofs C13.KruskalProofs C13.KruskalMin.
Import ListNotations.

Lemma prim_solution_spanning : forall g start r t, prim_valid g start = true -> g <> [] ->
  prim g start = Done r -> r_solution r = Some t ->
  r_status r = OPTIMAL /\ r_objective r = Some (weight t) /\ spanning_forest (arcs g) t.
Proof.
  intros g start r t Hv Hg Hr Ht. destruct (prim_tree g start Hv) as [r' [Hr' Hs]].
  rewrite Hr in Hr'. inversion Hr'; subst r'. clear Hr'.
  destruct (prim_start_node g start Hg Hv) as [_ Hstart].
  unfold prim_spec in Hs. destruct g as [|kn g']; [congruence|]. cbv zeta in Hs.
  set (G := kn :: g') in *. destruct (r_status r).
  - destruct Hs as (t' & E1 & E2 & Hin & Hac & Hc1 & Hc2 & _ & _). rewrite Ht in E1. inversion E1; subst t'.
    split; [reflexivity|]. split; [exact E2|]. split; [exact Hin|]. split; [exact Hac|].
    intros x y. split; [|apply connects_mono; exact Hin].
    intros K. apply joined_endpoints in K. destruct K as [->|[Kx Ky]]; [apply joined_refl|].
    assert (N : forall z, endpoint (pairs (arcs G)) z -> is_node G z).
    { intros z Hz. apply endpoint_pairs in Hz. destruct Hz as [[[u v] w] [He Hz]].
      destruct (arc_nodes G u v w He) as [K1 K2]. cbn in Hz. destruct Hz; subst; assumption. }
    eapply joined_trans; [apply joined_sym, Hc1, N, Kx|apply Hc1, N, Ky].
  - destruct Hs.
  - destruct Hs as (E & _). rewrite Ht in E. discriminate.
Qed.

(* kruskal's objective on the arc list of the adjacency dict never exceeds prim's objective *)
Theorem kruskal_le_prim : forall g start r t n acc tot iters,
  prim_valid g start = true -> g <> [] -> prim g start = Done r -> r_solution r = Some t ->
  kruskal_valid n (arcs g) = true -> kruskal_core n (arcs g) = Some (acc, tot, iters) ->
  (tot <= weight t)%Z /\ r_objective r = Some (weight t).
Proof.
  intros g start r t n acc tot iters Hv Hg Hr Ht Hkv Hk.
  destruct (prim_solution_spanning g start r t Hv Hg Hr Ht) as (_ & Ho & Hsf).
  pose proof (kruskal_min n (arcs g) acc tot iters Hkv Hk) as Hm.
  destruct (kruskal_core_forest n (arcs g) Hkv) as (acc' & tot' & it' & Hk' & _ & _ & Htot & _).
  rewrite Hk in Hk'. inversion Hk'; subst acc' tot' it'.
  split; [apply Hm; exact Hsf|exact Ho].
Qed.
