(* C13, kruskal: the accepted edges have minimum total weight among all spanning forests of the input. *)
From Coq Require Import List Arith ZArith Bool Lia Relations.
From SV Require Import C20.UFSpec.
From SV Require Import C13.Mst C13.MstSpec C13.GraphLemmas C13.ForestCount C13.Greedy C13.MstSpecProofs C13.KruskalProofs.
Import ListNotations.

Lemma sortedw_insert : forall e l, sortedw l -> sortedw (insert_edge e l).
Proof.
  intros e l. induction l as [|y t IH]; intros H; cbn.
  - split; [intros x []|exact I].
  - destruct H as [Hy Ht]. destruct (ew e <=? ew y)%Z eqn:E.
    + apply Z.leb_le in E. split; [|split; assumption].
      intros x [<-|Hx]; [exact E|]. specialize (Hy x Hx). lia.
    + apply Z.leb_gt in E. split; [|apply IH; exact Ht].
      intros x Hx. apply In_insert_edge in Hx. destruct Hx as [->|Hx]; [lia|apply Hy; exact Hx].
Qed.

Lemma sortedw_sort : forall l, sortedw (sort_edges l).
Proof.
  induction l as [|e l IH]; [exact I|].
  change (sort_edges (e :: l)) with (insert_edge e (sort_edges l)). apply sortedw_insert, IH.
Qed.

Theorem kruskal_min : forall n edges acc tot iters, kruskal_valid n edges = true ->
  kruskal_core n edges = Some (acc, tot, iters) -> minimum edges acc.
Proof.
  intros n edges acc tot iters Hv Hk.
  destruct (kruskal_core_forest n edges Hv) as (acc' & tot' & iters' & Hk' & _ & _ & _ & _ & _ & _ & Hgr).
  rewrite Hk in Hk'. inversion Hk'; subst acc' tot' iters'. clear Hk'.
  unfold kruskal_valid in Hv. apply andb_true_iff in Hv. destruct Hv as [_ Hr].
  apply valid_in_range in Hr.
  assert (HrS : in_range n ([] ++ sort_edges edges)).
  { intros e He. apply Hr. apply In_sort_edges. exact He. }
  destruct (greedy_min n (sort_edges edges) [] acc Hgr (sortedw_sort edges) HrS) as (added & Ea & Hmin).
  cbn [app] in Ea. subst added.
  intros t' (Hi & Ha & Hc). apply Hmin. split; [|split].
  - intros e He. apply In_sort_edges. apply Hi, He.
  - exact Ha.
  - cbn [app]. intros x y K. apply Hc. eapply connects_mono; [|exact K].
    intros e He. apply (proj1 (In_sort_edges _ _)) in He. exact He.
Qed.

Theorem kruskal_forest_min : forall n edges allow_forest, kruskal_valid n edges = true ->
  exists r, kruskal n edges allow_forest = Done r /\
            kruskal_spec_min n edges allow_forest (r_status r, r_solution r, r_objective r).
Proof.
  intros n edges af Hv. destruct (kruskal_forest n edges af Hv) as [r [Hr Hs]].
  exists r. split; [exact Hr|]. split; [exact Hs|].
  cbn [fst snd]. intros t Ht.
  unfold kruskal in Hr. rewrite Hv in Hr.
  destruct (kruskal_core n edges) as [[[acc tot] iters]|] eqn:Hk; [|discriminate].
  inversion Hr; subst r. clear Hr. unfold kruskal_result in Ht.
  assert (Hm : minimum edges acc) by (eapply kruskal_min; eassumption).
  destruct (length acc <? n - 1); [destruct af|]; cbn in Ht; try discriminate; inversion Ht; subst; exact Hm.
Qed.
