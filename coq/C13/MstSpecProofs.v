(* Soundness of the boolean checkers of MstSpec.v: label arrays decide UFSpec.joined; kruskal_check and
   prim_check imply kruskal_spec / prim_spec.  Independent of the kruskal / prim models. *)
From Coq Require Import List Arith ZArith Bool Lia Relations.
From SV Require Import C20.UFSpec C20.UFUnion C20.UFCount.
From SV Require Import C13.Mst C13.MstSpec C13.GraphLemmas C13.ForestCount C13.PrimBasics C13.PrimProofs.
Import ListNotations.

(* ---------------------------------------------------------------- label arrays *)
Definition LInv (n : nat) (ps : list (nat * nat)) (ls : list nat) : Prop :=
  length ls = n /\ (forall x, x < n -> lab ls x < n) /\
  (forall x y, lab ls x = lab ls y <-> joined ps x y).

Definition pairs_in_range (n : nat) (ps : list (nat * nat)) : Prop :=
  forall p, In p ps -> fst p < n /\ snd p < n.

Lemma lab_seq : forall n x, lab (seq 0 n) x = x.
Proof.
  intros n x. unfold lab. destruct (Nat.lt_ge_cases x n) as [H|H].
  - rewrite seq_nth; [reflexivity|exact H].
  - apply nth_overflow. rewrite seq_length. exact H.
Qed.

Lemma LInv_init : forall n, LInv n [] (seq 0 n).
Proof.
  intros n. split; [apply seq_length|]. split.
  - intros x Hx. rewrite lab_seq. exact Hx.
  - intros x y. rewrite !lab_seq. split; [intros ->; apply joined_refl|apply joined_nil].
Qed.

Lemma lab_ge : forall n ps ls x, LInv n ps ls -> n <= x -> lab ls x = x.
Proof. intros n ps ls x (HL & _ & _) Hx. unfold lab. apply nth_overflow. lia. Qed.

Lemma lab_merge : forall n ps ls a b x, LInv n ps ls -> b < n ->
  lab (merge ls a b) x = if lab ls x =? lab ls b then lab ls a else lab ls x.
Proof.
  intros n ps ls a b x HI Hb. pose proof HI as (HL & Hlt & _). unfold merge.
  set (f := fun l => if l =? lab ls b then lab ls a else l).
  destruct (Nat.lt_ge_cases x n) as [Hx|Hx].
  - unfold lab at 1. rewrite (nth_indep _ x (f x)); [|rewrite map_length; lia].
    rewrite map_nth. reflexivity.
  - unfold lab at 1. rewrite nth_overflow; [|rewrite map_length; lia].
    rewrite (lab_ge n ps ls x HI Hx). specialize (Hlt b Hb).
    destruct (x =? lab ls b) eqn:E; [apply Nat.eqb_eq in E; lia|reflexivity].
Qed.

Lemma LInv_merge : forall n ps ls a b, LInv n ps ls -> a < n -> b < n ->
  LInv n (ps ++ [(a, b)]) (merge ls a b).
Proof.
  intros n ps ls a b HI Ha Hb. pose proof HI as (HL & Hlt & Hiff). split; [|split].
  - unfold merge. rewrite map_length. exact HL.
  - intros x Hx. rewrite (lab_merge n ps ls a b x HI Hb).
    destruct (lab ls x =? lab ls b); [apply Hlt, Ha|apply Hlt, Hx].
  - intros x y. rewrite !(lab_merge n ps ls a b _ HI Hb). rewrite joined_add. unfold cls.
    rewrite <- !Hiff.
    destruct (Nat.eqb_spec (lab ls x) (lab ls b)); destruct (Nat.eqb_spec (lab ls y) (lab ls b)); lia.
Qed.

Lemma LInv_labels_from : forall n qs ps ls, LInv n ps ls -> pairs_in_range n qs ->
  LInv n (ps ++ qs) (labels_from ls qs).
Proof.
  intros n qs. induction qs as [|[a b] qs IH]; intros ps ls HI Hr; cbn.
  - rewrite app_nil_r. exact HI.
  - destruct (Hr (a, b) (or_introl eq_refl)) as [Ha Hb]. cbn in Ha, Hb.
    replace (ps ++ (a, b) :: qs) with ((ps ++ [(a, b)]) ++ qs) by (rewrite <- app_assoc; reflexivity).
    apply IH; [apply LInv_merge; assumption|]. intros p Hp. apply Hr. right. exact Hp.
Qed.

Lemma labels_ok : forall n ps, pairs_in_range n ps ->
  forall x y, lab (labels n ps) x = lab (labels n ps) y <-> joined ps x y.
Proof.
  intros n ps Hr. pose proof (LInv_labels_from n ps [] (seq 0 n) (LInv_init n) Hr) as (_ & _ & H).
  exact H.
Qed.

Lemma in_range_pairs : forall n es, in_range n es -> pairs_in_range n (pairs es).
Proof.
  intros n es H p Hp. unfold pairs in Hp. apply in_map_iff in Hp. destruct Hp as [e [<- He]].
  apply H. exact He.
Qed.

Lemma forest_from_sound : forall n es acc ls,
  forest_from ls es = true -> LInv n (pairs acc) ls -> in_range n es -> incr_forest acc ->
  incr_forest (acc ++ es).
Proof.
  intros n es. induction es as [|e r IH]; intros acc ls H HI Hr Hf; cbn in H.
  - rewrite app_nil_r. exact Hf.
  - apply andb_true_iff in H. destruct H as [H1 H2].
    destruct (Hr e (or_introl eq_refl)) as [Ha Hb].
    replace (acc ++ e :: r) with ((acc ++ [e]) ++ r) by (rewrite <- app_assoc; reflexivity).
    apply (IH (acc ++ [e]) (merge ls (eu e) (ev e))); [exact H2| | |].
    + rewrite pairs_snoc. apply LInv_merge; assumption.
    + intros e' He'. apply Hr. right. exact He'.
    + apply if_snoc; [exact Hf|]. intros K. destruct HI as (_ & _ & Hiff). apply Hiff in K.
      rewrite K, Nat.eqb_refl in H1. discriminate.
Qed.

(* ---------------------------------------------------------------- edge membership *)
Lemma edge_eqb_eq : forall a b, edge_eqb a b = true -> a = b.
Proof.
  intros [[a1 a2] a3] [[b1 b2] b3] H. unfold edge_eqb, eu, ev, ew in H. cbn in H.
  apply andb_true_iff in H. destruct H as [H H3]. apply andb_true_iff in H. destruct H as [H1 H2].
  apply Nat.eqb_eq in H1. apply Nat.eqb_eq in H2. apply Z.eqb_eq in H3. subst. reflexivity.
Qed.

Lemma in_edges_In : forall es e, in_edges es e = true -> In e es.
Proof.
  intros es e H. unfold in_edges in H. apply existsb_exists in H. destruct H as [x [Hx E]].
  apply edge_eqb_eq in E. subst. exact Hx.
Qed.

Lemma forallb_in_edges_incl : forall es t, forallb (in_edges es) t = true -> incl t es.
Proof. intros es t H e He. rewrite forallb_forall in H. apply in_edges_In, H, He. Qed.

Lemma connects_sub : forall es t, (forall e, In e es -> connects t (eu e) (ev e)) ->
  forall x y, connects es x y -> connects t x y.
Proof.
  intros es t H x y K. induction K as [a b Hab|a|a b K IH|a b c K1 IH1 K2 IH2].
  - unfold pairs in Hab. apply in_map_iff in Hab. destruct Hab as [e [E He]].
    specialize (H e He). destruct e as [[a' b'] w]. cbn in E. inversion E; subst. exact H.
  - apply joined_refl.
  - apply joined_sym. exact IH.
  - eapply joined_trans; eassumption.
Qed.

Lemma valid_in_range : forall n edges, forallb (edge_in_range n) edges = true -> in_range n edges.
Proof.
  intros n edges H e He. rewrite forallb_forall in H. specialize (H e He).
  unfold edge_in_range in H. apply andb_true_iff in H. destruct H as [H1 H2].
  split; apply Nat.ltb_lt; assumption.
Qed.

Lemma forest_check_sound : forall n edges t, in_range n edges -> forest_check n edges t = true ->
  spanning_forest edges t /\ incr_forest t /\ in_range n t.
Proof.
  intros n edges t Hr H. unfold forest_check in H.
  apply andb_true_iff in H. destruct H as [H H3]. apply andb_true_iff in H. destruct H as [H1 H2].
  pose proof (forallb_in_edges_incl _ _ H1) as Hin.
  assert (Hrt : in_range n t) by (intros e He; apply Hr, Hin, He).
  pose proof (forest_from_sound n t [] (seq 0 n) H2 (LInv_init n) Hrt if_nil) as Hf. cbn [app] in Hf.
  split; [|split; [exact Hf|exact Hrt]].
  split; [exact Hin|]. split; [apply incr_forest_acyclic; exact Hf|].
  intros x y. split; [|apply connects_mono; exact Hin].
  apply connects_sub. intros e He. rewrite forallb_forall in H3. specialize (H3 e He).
  apply Nat.eqb_eq in H3. apply (labels_ok n (pairs t) (in_range_pairs n t Hrt)). exact H3.
Qed.

Lemma all_same_seq : forall n es, 1 <= n -> in_range n es ->
  (all_same (labels n (pairs es)) (seq 0 n) = true <-> connected_graph n es).
Proof.
  intros n es Hn Hr. pose proof (labels_ok n (pairs es) (in_range_pairs n es Hr)) as HL.
  destruct n as [|n]; [lia|]. cbn [seq all_same]. rewrite forallb_forall. split.
  - intros H x y Hx Hy. unfold connects.
    assert (K : forall z, z < S n -> joined (pairs es) z 0).
    { intros z Hz. apply HL. apply Nat.eqb_eq. apply H. change (In z (seq 0 (S n))). apply in_seq. lia. }
    eapply joined_trans; [apply K; exact Hx|apply joined_sym, K; exact Hy].
  - intros H x Hx. apply Nat.eqb_eq. apply HL. apply H; [|lia].
    change (In x (seq 0 (S n))) in Hx. apply in_seq in Hx. lia.
Qed.

(* ---------------------------------------------------------------- kruskal_check *)
Theorem kruskal_check_sound : forall n edges af o,
  kruskal_check n edges af o = true -> kruskal_spec n edges af o.
Proof.
  intros n edges af [[st sol] obj] H. unfold kruskal_check in H.
  apply andb_true_iff in H. destruct H as [Hv H].
  unfold kruskal_valid in Hv. apply andb_true_iff in Hv. destruct Hv as [Hn Hr].
  apply Nat.leb_le in Hn. apply valid_in_range in Hr. unfold kruskal_spec.
  destruct st; destruct sol as [t|]; destruct obj as [z|]; try discriminate.
  - apply andb_true_iff in H. destruct H as [H Hsame].
    apply andb_true_iff in H. destruct H as [H Hz].
    apply andb_true_iff in H. destruct H as [Hfc Hlen].
    destruct (forest_check_sound n edges t Hr Hfc) as (HF & Hf & Hrt).
    exists t. split; [reflexivity|]. split; [f_equal; apply Z.eqb_eq; exact Hz|].
    split; [exact HF|]. split; [apply Nat.eqb_eq; exact Hlen|].
    intros x y Hx Hy. apply (proj2 (proj2 HF)).
    apply (proj1 (all_same_seq n t Hn Hrt)); assumption.
  - apply andb_true_iff in H. destruct H as [H Hsame].
    apply andb_true_iff in H. destruct H as [H Hz].
    apply andb_true_iff in H. destruct H as [H Hlen].
    apply andb_true_iff in H. destruct H as [Haf Hfc].
    destruct (forest_check_sound n edges t Hr Hfc) as (HF & Hf & Hrt).
    split; [exact Haf|]. exists t. split; [reflexivity|]. split; [f_equal; apply Z.eqb_eq; exact Hz|].
    split; [exact HF|]. split; [apply Nat.ltb_lt; exact Hlen|]. split.
    + apply (num_classes_iff (connects t)); [intros x y; symmetry; apply (proj2 (proj2 HF))|].
      apply forest_classes; assumption.
    + intros Hc. assert (Hct : connected_graph n t).
      { intros x y Hx Hy. apply (proj2 (proj2 HF)). apply Hc; assumption. }
      apply (all_same_seq n t Hn Hrt) in Hct. rewrite Hct in Hsame. discriminate.
  - apply andb_true_iff in H. destruct H as [H1 H2].
    split; [destruct af; [discriminate|reflexivity]|]. split; [reflexivity|]. split; [reflexivity|].
    intros Hc. apply (all_same_seq n edges Hn Hr) in Hc. rewrite Hc in H2. discriminate.
Qed.

(* ---------------------------------------------------------------- prim_check *)
Lemma node_lt_bound : forall g s x, In x (s :: all_nodes g) -> x < bound g s.
Proof.
  intros g s x H. unfold bound.
  pose proof (proj1 (list_max_le (s :: all_nodes g) (list_max (s :: all_nodes g))) (Nat.le_refl _)) as F.
  rewrite Forall_forall in F. specialize (F x H). lia.
Qed.

Theorem prim_check_sound : forall g start o, prim_check g start o = true -> prim_spec g start o.
Proof.
  intros g start [[st sol] obj] H. unfold prim_check in H.
  apply andb_true_iff in H. destruct H as [H H3]. apply andb_true_iff in H. destruct H as [Hv Hsym].
  apply symmetricb_sound in Hsym. unfold prim_spec.
  destruct g as [|kn g'] eqn:Eg.
  - destruct st; destruct sol as [[|? ?]|]; destruct obj as [[| |]|]; try discriminate. auto.
  - rewrite <- Eg in *. assert (Hg : g <> []) by (rewrite Eg; discriminate).
    destruct (prim_start_node g start Hg Hv) as [Hnd Hs]. cbv zeta in *.
    set (s := prim_start g start) in *. set (N := bound g s) in *.
    assert (HrA : in_range N (arcs g)).
    { intros [[u v] w] He. destruct (arc_nodes g u v w He) as [K1 K2].
      split; apply node_lt_bound; right; assumption. }
    destruct st; destruct sol as [t|]; destruct obj as [z|]; try discriminate.
    + apply andb_true_iff in H3. destruct H3 as [H3 Hz].
      apply andb_true_iff in H3. destruct H3 as [H3 Hlen].
      apply andb_true_iff in H3. destruct H3 as [H3 H1].
      apply andb_true_iff in H3. destruct H3 as [H3 H2].
      pose proof (forallb_in_edges_incl _ _ H3) as Hin.
      assert (Hrt : in_range N t) by (intros e He; apply HrA, Hin, He).
      pose proof (forest_from_sound N t [] (seq 0 N) H2 (LInv_init N) Hrt if_nil) as Hf. cbn [app] in Hf.
      assert (Hconn : forall x, is_node g x -> connects t s x).
      { intros x Hx. apply joined_sym. apply (labels_ok N (pairs t) (in_range_pairs N t Hrt)).
        rewrite forallb_forall in H1. apply Nat.eqb_eq. apply H1. exact Hx. }
      exists t. split; [reflexivity|]. split; [f_equal; apply Z.eqb_eq; exact Hz|].
      split; [exact Hin|]. split; [apply incr_forest_acyclic; exact Hf|]. split; [exact Hconn|].
      split; [|split; [apply Nat.eqb_eq; exact Hlen|]].
      * intros x K. apply joined_endpoints in K. destruct K as [<-|[_ K]]; [exact Hs|].
        apply endpoint_pairs in K. destruct K as [[[u v] w] [He K]]. apply Hin in He.
        destruct (arc_nodes g u v w He) as [K1 K2]. cbn in K. destruct K; subst; assumption.
      * intros x Hx. exact (proj1 (connects_reach g Hsym _ _ (connects_mono _ _ _ _ Hin (Hconn x Hx)))).
    + split; [reflexivity|]. split; [reflexivity|].
      destruct (not_all_mem (all_nodes g)
                  (filter (fun x => lab (labels N (pairs (arcs g))) x =? lab (labels N (pairs (arcs g))) s) (all_nodes g)))
        as [x [Hx1 Hx2]].
      { intros K. apply negb_true_iff in H3. rewrite <- not_true_iff_false in H3. apply H3.
        apply forallb_forall. intros x Hx. apply K in Hx. apply filter_In in Hx. apply Hx. }
      exists x. split; [exact Hx1|]. intros Hr. apply Hx2. apply filter_In. split; [exact Hx1|].
      apply Nat.eqb_eq. apply (labels_ok N (pairs (arcs g)) (in_range_pairs N _ HrA)).
      apply joined_sym. apply reach_connects. exact Hr.
Qed.
