(* Model of solvor/mst.py: kruskal (lines 53-97, Python back-end) and prim (lines 100-149).
   Definitions only.  Node labels are nat (the harness numbers hashable labels by first occurrence),
   weights are Z (the harness feeds integers; the code only adds and compares them).
   kruskal uses the C20 model of UnionFind (SV.C20.UF); `sorted(edges, key=lambda e: e[2])` is the stable
   insertion sort by weight; prim's heap holds tuples (weight, counter, u, v) whose (weight, counter)
   prefixes are pairwise distinct, so heappop always returns the lexicographically least entry and the
   heap is modelled by a list kept sorted on (weight, counter). *)
From Coq Require Import List Arith ZArith Bool.
From SV Require Import Common.Corr C20.UF.
Import ListNotations.

Definition edge := (nat * nat * Z)%type.
Definition eu (e : edge) : nat := fst (fst e).
Definition ev (e : edge) : nat := snd (fst e).
Definition ew (e : edge) : Z := snd e.

Inductive status := OPTIMAL | FEASIBLE | INFEASIBLE.

(* Result(solution, objective, iterations, evaluations, status); objective None = float("inf") *)
Record result := {
  r_status : status;
  r_solution : option (list edge);
  r_objective : option Z;
  r_iterations : nat;
  r_evaluations : nat }.

(* outcome of a call: ValueError raised by the validators / a Result / model fuel exhausted *)
Inductive outcome := Raised | Done (r : result) | OutOfFuel.

(* ------------------------------------------------------------------ sorted(edges, key=e[2]) *)
Fixpoint insert_edge (e : edge) (l : list edge) : list edge :=
  match l with
  | [] => [e]
  | y :: t => if (ew e <=? ew y)%Z then e :: l else y :: insert_edge e t
  end.
Definition sort_edges (l : list edge) : list edge := fold_right insert_edge [] l.

(* ------------------------------------------------------------------ kruskal *)
(* check_positive(n_nodes); check_edge_nodes(edges, n_nodes) *)
Definition edge_in_range (n : nat) (e : edge) : bool := (eu e <? n) && (ev e <? n).
Definition kruskal_valid (n : nat) (edges : list edge) : bool :=
  (1 <=? n) && forallb (edge_in_range n) edges.

(* for u, v, w in sorted_edges: iterations += 1
       if uf.union(u, v): mst_edges.append((u, v, w)); total_weight += w
           if len(mst_edges) == n_nodes - 1: break
   returns (mst_edges, total_weight, iterations); None = union-find model out of fuel *)
Fixpoint kruskal_loop (n : nat) (u : uf) (es : list edge) (acc : list edge) (tot : Z) (iters : nat)
  : option (list edge * Z * nat) :=
  match es with
  | [] => Some (acc, tot, iters)
  | e :: rest =>
    match union u (eu e) (ev e) with
    | None => None
    | Some (u', true) =>
        let acc' := acc ++ [e] in
        if length acc' =? n - 1 then Some (acc', (tot + ew e)%Z, S iters)
        else kruskal_loop n u' rest acc' (tot + ew e)%Z (S iters)
    | Some (u', false) => kruskal_loop n u' rest acc tot (S iters)
    end
  end.

Definition kruskal_core (n : nat) (edges : list edge) : option (list edge * Z * nat) :=
  kruskal_loop n (uf_init n) (sort_edges edges) [] 0%Z 0.

Definition kruskal_result (n : nat) (edges : list edge) (allow_forest : bool)
  (core : list edge * Z * nat) : result :=
  let '(acc, tot, iters) := core in
  if length acc <? n - 1 then
    if allow_forest then
      {| r_status := FEASIBLE; r_solution := Some acc; r_objective := Some tot;
         r_iterations := iters; r_evaluations := length edges |}
    else
      {| r_status := INFEASIBLE; r_solution := None; r_objective := None;
         r_iterations := iters; r_evaluations := length edges |}
  else
    {| r_status := OPTIMAL; r_solution := Some acc; r_objective := Some tot;
       r_iterations := iters; r_evaluations := length edges |}.

Definition kruskal (n : nat) (edges : list edge) (allow_forest : bool) : outcome :=
  if kruskal_valid n edges then
    match kruskal_core n edges with
    | None => OutOfFuel
    | Some core => Done (kruskal_result n edges allow_forest core)
    end
  else Raised.

(* ------------------------------------------------------------------ prim *)
(* graph: dict node -> iterable of (neighbor, weight), as insertion-ordered association list *)
Definition graph := list (nat * list (nat * Z)).

Fixpoint lookup (g : graph) (v : nat) : list (nat * Z) :=
  match g with
  | [] => []
  | (k, ns) :: t => if k =? v then ns else lookup t v
  end.

Definition mem (x : nat) (s : list nat) : bool := existsb (Nat.eqb x) s.
Definition add_set (x : nat) (s : list nat) : list nat := if mem x s then s else x :: s.

(* nodes = set(graph.keys()); for neighbors in graph.values(): for neighbor, _ in neighbors: nodes.add(neighbor) *)
Definition all_nodes (g : graph) : list nat :=
  fold_left (fun s kn => fold_left (fun s' nw => add_set (fst nw) s') (snd kn) s) g
            (fold_left (fun s kn => add_set (fst kn) s) g []).

(* heap entries (weight, counter, u, v) *)
Definition hentry := (Z * nat * nat * nat)%type.
Definition h_w (h : hentry) : Z := fst (fst (fst h)).
Definition h_c (h : hentry) : nat := snd (fst (fst h)).
Definition h_u (h : hentry) : nat := snd (fst h).
Definition h_v (h : hentry) : nat := snd h.
Definition h_lt (a b : hentry) : bool :=
  (h_w a <? h_w b)%Z || ((h_w a =? h_w b)%Z && (h_c a <? h_c b)).
Fixpoint heap_push (e : hentry) (h : list hentry) : list hentry :=
  match h with
  | [] => [e]
  | y :: t => if h_lt e y then e :: h else y :: heap_push e t
  end.

Record pstate := {
  p_in : list nat;            (* in_mst *)
  p_acc : list edge;          (* mst_edges *)
  p_tot : Z;
  p_counter : nat;
  p_heap : list hentry;
  p_iters : nat;
  p_evals : nat }.

(* for neighbor, w in graph.get(v, []): if [always | neighbor not in in_mst]: heappush(...); counter += 1; evaluations += 1 *)
Fixpoint push_all (filter_in : bool) (v : nat) (ns : list (nat * Z)) (s : pstate) : pstate :=
  match ns with
  | [] => s
  | (nb, w) :: rest =>
      if filter_in && mem nb (p_in s) then push_all filter_in v rest s
      else push_all filter_in v rest
             {| p_in := p_in s; p_acc := p_acc s; p_tot := p_tot s; p_counter := S (p_counter s);
                p_heap := heap_push (w, p_counter s, v, nb) (p_heap s);
                p_iters := p_iters s; p_evals := S (p_evals s) |}
  end.

(* while heap and len(in_mst) < len(nodes): ... *)
Fixpoint prim_loop (fuel : nat) (g : graph) (nn : nat) (s : pstate) : option pstate :=
  match fuel with
  | 0 => None
  | S f =>
    match p_heap s with
    | [] => Some s
    | h :: heap' =>
      if length (p_in s) <? nn then
        let s1 := {| p_in := p_in s; p_acc := p_acc s; p_tot := p_tot s; p_counter := p_counter s;
                     p_heap := heap'; p_iters := S (p_iters s); p_evals := p_evals s |} in
        if mem (h_v h) (p_in s) then prim_loop f g nn s1
        else
          let s2 := {| p_in := h_v h :: p_in s; p_acc := p_acc s ++ [(h_u h, h_v h, h_w h)];
                       p_tot := (p_tot s + h_w h)%Z; p_counter := p_counter s;
                       p_heap := heap'; p_iters := S (p_iters s); p_evals := p_evals s |} in
          prim_loop f g nn (push_all true (h_v h) (lookup g (h_v h)) s2)
      else Some s
    end
  end.

Definition total_entries (g : graph) : nat := fold_right (fun kn a => length (snd kn) + a) 0 g.
Definition prim_fuel (g : graph) : nat := S (S (total_entries g)).

Definition prim_init (g : graph) (start : nat) : pstate :=
  push_all false start (lookup g start)
    {| p_in := [start]; p_acc := []; p_tot := 0%Z; p_counter := 0; p_heap := [];
       p_iters := 0; p_evals := 0 |}.

Definition prim_start (g : graph) (start : option nat) : nat :=
  match start with
  | Some s => s
  | None => match g with (k, _) :: _ => k | [] => 0 end
  end.

Definition prim_core (g : graph) (start : option nat) : option pstate :=
  prim_loop (prim_fuel g) g (length (all_nodes g)) (prim_init g (prim_start g start)).

Definition prim_result (g : graph) (s : pstate) : result :=
  if length (p_in s) <? length (all_nodes g) then
    {| r_status := INFEASIBLE; r_solution := None; r_objective := None;
       r_iterations := p_iters s; r_evaluations := p_evals s |}
  else
    {| r_status := OPTIMAL; r_solution := Some (p_acc s); r_objective := Some (p_tot s);
       r_iterations := p_iters s; r_evaluations := p_evals s |}.

Definition prim (g : graph) (start : option nat) : outcome :=
  match g with
  | [] => Done {| r_status := OPTIMAL; r_solution := Some []; r_objective := Some 0%Z;
                  r_iterations := 0; r_evaluations := 0 |}
  | _ =>
    match prim_core g start with
    | None => OutOfFuel
    | Some s => Done (prim_result g s)
    end
  end.

(* ------------------------------------------------------------------ observable comparison *)
Definition edge_eqb (a b : edge) : bool :=
  (eu a =? eu b) && (ev a =? ev b) && (ew a =? ew b)%Z.
Definition status_eqb (a b : status) : bool :=
  match a, b with
  | OPTIMAL, OPTIMAL | FEASIBLE, FEASIBLE | INFEASIBLE, INFEASIBLE => true
  | _, _ => false
  end.

(* public observable: status, solution (exact list), objective *)
Definition obs := (status * option (list edge) * option Z)%type.
Inductive obs_outcome := ORaised | ODone (o : obs) (iters evals : nat) | OFail.

Definition obs_of (o : outcome) : obs_outcome :=
  match o with
  | Raised => ORaised
  | Done r => ODone (r_status r, r_solution r, r_objective r) (r_iterations r) (r_evaluations r)
  | OutOfFuel => OFail
  end.

Definition obs_eqb (a b : obs) : bool :=
  let '(sa, la, oa) := a in let '(sb, lb, ob) := b in
  status_eqb sa sb && option_eqb (list_eqb edge_eqb) la lb && option_eqb Z.eqb oa ob.

(* `strict` additionally compares the counters (iterations, evaluations) *)
Definition outcome_eqb (strict : bool) (a b : obs_outcome) : bool :=
  match a, b with
  | ORaised, ORaised => true
  | ODone x i e, ODone y j f => obs_eqb x y && (negb strict || ((i =? j) && (e =? f)))
  | _, _ => false
  end.
