(* Graph lemmas over UFSpec.joined used by the C13 proofs: adding one pair, end points, class counting,
   and "built edge by edge between different classes" implies "every edge is a bridge" (acyclic). *)
From Coq Require Import List Arith ZArith Bool Lia Relations.
From SV Require Import C20.UFSpec C20.UFUnion C20.UFCount C13.Mst C13.MstSpec.
Import ListNotations.

(* ---------------------------------------------------------------- adding one pair *)
Definition cls (ps : list (nat * nat)) (a b z : nat) : Prop := joined ps z a \/ joined ps z b.

Lemma joined_app_l : forall ps qs x y, joined ps x y -> joined (ps ++ qs) x y.
Proof. intros ps qs x y H. eapply joined_mono; [|exact H]. apply incl_appl, incl_refl. Qed.

Lemma joined_add : forall ps a b x y,
  joined (ps ++ [(a, b)]) x y <-> joined ps x y \/ (cls ps a b x /\ cls ps a b y).
Proof.
  intros ps a b x y. split.
  - intros H. induction H as [x y Hxy|x|x y H IH|x y z H1 IH1 H2 IH2].
    + apply in_app_or in Hxy. destruct Hxy as [Hxy|[Hxy|[]]].
      * left. apply rst_step. exact Hxy.
      * inversion Hxy; subst. right. split; [left|right]; apply joined_refl.
    + left. apply joined_refl.
    + destruct IH as [IH|[IHa IHb]]; [left; apply joined_sym; exact IH|right; split; assumption].
    + destruct IH1 as [J1|[Cx Cy]]; destruct IH2 as [J2|[Cy' Cz]].
      * left. eapply joined_trans; eassumption.
      * right. split; [|exact Cz].
        destruct Cy' as [K|K]; [left|right]; eapply joined_trans; eassumption.
      * right. split; [exact Cx|].
        destruct Cy as [K|K]; [left|right]; (eapply joined_trans; [apply joined_sym; exact J2|exact K]).
      * right. split; assumption.
  - intros [H|[Cx Cy]].
    + apply joined_app_l. exact H.
    + assert (Hab : joined (ps ++ [(a, b)]) a b).
      { apply rst_step, in_or_app. right. left. reflexivity. }
      pose proof (joined_sym _ _ _ Hab) as Hba.
      assert (M : forall u v, joined ps u v -> joined (ps ++ [(a, b)]) u v).
      { intros u v K. apply joined_app_l. exact K. }
      destruct Cx as [Kx|Kx]; destruct Cy as [Ky|Ky];
        apply M in Kx; apply M in Ky; apply joined_sym in Ky.
      * eapply joined_trans; eassumption.
      * eapply joined_trans; [exact Kx|]. eapply joined_trans; eassumption.
      * eapply joined_trans; [exact Kx|]. eapply joined_trans; eassumption.
      * eapply joined_trans; eassumption.
Qed.

Lemma joined_add_congr : forall ps qs a b,
  (forall x y, joined ps x y <-> joined qs x y) ->
  forall x y, joined (ps ++ [(a, b)]) x y <-> joined (qs ++ [(a, b)]) x y.
Proof.
  intros ps qs a b E x y. rewrite !joined_add. unfold cls.
  pose proof (E x y). pose proof (E x a). pose proof (E x b). pose proof (E y a). pose proof (E y b).
  tauto.
Qed.

Lemma joined_incl_eq : forall ps qs, incl ps qs -> incl qs ps ->
  forall x y, joined ps x y <-> joined qs x y.
Proof. intros ps qs H1 H2 x y. split; apply joined_mono; assumption. Qed.

(* ---------------------------------------------------------------- end points *)
Definition endpoint (ps : list (nat * nat)) (x : nat) : Prop :=
  exists p, In p ps /\ (x = fst p \/ x = snd p).

Lemma joined_endpoints : forall ps x y, joined ps x y -> x = y \/ (endpoint ps x /\ endpoint ps y).
Proof.
  intros ps x y H. induction H as [x y Hxy|x|x y H IH|x y z H1 IH1 H2 IH2].
  - right. split; exists (x, y); (split; [exact Hxy|]); [left|right]; reflexivity.
  - left. reflexivity.
  - destruct IH as [IH|[Ha Hb]]; [left; congruence|right; split; assumption].
  - destruct IH1 as [E1|[Ha Hb]]; [subst; exact IH2|].
    destruct IH2 as [E2|[Hc Hd]]; [subst; right; split; assumption|].
    right. split; assumption.
Qed.

(* ---------------------------------------------------------------- counting classes *)
Lemma num_classes_one : forall ps n, num_classes n (joined ps) 1 ->
  forall x y, x < n -> y < n -> joined ps x y.
Proof.
  intros ps n (reps & Hnd & HL & Hlt & Hcov & Hsep) x y Hx Hy.
  destruct reps as [|r [|r' rest]]; try discriminate.
  destruct (Hcov x Hx) as [r1 [[E1|[]] J1]]. destruct (Hcov y Hy) as [r2 [[E2|[]] J2]]. subst.
  eapply joined_trans; [exact J1|apply joined_sym; exact J2].
Qed.

Lemma num_classes_ge2 : forall ps n c x y, num_classes n (joined ps) c ->
  x < n -> y < n -> ~ joined ps x y -> 2 <= c.
Proof.
  intros ps n c x y (reps & Hnd & HL & Hlt & Hcov & Hsep) Hx Hy Hn.
  destruct (Hcov x Hx) as [r1 [I1 J1]]. destruct (Hcov y Hy) as [r2 [I2 J2]].
  assert (Hne : r1 <> r2).
  { intros E. subst. apply Hn. eapply joined_trans; [exact J1|apply joined_sym; exact J2]. }
  subst c. destruct reps as [|a [|b rest]]; cbn in *.
  - contradiction.
  - destruct I1 as [I1|[]]; destruct I2 as [I2|[]]; congruence.
  - lia.
Qed.

Lemma num_classes_ge1 : forall (R : nat -> nat -> Prop) n c, num_classes n R c -> 1 <= n -> 1 <= c.
Proof.
  intros R n c (reps & Hnd & HL & Hlt & Hcov & Hsep) Hn.
  destruct (Hcov 0 Hn) as [r [I _]]. subst c. destruct reps; [contradiction|cbn; lia].
Qed.

Lemma num_classes_connected : forall ps n, 1 <= n ->
  (forall x y, x < n -> y < n -> joined ps x y) -> num_classes n (joined ps) 1.
Proof.
  intros ps n Hn Hc. exists [0]. split; [repeat constructor; intros []|]. split; [reflexivity|].
  split; [intros r [<-|[]]; exact Hn|]. split.
  - intros x Hx. exists 0. split; [left; reflexivity|apply Hc; [exact Hx|exact Hn]].
  - intros r r' [<-|[]] [<-|[]] _. reflexivity.
Qed.

Lemma num_classes_iff : forall (R R' : nat -> nat -> Prop) n c,
  (forall x y, R x y <-> R' x y) -> num_classes n R c -> num_classes n R' c.
Proof.
  intros R R' n c E (reps & Hnd & HL & Hlt & Hcov & Hsep).
  exists reps. split; [exact Hnd|]. split; [exact HL|]. split; [exact Hlt|]. split.
  - intros x Hx. destruct (Hcov x Hx) as [r [I J]]. exists r. split; [exact I|apply E; exact J].
  - intros r r' I I' J. apply Hsep; [exact I|exact I'|apply E; exact J].
Qed.

(* ---------------------------------------------------------------- pairs / weight / connects *)
Lemma pairs_app : forall a b, pairs (a ++ b) = pairs a ++ pairs b.
Proof. intros. unfold pairs. apply map_app. Qed.

Lemma pairs_snoc : forall a e, pairs (a ++ [e]) = pairs a ++ [(eu e, ev e)].
Proof. intros a [[x y] w]. rewrite pairs_app. reflexivity. Qed.

Lemma weight_app : forall a b, (weight (a ++ b) = weight a + weight b)%Z.
Proof.
  induction a as [|x a IH]; intros b; cbn; [reflexivity|].
  unfold weight in *. cbn. rewrite IH. lia.
Qed.

Lemma weight_snoc : forall a e, (weight (a ++ [e]) = weight a + ew e)%Z.
Proof. intros. rewrite weight_app. unfold weight. cbn. lia. Qed.

Lemma pairs_incl : forall a b, incl a b -> incl (pairs a) (pairs b).
Proof. intros a b H p Hp. unfold pairs in *. apply in_map_iff in Hp. destruct Hp as [e [<- He]]. apply in_map, H, He. Qed.

Lemma connects_mono : forall a b x y, incl a b -> connects a x y -> connects b x y.
Proof. intros a b x y H. apply joined_mono, pairs_incl, H. Qed.

Lemma connects_edge : forall es e, In e es -> connects es (eu e) (ev e).
Proof.
  intros es [[x y] w] H. apply rst_step. unfold pairs, eu, ev. cbn [fst snd].
  change (x, y) with (fst (x, y, w)). apply in_map. exact H.
Qed.

(* ---------------------------------------------------------------- forests built edge by edge *)
Inductive incr_forest : list edge -> Prop :=
| if_nil : incr_forest []
| if_snoc : forall acc e, incr_forest acc -> ~ connects acc (eu e) (ev e) -> incr_forest (acc ++ [e]).

Lemma list_last_cases : forall {A} (l : list A), l = [] \/ exists l' x, l = l' ++ [x].
Proof.
  intros A l. destruct l as [|a l]; [left; reflexivity|right].
  destruct (exists_last (l := a :: l)) as [l' [x E]]; [discriminate|]. exists l', x. exact E.
Qed.

Theorem incr_forest_acyclic : forall t, incr_forest t -> acyclic t.
Proof.
  intros t H. induction H as [|acc e H IH Hn].
  - intros l1 e l2 E. destruct l1; discriminate.
  - intros l1 e' l2 E.
    destruct (list_last_cases l2) as [->|[l2' [x ->]]].
    + apply app_inj_tail in E. destruct E as [-> ->]. rewrite app_nil_r. exact Hn.
    + rewrite app_comm_cons, app_assoc in E. apply app_inj_tail in E. destruct E as [-> ->].
      specialize (IH l1 e' l2' eq_refl).
      rewrite app_assoc. unfold connects. rewrite pairs_snoc, joined_add.
      intros [K|[Ca Cb]]; [exact (IH K)|].
      assert (He' : connects (l1 ++ e' :: l2') (eu e') (ev e')).
      { apply connects_edge. apply in_or_app. right. left. reflexivity. }
      assert (M : forall u v, connects (l1 ++ l2') u v -> connects (l1 ++ e' :: l2') u v).
      { intros u v. apply connects_mono. intros z Hz. apply in_app_or in Hz.
        apply in_or_app. destruct Hz; [left|right; right]; assumption. }
      apply Hn. unfold cls in Ca, Cb. fold (connects (l1 ++ l2')) in Ca, Cb.
      destruct Ca as [Ka|Ka]; destruct Cb as [Kb|Kb].
      * exfalso. apply IH. eapply joined_trans; [exact Ka|apply joined_sym; exact Kb].
      * apply M in Ka. apply M in Kb.
        eapply joined_trans; [apply joined_sym; exact Ka|]. eapply joined_trans; [exact He'|exact Kb].
      * apply M in Ka. apply M in Kb.
        eapply joined_trans; [apply joined_sym; exact Kb|].
        eapply joined_trans; [apply joined_sym; exact He'|exact Ka].
      * exfalso. apply IH. eapply joined_trans; [exact Ka|apply joined_sym; exact Kb].
Qed.
