(* Specification of C13 (minimum spanning trees / forests) and the boolean checkers that judge an
   implementation output inside coqc.  Definitions only; the soundness lemmas are in MstSpecProofs.v.
   Graphs are undirected multigraphs given by edge lists (u, v, w); connectivity is UFSpec.joined on the
   endpoint pairs (reflexive-symmetric-transitive closure), so direction of an edge never matters. *)
From Coq Require Import List Arith ZArith Bool Relations.
From SV Require Import Common.Corr C20.UFSpec C13.Mst.
Import ListNotations.

Definition pairs (es : list edge) : list (nat * nat) := map (@fst (nat * nat) Z) es.
Definition connects (es : list edge) (x y : nat) : Prop := joined (pairs es) x y.
Definition weight (es : list edge) : Z := fold_right Z.add 0%Z (map ew es).

(* forest: every edge (occurrence) is a bridge - its end points are not connected by the other edges.
   Excludes self loops, parallel edges and repeated occurrences. *)
Definition acyclic (es : list edge) : Prop :=
  forall l1 e l2, es = l1 ++ e :: l2 -> ~ connects (l1 ++ l2) (eu e) (ev e).

(* t is a spanning forest of the multigraph es: made of edges of es, acyclic (hence duplicate-free, so
   multiplicities of es are respected), and connecting exactly what es connects *)
Definition spanning_forest (es t : list edge) : Prop :=
  incl t es /\ acyclic t /\ forall x y, connects es x y <-> connects t x y.

Definition connected_graph (n : nat) (es : list edge) : Prop :=
  forall x y, x < n -> y < n -> connects es x y.

Definition minimum (es t : list edge) : Prop :=
  forall t', spanning_forest es t' -> (weight t <= weight t')%Z.

(* ---------------------------------------------------------------- kruskal *)
(* structural part (proved for the model, checked on implementation outputs) *)
Definition kruskal_spec (n : nat) (edges : list edge) (allow_forest : bool) (o : obs) : Prop :=
  let '(st, sol, obj) := o in
  match st with
  | OPTIMAL => exists t, sol = Some t /\ obj = Some (weight t) /\ spanning_forest edges t /\
                         length t = n - 1 /\ connected_graph n edges
  | FEASIBLE => allow_forest = true /\
                exists t, sol = Some t /\ obj = Some (weight t) /\ spanning_forest edges t /\
                          length t < n - 1 /\ num_classes n (connects edges) (n - length t) /\
                          ~ connected_graph n edges
  | INFEASIBLE => allow_forest = false /\ sol = None /\ obj = None /\ ~ connected_graph n edges
  end.

(* with minimality *)
Definition kruskal_spec_min (n : nat) (edges : list edge) (allow_forest : bool) (o : obs) : Prop :=
  kruskal_spec n edges allow_forest o /\
  forall t, snd (fst o) = Some t -> minimum edges t.

(* ---------------------------------------------------------------- prim *)
Definition arcs (g : graph) : list edge :=
  flat_map (fun kn => map (fun nw => (fst kn, fst nw, snd nw)) (snd kn)) g.
Definition keys (g : graph) : list nat := map (@fst nat (list (nat * Z))) g.
Definition is_node (g : graph) (x : nat) : Prop := In x (all_nodes g).
(* undirected graph given as adjacency dict: every arc is listed from both ends *)
Definition symmetric (g : graph) : Prop := forall u v w, In (u, v, w) (arcs g) -> In (v, u, w) (arcs g).
(* directed reachability along the adjacency lists (what prim explores) *)
Definition reach (g : graph) : nat -> nat -> Prop :=
  clos_refl_trans nat (fun a b => exists w, In (a, b, w) (arcs g)).

Definition prim_spec (g : graph) (start : option nat) (o : obs) : Prop :=
  let '(st, sol, obj) := o in
  match g with
  | [] => st = OPTIMAL /\ sol = Some [] /\ obj = Some 0%Z
  | _ =>
    let s := prim_start g start in
    match st with
    | OPTIMAL => exists t, sol = Some t /\ obj = Some (weight t) /\
                   incl t (arcs g) /\ acyclic t /\
                   (forall x, is_node g x -> connects t s x) /\
                   (forall x, connects t s x -> is_node g x) /\
                   length t = length (all_nodes g) - 1 /\
                   (forall x, is_node g x -> reach g s x)
    | INFEASIBLE => sol = None /\ obj = None /\ exists x, is_node g x /\ ~ reach g s x
    | FEASIBLE => False
    end
  end.

(* ---------------------------------------------------------------- boolean checkers *)
(* naive label array: ls[x] = class label of node x; nodes outside the array are their own class *)
Definition lab (ls : list nat) (x : nat) : nat := nth x ls x.
Definition merge (ls : list nat) (a b : nat) : list nat :=
  let la := lab ls a in let lb := lab ls b in
  map (fun l => if l =? lb then la else l) ls.
Definition labels_from (ls : list nat) (ps : list (nat * nat)) : list nat :=
  fold_left (fun ls p => merge ls (fst p) (snd p)) ps ls.
Definition labels (n : nat) (ps : list (nat * nat)) : list nat := labels_from (seq 0 n) ps.

(* every edge joins two classes that were different before it (incremental forest test) *)
Fixpoint forest_from (ls : list nat) (es : list edge) : bool :=
  match es with
  | [] => true
  | e :: r => negb (lab ls (eu e) =? lab ls (ev e)) && forest_from (merge ls (eu e) (ev e)) r
  end.

Definition in_edges (es : list edge) (e : edge) : bool := existsb (edge_eqb e) es.
Definition all_same (ls : list nat) (xs : list nat) : bool :=
  match xs with [] => true | x0 :: _ => forallb (fun x => lab ls x =? lab ls x0) xs end.

Definition forest_check (n : nat) (edges t : list edge) : bool :=
  forallb (in_edges edges) t && forest_from (seq 0 n) t &&
  (let ls := labels n (pairs t) in forallb (fun e => lab ls (eu e) =? lab ls (ev e)) edges).

Definition kruskal_check (n : nat) (edges : list edge) (allow_forest : bool) (o : obs) : bool :=
  let '(st, sol, obj) := o in
  kruskal_valid n edges &&
  match st, sol, obj with
  | OPTIMAL, Some t, Some z =>
      forest_check n edges t && (length t =? n - 1) && (z =? weight t)%Z &&
      all_same (labels n (pairs t)) (seq 0 n)
  | FEASIBLE, Some t, Some z =>
      allow_forest && forest_check n edges t && (length t <? n - 1) && (z =? weight t)%Z &&
      negb (all_same (labels n (pairs t)) (seq 0 n))
  | INFEASIBLE, None, None =>
      negb allow_forest && negb (all_same (labels n (pairs edges)) (seq 0 n))
  | _, _, _ => false
  end.

(* brute-force minimality: every sub-list of the input that is a spanning forest weighs at least z *)
Fixpoint sublists {A} (l : list A) : list (list A) :=
  match l with
  | [] => [[]]
  | x :: r => let s := sublists r in map (cons x) s ++ s
  end.
Definition kruskal_min_check (n : nat) (edges : list edge) (o : obs) : bool :=
  let '(st, sol, obj) := o in
  match sol with
  | Some t =>
      let ls := labels n (pairs edges) in
      forallb (fun t' =>
                 if forest_from (seq 0 n) t' &&
                    (let ls' := labels n (pairs t') in
                     forallb (fun e => lab ls' (eu e) =? lab ls' (ev e)) edges)
                 then (weight t <=? weight t')%Z else true) (sublists edges)
  | None => true
  end.

(* prim: arcs are input arcs, tree spans the nodes from start; graph must be a symmetric adjacency dict *)
Definition nodupb (l : list nat) : bool :=
  (fix go (l : list nat) := match l with [] => true | x :: r => negb (mem x r) && go r end) l.
Definition symmetricb (g : graph) : bool :=
  let a := arcs g in forallb (fun e => in_edges a (ev e, eu e, ew e)) a.
Definition bound (g : graph) (s : nat) : nat := S (list_max (s :: all_nodes g)).
Definition prim_valid (g : graph) (start : option nat) : bool :=
  nodupb (keys g) &&
  match g, start with
  | [], _ => true
  | _, None => true
  | _, Some s => mem s (all_nodes g)
  end.

Definition prim_check (g : graph) (start : option nat) (o : obs) : bool :=
  let '(st, sol, obj) := o in
  prim_valid g start && symmetricb g &&
  match g with
  | [] => match st, sol, obj with OPTIMAL, Some [], Some 0%Z => true | _, _, _ => false end
  | _ =>
    let s := prim_start g start in
    let N := bound g s in
    match st, sol, obj with
    | OPTIMAL, Some t, Some z =>
        forallb (in_edges (arcs g)) t && forest_from (seq 0 N) t &&
        (let ls := labels N (pairs t) in forallb (fun x => lab ls x =? lab ls s) (all_nodes g)) &&
        (length t =? length (all_nodes g) - 1) && (z =? weight t)%Z
    | INFEASIBLE, None, None =>
        let ls := labels N (pairs (arcs g)) in
        negb (forallb (fun x => lab ls x =? lab ls s) (all_nodes g))
    | _, _, _ => false
    end
  end.
