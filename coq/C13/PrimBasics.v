(* C13, prim: basic facts about the containers of the model (node set, lookup, arcs, heap pushes). *)
From Coq Require Import List Arith ZArith Bool Lia Relations.
From SV Require Import C13.Mst C13.MstSpec.
Import ListNotations.

(* ---------------------------------------------------------------- mem / add_set / all_nodes *)
Lemma mem_In : forall x s, mem x s = true <-> In x s.
Proof.
  intros x s. unfold mem. rewrite existsb_exists. split.
  - intros [y [Hy E]]. apply Nat.eqb_eq in E. subst. exact Hy.
  - intros H. exists x. split; [exact H|apply Nat.eqb_refl].
Qed.

Lemma mem_false : forall x s, mem x s = false <-> ~ In x s.
Proof.
  intros x s. split.
  - intros H K. apply mem_In in K. congruence.
  - intros H. destruct (mem x s) eqn:E; [|reflexivity]. exfalso. apply H, mem_In, E.
Qed.

Lemma In_add_set : forall x y s, In x (add_set y s) <-> x = y \/ In x s.
Proof.
  intros x y s. unfold add_set. destruct (mem y s) eqn:E.
  - apply mem_In in E. split; [intros H; right; exact H|intros [->|H]; assumption].
  - cbn. split; intros [H|H]; auto.
Qed.

Lemma NoDup_add_set : forall y s, NoDup s -> NoDup (add_set y s).
Proof.
  intros y s H. unfold add_set. destruct (mem y s) eqn:E; [exact H|].
  constructor; [apply mem_false; exact E|exact H].
Qed.

Lemma fold_add_set : forall {A} (f : A -> nat) (l : list A) s,
  (NoDup s -> NoDup (fold_left (fun s a => add_set (f a) s) l s)) /\
  (forall x, In x (fold_left (fun s a => add_set (f a) s) l s) <-> In x s \/ In x (map f l)).
Proof.
  intros A f l. induction l as [|a l IH]; intros s; cbn.
  - split; [auto|]. intros x. tauto.
  - destruct (IH (add_set (f a) s)) as [IH1 IH2]. split.
    + intros H. apply IH1. apply NoDup_add_set. exact H.
    + intros x. rewrite IH2, In_add_set. split.
      * intros [[H|H]|H]; [right; left; symmetry; exact H|left; exact H|right; right; exact H].
      * intros [H|[H|H]]; [left; right; exact H|left; left; symmetry; exact H|right; exact H].
Qed.

Definition heads (g : graph) : list nat := map (@fst nat Z) (concat (map (@snd nat (list (nat * Z))) g)).

Lemma fold_nbrs : forall (g : graph) s,
  (NoDup s -> NoDup (fold_left (fun s kn => fold_left (fun s' nw => add_set (fst nw) s') (snd kn) s) g s)) /\
  (forall x, In x (fold_left (fun s kn => fold_left (fun s' nw => add_set (fst nw) s') (snd kn) s) g s)
             <-> In x s \/ In x (heads g)).
Proof.
  induction g as [|[k ns] g IH]; intros s; cbn.
  - split; [auto|]. intros x. unfold heads. cbn. tauto.
  - destruct (fold_add_set (@fst nat Z) ns s) as [F1 F2].
    destruct (IH (fold_left (fun s' nw => add_set (fst nw) s') ns s)) as [IH1 IH2]. split.
    + intros H. apply IH1, F1, H.
    + intros x. rewrite IH2, F2. unfold heads. cbn. rewrite map_app, in_app_iff. tauto.
Qed.

Lemma all_nodes_NoDup : forall g, NoDup (all_nodes g).
Proof.
  intros g. unfold all_nodes. apply fold_nbrs.
  apply (fold_add_set (@fst nat (list (nat * Z))) g []). constructor.
Qed.

Lemma In_all_nodes : forall g x, In x (all_nodes g) <-> In x (keys g) \/ In x (heads g).
Proof.
  intros g x. unfold all_nodes. rewrite (proj2 (fold_nbrs g _)).
  rewrite (proj2 (fold_add_set (@fst nat (list (nat * Z))) g [])). cbn. unfold keys. tauto.
Qed.

(* ---------------------------------------------------------------- arcs / lookup *)
Lemma In_arcs : forall g u v w, In (u, v, w) (arcs g) <-> exists ns, In (u, ns) g /\ In (v, w) ns.
Proof.
  intros g u v w. unfold arcs. rewrite in_flat_map. split.
  - intros [[k ns] [Hk Hin]]. cbn in Hin. apply in_map_iff in Hin.
    destruct Hin as [[v' w'] [E Hin]]. cbn in E. inversion E; subst. exists ns. split; assumption.
  - intros [ns [Hk Hin]]. exists (u, ns). split; [exact Hk|]. cbn. apply in_map_iff.
    exists (v, w). split; [reflexivity|exact Hin].
Qed.

Lemma arc_nodes : forall g u v w, In (u, v, w) (arcs g) -> In u (all_nodes g) /\ In v (all_nodes g).
Proof.
  intros g u v w H. apply In_arcs in H. destruct H as [ns [Hk Hin]]. rewrite !In_all_nodes. split.
  - left. unfold keys. change u with (fst (u, ns)). apply in_map. exact Hk.
  - right. unfold heads. change v with (fst (v, w)). apply in_map. apply in_concat.
    exists ns. split; [|exact Hin]. change ns with (snd (u, ns)). apply in_map. exact Hk.
Qed.

Lemma lookup_arcs : forall g u v w, In (v, w) (lookup g u) -> In (u, v, w) (arcs g).
Proof.
  induction g as [|[k ns] g IH]; intros u v w H; cbn in H; [contradiction|].
  apply In_arcs. destruct (k =? u) eqn:E.
  - apply Nat.eqb_eq in E. subst. exists ns. split; [left; reflexivity|exact H].
  - apply IH in H. apply In_arcs in H. destruct H as [ns' [H1 H2]]. exists ns'. split; [right; exact H1|exact H2].
Qed.

Lemma lookup_NoDup : forall g u ns, NoDup (keys g) -> In (u, ns) g -> lookup g u = ns.
Proof.
  induction g as [|[k ns'] g IH]; intros u ns Hnd H; [contradiction|].
  cbn in Hnd. inversion Hnd as [|a l Hnin Hnd']; subst. cbn. destruct H as [H|H].
  - inversion H; subst. rewrite Nat.eqb_refl. reflexivity.
  - destruct (k =? u) eqn:E; [|apply IH; assumption].
    apply Nat.eqb_eq in E. subst. exfalso. apply Hnin. unfold keys.
    change u with (fst (u, ns)). apply in_map. exact H.
Qed.

Lemma arcs_lookup : forall g u v w, NoDup (keys g) -> In (u, v, w) (arcs g) -> In (v, w) (lookup g u).
Proof.
  intros g u v w Hnd H. apply In_arcs in H. destruct H as [ns [H1 H2]].
  rewrite (lookup_NoDup g u ns Hnd H1). exact H2.
Qed.

Lemma nodupb_NoDup : forall l, nodupb l = true -> NoDup l.
Proof.
  induction l as [|x r IH]; intros H; [constructor|].
  cbn in H. apply andb_true_iff in H. destruct H as [H1 H2].
  constructor; [apply mem_false; destruct (mem x r); [discriminate|reflexivity]|apply IH; exact H2].
Qed.

(* ---------------------------------------------------------------- termination measure *)
Fixpoint rem (g : graph) (ins : list nat) : nat :=
  match g with
  | [] => 0
  | (k, ns) :: t => (if mem k ins then 0 else length ns) + rem t ins
  end.

Lemma rem_nil : forall g, rem g [] = total_entries g.
Proof. induction g as [|[k ns] g IH]; cbn; [reflexivity|]. rewrite IH. reflexivity. Qed.

Lemma mem_cons : forall k v ins, mem k (v :: ins) = (k =? v) || mem k ins.
Proof. reflexivity. Qed.

Lemma rem_mono : forall g v ins, rem g (v :: ins) <= rem g ins.
Proof.
  induction g as [|[k ns] g IH]; intros v ins; cbn [rem]; [lia|].
  specialize (IH v ins). rewrite mem_cons. destruct (k =? v); destruct (mem k ins); cbn; lia.
Qed.

Lemma rem_step : forall g v ins, mem v ins = false ->
  rem g (v :: ins) + length (lookup g v) <= rem g ins.
Proof.
  induction g as [|[k ns] g IH]; intros v ins Hm; cbn [rem lookup]; [cbn; lia|].
  rewrite mem_cons. destruct (k =? v) eqn:E.
  - apply Nat.eqb_eq in E. subst. rewrite Hm. cbn. pose proof (rem_mono g v ins). lia.
  - specialize (IH v ins Hm). cbn. destruct (mem k ins); lia.
Qed.

(* ---------------------------------------------------------------- heap pushes *)
Lemma In_heap_push : forall e h x, In x (heap_push e h) <-> x = e \/ In x h.
Proof.
  intros e h x. induction h as [|y t IH]; cbn.
  - split; [intros [H|[]]; left; congruence|intros [H|[]]; left; congruence].
  - destruct (h_lt e y); cbn.
    + split; [intros [H|H]; [left; congruence|right; exact H]|intros [H|H]; [left; congruence|right; exact H]].
    + rewrite IH. split.
      * intros [H|[H|H]]; [right; left; exact H|left; exact H|right; right; exact H].
      * intros [H|[H|H]]; [right; left; exact H|left; exact H|right; right; exact H].
Qed.

Lemma length_heap_push : forall e h, length (heap_push e h) = S (length h).
Proof.
  intros e h. induction h as [|y t IH]; cbn; [reflexivity|].
  destruct (h_lt e y); cbn; [reflexivity|]. rewrite IH. reflexivity.
Qed.

Lemma push_all_spec : forall flt v ns s,
  let s' := push_all flt v ns s in
  p_in s' = p_in s /\ p_acc s' = p_acc s /\ p_tot s' = p_tot s /\
  (forall h, In h (p_heap s) -> In h (p_heap s')) /\
  (forall h, In h (p_heap s') -> In h (p_heap s) \/ (h_u h = v /\ In (h_v h, h_w h) ns)) /\
  (forall nb w, In (nb, w) ns ->
     (flt = true /\ In nb (p_in s)) \/ exists c, In (w, c, v, nb) (p_heap s')) /\
  length (p_heap s') <= length (p_heap s) + length ns.
Proof.
  intros flt v ns. induction ns as [|[nb w] rest IH]; intros s; cbn [push_all].
  - cbn. repeat split; auto; [intros nb w []|lia].
  - destruct (flt && mem nb (p_in s)) eqn:E.
    + destruct (IH s) as (I1 & I2 & I3 & I4 & I5 & I6 & I7). cbv zeta.
      split; [exact I1|]. split; [exact I2|]. split; [exact I3|]. split; [exact I4|]. split; [|split].
      * intros h Hh. destruct (I5 h Hh) as [K|[K1 K2]]; [left; exact K|right; split; [exact K1|right; exact K2]].
      * intros nb' w' [K|K].
        -- inversion K; subst. left. apply andb_true_iff in E. destruct E as [E1 E2].
           split; [exact E1|apply mem_In; exact E2].
        -- apply I6. exact K.
      * cbn [length]. lia.
    + match goal with |- context [push_all flt v rest ?s1] => destruct (IH s1) as (I1 & I2 & I3 & I4 & I5 & I6 & I7) end.
      cbn [p_in p_acc p_tot p_heap] in *. cbv zeta.
      split; [exact I1|]. split; [exact I2|]. split; [exact I3|]. split; [|split; [|split]].
      * intros h Hh. apply I4. apply In_heap_push. right. exact Hh.
      * intros h Hh. destruct (I5 h Hh) as [K|[K1 K2]].
        -- apply In_heap_push in K. destruct K as [K|K]; [|left; exact K].
           subst h. right. split; [reflexivity|left; reflexivity].
        -- right. split; [exact K1|right; exact K2].
      * intros nb' w' [K|K].
        -- inversion K; subst. right. exists (p_counter s). apply I4. apply In_heap_push. left. reflexivity.
        -- destruct (I6 nb' w' K) as [[K1 K2]|K2]; [left; split; assumption|right; exact K2].
      * rewrite length_heap_push in I7. cbn [length]. lia.
Qed.
