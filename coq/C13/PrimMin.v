(* C13, prim: on an undirected (symmetric) adjacency dict the returned tree has minimum total weight.
   Invariant: the heap is sorted by weight and the tree grown so far is contained in some minimum spanning
   forest (which exists: kruskal's result); each step trades a crossing edge of that forest for the popped edge. *)
From Coq Require Import List Arith ZArith Bool Lia Relations Permutation.
From SV Require Import C20.UFSpec C20.UFUnion.
From SV Require Import C13.Mst C13.MstSpec C13.GraphLemmas C13.ForestCount C13.Greedy C13.PrimBasics C13.PrimProofs
  C13.MstSpecProofs C13.KruskalProofs C13.KruskalMin C13.AgreeProofs.
Import ListNotations.

(* ---------------------------------------------------------------- heap order *)
Fixpoint wsorted (h : list hentry) : Prop :=
  match h with
  | [] => True
  | x :: r => (forall y, In y r -> (h_w x <= h_w y)%Z) /\ wsorted r
  end.

Lemma wsorted_push : forall e h, wsorted h -> wsorted (heap_push e h).
Proof.
  intros e h. induction h as [|y t IH]; intros H; cbn.
  - split; [intros x []|exact I].
  - destruct H as [Hy Ht]. unfold h_lt.
    destruct ((h_w e <? h_w y)%Z || (h_w e =? h_w y)%Z && (h_c e <? h_c y)) eqn:E.
    + assert (Hle : (h_w e <= h_w y)%Z).
      { apply orb_true_iff in E. destruct E as [E|E]; [apply Z.ltb_lt in E; lia|].
        apply andb_true_iff in E. destruct E as [E _]. apply Z.eqb_eq in E. lia. }
      split; [|split; assumption]. intros x [<-|Hx]; [exact Hle|]. specialize (Hy x Hx). lia.
    + assert (Hle : (h_w y <= h_w e)%Z).
      { apply orb_false_iff in E. destruct E as [E _]. apply Z.ltb_ge in E. exact E. }
      split; [|apply IH; exact Ht].
      intros x Hx. apply In_heap_push in Hx. destruct Hx as [->|Hx]; [exact Hle|apply Hy; exact Hx].
Qed.

Lemma wsorted_push_all : forall flt v ns s, wsorted (p_heap s) -> wsorted (p_heap (push_all flt v ns s)).
Proof.
  intros flt v ns. induction ns as [|[nb w] rest IH]; intros s H; cbn [push_all]; [exact H|].
  destruct (flt && mem nb (p_in s)); [apply IH; exact H|].
  apply IH. cbn [p_heap]. apply wsorted_push. exact H.
Qed.

(* ---------------------------------------------------------------- small list facts *)
Lemma filter_perm : forall {A} (f : A -> bool) l,
  Permutation l (filter (fun x => negb (f x)) l ++ filter f l).
Proof.
  intros A f l. induction l as [|a l IH]; cbn; [constructor|].
  destruct (f a); cbn; [apply Permutation_cons_app; exact IH|constructor; exact IH].
Qed.

Lemma weight_perm : forall a b, Permutation a b -> weight a = weight b.
Proof.
  intros a b H. unfold weight. induction H; cbn; try lia.
Qed.

(* a set of non-crossing edges never connects the inside of S with the outside *)
Definition crossing (S : list nat) (e : edge) : bool := xorb (mem (eu e) S) (mem (ev e) S).

Lemma noncross_closed : forall S L, (forall e, In e L -> crossing S e = false) ->
  forall x y, connects L x y -> mem x S = mem y S.
Proof.
  intros S L H x y K. induction K as [a b Hab|a|a b K IH|a b c K1 IH1 K2 IH2]; try congruence.
  unfold pairs in Hab. apply in_map_iff in Hab. destruct Hab as [[[a' b'] w] [E He]].
  cbn in E. inversion E; subst. specialize (H _ He). unfold crossing in H. cbn in H.
  destruct (mem a S); destruct (mem b S); try reflexivity; discriminate.
Qed.

(* ---------------------------------------------------------------- the extra invariant *)
Definition PM (g : graph) (s : pstate) : Prop :=
  wsorted (p_heap s) /\
  exists F, spanning_forest (arcs g) (p_acc s ++ F) /\ minimum (arcs g) (p_acc s ++ F).

Lemma arcs_in_range : forall g, in_range (bound g 0) (arcs g).
Proof.
  intros g [[u v] w] He. destruct (arc_nodes g u v w He) as [K1 K2].
  split; apply node_lt_bound; right; assumption.
Qed.

Lemma PM_skip : forall g start s h heap', PI g start s -> PM g s -> p_heap s = h :: heap' ->
  mem (h_v h) (p_in s) = true -> PM g (skip_state s heap').
Proof.
  intros g start s h heap' _ [Hw HF] Eh _. split; [|exact HF].
  cbn [skip_state p_heap]. rewrite Eh in Hw. apply Hw.
Qed.

Lemma PM_take : forall g start s h heap', symmetric g -> PI g start s -> PM g s -> p_heap s = h :: heap' ->
  mem (h_v h) (p_in s) = false -> PM g (take_state g s h heap').
Proof.
  intros g start s h heap' Hsym HP [Hw (F & HSF & Hmin)] Eh Em.
  destruct HP as (P1 & P2 & P3 & P4 & P5 & P6 & P7 & P8 & P9 & P10 & P11 & P12).
  rewrite Eh in P8, P11, Hw. destruct Hw as [Hhd Hw].
  unfold take_state.
  match goal with |- PM g (push_all true ?v ?ns ?s2) =>
    destruct (push_all_spec true v ns s2) as (E1 & E2 & E3 & _); pose proof (wsorted_push_all true v ns s2) as Hws end.
  cbv zeta in *. cbn [p_heap p_acc] in *. split; [apply Hws; exact Hw|]. rewrite E2. clear E1 E2 E3 Hws.
  destruct (P8 h (or_introl eq_refl)) as [Harc Hu].
  set (e := (h_u h, h_v h, h_w h)) in *. set (acc := p_acc s) in *. set (S := p_in s) in *.
  destruct HSF as (Hin & Hac & Hconn).
  set (Fin := filter (fun x => negb (crossing S x)) F). set (FS := filter (crossing S) F).
  assert (HPF : Permutation F (Fin ++ FS)) by apply filter_perm.
  assert (HP1 : Permutation (acc ++ F) ((acc ++ Fin) ++ FS)).
  { rewrite <- app_assoc. apply Permutation_app_head. exact HPF. }
  assert (Hin1 : incl ((acc ++ Fin) ++ FS) (arcs g)).
  { intros z Hz. apply Hin. apply (Permutation_in z (Permutation_sym HP1)). exact Hz. }
  assert (Hr1 : in_range (bound g 0) ((acc ++ Fin) ++ FS)).
  { intros z Hz. apply arcs_in_range, Hin1, Hz. }
  assert (Hac1 : acyclic ((acc ++ Fin) ++ FS)) by (eapply acyclic_perm; [exact HP1|exact Hac]).
  assert (Hnc : ~ connects (acc ++ Fin) (eu e) (ev e)).
  { intros K. apply (noncross_closed S) in K.
    - cbn in K. rewrite Em in K. rewrite (proj2 (mem_In _ _) Hu) in K. discriminate.
    - intros z Hz. apply in_app_or in Hz. destruct Hz as [Hz|Hz].
      + destruct (P5 z Hz) as [K1 K2]. unfold crossing.
        rewrite (proj2 (mem_In _ _) K1), (proj2 (mem_In _ _) K2). reflexivity.
      + apply filter_In in Hz. destruct Hz as [_ Hz]. apply negb_true_iff in Hz. exact Hz. }
  assert (Hce : connects ((acc ++ Fin) ++ FS) (eu e) (ev e)).
  { eapply connects_mono; [intros z Hz; apply (Permutation_in z HP1); exact Hz|].
    apply Hconn. apply connects_edge. exact Harc. }
  destruct (exchange (bound g 0) (acc ++ Fin) e FS Hr1 Hac1 Hnc Hce) as (F1 & f & F2 & EF & HA & HC).
  assert (HfFS : In f FS) by (rewrite EF; apply in_or_app; right; left; reflexivity).
  pose proof HfFS as HfF. apply filter_In in HfF. destruct HfF as [HfF Hcross].
  assert (Hfa : In f (arcs g)) by (apply Hin, in_or_app; right; exact HfF).
  assert (Hwf : (h_w h <= ew f)%Z).
  { destruct f as [[c d] wf]. unfold crossing in Hcross. cbn in Hcross. cbn [ew snd].
    assert (G : forall c d, In (c, d, wf) (arcs g) -> mem c S = true -> mem d S = false -> (h_w h <= wf)%Z).
    { intros c' d' Ha' Hc' Hd'. apply mem_In in Hc'.
      destruct (P11 c' d' wf Hc' Ha') as [K|[c0 [K|K]]].
      - apply mem_In in K. congruence.
      - subst h. cbn. lia.
      - specialize (Hhd _ K). cbn in Hhd. exact Hhd. }
    destruct (mem c S) eqn:Ec; destruct (mem d S) eqn:Ed; try discriminate.
    - apply (G c d); assumption.
    - apply (G d c); [apply Hsym; exact Hfa|assumption|assumption]. }
  exists (Fin ++ F1 ++ F2).
  assert (HP2 : Permutation ((acc ++ Fin) ++ F1 ++ F2 ++ [e]) ((acc ++ [e]) ++ Fin ++ F1 ++ F2)).
  { rewrite <- !app_assoc. apply Permutation_app_head.
    replace (Fin ++ F1 ++ F2 ++ [e]) with ((Fin ++ F1 ++ F2) ++ [e]) by (rewrite <- !app_assoc; reflexivity).
    apply Permutation_sym. apply (Permutation_cons_append (Fin ++ F1 ++ F2) e). }
  assert (Hsub : incl (F1 ++ F2) F).
  { intros z Hz. assert (K : In z FS).
    { rewrite EF. apply in_app_or in Hz. apply in_or_app. destruct Hz; [left|right; right]; assumption. }
    apply filter_In in K. apply K. }
  assert (HSF' : spanning_forest (arcs g) ((acc ++ [e]) ++ Fin ++ F1 ++ F2)).
  { split; [|split].
    - intros z Hz. apply in_app_or in Hz. destruct Hz as [Hz|Hz].
      + apply in_app_or in Hz. destruct Hz as [Hz|[<-|[]]]; [apply P7; exact Hz|exact Harc].
      + apply Hin. apply in_or_app. right. apply in_app_or in Hz. destruct Hz as [Hz|Hz].
        * apply filter_In in Hz. apply Hz.
        * apply Hsub. exact Hz.
    - eapply acyclic_perm; [exact HP2|exact HA].
    - intros x y. rewrite (Hconn x y).
      assert (E1 : connects (acc ++ F) x y <-> connects ((acc ++ Fin) ++ FS) x y).
      { split; apply connects_mono; intros z Hz;
          [apply (Permutation_in z HP1)|apply (Permutation_in z (Permutation_sym HP1))]; exact Hz. }
      rewrite E1, (HC x y).
      split; apply connects_mono; intros z Hz;
        [apply (Permutation_in z HP2)|apply (Permutation_in z (Permutation_sym HP2))]; exact Hz. }
  split; [exact HSF'|].
  intros t' Ht'. specialize (Hmin t' Ht').
  assert (W1 : weight (acc ++ F) = (weight acc + weight Fin + weight F1 + ew f + weight F2)%Z).
  { rewrite (weight_perm _ _ HP1), EF. rewrite (weight_app (acc ++ Fin)), weight_split, !weight_app. lia. }
  assert (W2 : weight ((acc ++ [e]) ++ Fin ++ F1 ++ F2) = (weight acc + h_w h + weight Fin + weight F1 + weight F2)%Z).
  { rewrite (weight_app (acc ++ [e])), weight_snoc, !weight_app. unfold e, ew. cbn [snd]. lia. }
  lia.
Qed.

(* ---------------------------------------------------------------- initial state: a minimum forest exists *)
Lemma min_forest_exists : forall g, exists F, spanning_forest (arcs g) F /\ minimum (arcs g) F.
Proof.
  intros g. assert (Hv : kruskal_valid (bound g 0) (arcs g) = true).
  { unfold kruskal_valid. apply andb_true_iff. split; [apply Nat.leb_le; unfold bound; lia|].
    apply forallb_forall. intros e He. destruct (arcs_in_range g e He) as [K1 K2].
    unfold edge_in_range. apply andb_true_iff. split; apply Nat.ltb_lt; assumption. }
  destruct (kruskal_core_forest _ _ Hv) as (acc & tot & it & Hk & HSF & _).
  exists acc. split; [exact HSF|]. eapply kruskal_min; eassumption.
Qed.

Theorem prim_min : forall g start r t, prim_valid g start = true -> symmetricb g = true ->
  prim g start = Done r -> r_solution r = Some t -> minimum (arcs g) t.
Proof.
  intros g start r t Hv Hsym Hr Ht. apply symmetricb_sound in Hsym.
  destruct g as [|kn g'] eqn:Eg.
  - cbn in Hr. inversion Hr; subst r. cbn in Ht. inversion Ht; subst t.
    intros t' (Hi & _ & _). destruct t' as [|x t']; [cbn; lia|]. destruct (Hi x (or_introl eq_refl)).
  - rewrite <- Eg in *. assert (Hg : g <> []) by (rewrite Eg; discriminate).
    destruct (prim_start_node g start Hg Hv) as [Hnd Hs].
    destruct (prim_init_PI g (prim_start g start) Hnd Hs) as [HP0 Hm0].
    assert (HQ0 : PM g (prim_init g (prim_start g start))).
    { unfold prim_init.
      match goal with |- PM g (push_all false ?v ?ns ?s0) =>
        destruct (push_all_spec false v ns s0) as (_ & E2 & _); pose proof (wsorted_push_all false v ns s0 I) as Hws end.
      cbv zeta in *. split; [exact Hws|]. rewrite E2. cbn [p_acc app]. apply min_forest_exists. }
    destruct (prim_loop_ok_gen g (prim_start g start) (PM g) Hnd
                (PM_skip g (prim_start g start)) (fun s h heap' => PM_take g (prim_start g start) s h heap' Hsym)
                (prim_fuel g) _ HP0 HQ0) as (s' & Hl & HP & (_ & F & HSF & Hmin) & Hexit).
    { unfold prim_fuel. lia. }
    assert (Hprim : prim g start = Done (prim_result g s')).
    { unfold prim, prim_core. rewrite Hl. rewrite Eg. reflexivity. }
    rewrite Hprim in Hr. inversion Hr; subst r. clear Hr.
    unfold prim_result in Ht.
    destruct (length (p_in s') <? length (all_nodes g)) eqn:El; cbn in Ht; [discriminate|].
    inversion Ht; subst t. clear Ht. apply Nat.ltb_ge in El.
    destruct HP as (P1 & P2 & P3 & P4 & P5 & P6 & P7 & P8 & P9 & P10 & P11 & P12).
    assert (Hall : incl (all_nodes g) (p_in s')) by (apply NoDup_length_incl; assumption).
    destruct F as [|f F]; [rewrite app_nil_r in Hmin; exact Hmin|exfalso].
    destruct HSF as (Hin & Hac & _).
    apply (Hac (p_acc s') f F eq_refl).
    assert (Hfa : In f (arcs g)) by (apply Hin, in_or_app; right; left; reflexivity).
    destruct f as [[c d] w]. destruct (arc_nodes g c d w Hfa) as [K1 K2].
    eapply connects_mono; [apply incl_appl, incl_refl|]. cbn.
    eapply joined_trans; [apply joined_sym, P4, Hall, K1|apply P4, Hall, K2].
Qed.

(* ---------------------------------------------------------------- kruskal and prim agree *)
Lemma sf_transfer : forall a b x, incl a b -> incl b a -> spanning_forest a x -> spanning_forest b x.
Proof.
  intros a b x Hab Hba (Hi & Ha & Hc). split; [intros z Hz; apply Hab, Hi, Hz|]. split; [exact Ha|].
  intros u v. rewrite <- (Hc u v). split; apply connects_mono; assumption.
Qed.

(* same undirected graph given as edge list (kruskal) and as symmetric adjacency dict (prim): same objective *)
Theorem agree : forall g start r t n edges acc tot iters,
  prim_valid g start = true -> symmetricb g = true -> g <> [] ->
  prim g start = Done r -> r_solution r = Some t ->
  incl edges (arcs g) -> incl (arcs g) edges ->
  kruskal_valid n edges = true -> kruskal_core n edges = Some (acc, tot, iters) ->
  r_objective r = Some tot /\ tot = weight acc /\ tot = weight t.
Proof.
  intros g start r t n edges acc tot iters Hv Hsym Hg Hr Ht H1 H2 Hkv Hk.
  destruct (prim_solution_spanning g start r t Hv Hg Hr Ht) as (_ & Ho & Hsf).
  pose proof (prim_min g start r t Hv Hsym Hr Ht) as Hpm.
  pose proof (kruskal_min n edges acc tot iters Hkv Hk) as Hkm.
  destruct (kruskal_core_forest n edges Hkv) as (acc' & tot' & it' & Hk' & HSF & _ & Htot & _).
  rewrite Hk in Hk'. inversion Hk'; subst acc' it'. clear Hk'.
  assert (L1 : (weight acc <= weight t)%Z) by (apply Hkm; apply (sf_transfer (arcs g)); assumption).
  assert (L2 : (weight t <= weight acc)%Z) by (apply Hpm; apply (sf_transfer edges); assumption).
  assert (E : tot = weight acc) by congruence.
  split; [rewrite Ho; f_equal; lia|split; [lia|lia]].
Qed.
