(* A forest with k edges on n nodes has n - k classes; acyclic (every edge a bridge) = built edge by edge. *)
From Coq Require Import List Arith ZArith Bool Lia Relations.
From SV Require Import C20.UFSpec C20.UFUnion C20.UFCount C13.Mst C13.MstSpec C13.GraphLemmas.
Import ListNotations.

Definition in_range (n : nat) (es : list edge) : Prop := forall e, In e es -> eu e < n /\ ev e < n.

Lemma length_remove_NoDup : forall (l : list nat) x, NoDup l -> In x l ->
  S (length (remove Nat.eq_dec x l)) = length l.
Proof.
  induction l as [|a l IH]; intros x Hnd Hin; [contradiction|].
  inversion Hnd as [|a' l' Hnin Hnd']; subst. cbn. destruct (Nat.eq_dec x a) as [E|E].
  - subst. rewrite notin_remove; [reflexivity|exact Hnin].
  - cbn. rewrite IH; [reflexivity|exact Hnd'|]. destruct Hin as [H|H]; [congruence|exact H].
Qed.

Lemma NoDup_remove_nat : forall (l : list nat) x, NoDup l -> NoDup (remove Nat.eq_dec x l).
Proof.
  induction l as [|a l IH]; intros x Hnd; [constructor|].
  inversion Hnd as [|a' l' Hnin Hnd']; subst. cbn. destruct (Nat.eq_dec x a); [apply IH; exact Hnd'|].
  constructor; [|apply IH; exact Hnd']. intros K. apply in_remove in K. apply Hnin, K.
Qed.

(* adding an edge between two different classes removes exactly one class *)
Lemma num_classes_add : forall n ps a b c, a < n -> b < n -> ~ joined ps a b ->
  num_classes n (joined ps) c -> num_classes n (joined (ps ++ [(a, b)])) (c - 1) /\ 1 <= c.
Proof.
  intros n ps a b c Ha Hb Hn (reps & Hnd & HL & Hlt & Hcov & Hsep).
  destruct (Hcov a Ha) as [ra [Ira Ja]]. destruct (Hcov b Hb) as [rb [Irb Jb]].
  assert (Hne : ra <> rb).
  { intros E. subst. apply Hn. eapply joined_trans; [exact Ja|apply joined_sym; exact Jb]. }
  pose proof (length_remove_NoDup reps rb Hnd Irb) as Hlen.
  split; [|lia].
  exists (remove Nat.eq_dec rb reps). split; [apply NoDup_remove_nat; exact Hnd|]. split; [lia|].
  split; [intros r Hr; apply in_remove in Hr; apply Hlt, Hr|]. split.
  - intros x Hx. destruct (Hcov x Hx) as [r [Ir Jr]]. destruct (Nat.eq_dec r rb) as [E|E].
    + subst r. exists ra. split; [apply in_in_remove; [exact Hne|exact Ira]|].
      apply joined_add. right. split; [right|left].
      * eapply joined_trans; [exact Jr|apply joined_sym; exact Jb].
      * apply joined_sym. exact Ja.
    + exists r. split; [apply in_in_remove; assumption|apply joined_app_l; exact Jr].
  - intros r r' Hr Hr' J. apply in_remove in Hr. apply in_remove in Hr'.
    destruct Hr as [Hr Hrn]. destruct Hr' as [Hr' Hrn'].
    assert (Hcls : forall z, In z reps -> z <> rb -> cls ps a b z -> z = ra).
    { intros z Hz Hzn [K|K].
      - apply Hsep; [exact Hz|exact Ira|]. eapply joined_trans; [exact K|exact Ja].
      - exfalso. apply Hzn. apply Hsep; [exact Hz|exact Irb|]. eapply joined_trans; [exact K|exact Jb]. }
    apply joined_add in J. destruct J as [J|[C1 C2]].
    + apply Hsep; assumption.
    + rewrite (Hcls r Hr Hrn C1), (Hcls r' Hr' Hrn' C2). reflexivity.
Qed.

Lemma num_classes_nil : forall n, num_classes n (joined []) n.
Proof.
  intros n. exists (seq 0 n). split; [apply seq_NoDup|]. split; [apply seq_length|].
  split; [intros r Hr; apply in_seq in Hr; lia|]. split.
  - intros x Hx. exists x. split; [apply in_seq; lia|apply joined_refl].
  - intros r r' _ _ J. apply joined_nil in J. exact J.
Qed.

Theorem forest_classes : forall n t, incr_forest t -> in_range n t ->
  num_classes n (connects t) (n - length t) /\ length t <= n.
Proof.
  intros n t H. induction H as [|acc e H IH Hn]; intros Hr.
  - cbn. rewrite Nat.sub_0_r. split; [apply num_classes_nil|lia].
  - assert (Hra : in_range n acc). { intros e' He'. apply Hr, in_or_app. left. exact He'. }
    destruct (Hr e) as [Ha Hb]; [apply in_or_app; right; left; reflexivity|].
    destruct (IH Hra) as [IH1 IH2].
    destruct (num_classes_add n (pairs acc) (eu e) (ev e) _ Ha Hb Hn IH1) as [K1 K2].
    unfold connects. rewrite pairs_snoc, app_length. cbn [length].
    replace (n - (length acc + 1)) with (n - length acc - 1) by lia. split; [exact K1|lia].
Qed.

(* ---------------------------------------------------------------- acyclic <-> incr_forest *)
Lemma acyclic_prefix : forall acc e, acyclic (acc ++ [e]) -> acyclic acc /\ ~ connects acc (eu e) (ev e).
Proof.
  intros acc e H. split.
  - intros l1 e' l2 E K. subst acc. apply (H l1 e' (l2 ++ [e])).
    + rewrite <- app_assoc. reflexivity.
    + rewrite app_assoc. eapply connects_mono; [|exact K]. apply incl_appl, incl_refl.
  - intros K. apply (H acc e []); [reflexivity|]. rewrite app_nil_r. exact K.
Qed.

Theorem acyclic_incr_forest : forall t, acyclic t -> incr_forest t.
Proof.
  intros t. induction t as [|e acc IH] using rev_ind; intros H; [constructor|].
  destruct (acyclic_prefix acc e H) as [H1 H2]. apply if_snoc; [apply IH; exact H1|exact H2].
Qed.

Corollary acyclic_classes : forall n t, acyclic t -> in_range n t ->
  num_classes n (connects t) (n - length t) /\ length t <= n.
Proof. intros n t H. apply forest_classes, acyclic_incr_forest, H. Qed.
