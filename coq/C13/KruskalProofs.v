(* C13, kruskal: the accepted edges are a spanning forest of the input (structure, count, status,
   objective).  Uses the C20 refinement theorem for UnionFind (SInv / union_ok / count_ok). *)
From Coq Require Import List Arith ZArith Bool Lia Relations.
From SV Require Import C20.UF C20.UFSpec C20.UFUnion C20.UFCount C20.UFProofs.
From SV Require Import C13.Mst C13.MstSpec C13.GraphLemmas C13.ForestCount C13.Greedy.
Import ListNotations.

Lemma union_count : forall u x y u' b, union u x y = Some (u', b) ->
  count u' = if b then count u - 1 else count u.
Proof.
  intros u x y u' b H. unfold union in H.
  destruct (find (fuel_of u) (parent u) x) as [[p1 rx]|]; [|discriminate].
  destruct (find (fuel_of u) p1 y) as [[p2 ry]|]; [|discriminate].
  destruct (rx =? ry).
  - inversion H; subst; reflexivity.
  - destruct (nth rx (rank u) 0 <? nth ry (rank u) 0); inversion H; subst; reflexivity.
Qed.

(* joined is decidable on states reachable by the union-find (via UF.connected) *)
Lemma SInv_joined_dec : forall n pre u x y, SInv n pre u -> x < n -> y < n ->
  joined pre x y \/ ~ joined pre x y.
Proof.
  intros n pre u x y HS Hx Hy.
  destruct (connected_ok n pre u x y HS Hx Hy) as (u' & b & _ & Hb & _).
  destruct b; [left; apply Hb; reflexivity|right; intros K; apply Hb in K; discriminate].
Qed.

(* ---------------------------------------------------------------- sorted(edges, key=weight) *)
Lemma In_insert_edge : forall e l x, In x (insert_edge e l) <-> x = e \/ In x l.
Proof.
  intros e l x. induction l as [|y t IH]; cbn.
  - split; [intros [H|[]]; left; congruence|intros [H|[]]; left; congruence].
  - destruct (ew e <=? ew y)%Z; cbn.
    + split; [intros [H|H]; [left; congruence|right; exact H]|intros [H|H]; [left; congruence|right; exact H]].
    + rewrite IH. split.
      * intros [H|[H|H]]; [right; left; exact H|left; exact H|right; right; exact H].
      * intros [H|[H|H]]; [right; left; exact H|left; exact H|right; right; exact H].
Qed.

Lemma In_sort_edges : forall l x, In x (sort_edges l) <-> In x l.
Proof.
  induction l as [|e l IH]; intros x; cbn; [tauto|].
  rewrite In_insert_edge, IH. split; intros [H|H]; auto.
Qed.

Lemma length_insert_edge : forall e l, length (insert_edge e l) = S (length l).
Proof.
  intros e l. induction l as [|y t IHt]; cbn; [reflexivity|].
  destruct (ew e <=? ew y)%Z; cbn; [reflexivity|]. rewrite IHt. reflexivity.
Qed.

Lemma length_sort_edges : forall l, length (sort_edges l) = length l.
Proof.
  induction l as [|e l IH]; [reflexivity|].
  change (sort_edges (e :: l)) with (insert_edge e (sort_edges l)).
  rewrite length_insert_edge, IH. reflexivity.
Qed.

(* ---------------------------------------------------------------- the loop *)
Definition kinv (n : nat) (done acc : list edge) (u : uf) (tot : Z) : Prop :=
  SInv n (pairs done) u /\
  (forall x y, connects done x y <-> connects acc x y) /\
  incr_forest acc /\ tot = weight acc /\ count u + length acc = n /\ incl acc done.

Lemma kruskal_loop_ok : forall n es done acc u tot iters,
  1 <= n -> forallb (edge_in_range n) es = true -> kinv n done acc u tot ->
  exists acc' tot' iters' done' u',
    kruskal_loop n u es acc tot iters = Some (acc', tot', iters') /\
    kinv n done' acc' u' tot' /\ incl done' (done ++ es) /\
    (incl (done ++ es) done' \/ length acc' = n - 1) /\
    iters' <= iters + length es /\ greedy acc es acc'.
Proof.
  intros n es. induction es as [|e rest IH]; intros done acc u tot iters Hn Hr HI.
  - exists acc, tot, iters, done, u. rewrite app_nil_r. cbn.
    split; [reflexivity|]. split; [exact HI|]. split; [apply incl_refl|]. split; [left; apply incl_refl|].
    split; [lia|constructor].
  - cbn [forallb] in Hr. apply andb_true_iff in Hr. destruct Hr as [He Hr].
    unfold edge_in_range in He. apply andb_true_iff in He. destruct He as [Hx Hy].
    apply Nat.ltb_lt in Hx. apply Nat.ltb_lt in Hy.
    destruct HI as (HS & Heq & Hf & Ht & Hc & Hi).
    destruct (union_ok n (pairs done) u (eu e) (ev e) HS Hx Hy) as (u' & b & Hu & Hb & HS').
    pose proof (union_count _ _ _ _ _ Hu) as Hcnt.
    cbn [kruskal_loop]. rewrite Hu. rewrite <- pairs_snoc in HS'.
    assert (Hsub : incl (done ++ [e]) (done ++ e :: rest)).
    { intros z Hz. apply in_app_or in Hz. apply in_or_app.
      destruct Hz as [Hz|[Hz|[]]]; [left; exact Hz|right; left; exact Hz]. }
    destruct b.
    + (* accepted *)
      assert (Hnj : ~ joined (pairs done) (eu e) (ev e)) by (apply Hb; reflexivity).
      pose proof (num_classes_ge2 _ _ _ _ _ (count_ok _ _ _ HS) Hx Hy Hnj) as Hge.
      assert (HI' : kinv n (done ++ [e]) (acc ++ [e]) u' (tot + ew e)%Z).
      { split; [exact HS'|]. split; [|split; [|split; [|split]]].
        - intros x y. unfold connects. rewrite !pairs_snoc. apply joined_add_congr. exact Heq.
        - apply if_snoc; [exact Hf|]. intros K. apply Hnj. apply Heq. exact K.
        - rewrite weight_snoc, Ht. reflexivity.
        - rewrite app_length. cbn. lia.
        - apply incl_app; [apply incl_appl; exact Hi|apply incl_appr, incl_refl]. }
      destruct (length (acc ++ [e]) =? n - 1) eqn:El.
      * apply Nat.eqb_eq in El.
        exists (acc ++ [e]), (tot + ew e)%Z, (S iters), (done ++ [e]), u'.
        split; [reflexivity|]. split; [exact HI'|]. split; [exact Hsub|]. split; [right; exact El|].
        split; [cbn; lia|]. apply gr_take; [intros K; apply Hnj, Heq, K|].
        apply greedy_all_connected. intros e' He'.
        destruct HI' as (HS2 & Heq2 & _ & _ & Hc2 & _).
        assert (Hone : num_classes n (joined (pairs (done ++ [e]))) 1).
        { replace 1 with (count u') by lia. apply count_ok. exact HS2. }
        rewrite forallb_forall in Hr. specialize (Hr e' He'). unfold edge_in_range in Hr.
        apply andb_true_iff in Hr. destruct Hr as [Hx' Hy']. apply Nat.ltb_lt in Hx'. apply Nat.ltb_lt in Hy'.
        apply Heq2. apply (num_classes_one _ _ Hone); assumption.
      * destruct (IH (done ++ [e]) (acc ++ [e]) u' (tot + ew e)%Z (S iters) Hn Hr HI')
          as (acc' & tot' & iters' & done' & u'' & Hk & HI'' & Hin & Hfin & Hit & Hgr).
        rewrite <- app_assoc in Hin, Hfin. cbn [app] in Hin, Hfin.
        exists acc', tot', iters', done', u''.
        split; [exact Hk|]. split; [exact HI''|]. split; [exact Hin|]. split; [exact Hfin|].
        split; [cbn; lia|]. apply gr_take; [intros K; apply Hnj, Heq, K|exact Hgr].
    + (* rejected: the end points were already connected *)
      assert (Hj : joined (pairs done) (eu e) (ev e)).
      { destruct (SInv_joined_dec n _ u _ _ HS Hx Hy) as [K|K]; [exact K|].
        apply Hb in K. discriminate. }
      assert (HI' : kinv n (done ++ [e]) acc u' tot).
      { split; [exact HS'|]. split; [|split; [|split; [|split]]].
        - intros x y. unfold connects. rewrite pairs_snoc.
          rewrite (joined_add_redundant (pairs done) (eu e) (ev e) Hj x y). apply Heq.
        - exact Hf.
        - exact Ht.
        - lia.
        - apply incl_appl. exact Hi. }
      destruct (IH (done ++ [e]) acc u' tot (S iters) Hn Hr HI')
        as (acc' & tot' & iters' & done' & u'' & Hk & HI'' & Hin & Hfin & Hit & Hgr).
      rewrite <- app_assoc in Hin, Hfin. cbn [app] in Hin, Hfin.
      exists acc', tot', iters', done', u''.
      split; [exact Hk|]. split; [exact HI''|]. split; [exact Hin|]. split; [exact Hfin|].
      split; [cbn; lia|]. apply gr_skip; [apply Heq; exact Hj|exact Hgr].
Qed.

(* ---------------------------------------------------------------- kruskal_core *)
Lemma valid_endpoint_lt : forall n edges x,
  forallb (edge_in_range n) edges = true -> endpoint (pairs edges) x -> x < n.
Proof.
  intros n edges x Hr [p [Hp Hx]]. unfold pairs in Hp. apply in_map_iff in Hp.
  destruct Hp as [e [<- He]]. rewrite forallb_forall in Hr. specialize (Hr e He).
  unfold edge_in_range in Hr. apply andb_true_iff in Hr. destruct Hr as [H1 H2].
  apply Nat.ltb_lt in H1. apply Nat.ltb_lt in H2. unfold eu, ev in *. destruct Hx; subst; assumption.
Qed.

Theorem kruskal_core_forest : forall n edges, kruskal_valid n edges = true ->
  exists acc tot iters,
    kruskal_core n edges = Some (acc, tot, iters) /\
    spanning_forest edges acc /\ incr_forest acc /\ tot = weight acc /\
    num_classes n (connects edges) (n - length acc) /\ length acc <= n - 1 /\
    iters <= length edges /\ greedy [] (sort_edges edges) acc.
Proof.
  intros n edges Hv. unfold kruskal_valid in Hv. apply andb_true_iff in Hv. destruct Hv as [Hn Hr].
  apply Nat.leb_le in Hn.
  assert (Hrs : forallb (edge_in_range n) (sort_edges edges) = true).
  { apply forallb_forall. intros e He. apply (proj1 (In_sort_edges _ _)) in He.
    rewrite forallb_forall in Hr. apply Hr. exact He. }
  assert (HI0 : kinv n [] [] (uf_init n) 0%Z).
  { split; [apply init_SInv|]. split; [intros; reflexivity|]. split; [constructor|].
    split; [reflexivity|]. split; [cbn; lia|apply incl_refl]. }
  destruct (kruskal_loop_ok n (sort_edges edges) [] [] (uf_init n) 0%Z 0 Hn Hrs HI0)
    as (acc & tot & iters & done & u & Hk & (HS & Heq & Hf & Ht & Hc & Hi) & Hin & Hfin & Hit & Hgr).
  cbn [app] in Hin, Hfin.
  pose proof (length_sort_edges edges) as Hlen.
  pose proof (num_classes_ge1 _ _ _ (count_ok _ _ _ HS) Hn) as Hc1.
  assert (Hsub : incl acc edges).
  { intros e He. apply In_sort_edges. apply Hin, Hi, He. }
  assert (Hconn : forall x y, connects edges x y <-> connects acc x y).
  { intros x y. split; [|apply connects_mono; exact Hsub].
    intros K. destruct Hfin as [Hall|Hlast].
    - apply Heq. eapply connects_mono; [|exact K].
      intros e He. apply Hall. apply In_sort_edges. exact He.
    - assert (Hone : num_classes n (joined (pairs done)) 1).
      { replace 1 with (count u) by lia. apply count_ok. exact HS. }
      destruct (joined_endpoints _ _ _ K) as [->|[Ex Ey]]; [apply joined_refl|].
      apply Heq. apply (num_classes_one _ _ Hone); apply (valid_endpoint_lt n edges); assumption. }
  exists acc, tot, iters. split; [exact Hk|]. split; [|split; [exact Hf|split; [exact Ht|split; [|split; [|split; [|exact Hgr]]]]]].
  - split; [exact Hsub|]. split; [apply incr_forest_acyclic; exact Hf|exact Hconn].
  - replace (n - length acc) with (count u) by lia.
    apply (num_classes_iff (joined (pairs done))); [|apply count_ok; exact HS].
    intros x y. rewrite (Hconn x y). apply Heq.
  - lia.
  - rewrite Hlen in Hit. exact Hit.
Qed.

(* ---------------------------------------------------------------- kruskal: status mapping *)
Theorem kruskal_forest : forall n edges allow_forest, kruskal_valid n edges = true ->
  exists r, kruskal n edges allow_forest = Done r /\
            kruskal_spec n edges allow_forest (r_status r, r_solution r, r_objective r).
Proof.
  intros n edges af Hv.
  destruct (kruskal_core_forest n edges Hv) as (acc & tot & iters & Hk & HF & Hf & Ht & Hnc & Hle & Hit & _).
  unfold kruskal. rewrite Hv, Hk. eexists. split; [reflexivity|].
  unfold kruskal_valid in Hv. apply andb_true_iff in Hv. destruct Hv as [Hn Hr]. apply Nat.leb_le in Hn.
  unfold kruskal_result.
  destruct (length acc <? n - 1) eqn:El.
  - apply Nat.ltb_lt in El.
    assert (Hnot : ~ connected_graph n edges).
    { intros Hc. pose proof (num_classes_connected (pairs edges) n Hn Hc) as H1.
      pose proof (num_classes_unique _ _ _ _ Hnc H1). lia. }
    destruct af; cbn.
    + split; [reflexivity|]. exists acc. subst tot. repeat split; try assumption; apply HF.
    + repeat split; assumption.
  - apply Nat.ltb_ge in El. cbn. exists acc. subst tot.
    assert (Hlen : length acc = n - 1) by lia.
    split; [reflexivity|]. split; [reflexivity|]. split; [exact HF|]. split; [exact Hlen|].
    intros x y Hx Hy. unfold connects. apply (num_classes_one (pairs edges) n); [|exact Hx|exact Hy].
    replace 1 with (n - length acc) by lia. exact Hnc.
Qed.
