(* C13, prim: the returned edges grow a tree from start that spans every node (OPTIMAL) or some node is
   unreachable from start along the adjacency lists (INFEASIBLE); the loop never runs out of fuel. *)
From Coq Require Import List Arith ZArith Bool Lia Relations.
From SV Require Import C20.UFSpec C20.UFUnion C13.Mst C13.MstSpec C13.GraphLemmas C13.PrimBasics.
Import ListNotations.

Definition PI (g : graph) (start : nat) (s : pstate) : Prop :=
  NoDup (p_in s) /\ In start (p_in s) /\ incl (p_in s) (all_nodes g) /\
  (forall x, In x (p_in s) -> connects (p_acc s) start x) /\
  (forall e, In e (p_acc s) -> In (eu e) (p_in s) /\ In (ev e) (p_in s)) /\
  incr_forest (p_acc s) /\ incl (p_acc s) (arcs g) /\
  (forall h, In h (p_heap s) -> In (h_u h, h_v h, h_w h) (arcs g) /\ In (h_u h) (p_in s)) /\
  S (length (p_acc s)) = length (p_in s) /\ p_tot s = weight (p_acc s) /\
  (forall u v w, In u (p_in s) -> In (u, v, w) (arcs g) ->
     In v (p_in s) \/ exists c, In (w, c, u, v) (p_heap s)) /\
  (forall x, In x (p_in s) -> reach g start x).

Lemma endpoint_pairs : forall es x, endpoint (pairs es) x -> exists e, In e es /\ (x = eu e \/ x = ev e).
Proof.
  intros es x [p [Hp Hx]]. unfold pairs in Hp. apply in_map_iff in Hp.
  destruct Hp as [e [<- He]]. exists e. split; [exact He|exact Hx].
Qed.

Lemma reach_step : forall g s u v w, reach g s u -> In (u, v, w) (arcs g) -> reach g s v.
Proof.
  intros g s u v w H Ha. eapply rt_trans; [exact H|]. apply rt_step. exists w. exact Ha.
Qed.

(* ---------------------------------------------------------------- initial state *)
Lemma prim_init_PI : forall g start, NoDup (keys g) -> In start (all_nodes g) ->
  PI g start (prim_init g start) /\
  length (p_heap (prim_init g start)) + rem g (p_in (prim_init g start)) <= total_entries g.
Proof.
  intros g start Hnd Hs. unfold prim_init.
  set (s0 := {| p_in := [start]; p_acc := []; p_tot := 0%Z; p_counter := 0; p_heap := [];
                p_iters := 0; p_evals := 0 |}).
  destruct (push_all_spec false start (lookup g start) s0) as (E1 & E2 & E3 & H4 & H5 & H6 & H7).
  cbv zeta in *. split.
  - unfold PI. rewrite E1, E2, E3. cbn [s0 p_in p_acc p_tot p_heap] in *.
    split; [repeat constructor; intros []|]. split; [left; reflexivity|].
    split; [intros x [<-|[]]; exact Hs|].
    split; [intros x [<-|[]]; apply joined_refl|].
    split; [intros e []|]. split; [constructor|]. split; [intros e []|].
    split; [|split; [reflexivity|split; [reflexivity|split]]].
    + intros h Hh. destruct (H5 h Hh) as [[]|[K1 K2]].
      split; [rewrite K1; apply lookup_arcs; exact K2|left; symmetry; exact K1].
    + intros u v w [<-|[]] Ha. right.
      destruct (H6 v w (arcs_lookup g start v w Hnd Ha)) as [[K _]|K]; [discriminate|exact K].
    + intros x [<-|[]]. apply rt_refl.
  - rewrite E1. cbn [s0 p_in p_heap length] in *.
    pose proof (rem_step g start [] eq_refl). rewrite rem_nil in H. lia.
Qed.

(* ---------------------------------------------------------------- the loop *)
Definition skip_state (s : pstate) (heap' : list hentry) : pstate :=
  {| p_in := p_in s; p_acc := p_acc s; p_tot := p_tot s; p_counter := p_counter s;
     p_heap := heap'; p_iters := S (p_iters s); p_evals := p_evals s |}.
Definition take_state (g : graph) (s : pstate) (h : hentry) (heap' : list hentry) : pstate :=
  push_all true (h_v h) (lookup g (h_v h))
    {| p_in := h_v h :: p_in s; p_acc := p_acc s ++ [(h_u h, h_v h, h_w h)];
       p_tot := (p_tot s + h_w h)%Z; p_counter := p_counter s; p_heap := heap';
       p_iters := S (p_iters s); p_evals := p_evals s |}.

(* the loop lemma, generic in an additional invariant Q that the two kinds of steps preserve *)
Lemma prim_loop_ok_gen : forall g start (Q : pstate -> Prop), NoDup (keys g) ->
  (forall s h heap', PI g start s -> Q s -> p_heap s = h :: heap' -> mem (h_v h) (p_in s) = true ->
     Q (skip_state s heap')) ->
  (forall s h heap', PI g start s -> Q s -> p_heap s = h :: heap' -> mem (h_v h) (p_in s) = false ->
     Q (take_state g s h heap')) ->
  forall fuel s, PI g start s -> Q s -> length (p_heap s) + rem g (p_in s) < fuel ->
  exists s', prim_loop fuel g (length (all_nodes g)) s = Some s' /\ PI g start s' /\ Q s' /\
             (p_heap s' = [] \/ length (all_nodes g) <= length (p_in s')).
Proof.
  intros g start Q Hnd Qskip Qtake. induction fuel as [|f IH]; intros s HP HQ Hm; [lia|].
  cbn [prim_loop]. destruct (p_heap s) as [|h heap'] eqn:Eh.
  - exists s. split; [reflexivity|]. split; [exact HP|]. split; [exact HQ|left; exact Eh].
  - destruct (length (p_in s) <? length (all_nodes g)) eqn:El.
    2:{ exists s. split; [reflexivity|]. split; [exact HP|]. split; [exact HQ|right; apply Nat.ltb_ge; exact El]. }
    pose proof HP as HP0.
    destruct HP as (P1 & P2 & P3 & P4 & P5 & P6 & P7 & P8 & P9 & P10 & P11 & P12).
    rewrite Eh in P8, P11. cbn [length] in Hm.
    destruct (mem (h_v h) (p_in s)) eqn:Em.
    + (* popped entry leads into the tree: skip *)
      apply IH; [|exact (Qskip s h heap' HP0 HQ Eh Em)|cbn [p_heap p_in]; lia].
      unfold PI. cbn [p_in p_acc p_tot p_heap].
      split; [exact P1|]. split; [exact P2|]. split; [exact P3|]. split; [exact P4|]. split; [exact P5|].
      split; [exact P6|]. split; [exact P7|]. split; [|split; [exact P9|split; [exact P10|split; [|exact P12]]]].
      * intros h' Hh'. apply P8. right. exact Hh'.
      * intros u v w Hu Ha. destruct (P11 u v w Hu Ha) as [K|[c [K|K]]].
        -- left. exact K.
        -- left. subst h. cbn in Em. apply mem_In. exact Em.
        -- right. exists c. exact K.
    + (* new node *)
      pose proof (Qtake s h heap' HP0 HQ Eh Em) as HQ'.
      apply mem_false in Em.
      destruct (P8 h (or_introl eq_refl)) as [Harc Hu].
      set (e := (h_u h, h_v h, h_w h)) in *.
      set (s2 := {| p_in := h_v h :: p_in s; p_acc := p_acc s ++ [e];
                    p_tot := (p_tot s + h_w h)%Z; p_counter := p_counter s; p_heap := heap';
                    p_iters := S (p_iters s); p_evals := p_evals s |}).
      destruct (push_all_spec true (h_v h) (lookup g (h_v h)) s2) as (E1 & E2 & E3 & H4 & H5 & H6 & H7).
      cbv zeta in *.
      apply IH; [|exact HQ'|].
      * unfold PI. rewrite E1, E2, E3. cbn [s2 p_in p_acc p_tot p_heap] in *.
        assert (Hne : ~ connects (p_acc s) (eu e) (ev e)).
        { intros K. apply joined_endpoints in K. destruct K as [K|[_ K]].
          - cbn in K. apply Em. rewrite <- K. exact Hu.
          - apply endpoint_pairs in K. destruct K as [e' [He' [K|K]]];
              apply Em; cbn in K; rewrite K; apply (P5 e' He'). }
        split; [constructor; assumption|]. split; [right; exact P2|].
        split; [intros x [<-|Hx]; [apply (arc_nodes g _ _ _ Harc)|apply P3; exact Hx]|].
        split; [|split; [|split; [|split; [|split; [|split; [|split; [|split]]]]]]].
        -- intros x [<-|Hx].
           ++ eapply joined_trans; [apply (connects_mono (p_acc s)); [apply incl_appl, incl_refl|apply P4; exact Hu]|].
              apply (connects_edge (p_acc s ++ [e]) e). apply in_or_app. right. left. reflexivity.
           ++ apply (connects_mono (p_acc s)); [apply incl_appl, incl_refl|apply P4; exact Hx].
        -- intros e' He'. apply in_app_or in He'. destruct He' as [He'|[<-|[]]].
           ++ destruct (P5 e' He') as [K1 K2]. split; right; assumption.
           ++ cbn. split; [right; exact Hu|left; reflexivity].
        -- apply if_snoc; assumption.
        -- apply incl_app; [exact P7|]. intros x [<-|[]]. exact Harc.
        -- intros h' Hh'. destruct (H5 h' Hh') as [K|[K1 K2]].
           ++ destruct (P8 h' (or_intror K)) as [K1 K2]. split; [exact K1|right; exact K2].
           ++ split; [rewrite K1; apply lookup_arcs; exact K2|left; symmetry; exact K1].
        -- rewrite app_length. cbn. lia.
        -- rewrite weight_snoc, P10. reflexivity.
        -- intros u v w [<-|Hu'] Ha.
           ++ destruct (H6 v w (arcs_lookup g _ v w Hnd Ha)) as [[_ K]|K]; [left; exact K|right; exact K].
           ++ destruct (P11 u v w Hu' Ha) as [K|[c [K|K]]].
              ** left. right. exact K.
              ** left. left. subst h. reflexivity.
              ** right. exists c. apply H4. exact K.
        -- intros x [<-|Hx]; [|apply P12; exact Hx].
           apply (reach_step g start (h_u h) (h_v h) (h_w h)); [apply P12; exact Hu|exact Harc].
      * rewrite E1. cbn [s2 p_in p_heap] in *.
        pose proof (rem_step g (h_v h) (p_in s) (proj2 (mem_false _ _) Em)). lia.
Qed.

Lemma prim_loop_ok : forall g start, NoDup (keys g) ->
  forall fuel s, PI g start s -> length (p_heap s) + rem g (p_in s) < fuel ->
  exists s', prim_loop fuel g (length (all_nodes g)) s = Some s' /\ PI g start s' /\
             (p_heap s' = [] \/ length (all_nodes g) <= length (p_in s')).
Proof.
  intros g start Hnd fuel s HP Hm.
  destruct (prim_loop_ok_gen g start (fun _ => True) Hnd (fun _ _ _ _ _ _ _ => I) (fun _ _ _ _ _ _ _ => I)
              fuel s HP I Hm) as (s' & H1 & H2 & _ & H3).
  exists s'. split; [exact H1|]. split; [exact H2|exact H3].
Qed.

(* ---------------------------------------------------------------- result *)
Lemma not_all_mem : forall (l ins : list nat), ~ incl l ins -> exists x, In x l /\ ~ In x ins.
Proof.
  induction l as [|a l IH]; intros ins H.
  - exfalso. apply H. intros x [].
  - destruct (mem a ins) eqn:E.
    + apply mem_In in E. destruct (IH ins) as [x [H1 H2]].
      * intros K. apply H. intros x [<-|Hx]; [exact E|apply K; exact Hx].
      * exists x. split; [right; exact H1|exact H2].
    + exists a. split; [left; reflexivity|apply mem_false; exact E].
Qed.

Lemma first_key_node : forall k ns g, In k (all_nodes ((k, ns) :: g)).
Proof. intros. apply In_all_nodes. left. left. reflexivity. Qed.

Lemma prim_start_node : forall g start, g <> [] -> prim_valid g start = true ->
  NoDup (keys g) /\ In (prim_start g start) (all_nodes g).
Proof.
  intros g start Hg Hv. unfold prim_valid in Hv. apply andb_true_iff in Hv. destruct Hv as [H1 H2].
  split; [apply nodupb_NoDup; exact H1|].
  destruct g as [|[k ns] g]; [congruence|]. destruct start as [s|]; cbn [prim_start].
  - apply mem_In. exact H2.
  - apply first_key_node.
Qed.

Theorem prim_tree : forall g start, prim_valid g start = true ->
  exists r, prim g start = Done r /\ prim_spec g start (r_status r, r_solution r, r_objective r).
Proof.
  intros g start Hv. destruct g as [|kn g'] eqn:Eg.
  - eexists. split; [reflexivity|]. cbn. auto.
  - rewrite <- Eg in *. assert (Hg : g <> []) by (rewrite Eg; discriminate).
    destruct (prim_start_node g start Hg Hv) as [Hnd Hs].
    destruct (prim_init_PI g (prim_start g start) Hnd Hs) as [HP0 Hm0].
    destruct (prim_loop_ok g (prim_start g start) Hnd (prim_fuel g) _ HP0) as (s' & Hl & HP & Hexit).
    { unfold prim_fuel. lia. }
    assert (Hprim : prim g start = Done (prim_result g s')).
    { unfold prim, prim_core. rewrite Hl. rewrite Eg. reflexivity. }
    exists (prim_result g s'). split; [exact Hprim|].
    unfold prim_spec. rewrite Eg. rewrite <- Eg. cbv zeta.
    destruct HP as (P1 & P2 & P3 & P4 & P5 & P6 & P7 & P8 & P9 & P10 & P11 & P12).
    pose proof (NoDup_incl_length P1 P3) as Hle.
    unfold prim_result. destruct (length (p_in s') <? length (all_nodes g)) eqn:El; cbn.
    + apply Nat.ltb_lt in El. split; [reflexivity|]. split; [reflexivity|].
      destruct Hexit as [Hh|Hh]; [|lia].
      destruct (not_all_mem (all_nodes g) (p_in s')) as [x [Hx1 Hx2]].
      { intros K. pose proof (NoDup_incl_length (all_nodes_NoDup g) K). lia. }
      exists x. split; [exact Hx1|]. intros Hr. apply Hx2. clear Hx1 Hx2.
      apply clos_rt_rtn1 in Hr. induction Hr as [|y z [w Hyz] Hr IHr]; [exact P2|].
      destruct (P11 y z w IHr Hyz) as [K|[c K]]; [exact K|]. rewrite Hh in K. destruct K.
    + apply Nat.ltb_ge in El.
      assert (Hall : incl (all_nodes g) (p_in s')).
      { apply NoDup_length_incl; assumption. }
      exists (p_acc s'). split; [reflexivity|]. split; [rewrite P10; reflexivity|].
      split; [exact P7|]. split; [apply incr_forest_acyclic; exact P6|].
      split; [intros x Hx; apply P4, Hall, Hx|]. split; [|split].
      * intros x K. apply joined_endpoints in K. destruct K as [<-|[_ K]]; [apply P3; exact P2|].
        apply endpoint_pairs in K. destruct K as [e [He [K|K]]]; rewrite K; apply P3, (P5 e He).
      * lia.
      * intros x Hx. apply P12, Hall, Hx.
Qed.

(* ---------------------------------------------------------------- undirected reading *)
Lemma reach_connects : forall g s x, reach g s x -> connects (arcs g) s x.
Proof.
  intros g s x H. induction H as [a b [w Hab]|a|a b c H1 IH1 H2 IH2].
  - apply (connects_edge (arcs g) (a, b, w)). exact Hab.
  - apply joined_refl.
  - eapply joined_trans; eassumption.
Qed.

Lemma connects_reach : forall g, symmetric g ->
  forall s x, connects (arcs g) s x -> reach g s x /\ reach g x s.
Proof.
  intros g Hsym s x H. induction H as [a b Hab|a|a b H IH|a b c H1 IH1 H2 IH2].
  - unfold pairs in Hab. apply in_map_iff in Hab. destruct Hab as [[[a' b'] w] [E He]].
    cbn in E. inversion E; subst. split; apply rt_step; exists w; [exact He|apply Hsym; exact He].
  - split; apply rt_refl.
  - destruct IH as [K1 K2]. split; assumption.
  - destruct IH1 as [K1 K2]. destruct IH2 as [K3 K4]. split; eapply rt_trans; eassumption.
Qed.

Lemma symmetricb_sound : forall g, symmetricb g = true -> symmetric g.
Proof.
  intros g H u v w Ha. unfold symmetricb in H. rewrite forallb_forall in H.
  specialize (H _ Ha). unfold in_edges in H. apply existsb_exists in H.
  destruct H as [[[a b] c] [Hin E]]. unfold edge_eqb, eu, ev, ew in E. cbn in E.
  apply andb_true_iff in E. destruct E as [E E3]. apply andb_true_iff in E. destruct E as [E1 E2].
  apply Nat.eqb_eq in E1. apply Nat.eqb_eq in E2. apply Z.eqb_eq in E3. subst. exact Hin.
Qed.

(* on an undirected (symmetric) adjacency dict: OPTIMAL iff every node is connected to start *)
Theorem prim_tree_undirected : forall g start, prim_valid g start = true -> symmetricb g = true -> g <> [] ->
  exists r, prim g start = Done r /\
    prim_spec g start (r_status r, r_solution r, r_objective r) /\
    (r_status r = OPTIMAL <-> forall x, is_node g x -> connects (arcs g) (prim_start g start) x) /\
    (r_status r = INFEASIBLE <-> exists x, is_node g x /\ ~ connects (arcs g) (prim_start g start) x).
Proof.
  intros g start Hv Hsym Hg. apply symmetricb_sound in Hsym.
  destruct (prim_tree g start Hv) as [r [Hr Hspec]]. exists r. split; [exact Hr|]. split; [exact Hspec|].
  unfold prim_spec in Hspec. destruct g as [|kn g']; [congruence|]. cbv zeta in Hspec.
  set (G := kn :: g') in *.
  destruct (r_status r) eqn:Es.
  - destruct Hspec as (t & _ & _ & _ & _ & _ & _ & _ & Hreach). split; split; try discriminate; try reflexivity.
    + intros _ x Hx. apply reach_connects, Hreach, Hx.
    + intros [x [Hx Hn]]. exfalso. apply Hn. apply reach_connects, Hreach, Hx.
  - destruct Hspec.
  - destruct Hspec as (_ & _ & x & Hx & Hn). split; split; try discriminate; try reflexivity.
    + intros Hall. exfalso. apply Hn. exact (proj1 (connects_reach G Hsym _ _ (Hall x Hx))).
    + intros _. exists x. split; [exact Hx|]. intros K. apply Hn. exact (proj1 (connects_reach G Hsym _ _ K)).
Qed.
