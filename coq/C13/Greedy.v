(* The greedy rule "scan the edges by non-decreasing weight, keep an edge iff its end points are not yet
   connected" produces a spanning forest of minimum total weight (exchange argument).  Pure graph theory
   over UFSpec.joined; the tie to the kruskal model is in KruskalProofs.v / KruskalMin.v. *)
From Coq Require Import List Arith ZArith Bool Lia Relations Permutation.
From SV Require Import C20.UFSpec C20.UFUnion C20.UFCount.
From SV Require Import C13.Mst C13.MstSpec C13.GraphLemmas C13.ForestCount.
Import ListNotations.

Inductive greedy : list edge -> list edge -> list edge -> Prop :=
| gr_nil : forall acc, greedy acc [] acc
| gr_skip : forall acc e rest out, connects acc (eu e) (ev e) -> greedy acc rest out -> greedy acc (e :: rest) out
| gr_take : forall acc e rest out, ~ connects acc (eu e) (ev e) -> greedy (acc ++ [e]) rest out ->
            greedy acc (e :: rest) out.

Lemma greedy_all_connected : forall acc es, (forall e, In e es -> connects acc (eu e) (ev e)) -> greedy acc es acc.
Proof.
  intros acc es. induction es as [|e r IH]; intros H; [constructor|].
  apply gr_skip; [apply H; left; reflexivity|apply IH; intros x Hx; apply H; right; exact Hx].
Qed.

Fixpoint sortedw (l : list edge) : Prop :=
  match l with
  | [] => True
  | e :: r => (forall x, In x r -> (ew e <= ew x)%Z) /\ sortedw r
  end.

(* ---------------------------------------------------------------- acyclic is order independent *)
Lemma acyclic_perm : forall t t', Permutation t t' -> acyclic t -> acyclic t'.
Proof.
  intros t t' HP H l1 x l2 E K. subst t'.
  assert (Hx : In x t).
  { apply (Permutation_in x (Permutation_sym HP)). apply in_or_app. right. left. reflexivity. }
  destruct (in_split x t Hx) as [m1 [m2 Et]]. subst t.
  apply (H m1 x m2 eq_refl). eapply connects_mono; [|exact K].
  apply Permutation_app_inv in HP. intros z Hz. apply (Permutation_in z (Permutation_sym HP)). exact Hz.
Qed.

Lemma acyclic_not_in : forall l1 e l2, acyclic (l1 ++ e :: l2) -> ~ In e (l1 ++ l2).
Proof. intros l1 e l2 H K. apply (H l1 e l2 eq_refl). apply connects_edge. exact K. Qed.

Definition edge_eq_dec : forall a b : edge, {a = b} + {a <> b}.
Proof. decide equality; [apply Z.eq_dec|decide equality; apply Nat.eq_dec]. Defined.

(* joined is decidable (by the label array of MstSpec) - needed to find the first edge closing a path *)
Lemma lab_merge_gen : forall n ls a b x, length ls = n -> (forall z, z < n -> lab ls z < n) -> b < n ->
  lab (merge ls a b) x = if lab ls x =? lab ls b then lab ls a else lab ls x.
Proof.
  intros n ls a b x HL Hlt Hb. unfold merge.
  set (f := fun l => if l =? lab ls b then lab ls a else l).
  destruct (Nat.lt_ge_cases x n) as [Hx|Hx].
  - unfold lab at 1. rewrite (nth_indep _ x (f x)); [|rewrite map_length; lia].
    rewrite map_nth. reflexivity.
  - unfold lab at 1. rewrite nth_overflow; [|rewrite map_length; lia].
    assert (E : lab ls x = x) by (unfold lab; apply nth_overflow; lia). rewrite E.
    specialize (Hlt b Hb). destruct (x =? lab ls b) eqn:E'; [apply Nat.eqb_eq in E'; lia|reflexivity].
Qed.

Lemma joined_dec_range : forall n ps, (forall p, In p ps -> fst p < n /\ snd p < n) ->
  forall x y, joined ps x y \/ ~ joined ps x y.
Proof.
  intros n ps Hr.
  assert (H : exists ls, length ls = n /\ (forall z, z < n -> lab ls z < n) /\
                         forall x y, lab ls x = lab ls y <-> joined ps x y).
  { induction ps as [|[a b] ps IH] using rev_ind.
    - exists (seq 0 n). split; [apply seq_length|].
      assert (L : forall x, lab (seq 0 n) x = x).
      { intros x. unfold lab. destruct (Nat.lt_ge_cases x n) as [H|H];
          [rewrite seq_nth; [reflexivity|exact H]|apply nth_overflow; rewrite seq_length; exact H]. }
      split; [intros z Hz; rewrite L; exact Hz|].
      intros x y. rewrite !L. split; [intros ->; apply joined_refl|apply joined_nil].
    - destruct IH as (ls & HL & Hlt & Hiff); [intros p Hp; apply Hr, in_or_app; left; exact Hp|].
      destruct (Hr (a, b)) as [Ha Hb]; [apply in_or_app; right; left; reflexivity|]. cbn in Ha, Hb.
      exists (merge ls a b). split; [unfold merge; rewrite map_length; exact HL|]. split.
      + intros z Hz. rewrite (lab_merge_gen n ls a b z HL Hlt Hb).
        destruct (lab ls z =? lab ls b); [apply Hlt, Ha|apply Hlt, Hz].
      + intros x y. rewrite !(lab_merge_gen n ls a b _ HL Hlt Hb). rewrite joined_add. unfold cls.
        rewrite <- !Hiff.
        destruct (Nat.eqb_spec (lab ls x) (lab ls b)); destruct (Nat.eqb_spec (lab ls y) (lab ls b)); lia. }
  destruct H as (ls & _ & _ & Hiff). intros x y.
  destruct (Nat.eq_dec (lab ls x) (lab ls y)) as [E|E]; [left; apply Hiff; exact E|right; intros K; apply E, Hiff, K].
Qed.

Lemma connects_dec : forall n es, in_range n es -> forall x y, connects es x y \/ ~ connects es x y.
Proof.
  intros n es Hr. apply (joined_dec_range n). intros p Hp. unfold pairs in Hp.
  apply in_map_iff in Hp. destruct Hp as [e [<- He]]. apply Hr. exact He.
Qed.

(* ---------------------------------------------------------------- the exchange step *)
(* B is a forest not connecting a and b, B + f connects them: then f can be traded for e = (a, b, _) *)
Lemma swap_last : forall B f e,
  ~ connects B (eu e) (ev e) -> connects (B ++ [f]) (eu e) (ev e) ->
  forall x y, connects (B ++ [f]) x y <-> connects (B ++ [e]) x y.
Proof.
  intros B f e Hn Hc x y. unfold connects in *. rewrite !pairs_snoc in *.
  rewrite joined_add in Hc. destruct Hc as [Hc|[Ca Cb]]; [contradiction|].
  rewrite !joined_add. unfold cls in *.
  set (J := joined (pairs B)) in *.
  assert (S : forall u v, J u v -> J v u) by (intros; apply joined_sym; assumption).
  assert (T : forall u v z, J u v -> J v z -> J u z) by (intros; eapply joined_trans; eassumption).
  destruct Ca as [Ka|Ka]; destruct Cb as [Kb|Kb].
  - exfalso. apply Hn. eapply T; [exact Ka|apply S; exact Kb].
  - (* a ~ c, b ~ d *)
    split; (intros [K|[C1 C2]]; [left; exact K|right]); split.
    + destruct C1 as [K|K]; [left; eapply T; [exact K|apply S; exact Ka]|right; eapply T; [exact K|apply S; exact Kb]].
    + destruct C2 as [K|K]; [left; eapply T; [exact K|apply S; exact Ka]|right; eapply T; [exact K|apply S; exact Kb]].
    + destruct C1 as [K|K]; [left; eapply T; [exact K|exact Ka]|right; eapply T; [exact K|exact Kb]].
    + destruct C2 as [K|K]; [left; eapply T; [exact K|exact Ka]|right; eapply T; [exact K|exact Kb]].
  - (* a ~ d, b ~ c *)
    split; (intros [K|[C1 C2]]; [left; exact K|right]); split.
    + destruct C1 as [K|K]; [right; eapply T; [exact K|apply S; exact Kb]|left; eapply T; [exact K|apply S; exact Ka]].
    + destruct C2 as [K|K]; [right; eapply T; [exact K|apply S; exact Kb]|left; eapply T; [exact K|apply S; exact Ka]].
    + destruct C1 as [K|K]; [right; eapply T; [exact K|exact Ka]|left; eapply T; [exact K|exact Kb]].
    + destruct C2 as [K|K]; [right; eapply T; [exact K|exact Ka]|left; eapply T; [exact K|exact Kb]].
  - exfalso. apply Hn. eapply T; [exact Ka|apply S; exact Kb].
Qed.

Lemma exchange : forall n acc e F,
  in_range n (acc ++ F) -> acyclic (acc ++ F) ->
  ~ connects acc (eu e) (ev e) -> connects (acc ++ F) (eu e) (ev e) ->
  exists F1 f F2, F = F1 ++ f :: F2 /\ acyclic (acc ++ F1 ++ F2 ++ [e]) /\
    (forall x y, connects (acc ++ F) x y <-> connects (acc ++ F1 ++ F2 ++ [e]) x y).
Proof.
  intros n acc e F. induction F as [|f F' IH] using rev_ind; intros Hr Hac Hn Hc.
  - rewrite app_nil_r in Hc. contradiction.
  - rewrite app_assoc in Hr, Hac, Hc.
    destruct (acyclic_prefix _ _ Hac) as [HacB Hnf].
    assert (HrB : in_range n (acc ++ F')).
    { intros z Hz. apply Hr. apply in_or_app. left. exact Hz. }
    destruct (connects_dec n (acc ++ F') HrB (eu e) (ev e)) as [Hd|Hd].
    + destruct (IH HrB HacB Hn Hd) as (F1 & g & F2 & EF & HA & HC).
      exists F1, g, (F2 ++ [f]). split; [rewrite EF, <- app_assoc; reflexivity|].
      set (X := acc ++ F1 ++ F2 ++ [e]) in *.
      assert (HX : incr_forest (X ++ [f])).
      { apply if_snoc; [apply acyclic_incr_forest; exact HA|]. intros K. apply Hnf. apply HC. exact K. }
      assert (HPm : Permutation (X ++ [f]) (acc ++ F1 ++ (F2 ++ [f]) ++ [e])).
      { unfold X. rewrite <- !app_assoc. apply Permutation_app_head. apply Permutation_app_head.
        apply Permutation_app_head. apply Permutation_app_comm. }
      split; [eapply acyclic_perm; [exact HPm|apply incr_forest_acyclic; exact HX]|].
      intros x y. rewrite app_assoc.
      assert (E1 : connects ((acc ++ F') ++ [f]) x y <-> connects (X ++ [f]) x y).
      { unfold connects. rewrite !pairs_snoc. apply joined_add_congr. exact HC. }
      rewrite E1. split; apply connects_mono; intros z Hz.
      * apply (Permutation_in z HPm). exact Hz.
      * apply (Permutation_in z (Permutation_sym HPm)). exact Hz.
    + exists F', f, []. split; [reflexivity|]. cbn [app].
      rewrite (app_assoc acc F' [e]). split.
      * apply incr_forest_acyclic. apply if_snoc; [apply acyclic_incr_forest; exact HacB|exact Hd].
      * intros x y. rewrite (app_assoc acc F' [f]). apply swap_last; assumption.
Qed.

(* ---------------------------------------------------------------- minimality of greedy *)
Definition competitor (acc es F : list edge) : Prop :=
  incl F es /\ acyclic (acc ++ F) /\ forall x y, connects (acc ++ es) x y -> connects (acc ++ F) x y.

Lemma weight_split : forall F1 f F2, (weight (F1 ++ f :: F2) = weight (F1 ++ F2) + ew f)%Z.
Proof. intros. rewrite !weight_app. unfold weight at 2. cbn. fold (weight F2). lia. Qed.

Theorem greedy_min : forall n es acc out, greedy acc es out -> sortedw es ->
  in_range n (acc ++ es) ->
  exists added, out = acc ++ added /\
    forall F, competitor acc es F -> (weight added <= weight F)%Z.
Proof.
  intros n es acc out H. induction H as [acc|acc e rest out Hc H IH|acc e rest out Hn H IH]; intros Hs Hr.
  - exists []. split; [rewrite app_nil_r; reflexivity|].
    intros F (Hi & _ & _). destruct F as [|x F]; [cbn; lia|]. destruct (Hi x (or_introl eq_refl)).
  - destruct Hs as [Hmin Hs].
    destruct IH as (added & Eo & Hmin').
    { exact Hs. }
    { intros z Hz. apply Hr. apply in_app_or in Hz. apply in_or_app. destruct Hz; [left|right; right]; assumption. }
    exists added. split; [exact Eo|]. intros F (Hi & Ha & Hconn). apply Hmin'.
    assert (HeF : ~ In e F).
    { intros K. destruct (in_split e F K) as [F1 [F2 EF]]. subst F.
      rewrite app_assoc in Ha. apply (Ha (acc ++ F1) e F2 eq_refl).
      eapply connects_mono; [|exact Hc]. rewrite <- app_assoc. apply incl_appl, incl_refl. }
    split; [|split; [exact Ha|]].
    + intros x Hx. destruct (Hi x Hx) as [<-|K]; [contradiction|exact K].
    + intros x y K. apply Hconn. eapply connects_mono; [|exact K].
      intros z Hz. apply in_app_or in Hz. apply in_or_app. destruct Hz; [left|right; right]; assumption.
  - destruct Hs as [Hmin Hs].
    destruct IH as (added & Eo & Hmin').
    { exact Hs. }
    { intros z Hz. apply Hr. rewrite <- app_assoc in Hz. exact Hz. }
    exists (e :: added). split; [rewrite Eo, <- app_assoc; reflexivity|].
    intros F (Hi & Ha & Hconn).
    assert (HrF : in_range n (acc ++ F)).
    { intros z Hz. apply Hr. apply in_app_or in Hz. apply in_or_app. destruct Hz as [Hz|Hz]; [left; exact Hz|right; apply Hi, Hz]. }
    change (weight (e :: added)) with (ew e + weight added)%Z.
    destruct (in_dec edge_eq_dec e F) as [HeF|HeF].
    + (* the competitor uses e as well *)
      destruct (in_split e F HeF) as [F1 [F2 EF]]. subst F.
      assert (Hnot : ~ In e (F1 ++ F2)).
      { intros K. rewrite app_assoc in Ha. apply (acyclic_not_in _ _ _ Ha).
        rewrite <- app_assoc. apply in_or_app. right. exact K. }
      assert (HPm : Permutation (acc ++ F1 ++ e :: F2) ((acc ++ [e]) ++ F1 ++ F2)).
      { rewrite <- app_assoc. apply Permutation_app_head. cbn. apply Permutation_sym, Permutation_middle. }
      rewrite weight_split.
      assert (HC : competitor (acc ++ [e]) rest (F1 ++ F2)).
      { split; [|split].
        - intros x Hx. assert (Hx' : In x (F1 ++ e :: F2)).
          { apply in_app_or in Hx. apply in_or_app. destruct Hx; [left|right; right]; assumption. }
          destruct (Hi x Hx') as [<-|K]; [contradiction|exact K].
        - eapply acyclic_perm; [exact HPm|exact Ha].
        - intros x y K.
          eapply connects_mono; [intros z Hz; apply (Permutation_in z HPm); exact Hz|].
          apply Hconn. eapply connects_mono; [|exact K]. rewrite <- app_assoc. apply incl_refl. }
      specialize (Hmin' _ HC). lia.
    + (* the competitor does not use e: trade one of its edges for e *)
      assert (HcF : connects (acc ++ F) (eu e) (ev e)).
      { apply Hconn. apply connects_edge. apply in_or_app. right. left. reflexivity. }
      destruct (exchange n acc e F HrF Ha Hn HcF) as (F1 & f & F2 & EF & HA & HC).
      assert (HPm : Permutation (acc ++ F1 ++ F2 ++ [e]) ((acc ++ [e]) ++ F1 ++ F2)).
      { rewrite <- app_assoc. apply Permutation_app_head. rewrite app_assoc. apply Permutation_app_comm. }
      assert (Hf : In f rest).
      { assert (K : In f F) by (rewrite EF; apply in_or_app; right; left; reflexivity).
        destruct (Hi f K) as [<-|K']; [contradiction|exact K']. }
      assert (HCo : competitor (acc ++ [e]) rest (F1 ++ F2)).
      { split; [|split].
        - intros x Hx. assert (Hx' : In x F).
          { rewrite EF. apply in_app_or in Hx. apply in_or_app. destruct Hx; [left|right; right]; assumption. }
          destruct (Hi x Hx') as [<-|K]; [contradiction|exact K].
        - eapply acyclic_perm; [exact HPm|exact HA].
        - intros x y K.
          eapply connects_mono; [intros z Hz; apply (Permutation_in z HPm); exact Hz|].
          apply HC. apply Hconn. eapply connects_mono; [|exact K]. rewrite <- app_assoc. apply incl_refl. }
      specialize (Hmin' _ HCo). rewrite EF, weight_split. specialize (Hmin f Hf). lia.
Qed.
