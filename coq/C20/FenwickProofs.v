(* Refinement proof: the Fenwick tree model answers like a plain array. *)
From Coq Require Import List ZArith Bool Lia Arith.
From SV Require Import C20.Fenwick C20.FenwickBits C20.FenwickLists.
Import ListNotations.
Open Scope Z_scope.

(* representation invariant: tree[j] = sum a[g j .. j] *)
Definition Inv (a t : list Z) : Prop :=
  length t = length a /\
  forall j, 0 <= j < zn a -> zget t j = pre a (j + 1) - pre a (g j).

Lemma Inv_zn : forall a t, Inv a t -> zn t = zn a.
Proof. intros a t [H _]. unfold zn. now rewrite H. Qed.

(* ---------- prefix ---------- *)
Lemma prefix_correct : forall a t, Inv a t ->
  forall fuel i acc, -1 <= i < zn a -> i + 1 < Z.of_nat fuel ->
  prefix fuel t i acc = Some (acc + pre a (i + 1)).
Proof.
  intros a t [HL HI]. induction fuel as [|f IH]; intros i acc Hi Hf.
  - lia.
  - cbn [prefix]. destruct (0 <=? i) eqn:E.
    + assert (H0 : 0 <= i) by lia.
      pose proof (g_bounds i H0) as Hg.
      rewrite down_is_g. rewrite IH by lia.
      rewrite HI by lia. f_equal. replace (g i - 1 + 1) with (g i) by lia. lia.
    + assert (i = -1) by lia. subst i. cbn. f_equal. lia.
Qed.

(* ---------- update ---------- *)
Lemma update_spec : forall fuel t c d, 0 <= c -> zn t - c < Z.of_nat fuel ->
  exists t', update fuel t c d = Some t' /\ length t' = length t /\
    forall j, 0 <= j < zn t -> zget t' j = zget t j + if cover c j then d else 0.
Proof.
  induction fuel as [|f IH]; intros t c d Hc Hf.
  - cbn [update]. destruct (c <? zn t) eqn:E; [lia|].
    exists t. split; [reflexivity|]. split; [reflexivity|].
    intros j Hj. unfold cover. destruct (c <=? j) eqn:E2; [lia|]. rewrite andb_false_r. lia.
  - cbn [update]. destruct (c <? zn t) eqn:E.
    + pose proof (h_gt c Hc) as Hh. rewrite up_is_h.
      destruct (IH (zadd_at t c d) (h c) d) as [t' [Hu [HL Hz]]]; [lia| rewrite zn_zadd_at; lia |].
      exists t'. split; [exact Hu|]. split; [rewrite HL; apply length_zadd_at|].
      intros j Hj. rewrite Hz by (rewrite zn_zadd_at; lia).
      rewrite zget_zadd_at by lia.
      destruct (j =? c) eqn:Ejc.
      * assert (j = c) by lia. subst j. rewrite cover_self by lia.
        unfold cover. destruct (h c <=? c) eqn:E3; [lia|]. rewrite andb_false_r. lia.
      * destruct (Z_lt_le_dec c j) as [Hlt|Hge].
        -- rewrite cover_step by lia. reflexivity.
        -- unfold cover. destruct (h c <=? j) eqn:E3; [lia|]. destruct (c <=? j) eqn:E4; [lia|].
           rewrite !andb_false_r. reflexivity.
    + exists t. split; [reflexivity|]. split; [reflexivity|].
      intros j Hj. unfold cover. destruct (c <=? j) eqn:E2; [lia|]. rewrite andb_false_r. lia.
Qed.

Lemma update_correct : forall a t i d, Inv a t -> 0 <= i < zn a ->
  exists t', update (fuel_of t) t i d = Some t' /\ Inv (zadd_at a i d) t'.
Proof.
  intros a t i d HInv Hi. pose proof (Inv_zn a t HInv) as Hzn. destruct HInv as [HL HI].
  destruct (update_spec (fuel_of t) t i d) as [t' [Hu [HL' Hz]]]; [lia| unfold fuel_of, zn; lia |].
  exists t'. split; [exact Hu|]. split.
  - rewrite HL', HL. symmetry. apply length_zadd_at.
  - intros j Hj. rewrite zn_zadd_at in Hj. rewrite Hz by lia. rewrite HI by lia.
    pose proof (g_bounds j (proj1 Hj)) as Hg.
    rewrite !pre_zadd_at by lia. unfold cover.
    destruct (i <? j + 1) eqn:E1; destruct (i <? g j) eqn:E2;
      destruct (g j <=? i) eqn:E3; destruct (i <=? j) eqn:E4; cbn [andb]; lia.
Qed.

(* ---------- O(n) constructor ---------- *)
(* x is a boundary of j's children: the left end g j, or one past a child of j *)
Definition bd (j x : Z) : Prop := x = g j \/ (0 < x /\ h (x - 1) = j).

Lemma bd_bounds : forall j x, 0 <= j -> bd j x -> g j <= x <= j.
Proof.
  intros j x Hj [->|[Hx Hh]].
  - pose proof (g_bounds j Hj). lia.
  - pose proof (h_gt (x - 1) ltac:(lia)) as Hgt.
    assert (Hc : cover (x - 1) j = true).
    { rewrite <- cover_step by lia. rewrite Hh. apply cover_self. lia. }
    unfold cover in Hc. lia.
Qed.

Definition BInv (a t : list Z) (c : Z) : Prop :=
  length t = length a /\
  forall j, 0 <= j < zn a -> exists x,
    bd j x /\ (x <= c \/ x = g j) /\ (forall i, x <= i < c -> h i <> j) /\
    zget t j = zget a j + pre a x - pre a (g j).

Lemma final_x : forall j c x, 0 <= j -> j <= c -> bd j x -> (x <= c \/ x = g j) ->
  (forall i, x <= i < c -> h i <> j) -> x = j.
Proof.
  intros j c x Hj Hjc Hbd Hxc Hno.
  pose proof (bd_bounds j x Hj Hbd) as Hb.
  destruct (parity_cases j Hj) as [q [Hq [E|E]]]; subst j.
  - destruct Hbd as [->|[Hx Hh]]; [apply g_even|].
    destruct (h_is_odd (x - 1) ltac:(lia)) as [q' Hq']. lia.
  - assert (Hh : h (2 * q) = 2 * q + 1) by apply h_even.
    destruct (Z_le_gt_dec x (2 * q)) as [Hle|Hgt]; [|lia].
    exfalso. apply (Hno (2 * q)); [lia|exact Hh].
Qed.

Lemma BInv_step : forall a t c, BInv a t c -> 0 <= c < zn a ->
  BInv a (if h c <? zn t then zadd_at t (h c) (zget t c) else t) (c + 1).
Proof.
  intros a t c [HL HB] Hc.
  assert (Hzn : zn t = zn a) by (unfold zn; now rewrite HL).
  pose proof (h_gt c (proj1 Hc)) as Hh.
  (* tree[c] is final *)
  assert (Htc : zget t c = pre a (c + 1) - pre a (g c)).
  { destruct (HB c Hc) as [x [Hbd [Hxc [Hno Hz]]]].
    assert (x = c) by (apply (final_x c c x); try assumption; lia). subst x.
    rewrite Hz, pre_succ by lia. lia. }
  split.
  { destruct (h c <? zn t); [rewrite length_zadd_at|]; exact HL. }
  intros j Hj. destruct (HB j Hj) as [x [Hbd [Hxc [Hno Hz]]]].
  destruct (Z.eq_dec j (h c)) as [Ej|Ej].
  - (* j = h c receives tree[c]; the old boundary is g c *)
    subst j. destruct (h c <? zn t) eqn:E; [|lia].
    pose proof (g_bounds c (proj1 Hc)) as Hgc.
    pose proof (g_bounds (h c) ltac:(lia)) as Hgj.
    assert (Hcov : cover c (h c) = true).
    { rewrite <- cover_step by lia. apply cover_self. lia. }
    assert (Hgjc : g (h c) <= c) by (unfold cover in Hcov; lia).
    assert (Hnest : g (h c) <= g c) by (apply g_nested; lia).
    pose proof (bd_bounds (h c) x ltac:(lia) Hbd) as Hbb.
    assert (Hx : x = g c).
    { assert (Hle : x <= g c).
      { destruct Hbd as [->|[Hx0 Hhx]]; [exact Hnest|].
        destruct Hxc as [Hxc| ->]; [|exact Hnest].
        destruct (Z_le_gt_dec x (g c)) as [Hl|Hg]; [exact Hl|].
        pose proof (cover_up c (proj1 Hc) (x - 1) ltac:(lia) ltac:(lia)). lia. }
      destruct (Z.eq_dec (g (h c)) (g c)) as [Eg|Eg]; [lia|].
      pose proof (child_adjacent c (proj1 Hc) ltac:(lia)) as Hadj.
      destruct (Z_le_gt_dec x (g c - 1)) as [Hl|Hg]; [|lia].
      exfalso. apply (Hno (g c - 1)); [lia|exact Hadj]. }
    subst x. exists (c + 1). split; [right; split; [lia|]; f_equal; lia|].
    split; [left; lia|]. split; [intros i Hi; lia|].
    rewrite zget_zadd_at by lia. rewrite Z.eqb_refl. rewrite Hz, Htc. lia.
  - exists x. split; [exact Hbd|]. split; [destruct Hxc; [left; lia|right; assumption]|].
    split.
    + intros i Hi. destruct (Z.eq_dec i c) as [->|Hic]; [congruence|]. apply Hno. lia.
    + destruct (h c <? zn t) eqn:E; [|exact Hz].
      rewrite zget_zadd_at by lia. destruct (j =? h c) eqn:E2; [lia|]. exact Hz.
Qed.

Lemma build_loop_BInv : forall a k c t, BInv a t (Z.of_nat c) -> (c + k = length a)%nat ->
  BInv a (build_loop (map Z.of_nat (seq c k)) t) (zn a).
Proof.
  intros a. induction k as [|k IH]; intros c t HB Hck.
  - cbn. replace (zn a) with (Z.of_nat c) by (unfold zn; lia). exact HB.
  - cbn [seq map build_loop]. apply IH; [|lia].
    rewrite up_is_h. replace (Z.of_nat (S c)) with (Z.of_nat c + 1) by lia.
    apply BInv_step; [exact HB| unfold zn; lia].
Qed.

Lemma build_Inv : forall a, Inv a (build a).
Proof.
  intros a. unfold build.
  assert (HB : BInv a (build_loop (map Z.of_nat (seq 0 (length a))) a) (zn a)).
  { apply build_loop_BInv; [|lia]. split; [reflexivity|].
    intros j Hj. exists (g j). split; [left; reflexivity|]. split; [right; reflexivity|].
    split; [intros i Hi; pose proof (g_bounds j (proj1 Hj)); lia|]. lia. }
  destruct HB as [HL HB]. split; [exact HL|].
  intros j Hj. destruct (HB j Hj) as [x [Hbd [Hxc [Hno Hz]]]].
  assert (x = j) by (apply (final_x j (zn a) x); try assumption; lia). subst x.
  rewrite Hz, pre_succ by lia. lia.
Qed.

(* ---------- histories ---------- *)
Lemma run_refines : forall ops a t, Inv a t -> ops_in_range (zn a) ops = true ->
  snd (run t ops) = ref_run a ops.
Proof.
  induction ops as [|o rest IH]; intros a t HInv Hr; [reflexivity|].
  cbn [ops_in_range forallb] in Hr. apply andb_true_iff in Hr. destruct Hr as [Ho Hr].
  fold (ops_in_range (zn a) rest) in Hr.
  pose proof (Inv_zn a t HInv) as Hzn.
  assert (Hfuel : forall i, -1 <= i < zn a -> i + 1 < Z.of_nat (fuel_of t))
    by (intros i Hi; unfold fuel_of; unfold zn in *; lia).
  cbn [run ref_run]. destruct o as [i d|i|l r]; cbn [step ref_step].
  - destruct (update_correct a t i d HInv ltac:(lia)) as [t' [Hu HInv']].
    rewrite Hu. specialize (IH (zadd_at a i d) t' HInv').
    rewrite zn_zadd_at in IH. specialize (IH Hr).
    destruct (run t' rest) as [t'' rs]. cbn [snd] in *. now rewrite IH.
  - rewrite (prefix_correct a t HInv) by (try apply Hfuel; lia).
    specialize (IH a t HInv Hr). destruct (run t rest) as [t'' rs]. cbn [snd] in *.
    rewrite IH, ref_prefix_pre by lia. do 2 f_equal.
  - unfold range_sum. rewrite (prefix_correct a t HInv) by (try apply Hfuel; lia).
    specialize (IH a t HInv Hr).
    destruct (0 <? l) eqn:El.
    + rewrite (prefix_correct a t HInv) by (try apply Hfuel; lia).
      destruct (run t rest) as [t'' rs]. cbn [snd] in *.
      rewrite IH, !ref_prefix_pre by lia. do 2 f_equal.
    + destruct (run t rest) as [t'' rs]. cbn [snd] in *.
      rewrite IH, ref_prefix_pre by lia. do 2 f_equal. lia.
Qed.

Theorem fenwick_refines : forall vals ops, ops_in_range (zn vals) ops = true ->
  run_from vals ops = ref_run vals ops.
Proof.
  intros vals ops Hr. unfold run_from. apply run_refines; [apply build_Inv|exact Hr].
Qed.

(* no fuel exhaustion: immediate from equality with ref_run, which never emits RFail *)
Lemma ref_run_no_fail : forall ops a, ~ In RFail (ref_run a ops).
Proof.
  induction ops as [|o rest IH]; intros a Hin; [exact Hin|].
  cbn [ref_run] in Hin. destruct o; cbn [ref_step] in Hin; destruct Hin as [H|H];
    try discriminate; exact (IH _ H).
Qed.

Theorem fenwick_no_fail : forall vals ops, ops_in_range (zn vals) ops = true ->
  ~ In RFail (run_from vals ops).
Proof. intros vals ops Hr. rewrite fenwick_refines by exact Hr. apply ref_run_no_fail. Qed.

(* queries are pure: the final tree only depends on the updates *)
Definition is_update (o : op) : bool := match o with OUpdate _ _ => true | _ => false end.

Theorem fenwick_queries_pure : forall ops t,
  fst (run t ops) = fst (run t (filter is_update ops)).
Proof.
  induction ops as [|o rest IH]; intros t; [reflexivity|].
  destruct o as [i d|i|l r]; cbn [filter is_update run].
  - destruct (step t (OUpdate i d)) as [t' r0]. specialize (IH t').
    destruct (run t' rest) as [t1 rs1]. destruct (run t' (filter is_update rest)) as [t2 rs2].
    exact IH.
  - assert (E : fst (step t (OPrefix i)) = t).
    { cbn [step]. destruct (prefix (fuel_of t) t i 0); reflexivity. }
    destruct (step t (OPrefix i)) as [t' r0]. cbn [fst] in E. subst t'.
    specialize (IH t). destruct (run t rest) as [t1 rs1]. exact IH.
  - assert (E : fst (step t (ORange l r)) = t).
    { cbn [step]. destruct (range_sum t l r); reflexivity. }
    destruct (step t (ORange l r)) as [t' r0]. cbn [fst] in E. subst t'.
    specialize (IH t). destruct (run t rest) as [t1 rs1]. exact IH.
Qed.
