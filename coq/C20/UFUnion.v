(* Linking two roots (union by rank): forest, rank and root-count bookkeeping, and the refinement
   of the `joined` relation. *)
From Coq Require Import List Arith Bool Lia Relations.
From SV Require Import C20.UF C20.UFSpec C20.UFBasics.
Import ListNotations.

(* ---------- joined ---------- *)
Lemma joined_refl : forall pre x, joined pre x x.
Proof. intros. apply rst_refl. Qed.
Lemma joined_sym : forall pre x y, joined pre x y -> joined pre y x.
Proof. intros. apply rst_sym. assumption. Qed.
Lemma joined_trans : forall pre x y z, joined pre x y -> joined pre y z -> joined pre x z.
Proof. intros. eapply rst_trans; eassumption. Qed.

Lemma joined_mono : forall pre pre' x y, incl pre pre' -> joined pre x y -> joined pre' x y.
Proof.
  intros pre pre' x y Hi H. induction H as [a b Hab|a|a b H IH|a b c H1 IH1 H2 IH2].
  - apply rst_step. apply Hi. exact Hab.
  - apply rst_refl.
  - apply rst_sym. exact IH.
  - eapply rst_trans; eassumption.
Qed.

Lemma joined_nil : forall x y, joined [] x y -> x = y.
Proof.
  intros x y H. induction H as [a b Hab|a|a b H IH|a b c H1 IH1 H2 IH2];
    [destruct Hab|reflexivity|congruence|congruence].
Qed.

Lemma joined_add_redundant : forall pre x y, joined pre x y ->
  forall a b, joined (pre ++ [(x, y)]) a b <-> joined pre a b.
Proof.
  intros pre x y Hxy a b. split.
  - intros H. induction H as [a b Hab|a|a b H IH|a b c H1 IH1 H2 IH2].
    + apply in_app_or in Hab. destruct Hab as [Hab|[Hab|[]]].
      * apply rst_step. exact Hab.
      * inversion Hab; subst. exact Hxy.
    + apply rst_refl.
    + apply rst_sym. exact IH.
    + eapply rst_trans; eassumption.
  - apply joined_mono. apply incl_appl. apply incl_refl.
Qed.

(* ---------- same ---------- *)
Lemma same_sym : forall p x y, same p x y -> same p y x.
Proof. intros p x y [r [H1 H2]]. exists r. split; assumption. Qed.

Lemma same_trans : forall p x y z, same p x y -> same p y z -> same p x z.
Proof.
  intros p x y z [r [H1 H2]] [r' [H3 H4]].
  rewrite <- (root_of_det _ _ _ _ H2 H3) in H4. exists r. split; assumption.
Qed.

(* refinement relation between the parent forest and the united pairs *)
Definition Rep (pre : list (nat * nat)) (p : list nat) : Prop :=
  forall x y, same p x y <-> joined pre x y.

Lemma Rep_same_roots : forall pre p p', same_roots p p' -> Rep pre p -> Rep pre p'.
Proof.
  intros pre p p' Hs HR x y. rewrite <- (same_roots_same p p' x y Hs). apply HR.
Qed.

Lemma Rep_root : forall pre p x r, Rep pre p -> root_of p x r -> joined pre x r.
Proof.
  intros pre p x r HR H. apply HR. exists r. split; [exact H|].
  apply ro_root. eapply root_of_is_root. exact H.
Qed.

(* ---------- linking ---------- *)
Lemma link_root : forall p c r, c < length p -> nth c p c = c -> nth r p r = r -> c <> r ->
  forall z rz, root_of p z rz -> root_of (set_nth c r p) z (if rz =? c then r else rz).
Proof.
  intros p c r Hc Hcr Hrr Hne z rz H.
  assert (Hr3 : root_of (set_nth c r p) r r).
  { apply ro_root. rewrite nth_set_nth_neq by exact Hne. exact Hrr. }
  induction H as [x Hx|x rz Hx H IH].
  - destruct (x =? c) eqn:E.
    + apply Nat.eqb_eq in E. subst x. apply ro_step.
      * rewrite nth_set_nth_eq by exact Hc. auto.
      * rewrite nth_set_nth_eq by exact Hc. exact Hr3.
    + apply Nat.eqb_neq in E. apply ro_root. rewrite nth_set_nth_neq by auto. exact Hx.
  - assert (x <> c) by (intros ->; contradiction).
    apply ro_step; rewrite nth_set_nth_neq by auto; assumption.
Qed.

Lemma filter_flip : forall n (f f' : nat -> bool) y, y < n -> f y = true -> f' y = false ->
  (forall i, i <> y -> f' i = f i) ->
  length (filter f' (seq 0 n)) + 1 = length (filter f (seq 0 n)).
Proof.
  induction n as [|m IH]; intros f f' y Hy Hfy Hfy' Hext; [lia|].
  rewrite seq_S, !filter_app, !app_length. cbn [plus filter].
  destruct (Nat.eq_dec y m) as [->|Hne].
  - rewrite Hfy, Hfy'. cbn [length].
    rewrite (filter_ext_in f' f (seq 0 m)).
    + lia.
    + intros i Hi. apply in_seq in Hi. apply Hext. lia.
  - rewrite (Hext m) by auto. rewrite <- (IH f f' y) by (auto; lia). lia.
Qed.

Definition link_rank (rk : list nat) (r c : nat) : list nat :=
  if nth r rk 0 =? nth c rk 0 then set_nth r (S (nth r rk 0)) rk else rk.

Lemma link_rank_other : forall rk r c j, j <> r -> nth j (link_rank rk r c) 0 = nth j rk 0.
Proof.
  intros rk r c j H. unfold link_rank. destruct (_ =? _); [|reflexivity].
  apply nth_set_nth_neq. auto.
Qed.

Lemma link_rank_ge : forall rk r c j, nth j rk 0 <= nth j (link_rank rk r c) 0 <= S (nth j rk 0).
Proof.
  intros rk r c j. destruct (Nat.eq_dec j r) as [->|Hne]; [|rewrite link_rank_other by exact Hne; lia].
  unfold link_rank. destruct (_ =? _); [|lia].
  destruct (Nat.lt_ge_cases r (length rk)) as [Hlt|Hge].
  - rewrite nth_set_nth_eq by exact Hlt. lia.
  - rewrite !nth_overflow; try lia. rewrite length_set_nth. exact Hge.
Qed.

Lemma link_wf : forall n p rk c r, wf n p rk -> c < n -> r < n ->
  nth c p c = c -> nth r p r = r -> c <> r -> nth c rk 0 <= nth r rk 0 ->
  wf n (set_nth c r p) (link_rank rk r c) /\ nroots n (set_nth c r p) + 1 = nroots n p.
Proof.
  intros n p rk c r Hwf Hc Hr Hcr Hrr Hne Hrk. pose proof Hwf as (HL & HLr & Hp & Hrank & Hb).
  assert (Hnr : nroots n (set_nth c r p) + 1 = nroots n p).
  { unfold nroots. apply (filter_flip n _ _ c Hc).
    - unfold is_root. apply Nat.eqb_eq. exact Hcr.
    - unfold is_root. rewrite nth_set_nth_eq by lia. apply Nat.eqb_neq. auto.
    - intros i Hi. unfold is_root. rewrite nth_set_nth_neq by auto. reflexivity. }
  split; [|exact Hnr].
  split; [rewrite length_set_nth; exact HL|].
  split; [unfold link_rank; destruct (_ =? _); [rewrite length_set_nth|]; exact HLr|].
  split; [|split].
  - intros i Hi. destruct (Nat.eq_dec i c) as [->|Hic].
    + rewrite nth_set_nth_eq by lia. exact Hr.
    + rewrite nth_set_nth_neq by auto. apply Hp. exact Hi.
  - intros i Hi. destruct (Nat.eq_dec i c) as [->|Hic].
    + rewrite nth_set_nth_eq by lia. intros _.
      rewrite link_rank_other by exact Hne.
      unfold link_rank. destruct (nth r rk 0 =? nth c rk 0) eqn:E.
      * apply Nat.eqb_eq in E. rewrite nth_set_nth_eq by lia. lia.
      * apply Nat.eqb_neq in E. lia.
    + rewrite nth_set_nth_neq by auto. intros Hnr'.
      assert (i <> r) by (intros ->; contradiction).
      rewrite link_rank_other by assumption.
      pose proof (Hrank i Hi Hnr'). pose proof (link_rank_ge rk r c (nth i p i)). lia.
  - intros i Hi. pose proof (Hb i Hi). pose proof (link_rank_ge rk r c i). lia.
Qed.

Lemma link_rep : forall n p rk pre c r x y rx ry, wf n p rk -> Rep pre p ->
  c < n -> nth c p c = c -> nth r p r = r -> c <> r ->
  root_of p x rx -> root_of p y ry -> ((rx = r /\ ry = c) \/ (rx = c /\ ry = r)) ->
  Rep (pre ++ [(x, y)]) (set_nth c r p).
Proof.
  intros n p rk pre c r x y rx ry Hwf HR Hc Hcr Hrr Hne Hx Hy Hcase.
  assert (HcL : c < length p) by (destruct Hwf as (HL & _); lia).
  pose proof (link_root p c r HcL Hcr Hrr Hne) as HL.
  assert (Hrho : forall z, (if z =? c then r else z) = if z =? c then r else z) by reflexivity.
  assert (Hxy3 : same (set_nth c r p) x y).
  { exists r. pose proof (HL x rx Hx) as H1. pose proof (HL y ry Hy) as H2.
    destruct Hcase as [[-> ->]|[-> ->]].
    - rewrite Nat.eqb_refl in H2. destruct (r =? c) eqn:E; [apply Nat.eqb_eq in E; congruence|].
      split; assumption.
    - rewrite Nat.eqb_refl in H1. destruct (r =? c) eqn:E; [apply Nat.eqb_eq in E; congruence|].
      split; assumption. }
  assert (Hold : forall a b, same p a b -> same (set_nth c r p) a b).
  { intros a b [r0 [Ha Hb]]. exists (if r0 =? c then r else r0). split; apply HL; assumption. }
  assert (Hcr' : joined (pre ++ [(x, y)]) c r).
  { assert (Hxy : joined (pre ++ [(x, y)]) x y) by (apply rst_step; apply in_or_app; right; left; reflexivity).
    assert (Hinc : incl pre (pre ++ [(x, y)])) by (apply incl_appl; apply incl_refl).
    pose proof (joined_mono _ _ _ _ Hinc (Rep_root pre p x rx HR Hx)) as Jx.
    pose proof (joined_mono _ _ _ _ Hinc (Rep_root pre p y ry HR Hy)) as Jy.
    destruct Hcase as [[-> ->]|[-> ->]].
    - apply joined_sym. eapply joined_trans; [apply joined_sym; exact Jx|].
      eapply joined_trans; [exact Hxy|exact Jy].
    - eapply joined_trans; [apply joined_sym; exact Jx|].
      eapply joined_trans; [exact Hxy|exact Jy]. }
  intros a b. split.
  - intros [r3 [Ha3 Hb3]].
    destruct (root_total n p rk a Hwf) as [ra Hra]. destruct (root_total n p rk b Hwf) as [rb Hrb].
    pose proof (root_of_det _ _ _ _ Ha3 (HL a ra Hra)) as Ea.
    pose proof (root_of_det _ _ _ _ Hb3 (HL b rb Hrb)) as Eb.
    assert (Hinc : incl pre (pre ++ [(x, y)])) by (apply incl_appl; apply incl_refl).
    pose proof (joined_mono _ _ _ _ Hinc (Rep_root pre p a ra HR Hra)) as Ja.
    pose proof (joined_mono _ _ _ _ Hinc (Rep_root pre p b rb HR Hrb)) as Jb.
    destruct (ra =? c) eqn:E1; destruct (rb =? c) eqn:E2;
      try apply Nat.eqb_eq in E1; try apply Nat.eqb_eq in E2; subst.
    + eapply joined_trans; [exact Ja|apply joined_sym; exact Jb].
    + eapply joined_trans; [exact Ja|]. eapply joined_trans; [exact Hcr'|apply joined_sym; exact Jb].
    + eapply joined_trans; [exact Ja|]. eapply joined_trans; [apply joined_sym; exact Hcr'|apply joined_sym; exact Jb].
    + eapply joined_trans; [exact Ja|apply joined_sym; exact Jb].
  - intros H. induction H as [a b Hab|a|a b H IH|a b d H1 IH1 H2 IH2].
    + apply in_app_or in Hab. destruct Hab as [Hab|[Hab|[]]].
      * apply Hold. apply HR. apply rst_step. exact Hab.
      * inversion Hab; subst. exact Hxy3.
    + apply Hold. destruct (root_total n p rk a Hwf) as [ra Hra]. exists ra. split; exact Hra.
    + apply same_sym. exact IH.
    + eapply same_trans; eassumption.
Qed.
