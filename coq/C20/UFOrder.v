(* Order of the get_components / component_sizes answers: member lists ascending, components in
   order of their smallest member (Python dict insertion order over `for i in range(n)`).
   Together with UFSpec.is_partition this pins the answer down uniquely (comps_unique). *)
From Coq Require Import List Arith Bool Lia Relations Sorted Permutation.
From SV Require Import C20.UF C20.UFSpec C20.UFBasics C20.UFUnion C20.UFComps C20.UFProofs.
Import ListNotations.

Definition comps_ordered (cs : list (list nat)) : Prop :=
  Forall (fun c => StronglySorted lt c) cs /\ StronglySorted lt (map (hd 0) cs).

Definition entry_ok (i : nat) (e : nat * list nat) : Prop :=
  snd e <> [] /\ StronglySorted lt (snd e) /\ Forall (fun j => j < i) (snd e).

Definition heads (g : grp) : list nat := map (fun e => hd 0 (snd e)) g.

Definition GO (i : nat) (g : grp) : Prop :=
  Forall (entry_ok i) g /\ StronglySorted lt (heads g).

Lemma SSorted_snoc : forall l i, StronglySorted lt l -> Forall (fun j => j < i) l ->
  StronglySorted lt (l ++ [i]).
Proof.
  induction l as [|x xs IH]; intros i Hs Hf; cbn.
  - constructor; constructor.
  - inversion Hs as [|a l Hs' Hfa]; subst. inversion Hf as [|a l Hx Hf']; subst.
    constructor; [apply IH; assumption|].
    apply Forall_app. split; [exact Hfa|]. constructor; [exact Hx|constructor].
Qed.

Lemma entry_ok_weaken : forall i e, entry_ok i e -> entry_ok (S i) e.
Proof.
  intros i e (Hne & Hs & Hf). split; [exact Hne|]. split; [exact Hs|].
  eapply Forall_impl; [|exact Hf]. intros a Ha. cbn in Ha. lia.
Qed.

Lemma entry_ok_hd_lt : forall i e, entry_ok i e -> hd 0 (snd e) < i.
Proof.
  intros i [k ms] (Hne & _ & Hf). cbn in *. destruct ms as [|x xs]; [contradiction|].
  inversion Hf; subst. assumption.
Qed.

Lemma group_add_heads : forall r i g, Forall (entry_ok i) g ->
  forall x, In x (heads (group_add r i g)) -> In x (heads g) \/ x = i.
Proof.
  intros r i. induction g as [|[k ms] rest IH]; intros Hok x Hin.
  - cbn in Hin. destruct Hin as [<-|[]]. right. reflexivity.
  - inversion Hok as [|e l He Hrest]; subst. cbn [group_add] in Hin. destruct (k =? r).
    + cbn in Hin. destruct Hin as [<-|Hin].
      * left. left. cbn. destruct He as (Hne & _). cbn in Hne. destruct ms; [contradiction|reflexivity].
      * left. right. exact Hin.
    + cbn in Hin. destruct Hin as [<-|Hin]; [left; left; reflexivity|].
      destruct (IH Hrest x Hin) as [H|H]; [left; right; exact H|right; exact H].
Qed.

Lemma group_add_GO : forall r i g, GO i g -> GO (S i) (group_add r i g).
Proof.
  intros r i. induction g as [|[k ms] rest IH]; intros [Hok Hh].
  - cbn. split.
    + constructor; [|constructor]. split; [discriminate|]. cbn.
      split; [constructor; constructor|]. constructor; [lia|constructor].
    + cbn. constructor; constructor.
  - inversion Hok as [|e l He Hrest]; subst. cbn [heads map snd] in Hh.
    inversion Hh as [|a l Hh' Hlt]; subst.
    cbn [group_add]. destruct (k =? r) eqn:E.
    + split.
      * constructor.
        -- destruct He as (Hne & Hs & Hf). cbn in *. split; [destruct ms; discriminate|].
           split; [apply SSorted_snoc; assumption|].
           apply Forall_app. split; [eapply Forall_impl; [|exact Hf]; intros a Ha; cbn in Ha; lia|].
           constructor; [lia|constructor].
        -- eapply Forall_impl; [|exact Hrest]. apply entry_ok_weaken.
      * cbn [heads map snd]. destruct He as (Hne & _). cbn in Hne.
        destruct ms as [|m ms']; [contradiction|]. cbn. constructor; assumption.
    + destruct (IH (conj Hrest Hh')) as [Hok' Hh''].
      split; [constructor; [apply entry_ok_weaken; exact He|exact Hok']|].
      cbn [heads map snd]. constructor; [exact Hh''|].
      apply Forall_forall. intros x Hx.
      destruct (group_add_heads r i rest Hrest x Hx) as [H|E'].
      * rewrite Forall_forall in Hlt. apply Hlt. exact H.
      * subst x. apply (entry_ok_hd_lt i (k, ms) He).
Qed.

Lemma group_roots_GO : forall rs i g, GO i g -> GO (i + length rs) (group_roots i rs g).
Proof.
  induction rs as [|r rs IH]; intros i g H; cbn [group_roots length].
  - rewrite Nat.add_0_r. exact H.
  - replace (i + S (length rs)) with (S i + length rs) by lia. apply IH. apply group_add_GO. exact H.
Qed.

Lemma GO_ordered : forall i g, GO i g -> comps_ordered (map snd g).
Proof.
  intros i g [Hok Hh]. split.
  - apply Forall_map. eapply Forall_impl; [|exact Hok]. intros e (_ & Hs & _). exact Hs.
  - unfold heads in Hh. rewrite map_map. exact Hh.
Qed.

Theorem get_components_ordered : forall u u' cs, get_components u = Some (u', cs) -> comps_ordered cs.
Proof.
  intros u u' cs H. unfold get_components in H.
  destruct (roots_loop _ _ _) as [[p' rs]|]; [|discriminate]. inversion H; subst.
  apply (GO_ordered (0 + length rs)). apply group_roots_GO. split; constructor.
Qed.

(* strengthened output specification: adds the ordering to UFSpec.out_ok *)
Definition out_ok_ord (n : nat) (pre : list (nat * nat)) (o : op) (r : out) : Prop :=
  out_ok n pre o r /\
  match o, r with
  | OComps, RSets cs => comps_ordered cs
  | OSizes, RNats l => exists cs, is_partition n (joined pre) cs /\ comps_ordered cs /\ l = map (@length nat) cs
  | _, _ => True
  end.

Fixpoint spec_ok_ord (n : nat) (pre : list (nat * nat)) (ops : list op) (outs : list out) : Prop :=
  match ops, outs with
  | [], [] => True
  | o :: ops', r :: outs' => out_ok_ord n pre o r /\ spec_ok_ord n (pre ++ pairs_of o) ops' outs'
  | _, _ => False
  end.

Lemma step_ok_ord : forall n pre u o, SInv n pre u -> op_in_range n o = true ->
  out_ok_ord n pre o (snd (step u o)) /\ SInv n (pre ++ pairs_of o) (fst (step u o)).
Proof.
  intros n pre u o HS Hr. destruct (step_ok n pre u o HS Hr) as [Hout HS'].
  split; [|exact HS']. split; [exact Hout|].
  destruct o as [x y|x|x y| | |]; cbn [step] in *.
  - destruct (union u x y) as [[u' b]|]; exact I.
  - destruct (find_op u x) as [[u' b]|]; exact I.
  - destruct (connected u x y) as [[u' b]|]; exact I.
  - exact I.
  - destruct (comps_ok n pre u HS) as (u' & cs & Hg & Hp & _).
    unfold component_sizes. rewrite Hg. cbn. exists cs. split; [exact Hp|].
    split; [eapply get_components_ordered; exact Hg|reflexivity].
  - destruct (get_components u) as [[u' cs]|] eqn:Hg; cbn; [|exact I].
    eapply get_components_ordered. exact Hg.
Qed.

Lemma run_spec_ord : forall n ops pre u, SInv n pre u -> ops_in_range n ops = true ->
  spec_ok_ord n pre ops (snd (run u ops)).
Proof.
  intros n. induction ops as [|o ops IH]; intros pre u HS Hr; [exact I|].
  rewrite ops_in_range_cons in Hr. apply andb_true_iff in Hr. destruct Hr as [Ho Hr].
  destruct (step_ok_ord n pre u o HS Ho) as [Hout HS'].
  cbn [run]. destruct (step u o) as [u' r]. cbn [fst snd] in *.
  specialize (IH (pre ++ pairs_of o) u' HS' Hr).
  destruct (run u' ops) as [u'' rs]. cbn [snd] in *. split; assumption.
Qed.

Theorem uf_refines_ordered : forall n ops, ops_in_range n ops = true ->
  spec_ok_ord n [] ops (run_from n ops).
Proof. intros n ops Hr. apply (run_spec_ord n ops [] (uf_init n) (init_SInv n) Hr). Qed.

(* ---------- the ordered partition is unique ---------- *)
Lemma keysorted_ext {A} (f : A -> nat) : forall l l',
  StronglySorted (fun a b => f a < f b) l -> StronglySorted (fun a b => f a < f b) l' ->
  (forall x, In x l <-> In x l') -> l = l'.
Proof.
  induction l as [|a l IH]; intros l' Hs Hs' Hext.
  - destruct l' as [|b l']; [reflexivity|]. exfalso. apply (proj2 (Hext b)). left. reflexivity.
  - destruct l' as [|b l']; [exfalso; apply (proj1 (Hext a)); left; reflexivity|].
    inversion Hs as [|x xs Hs1 Hf1]; subst. inversion Hs' as [|x xs Hs2 Hf2]; subst.
    rewrite Forall_forall in Hf1, Hf2.
    assert (Eab : a = b).
    { destruct (proj1 (Hext a) (or_introl eq_refl)) as [E|Hin]; [auto|].
      destruct (proj2 (Hext b) (or_introl eq_refl)) as [E|Hin']; [auto|].
      pose proof (Hf2 a Hin). pose proof (Hf1 b Hin'). lia. }
    subst b. f_equal. apply IH; [exact Hs1|exact Hs2|].
    intros x. split; intros Hx.
    + destruct (proj1 (Hext x) (or_intror Hx)) as [E|H]; [|exact H].
      subst x. pose proof (Hf1 a Hx). lia.
    + destruct (proj2 (Hext x) (or_intror Hx)) as [E|H]; [|exact H].
      subst x. pose proof (Hf2 a Hx). lia.
Qed.

Lemma SSorted_map_key {A} (f : A -> nat) : forall l,
  StronglySorted lt (map f l) -> StronglySorted (fun a b => f a < f b) l.
Proof.
  induction l as [|a l IH]; intros H; [constructor|].
  cbn in H. inversion H as [|x xs Hs Hf]; subst. constructor; [apply IH; exact Hs|].
  rewrite Forall_forall in *. intros b Hb. apply Hf. apply in_map. exact Hb.
Qed.

Lemma partition_cover : forall n R cs x, is_partition n R cs -> x < n -> exists c, In c cs /\ In x c.
Proof.
  intros n R cs x (Hperm & _) Hx.
  assert (H : In x (concat cs)).
  { apply (Permutation_in _ (Permutation_sym Hperm)). apply in_seq. lia. }
  apply in_concat in H. exact H.
Qed.

Lemma partition_lt : forall n R cs c x, is_partition n R cs -> In c cs -> In x c -> x < n.
Proof.
  intros n R cs c x (Hperm & _) Hc Hx.
  assert (H : In x (concat cs)) by (apply in_concat; exists c; auto).
  apply (Permutation_in _ Hperm) in H. apply in_seq in H. lia.
Qed.

Lemma partition_members_incl : forall n R cs cs', is_partition n R cs -> comps_ordered cs ->
  is_partition n R cs' -> comps_ordered cs' -> forall c, In c cs -> In c cs'.
Proof.
  intros n R cs cs' HP [HO _] HP' [HO' _] c Hc.
  pose proof HP as (_ & Hne & Hcls). pose proof HP' as (_ & _ & Hcls').
  destruct c as [|x xs] eqn:Ec; [exfalso; exact (Hne [] Hc eq_refl)|]. rewrite <- Ec in *.
  assert (Hx : In x c) by (rewrite Ec; left; reflexivity).
  pose proof (partition_lt n R cs c x HP Hc Hx) as Hxn.
  destruct (partition_cover n R cs' x HP' Hxn) as [c' [Hc' Hx']].
  assert (E : c = c'); [|rewrite E; exact Hc'].
  rewrite Forall_forall in HO, HO'.
  apply (keysorted_ext (fun a => a)); [apply HO; exact Hc|apply HO'; exact Hc'|].
  intros y. rewrite (Hcls c x y Hc Hx), (Hcls' c' x y Hc' Hx'). reflexivity.
Qed.

Theorem comps_unique : forall n R cs cs', is_partition n R cs -> comps_ordered cs ->
  is_partition n R cs' -> comps_ordered cs' -> cs = cs'.
Proof.
  intros n R cs cs' HP HO HP' HO'.
  apply (keysorted_ext (hd 0)).
  - apply SSorted_map_key. exact (proj2 HO).
  - apply SSorted_map_key. exact (proj2 HO').
  - intros c. split; apply (partition_members_incl n R); assumption.
Qed.
