(* num_classes determines the count: two duplicate-free systems of representatives of an
   equivalence relation have the same length. *)
From Coq Require Import List Arith Bool Lia Relations.
From SV Require Import C20.UF C20.UFSpec C20.UFUnion.
Import ListNotations.

Lemma reps_inj_le : forall (R : nat -> nat -> Prop) reps reps',
  NoDup reps ->
  (forall r, In r reps -> exists r', In r' reps' /\ R r r') ->
  (forall r1 r2 r', In r1 reps -> In r2 reps -> R r1 r' -> R r2 r' -> r1 = r2) ->
  length reps <= length reps'.
Proof.
  intros R. induction reps as [|r rest IH]; intros reps' Hnd Hex Hinj; [cbn; lia|].
  inversion Hnd as [|a l Hnin Hnd']; subst.
  destruct (Hex r (or_introl eq_refl)) as [r' [Hin' Hrr']].
  destruct (in_split _ _ Hin') as [l1 [l2 ->]].
  rewrite app_length. cbn [length].
  assert (length rest <= length (l1 ++ l2)); [|rewrite app_length in *; lia].
  apply IH; [exact Hnd'| |].
  - intros r2 Hr2. destruct (Hex r2 (or_intror Hr2)) as [r2' [Hin2 HR2]].
    exists r2'. split; [|exact HR2].
    apply in_app_or in Hin2. destruct Hin2 as [H|[H|H]].
    + apply in_or_app. left. exact H.
    + subst r2'. exfalso. apply Hnin.
      rewrite (Hinj r r2 r' (or_introl eq_refl) (or_intror Hr2) Hrr' HR2). exact Hr2.
    + apply in_or_app. right. exact H.
  - intros r1 r2 x H1 H2. apply Hinj; right; assumption.
Qed.

Theorem num_classes_unique : forall n pre c c',
  num_classes n (joined pre) c -> num_classes n (joined pre) c' -> c = c'.
Proof.
  assert (Hle : forall n pre c c', num_classes n (joined pre) c -> num_classes n (joined pre) c' -> c <= c').
  { intros n pre c c' (reps & Hnd & HL & Hlt & Hcov & Hsep) (reps' & Hnd' & HL' & Hlt' & Hcov' & Hsep').
    subst c c'. apply (reps_inj_le (joined pre)); [exact Hnd| |].
    - intros r Hr. apply Hcov'. apply Hlt. exact Hr.
    - intros r1 r2 r' H1 H2 J1 J2. apply Hsep; [exact H1|exact H2|].
      eapply joined_trans; [exact J1|apply joined_sym; exact J2]. }
  intros n pre c c' H H'. apply Nat.le_antisymm; eapply Hle; eassumption.
Qed.
