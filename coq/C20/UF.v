(* Model of solvor/utils/data_structures.py: class UnionFind (lines 74-149).  Definitions only.
   Python ints are modelled by nat (indices, ranks, counts are all non-negative and unbounded).
   `find` is the recursive path-compressing find of the code, on explicit fuel; fuel exhaustion is
   reported as None (the theorems show it never happens from reachable states with fuel = n). *)
From Coq Require Import List Arith Bool.
From SV Require Import Common.Corr.
Import ListNotations.

Record uf := { parent : list nat; rank : list nat; count : nat }.

Definition uf_init (n : nat) : uf :=
  {| parent := seq 0 n; rank := repeat 0 n; count := n |}.

Fixpoint set_nth {A} (i : nat) (v : A) (l : list A) : list A :=
  match l, i with
  | [], _ => []
  | _ :: xs, 0 => v :: xs
  | x :: xs, S j => x :: set_nth j v xs
  end.

(* def find(self, x):
       if self._parent[x] != x: self._parent[x] = self.find(self._parent[x])
       return self._parent[x]                                                   *)
Fixpoint find (fuel : nat) (p : list nat) (x : nat) : option (list nat * nat) :=
  match fuel with
  | 0 => None
  | S f =>
      let px := nth x p x in
      if px =? x then Some (p, x)
      else match find f p px with
           | None => None
           | Some (p', r) => Some (set_nth x r p', r)
           end
  end.

Definition fuel_of (u : uf) : nat := S (length (parent u)).

(* def union(self, x, y) -> bool *)
Definition union (u : uf) (x y : nat) : option (uf * bool) :=
  match find (fuel_of u) (parent u) x with
  | None => None
  | Some (p1, rx) =>
    match find (fuel_of u) p1 y with
    | None => None
    | Some (p2, ry) =>
      if rx =? ry then Some ({| parent := p2; rank := rank u; count := count u |}, false)
      else
        let '(rx', ry') :=
          if nth rx (rank u) 0 <? nth ry (rank u) 0 then (ry, rx) else (rx, ry) in
        let p3 := set_nth ry' rx' p2 in
        let rk := if nth rx' (rank u) 0 =? nth ry' (rank u) 0
                  then set_nth rx' (S (nth rx' (rank u) 0)) (rank u) else rank u in
        Some ({| parent := p3; rank := rk; count := count u - 1 |}, true)
    end
  end.

(* def connected(self, x, y): return self.find(x) == self.find(y) *)
Definition connected (u : uf) (x y : nat) : option (uf * bool) :=
  match find (fuel_of u) (parent u) x with
  | None => None
  | Some (p1, rx) =>
    match find (fuel_of u) p1 y with
    | None => None
    | Some (p2, ry) => Some ({| parent := p2; rank := rank u; count := count u |}, rx =? ry)
    end
  end.

Definition find_op (u : uf) (x : nat) : option (uf * nat) :=
  match find (fuel_of u) (parent u) x with
  | None => None
  | Some (p1, r) => Some ({| parent := p1; rank := rank u; count := count u |}, r)
  end.

(* roots of 0..n-1 in index order, threading the compression: the loop
   `for i in range(n): root = self.find(i)` shared by component_sizes and get_components *)
Fixpoint roots_loop (fuel : nat) (p : list nat) (is : list nat) : option (list nat * list nat) :=
  match is with
  | [] => Some (p, [])
  | i :: rest =>
    match find fuel p i with
    | None => None
    | Some (p', r) =>
      match roots_loop fuel p' rest with
      | None => None
      | Some (p'', rs) => Some (p'', r :: rs)
      end
    end
  end.

(* insertion-ordered dict: key -> list of members (first occurrence order of keys, as Python dicts) *)
Fixpoint group_add (r i : nat) (g : list (nat * list nat)) : list (nat * list nat) :=
  match g with
  | [] => [(r, [i])]
  | (k, ms) :: rest => if k =? r then (k, ms ++ [i]) :: rest else (k, ms) :: group_add r i rest
  end.

Fixpoint group_roots (i : nat) (rs : list nat) (g : list (nat * list nat)) : list (nat * list nat) :=
  match rs with
  | [] => g
  | r :: rest => group_roots (S i) rest (group_add r i g)
  end.

(* get_components(): list (in dict order of first root occurrence) of member lists (ascending) *)
Definition get_components (u : uf) : option (uf * list (list nat)) :=
  let n := length (parent u) in
  match roots_loop (fuel_of u) (parent u) (seq 0 n) with
  | None => None
  | Some (p', rs) =>
      Some ({| parent := p'; rank := rank u; count := count u |}, map snd (group_roots 0 rs []))
  end.

Definition component_sizes (u : uf) : option (uf * list nat) :=
  match get_components u with
  | None => None
  | Some (u', cs) => Some (u', map (@length nat) cs)
  end.

(* operation histories *)
Inductive op :=
| OUnion (x y : nat) | OFind (x : nat) | OConnected (x y : nat)
| OCount | OSizes | OComps.

Inductive out :=
| RBool (b : bool) | RNat (n : nat) | RNats (l : list nat) | RSets (l : list (list nat)) | RFail.

Definition step (u : uf) (o : op) : uf * out :=
  match o with
  | OUnion x y => match union u x y with Some (u', b) => (u', RBool b) | None => (u, RFail) end
  | OFind x => match find_op u x with Some (u', r) => (u', RNat r) | None => (u, RFail) end
  | OConnected x y => match connected u x y with Some (u', b) => (u', RBool b) | None => (u, RFail) end
  | OCount => (u, RNat (count u))
  | OSizes => match component_sizes u with Some (u', l) => (u', RNats l) | None => (u, RFail) end
  | OComps => match get_components u with Some (u', l) => (u', RSets l) | None => (u, RFail) end
  end.

Fixpoint run (u : uf) (ops : list op) : uf * list out :=
  match ops with
  | [] => (u, [])
  | o :: rest => let '(u', r) := step u o in let '(u'', rs) := run u' rest in (u'', r :: rs)
  end.

Definition run_from (n : nat) (ops : list op) : list out := snd (run (uf_init n) ops).

(* boolean equality of outputs, for the correspondence check *)
Definition out_eqb (a b : out) : bool :=
  match a, b with
  | RBool x, RBool y => Bool.eqb x y
  | RNat x, RNat y => x =? y
  | RNats x, RNats y => list_eqb Nat.eqb x y
  | RSets x, RSets y => list_eqb (list_eqb Nat.eqb) x y
  | _, _ => false
  end.

Definition ops_in_range (n : nat) (ops : list op) : bool :=
  forallb (fun o => match o with
                    | OUnion x y | OConnected x y => (x <? n) && (y <? n)
                    | OFind x => x <? n
                    | _ => true end) ops.
