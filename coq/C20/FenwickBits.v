(* Bit-level facts about the Fenwick index walks  g(j) = j & (j+1)  and  h(j) = j | (j+1) = up j.
   All bit reasoning of C20 lives in the four recursion equations g_even/g_odd/h_even/h_odd
   (proved by Z.testbit extensionality); everything else is binary induction + lia. *)
From Coq Require Import List ZArith Bool Lia.
From SV Require Import C20.Fenwick.
Open Scope Z_scope.

Definition g (j : Z) : Z := Z.land j (j + 1).
Definition h (j : Z) : Z := Z.lor j (j + 1).

Lemma up_is_h : forall i, up i = h i. Proof. reflexivity. Qed.
Lemma down_is_g : forall i, down i = g i - 1. Proof. reflexivity. Qed.

Lemma g_even : forall k, g (2 * k) = 2 * k.
Proof.
  intros k. unfold g. apply Z.bits_inj'. intros n Hn.
  rewrite Z.land_spec.
  destruct (Z.eq_dec n 0) as [->|Hz].
  - rewrite Z.testbit_even_0, Z.testbit_odd_0. reflexivity.
  - replace n with (Z.succ (n - 1)) by lia.
    rewrite Z.testbit_even_succ, Z.testbit_odd_succ by lia.
    apply andb_diag.
Qed.

Lemma g_odd : forall k, g (2 * k + 1) = 2 * g k.
Proof.
  intros k. unfold g. apply Z.bits_inj'. intros n Hn.
  replace (2 * k + 1 + 1) with (2 * (k + 1)) by lia.
  rewrite Z.land_spec.
  destruct (Z.eq_dec n 0) as [->|Hz].
  - rewrite Z.testbit_even_0, Z.testbit_odd_0, Z.testbit_even_0. reflexivity.
  - replace n with (Z.succ (n - 1)) by lia.
    rewrite !Z.testbit_even_succ, Z.testbit_odd_succ by lia.
    rewrite Z.land_spec. reflexivity.
Qed.

Lemma h_even : forall k, h (2 * k) = 2 * k + 1.
Proof.
  intros k. unfold h. apply Z.bits_inj'. intros n Hn.
  rewrite Z.lor_spec.
  destruct (Z.eq_dec n 0) as [->|Hz].
  - rewrite Z.testbit_even_0, !Z.testbit_odd_0. reflexivity.
  - replace n with (Z.succ (n - 1)) by lia.
    rewrite Z.testbit_even_succ, !Z.testbit_odd_succ by lia.
    apply orb_diag.
Qed.

Lemma h_odd : forall k, h (2 * k + 1) = 2 * h k + 1.
Proof.
  intros k. unfold h. apply Z.bits_inj'. intros n Hn.
  replace (2 * k + 1 + 1) with (2 * (k + 1)) by lia.
  rewrite Z.lor_spec.
  destruct (Z.eq_dec n 0) as [->|Hz].
  - rewrite Z.testbit_even_0, !Z.testbit_odd_0. reflexivity.
  - replace n with (Z.succ (n - 1)) by lia.
    rewrite Z.testbit_even_succ, !Z.testbit_odd_succ by lia.
    rewrite Z.lor_spec. reflexivity.
Qed.

(* binary induction on non-negative integers *)
Lemma bin_ind (P : Z -> Prop) :
  P 0 ->
  (forall k, 0 < k -> P k -> P (2 * k)) ->
  (forall k, 0 <= k -> P k -> P (2 * k + 1)) ->
  forall j, 0 <= j -> P j.
Proof.
  intros H0 He Ho j Hj. generalize Hj. pattern j. apply Z_lt_induction; [|exact Hj].
  clear j Hj. intros x IH Hx.
  assert (Hd : x = 2 * (x / 2) + x mod 2) by (apply Z.div_mod; lia).
  assert (Hm : 0 <= x mod 2 < 2) by (apply Z.mod_pos_bound; lia).
  destruct (Z.eq_dec x 0) as [->|Hnz]; [exact H0|].
  destruct (Z.eq_dec (x mod 2) 0) as [E|E].
  - rewrite Hd, E, Z.add_0_r. apply He; [lia|]. apply IH; lia.
  - replace (x mod 2) with 1 in Hd by lia. rewrite Hd. apply Ho; [lia|]. apply IH; lia.
Qed.

(* case split of a non-negative integer into 2m / 2m+1 *)
Lemma parity_cases : forall i, 0 <= i -> exists m, 0 <= m /\ (i = 2 * m \/ i = 2 * m + 1).
Proof.
  intros i Hi. exists (i / 2).
  assert (Hd : i = 2 * (i / 2) + i mod 2) by (apply Z.div_mod; lia).
  assert (Hm : 0 <= i mod 2 < 2) by (apply Z.mod_pos_bound; lia).
  lia.
Qed.

Lemma g_0 : g 0 = 0. Proof. reflexivity. Qed.
Lemma h_0 : h 0 = 1. Proof. reflexivity. Qed.

(* 0 <= g j <= j < h j *)
Lemma g_bounds : forall j, 0 <= j -> 0 <= g j <= j.
Proof.
  apply bin_ind.
  - rewrite g_0; lia.
  - intros k Hk IH. rewrite g_even. lia.
  - intros k Hk IH. rewrite g_odd. lia.
Qed.

Lemma h_gt : forall j, 0 <= j -> j < h j.
Proof.
  apply bin_ind.
  - rewrite h_0; lia.
  - intros k Hk IH. rewrite h_even. lia.
  - intros k Hk IH. rewrite h_odd. lia.
Qed.

(* h j is always odd; an even j is its own left end *)
Lemma h_is_odd : forall i, 0 <= i -> exists q, h i = 2 * q + 1.
Proof.
  intros i Hi. destruct (parity_cases i Hi) as [m [Hm [->| ->]]].
  - exists m. apply h_even.
  - exists (h m). apply h_odd.
Qed.

(* covering lemma: g j <= i < j  ->  g j <= h i <= j *)
Lemma cover_up : forall j, 0 <= j -> forall i, 0 <= i < j -> g j <= i -> g j <= h i <= j.
Proof.
  apply (bin_ind (fun j => forall i, 0 <= i < j -> g j <= i -> g j <= h i <= j)).
  - intros i Hi. lia.
  - intros k Hk IH i Hi Hg. rewrite g_even in *. lia.
  - intros k Hk IH i Hi Hg. rewrite g_odd in *.
    destruct (parity_cases i (proj1 Hi)) as [m [Hm [->| ->]]].
    + rewrite h_even. lia.
    + rewrite h_odd. assert (g k <= h m <= k) by (apply IH; lia). lia.
Qed.

(* converse: i < g j -> h i misses [g j, j] *)
Lemma cover_up_conv : forall j, 0 <= j -> forall i, 0 <= i < g j -> h i < g j \/ j < h i.
Proof.
  apply (bin_ind (fun j => forall i, 0 <= i < g j -> h i < g j \/ j < h i)).
  - intros i Hi. rewrite g_0 in Hi. lia.
  - intros k Hk IH i Hi. rewrite g_even in *.
    destruct (parity_cases i (proj1 Hi)) as [m [Hm [->| ->]]].
    + rewrite h_even. lia.
    + rewrite h_odd. lia.
  - intros k Hk IH i Hi. rewrite g_odd in *.
    destruct (parity_cases i (proj1 Hi)) as [m [Hm [->| ->]]].
    + rewrite h_even. lia.
    + rewrite h_odd. assert (h m < g k \/ k < h m) by (apply IH; lia). lia.
Qed.

(* laminarity: the ranges [g j, j] are nested or disjoint *)
Lemma g_nested : forall j, 0 <= j -> forall i, 0 <= i <= j -> g j <= i -> g j <= g i.
Proof.
  apply (bin_ind (fun j => forall i, 0 <= i <= j -> g j <= i -> g j <= g i)).
  - intros i Hi _. assert (i = 0) by lia. subst. rewrite g_0. lia.
  - intros k Hk IH i Hi Hg. rewrite g_even in *. assert (i = 2 * k) by lia. subst. rewrite g_even. lia.
  - intros k Hk IH i Hi Hg. rewrite g_odd in *.
    destruct (parity_cases i (proj1 Hi)) as [m [Hm [->| ->]]].
    + rewrite g_even. lia.
    + rewrite g_odd. assert (g k <= g m) by (apply IH; lia). lia.
Qed.

(* tiling: the children of j = h c have adjacent ranges *)
Lemma child_adjacent : forall c, 0 <= c -> g (h c) < g c -> h (g c - 1) = h c.
Proof.
  apply (bin_ind (fun c => g (h c) < g c -> h (g c - 1) = h c)).
  - rewrite h_0, g_0. change (g 1) with 0. lia.
  - intros k Hk IH Hlt. rewrite h_even, g_even, g_odd in *.
    (* g k < k forces k odd *)
    destruct (parity_cases k (Z.lt_le_incl _ _ Hk)) as [m [Hm [E|E]]]; subst k.
    + rewrite g_even in Hlt. lia.
    + replace (2 * (2 * m + 1) - 1) with (2 * (2 * m) + 1) by lia.
      rewrite h_odd, h_even. lia.
  - intros k Hk IH Hlt. rewrite h_odd, !g_odd in *.
    pose proof (g_bounds k Hk) as Hb.
    pose proof (h_gt k Hk) as Hh.
    pose proof (g_bounds (h k) ltac:(lia)) as Hb2.
    replace (2 * g k - 1) with (2 * (g k - 1) + 1) by lia.
    rewrite h_odd. rewrite IH by lia. reflexivity.
Qed.

(* cover relation: j's range contains i *)
Definition cover (i j : Z) : bool := (g j <=? i) && (i <=? j).

Lemma cover_self : forall i, 0 <= i -> cover i i = true.
Proof. intros i Hi. unfold cover. pose proof (g_bounds i Hi). lia. Qed.

Lemma cover_step : forall i j, 0 <= i < j -> cover (h i) j = cover i j.
Proof.
  intros i j Hij. unfold cover.
  pose proof (h_gt i (proj1 Hij)) as Hh.
  destruct (Z_le_gt_dec (g j) i) as [Hle|Hgt].
  - pose proof (cover_up j ltac:(lia) i Hij Hle). lia.
  - pose proof (cover_up_conv j ltac:(lia) i ltac:(lia)). lia.
Qed.
