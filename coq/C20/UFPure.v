(* "Queries never change later answers": removing the read operations (find / connected / count /
   sizes / components, which do compress paths) from any prefix of a history leaves every later
   output unchanged.  Proved by a simulation between states with equal ranks, counts and roots. *)
From Coq Require Import List Arith Bool Lia Relations.
From SV Require Import C20.UF C20.UFSpec C20.UFBasics C20.UFUnion C20.UFComps C20.UFProofs.
Import ListNotations.

Definition sim (n : nat) (u u' : uf) : Prop :=
  wf n (parent u) (rank u) /\ wf n (parent u') (rank u') /\
  rank u = rank u' /\ count u = count u' /\ same_roots (parent u) (parent u').

Lemma same_roots_sym : forall p p', same_roots p p' -> same_roots p' p.
Proof. intros p p' H y r. symmetry. apply H. Qed.

Lemma sim_refl : forall n u, wf n (parent u) (rank u) -> sim n u u.
Proof. intros n u H. split; [exact H|]. split; [exact H|]. split; [reflexivity|]. split; [reflexivity|apply same_roots_refl]. Qed.

Lemma sim_trans : forall n a b c, sim n a b -> sim n b c -> sim n a c.
Proof.
  intros n a b c (Ha & _ & Hr1 & Hc1 & Hs1) (_ & Hc & Hr2 & Hc2 & Hs2).
  split; [exact Ha|]. split; [exact Hc|]. split; [congruence|]. split; [congruence|].
  eapply same_roots_trans; eassumption.
Qed.

Lemma find_sim : forall n p p' rk rk' x, wf n p rk -> wf n p' rk' -> same_roots p p' -> x < n ->
  exists p1 p1' r, find (S n) p x = Some (p1, r) /\ find (S n) p' x = Some (p1', r) /\ r < n /\
    root_of p1 x r /\ wf n p1 rk /\ wf n p1' rk' /\ same_roots p1 p1' /\ same_roots p p1.
Proof.
  intros n p p' rk rk' x Hwf Hwf' Hs Hx.
  destruct (find_ok n p rk x Hwf Hx) as (p1 & r & Hf & Hr & Hrn & Hwf1 & Hs1).
  destruct (find_ok n p' rk' x Hwf' Hx) as (p1' & r' & Hf' & Hr' & _ & Hwf1' & Hs1').
  assert (r' = r) by (eapply root_of_det; [exact Hr'|exact (proj1 (Hs _ _) Hr)]). subst r'.
  exists p1, p1', r. split; [exact Hf|]. split; [exact Hf'|]. split; [exact Hrn|].
  split; [exact (proj1 (Hs1 _ _) Hr)|]. split; [exact Hwf1|]. split; [exact Hwf1'|]. split; [|exact Hs1].
  eapply same_roots_trans; [apply same_roots_sym; exact Hs1|].
  eapply same_roots_trans; [exact Hs|exact Hs1'].
Qed.

Lemma link_same_roots : forall n p p' rk rk' c r, wf n p rk -> wf n p' rk' -> same_roots p p' ->
  c < n -> nth c p c = c -> nth r p r = r -> c <> r ->
  same_roots (set_nth c r p) (set_nth c r p').
Proof.
  intros n p p' rk rk' c r Hwf Hwf' Hs Hc Hcr Hrr Hne.
  assert (Hcr' : nth c p' c = c) by (eapply root_of_is_root; apply Hs; apply ro_root; exact Hcr).
  assert (Hrr' : nth r p' r = r) by (eapply root_of_is_root; apply Hs; apply ro_root; exact Hrr).
  assert (HcL : c < length p) by (destruct Hwf as (HL & _); lia).
  assert (HcL' : c < length p') by (destruct Hwf' as (HL & _); lia).
  pose proof (link_root p c r HcL Hcr Hrr Hne) as L.
  pose proof (link_root p' c r HcL' Hcr' Hrr' Hne) as L'.
  intros z w. split; intros H.
  - destruct (root_total n p rk z Hwf) as [rz Hrz].
    rewrite (root_of_det _ _ _ _ H (L z rz Hrz)). apply L'. apply Hs. exact Hrz.
  - destruct (root_total n p' rk' z Hwf') as [rz Hrz].
    rewrite (root_of_det _ _ _ _ H (L' z rz Hrz)). apply L. apply Hs. exact Hrz.
Qed.

Lemma Forall2_root_det : forall p p' l rs rs', same_roots p p' ->
  Forall2 (root_of p) l rs -> Forall2 (root_of p') l rs' -> rs = rs'.
Proof.
  intros p p' l rs rs' Hs H. revert rs'. induction H as [|a b l rs Hab H IH]; intros rs' H'.
  - inversion H'. reflexivity.
  - inversion H' as [|a' b' l' rs0 Hab' H0]; subst. f_equal.
    + eapply root_of_det; [exact (proj1 (Hs _ _) Hab)|exact Hab'].
    + apply IH. exact H0.
Qed.

Lemma fuel_wf : forall n u, wf n (parent u) (rank u) -> fuel_of u = S n.
Proof. intros n u (HL & _). unfold fuel_of. now rewrite HL. Qed.

Lemma mk_sim : forall n p p' rk rk' c c', wf n p rk -> wf n p' rk' -> rk = rk' -> c = c' ->
  same_roots p p' ->
  sim n {| parent := p; rank := rk; count := c |} {| parent := p'; rank := rk'; count := c' |}.
Proof. intros. unfold sim. cbn. auto. Qed.

Lemma comps_sim : forall n u u', sim n u u' ->
  exists v v' cs, get_components u = Some (v, cs) /\ get_components u' = Some (v', cs) /\ sim n v v'.
Proof.
  intros n u u' (Hwf & Hwf' & Hrk & Hcnt & Hs).
  unfold get_components. rewrite (fuel_wf n u Hwf), (fuel_wf n u' Hwf').
  pose proof Hwf as (HL & _). pose proof Hwf' as (HL' & _). rewrite HL, HL'.
  assert (Hin : forall i, In i (seq 0 n) -> i < n) by (intros i Hi; apply in_seq in Hi; lia).
  destruct (roots_loop_ok n (rank u) (seq 0 n) (parent u) Hwf Hin) as (p1 & rs & Hl & Hwf1 & Hs1 & HF).
  destruct (roots_loop_ok n (rank u') (seq 0 n) (parent u') Hwf' Hin) as (p1' & rs' & Hl' & Hwf1' & Hs1' & HF').
  rewrite (Forall2_root_det _ _ _ _ _ Hs HF HF') in *. rewrite Hl, Hl'.
  eexists _, _, _. split; [reflexivity|]. split; [reflexivity|].
  apply mk_sim; auto.
  eapply same_roots_trans; [apply same_roots_sym; exact Hs1|].
  eapply same_roots_trans; [exact Hs|exact Hs1'].
Qed.

Lemma step_sim : forall n u u' o, sim n u u' -> op_in_range n o = true ->
  snd (step u o) = snd (step u' o) /\ sim n (fst (step u o)) (fst (step u' o)).
Proof.
  intros n u u' o Hsim Hr. pose proof Hsim as (Hwf & Hwf' & Hrk & Hcnt & Hs).
  destruct o as [x y|x|x y| | |]; cbn [op_in_range] in Hr; cbn [step].
  - apply andb_true_iff in Hr. destruct Hr as [Hx Hy]. apply Nat.ltb_lt in Hx, Hy.
    unfold union. rewrite (fuel_wf n u Hwf), (fuel_wf n u' Hwf').
    destruct (find_sim n _ _ _ _ x Hwf Hwf' Hs Hx) as (p1 & p1' & rx & Hf & Hf' & Hrx & Hrox & Hwf1 & Hwf1' & Hs1 & _).
    destruct (find_sim n _ _ _ _ y Hwf1 Hwf1' Hs1 Hy) as (p2 & p2' & ry & Hg & Hg' & Hry & Hroy & Hwf2 & Hwf2' & Hs2 & Hs12).
    rewrite Hf, Hf', Hg, Hg'. rewrite <- Hrk, <- Hcnt.
    assert (Hrootx : nth rx p2 rx = rx).
    { eapply root_of_is_root. apply Hs12. exact Hrox. }
    assert (Hrooty : nth ry p2 ry = ry) by (eapply root_of_is_root; exact Hroy).
    destruct (rx =? ry) eqn:E.
    + cbn. split; [reflexivity|]. apply mk_sim; auto. congruence.
    + apply Nat.eqb_neq in E.
      destruct (nth rx (rank u) 0 <? nth ry (rank u) 0) eqn:Elt.
      * apply Nat.ltb_lt in Elt. cbn. split; [reflexivity|].
        fold (link_rank (rank u) ry rx).
        destruct (link_wf n p2 (rank u) rx ry Hwf2 Hrx Hry Hrootx Hrooty E ltac:(lia)) as [W _].
        assert (Hrootx' : nth rx p2' rx = rx) by (eapply root_of_is_root; apply Hs2; apply ro_root; exact Hrootx).
        assert (Hrooty' : nth ry p2' ry = ry) by (eapply root_of_is_root; apply Hs2; apply ro_root; exact Hrooty).
        rewrite <- Hrk in Hwf2'.
        destruct (link_wf n p2' (rank u) rx ry Hwf2' Hrx Hry Hrootx' Hrooty' E ltac:(lia)) as [W' _].
        apply mk_sim; auto.
        eapply link_same_roots; eauto.
      * apply Nat.ltb_ge in Elt. cbn. split; [reflexivity|].
        fold (link_rank (rank u) rx ry).
        assert (E' : ry <> rx) by auto.
        destruct (link_wf n p2 (rank u) ry rx Hwf2 Hry Hrx Hrooty Hrootx E' Elt) as [W _].
        assert (Hrootx' : nth rx p2' rx = rx) by (eapply root_of_is_root; apply Hs2; apply ro_root; exact Hrootx).
        assert (Hrooty' : nth ry p2' ry = ry) by (eapply root_of_is_root; apply Hs2; apply ro_root; exact Hrooty).
        rewrite <- Hrk in Hwf2'.
        destruct (link_wf n p2' (rank u) ry rx Hwf2' Hry Hrx Hrooty' Hrootx' E' Elt) as [W' _].
        apply mk_sim; auto.
        eapply link_same_roots; eauto.
  - apply Nat.ltb_lt in Hr. unfold find_op. rewrite (fuel_wf n u Hwf), (fuel_wf n u' Hwf').
    destruct (find_sim n _ _ _ _ x Hwf Hwf' Hs Hr) as (p1 & p1' & rx & Hf & Hf' & Hrx & Hrox & Hwf1 & Hwf1' & Hs1 & _).
    rewrite Hf, Hf'. cbn. split; [reflexivity|]. apply mk_sim; auto.
  - apply andb_true_iff in Hr. destruct Hr as [Hx Hy]. apply Nat.ltb_lt in Hx, Hy.
    unfold connected. rewrite (fuel_wf n u Hwf), (fuel_wf n u' Hwf').
    destruct (find_sim n _ _ _ _ x Hwf Hwf' Hs Hx) as (p1 & p1' & rx & Hf & Hf' & Hrx & Hrox & Hwf1 & Hwf1' & Hs1 & _).
    destruct (find_sim n _ _ _ _ y Hwf1 Hwf1' Hs1 Hy) as (p2 & p2' & ry & Hg & Hg' & Hry & Hroy & Hwf2 & Hwf2' & Hs2 & Hs12).
    rewrite Hf, Hf', Hg, Hg'. cbn. split; [reflexivity|]. apply mk_sim; auto.
  - cbn. split; [congruence|exact Hsim].
  - unfold component_sizes.
    destruct (comps_sim n u u' Hsim) as (v & v' & cs & Hc & Hc' & Hv). rewrite Hc, Hc'. cbn. auto.
  - destruct (comps_sim n u u' Hsim) as (v & v' & cs & Hc & Hc' & Hv). rewrite Hc, Hc'. cbn. auto.
Qed.

Lemma run_sim : forall n ops u u', sim n u u' -> ops_in_range n ops = true ->
  snd (run u ops) = snd (run u' ops).
Proof.
  intros n. induction ops as [|o ops IH]; intros u u' Hsim Hr; [reflexivity|].
  rewrite ops_in_range_cons in Hr. apply andb_true_iff in Hr. destruct Hr as [Ho Hr].
  destruct (step_sim n u u' o Hsim Ho) as [Hout Hsim'].
  cbn [run]. destruct (step u o) as [v r]. destruct (step u' o) as [v' r']. cbn [fst snd] in *.
  specialize (IH v v' Hsim' Hr).
  destruct (run v ops) as [w rs]. destruct (run v' ops) as [w' rs']. cbn [snd] in *. congruence.
Qed.

Definition is_union (o : op) : bool := match o with OUnion _ _ => true | _ => false end.

(* a read keeps the state in the same simulation class *)
Lemma query_sim : forall n u o, wf n (parent u) (rank u) -> is_union o = false ->
  op_in_range n o = true -> sim n u (fst (step u o)).
Proof.
  intros n u o Hwf Hq Hr.
  destruct o as [x y|x|x y| | |]; cbn [is_union] in Hq; try discriminate; cbn [op_in_range] in Hr; cbn [step].
  - apply Nat.ltb_lt in Hr. unfold find_op. rewrite (fuel_wf n u Hwf).
    destruct (find_ok n _ _ x Hwf Hr) as (p1 & r & Hf & _ & _ & Hwf1 & Hs1). rewrite Hf. cbn.
    unfold sim. cbn. auto.
  - apply andb_true_iff in Hr. destruct Hr as [Hx Hy]. apply Nat.ltb_lt in Hx, Hy.
    unfold connected. rewrite (fuel_wf n u Hwf).
    destruct (find_ok n _ _ x Hwf Hx) as (p1 & r & Hf & _ & _ & Hwf1 & Hs1).
    destruct (find_ok n _ _ y Hwf1 Hy) as (p2 & r2 & Hf2 & _ & _ & Hwf2 & Hs2).
    rewrite Hf, Hf2. cbn. unfold sim. cbn.
    split; [auto|]. split; [auto|]. split; [auto|]. split; [auto|]. eapply same_roots_trans; eassumption.
  - cbn. apply sim_refl. exact Hwf.
  - unfold component_sizes.
    destruct (comps_sim n u u (sim_refl n u Hwf)) as (v & v' & cs & Hc & Hc' & Hv).
    rewrite Hc. cbn. unfold get_components in Hc. rewrite (fuel_wf n u Hwf) in Hc.
    pose proof Hwf as (HL & _). rewrite HL in Hc.
    destruct (roots_loop_ok n (rank u) (seq 0 n) (parent u) Hwf) as (p1 & rs & Hl & Hwf1 & Hs1 & _).
    { intros i Hi. apply in_seq in Hi. lia. }
    rewrite Hl in Hc. inversion Hc; subst. unfold sim. cbn. auto.
  - destruct (comps_sim n u u (sim_refl n u Hwf)) as (v & v' & cs & Hc & Hc' & Hv).
    rewrite Hc. cbn. unfold get_components in Hc. rewrite (fuel_wf n u Hwf) in Hc.
    pose proof Hwf as (HL & _). rewrite HL in Hc.
    destruct (roots_loop_ok n (rank u) (seq 0 n) (parent u) Hwf) as (p1 & rs & Hl & Hwf1 & Hs1 & _).
    { intros i Hi. apply in_seq in Hi. lia. }
    rewrite Hl in Hc. inversion Hc; subst. unfold sim. cbn. auto.
Qed.

Lemma prefix_sim : forall n ops u u', sim n u u' -> ops_in_range n ops = true ->
  sim n (fst (run u ops)) (fst (run u' (filter is_union ops))).
Proof.
  intros n. induction ops as [|o ops IH]; intros u u' Hsim Hr; [exact Hsim|].
  rewrite ops_in_range_cons in Hr. apply andb_true_iff in Hr. destruct Hr as [Ho Hr].
  cbn [filter]. destruct (is_union o) eqn:Eu.
  - destruct (step_sim n u u' o Hsim Ho) as [_ Hsim'].
    cbn [run]. destruct (step u o) as [v r]. destruct (step u' o) as [v' r']. cbn [fst] in *.
    specialize (IH v v' Hsim' Hr).
    destruct (run v ops) as [w rs]. destruct (run v' (filter is_union ops)) as [w' rs']. exact IH.
  - pose proof Hsim as (Hwf & _).
    pose proof (query_sim n u o Hwf Eu Ho) as Hq.
    destruct (step_sim n u u o (sim_refl n u Hwf) Ho) as [_ (Hwfv & _)].
    cbn [run]. destruct (step u o) as [v r]. cbn [fst] in *.
    assert (Hsim' : sim n v u').
    { destruct Hq as (_ & Hv & Hrk & Hc & Hs). destruct Hsim as (_ & Hw' & Hrk' & Hc' & Hs').
      split; [exact Hv|]. split; [exact Hw'|]. split; [congruence|]. split; [congruence|].
      eapply same_roots_trans; [apply same_roots_sym; exact Hs|exact Hs']. }
    specialize (IH v u' Hsim' Hr). destruct (run v ops) as [w rs]. exact IH.
Qed.

Lemma ops_in_range_app : forall n a b,
  ops_in_range n (a ++ b) = ops_in_range n a && ops_in_range n b.
Proof. intros. unfold ops_in_range. apply forallb_app. Qed.

Theorem uf_queries_pure_state : forall n ops1 ops2, ops_in_range n (ops1 ++ ops2) = true ->
  snd (run (fst (run (uf_init n) ops1)) ops2) =
  snd (run (fst (run (uf_init n) (filter is_union ops1))) ops2).
Proof.
  intros n ops1 ops2 Hr. rewrite ops_in_range_app in Hr. apply andb_true_iff in Hr.
  destruct Hr as [H1 H2]. apply (run_sim n); [|exact H2].
  apply prefix_sim; [|exact H1]. apply sim_refl. apply (init_SInv n).
Qed.

Lemma run_app : forall a b u,
  snd (run u (a ++ b)) = snd (run u a) ++ snd (run (fst (run u a)) b).
Proof.
  induction a as [|o a IH]; intros b u; [reflexivity|].
  cbn [app run]. destruct (step u o) as [v r]. specialize (IH b v).
  destruct (run v (a ++ b)) as [w rs]. destruct (run v a) as [w' rs']. cbn [fst snd] in *.
  rewrite IH. reflexivity.
Qed.

Lemma run_length : forall a u, length (snd (run u a)) = length a.
Proof.
  induction a as [|o a IH]; intros u; [reflexivity|].
  cbn [run]. destruct (step u o) as [v r]. specialize (IH v). destruct (run v a) as [w rs].
  cbn in *. now rewrite IH.
Qed.

Lemma skipn_len_app {A} : forall (a b : list A) k, length a = k -> skipn k (a ++ b) = b.
Proof.
  induction a as [|x a IH]; intros b k H; cbn in H; subst k; [reflexivity|]. cbn. apply IH. reflexivity.
Qed.

(* the outputs of the suffix ops2 do not depend on the reads performed before it *)
Theorem uf_queries_pure : forall n ops1 ops2, ops_in_range n (ops1 ++ ops2) = true ->
  skipn (length ops1) (run_from n (ops1 ++ ops2)) =
  skipn (length (filter is_union ops1)) (run_from n (filter is_union ops1 ++ ops2)).
Proof.
  intros n ops1 ops2 Hr. unfold run_from. rewrite !run_app.
  rewrite !skipn_len_app by apply run_length.
  apply uf_queries_pure_state. exact Hr.
Qed.
