(* Model of solvor/utils/data_structures.py: class FenwickTree (lines 16-71).  Definitions only.
   Values are Z (the harness feeds integers; Python float addition is exact on integers < 2^53).
   Indices are Z so that the bit walks i |= i+1 and (i & (i+1)) - 1 are Z.lor / Z.land as written. *)
From Coq Require Import List ZArith Bool.
Import ListNotations.
Open Scope Z_scope.

Definition zn (l : list Z) : Z := Z.of_nat (length l).
Definition zget (l : list Z) (i : Z) : Z := nth (Z.to_nat i) l 0.
Fixpoint set_nthZ (i : nat) (v : Z) (l : list Z) : list Z :=
  match l, i with
  | [], _ => []
  | _ :: xs, O => v :: xs
  | x :: xs, S j => x :: set_nthZ j v xs
  end.
Definition zadd_at (l : list Z) (i : Z) (d : Z) : list Z :=
  set_nthZ (Z.to_nat i) (zget l i + d) l.

Definition up (i : Z) : Z := Z.lor i (i + 1).          (* i | (i+1) *)
Definition down (i : Z) : Z := Z.land i (i + 1) - 1.   (* (i & (i+1)) - 1 *)

(* __init__(values): for i in range(n): j = i | (i+1); if j < n: tree[j] += tree[i] *)
Fixpoint build_loop (is : list Z) (t : list Z) : list Z :=
  match is with
  | [] => t
  | i :: rest => let j := up i in
                 build_loop rest (if j <? zn t then zadd_at t j (zget t i) else t)
  end.
Definition build (vals : list Z) : list Z :=
  build_loop (map Z.of_nat (seq 0 (length vals))) vals.

(* update(i, delta): while i < n: tree[i] += delta; i |= i+1 *)
Fixpoint update (fuel : nat) (t : list Z) (i d : Z) : option (list Z) :=
  if i <? zn t then
    match fuel with
    | O => None
    | S f => update f (zadd_at t i d) (up i) d
    end
  else Some t.

(* prefix(i): total = 0; while i >= 0: total += tree[i]; i = (i & (i+1)) - 1 *)
Fixpoint prefix (fuel : nat) (t : list Z) (i : Z) (acc : Z) : option Z :=
  if 0 <=? i then
    match fuel with
    | O => None
    | S f => prefix f t (down i) (acc + zget t i)
    end
  else Some acc.

Definition fuel_of (t : list Z) : nat := S (length t).

Definition range_sum (t : list Z) (l r : Z) : option Z :=
  match prefix (fuel_of t) t r 0 with
  | None => None
  | Some a => if 0 <? l then
                match prefix (fuel_of t) t (l - 1) 0 with
                | None => None
                | Some b => Some (a - b)
                end
              else Some a
  end.

Inductive op := OUpdate (i d : Z) | OPrefix (i : Z) | ORange (l r : Z).
Inductive out := RUnit | RZ (z : Z) | RFail.

Definition step (t : list Z) (o : op) : list Z * out :=
  match o with
  | OUpdate i d => match update (fuel_of t) t i d with Some t' => (t', RUnit) | None => (t, RFail) end
  | OPrefix i => match prefix (fuel_of t) t i 0 with Some z => (t, RZ z) | None => (t, RFail) end
  | ORange l r => match range_sum t l r with Some z => (t, RZ z) | None => (t, RFail) end
  end.

Fixpoint run (t : list Z) (ops : list op) : list Z * list out :=
  match ops with
  | [] => (t, [])
  | o :: rest => let '(t', r) := step t o in let '(t'', rs) := run t' rest in (t'', r :: rs)
  end.

Definition run_from (vals : list Z) (ops : list op) : list out := snd (run (build vals) ops).

Definition out_eqb (a b : out) : bool :=
  match a, b with
  | RUnit, RUnit => true
  | RZ x, RZ y => x =? y
  | _, _ => false
  end.

(* reference model: a plain array *)
Definition ref_prefix (a : list Z) (i : Z) : Z := fold_right Z.add 0 (firstn (S (Z.to_nat i)) a).
Definition ref_step (a : list Z) (o : op) : list Z * out :=
  match o with
  | OUpdate i d => (zadd_at a i d, RUnit)
  | OPrefix i => (a, RZ (ref_prefix a i))
  | ORange l r => (a, RZ (ref_prefix a r - (if 0 <? l then ref_prefix a (l - 1) else 0)))
  end.
Fixpoint ref_run (a : list Z) (ops : list op) : list out :=
  match ops with
  | [] => []
  | o :: rest => let '(a', r) := ref_step a o in r :: ref_run a' rest
  end.

Definition ops_in_range (n : Z) (ops : list op) : bool :=
  forallb (fun o => match o with
                    | OUpdate i _ => (0 <=? i) && (i <? n)
                    | OPrefix i => (0 <=? i) && (i <? n)
                    | ORange l r => (0 <=? l) && (l <=? r) && (r <? n)
                    end) ops.
