(* get_components / component_sizes: the find loop over 0..n-1 and the insertion-ordered grouping. *)
From Coq Require Import List Arith Bool Lia Relations Permutation.
From SV Require Import C20.UF C20.UFSpec C20.UFBasics C20.UFUnion.
Import ListNotations.

Lemma Forall2_imp {A B} (R R' : A -> B -> Prop) : (forall a b, R a b -> R' a b) ->
  forall l l', Forall2 R l l' -> Forall2 R' l l'.
Proof. intros H l l' HF. induction HF; constructor; auto. Qed.

Lemma roots_loop_ok : forall n rk is p, wf n p rk -> (forall i, In i is -> i < n) ->
  exists p' rs, roots_loop (S n) p is = Some (p', rs) /\ wf n p' rk /\ same_roots p p' /\
                Forall2 (root_of p) is rs.
Proof.
  intros n rk. induction is as [|i rest IH]; intros p Hwf Hin.
  - exists p, []. split; [reflexivity|]. split; [exact Hwf|]. split; [apply same_roots_refl|constructor].
  - destruct (find_ok n p rk i Hwf (Hin i (or_introl eq_refl))) as (p1 & r & Hf & Hr & Hrn & Hwf1 & Hs1).
    destruct (IH p1 Hwf1 (fun j Hj => Hin j (or_intror Hj))) as (p2 & rs & Hl & Hwf2 & Hs2 & HF).
    exists p2, (r :: rs). cbn [roots_loop]. rewrite Hf, Hl.
    split; [reflexivity|]. split; [exact Hwf2|].
    split; [eapply same_roots_trans; eassumption|].
    constructor; [exact Hr|].
    eapply Forall2_imp; [|exact HF]. intros a b Hab. apply Hs1. exact Hab.
Qed.

(* ---------- grouping ---------- *)
Definition grp := list (nat * list nat).

Definition GInv (p : list nat) (i : nat) (g : grp) : Prop :=
  NoDup (map fst g) /\
  (forall k ms, In (k, ms) g -> ms <> [] /\ forall j, In j ms -> root_of p j k) /\
  Permutation (concat (map snd g)) (seq 0 i).

Lemma group_add_keys : forall r i g k, In k (map fst (group_add r i g)) -> k = r \/ In k (map fst g).
Proof.
  intros r i. induction g as [|[k0 ms0] rest IH]; intros k H.
  - cbn in H. destruct H as [H|[]]. left. auto.
  - cbn [group_add] in H. destruct (k0 =? r) eqn:E.
    + right. exact H.
    + cbn in H. destruct H as [H|H]; [right; left; exact H|].
      destruct (IH k H) as [H'|H']; [left; exact H'|right; right; exact H'].
Qed.

Lemma group_add_NoDup : forall r i g, NoDup (map fst g) -> NoDup (map fst (group_add r i g)).
Proof.
  intros r i. induction g as [|[k0 ms0] rest IH]; intros H.
  - cbn. constructor; [intros []|constructor].
  - cbn [group_add]. destruct (k0 =? r) eqn:E; [exact H|].
    cbn in *. inversion H as [|a l Hnin Hnd]; subst. constructor; [|apply IH; exact Hnd].
    intros Hin. destruct (group_add_keys r i rest k0 Hin) as [->|Hin'].
    + rewrite Nat.eqb_refl in E. discriminate.
    + contradiction.
Qed.

Lemma group_add_entries : forall r i g k ms, In (k, ms) (group_add r i g) ->
  In (k, ms) g \/ (k = r /\ (ms = [i] \/ exists ms0, In (r, ms0) g /\ ms = ms0 ++ [i])).
Proof.
  intros r i. induction g as [|[k0 ms0] rest IH]; intros k ms H.
  - cbn in H. destruct H as [H|[]]. inversion H; subst. right. split; [reflexivity|left; reflexivity].
  - cbn [group_add] in H. destruct (k0 =? r) eqn:E.
    + apply Nat.eqb_eq in E. subst k0. destruct H as [H|H].
      * inversion H; subst. right. split; [reflexivity|]. right. exists ms0. split; [left; reflexivity|reflexivity].
      * left. right. exact H.
    + destruct H as [H|H]; [left; left; exact H|].
      destruct (IH k ms H) as [H'|[-> [H'|[m [Hm ->]]]]].
      * left. right. exact H'.
      * right. split; [reflexivity|left; exact H'].
      * right. split; [reflexivity|]. right. exists m. split; [right; exact Hm|reflexivity].
Qed.

Lemma group_add_perm : forall r i g,
  Permutation (concat (map snd (group_add r i g))) (concat (map snd g) ++ [i]).
Proof.
  intros r i. induction g as [|[k0 ms0] rest IH].
  - cbn. constructor. constructor.
  - cbn [group_add]. destruct (k0 =? r) eqn:E.
    + cbn. rewrite <- !app_assoc. apply Permutation_app_head. apply Permutation_app_comm.
    + cbn. rewrite <- app_assoc. apply Permutation_app_head. exact IH.
Qed.

Lemma group_add_GInv : forall p r i g, GInv p i g -> root_of p i r -> GInv p (S i) (group_add r i g).
Proof.
  intros p r i g (Hnd & Hent & Hperm) Hr. split; [apply group_add_NoDup; exact Hnd|]. split.
  - intros k ms H. destruct (group_add_entries r i g k ms H) as [H'|[-> [->|[m [Hm ->]]]]].
    + apply Hent. exact H'.
    + split; [discriminate|]. intros j [<-|[]]. exact Hr.
    + split; [destruct m; discriminate|].
      intros j Hj. apply in_app_or in Hj. destruct Hj as [Hj|[<-|[]]]; [|exact Hr].
      apply (proj2 (Hent r m Hm)). exact Hj.
  - rewrite seq_S. cbn [plus]. eapply Permutation_trans; [apply group_add_perm|].
    apply Permutation_app_tail. exact Hperm.
Qed.

Lemma group_roots_GInv : forall p rs i k g, GInv p i g -> Forall2 (root_of p) (seq i k) rs ->
  GInv p (i + k) (group_roots i rs g).
Proof.
  intros p. induction rs as [|r rs IH]; intros i k g HG HF.
  - inversion HF as [E|]. destruct k; [|discriminate]. rewrite Nat.add_0_r. exact HG.
  - destruct k as [|k]; [inversion HF|]. cbn [seq] in HF. inversion HF as [|a b l l' Hab HF']; subst.
    cbn [group_roots]. replace (i + S k) with (S i + k) by lia.
    apply IH; [|exact HF']. apply group_add_GInv; assumption.
Qed.

Lemma keys_functional : forall (g : grp) k a b, NoDup (map fst g) -> In (k, a) g -> In (k, b) g -> a = b.
Proof.
  induction g as [|[k0 m0] rest IH]; intros k a b Hnd Ha Hb; [destruct Ha|].
  cbn in Hnd. inversion Hnd as [|x l Hnin Hnd']; subst.
  destruct Ha as [Ha|Ha]; destruct Hb as [Hb|Hb].
  - congruence.
  - inversion Ha; subst. exfalso. apply Hnin. apply (in_map fst) in Hb. exact Hb.
  - inversion Hb; subst. exfalso. apply Hnin. apply (in_map fst) in Ha. exact Ha.
  - eapply IH; eassumption.
Qed.

(* the grouping of the true roots is the partition into classes *)
Lemma GInv_partition : forall n p rk pre g, wf n p rk -> Rep pre p -> GInv p n g ->
  is_partition n (joined pre) (map snd g).
Proof.
  intros n p rk pre g Hwf HR (Hnd & Hent & Hperm).
  split; [exact Hperm|]. split.
  - intros c Hc. apply in_map_iff in Hc. destruct Hc as [[k ms] [<- Hin]]. apply (Hent k ms Hin).
  - intros c x y Hc Hx. apply in_map_iff in Hc. destruct Hc as [[k ms] [<- Hin]]. cbn [snd] in *.
    destruct (Hent k ms Hin) as [_ Hroots]. pose proof (Hroots x Hx) as Hxk. split.
    + intros Hy. split.
      * assert (Hyc : In y (concat (map snd g))).
        { apply in_concat. exists ms. split; [|exact Hy]. apply in_map_iff. exists (k, ms). auto. }
        apply (Permutation_in _ Hperm) in Hyc. apply in_seq in Hyc. lia.
      * apply HR. exists k. split; [exact Hxk|apply Hroots; exact Hy].
    + intros [Hyn HJ]. apply HR in HJ. destruct HJ as [r0 [Hx0 Hy0]].
      rewrite <- (root_of_det _ _ _ _ Hxk Hx0) in Hy0.
      assert (Hyc : In y (concat (map snd g))).
      { apply (Permutation_in _ (Permutation_sym Hperm)). apply in_seq. lia. }
      apply in_concat in Hyc. destruct Hyc as [c' [Hc' Hyc']].
      apply in_map_iff in Hc'. destruct Hc' as [[k' ms'] [<- Hin']]. cbn [snd] in *.
      pose proof (proj2 (Hent k' ms' Hin') y Hyc') as Hyk'.
      rewrite <- (root_of_det _ _ _ _ Hy0 Hyk') in Hin'.
      rewrite (keys_functional g k ms ms' Hnd Hin Hin'). exact Hyc'.
Qed.

Lemma GInv_nil : forall p, GInv p 0 [].
Proof. intros p. split; [constructor|]. split; [intros k ms []|constructor]. Qed.
