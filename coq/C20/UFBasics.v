(* Forest abstraction of the UnionFind parent array, well-formedness, and correctness of the
   path-compressing find (fuel sufficiency, returns the root, keeps every node's root). *)
From Coq Require Import List Arith Bool Lia.
From SV Require Import C20.UF.
Import ListNotations.

(* ---------- set_nth ---------- *)
Lemma length_set_nth {A} : forall (l : list A) i v, length (set_nth i v l) = length l.
Proof.
  induction l as [|x xs IH]; intros i v; [destruct i; reflexivity|].
  destruct i; cbn; [reflexivity|]. now rewrite IH.
Qed.

Lemma nth_set_nth_eq {A} : forall (l : list A) i v d, i < length l -> nth i (set_nth i v l) d = v.
Proof.
  induction l as [|x xs IH]; intros i v d Hi; cbn in Hi; [lia|].
  destruct i; cbn; [reflexivity|]. apply IH. lia.
Qed.

Lemma nth_set_nth_neq {A} : forall (l : list A) i j v d, i <> j -> nth j (set_nth i v l) d = nth j l d.
Proof.
  induction l as [|x xs IH]; intros i j v d Hij; [destruct i; reflexivity|].
  destruct i, j; cbn; try reflexivity; try lia. apply IH. lia.
Qed.

(* ---------- roots ---------- *)
Inductive root_of (p : list nat) : nat -> nat -> Prop :=
| ro_root : forall x, nth x p x = x -> root_of p x x
| ro_step : forall x r, nth x p x <> x -> root_of p (nth x p x) r -> root_of p x r.

Lemma root_of_is_root : forall p x r, root_of p x r -> nth r p r = r.
Proof. intros p x r H. induction H as [x Hx|x r Hx H IH]; assumption. Qed.

Lemma root_of_det : forall p x r r', root_of p x r -> root_of p x r' -> r = r'.
Proof.
  intros p x r r' H. revert r'. induction H as [x Hx|x r Hx H IH]; intros r' H'.
  - inversion H' as [y Hy|y r0 Hy H0]; subst; [reflexivity|contradiction].
  - inversion H' as [y Hy|y r0 Hy H0]; subst; [contradiction|]. apply IH. exact H0.
Qed.

Lemma root_of_self : forall p x r, nth x p x = x -> root_of p x r -> r = x.
Proof. intros p x r Hx H. symmetry. eapply root_of_det; [apply ro_root; exact Hx|exact H]. Qed.

Definition same (p : list nat) (x y : nat) : Prop := exists r, root_of p x r /\ root_of p y r.

Definition is_root (p : list nat) (i : nat) : bool := nth i p i =? i.
Definition nroots (n : nat) (p : list nat) : nat := length (filter (is_root p) (seq 0 n)).

(* well-formed forest: ranks strictly increase towards the root; rank bound for the fuel argument *)
Definition wf (n : nat) (p rk : list nat) : Prop :=
  length p = n /\ length rk = n /\
  (forall i, i < n -> nth i p i < n) /\
  (forall i, i < n -> nth i p i <> i -> nth i rk 0 < nth (nth i p i) rk 0) /\
  (forall i, i < n -> nth i rk 0 + nroots n p <= n).

Lemma root_of_lt : forall n p rk x r, wf n p rk -> root_of p x r -> x < n -> r < n.
Proof.
  intros n p rk x r (_ & _ & Hp & _) H. induction H as [x Hx|x r Hx H IH]; intros Hlt; [exact Hlt|].
  apply IH. apply Hp. exact Hlt.
Qed.

Lemma root_of_rank : forall n p rk x r, wf n p rk -> root_of p x r -> x < n ->
  nth x p x <> x -> nth x rk 0 < nth r rk 0.
Proof.
  intros n p rk x r Hwf H. pose proof Hwf as (_ & _ & Hp & Hr & _).
  induction H as [x Hx|x r Hx H IH]; intros Hlt Hnr; [contradiction|].
  specialize (Hr x Hlt Hx). specialize (Hp x Hlt).
  destruct (Nat.eq_dec (nth (nth x p x) p (nth x p x)) (nth x p x)) as [E|E].
  - rewrite (root_of_self _ _ _ E H). exact Hr.
  - specialize (IH Hp E). lia.
Qed.

(* out-of-range nodes are their own roots (nth default) *)
Lemma root_of_overflow : forall p x, length p <= x -> root_of p x x.
Proof. intros p x H. apply ro_root. apply nth_overflow. exact H. Qed.

(* ---------- compression ---------- *)
Definition compressed (p p' : list nat) : Prop :=
  length p' = length p /\
  forall i, nth i p' i = nth i p i \/ (nth i p i <> i /\ root_of p i (nth i p' i)).

Lemma compressed_refl : forall p, compressed p p.
Proof. intros p. split; [reflexivity|]. intros i. left. reflexivity. Qed.

Lemma compressed_is_root : forall p p' i, compressed p p' -> is_root p' i = is_root p i.
Proof.
  intros p p' i [_ H]. unfold is_root. destruct (H i) as [E|[Hn Hr]]; [now rewrite E|].
  pose proof (root_of_is_root _ _ _ Hr) as Hrr.
  destruct (nth i p' i =? i) eqn:E1; destruct (nth i p i =? i) eqn:E2; try reflexivity.
  - apply Nat.eqb_eq in E1. rewrite E1 in Hrr. contradiction.
  - apply Nat.eqb_eq in E2. contradiction.
Qed.

Lemma compressed_root_fwd : forall p p' y r, compressed p p' -> root_of p y r -> root_of p' y r.
Proof.
  intros p p' y r Hc H. induction H as [x Hx|x r Hx H IH].
  - apply ro_root. pose proof (compressed_is_root p p' x Hc) as E. unfold is_root in E.
    rewrite (proj2 (Nat.eqb_eq _ _) Hx) in E. apply Nat.eqb_eq. exact E.
  - destruct Hc as [HL Hc']. destruct (Hc' x) as [E|[Hn Hr]].
    + apply ro_step; rewrite E; [exact Hx|exact IH].
    + assert (Er : nth x p' x = r).
      { eapply root_of_det; [exact Hr|]. apply ro_step; assumption. }
      pose proof (root_of_is_root _ _ _ H) as Hrr.
      assert (r <> x) by (intros ->; contradiction).
      apply ro_step; rewrite Er; [exact H0|].
      apply ro_root. pose proof (compressed_is_root p p' r (conj HL Hc')) as E. unfold is_root in E.
      rewrite (proj2 (Nat.eqb_eq _ _) Hrr) in E. apply Nat.eqb_eq. exact E.
Qed.

Lemma nroots_ext : forall n p p', (forall i, is_root p' i = is_root p i) -> nroots n p' = nroots n p.
Proof.
  intros n p p' H. unfold nroots. f_equal. apply filter_ext. exact H.
Qed.

Lemma compressed_wf : forall n p rk p', wf n p rk -> compressed p p' -> wf n p' rk.
Proof.
  intros n p rk p' Hwf Hc. pose proof Hwf as (HL & HLr & Hp & Hr & Hb). pose proof Hc as [HL' Hc'].
  split; [congruence|]. split; [exact HLr|]. split; [|split].
  - intros i Hi. destruct (Hc' i) as [E|[Hn Hro]]; [rewrite E; apply Hp; exact Hi|].
    eapply root_of_lt; eassumption.
  - intros i Hi Hne. destruct (Hc' i) as [E|[Hn Hro]].
    + rewrite E in *. apply Hr; assumption.
    + eapply root_of_rank; eassumption.
  - intros i Hi. rewrite (nroots_ext n p p'); [apply Hb; exact Hi|].
    intros j. apply compressed_is_root. exact Hc.
Qed.

(* ---------- find ---------- *)
Lemma find_ok_gen : forall n p rk, wf n p rk ->
  forall f x, x < n -> n - nth x rk 0 < f ->
  exists p' r, find f p x = Some (p', r) /\ root_of p x r /\ compressed p p'.
Proof.
  intros n p rk Hwf. pose proof Hwf as (HL & HLr & Hp & Hr & Hb).
  induction f as [|f IH]; intros x Hx Hf; [lia|].
  cbn [find]. destruct (nth x p x =? x) eqn:E.
  - apply Nat.eqb_eq in E. exists p, x. split; [reflexivity|]. split; [apply ro_root; exact E|].
    apply compressed_refl.
  - apply Nat.eqb_neq in E. specialize (Hr x Hx E). specialize (Hp x Hx).
    pose proof (Hb _ Hp) as Hbp.
    destruct (IH (nth x p x) Hp ltac:(lia)) as (p' & r & Hfind & Hroot & [HL' Hc]).
    rewrite Hfind. exists (set_nth x r p'), r. split; [reflexivity|].
    split; [apply ro_step; assumption|].
    split; [rewrite length_set_nth; exact HL'|].
    intros i. destruct (Nat.eq_dec i x) as [->|Hne].
    + right. rewrite nth_set_nth_eq by lia. split; [exact E|apply ro_step; assumption].
    + rewrite nth_set_nth_neq by lia. apply Hc.
Qed.

Lemma wf_rank_le : forall n p rk i, wf n p rk -> i < n -> nth i rk 0 <= n.
Proof. intros n p rk i (_ & _ & _ & _ & Hb) Hi. specialize (Hb i Hi). lia. Qed.

(* every node has a root *)
Lemma root_total : forall n p rk x, wf n p rk -> exists r, root_of p x r.
Proof.
  intros n p rk x Hwf. destruct (Nat.lt_ge_cases x n) as [Hlt|Hge].
  - destruct (find_ok_gen n p rk Hwf (S n) x Hlt ltac:(lia)) as (p' & r & _ & Hr & _).
    exists r. exact Hr.
  - exists x. apply root_of_overflow. destruct Hwf as (HL & _). lia.
Qed.

Definition same_roots (p p' : list nat) : Prop := forall y r, root_of p y r <-> root_of p' y r.

Lemma same_roots_refl : forall p, same_roots p p.
Proof. intros p y r. reflexivity. Qed.

Lemma same_roots_trans : forall p q s, same_roots p q -> same_roots q s -> same_roots p s.
Proof. intros p q s H1 H2 y r. rewrite (H1 y r). apply H2. Qed.

Lemma compressed_same_roots : forall n p rk p', wf n p rk -> compressed p p' -> same_roots p p'.
Proof.
  intros n p rk p' Hwf Hc y r. split; [apply compressed_root_fwd; exact Hc|].
  intros H'. destruct (root_total n p rk y Hwf) as [r0 Hr0].
  pose proof (compressed_root_fwd p p' y r0 Hc Hr0) as H0.
  rewrite (root_of_det _ _ _ _ H' H0). exact Hr0.
Qed.

(* find with the model's fuel S n: succeeds, returns the root, keeps wf and all roots *)
Lemma find_ok : forall n p rk x, wf n p rk -> x < n ->
  exists p' r, find (S n) p x = Some (p', r) /\ root_of p x r /\ r < n /\
               wf n p' rk /\ same_roots p p'.
Proof.
  intros n p rk x Hwf Hx.
  destruct (find_ok_gen n p rk Hwf (S n) x Hx ltac:(lia)) as (p' & r & Hf & Hr & Hc).
  exists p', r. split; [exact Hf|]. split; [exact Hr|].
  split; [eapply root_of_lt; eassumption|].
  split; [eapply compressed_wf; eassumption|eapply compressed_same_roots; eassumption].
Qed.

Lemma same_roots_same : forall p p' x y, same_roots p p' -> (same p x y <-> same p' x y).
Proof.
  intros p p' x y H. unfold same. split; intros [r [Hx Hy]]; exists r; split; apply H; assumption.
Qed.

Lemma same_roots_is_root : forall p p' i, same_roots p p' -> is_root p' i = is_root p i.
Proof.
  intros p p' i H. unfold is_root.
  destruct (nth i p' i =? i) eqn:E1; destruct (nth i p i =? i) eqn:E2; try reflexivity.
  - apply Nat.eqb_eq in E1. apply Nat.eqb_neq in E2.
    pose proof (proj2 (H i i) (ro_root _ _ E1)) as Hr. apply root_of_is_root in Hr. contradiction.
  - apply Nat.eqb_eq in E2. apply Nat.eqb_neq in E1.
    pose proof (proj1 (H i i) (ro_root _ _ E2)) as Hr. apply root_of_is_root in Hr. contradiction.
Qed.
