(* State invariant of UnionFind histories and the refinement theorem uf_refines. *)
From Coq Require Import List Arith Bool Lia Relations Permutation.
From SV Require Import C20.UF C20.UFSpec C20.UFBasics C20.UFUnion C20.UFComps.
Import ListNotations.

Definition SInv (n : nat) (pre : list (nat * nat)) (u : uf) : Prop :=
  wf n (parent u) (rank u) /\ count u = nroots n (parent u) /\ Rep pre (parent u).

(* ---------- initial state ---------- *)
Lemma nth_seq_id : forall n i, nth i (seq 0 n) i = i.
Proof.
  intros n i. destruct (Nat.lt_ge_cases i n) as [H|H].
  - rewrite seq_nth by exact H. reflexivity.
  - apply nth_overflow. rewrite seq_length. exact H.
Qed.

Lemma filter_all : forall (f : nat -> bool) l, (forall x, In x l -> f x = true) -> filter f l = l.
Proof.
  intros f. induction l as [|x xs IH]; intros H; [reflexivity|].
  cbn. rewrite (H x (or_introl eq_refl)). f_equal. apply IH. intros y Hy. apply H. right. exact Hy.
Qed.

Lemma nroots_init : forall n, nroots n (seq 0 n) = n.
Proof.
  intros n. unfold nroots. rewrite filter_all; [apply seq_length|].
  intros x _. unfold is_root. rewrite nth_seq_id. apply Nat.eqb_refl.
Qed.

Lemma nth_repeat0 : forall n i, nth i (repeat 0 n) 0 = 0.
Proof. induction n as [|n IH]; intros i; destruct i; cbn; auto. Qed.

Lemma init_SInv : forall n, SInv n [] (uf_init n).
Proof.
  intros n. unfold SInv, uf_init. cbn [parent rank count]. split; [|split].
  - split; [apply seq_length|]. split; [apply repeat_length|]. split; [|split].
    + intros i Hi. rewrite nth_seq_id. exact Hi.
    + intros i Hi Hne. rewrite nth_seq_id in Hne. contradiction.
    + intros i Hi. rewrite nth_repeat0, nroots_init. lia.
  - symmetry. apply nroots_init.
  - intros x y. split.
    + intros [r [Hx Hy]].
      rewrite (root_of_self _ _ _ (nth_seq_id n x) Hx) in Hy.
      rewrite (root_of_self _ _ _ (nth_seq_id n y) Hy). apply rst_refl.
    + intros H. apply joined_nil in H. subst y. exists x.
      split; apply ro_root; apply nth_seq_id.
Qed.

(* ---------- transfer along compression ---------- *)
Lemma SInv_transfer : forall n pre p rk c p', SInv n pre {| parent := p; rank := rk; count := c |} ->
  wf n p' rk -> same_roots p p' -> SInv n pre {| parent := p'; rank := rk; count := c |}.
Proof.
  intros n pre p rk c p' (Hwf & Hc & HR) Hwf' Hs. cbn [parent rank count] in *.
  split; [exact Hwf'|]. split; [|eapply Rep_same_roots; eassumption].
  rewrite Hc. symmetry. apply nroots_ext. intros i. apply same_roots_is_root. exact Hs.
Qed.

Lemma SInv_eta : forall n pre u, SInv n pre u ->
  SInv n pre {| parent := parent u; rank := rank u; count := count u |}.
Proof. intros n pre u H. exact H. Qed.

Lemma fuel_of_n : forall n pre u, SInv n pre u -> fuel_of u = S n.
Proof. intros n pre u ((HL & _) & _). unfold fuel_of. now rewrite HL. Qed.

(* two finds in a row, as used by union and connected *)
Lemma two_finds : forall n pre u x y, SInv n pre u -> x < n -> y < n ->
  exists p1 rx p2 ry,
    find (fuel_of u) (parent u) x = Some (p1, rx) /\ find (fuel_of u) p1 y = Some (p2, ry) /\
    rx < n /\ ry < n /\ root_of p2 x rx /\ root_of p2 y ry /\
    wf n p2 (rank u) /\ same_roots (parent u) p2 /\ same_roots (parent u) p1 /\ wf n p1 (rank u).
Proof.
  intros n pre u x y HS Hx Hy. rewrite (fuel_of_n n pre u HS). destruct HS as (Hwf & _ & _).
  destruct (find_ok n _ _ x Hwf Hx) as (p1 & rx & Hf1 & Hr1 & Hrx & Hwf1 & Hs1).
  destruct (find_ok n _ _ y Hwf1 Hy) as (p2 & ry & Hf2 & Hr2 & Hry & Hwf2 & Hs2).
  exists p1, rx, p2, ry.
  split; [exact Hf1|]. split; [exact Hf2|]. split; [exact Hrx|]. split; [exact Hry|].
  split; [apply Hs2; apply Hs1; exact Hr1|]. split; [apply Hs2; exact Hr2|].
  split; [exact Hwf2|]. split; [exact (same_roots_trans _ _ _ Hs1 Hs2)|].
  split; [exact Hs1|exact Hwf1].
Qed.

Lemma roots_eq_iff_joined : forall pre p x y rx ry, Rep pre p -> root_of p x rx -> root_of p y ry ->
  (rx = ry <-> joined pre x y).
Proof.
  intros pre p x y rx ry HR Hx Hy. split.
  - intros <-. apply HR. exists rx. split; assumption.
  - intros HJ. apply HR in HJ. destruct HJ as [r [Hx' Hy']].
    rewrite (root_of_det _ _ _ _ Hx Hx'), (root_of_det _ _ _ _ Hy Hy'). reflexivity.
Qed.

Lemma link_state : forall n pre p rk cnt c r x y rx ry,
  SInv n pre {| parent := p; rank := rk; count := cnt |} ->
  c < n -> r < n -> c <> r -> nth c rk 0 <= nth r rk 0 ->
  root_of p x rx -> root_of p y ry -> ((rx = r /\ ry = c) \/ (rx = c /\ ry = r)) ->
  SInv n (pre ++ [(x, y)])
       {| parent := set_nth c r p; rank := link_rank rk r c; count := cnt - 1 |}.
Proof.
  intros n pre p rk cnt c r x y rx ry (Hwf & Hc & HR) Hcn Hrn Hne Hrk Hx Hy Hcase.
  cbn [parent rank count] in *.
  assert (Hcr : nth c p c = c /\ nth r p r = r).
  { destruct Hcase as [[<- <-]|[<- <-]]; split; eapply root_of_is_root; eassumption. }
  destruct Hcr as [Hcr Hrr].
  destruct (link_wf n p rk c r Hwf Hcn Hrn Hcr Hrr Hne Hrk) as [Hwf' Hnr].
  unfold SInv. cbn [parent rank count].
  split; [exact Hwf'|]. split; [lia|].
  eapply link_rep; eassumption.
Qed.

(* ---------- the individual operations ---------- *)
Lemma union_ok : forall n pre u x y, SInv n pre u -> x < n -> y < n ->
  exists u' b, union u x y = Some (u', b) /\ (b = true <-> ~ joined pre x y) /\
               SInv n (pre ++ [(x, y)]) u'.
Proof.
  intros n pre u x y HS Hx Hy.
  destruct (two_finds n pre u x y HS Hx Hy) as
    (p1 & rx & p2 & ry & Hf1 & Hf2 & Hrx & Hry & Hr1 & Hr2 & Hwf2 & Hs2 & _ & _).
  unfold union. rewrite Hf1, Hf2.
  pose proof (SInv_transfer n pre _ _ _ p2 (SInv_eta n pre u HS) Hwf2 Hs2) as HS2.
  pose proof (roots_eq_iff_joined pre p2 x y rx ry (proj2 (proj2 HS2)) Hr1 Hr2) as Hiff.
  destruct (rx =? ry) eqn:E.
  - apply Nat.eqb_eq in E. eexists _, false. split; [reflexivity|]. split.
    + split; [discriminate|]. intros Hn. exfalso. apply Hn. apply Hiff. exact E.
    + destruct HS2 as (Hw & Hc & HR). split; [exact Hw|]. split; [exact Hc|].
      intros a b. rewrite (joined_add_redundant pre x y (proj1 Hiff E) a b). apply HR.
  - apply Nat.eqb_neq in E.
    destruct (nth rx (rank u) 0 <? nth ry (rank u) 0) eqn:Elt.
    + apply Nat.ltb_lt in Elt. eexists _, true. split; [reflexivity|]. split.
      * split; [|reflexivity]. intros _ HJ. apply E. apply Hiff. exact HJ.
      * apply (link_state n pre p2 (rank u) (count u) rx ry x y rx ry HS2); auto; lia.
    + apply Nat.ltb_ge in Elt. eexists _, true. split; [reflexivity|]. split.
      * split; [|reflexivity]. intros _ HJ. apply E. apply Hiff. exact HJ.
      * apply (link_state n pre p2 (rank u) (count u) ry rx x y rx ry HS2); auto.
Qed.

Lemma connected_ok : forall n pre u x y, SInv n pre u -> x < n -> y < n ->
  exists u' b, connected u x y = Some (u', b) /\ (b = true <-> joined pre x y) /\ SInv n pre u'.
Proof.
  intros n pre u x y HS Hx Hy.
  destruct (two_finds n pre u x y HS Hx Hy) as
    (p1 & rx & p2 & ry & Hf1 & Hf2 & Hrx & Hry & Hr1 & Hr2 & Hwf2 & Hs2 & _ & _).
  unfold connected. rewrite Hf1, Hf2.
  pose proof (SInv_transfer n pre _ _ _ p2 (SInv_eta n pre u HS) Hwf2 Hs2) as HS2.
  pose proof (roots_eq_iff_joined pre p2 x y rx ry (proj2 (proj2 HS2)) Hr1 Hr2) as Hiff.
  eexists _, _. split; [reflexivity|]. split; [|exact HS2].
  rewrite Nat.eqb_eq. exact Hiff.
Qed.

Lemma find_op_ok : forall n pre u x, SInv n pre u -> x < n ->
  exists u' r, find_op u x = Some (u', r) /\ r < n /\ root_of (parent u) x r /\
               joined pre x r /\ SInv n pre u' /\ same_roots (parent u) (parent u') /\
               rank u' = rank u /\ count u' = count u.
Proof.
  intros n pre u x HS Hx. unfold find_op. rewrite (fuel_of_n n pre u HS).
  pose proof HS as (Hwf & _ & HR).
  destruct (find_ok n _ _ x Hwf Hx) as (p1 & r & Hf1 & Hr1 & Hrn & Hwf1 & Hs1).
  rewrite Hf1. eexists _, r. split; [reflexivity|]. split; [exact Hrn|]. split; [exact Hr1|].
  split; [eapply Rep_root; eassumption|].
  split; [apply (SInv_transfer n pre _ _ _ p1 (SInv_eta n pre u HS) Hwf1 Hs1)|].
  cbn. auto.
Qed.

Lemma count_ok : forall n pre u, SInv n pre u -> num_classes n (joined pre) (count u).
Proof.
  intros n pre u (Hwf & Hc & HR).
  exists (filter (is_root (parent u)) (seq 0 n)).
  split; [apply NoDup_filter; apply seq_NoDup|]. split; [symmetry; exact Hc|]. split; [|split].
  - intros r Hr. apply filter_In in Hr. destruct Hr as [Hr _]. apply in_seq in Hr. lia.
  - intros x Hx. destruct (root_total n _ _ x Hwf) as [r Hr]. exists r. split.
    + apply filter_In. split.
      * apply in_seq. pose proof (root_of_lt n _ _ x r Hwf Hr Hx). lia.
      * unfold is_root. apply Nat.eqb_eq. eapply root_of_is_root. exact Hr.
    + eapply Rep_root; eassumption.
  - intros r r' Hr Hr' HJ. apply filter_In in Hr. apply filter_In in Hr'.
    destruct Hr as [_ Hr]. destruct Hr' as [_ Hr']. unfold is_root in *.
    apply Nat.eqb_eq in Hr. apply Nat.eqb_eq in Hr'.
    apply (roots_eq_iff_joined pre (parent u) r r' r r' HR); [apply ro_root; exact Hr|apply ro_root; exact Hr'|exact HJ].
Qed.

Lemma comps_ok : forall n pre u, SInv n pre u ->
  exists u' cs, get_components u = Some (u', cs) /\ is_partition n (joined pre) cs /\ SInv n pre u'.
Proof.
  intros n pre u HS. unfold get_components. rewrite (fuel_of_n n pre u HS).
  pose proof HS as (Hwf & _ & HR). pose proof Hwf as (HL & _). rewrite HL.
  destruct (roots_loop_ok n (rank u) (seq 0 n) (parent u) Hwf) as (p' & rs & Hl & Hwf' & Hs & HF).
  { intros i Hi. apply in_seq in Hi. lia. }
  rewrite Hl. eexists _, _. split; [reflexivity|]. split.
  - apply (GInv_partition n (parent u) (rank u) pre _ Hwf HR).
    apply (group_roots_GInv (parent u) rs 0 n [] (GInv_nil _) HF).
  - apply (SInv_transfer n pre _ _ _ p' (SInv_eta n pre u HS) Hwf' Hs).
Qed.

Lemma sizes_ok : forall n pre u, SInv n pre u ->
  exists u' l, component_sizes u = Some (u', l) /\
    (exists cs, is_partition n (joined pre) cs /\ l = map (@length nat) cs) /\ SInv n pre u'.
Proof.
  intros n pre u HS. destruct (comps_ok n pre u HS) as (u' & cs & Hg & Hp & HS').
  unfold component_sizes. rewrite Hg. eexists _, _. split; [reflexivity|].
  split; [exists cs; split; [exact Hp|reflexivity]|exact HS'].
Qed.

(* ---------- histories ---------- *)
Definition op_in_range (n : nat) (o : op) : bool :=
  match o with
  | OUnion x y | OConnected x y => (x <? n) && (y <? n)
  | OFind x => x <? n
  | _ => true
  end.

Lemma ops_in_range_cons : forall n o ops,
  ops_in_range n (o :: ops) = op_in_range n o && ops_in_range n ops.
Proof. intros n o ops. destruct o; reflexivity. Qed.

Lemma step_ok : forall n pre u o, SInv n pre u -> op_in_range n o = true ->
  out_ok n pre o (snd (step u o)) /\ SInv n (pre ++ pairs_of o) (fst (step u o)).
Proof.
  intros n pre u o HS Hr. destruct o as [x y|x|x y| | |]; cbn [op_in_range] in Hr; cbn [step pairs_of];
    rewrite ?app_nil_r.
  - apply andb_true_iff in Hr. destruct Hr as [Hx Hy]. apply Nat.ltb_lt in Hx, Hy.
    destruct (union_ok n pre u x y HS Hx Hy) as (u' & b & Hu & Hb & HS'). rewrite Hu. cbn. auto.
  - apply Nat.ltb_lt in Hr.
    destruct (find_op_ok n pre u x HS Hr) as (u' & r & Hf & Hrn & _ & HJ & HS' & _). rewrite Hf. cbn. auto.
  - apply andb_true_iff in Hr. destruct Hr as [Hx Hy]. apply Nat.ltb_lt in Hx, Hy.
    destruct (connected_ok n pre u x y HS Hx Hy) as (u' & b & Hu & Hb & HS'). rewrite Hu. cbn. auto.
  - cbn. split; [apply count_ok; exact HS|exact HS].
  - destruct (sizes_ok n pre u HS) as (u' & l & Hu & Hl & HS'). rewrite Hu. cbn. auto.
  - destruct (comps_ok n pre u HS) as (u' & cs & Hu & Hp & HS'). rewrite Hu. cbn. auto.
Qed.

Lemma run_spec : forall n ops pre u, SInv n pre u -> ops_in_range n ops = true ->
  spec_ok n pre ops (snd (run u ops)) /\ SInv n (pre ++ united ops) (fst (run u ops)).
Proof.
  intros n. induction ops as [|o ops IH]; intros pre u HS Hr.
  - cbn. rewrite app_nil_r. auto.
  - rewrite ops_in_range_cons in Hr. apply andb_true_iff in Hr. destruct Hr as [Ho Hr].
    destruct (step_ok n pre u o HS Ho) as [Hout HS'].
    cbn [run united]. destruct (step u o) as [u' r]. cbn [fst snd] in *.
    destruct (IH (pre ++ pairs_of o) u' HS' Hr) as [Hspec HS''].
    destruct (run u' ops) as [u'' rs]. cbn [fst snd] in *.
    rewrite app_assoc. split; [split; assumption|assumption].
Qed.

Theorem uf_refines : forall n ops, ops_in_range n ops = true -> spec_ok n [] ops (run_from n ops).
Proof.
  intros n ops Hr. unfold run_from. apply (run_spec n ops [] (uf_init n) (init_SInv n) Hr).
Qed.

Theorem uf_reachable_inv : forall n ops, ops_in_range n ops = true ->
  SInv n (united ops) (fst (run (uf_init n) ops)).
Proof.
  intros n ops Hr. apply (run_spec n ops [] (uf_init n) (init_SInv n) Hr).
Qed.

(* spec_ok never accepts RFail *)
Lemma spec_ok_no_fail : forall n ops pre outs, spec_ok n pre ops outs -> ~ In RFail outs.
Proof.
  intros n. induction ops as [|o ops IH]; intros pre outs H Hin.
  - destruct outs; [exact Hin|exact H].
  - destruct outs as [|r outs]; [exact Hin|]. destruct H as [H1 H2]. destruct Hin as [->|Hin].
    + destruct o; exact H1.
    + exact (IH _ _ H2 Hin).
Qed.

Theorem uf_no_fail : forall n ops, ops_in_range n ops = true -> ~ In RFail (run_from n ops).
Proof. intros n ops Hr. eapply spec_ok_no_fail. apply uf_refines. exact Hr. Qed.

(* in any reachable state two consecutive finds agree iff same class *)
Theorem uf_find_agree : forall n ops x y u1 rx u2 ry, ops_in_range n ops = true -> x < n -> y < n ->
  find_op (fst (run (uf_init n) ops)) x = Some (u1, rx) -> find_op u1 y = Some (u2, ry) ->
  (rx = ry <-> joined (united ops) x y).
Proof.
  intros n ops x y u1 rx u2 ry Hr Hx Hy Hf1 Hf2.
  pose proof (uf_reachable_inv n ops Hr) as HS.
  destruct (find_op_ok n _ _ x HS Hx) as (u1' & rx' & Hf1' & _ & Hrx & _ & HS1 & Hs1 & _).
  rewrite Hf1 in Hf1'. inversion Hf1'; subst u1' rx'.
  destruct (find_op_ok n _ _ y HS1 Hy) as (u2' & ry' & Hf2' & _ & Hry & _ & _).
  rewrite Hf2 in Hf2'. inversion Hf2'; subst u2' ry'.
  apply (roots_eq_iff_joined _ (parent u1) x y rx ry (proj2 (proj2 HS1))); [apply Hs1; exact Hrx|exact Hry].
Qed.

(* index-based reading of uf_refines: the k-th output is right for the pairs united before op k *)
Theorem uf_refines_indexed : forall n ops, ops_in_range n ops = true ->
  spec_ok_indexed n ops (run_from n ops).
Proof. intros n ops Hr. apply spec_ok_to_indexed. apply uf_refines. exact Hr. Qed.
