(* List-level lemmas for the Fenwick proofs: prefix sums `pre`, zget / zadd_at algebra. *)
From Coq Require Import List ZArith Bool Lia Arith.
From SV Require Import C20.Fenwick.
Import ListNotations.
Open Scope Z_scope.

Definition sumz (l : list Z) : Z := fold_right Z.add 0 l.

(* sum of the first k entries *)
Definition pre (a : list Z) (k : Z) : Z := sumz (firstn (Z.to_nat k) a).

Lemma ref_prefix_pre : forall a i, 0 <= i -> ref_prefix a i = pre a (i + 1).
Proof.
  intros a i Hi. unfold ref_prefix, pre, sumz.
  replace (Z.to_nat (i + 1)) with (S (Z.to_nat i)) by lia. reflexivity.
Qed.

Lemma sumz_firstn_S : forall l m, sumz (firstn (S m) l) = sumz (firstn m l) + nth m l 0.
Proof.
  induction l as [|x xs IH]; intros m.
  - rewrite !firstn_nil. destruct m; reflexivity.
  - destruct m as [|m].
    + cbn. lia.
    + change (firstn (S (S m)) (x :: xs)) with (x :: firstn (S m) xs).
      change (firstn (S m) (x :: xs)) with (x :: firstn m xs).
      cbn [sumz fold_right nth]. fold (sumz (firstn (S m) xs)). fold (sumz (firstn m xs)).
      rewrite IH. lia.
Qed.

Lemma pre_0 : forall a, pre a 0 = 0.
Proof. reflexivity. Qed.

Lemma pre_succ : forall a k, 0 <= k -> pre a (k + 1) = pre a k + zget a k.
Proof.
  intros a k Hk. unfold pre, zget.
  replace (Z.to_nat (k + 1)) with (S (Z.to_nat k)) by lia.
  apply sumz_firstn_S.
Qed.

Lemma length_set_nthZ : forall l i v, length (set_nthZ i v l) = length l.
Proof.
  induction l as [|x xs IH]; intros i v; [destruct i; reflexivity|].
  destruct i; cbn; [reflexivity|]. now rewrite IH.
Qed.

Lemma nth_set_nthZ_eq : forall l i v, (i < length l)%nat -> nth i (set_nthZ i v l) 0 = v.
Proof.
  induction l as [|x xs IH]; intros i v Hi; cbn in Hi; [lia|].
  destruct i; cbn; [reflexivity|]. apply IH. lia.
Qed.

Lemma nth_set_nthZ_neq : forall l i j v, i <> j -> nth j (set_nthZ i v l) 0 = nth j l 0.
Proof.
  induction l as [|x xs IH]; intros i j v Hij; [destruct i; reflexivity|].
  destruct i, j; cbn; try reflexivity; try lia. apply IH. lia.
Qed.

Lemma sumz_firstn_set : forall l i v m, (i < length l)%nat ->
  sumz (firstn m (set_nthZ i v l)) = sumz (firstn m l) + (if (i <? m)%nat then v - nth i l 0 else 0).
Proof.
  induction l as [|x xs IH]; intros i v m Hi; cbn in Hi; [lia|].
  destruct m as [|m].
  - cbn. destruct i; reflexivity.
  - destruct i as [|i].
    + cbn. fold (sumz (firstn m xs)). lia.
    + cbn [set_nthZ firstn sumz fold_right nth].
      fold (sumz (firstn m (set_nthZ i v xs))). fold (sumz (firstn m xs)).
      rewrite IH by lia.
      change (S i <? S m)%nat with (i <? m)%nat. lia.
Qed.

Lemma zn_zadd_at : forall l i d, zn (zadd_at l i d) = zn l.
Proof. intros. unfold zn, zadd_at. now rewrite length_set_nthZ. Qed.

Lemma length_zadd_at : forall l i d, length (zadd_at l i d) = length l.
Proof. intros. unfold zadd_at. now rewrite length_set_nthZ. Qed.

Lemma zget_zadd_at : forall l i d j, 0 <= i < zn l -> 0 <= j ->
  zget (zadd_at l i d) j = if j =? i then zget l i + d else zget l j.
Proof.
  intros l i d j Hi Hj. unfold zn in Hi. unfold zadd_at, zget at 1.
  destruct (j =? i) eqn:E.
  - assert (j = i) by lia. subst j. apply nth_set_nthZ_eq. lia.
  - rewrite nth_set_nthZ_neq by lia. reflexivity.
Qed.

Lemma pre_zadd_at : forall l i d k, 0 <= i < zn l -> 0 <= k ->
  pre (zadd_at l i d) k = pre l k + if i <? k then d else 0.
Proof.
  intros l i d k Hi Hk. unfold zn in Hi. unfold pre, zadd_at.
  rewrite sumz_firstn_set by lia. unfold zget.
  destruct (Z.to_nat i <? Z.to_nat k)%nat eqn:E1; destruct (i <? k) eqn:E2; try lia.
  - apply Nat.ltb_lt in E1. lia.
  - apply Nat.ltb_ge in E1. lia.
Qed.
