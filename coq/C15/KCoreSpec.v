(* Specification of core numbers, by the definition the property uses, and a boolean checker that
   judges an arbitrary answer (in particular the IMPLEMENTATION's) against it. *)
From Coq Require Import List Arith Bool.
From SV Require Import C15.Graph.
Import ListNotations.

(* number of neighbours (in the symmetrised simple graph) of v that lie in S *)
Definition deg_in (g : graph) (S : list nat) (v : nat) : nat :=
  length (filter (fun w => memb w S) (sadj g v)).

(* S induces a subgraph of minimum degree >= k *)
Definition min_deg_ge (g : graph) (k : nat) (S : list nat) : Prop :=
  forall v, In v S -> In v (nodes g) /\ k <= deg_in g S v.

(* c is the core number of v: v lies in some subgraph of minimum degree >= c, and in none of larger
   minimum degree *)
Definition core_number (g : graph) (v c : nat) : Prop :=
  (exists S, In v S /\ min_deg_ge g c S) /\
  (forall S k, In v S -> min_deg_ge g k S -> k <= c).

Definition kcore_spec (g : graph) (sol : list (nat * nat)) : Prop :=
  (forall v, In v (nodes g) <-> exists c, aget sol v = Some c) /\
  (forall v c, aget sol v = Some c -> core_number g v c).

(* "repeated deletion of nodes of degree below k": one round, and `fuel` rounds *)
Definition del_round (g : graph) (k : nat) (S : list nat) : list nat :=
  filter (fun v => k <=? deg_in g S v) S.

Fixpoint del_iter (fuel : nat) (g : graph) (k : nat) (S : list nat) : list nat :=
  match fuel with 0 => S | S f => del_iter f g k (del_round g k S) end.

Definition survivors (g : graph) (k : nat) : list nat := del_iter (length (nodes g)) g k (nodes g).

Definition min_deg_ge_b (g : graph) (k : nat) (S : list nat) : bool :=
  forallb (fun v => memb v (nodes g) && (k <=? deg_in g S v)) S.

(* checker: the answer has exactly the nodes as keys, and for each node with answer c:
   the survivors of deletion at level c form a subgraph of min degree >= c containing v (checked, so no
   fixpoint argument is needed for soundness), and v does not survive deletion at level c+1 *)
Definition kcore_check (g : graph) (sol : list (nat * nat)) : bool :=
  forallb (fun v => match aget sol v with Some _ => true | None => false end) (nodes g)
  && forallb (fun p => memb (fst p) (nodes g)) sol
  && forallb (fun p =>
        let v := fst p in
        match aget sol v with
        | None => false
        | Some c =>
          min_deg_ge_b g c (survivors g c) && memb v (survivors g c) && negb (memb v (survivors g (S c)))
        end) sol.

Definition kcore_set_check (sol : list (nat * nat)) (k : nat) (out : list nat) : bool :=
  set_eqb out (map fst (filter (fun p => k <=? snd p) sol)).
