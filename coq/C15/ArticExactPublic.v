(* Exactness lifted to the two public functions articulation_points / bridges of the model (including the
   early return for n <= 1 and the absence of fuel exhaustion). *)
From Coq Require Import List Arith Bool Relations Lia.
From SV Require Import C15.Graph C15.ArticSpec C15.Artic C15.ArticSpecProofs C15.ArticProofs
  C15.ArticExactConn1 C15.ArticExactConn C15.ArticExact.
Import ListNotations.

(* a graph with at most one node has neither cut vertices nor bridges *)
Lemma small_no_cut : forall g v, length (nodes g) <= 1 -> ~ is_cut_vertex g v.
Proof.
  intros g v Hlen Hc. apply cut_vertex_separation_iff in Hc.
  destruct Hc as [Hv (a & b & Hav & _ & Hca & _)].
  assert (Ha : In a (nodes g)).
  { destruct (conn_endpoints _ _ _ _ Hca) as [E|[H _]]; [congruence | exact H]. }
  destruct (nodes g) as [|x [|y l]]; simpl in *; try lia; try contradiction.
Qed.

Lemma small_no_bridge : forall g a b, length (nodes g) <= 1 -> ~ is_bridge g a b.
Proof.
  intros g a b Hlen [He _]. apply edge_b_nodes in He. destruct He as (Ha & Hb & Hne).
  destruct (nodes g) as [|x [|y l]]; simpl in *; try lia; try contradiction.
Qed.

Theorem articulation_points_exact : forall g, valid_graph g = true ->
  exists sol it, articulation_points g = Some (sol, length sol, it, length (nodes g)) /\
    NoDup sol /\ forall v, In v sol <-> is_cut_vertex g v.
Proof.
  intros g Hg. unfold articulation_points.
  destruct (length (nodes g) <=? 1) eqn:E.
  - apply Nat.leb_le in E. exists [], 0. split; [reflexivity|]. split; [constructor|].
    intros v. split; [intros [] | intros H; exfalso; now apply (small_no_cut g v E)].
  - destruct (run g) as [s|] eqn:Er; [|exfalso; now apply (run_fuel_ok g Hg)].
    exists (aps s), (iters s). split; [reflexivity|].
    destruct (artic_sound_partial g s Hg Er) as (_ & Hnd & _).
    split; [exact Hnd|]. now apply artic_points_exact.
Qed.

Theorem bridges_exact : forall g, valid_graph g = true ->
  exists sol it, bridges g = Some (sol, length sol, it, length (nodes g)) /\
    forall a b, In (a, b) sol <-> (a < b /\ is_bridge g a b).
Proof.
  intros g Hg. unfold bridges.
  destruct (length (nodes g) <=? 1) eqn:E.
  - apply Nat.leb_le in E. exists [], 0. split; [reflexivity|].
    intros a b. split; [intros [] | intros [_ H]; exfalso; now apply (small_no_bridge g a b E)].
  - destruct (run g) as [s|] eqn:Er; [|exfalso; now apply (run_fuel_ok g Hg)].
    exists (brs s), (iters s). split; [reflexivity|]. now apply artic_bridges_exact.
Qed.

Print Assumptions articulation_points_exact.
Print Assumptions bridges_exact.
