(* Generic facts about conn / num_components used by ArticExactConn.v:
   monotonicity, vertex-avoiding decomposition, decidability (as a Prop disjunction) of conn on a finite
   node list, and existence of a component count. *)
From Coq Require Import List Arith Bool Relations Lia.
From SV Require Import C15.Graph C15.ArticSpec C15.ArticSpecProofs.
Import ListNotations.

Lemma conn_step : forall vs (e : nat -> nat -> bool) x y,
  In x vs -> In y vs -> e x y = true -> conn vs e x y.
Proof. intros vs e x y Hx Hy He. apply rt_step. auto. Qed.

Lemma conn_mono : forall vs vs' (e e' : nat -> nat -> bool) x y,
  (forall z, In z vs -> In z vs') -> (forall u w, e u w = true -> e' u w = true) ->
  conn vs e x y -> conn vs' e' x y.
Proof.
  intros vs vs' e e' x y Hv He H. unfold conn in *.
  induction H as [x y H | x | x y z H1 IH1 H2 IH2].
  - apply rt_step. destruct H as (Hx & Hy & Hxy). auto.
  - apply rt_refl.
  - apply rt_trans with y; assumption.
Qed.

(* induction extending the path at its right end *)
Lemma conn_ind_r : forall vs (e : nat -> nat -> bool) x (P : nat -> Prop),
  P x ->
  (forall y z, conn vs e x y -> P y -> In y vs -> In z vs -> e y z = true -> P z) ->
  forall z, conn vs e x z -> P z.
Proof.
  intros vs e x P H0 Hs z H.
  refine (clos_refl_trans_ind_left nat _ x P H0 _ z H).
  intros y w Hxy Py Hst. destruct Hst as (Hy & Hw & He). exact (Hs y w Hxy Py Hy Hw He).
Qed.

Lemma conn_endpoints : forall vs (e : nat -> nat -> bool) x y,
  conn vs e x y -> x = y \/ (In x vs /\ In y vs).
Proof.
  intros vs e x y H. pattern y. apply (conn_ind_r vs e x); [left; reflexivity | | exact H].
  intros y' z Hxy IH Hy Hz He. right. split; [|exact Hz].
  destruct IH as [IH | [IH _]]; [subst y'; exact Hy | exact IH].
Qed.

Lemma remove_nat_sub : forall a vs z, In z (remove_nat a vs) -> In z vs.
Proof. intros a vs z H. apply remove_nat_In in H. tauto. Qed.

Lemma conn_remove_mono : forall a vs (e : nat -> nat -> bool) x y,
  conn (remove_nat a vs) e x y -> conn vs e x y.
Proof.
  intros a vs e x y H. apply conn_mono with (vs := remove_nat a vs) (e := e); auto.
  apply remove_nat_sub.
Qed.

(* a path either avoids a or passes through it *)
Lemma conn_avoid : forall vs (e : nat -> nat -> bool) a x y,
  conn vs e x y ->
  conn (remove_nat a vs) e x y \/ (conn vs e x a /\ conn vs e a y).
Proof.
  intros vs e a x y H. pattern y. apply (conn_ind_r vs e x); [left; apply conn_refl | | exact H].
  intros y' z Hxy IH Hy Hz He.
  assert (Hst : conn vs e y' z) by (apply conn_step; assumption).
  destruct (Nat.eq_dec y' a) as [E1|N1].
  - subst y'. right. split; assumption.
  - destruct (Nat.eq_dec z a) as [E2|N2].
    + subst z. right. split; [apply conn_trans with y'; assumption | apply conn_refl].
    + destruct IH as [IH | [IH1 IH2]].
      * left. apply conn_trans with y'; [exact IH|].
        apply conn_step; [apply remove_nat_In; auto | apply remove_nat_In; auto | exact He].
      * right. split; [exact IH1 | apply conn_trans with y'; assumption].
Qed.

(* first edge out of x, the rest avoids x *)
Lemma conn_first_step : forall vs (e : nat -> nat -> bool) x y,
  conn vs e x y ->
  y = x \/ exists z, In z vs /\ z <> x /\ e x z = true /\ conn (remove_nat x vs) e z y.
Proof.
  intros vs e x y H. pattern y. apply (conn_ind_r vs e x); [left; reflexivity | | exact H].
  intros y' w Hxy IH Hy Hw He.
  destruct (Nat.eq_dec w x) as [E|N]; [left; exact E|]. right.
  destruct (Nat.eq_dec y' x) as [E1|N1].
  - subst y'. exists w. repeat split; auto. apply conn_refl.
  - destruct IH as [IH | [z (Hz & Hzx & Hez & Hc)]]; [contradiction|].
    exists z. repeat split; auto. apply conn_trans with y'; [exact Hc|].
    apply conn_step; [apply remove_nat_In; auto | apply remove_nat_In; auto | exact He].
Qed.

Lemma remove_nat_length_le : forall x vs, length (remove_nat x vs) <= length vs.
Proof.
  intros x vs. induction vs as [|a vs IH]; simpl; [lia|].
  destruct (x =? a); simpl; lia.
Qed.

Lemma remove_nat_length_lt : forall x vs, In x vs -> length (remove_nat x vs) < length vs.
Proof.
  intros x vs. induction vs as [|a vs IH]; simpl; intro H; [contradiction|].
  destruct (x =? a) eqn:E.
  - pose proof (remove_nat_length_le x vs) as Hle. lia.
  - apply Nat.eqb_neq in E. destruct H as [H|H]; [congruence|].
    specialize (IH H). simpl. lia.
Qed.

Lemma ex_dec_list : forall (P : nat -> Prop) l,
  (forall z, P z \/ ~ P z) ->
  (exists z, In z l /\ P z) \/ ~ (exists z, In z l /\ P z).
Proof.
  intros P l HP. induction l as [|a l IH].
  - right. intros [z [[] _]].
  - destruct (HP a) as [Ha|Ha].
    + left. exists a. split; [left; reflexivity | exact Ha].
    + destruct IH as [[z [Hz Pz]] | IH].
      * left. exists z. split; [right; exact Hz | exact Pz].
      * right. intros [z [[Hz|Hz] Pz]].
        -- subst z. exact (Ha Pz).
        -- apply IH. exists z. auto.
Qed.

Lemma conn_dec_n : forall (e : nat -> nat -> bool) n vs, length vs <= n ->
  forall x y, conn vs e x y \/ ~ conn vs e x y.
Proof.
  intros e n. induction n as [|n IH]; intros vs Hlen x y.
  - destruct vs as [|a vs]; [|simpl in Hlen; lia].
    destruct (Nat.eq_dec x y) as [E|N]; [subst y; left; apply conn_refl|].
    right. intro H. apply conn_endpoints in H. destruct H as [H | [[] _]]. exact (N H).
  - destruct (Nat.eq_dec x y) as [E|N]; [subst y; left; apply conn_refl|].
    destruct (in_dec Nat.eq_dec x vs) as [Hx|Hx].
    + assert (Hlen' : length (remove_nat x vs) <= n).
      { pose proof (remove_nat_length_lt x vs Hx) as Hlt. lia. }
      destruct (ex_dec_list
                  (fun z => z <> x /\ e x z = true /\ conn (remove_nat x vs) e z y) vs) as [Hex|Hnex].
      * intro z. destruct (Nat.eq_dec z x) as [Ez|Nz]; [right; intros [Hz _]; exact (Hz Ez)|].
        destruct (e x z) eqn:Ee; [|right; intros [_ [Hz _]]; discriminate].
        destruct (IH (remove_nat x vs) Hlen' z y) as [Hc|Hc].
        -- left. auto.
        -- right. intros [_ [_ Hz]]. exact (Hc Hz).
      * left. destruct Hex as [z (Hz & Hzx & Hez & Hc)].
        apply conn_trans with z; [apply conn_step; assumption|].
        apply conn_remove_mono with (a := x). exact Hc.
      * right. intro H. apply conn_first_step in H.
        destruct H as [H | [z (Hz & Hzx & Hez & Hc)]]; [exact (N (eq_sym H))|].
        apply Hnex. exists z. auto.
    + right. intro H. apply conn_endpoints in H. destruct H as [H | [H _]]; auto.
Qed.

Lemma conn_dec : forall vs (e : nat -> nat -> bool) x y, conn vs e x y \/ ~ conn vs e x y.
Proof. intros vs e x y. exact (conn_dec_n e (length vs) vs (le_n _) x y). Qed.

Lemma reps_exists : forall vs (e : nat -> nat -> bool), (forall x y, e x y = e y x) ->
  forall l, incl l vs ->
  exists reps, NoDup reps /\ incl reps vs /\
    (forall x, In x l -> exists r, In r reps /\ conn vs e x r) /\
    (forall r r', In r reps -> In r' reps -> conn vs e r r' -> r = r').
Proof.
  intros vs e e_sym l. induction l as [|x l IH]; intro Hl.
  - exists []. repeat split.
    + constructor.
    + intros z [].
    + intros x [].
    + intros r r' [].
  - assert (Hl' : incl l vs) by (intros z Hz; apply Hl; right; exact Hz).
    assert (Hx : In x vs) by (apply Hl; left; reflexivity).
    destruct (IH Hl') as (reps & ND & Inc & Cov & PW).
    destruct (ex_dec_list (fun r => conn vs e x r) reps) as [Hex|Hnex].
    + intro z. apply conn_dec.
    + exists reps. repeat split; auto.
      intros z [Hz|Hz]; [subst z; exact Hex | apply Cov; exact Hz].
    + exists (x :: reps). repeat split.
      * constructor; [|exact ND]. intro Hin. apply Hnex. exists x. split; [exact Hin | apply conn_refl].
      * intros z [Hz|Hz]; [subst z; exact Hx | apply Inc; exact Hz].
      * intros z [Hz|Hz].
        -- subst z. exists x. split; [left; reflexivity | apply conn_refl].
        -- destruct (Cov z Hz) as [r [Hr Hc]]. exists r. split; [right; exact Hr | exact Hc].
      * intros r r' [Hr|Hr] [Hr'|Hr'] Hc.
        -- congruence.
        -- subst r. exfalso. apply Hnex. exists r'. auto.
        -- subst r'. exfalso. apply Hnex. exists r. split; [exact Hr|].
           apply conn_sym; [exact e_sym | exact Hc].
        -- apply PW; assumption.
Qed.

Lemma num_components_exists : forall vs (e : nat -> nat -> bool), (forall x y, e x y = e y x) ->
  exists c, num_components vs e c.
Proof.
  intros vs e e_sym.
  destruct (reps_exists vs e e_sym vs (incl_refl vs)) as (reps & ND & Inc & Cov & PW).
  exists (length reps). exists reps. repeat split; auto.
Qed.

Lemma num_components_ext : forall vs (e e2 : nat -> nat -> bool) c,
  (forall x y, conn vs e x y <-> conn vs e2 x y) ->
  num_components vs e c -> num_components vs e2 c.
Proof.
  intros vs e e2 c Heq H. destruct H as (reps & ND & Len & Inc & Cov & PW).
  exists reps. repeat split; auto.
  - intros x Hx. destruct (Cov x Hx) as [r [Hr Hc]]. exists r. split; [exact Hr|].
    apply Heq. exact Hc.
  - intros r r' Hr Hr' Hc. apply PW; auto. apply Heq. exact Hc.
Qed.
