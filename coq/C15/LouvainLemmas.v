(* Generic lemmas used by C15/LouvainProofs.v: memb / nodup_b, association lists (aget / aset),
   remove_nat, comm_deg, NoDup of appends, enumerate_from. *)
From Coq Require Import List Arith Bool ZArith QArith Qabs Lia Permutation.
From SV Require Import C15.Graph C15.Louvain.
Import ListNotations.
Close Scope Q_scope.
Local Open Scope nat_scope.

(* ------------------------------------------------------------------ *)
(* memb / nodup_b / set_eqb                                             *)

Lemma memb_In : forall x l, memb x l = true <-> In x l.
Proof.
  intros x l. unfold memb. rewrite existsb_exists. split.
  - intros [y [Hy He]]. apply Nat.eqb_eq in He. subst y. exact Hy.
  - intros H. exists x. split; [exact H | apply Nat.eqb_refl].
Qed.

Lemma nodup_b_NoDup : forall l, nodup_b l = true -> NoDup l.
Proof.
  induction l as [|x r IH]; intros H; simpl in H.
  - constructor.
  - apply andb_true_iff in H. destruct H as [H1 H2]. constructor.
    + intro Hin. apply memb_In in Hin. rewrite Hin in H1. discriminate H1.
    + apply IH. exact H2.
Qed.

Lemma incl_b_incl : forall a b, incl_b a b = true -> forall x, In x a -> In x b.
Proof.
  intros a b H x Hx. unfold incl_b in H. rewrite forallb_forall in H.
  apply memb_In. apply H. exact Hx.
Qed.

(* ------------------------------------------------------------------ *)
(* association lists                                                    *)

Lemma aget_aset : forall {A} (l : list (nat * A)) k x k',
  aget (aset l k x) k' = if Nat.eqb k k' then Some x else aget l k'.
Proof.
  intros A l k x k'. induction l as [|[a y] r IH]; simpl.
  - reflexivity.
  - destruct (Nat.eqb_spec a k) as [E|E].
    + subst a. simpl. destruct (Nat.eqb k k'); reflexivity.
    + simpl. destruct (Nat.eqb_spec a k') as [E2|E2].
      * subst a. destruct (Nat.eqb_spec k k') as [E3|E3]; [congruence | reflexivity].
      * exact IH.
Qed.

Lemma agetd_aset : forall {A} (d : A) (l : list (nat * A)) k x k',
  agetd d (aset l k x) k' = if Nat.eqb k k' then x else agetd d l k'.
Proof.
  intros A d l k x k'. unfold agetd. rewrite aget_aset.
  destruct (Nat.eqb k k'); reflexivity.
Qed.

Lemma map_fst_aset : forall {A} (l : list (nat * A)) k x,
  In k (map fst l) -> map fst (aset l k x) = map fst l.
Proof.
  intros A l k x. induction l as [|[a y] r IH]; simpl; intros H.
  - contradiction.
  - destruct (Nat.eqb_spec a k) as [E|E]; simpl.
    + reflexivity.
    + f_equal. apply IH. destruct H as [H|H]; [congruence | exact H].
Qed.

Lemma aget_keys : forall {A} (l : list (nat * A)) k,
  In k (map fst l) -> exists x, aget l k = Some x.
Proof.
  intros A l k. induction l as [|[a y] r IH]; simpl; intros H.
  - contradiction.
  - destruct (Nat.eqb_spec a k) as [E|E].
    + exists y. reflexivity.
    + apply IH. destruct H as [H|H]; [congruence | exact H].
Qed.

Lemma aget_In : forall {A} (l : list (nat * A)) k x, aget l k = Some x -> In (k, x) l.
Proof.
  intros A l k x. induction l as [|[a y] r IH]; simpl; intros H.
  - discriminate H.
  - destruct (Nat.eqb_spec a k) as [E|E].
    + left. congruence.
    + right. apply IH. exact H.
Qed.

Lemma In_aget : forall {A} (l : list (nat * A)) k x,
  NoDup (map fst l) -> In (k, x) l -> aget l k = Some x.
Proof.
  intros A l k x. induction l as [|[a y] r IH]; simpl; intros Hnd H.
  - contradiction.
  - inversion Hnd as [|a' r' Hnot Hnd']; subst.
    destruct H as [H|H].
    + inversion H; subst. rewrite Nat.eqb_refl. reflexivity.
    + destruct (Nat.eqb_spec a k) as [E|E].
      * subst a. exfalso. apply Hnot. change k with (fst (k, x)). apply in_map. exact H.
      * apply IH; assumption.
Qed.

(* ------------------------------------------------------------------ *)
(* remove_nat, comm_deg                                                 *)

Lemma remove_nat_In : forall x l y, In y (remove_nat x l) <-> In y l /\ y <> x.
Proof.
  intros x l y. induction l as [|a r IH]; simpl.
  - tauto.
  - destruct (Nat.eqb_spec x a) as [E|E]; simpl.
    + subst a. rewrite IH. split.
      * intros [H1 H2]. auto.
      * intros [[H1|H1] H2]; [congruence | auto].
    + rewrite IH. split.
      * intros [H|[H1 H2]]; [subst; split; auto | auto].
      * intros [[H1|H1] H2]; auto.
Qed.

Lemma remove_nat_NoDup : forall x l, NoDup l -> NoDup (remove_nat x l).
Proof.
  intros x l H. induction H as [|a r Hnot Hnd IH]; simpl.
  - constructor.
  - destruct (Nat.eqb x a); [exact IH|]. constructor; [|exact IH].
    intro Hin. apply remove_nat_In in Hin. tauto.
Qed.

Lemma remove_nat_notin : forall x l, ~ In x l -> remove_nat x l = l.
Proof.
  intros x l. induction l as [|a r IH]; simpl; intros H.
  - reflexivity.
  - destruct (Nat.eqb_spec x a) as [E|E].
    + exfalso. apply H. left. congruence.
    + f_equal. apply IH. tauto.
Qed.

Lemma comm_deg_cons : forall g a r, comm_deg g (a :: r) = (ldeg g a + comm_deg g r)%Z.
Proof. reflexivity. Qed.

Lemma comm_deg_app : forall g a b, comm_deg g (a ++ b) = (comm_deg g a + comm_deg g b)%Z.
Proof.
  intros g a b. induction a as [|x r IH].
  - simpl. reflexivity.
  - simpl app. rewrite !comm_deg_cons, IH. lia.
Qed.

Lemma comm_deg_snoc : forall g a v, comm_deg g (a ++ [v]) = (comm_deg g a + ldeg g v)%Z.
Proof.
  intros g a v. rewrite comm_deg_app, comm_deg_cons. change (comm_deg g []) with 0%Z. lia.
Qed.

Lemma comm_deg_remove : forall g v l, NoDup l -> In v l ->
  comm_deg g (remove_nat v l) = (comm_deg g l - ldeg g v)%Z.
Proof.
  intros g v l Hnd. induction Hnd as [|a r Hnot Hnd IH]; intros Hin.
  - contradiction.
  - simpl remove_nat. destruct (Nat.eqb_spec v a) as [E|E].
    + subst a. rewrite remove_nat_notin by exact Hnot. rewrite comm_deg_cons. lia.
    + rewrite !comm_deg_cons. rewrite IH; [lia|]. destruct Hin as [H|H]; [congruence | exact H].
Qed.

Lemma NoDup_app_intro : forall (a b : list nat), NoDup a -> NoDup b ->
  (forall x, In x a -> ~ In x b) -> NoDup (a ++ b).
Proof.
  intros a b Ha Hb Hd. induction Ha as [|x r Hnot Hnd IH]; simpl.
  - exact Hb.
  - constructor.
    + intro Hin. apply in_app_or in Hin. destruct Hin as [Hin|Hin]; [tauto|].
      apply (Hd x); [left; reflexivity | exact Hin].
    + apply IH. intros y Hy. apply Hd. right. exact Hy.
Qed.

Lemma NoDup_app_snoc : forall (a : list nat) v, NoDup a -> ~ In v a -> NoDup (a ++ [v]).
Proof.
  intros a v Ha Hv. apply NoDup_app_intro.
  - exact Ha.
  - constructor; [simpl; tauto | constructor].
  - intros x Hx [Hin|[]]. subst x. tauto.
Qed.

(* ------------------------------------------------------------------ *)
(* enumerate_from                                                       *)

Lemma enum_keys_swap : forall ns i,
  map fst (map (fun p : nat * nat => (snd p, fst p)) (enumerate_from i ns)) = ns.
Proof.
  induction ns as [|x r IH]; intros i; simpl.
  - reflexivity.
  - f_equal. apply IH.
Qed.

Lemma enum_keys : forall {A B} (f : A -> B) ns i,
  map fst (map (fun p : nat * A => (fst p, f (snd p))) (enumerate_from i ns))
  = seq i (length ns).
Proof.
  intros A B f. induction ns as [|x r IH]; intros i; simpl.
  - reflexivity.
  - f_equal. apply IH.
Qed.

Lemma aget_enum : forall {A B} (f : A -> B) ns i c,
  aget (map (fun p : nat * A => (fst p, f (snd p))) (enumerate_from i ns)) c
  = if i <=? c then option_map f (nth_error ns (c - i)) else None.
Proof.
  intros A B f. induction ns as [|x r IH]; intros i c; simpl.
  - destruct (i <=? c); [|reflexivity]. destruct (c - i); reflexivity.
  - destruct (Nat.eqb_spec i c) as [E|E].
    + subst c. rewrite Nat.leb_refl, Nat.sub_diag. reflexivity.
    + rewrite IH. destruct (Nat.leb_spec (S i) c) as [H|H].
      * destruct (Nat.leb_spec i c) as [H2|H2]; [|lia].
        replace (c - i) with (S (c - S i)) by lia. reflexivity.
      * destruct (Nat.leb_spec i c) as [H2|H2]; [lia | reflexivity].
Qed.

Lemma aget_enum_swap : forall ns i v c,
  aget (map (fun p : nat * nat => (snd p, fst p)) (enumerate_from i ns)) v = Some c ->
  i <= c /\ nth_error ns (c - i) = Some v.
Proof.
  induction ns as [|x r IH]; intros i v c H; simpl in H.
  - discriminate H.
  - destruct (Nat.eqb_spec x v) as [E|E].
    + inversion H; subst. rewrite Nat.sub_diag. split; [lia | reflexivity].
    + apply IH in H. destruct H as [H1 H2]. split; [lia|].
      replace (c - i) with (S (c - S i)) by lia. exact H2.
Qed.

Lemma aget_enum_swap_conv : forall ns i k v, NoDup ns -> nth_error ns k = Some v ->
  aget (map (fun p : nat * nat => (snd p, fst p)) (enumerate_from i ns)) v = Some (i + k).
Proof.
  induction ns as [|x r IH]; intros i k v Hnd H.
  - destruct k; discriminate H.
  - inversion Hnd as [|x' r' Hnot Hnd']; subst. simpl.
    destruct k as [|k]; simpl in H.
    + inversion H; subst. rewrite Nat.eqb_refl. f_equal. lia.
    + destruct (Nat.eqb_spec x v) as [E|E].
      * subst x. exfalso. apply Hnot. eapply nth_error_In. exact H.
      * rewrite (IH (S i) k v Hnd' H). f_equal. lia.
Qed.
