(* Model of solvor/kcore.py: kcore_decomposition (bucket peeling by current degree) and kcore.
   Definitions only.

   adj        -> Graph.sadj (symmetrised neighbour sets restricted to the node set, no self loops)
   degree     -> total map nat -> nat (only ever read/written at nodes)
   buckets    -> total map nat -> list nat (bucket d is a duplicate-free list; KCoreProofs shows that
                 only indices <= max_degree are ever non-empty, so the Python list of max_degree+1
                 sets is never indexed out of range)
   core_number-> association list in insertion (= pop) order
   `buckets[k].pop()` removes an ARBITRARY element of a set (hash order): the choice is the oracle
   `pick : list nat -> nat`, read as an index modulo the bucket size.  The theorems hold for every pick.
   `while buckets[k]` runs on explicit fuel (None when exhausted; fuel |nodes| is shown sufficient). *)
From Coq Require Import List Arith Bool.
From SV Require Import C15.Graph.
Import ListNotations.

Definition upd {A} (f : nat -> A) (k : nat) (x : A) : nat -> A :=
  fun y => if Nat.eqb y k then x else f y.

Record kst := { deg : nat -> nat; bkt : nat -> list nat; core : list (nat * nat) }.

Definition has_core (c : list (nat * nat)) (w : nat) : bool :=
  match aget c w with Some _ => true | None => false end.

(*  for w in adj[v]:
        if w not in core_number:
            old_deg = degree[w]
            if old_deg > k:
                buckets[old_deg].remove(w); degree[w] = old_deg - 1
                new_bucket = max(k, degree[w]); buckets[new_bucket].add(w)          *)
Definition relax (k : nat) (s : kst) (w : nat) : kst :=
  if has_core (core s) w then s
  else
    let old := deg s w in
    if k <? old then
      let b1 := upd (bkt s) old (remove_nat w (bkt s old)) in
      let d := old - 1 in
      let nb := Nat.max k d in
      {| deg := upd (deg s) w d; bkt := upd b1 nb (w :: b1 nb); core := core s |}
    else s.

(*  v = buckets[k].pop(); core_number[v] = k; <loop over adj[v]>  *)
Definition pop_step (pick : list nat -> nat) (g : graph) (k : nat) (s : kst) : kst :=
  let b := bkt s k in
  let v := nth (pick b mod length b) b 0 in
  let s1 := {| deg := deg s; bkt := upd (bkt s) k (remove_nat v b); core := core s ++ [(v, k)] |} in
  fold_left (relax k) (sadj g v) s1.

(*  while buckets[k]: ...  *)
Fixpoint drain (fuel : nat) (pick : list nat -> nat) (g : graph) (k : nat) (s : kst) : option kst :=
  match bkt s k with
  | [] => Some s
  | _ :: _ =>
    match fuel with
    | 0 => None
    | S f => drain f pick g k (pop_step pick g k s)
    end
  end.

(*  for k in range(max_degree + 1): while buckets[k]: ...  *)
Fixpoint levels (pick : list nat -> nat) (g : graph) (fuel : nat) (ks : list nat) (s : kst) : option kst :=
  match ks with
  | [] => Some s
  | k :: ks' =>
    match drain fuel pick g k s with
    | None => None
    | Some s' => levels pick g fuel ks' s'
    end
  end.

Definition deg0 (g : graph) (v : nat) : nat := length (sadj g v).
Definition max_degree (g : graph) : nat := list_max (map (deg0 g) (nodes g)).

(*  for v in node_list: buckets[degree[v]].add(v)  *)
Definition bkt0 (g : graph) : nat -> list nat :=
  fold_left (fun b v => upd b (deg0 g v) (b (deg0 g v) ++ [v])) (nodes g) (fun _ => []).

Definition init (g : graph) : kst := {| deg := deg0 g; bkt := bkt0 g; core := [] |}.

Record kres := { k_solution : list (nat * nat); k_objective : nat; k_iterations : nat; k_evaluations : nat }.

Definition peel (pick : list nat -> nat) (g : graph) : option kst :=
  levels pick g (length (nodes g)) (seq 0 (S (max_degree g))) (init g).

Definition kcore_decomposition (pick : list nat -> nat) (g : graph) : option kres :=
  match nodes g with
  | [] => Some {| k_solution := []; k_objective := 0; k_iterations := 0; k_evaluations := 0 |}
  | _ =>
    match peel pick g with
    | None => None
    | Some s =>
      Some {| k_solution := core s;
              k_objective := list_max (map snd (core s));
              k_iterations := length (core s);          (* one iteration per pop *)
              k_evaluations := length (nodes g) |}
    end
  end.

(*  core_nodes = {v for v, core in decomp.solution.items() if core >= k}  *)
Definition kcore (pick : list nat -> nat) (g : graph) (k : nat) : option (list nat * nat * nat * nat) :=
  match kcore_decomposition pick g with
  | None => None
  | Some r =>
    let cs := map fst (filter (fun p => k <=? snd p) (k_solution r)) in
    Some (cs, length cs, k_iterations r, k_evaluations r)
  end.

(* pick used by the correspondence check: the first element of the bucket *)
Definition pick_first (_ : list nat) : nat := 0.

(* observable comparison: same key set, same value at every key *)
Definition assoc_eqb (a b : list (nat * nat)) : bool :=
  (length a =? length b)
  && forallb (fun p => match aget b (fst p) with Some x => x =? snd p | None => false end) a
  && forallb (fun p => match aget a (fst p) with Some x => x =? snd p | None => false end) b.
