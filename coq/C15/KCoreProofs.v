(* kcore_decomposition / kcore compute the core numbers of the definition, for every pop order;
   soundness of the checker KCoreSpec.kcore_check. *)
From Coq Require Import List Arith Bool Lia.
From SV Require Import C15.Graph C15.KCore C15.KCoreSpec C15.KCoreLemmas C15.KCoreStep.
Import ListNotations.

(* ---------- initial state *)
Lemma bkt0_fold_In : forall g (l : list nat) (b0 : nat -> list nat) d v,
  In v (fold_left (fun b v => upd b (deg0 g v) (b (deg0 g v) ++ [v])) l b0 d)
  <-> In v (b0 d) \/ (In v l /\ deg0 g v = d).
Proof.
  intros g l. induction l as [|x l IH]; intros b0 d v; simpl; [tauto|].
  rewrite IH. destruct (Nat.eq_dec d (deg0 g x)) as [->|Hne].
  - rewrite upd_same, in_app_iff. simpl. intuition (subst; auto).
  - rewrite upd_other by exact Hne. intuition (subst; auto). congruence.
Qed.

Lemma bkt0_fold_NoDup : forall g (l : list nat) (b0 : nat -> list nat),
  NoDup l -> (forall d, NoDup (b0 d)) -> (forall d v, In v (b0 d) -> ~ In v l) ->
  forall d, NoDup (fold_left (fun b v => upd b (deg0 g v) (b (deg0 g v) ++ [v])) l b0 d).
Proof.
  intros g l. induction l as [|x l IH]; intros b0 Hl Hb Hdis d; simpl; [apply Hb|].
  inversion Hl as [|? ? Hx Hl']; subst.
  apply IH; [exact Hl' | |].
  - intros d'. destruct (Nat.eq_dec d' (deg0 g x)) as [->|Hne].
    + rewrite upd_same. apply NoDup_app_single; [apply Hb|].
      intros H. apply (Hdis _ _ H). now left.
    + rewrite upd_other by exact Hne. apply Hb.
  - intros d' v Hv Hvl. destruct (Nat.eq_dec d' (deg0 g x)) as [->|Hne].
    + rewrite upd_same, in_app_iff in Hv. simpl in Hv. destruct Hv as [Hv|[<-|[]]].
      * apply (Hdis _ _ Hv). now right.
      * contradiction.
    + rewrite upd_other in Hv by exact Hne. apply (Hdis _ _ Hv). now right.
Qed.

Lemma remL_nil : forall g, remL g [] = nodes g.
Proof.
  intros g. unfold remL. induction (nodes g) as [|x l IH]; [reflexivity|].
  cbn [filter]. change (has_core [] x) with false. cbn [negb]. f_equal. exact IH.
Qed.

Lemma degR_nil : forall g v, degR g [] v = deg0 g v.
Proof.
  intros g v. unfold degR, deg_in, deg0. rewrite remL_nil. f_equal.
  rewrite (filter_ext_in' _ (fun _ => true) (sadj g v)).
  - clear. induction (sadj g v) as [|x l IH]; simpl; [reflexivity|]. now rewrite IH.
  - intros w Hw. apply memb_In. now destruct (sadj_nodes g v w Hw).
Qed.

Lemma init_Inv : forall g, NoDup (nodes g) -> Inv g 0 (init g).
Proof.
  intros g Hnd. constructor; simpl.
  - intros v c H. discriminate.
  - constructor.
  - intros v Hv _. unfold bkt0. apply bkt0_fold_In. right. auto.
  - intros d v Hin. unfold bkt0 in Hin. apply bkt0_fold_In in Hin.
    destruct Hin as [[]|[H1 H2]]. auto.
  - intros d. unfold bkt0. apply bkt0_fold_NoDup; [exact Hnd | intros; constructor | intros ? ? []].
  - intros v Hv _. now rewrite degR_nil.
  - intros v Hv. unfold max_degree. apply list_max_ge. now apply in_map.
  - reflexivity.
  - exists (nodes g). split; [auto|]. intros v Hv. split; [exact Hv | lia].
  - intros v c H. discriminate.
Qed.

Lemma In_length_pos {A} (x : A) l : In x l -> 1 <= length l.
Proof. destruct l; simpl; [intros [] | lia]. Qed.

(* ---------- while buckets[k] *)
Lemma drain_Inv : forall pick g k fuel s, NoDup (nodes g) -> Inv g k s ->
  length (remL g (core s)) <= fuel ->
  exists s', drain fuel pick g k s = Some s' /\ Inv g k s' /\ bkt s' k = [] /\
             length (remL g (core s')) <= length (remL g (core s)).
Proof.
  intros pick g k fuel. induction fuel as [|f IH]; intros s Hnd HI Hlen; simpl.
  - destruct (bkt s k) as [|x b] eqn:Eb.
    + exists s. auto.
    + exfalso. assert (Hx : In x (bkt s k)) by (rewrite Eb; now left).
      destruct (i_bkt g k s HI k x Hx) as (H1 & H2 & _).
      assert (Hin : In x (remL g (core s))) by (apply remL_In; auto).
      apply In_length_pos in Hin. lia.
  - destruct (bkt s k) as [|x b] eqn:Eb.
    + exists s. auto.
    + assert (Hne : bkt s k <> []) by (rewrite Eb; discriminate).
      destruct (pop_step_Inv pick g k s Hnd HI Hne) as [HI' Hl'].
      destruct (IH (pop_step pick g k s) Hnd HI') as (s' & Hd & HI'' & Hb & Hl''); [lia|].
      exists s'. split; [exact Hd | split; [exact HI'' | split; [exact Hb | lia]]].
Qed.

(* bucket k is empty: the invariant holds at level k+1 *)
Lemma level_up : forall g k s, Inv g k s -> bkt s k = [] -> Inv g (S k) s.
Proof.
  intros g k s HI Hb. destruct HI as [Hkeys Hnodup Hinb Hbkt Hbnd Hdeg Hmax Hup Hlow Hok].
  assert (Hgt : forall v, In v (nodes g) -> aget (core s) v = None ->
                          deg s v = degR g (core s) v /\ S k <= degR g (core s) v).
  { intros v Hv Hn. specialize (Hdeg v Hv Hn). specialize (Hinb v Hv Hn).
    destruct (Nat.eq_dec (deg s v) k) as [E|E].
    - rewrite E, Hb in Hinb. destruct Hinb.
    - lia. }
  constructor; auto.
  - intros v Hv Hn. destruct (Hgt v Hv Hn). lia.
  - intros S j HS Hj. apply (Hup S j HS). lia.
  - exists (remL g (core s)). split.
    + intros v Hv Hn. apply remL_In. auto.
    + intros v Hv. apply remL_In in Hv. destruct Hv as [Hv Hn]. split; [exact Hv|].
      destruct (Hgt v Hv Hn). exact H0.
  - intros v c Hc. destruct (Hok v c Hc). split; [assumption | lia].
Qed.

Lemma levels_Inv : forall pick g fuel m k0 s, NoDup (nodes g) -> Inv g k0 s ->
  length (remL g (core s)) <= fuel ->
  exists s', levels pick g fuel (seq k0 m) s = Some s' /\ Inv g (k0 + m) s'.
Proof.
  intros pick g fuel m. induction m as [|m IH]; intros k0 s Hnd HI Hlen; simpl.
  - exists s. rewrite Nat.add_0_r. auto.
  - destruct (drain_Inv pick g k0 fuel s Hnd HI Hlen) as (s1 & Hd & HI1 & Hb & Hl).
    rewrite Hd.
    destruct (IH (S k0) s1 Hnd (level_up g k0 s1 HI1 Hb)) as (s' & Hs' & HI'); [lia|].
    exists s'. split; [exact Hs'|]. now rewrite Nat.add_succ_r.
Qed.

(* ---------- main results *)
Lemma peel_correct : forall pick g, NoDup (nodes g) ->
  exists s, peel pick g = Some s /\ kcore_spec g (core s) /\ NoDup (map fst (core s)) /\
            length (core s) = length (nodes g).
Proof.
  intros pick g Hnd. unfold peel.
  destruct (levels_Inv pick g (length (nodes g)) (S (max_degree g)) 0 (init g) Hnd (init_Inv g Hnd))
    as (s & Hs & HI).
  { simpl. rewrite remL_nil. lia. }
  exists s. split; [exact Hs|]. simpl in HI.
  assert (Hall : forall v, In v (nodes g) -> exists c, aget (core s) v = Some c).
  { intros v Hv. destruct (aget (core s) v) eqn:E; [eauto|]. exfalso.
    assert (H1 := i_deg g _ s HI v Hv E). assert (H2 := i_max g _ s HI v Hv). lia. }
  split; [|split].
  - split.
    + intros v. split; [apply Hall|]. intros [c Hc]. eapply (i_keys g _ s HI); eauto.
    + intros v c Hc. now destruct (i_ok g _ s HI v c Hc).
  - apply (i_nodup g _ s HI).
  - rewrite <- (map_length fst (core s)). apply Nat.le_antisymm.
    + apply NoDup_incl_length; [apply (i_nodup g _ s HI)|].
      intros v Hv. apply in_map_iff in Hv. destruct Hv as [[v' c] [<- Hin]]. simpl.
      apply (i_keys g _ s HI v' c). apply In_pair_aget; [apply (i_nodup g _ s HI) | exact Hin].
    + apply NoDup_incl_length; [exact Hnd|].
      intros v Hv. destruct (Hall v Hv) as [c Hc]. eapply aget_In_fst; eauto.
Qed.

Theorem kcore_decomposition_correct : forall pick g, valid_graph g = true ->
  exists r, kcore_decomposition pick g = Some r /\ kcore_spec g (k_solution r) /\
            k_iterations r = length (nodes g) /\ k_evaluations r = length (nodes g).
Proof.
  intros pick g Hv. apply nodup_b_NoDup in Hv. unfold kcore_decomposition.
  destruct (nodes g) as [|x l] eqn:En.
  - eexists. split; [reflexivity|]. simpl. split; [|split; reflexivity].
    unfold kcore_spec. rewrite En. split.
    + intros v. split; [intros [] | intros [c Hc]; discriminate].
    + intros v c Hc. discriminate.
  - rewrite <- En in *. destruct (peel_correct pick g Hv) as (s & Hs & Hspec & _ & Hlen).
    rewrite Hs. eexists. split; [reflexivity|]. simpl. rewrite En in *. auto.
Qed.

Lemma core_number_unique : forall g v c c', core_number g v c -> core_number g v c' -> c = c'.
Proof.
  intros g v c c' [[S [HS1 HS2]] Hu] [[S' [HS1' HS2']] Hu'].
  apply Nat.le_antisymm; [apply (Hu' S c) | apply (Hu S' c')]; assumption.
Qed.

(* the answer does not depend on which element buckets[k].pop() returns *)
Theorem kcore_pick_independent : forall pick1 pick2 g r1 r2, valid_graph g = true ->
  kcore_decomposition pick1 g = Some r1 -> kcore_decomposition pick2 g = Some r2 ->
  forall v, aget (k_solution r1) v = aget (k_solution r2) v.
Proof.
  intros pick1 pick2 g r1 r2 Hv H1 H2 v.
  destruct (kcore_decomposition_correct pick1 g Hv) as (r1' & E1 & [Hk1 Hc1] & _).
  destruct (kcore_decomposition_correct pick2 g Hv) as (r2' & E2 & [Hk2 Hc2] & _).
  rewrite H1 in E1. rewrite H2 in E2. inversion E1; inversion E2; subst r1' r2'.
  destruct (aget (k_solution r1) v) as [c1|] eqn:A1; destruct (aget (k_solution r2) v) as [c2|] eqn:A2.
  - f_equal. eapply core_number_unique; eauto.
  - exfalso. assert (In v (nodes g)) by (apply Hk1; eauto).
    apply Hk2 in H. destruct H as [c Hc]. congruence.
  - exfalso. assert (In v (nodes g)) by (apply Hk2; eauto).
    apply Hk1 in H. destruct H as [c Hc]. congruence.
  - reflexivity.
Qed.

Theorem kcore_correct : forall pick g k, valid_graph g = true ->
  exists cs it ev, kcore pick g k = Some (cs, length cs, it, ev) /\
    forall v, In v cs <-> exists c, In v (nodes g) /\ core_number g v c /\ k <= c.
Proof.
  intros pick g k Hv. unfold kcore, kcore_decomposition.
  assert (Hnd := proj1 (nodup_b_NoDup _) Hv).
  destruct (nodes g) as [|x l] eqn:En.
  - do 3 eexists. split; [reflexivity|]. simpl. intros v. split; [intros [] | intros [c [[] _]]].
  - rewrite <- En in *.
    destruct (peel_correct pick g Hnd) as (s & Hs & [Hk Hc] & Hnodup & _).
    rewrite Hs. do 3 eexists. split; [reflexivity|]. simpl. intros v.
    rewrite in_map_iff. split.
    + intros [[v' c] [<- Hin]]. simpl. apply filter_In in Hin. destruct Hin as [Hin Hle].
      simpl in Hle. apply Nat.leb_le in Hle.
      assert (Ha : aget (core s) v' = Some c) by now apply In_pair_aget.
      exists c. split; [apply Hk; eauto | split; [now apply Hc | exact Hle]].
    + intros [c (Hin & Hcn & Hle)]. apply Hk in Hin. destruct Hin as [c' Hc'].
      assert (c' = c) by (eapply core_number_unique; eauto). subst c'.
      exists (v, c). split; [reflexivity|]. apply filter_In. split.
      * now apply aget_In_pair.
      * simpl. now apply Nat.leb_le.
Qed.

(* only bucket indices <= max_degree are ever non-empty (the Python list has max_degree+1 buckets) *)
Lemma Inv_bucket_range : forall g k s d, Inv g k s -> bkt s d <> [] -> d <= max_degree g.
Proof.
  intros g k s d HI Hne. destruct (bkt s d) as [|x b] eqn:Eb; [congruence|].
  assert (Hx : In x (bkt s d)) by (rewrite Eb; now left).
  destruct (i_bkt g k s HI d x Hx) as (H1 & _ & H3). rewrite <- H3. now apply (i_max g k s HI).
Qed.

(* ---------- soundness of the checker *)
Lemma min_deg_ge_b_sound : forall g k S, min_deg_ge_b g k S = true -> min_deg_ge g k S.
Proof.
  intros g k S H v Hv. unfold min_deg_ge_b in H. rewrite forallb_forall in H.
  specialize (H v Hv). apply andb_true_iff in H. destruct H as [H1 H2].
  split; [now apply memb_In | now apply Nat.leb_le].
Qed.

Lemma min_deg_ge_mono : forall g j j' S, min_deg_ge g j S -> j' <= j -> min_deg_ge g j' S.
Proof. intros g j j' S H Hle v Hv. destruct (H v Hv). split; [assumption | lia]. Qed.

Lemma del_iter_keeps : forall g j S, min_deg_ge g j S -> forall f X,
  (forall v, In v S -> In v X) -> forall v, In v S -> In v (del_iter f g j X).
Proof.
  intros g j S HS f. induction f as [|f IH]; intros X HX v Hv; simpl; [now apply HX|].
  apply IH; [|exact Hv]. intros u Hu. unfold del_round. apply filter_In. split; [now apply HX|].
  apply Nat.leb_le. destruct (HS u Hu) as [_ Hd].
  assert (deg_in g S u <= deg_in g X u) by now apply deg_in_mono. lia.
Qed.

Theorem kcore_check_sound : forall g sol, kcore_check g sol = true -> kcore_spec g sol.
Proof.
  intros g sol H. unfold kcore_check in H.
  apply andb_true_iff in H. destruct H as [H H3].
  apply andb_true_iff in H. destruct H as [H1 H2].
  rewrite forallb_forall in H1, H2, H3. split.
  - intros v. split.
    + intros Hv. specialize (H1 v Hv). destruct (aget sol v); [eauto | discriminate].
    + intros [c Hc]. apply aget_In_pair in Hc. specialize (H2 _ Hc). now apply memb_In.
  - intros v c Hc. assert (Hin := aget_In_pair _ _ _ Hc). specialize (H3 _ Hin). simpl in H3.
    rewrite Hc in H3.
    apply andb_true_iff in H3. destruct H3 as [H3 Hnot].
    apply andb_true_iff in H3. destruct H3 as [Hmin Hmem].
    split.
    + exists (survivors g c). split; [now apply memb_In | now apply min_deg_ge_b_sound].
    + intros S j HvS HS. destruct (le_lt_dec j c) as [Hle|Hlt]; [exact Hle|]. exfalso.
      apply negb_true_iff, memb_false in Hnot. apply Hnot. unfold survivors.
      apply (del_iter_keeps g (Datatypes.S c) S); [apply (min_deg_ge_mono g j); [exact HS | lia] | | exact HvS].
      intros u Hu. now destruct (HS u Hu).
Qed.

(* the checker is not vacuous: it accepts the model's answer *)
Lemma kcore_set_check_sound : forall sol k out, kcore_set_check sol k out = true ->
  forall v, In v out <-> In v (map fst (filter (fun p => k <=? snd p) sol)).
Proof.
  intros sol k out H v. unfold kcore_set_check, set_eqb, incl_b in H.
  apply andb_true_iff in H. destruct H as [H1 H2]. rewrite forallb_forall in H1, H2.
  split; intros Hv; apply memb_In; auto.
Qed.

(* the property statement in one piece: for every pop order, every node gets its core number (the largest
   k such that it lies in a subgraph of minimum degree >= k), the loop never runs out of fuel, one pop per
   node, and kcore(k) is exactly the set of nodes with core number >= k *)
Theorem kcore_full : forall pick g, valid_graph g = true ->
  (exists r, kcore_decomposition pick g = Some r /\ kcore_spec g (k_solution r) /\
             k_iterations r = length (nodes g) /\ k_evaluations r = length (nodes g)) /\
  (forall k, exists cs it ev, kcore pick g k = Some (cs, length cs, it, ev) /\
     forall v, In v cs <-> exists c, In v (nodes g) /\ core_number g v c /\ k <= c).
Proof.
  intros pick g Hv. split.
  - now apply kcore_decomposition_correct.
  - intros k. now apply kcore_correct.
Qed.
