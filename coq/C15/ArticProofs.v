(* Bookkeeping facts (partial correctness) of the low-link DFS model Artic.v:
   uadj is the symmetric simple adjacency (uadj_edge), and an invariant of dfs/roots giving
   artic_sound_partial: reported cut vertices are distinct nodes, reported bridges are canonical
   edges, every node is discovered with low <= discovery, iterations = number of nodes. *)
From Coq Require Import List Arith Bool Lia.
From SV Require Import C15.Graph C15.ArticSpec C15.Artic C15.ArticSpecProofs.
Import ListNotations.

(* ---------- association lists *)
Lemma aget_aset_same : forall A (l : list (nat * A)) k x, aget (aset l k x) k = Some x.
Proof.
  intros A l k x. induction l as [|[k' y] l IH]; simpl.
  - rewrite Nat.eqb_refl. reflexivity.
  - destruct (k' =? k) eqn:E; simpl; rewrite E; [reflexivity | exact IH].
Qed.

Lemma aget_aset_other : forall A (l : list (nat * A)) k k' x,
  k <> k' -> aget (aset l k x) k' = aget l k'.
Proof.
  intros A l k k' x Hne. induction l as [|[k0 y] l IH]; simpl.
  - apply Nat.eqb_neq in Hne. rewrite Hne. reflexivity.
  - destruct (k0 =? k) eqn:E; simpl.
    + apply Nat.eqb_eq in E. subst k0. apply Nat.eqb_neq in Hne. rewrite Hne. reflexivity.
    + rewrite IH. reflexivity.
Qed.

Lemma aget_None_keys : forall A (l : list (nat * A)) k, aget l k = None <-> ~ In k (map fst l).
Proof.
  intros A l k. induction l as [|[k0 y] l IH]; simpl.
  - split; [intros _ [] | reflexivity].
  - destruct (k0 =? k) eqn:E.
    + apply Nat.eqb_eq in E. split; [discriminate | intro H; exfalso; apply H; left; exact E].
    + apply Nat.eqb_neq in E. rewrite IH. split.
      * intros H [H1|H1]; [exact (E H1) | exact (H H1)].
      * intros H H1. apply H. right. exact H1.
Qed.

Lemma aset_keys_new : forall A (l : list (nat * A)) k x,
  aget l k = None -> map fst (aset l k x) = map fst l ++ [k].
Proof.
  intros A l k x. induction l as [|[k0 y] l IH]; simpl; intro H.
  - reflexivity.
  - destruct (k0 =? k) eqn:E; [discriminate|]. simpl. rewrite IH; [reflexivity | exact H].
Qed.

Lemma NoDup_app_intro : forall (l1 l2 : list nat),
  NoDup l1 -> NoDup l2 -> (forall x, In x l1 -> ~ In x l2) -> NoDup (l1 ++ l2).
Proof.
  induction l1 as [|a l1 IH]; simpl; intros l2 H1 H2 Hd.
  - exact H2.
  - inversion H1 as [|a0 l0 Ha Hl]; subst a0 l0. constructor.
    + rewrite in_app_iff. intros [H|H]; [exact (Ha H) | exact (Hd a (or_introl eq_refl) H)].
    + apply IH; [exact Hl | exact H2 | intros x Hx; apply Hd; right; exact Hx].
Qed.

(* ================= (d) the adjacency ================= *)
Lemma dedup_In : forall l seen x, In x (dedup l seen) <-> In x l /\ ~ In x seen.
Proof.
  induction l as [|a l IH]; simpl; intros seen x.
  - split; [intros [] | intros [[] _]].
  - destruct (memb a seen) eqn:E.
    + apply memb_In in E. rewrite IH. split.
      * intros [H1 H2]. split; auto.
      * intros [[H1|H1] H2]; [subst a; contradiction | auto].
    + apply memb_false in E. simpl. rewrite IH. simpl. split.
      * intros [H | [H1 H2]]; [subst a; split; auto | split; auto].
      * intros [[H|H] H2]; [left; exact H|].
        destruct (Nat.eq_dec a x) as [Heq|Hne]; [left; exact Heq|].
        right. split; [exact H|]. intros [H3|H3]; auto.
Qed.

Lemma dedup_NoDup : forall l seen, NoDup (dedup l seen).
Proof.
  induction l as [|a l IH]; simpl; intro seen.
  - constructor.
  - destruct (memb a seen); [apply IH|]. constructor; [|apply IH].
    rewrite dedup_In. intros [_ H]. apply H. left. reflexivity.
Qed.

Lemma own_In : forall g v w, In w (own g v) <-> In w (nbrs g v) /\ In w (nodes g) /\ w <> v.
Proof.
  intros g v w. unfold own. rewrite dedup_In, filter_In, andb_true_iff, memb_In, negb_true_iff,
    Nat.eqb_neq. simpl. tauto.
Qed.

Lemma uadj_In : forall g v w, In v (nodes g) ->
  (In w (uadj g v) <-> edge_b g v w = true).
Proof.
  intros g v w Hv. unfold uadj. rewrite in_app_iff, filter_In, andb_true_iff, negb_true_iff,
    memb_In, memb_false, !own_In.
  unfold edge_b. rewrite !andb_true_iff, orb_true_iff, negb_true_iff, Nat.eqb_neq, !memb_In.
  split.
  - intros [(H1 & H2 & H3) | (H1 & (H2 & H3 & H4) & H5)].
    + repeat split; auto.
    + repeat split; auto.
  - intros (((H1 & H2) & H3) & H4).
    destruct (memb w (nbrs g v)) eqn:E.
    + apply memb_In in E. left. repeat split; auto.
    + apply memb_false in E. destruct H4 as [H4|H4]; [contradiction|].
      right. repeat split; auto. intros (H5 & _). exact (E H5).
Qed.

Theorem uadj_edge : forall g v, valid_graph g = true -> In v (nodes g) ->
  (forall w, In w (uadj g v) <-> edge_b g v w = true) /\ NoDup (uadj g v).
Proof.
  intros g v Hg Hv. split; [intro w; apply uadj_In; exact Hv|].
  unfold uadj. apply NoDup_app_intro.
  - apply dedup_NoDup.
  - apply NoDup_filter. apply nodup_b_NoDup. exact Hg.
  - intros x Hx Hf. apply filter_In in Hf. destruct Hf as [_ Hf].
    apply andb_prop in Hf. destruct Hf as [_ Hf]. apply negb_true_iff in Hf.
    apply memb_false in Hf. exact (Hf Hx).
Qed.

(* ================= (e) the DFS invariant ================= *)
(* the nested loop of dfs as a top-level function *)
Section Loop.
Variable rec : nat -> ast -> option ast.
Variable v : nat.
Fixpoint dfs_loop (ws : list nat) (children : nat) (s : ast) {struct ws} : option ast :=
  match ws with
  | [] => Some s
  | w :: ws' =>
    match aget (disc s) w with
    | None =>
      match rec w (set_par s w (Some v)) with
      | None => None
      | Some s' => dfs_loop ws' (S children) (after_child s' v w (S children))
      end
    | Some dw =>
      if parent_is s v w then dfs_loop ws' children s
      else dfs_loop ws' children (set_low s v (Nat.min (lowd s v) dw))
    end
  end.
End Loop.

Lemma dfs_S : forall f g v s,
  dfs (S f) g v s = dfs_loop (dfs f g) v (uadj g v) 0 (enter s v).
Proof. intros f g v s. reflexivity. Qed.

Definition Inv (g : graph) (s : ast) : Prop :=
  (forall v, In v (aps s) -> In v (nodes g)) /\ NoDup (aps s) /\
  (forall a b, In (a, b) (brs s) -> a < b /\ edge_b g a b = true) /\
  (forall v d, aget (disc s) v = Some d ->
     In v (nodes g) /\ d < time s /\ exists l, aget (low s) v = Some l /\ l <= d) /\
  iters s = length (disc s) /\ iters s = time s /\ NoDup (map fst (disc s)).

(* discovered nodes stay discovered *)
Definition mono (d d' : list (nat * nat)) : Prop :=
  forall x, aget d x <> None -> aget d' x <> None.

Lemma mono_refl : forall d, mono d d.
Proof. intros d x H. exact H. Qed.
Lemma mono_trans : forall d1 d2 d3, mono d1 d2 -> mono d2 d3 -> mono d1 d3.
Proof. intros d1 d2 d3 H1 H2 x H. apply H2. apply H1. exact H. Qed.

Lemma Inv_set_par : forall g s w p, Inv g s -> Inv g (set_par s w p).
Proof. intros g s w p H. exact H. Qed.

Lemma Inv_set_low : forall g s v x, Inv g s -> Inv g (set_low s v (Nat.min (lowd s v) x)).
Proof.
  intros g s v x (H1 & H2 & H3 & H4 & H567). unfold Inv. simpl.
  split; [exact H1|]. split; [exact H2|]. split; [exact H3|]. split; [|exact H567].
  intros u d Hu. destruct (H4 u d Hu) as (A & B & l & Hl & Hle).
  split; [exact A|]. split; [exact B|].
  destruct (Nat.eq_dec v u) as [Heq|Hne].
  - subst u. exists (Nat.min (lowd s v) x). split; [apply aget_aset_same|].
    unfold lowd, agetd. rewrite Hl. lia.
  - exists l. split; [|exact Hle]. rewrite aget_aset_other; [exact Hl | exact Hne].
Qed.

Lemma NoDup_snoc : forall (l : list nat) x, NoDup l -> ~ In x l -> NoDup (l ++ [x]).
Proof.
  intros l x Hl Hx. apply NoDup_app_intro; [exact Hl | repeat constructor; intros [] |].
  intros y Hy [Hy'|[]]. subst y. exact (Hx Hy).
Qed.

Lemma Inv_add_ap : forall g s v, In v (nodes g) -> Inv g s -> Inv g (add_ap s v).
Proof.
  intros g s v Hv (H1 & H2 & H37). unfold Inv. simpl.
  destruct (memb v (aps s)) eqn:E.
  - split; [exact H1|]. split; [exact H2 | exact H37].
  - apply memb_false in E. split; [|split; [|exact H37]].
    + intros u Hu. apply in_app_or in Hu. destruct Hu as [Hu|[Hu|[]]]; [auto | subst u; exact Hv].
    + apply NoDup_snoc; assumption.
Qed.

Lemma Inv_add_br : forall g s v w, edge_b g v w = true -> Inv g s -> Inv g (add_br s (canon v w)).
Proof.
  intros g s v w He (H1 & H2 & H3 & H47). unfold Inv. simpl.
  assert (Hc : forall a b, In (a, b) (brs s ++ [canon v w]) -> a < b /\ edge_b g a b = true).
  { intros a b Hab. apply in_app_or in Hab. destruct Hab as [Hab|[Hab|[]]]; [auto|].
    destruct (edge_b_nodes g v w He) as (_ & _ & Hne).
    unfold canon in Hab. destruct (v <? w) eqn:E; injection Hab as Ha Hb; subst a b.
    - apply Nat.ltb_lt in E. auto.
    - apply Nat.ltb_ge in E. split; [lia | rewrite edge_b_sym; exact He]. }
  split; [exact H1|]. split; [exact H2|]. split; [exact Hc | exact H47].
Qed.

Lemma Inv_enter : forall g s v, In v (nodes g) -> aget (disc s) v = None -> Inv g s ->
  Inv g (enter s v).
Proof.
  intros g s v Hv Hnone (H1 & H2 & H3 & H4 & H5 & H6 & H7). unfold Inv. simpl.
  assert (H4' : forall u d, aget (aset (disc s) v (time s)) u = Some d ->
     In u (nodes g) /\ d < S (time s) /\
     exists l, aget (aset (low s) v (time s)) u = Some l /\ l <= d).
  { intros u d Hu. destruct (Nat.eq_dec v u) as [Heq|Hne].
    - subst u. rewrite aget_aset_same in Hu. injection Hu as Hu. subst d.
      split; [exact Hv|]. split; [lia|]. exists (time s). split; [apply aget_aset_same | lia].
    - rewrite aget_aset_other in Hu by exact Hne.
      destruct (H4 u d Hu) as (A & B & l & Hl & Hle). split; [exact A|]. split; [lia|].
      exists l. split; [|exact Hle]. rewrite aget_aset_other; [exact Hl | exact Hne]. }
  assert (Hk := aset_keys_new _ (disc s) v (time s) Hnone).
  split; [exact H1|]. split; [exact H2|]. split; [exact H3|]. split; [exact H4'|].
  split; [|split; [lia|]].
  - rewrite <- (map_length fst (aset (disc s) v (time s))), Hk, app_length, map_length. simpl. lia.
  - rewrite Hk. apply NoDup_snoc; [exact H7|]. apply aget_None_keys. exact Hnone.
Qed.

Lemma disc_after_child : forall s v w c, disc (after_child s v w c) = disc s.
Proof.
  intros s v w c. unfold after_child.
  repeat match goal with |- context [if ?b then _ else _] => destruct b end; reflexivity.
Qed.

Lemma Inv_after_child : forall g s v w c, In v (nodes g) -> edge_b g v w = true -> Inv g s ->
  Inv g (after_child s v w c).
Proof.
  intros g s v w c Hv He H. unfold after_child.
  pose proof (Inv_set_low g s v (lowd s w) H) as H1.
  set (s1 := set_low s v (Nat.min (lowd s v) (lowd s w))) in *.
  assert (H2 : Inv g (if is_root s1 v then (if 2 <=? c then add_ap s1 v else s1)
                      else if discd s1 v <=? lowd s1 w then add_ap s1 v else s1)).
  { destruct (is_root s1 v); [destruct (2 <=? c) | destruct (discd s1 v <=? lowd s1 w)];
      try exact H1; apply Inv_add_ap; assumption. }
  set (s2 := if is_root s1 v then (if 2 <=? c then add_ap s1 v else s1)
             else if discd s1 v <=? lowd s1 w then add_ap s1 v else s1) in *.
  destruct (discd s2 v <? lowd s2 w); [apply Inv_add_br; assumption | exact H2].
Qed.

Lemma mono_enter : forall s v, mono (disc s) (disc (enter s v)).
Proof.
  intros s v x H. simpl. destruct (Nat.eq_dec v x) as [Heq|Hne].
  - subst x. rewrite aget_aset_same. discriminate.
  - rewrite aget_aset_other by exact Hne. exact H.
Qed.

Definition dfs_spec (g : graph) (f : nat) : Prop :=
  forall w s s', In w (nodes g) -> aget (disc s) w = None -> Inv g s ->
    dfs f g w s = Some s' ->
    Inv g s' /\ mono (disc s) (disc s') /\ aget (disc s') w <> None.

Lemma loop_inv : forall g f v, dfs_spec g f -> In v (nodes g) ->
  forall ws children s s',
    (forall w, In w ws -> edge_b g v w = true) -> Inv g s ->
    dfs_loop (dfs f g) v ws children s = Some s' ->
    Inv g s' /\ mono (disc s) (disc s').
Proof.
  intros g f v IHf Hv. induction ws as [|w ws IH]; intros children s s' Hws HI H; simpl in H.
  - injection H as H. subst s'. split; [exact HI | apply mono_refl].
  - assert (He : edge_b g v w = true) by (apply Hws; left; reflexivity).
    assert (Hws' : forall w0, In w0 ws -> edge_b g v w0 = true)
      by (intros w0 Hw0; apply Hws; right; exact Hw0).
    destruct (aget (disc s) w) as [dw|] eqn:Hd.
    + destruct (parent_is s v w).
      * exact (IH children s s' Hws' HI H).
      * exact (IH children _ s' Hws' (Inv_set_low g s v dw HI) H).
    + destruct (dfs f g w (set_par s w (Some v))) as [a|] eqn:Hr; [|discriminate].
      destruct (edge_b_nodes g v w He) as (_ & Hw & _).
      destruct (IHf w (set_par s w (Some v)) a Hw Hd (Inv_set_par g s w (Some v) HI) Hr)
        as (Ia & Ma & _).
      destruct (IH (S children) _ s' Hws' (Inv_after_child g a v w (S children) Hv He Ia) H)
        as (Is' & Ms').
      split; [exact Is'|]. rewrite disc_after_child in Ms'.
      exact (mono_trans _ _ _ Ma Ms').
Qed.

Lemma dfs_inv : forall g, valid_graph g = true -> forall f, dfs_spec g f.
Proof.
  intros g Hg f. induction f as [|f IHf]; intros v s s' Hv Hnone HI H.
  - discriminate.
  - rewrite dfs_S in H.
    destruct (loop_inv g f v IHf Hv (uadj g v) 0 (enter s v) s') as (Is' & Ms').
    + intros w Hw. apply (uadj_In g v w Hv). exact Hw.
    + apply Inv_enter; assumption.
    + exact H.
    + split; [exact Is'|]. split.
      * exact (mono_trans _ _ _ (mono_enter s v) Ms').
      * apply Ms'. simpl. rewrite aget_aset_same. discriminate.
Qed.

Lemma roots_inv : forall g fuel, valid_graph g = true ->
  forall vs s s', incl vs (nodes g) -> Inv g s -> roots fuel g vs s = Some s' ->
    Inv g s' /\ mono (disc s) (disc s') /\ (forall v, In v vs -> aget (disc s') v <> None).
Proof.
  intros g fuel Hg. induction vs as [|v vs IH]; intros s s' Hincl HI H; simpl in H.
  - injection H as H. subst s'. split; [exact HI|]. split; [apply mono_refl | intros v []].
  - assert (Hv : In v (nodes g)) by (apply Hincl; left; reflexivity).
    assert (Hincl' : incl vs (nodes g)) by (intros z Hz; apply Hincl; right; exact Hz).
    destruct (aget (disc s) v) as [d|] eqn:Hd.
    + destruct (IH s s' Hincl' HI H) as (A & B & C). split; [exact A|]. split; [exact B|].
      intros u [Hu|Hu]; [|apply C; exact Hu]. subst u. apply B. rewrite Hd. discriminate.
    + destruct (dfs fuel g v (set_par s v None)) as [a|] eqn:Hr; [|discriminate].
      destruct (dfs_inv g Hg fuel v (set_par s v None) a Hv Hd (Inv_set_par g s v None HI) Hr)
        as (Ia & Ma & Da).
      destruct (IH a s' Hincl' Ia H) as (A & B & C). split; [exact A|]. split.
      * exact (mono_trans _ _ _ Ma B).
      * intros u [Hu|Hu]; [|apply C; exact Hu]. subst u. apply B. exact Da.
Qed.

Lemma Inv_ainit : forall g, Inv g ainit.
Proof.
  intro g. unfold Inv, ainit. simpl.
  split; [intros v []|]. split; [constructor|]. split; [intros a b []|].
  split; [intros v d Hd; discriminate|]. split; [reflexivity|]. split; [reflexivity | constructor].
Qed.

Theorem artic_sound_partial : forall g s, valid_graph g = true -> run g = Some s ->
  (forall v, In v (aps s) -> In v (nodes g)) /\ NoDup (aps s) /\
  (forall a b, In (a, b) (brs s) -> a < b /\ edge_b g a b = true) /\
  (forall v, In v (nodes g) ->
     exists d l, aget (disc s) v = Some d /\ aget (low s) v = Some l /\ l <= d) /\
  iters s = length (nodes g).
Proof.
  intros g s Hg H. unfold run in H.
  destruct (roots_inv g _ Hg (nodes g) ainit s (incl_refl _) (Inv_ainit g) H)
    as ((H1 & H2 & H3 & H4 & H5 & H6 & H7) & _ & Hall).
  split; [exact H1|]. split; [exact H2|]. split; [exact H3|]. split.
  - intros v Hv. specialize (Hall v Hv). destruct (aget (disc s) v) as [d|] eqn:Hd; [|congruence].
    destruct (H4 v d Hd) as (_ & _ & l & Hl & Hle). exists d, l. auto.
  - rewrite H5. rewrite <- (map_length fst (disc s)).
    apply nodup_b_NoDup in Hg.
    assert (A : length (map fst (disc s)) <= length (nodes g)).
    { apply NoDup_incl_length; [exact H7|]. intros k Hk.
      destruct (aget (disc s) k) as [d|] eqn:Hd.
      - destruct (H4 k d Hd) as (A & _). exact A.
      - apply aget_None_keys in Hd. contradiction. }
    assert (B : length (nodes g) <= length (map fst (disc s))).
    { apply NoDup_incl_length; [exact Hg|]. intros k Hk.
      specialize (Hall k Hk). destruct (in_dec Nat.eq_dec k (map fst (disc s))) as [Hin|Hout];
        [exact Hin|]. apply aget_None_keys in Hout. contradiction. }
    lia.
Qed.

(* ================= (f) the fuel is never exhausted ================= *)
Definition undisc (d : list (nat * nat)) (x : nat) : bool :=
  match aget d x with None => true | Some _ => false end.
(* number of undiscovered nodes *)
Definition U (g : graph) (d : list (nat * nat)) : nat := length (filter (undisc d) (nodes g)).

Lemma filter_len_le : forall (p p' : nat -> bool) l,
  (forall x, p' x = true -> p x = true) -> length (filter p' l) <= length (filter p l).
Proof.
  intros p p' l Himp. induction l as [|a l IH]; simpl; [lia|].
  destruct (p' a) eqn:E'.
  - rewrite (Himp a E'). simpl. lia.
  - destruct (p a); simpl; lia.
Qed.

Lemma filter_len_lt : forall (p p' : nat -> bool) l v,
  (forall x, p' x = true -> p x = true) -> In v l -> p v = true -> p' v = false ->
  length (filter p' l) < length (filter p l).
Proof.
  intros p p' l v Himp. induction l as [|a l IH]; simpl; intros Hin Hp Hp'; [contradiction|].
  destruct Hin as [Heq|Hin].
  - subst a. rewrite Hp, Hp'. simpl. pose proof (filter_len_le p p' l Himp). lia.
  - specialize (IH Hin Hp Hp'). destruct (p' a) eqn:E'.
    + rewrite (Himp a E'). simpl. lia.
    + destruct (p a); simpl; lia.
Qed.

Lemma filter_len_all : forall (p : nat -> bool) l, length (filter p l) <= length l.
Proof.
  intros p l. induction l as [|a l IH]; simpl; [lia|]. destruct (p a); simpl; lia.
Qed.

Lemma U_mono : forall g d d', mono d d' -> U g d' <= U g d.
Proof.
  intros g d d' Hm. unfold U. apply filter_len_le. intros x Hx. unfold undisc in *.
  destruct (aget d x) as [y|] eqn:E; [|reflexivity].
  assert (Hn : aget d' x <> None) by (apply Hm; rewrite E; discriminate).
  destruct (aget d' x); [discriminate | congruence].
Qed.

Lemma U_enter : forall g s v, In v (nodes g) -> aget (disc s) v = None ->
  U g (disc (enter s v)) < U g (disc s).
Proof.
  intros g s v Hv Hnone. unfold U. apply filter_len_lt with (v := v).
  - intros x Hx. unfold undisc in *. destruct (aget (disc s) x) as [y|] eqn:E; [|reflexivity].
    assert (Hn : aget (disc (enter s v)) x <> None) by (apply mono_enter; rewrite E; discriminate).
    destruct (aget (disc (enter s v)) x); [discriminate | congruence].
  - exact Hv.
  - unfold undisc. rewrite Hnone. reflexivity.
  - unfold undisc. simpl. rewrite aget_aset_same. reflexivity.
Qed.

Definition dfs_total (g : graph) (f : nat) : Prop :=
  forall w s, In w (nodes g) -> aget (disc s) w = None -> Inv g s -> U g (disc s) <= f ->
    dfs f g w s <> None.

Lemma loop_total : forall g f v, valid_graph g = true -> dfs_total g f -> In v (nodes g) ->
  forall ws children s,
    (forall w, In w ws -> edge_b g v w = true) -> Inv g s -> U g (disc s) <= f ->
    dfs_loop (dfs f g) v ws children s <> None.
Proof.
  intros g f v Hg IHf Hv. induction ws as [|w ws IH]; intros children s Hws HI HU; simpl.
  - discriminate.
  - assert (He : edge_b g v w = true) by (apply Hws; left; reflexivity).
    assert (Hws' : forall w0, In w0 ws -> edge_b g v w0 = true)
      by (intros w0 Hw0; apply Hws; right; exact Hw0).
    destruct (aget (disc s) w) as [dw|] eqn:Hd.
    + destruct (parent_is s v w).
      * exact (IH children s Hws' HI HU).
      * exact (IH children _ Hws' (Inv_set_low g s v dw HI) HU).
    + destruct (edge_b_nodes g v w He) as (_ & Hw & _).
      pose proof (Inv_set_par g s w (Some v) HI) as HI'.
      destruct (dfs f g w (set_par s w (Some v))) as [a|] eqn:Hr.
      * destruct (dfs_inv g Hg f w (set_par s w (Some v)) a Hw Hd HI' Hr) as (Ia & Ma & _).
        apply IH; [exact Hws' | apply Inv_after_child; assumption |].
        rewrite disc_after_child. pose proof (U_mono g _ _ Ma) as HU'. simpl in HU'. lia.
      * exfalso. exact (IHf w (set_par s w (Some v)) Hw Hd HI' HU Hr).
Qed.

Lemma dfs_total_all : forall g, valid_graph g = true -> forall f, dfs_total g f.
Proof.
  intros g Hg f. induction f as [|f IHf]; intros v s Hv Hnone HI HU.
  - pose proof (U_enter g s v Hv Hnone). lia.
  - rewrite dfs_S. apply (loop_total g f v Hg IHf Hv).
    + intros w Hw. apply (uadj_In g v w Hv). exact Hw.
    + apply Inv_enter; assumption.
    + pose proof (U_enter g s v Hv Hnone). lia.
Qed.

Lemma roots_total : forall g fuel, valid_graph g = true -> length (nodes g) <= fuel ->
  forall vs s, incl vs (nodes g) -> Inv g s -> roots fuel g vs s <> None.
Proof.
  intros g fuel Hg Hfuel. induction vs as [|v vs IH]; intros s Hincl HI; simpl.
  - discriminate.
  - assert (Hv : In v (nodes g)) by (apply Hincl; left; reflexivity).
    assert (Hincl' : incl vs (nodes g)) by (intros z Hz; apply Hincl; right; exact Hz).
    destruct (aget (disc s) v) as [d|] eqn:Hd.
    + exact (IH s Hincl' HI).
    + pose proof (Inv_set_par g s v None HI) as HI'.
      destruct (dfs fuel g v (set_par s v None)) as [a|] eqn:Hr.
      * destruct (dfs_inv g Hg fuel v (set_par s v None) a Hv Hd HI' Hr) as (Ia & _ & _).
        exact (IH a Hincl' Ia).
      * exfalso. apply (dfs_total_all g Hg fuel v (set_par s v None) Hv Hd HI'); [|exact Hr].
        simpl. unfold U. pose proof (filter_len_all (undisc (disc s)) (nodes g)). lia.
Qed.

Theorem run_fuel_ok : forall g, valid_graph g = true -> run g <> None.
Proof.
  intros g Hg. unfold run. apply roots_total; [exact Hg | lia | apply incl_refl | apply Inv_ainit].
Qed.

Print Assumptions uadj_edge.
Print Assumptions artic_sound_partial.
Print Assumptions run_fuel_ok.
