(* Model of solvor/pagerank.py: pagerank (power iteration, dangling-node redistribution, damping,
   L-infinity stopping rule  max_v |new[v]-old[v]| < tol,  max_iter).  Definitions only.  Floats -> Q.

   incoming[w]      -> the list of v (node-list order, with multiplicity: one entry per occurrence of w
                       in neighbors(v)); self loops and duplicates count, labels outside the node set
                       are skipped
   outgoing_count[v]-> number of entries of neighbors(v) that lie in the node set (with multiplicity)
   scores           -> association list in node order (values are kept reduced with Qred; Qred x == x)
   `for iterations in range(1, max_iter+1)` -> structural recursion on max_iter; max_iter = 0 returns the
   uniform scores with objective float("inf") and status MAX_ITER: modelled as PR_noiter (the objective
   observable is an option, None = inf). *)
From Coq Require Import List Arith Bool ZArith QArith Qabs Qminmax.
From SV Require Import C15.Graph.
Import ListNotations.
Open Scope Q_scope.

Definition in_set_nbrs (g : graph) (v : nat) : list nat :=
  filter (fun w => memb w (nodes g)) (nbrs g v).

Definition out_count (g : graph) (v : nat) : nat := length (in_set_nbrs g v).

Definition incoming (g : graph) (v : nat) : list nat :=
  flat_map (fun u => map (fun _ => u) (filter (Nat.eqb v) (in_set_nbrs g u))) (nodes g).

Definition qn (n : nat) : Q := inject_Z (Z.of_nat n).

Definition qsum (l : list Q) : Q := fold_right Qplus 0 l.

Definition score (s : list (nat * Q)) (v : nat) : Q := agetd 0 s v.

Definition init_scores (g : graph) : list (nat * Q) :=
  map (fun v => (v, Qred (1 / qn (length (nodes g))))) (nodes g).

Definition dangling_sum (g : graph) (s : list (nat * Q)) : Q :=
  qsum (map (score s) (filter (fun v => out_count g v =? 0)%nat (nodes g))).

Definition rank_sum (g : graph) (s : list (nat * Q)) (v : nat) : Q :=
  qsum (map (fun u => score s u / qn (out_count g u)) (incoming g v)).

(* new_scores[v] = base_score + damping * rank_sum + dangling_contrib *)
Definition new_score (g : graph) (d : Q) (s : list (nat * Q)) (v : nat) : Q :=
  let n := qn (length (nodes g)) in
  (1 - d) / n + d * rank_sum g s v + d * dangling_sum g s / n.

Definition step (g : graph) (d : Q) (s : list (nat * Q)) : list (nat * Q) :=
  map (fun v => (v, Qred (new_score g d s v))) (nodes g).

(* max_diff = max(max_diff, abs(new_scores[v] - scores[v])) over node_list, from 0.0 *)
Definition max_diff (g : graph) (s s' : list (nat * Q)) : Q :=
  fold_left (fun m v => Qmax m (Qabs (score s' v - score s v))) (nodes g) 0.

Inductive pstatus := P_OPTIMAL | P_MAX_ITER.

Record pres := { p_scores : list (nat * Q); p_objective : Q; p_iterations : nat; p_status : pstatus }.

Definition qltb (a b : Q) : bool := negb (Qle_bool b a).

Fixpoint pr_loop (fuel : nat) (it : nat) (g : graph) (d tol : Q) (s : list (nat * Q)) (last : Q) : pres :=
  match fuel with
  | 0%nat => {| p_scores := s; p_objective := last; p_iterations := it; p_status := P_MAX_ITER |}
  | S f =>
    let s' := step g d s in
    let md := Qred (max_diff g s s') in
    if qltb md tol
    then {| p_scores := s'; p_objective := md; p_iterations := S it; p_status := P_OPTIMAL |}
    else pr_loop f (S it) g d tol s' md
  end.

Inductive presult := PR_empty | PR_noiter (s : list (nat * Q)) | PR_ok (r : pres).

Definition pagerank (g : graph) (d tol : Q) (max_iter : nat) : presult :=
  match nodes g with
  | [] => PR_empty                                       (* Result({}, 0.0, 0, 0) *)
  | _ =>
    match max_iter with
    | 0%nat => PR_noiter (init_scores g)                 (* Result(scores, inf, 0, n, MAX_ITER) *)
    | _ => PR_ok (pr_loop max_iter 0 g d tol (init_scores g) 0)
    end
  end.

(* k iterations without the stopping test (used when a threshold comparison is too close to call) *)
Fixpoint iterate (k : nat) (g : graph) (d : Q) (s : list (nat * Q)) : list (nat * Q) :=
  match k with 0%nat => s | S k' => iterate k' g d (step g d s) end.

(* observable comparison *)
Definition close (eps a b : Q) : bool := Qle_bool (Qabs (a - b)) eps.

Definition scores_close (eps : Q) (g : graph) (a b : list (nat * Q)) : bool :=
  (length a =? length b)%nat && (length a =? length (nodes g))%nat
  && forallb (fun v => match aget a v, aget b v with
                       | Some x, Some y => close eps x y | _, _ => false end) (nodes g).

Definition pstatus_eqb (a b : pstatus) : bool :=
  match a, b with P_OPTIMAL, P_OPTIMAL => true | P_MAX_ITER, P_MAX_ITER => true | _, _ => false end.

(* impl observable: (scores, objective (None = inf), iterations, status) *)
Definition pr_corr_strict (eps : Q) (g : graph) (d tol : Q) (max_iter : nat)
           (o : list (nat * Q) * option Q * nat * pstatus) : bool :=
  let '(sc, obj, it, st) := o in
  match pagerank g d tol max_iter, obj with
  | PR_ok r, Some ob => scores_close eps g (p_scores r) sc && close eps (p_objective r) ob
               && (p_iterations r =? it)%nat && pstatus_eqb (p_status r) st
  | PR_noiter s, None => scores_close eps g s sc && (it =? 0)%nat && pstatus_eqb P_MAX_ITER st
  | _, _ => false
  end.

Definition pr_corr_iter (eps : Q) (g : graph) (d : Q) (it : nat) (sc : list (nat * Q)) : bool :=
  scores_close eps g (iterate it g d (init_scores g)) sc.

(* spec checker on the implementation's answer: non-negative, sums to 1 within eps, and (when OPTIMAL)
   the residual of the damped equation  sum_v |s[v] - F(s)[v]|  is <= bound *)
Definition residual (g : graph) (d : Q) (s : list (nat * Q)) : Q :=
  qsum (map (fun v => Qabs (score s v - new_score g d s v)) (nodes g)).

Definition pr_spec_check (eps : Q) (g : graph) (d : Q) (bound : Q) (sc : list (nat * Q)) : bool :=
  forallb (fun v => match aget sc v with Some x => Qle_bool 0 x | None => false end) (nodes g)
  && close eps (qsum (map (score sc) (nodes g))) 1
  && Qle_bool (residual g d sc) bound.

(* one generated correspondence case: (g, ((damping, tol, max_iter), (strict, observable, residual bound))) *)
Definition pr_case (c : graph * ((Q * Q * nat) * (bool * (list (nat * Q) * option Q * nat * pstatus) * Q))) : bool :=
  let g := fst c in
  let d := fst (fst (fst (snd c))) in
  let tol := snd (fst (fst (snd c))) in
  let mi := snd (fst (snd c)) in
  let strict := fst (fst (snd (snd c))) in
  let o := snd (fst (snd (snd c))) in
  let bound := snd (snd (snd c)) in
  let sc := fst (fst (fst o)) in
  let it := snd (fst o) in
  let eps := 1 # 1000000000 in
  (if strict then pr_corr_strict eps g d tol mi o else pr_corr_iter eps g d it sc)
  && pr_spec_check eps g d bound sc.
