(* Exactness of the low-link DFS model (Artic.v), part 1: predicate-based connectivity, sealed sets,
   stack chains, the separation forms of "cut vertex" / "bridge" used by the DFS invariant, and the
   frame relation `ext` between DFS states.  Pure definitions and small lemmas. *)
From Coq Require Import List Arith Bool Relations Lia.
From SV Require Import C15.Graph C15.ArticSpec C15.Artic C15.ArticSpecProofs C15.ArticProofs.
Import ListNotations.

(* ---------- connectivity inside a predicate *)
Definition connP (P : nat -> Prop) (e : nat -> nat -> bool) : nat -> nat -> Prop :=
  clos_refl_trans nat (fun x y => P x /\ P y /\ e x y = true).

Lemma conn_connP : forall vs e a b, conn vs e a b <-> connP (fun x => In x vs) e a b.
Proof. intros vs e a b. unfold conn, connP. tauto. Qed.

Lemma connP_refl : forall P e a, connP P e a a.
Proof. intros P e a. apply rt_refl. Qed.

Lemma connP_trans : forall P e a b c, connP P e a b -> connP P e b c -> connP P e a c.
Proof. intros P e a b c H1 H2. exact (rt_trans _ _ _ _ _ H1 H2). Qed.

Lemma connP_step : forall (P : nat -> Prop) e a b, P a -> P b -> e a b = true -> connP P e a b.
Proof. intros P e a b Ha Hb He. apply rt_step. auto. Qed.

Lemma connP_mono : forall (P Q : nat -> Prop) (e e' : nat -> nat -> bool) a b,
  (forall x, P x -> Q x) ->
  (forall x y, P x -> P y -> e x y = true -> e' x y = true) ->
  connP P e a b -> connP Q e' a b.
Proof.
  intros P Q e e' a b HPQ Hee H. unfold connP in *.
  induction H as [x y H | x | x y z H1 IH1 H2 IH2].
  - destruct H as (Hx & Hy & He). apply rt_step. auto.
  - apply rt_refl.
  - apply rt_trans with y; assumption.
Qed.

Lemma connP_sym : forall (P : nat -> Prop) e a b, (forall x y, e x y = e y x) ->
  connP P e a b -> connP P e b a.
Proof.
  intros P e a b Hs H. unfold connP in *.
  induction H as [x y H | x | x y z H1 IH1 H2 IH2].
  - destruct H as (Hx & Hy & He). apply rt_step. rewrite Hs. auto.
  - apply rt_refl.
  - apply rt_trans with y; assumption.
Qed.

(* a set closed under the steps of (P, e) is never left *)
Lemma connP_closed : forall (P S : nat -> Prop) e a b,
  (forall x y, S x -> P x -> P y -> e x y = true -> S y) ->
  connP P e a b -> S a -> S b.
Proof.
  intros P S e a b Hcl H. unfold connP in H.
  induction H as [x y H | x | x y z H1 IH1 H2 IH2]; intro Ha.
  - destruct H as (Hx & Hy & He). exact (Hcl x y Ha Hx Hy He).
  - exact Ha.
  - auto.
Qed.

(* ---------- chains (the DFS stack: consecutive elements adjacent) *)
Fixpoint chain (e : nat -> nat -> bool) (l : list nat) : Prop :=
  match l with
  | a :: r => match r with b :: _ => e a b = true /\ chain e r | [] => True end
  | [] => True
  end.

Lemma chain_tail : forall e a l, chain e (a :: l) -> chain e l.
Proof. intros e a l H. destruct l as [|b l]; simpl in *; [exact I | tauto]. Qed.

Lemma chain_connP : forall e l a y, chain e (a :: l) -> In y (a :: l) ->
  connP (fun x => In x (a :: l)) e a y.
Proof.
  intros e l. induction l as [|b l IH]; intros a y Hc Hy.
  - destruct Hy as [Hy|[]]. subst y. apply connP_refl.
  - destruct Hy as [Hy|Hy]; [subst y; apply connP_refl|].
    destruct Hc as [Hab Hc].
    apply connP_trans with b.
    + apply connP_step; [left; reflexivity | right; left; reflexivity | exact Hab].
    + apply connP_mono with (P := fun x => In x (b :: l)) (e := e).
      * intros x Hx. right. exact Hx.
      * intros x y0 _ _ H. exact H.
      * apply IH; assumption.
Qed.

(* ---------- separation forms *)
Definition CutSep (g : graph) (v : nat) : Prop :=
  In v (nodes g) /\ exists a b, a <> v /\ b <> v /\
    conn (nodes g) (edge_b g) a v /\ conn (nodes g) (edge_b g) b v /\
    ~ conn (without_vertex g v) (edge_b g) a b.

Definition BridgeSep (g : graph) (a b : nat) : Prop :=
  edge_b g a b = true /\ ~ conn (nodes g) (without_edge g a b) a b.

(* v is not a cut vertex: everything else in its component hangs together at an anchor c *)
Definition NonCut (g : graph) (v : nat) : Prop :=
  exists c, forall a, a <> v -> conn (nodes g) (edge_b g) a v ->
    conn (without_vertex g v) (edge_b g) a c.

Lemma NonCut_not_CutSep : forall g v, NonCut g v -> ~ CutSep g v.
Proof.
  intros g v [c Hc] [_ (a & b & Ha & Hb & Hav & Hbv & Hn)]. apply Hn.
  apply conn_trans with c; [apply Hc; assumption|].
  apply conn_sym; [apply edge_b_sym | apply Hc; assumption].
Qed.

Lemma without_vertex_In : forall g v x, In x (without_vertex g v) <-> In x (nodes g) /\ x <> v.
Proof. intros g v x. unfold without_vertex. apply remove_nat_In. Qed.

Lemma without_edge_true : forall g a b x y,
  without_edge g a b x y = true <->
  edge_b g x y = true /\ ~ (x = a /\ y = b) /\ ~ (x = b /\ y = a).
Proof.
  intros g a b x y. unfold without_edge.
  destruct (Nat.eqb_spec x a) as [Exa|Exa]; destruct (Nat.eqb_spec y b) as [Eyb|Eyb];
    destruct (Nat.eqb_spec x b) as [Exb|Exb]; destruct (Nat.eqb_spec y a) as [Eya|Eya];
    simpl; rewrite ?andb_true_r, ?andb_false_r; split;
    try (intro H; discriminate H); try tauto;
    try (intros (H1 & H2 & H3); exfalso; tauto).
Qed.

Lemma without_edge_swap : forall g a b x y, without_edge g a b x y = without_edge g b a x y.
Proof. intros g a b x y. unfold without_edge. rewrite orb_comm. reflexivity. Qed.

Lemma conn_without_edge_swap : forall g a b x y,
  conn (nodes g) (without_edge g a b) x y -> conn (nodes g) (without_edge g b a) x y.
Proof.
  intros g a b x y H. apply conn_connP. apply conn_connP in H.
  apply connP_mono with (P := fun z => In z (nodes g)) (e := without_edge g a b);
    [auto | | exact H].
  intros x0 y0 _ _ H0. rewrite without_edge_swap. exact H0.
Qed.

Lemma BridgeSep_swap : forall g a b, BridgeSep g a b -> BridgeSep g b a.
Proof.
  intros g a b [He Hn]. split; [rewrite edge_b_sym; exact He|].
  intro H. apply Hn. apply conn_without_edge_swap.
  apply conn_sym; [apply without_edge_sym | exact H].
Qed.

(* sealed sets give non-connectivity *)
Lemma sealed_vertex : forall g v (S : nat -> Prop) a b,
  S a -> ~ S b ->
  (forall x y, S x -> edge_b g x y = true -> y <> v -> S y) ->
  ~ conn (without_vertex g v) (edge_b g) a b.
Proof.
  intros g v S a b Ha Hb Hcl H. apply Hb. apply conn_connP in H.
  apply (connP_closed _ S _ a b) in H; [exact H | | exact Ha].
  intros x y Sx _ Py He. apply (Hcl x y Sx He). apply without_vertex_In in Py. tauto.
Qed.

Lemma sealed_edge : forall g a0 b0 (S : nat -> Prop) a b,
  S a -> ~ S b ->
  (forall x y, S x -> edge_b g x y = true -> ~ (x = a0 /\ y = b0) -> ~ (x = b0 /\ y = a0) -> S y) ->
  ~ conn (nodes g) (without_edge g a0 b0) a b.
Proof.
  intros g a0 b0 S a b Ha Hb Hcl H. apply Hb. apply conn_connP in H.
  apply (connP_closed _ S _ a b) in H; [exact H | | exact Ha].
  intros x y Sx _ _ He. apply without_edge_true in He. destruct He as (He & H1 & H2).
  exact (Hcl x y Sx He H1 H2).
Qed.

(* paths inside a predicate avoiding v / avoiding an edge *)
Lemma connP_conn_vertex : forall g v (P : nat -> Prop) a b,
  (forall x, P x -> x <> v) -> connP P (edge_b g) a b ->
  conn (without_vertex g v) (edge_b g) a b.
Proof.
  intros g v P a b HP H. apply conn_connP. unfold connP in *.
  induction H as [x y H | x | x y z H1 IH1 H2 IH2].
  - destruct H as (Hx & Hy & He). apply rt_step.
    destruct (edge_b_nodes g x y He) as (Nx & Ny & _).
    rewrite !without_vertex_In. auto.
  - apply rt_refl.
  - apply rt_trans with y; assumption.
Qed.

Lemma connP_conn_edge : forall g a0 b0 (P : nat -> Prop) a b,
  (~ P a0 \/ ~ P b0) -> connP P (edge_b g) a b ->
  conn (nodes g) (without_edge g a0 b0) a b.
Proof.
  intros g a0 b0 P a b HP H. unfold conn, connP in *.
  induction H as [x y H | x | x y z H1 IH1 H2 IH2].
  - destruct H as (Hx & Hy & He). apply rt_step.
    destruct (edge_b_nodes g x y He) as (Nx & Ny & _).
    split; [exact Nx|]. split; [exact Ny|]. apply without_edge_true.
    split; [exact He|]. split; intros [E1 E2]; subst x y; tauto.
  - apply rt_refl.
  - apply rt_trans with y; assumption.
Qed.

Lemma conn_step_edge : forall g x y, edge_b g x y = true -> conn (nodes g) (edge_b g) x y.
Proof.
  intros g x y He. destruct (edge_b_nodes g x y He) as (Nx & Ny & _). apply rt_step. auto.
Qed.

(* ---------- DFS states: discovered, frame relation *)
Definition dsc (s : ast) (x : nat) : Prop := aget (disc s) x <> None.

Lemma dsc_dec : forall s x, dsc s x \/ aget (disc s) x = None.
Proof. intros s x. unfold dsc. destruct (aget (disc s) x); [left; discriminate | right; reflexivity]. Qed.

Lemma discd_Some : forall s x d, aget (disc s) x = Some d -> discd s x = d.
Proof. intros s x d H. unfold discd, agetd. rewrite H. reflexivity. Qed.

Record ext (v : nat) (s s' : ast) : Prop := mkExt {
  e_disc : forall x d, aget (disc s) x = Some d -> aget (disc s') x = Some d;
  e_new : forall x d, aget (disc s) x = None -> aget (disc s') x = Some d -> time s <= d;
  e_par : forall x, dsc s x -> aget (par s') x = aget (par s) x;
  e_low : forall x, dsc s x -> x <> v -> aget (low s') x = aget (low s) x;
  e_aps : forall x, In x (aps s) -> In x (aps s');
  e_brs : forall p, In p (brs s) -> In p (brs s');
  e_time : time s <= time s'
}.

Lemma ext_dsc : forall v s s' x, ext v s s' -> dsc s x -> dsc s' x.
Proof.
  intros v s s' x H Hx. unfold dsc in *. destruct (aget (disc s) x) as [d|] eqn:E; [|congruence].
  rewrite (e_disc _ _ _ H x d E). discriminate.
Qed.

Lemma ext_discd : forall v s s' x, ext v s s' -> dsc s x -> discd s' x = discd s x.
Proof.
  intros v s s' x H Hx. unfold dsc in Hx. destruct (aget (disc s) x) as [d|] eqn:E; [|congruence].
  rewrite (discd_Some s x d E). apply discd_Some. exact (e_disc _ _ _ H x d E).
Qed.

Lemma ext_refl : forall v s, ext v s s.
Proof. intros v s. constructor; auto. intros x d H1 H2. congruence. Qed.

Lemma ext_trans : forall v s1 s2 s3, ext v s1 s2 -> ext v s2 s3 -> ext v s1 s3.
Proof.
  intros v s1 s2 s3 H1 H2. constructor.
  - intros x d Hd. apply (e_disc _ _ _ H2). apply (e_disc _ _ _ H1). exact Hd.
  - intros x d Hn Hd. destruct (aget (disc s2) x) as [d2|] eqn:E2.
    + pose proof (e_disc _ _ _ H2 x d2 E2) as E3. rewrite E3 in Hd. injection Hd as Hd. subst d2.
      exact (e_new _ _ _ H1 x d Hn E2).
    + pose proof (e_new _ _ _ H2 x d E2 Hd). pose proof (e_time _ _ _ H1). lia.
  - intros x Hx. rewrite (e_par _ _ _ H2 x (ext_dsc _ _ _ _ H1 Hx)). apply (e_par _ _ _ H1 x Hx).
  - intros x Hx Hne. rewrite (e_low _ _ _ H2 x (ext_dsc _ _ _ _ H1 Hx) Hne).
    apply (e_low _ _ _ H1 x Hx Hne).
  - intros x Hx. apply (e_aps _ _ _ H2). apply (e_aps _ _ _ H1). exact Hx.
  - intros p Hp. apply (e_brs _ _ _ H2). apply (e_brs _ _ _ H1). exact Hp.
  - pose proof (e_time _ _ _ H1). pose proof (e_time _ _ _ H2). lia.
Qed.

(* a call for the undiscovered w (after set_par) is a frame step for every v *)
Lemma ext_child : forall v w p s s', aget (disc s) w = None ->
  ext w (set_par s w p) s' -> ext v s s'.
Proof.
  intros v w p s s' Hw H. destruct H as [A B C D E F G]. simpl in *. constructor; auto.
  - intros x Hx. rewrite (C x Hx). apply aget_aset_other. intro Heq. subst x. exact (Hx Hw).
  - intros x Hx _. apply D; [exact Hx|]. intro Heq. subst x. exact (Hx Hw).
Qed.

Lemma ext_enter : forall v s, aget (disc s) v = None -> ext v s (enter s v).
Proof.
  intros v s Hv. constructor; simpl; auto.
  - intros x d Hd. rewrite aget_aset_other; [exact Hd|]. intro Heq. subst x. congruence.
  - intros x d Hn Hd. destruct (Nat.eq_dec v x) as [Heq|Hne].
    + subst x. rewrite aget_aset_same in Hd. injection Hd as Hd. lia.
    + rewrite aget_aset_other in Hd by exact Hne. congruence.
  - intros x _ Hne. apply aget_aset_other. auto.
Qed.

Lemma ext_set_low : forall v s x, ext v s (set_low s v x).
Proof.
  intros v s x. constructor; simpl; auto.
  - intros y d H1 H2. congruence.
  - intros y _ Hne. apply aget_aset_other. auto.
Qed.

(* ---------- shape of after_child *)
Definition ac_ap (s : ast) (v w c : nat) : bool :=
  if is_root s v then 2 <=? c else discd s v <=? lowd s w.
Definition ac_br (s : ast) (v w : nat) : bool := discd s v <? lowd s w.

Lemma after_child_shape : forall s v w c, v <> w ->
  let s' := after_child s v w c in
  disc s' = disc s /\ par s' = par s /\ time s' = time s /\
  low s' = aset (low s) v (Nat.min (lowd s v) (lowd s w)) /\
  (forall x, In x (aps s') <-> In x (aps s) \/ (x = v /\ ac_ap s v w c = true)) /\
  (forall p, In p (brs s') <-> In p (brs s) \/ (p = canon v w /\ ac_br s v w = true)).
Proof.
  intros s v w c Hne. unfold after_child, ac_ap, ac_br.
  set (s1 := set_low s v (Nat.min (lowd s v) (lowd s w))).
  assert (R1 : is_root s1 v = is_root s v) by reflexivity.
  assert (R2 : discd s1 v = discd s v) by reflexivity.
  assert (R3 : lowd s1 w = lowd s w).
  { unfold lowd, agetd, s1. simpl. rewrite aget_aset_other by exact Hne. reflexivity. }
  rewrite R1, R2, R3.
  assert (Hap : forall x, In x (aps (add_ap s1 v)) <-> In x (aps s) \/ x = v).
  { intro x. simpl. destruct (memb v (aps s)) eqn:E.
    - apply memb_In in E. split; [auto | intros [H|H]; [exact H | subst x; exact E]].
    - rewrite in_app_iff. simpl. split; [intros [H|[H|[]]]; auto | intros [H|H]; auto]. }
  set (s2 := if is_root s v then if 2 <=? c then add_ap s1 v else s1
             else if discd s v <=? lowd s w then add_ap s1 v else s1).
  assert (P2 : disc s2 = disc s /\ par s2 = par s /\ time s2 = time s /\
               low s2 = aset (low s) v (Nat.min (lowd s v) (lowd s w)) /\ brs s2 = brs s /\
               (forall x, In x (aps s2) <-> In x (aps s) \/
                  (x = v /\ (if is_root s v then 2 <=? c else discd s v <=? lowd s w) = true))).
  { unfold s2. destruct (is_root s v); [destruct (2 <=? c) | destruct (discd s v <=? lowd s w)];
      repeat split; try reflexivity; try (intro Hx; apply Hap in Hx; tauto);
      try (intros [Hx|[Hx _]]; apply Hap; auto); try (intro Hx; left; exact Hx);
      try (intros [Hx|[_ Hx]]; [exact Hx | discriminate]). }
  destruct P2 as (A & B & C & D & E & F).
  assert (R4 : discd s2 v = discd s v) by (unfold discd; rewrite A; reflexivity).
  assert (R5 : lowd s2 w = lowd s w).
  { unfold lowd, agetd. rewrite D. rewrite aget_aset_other by exact Hne. reflexivity. }
  rewrite R4, R5. destruct (discd s v <? lowd s w); simpl.
  - repeat split; auto; try (apply F).
    + intro Hp. rewrite E in Hp. apply in_app_or in Hp. destruct Hp as [Hp|[Hp|[]]]; auto.
    + intros [Hp|[Hp _]]; rewrite E; apply in_or_app; [left; exact Hp | right; left; auto].
  - repeat split; auto; try (apply F).
    + intro Hp. rewrite E in Hp. auto.
    + intros [Hp|[_ Hp]]; [rewrite E; exact Hp | discriminate].
Qed.

Lemma ext_after_child : forall s v w c, v <> w -> ext v s (after_child s v w c).
Proof.
  intros s v w c Hne. destruct (after_child_shape s v w c Hne) as (A & B & C & D & E & F).
  constructor.
  - intros x d Hd. rewrite A. exact Hd.
  - intros x d Hn Hd. rewrite A in Hd. congruence.
  - intros x _. rewrite B. reflexivity.
  - intros x _ Hx. rewrite D. apply aget_aset_other. auto.
  - intros x Hx. apply E. left. exact Hx.
  - intros p Hp. apply F. left. exact Hp.
  - rewrite C. lia.
Qed.
