(* Graph-theoretic characterisations of the counting definitions of ArticSpec.v:
     v is a cut vertex  <->  two nodes of v's component are separated by removing v
     {a,b} is a bridge  <->  it is an edge and a, b are disconnected once it is removed. *)
From Coq Require Import List Arith Bool Relations Lia.
From SV Require Import C15.Graph C15.ArticSpec C15.ArticSpecProofs C15.ArticExactConn1.
Import ListNotations.

(* ================= bridges ================= *)
Section Bridge.
Variable vs : list nat.
Variables e e' : nat -> nat -> bool.
Variables a b : nat.
Hypothesis e_sym : forall x y, e x y = e y x.
Hypothesis e'_sym : forall x y, e' x y = e' y x.
Hypothesis He'e : forall x y, e' x y = true -> e x y = true.
Hypothesis Hee' : forall x y, e x y = true ->
  e' x y = true \/ (x = a /\ y = b) \/ (x = b /\ y = a).

Lemma bridge_mono : forall x y, conn vs e' x y -> conn vs e x y.
Proof. intros x y H. apply conn_mono with (vs := vs) (e := e'); auto. Qed.

Lemma bridge_decomp : forall x y, conn vs e x y ->
  conn vs e' x y \/ (conn vs e' x a /\ conn vs e' b y) \/ (conn vs e' x b /\ conn vs e' a y).
Proof.
  intros x y H. pattern y. apply (conn_ind_r vs e x); [left; apply conn_refl | | exact H].
  intros y' w Hxy IH Hy Hw He.
  destruct (Hee' y' w He) as [He' | [[E1 E2] | [E1 E2]]].
  - assert (S : conn vs e' y' w) by (apply conn_step; assumption).
    destruct IH as [IH | [[IH1 IH2] | [IH1 IH2]]].
    + left. apply conn_trans with y'; assumption.
    + right. left. split; [exact IH1 | apply conn_trans with y'; assumption].
    + right. right. split; [exact IH1 | apply conn_trans with y'; assumption].
  - subst y' w. destruct IH as [IH | [[IH1 IH2] | [IH1 IH2]]].
    + right. left. split; [exact IH | apply conn_refl].
    + left. apply conn_trans with a; [exact IH1 | apply conn_sym; [exact e'_sym | exact IH2]].
    + left. exact IH1.
  - subst y' w. destruct IH as [IH | [[IH1 IH2] | [IH1 IH2]]].
    + right. right. split; [exact IH | apply conn_refl].
    + left. exact IH1.
    + left. apply conn_trans with b; [exact IH1 | apply conn_sym; [exact e'_sym | exact IH2]].
Qed.

Lemma bridge_same_conn : conn vs e' a b -> forall x y, conn vs e x y <-> conn vs e' x y.
Proof.
  intros Hab x y. split; [|apply bridge_mono].
  intro H. destruct (bridge_decomp x y H) as [H1 | [[H1 H2] | [H1 H2]]].
  - exact H1.
  - apply conn_trans with a; [exact H1|]. apply conn_trans with b; assumption.
  - apply conn_trans with b; [exact H1|]. apply conn_trans with a; [|exact H2].
    apply conn_sym; [exact e'_sym | exact Hab].
Qed.

Lemma bridge_no_incr : forall c c', conn vs e' a b ->
  num_components vs e c -> num_components vs e' c' -> c = c'.
Proof.
  intros c c' Hab H1 H2.
  apply (num_components_unique vs e' c c' e'_sym); [|exact H2].
  apply num_components_ext with (e := e); [|exact H1].
  apply bridge_same_conn. exact Hab.
Qed.

(* n = endpoint that becomes a new representative, o = the other endpoint *)
Lemma bridge_incr_aux : forall n o reps ra,
  (n = a /\ o = b) \/ (n = b /\ o = a) ->
  In n vs -> conn vs e n o -> ~ conn vs e' n o ->
  NoDup reps -> incl reps vs ->
  (forall x, In x vs -> exists r, In r reps /\ conn vs e x r) ->
  (forall r r', In r reps -> In r' reps -> conn vs e r r' -> r = r') ->
  In ra reps -> conn vs e' ra o ->
  num_components vs e' (S (length reps)).
Proof.
  intros n o reps ra Hno Hn Hcno Hnc ND Inc Cov PW Hra Hrao.
  assert (Dec : forall x y, conn vs e x y ->
    conn vs e' x y \/ (conn vs e' x n /\ conn vs e' o y) \/ (conn vs e' x o /\ conn vs e' n y)).
  { intros x y H. pose proof (bridge_decomp x y H) as D.
    destruct Hno as [[E1 E2] | [E1 E2]]; subst n o; tauto. }
  assert (Key : forall r, In r reps -> conn vs e' n r -> False).
  { intros r Hr Hc.
    assert (E : r = ra).
    { apply PW; [exact Hr | exact Hra |].
      apply conn_trans with n.
      - apply conn_sym; [exact e_sym|]. apply bridge_mono. exact Hc.
      - apply conn_trans with o; [exact Hcno|].
        apply conn_sym; [exact e_sym|]. apply bridge_mono. exact Hrao. }
    subst r. apply Hnc. apply conn_trans with ra; assumption. }
  exists (n :: reps). split; [|split; [|split; [|split]]].
  - constructor; [|exact ND]. intro Hin. apply (Key n Hin). apply conn_refl.
  - reflexivity.
  - intros z [Hz|Hz]; [subst z; exact Hn | apply Inc; exact Hz].
  - intros x Hx. destruct (Cov x Hx) as [r [Hr Hc]].
    destruct (Dec x r Hc) as [H1 | [[H1 H2] | [H1 H2]]].
    + exists r. split; [right; exact Hr | exact H1].
    + exists n. split; [left; reflexivity | exact H1].
    + exfalso. exact (Key r Hr H2).
  - intros r r' [Hr|Hr] [Hr'|Hr'] Hc.
    + congruence.
    + subst r. exfalso. exact (Key r' Hr' Hc).
    + subst r'. exfalso. apply (Key r Hr). apply conn_sym; [exact e'_sym | exact Hc].
    + apply PW; [exact Hr | exact Hr' |]. apply bridge_mono. exact Hc.
Qed.

Lemma bridge_incr : forall c,
  In a vs -> In b vs -> e a b = true -> ~ conn vs e' a b ->
  num_components vs e c -> num_components vs e' (S c).
Proof.
  intros c Ha Hb Hab Hnc H. destruct H as (reps & ND & Len & Inc & Cov & PW). subst c.
  assert (Cab : conn vs e a b) by (apply conn_step; assumption).
  destruct (Cov a Ha) as [ra [Hra Hc]].
  assert (Hc' : conn vs e ra a) by (apply conn_sym; [exact e_sym | exact Hc]).
  assert (D : conn vs e' ra a \/ conn vs e' ra b).
  { destruct (bridge_decomp ra a Hc') as [H1 | [[H1 H2] | [H1 H2]]]; auto. }
  destruct D as [D|D].
  - apply (bridge_incr_aux b a reps ra); auto.
    + apply conn_sym; [exact e_sym | exact Cab].
    + intro H. apply Hnc. apply conn_sym; [exact e'_sym | exact H].
  - apply (bridge_incr_aux a b reps ra); auto.
Qed.

End Bridge.

Lemma without_edge_sub : forall g a b x y, without_edge g a b x y = true -> edge_b g x y = true.
Proof.
  intros g a b x y H. unfold without_edge in H. apply andb_prop in H. tauto.
Qed.

Lemma without_edge_cases : forall g a b x y, edge_b g x y = true ->
  without_edge g a b x y = true \/ (x = a /\ y = b) \/ (x = b /\ y = a).
Proof.
  intros g a b x y H. unfold without_edge. rewrite H. simpl.
  destruct (x =? a) eqn:E1; destruct (y =? b) eqn:E2; simpl.
  - apply Nat.eqb_eq in E1. apply Nat.eqb_eq in E2. right. left. auto.
  - destruct (x =? b) eqn:E3; destruct (y =? a) eqn:E4; simpl; auto.
    apply Nat.eqb_eq in E3. apply Nat.eqb_eq in E4. right. right. auto.
  - destruct (x =? b) eqn:E3; destruct (y =? a) eqn:E4; simpl; auto.
    apply Nat.eqb_eq in E3. apply Nat.eqb_eq in E4. right. right. auto.
  - destruct (x =? b) eqn:E3; destruct (y =? a) eqn:E4; simpl; auto.
    apply Nat.eqb_eq in E3. apply Nat.eqb_eq in E4. right. right. auto.
Qed.

Theorem bridge_separation_iff : forall g a b,
  is_bridge g a b <-> edge_b g a b = true /\ ~ conn (nodes g) (without_edge g a b) a b.
Proof.
  intros g a b. unfold is_bridge. split.
  - intros [Hab (c & c' & H1 & H2 & Hlt)]. split; [exact Hab|]. intro Hc.
    assert (E : c = c').
    { apply (bridge_no_incr (nodes g) (edge_b g) (without_edge g a b) a b); auto.
      - apply without_edge_sym.
      - apply without_edge_sub.
      - apply without_edge_cases. }
    lia.
  - intros [Hab Hnc]. split; [exact Hab|].
    destruct (num_components_exists (nodes g) (edge_b g) (edge_b_sym g)) as [c Hc].
    destruct (edge_b_nodes g a b Hab) as (Ha & Hb & _).
    exists c, (S c). split; [exact Hc|]. split; [|lia].
    apply (bridge_incr (nodes g) (edge_b g) (without_edge g a b) a b); auto.
    + apply edge_b_sym.
    + apply without_edge_sym.
    + apply without_edge_sub.
    + apply without_edge_cases.
Qed.

(* ================= cut vertices ================= *)
Section Cut.
Variable vs : list nat.
Variable e : nat -> nat -> bool.
Variable v : nat.
Hypothesis e_sym : forall x y, e x y = e y x.

Lemma cut_sep_incr : forall a b c c',
  a <> v -> b <> v -> conn vs e a v -> conn vs e b v -> ~ conn (remove_nat v vs) e a b ->
  num_components vs e c -> num_components (remove_nat v vs) e c' -> c < c'.
Proof.
  intros a b c c' Hav Hbv Hca Hcb Hnc H H'.
  destruct H as (reps & ND & Len & Inc & Cov & PW).
  destruct H' as (reps' & ND' & Len' & Inc' & Cov' & PW').
  assert (Ha : In a vs).
  { destruct (conn_endpoints vs e a v Hca) as [E | [Hin _]]; [contradiction | exact Hin]. }
  assert (Hb : In b vs).
  { destruct (conn_endpoints vs e b v Hcb) as [E | [Hin _]]; [contradiction | exact Hin]. }
  assert (Hv : In v vs).
  { destruct (conn_endpoints vs e a v Hca) as [E | [_ Hin]]; [contradiction | exact Hin]. }
  assert (Hab : a <> b).
  { intro E. subst b. apply Hnc. apply conn_refl. }
  destruct (Cov v Hv) as [rv [Hrv Hcv]].
  destruct (in_split rv reps Hrv) as [l1 [l2 Hsplit]]. subst reps.
  pose proof (NoDup_remove l1 l2 rv ND) as [ND12 Hnin].
  assert (F1 : forall r, In r (l1 ++ l2) -> In r (l1 ++ rv :: l2) /\ r <> rv).
  { intros r Hr. split.
    - apply in_app_iff. apply in_app_iff in Hr. simpl. tauto.
    - intro E. subst r. exact (Hnin Hr). }
  assert (F2 : forall r, In r (l1 ++ l2) -> ~ conn vs e r v).
  { intros r Hr Hc. destruct (F1 r Hr) as [Hin Hne]. apply Hne.
    apply PW; [exact Hin | exact Hrv |]. apply conn_trans with v; assumption. }
  assert (F3 : forall r, In r (l1 ++ l2) -> In r (remove_nat v vs)).
  { intros r Hr. apply remove_nat_In. split.
    - apply Inc. apply (F1 r Hr).
    - intro E. subst r. apply (F2 v Hr). apply conn_refl. }
  assert (M : forall x y, conn (remove_nat v vs) e x y -> conn vs e x y).
  { intros x y Hc. apply conn_remove_mono with (a := v). exact Hc. }
  assert (Sy : forall x y, conn (remove_nat v vs) e x y -> conn (remove_nat v vs) e y x).
  { intros x y Hc. apply conn_sym; [exact e_sym | exact Hc]. }
  assert (Sy0 : forall x y, conn vs e x y -> conn vs e y x).
  { intros x y Hc. apply conn_sym; [exact e_sym | exact Hc]. }
  assert (Inj : forall x x', In x (a :: b :: l1 ++ l2) -> In x' (a :: b :: l1 ++ l2) ->
                conn (remove_nat v vs) e x x' -> x = x').
  { intros x x' Hx Hx' Hc.
    destruct Hx as [Hx | [Hx | Hx]]; destruct Hx' as [Hx' | [Hx' | Hx']].
    - congruence.
    - subst x x'. contradiction.
    - subst x. exfalso. apply (F2 x' Hx'). apply conn_trans with a; [|exact Hca].
      apply Sy0. apply M. exact Hc.
    - subst x x'. exfalso. apply Hnc. apply Sy. exact Hc.
    - congruence.
    - subst x. exfalso. apply (F2 x' Hx'). apply conn_trans with b; [|exact Hcb].
      apply Sy0. apply M. exact Hc.
    - subst x'. exfalso. apply (F2 x Hx). apply conn_trans with a; [|exact Hca].
      apply M. exact Hc.
    - subst x'. exfalso. apply (F2 x Hx). apply conn_trans with b; [|exact Hcb].
      apply M. exact Hc.
    - apply PW; [apply (F1 x Hx) | apply (F1 x' Hx') | apply M; exact Hc]. }
  assert (L : length (a :: b :: l1 ++ l2) <= length reps').
  { apply rel_inj_length with (R := fun x y => conn (remove_nat v vs) e x y).
    - constructor.
      + intros [E | Hin]; [exact (Hab (eq_sym E)) | exact (F2 a Hin Hca)].
      + constructor; [|exact ND12]. intro Hin. exact (F2 b Hin Hcb).
    - intros x Hx. apply Cov'. destruct Hx as [Hx | [Hx | Hx]].
      + subst x. apply remove_nat_In. auto.
      + subst x. apply remove_nat_In. auto.
      + apply F3. exact Hx.
    - intros x x' y Hx Hx' Hc Hc'. apply Inj; [exact Hx | exact Hx' |].
      apply conn_trans with y; [exact Hc | apply Sy; exact Hc']. }
  rewrite app_length in Len. simpl in Len, L. rewrite app_length in L. lia.
Qed.

Lemma cut_sep_exists : forall c c',
  num_components vs e c -> num_components (remove_nat v vs) e c' -> c < c' ->
  exists a b, a <> v /\ b <> v /\ conn vs e a v /\ conn vs e b v /\
              ~ conn (remove_nat v vs) e a b.
Proof.
  intros c c' H H' Hlt.
  destruct H as (reps & ND & Len & Inc & Cov & PW).
  destruct H' as (reps' & ND' & Len' & Inc' & Cov' & PW').
  set (Q := fun a b => a <> v /\ b <> v /\ conn vs e a v /\ conn vs e b v /\
                       ~ conn (remove_nat v vs) e a b).
  assert (Qdec : forall a b, Q a b \/ ~ Q a b).
  { intros a b. unfold Q.
    destruct (Nat.eq_dec a v) as [E1|N1]; [right; tauto|].
    destruct (Nat.eq_dec b v) as [E2|N2]; [right; tauto|].
    destruct (conn_dec vs e a v) as [C1|C1]; [|right; tauto].
    destruct (conn_dec vs e b v) as [C2|C2]; [|right; tauto].
    destruct (conn_dec (remove_nat v vs) e a b) as [C3|C3]; [right; tauto | left; tauto]. }
  destruct (ex_dec_list (fun a => exists b, In b vs /\ Q a b) vs) as [Hex|Hnex].
  - intro a. apply ex_dec_list. intro b. apply Qdec.
  - destruct Hex as [a [_ [b [_ HQ]]]]. exists a, b. exact HQ.
  - exfalso.
    assert (L : length reps' <= length reps).
    { apply rel_inj_length with (R := fun x y => conn vs e x y).
      - exact ND'.
      - intros x Hx. apply Cov. apply Inc' in Hx. apply remove_nat_In in Hx. tauto.
      - intros x x' y Hx Hx' Hc Hc'.
        assert (Hxx : conn vs e x x').
        { apply conn_trans with y; [exact Hc | apply conn_sym; [exact e_sym | exact Hc']]. }
        pose proof (Inc' x Hx) as Hxv. apply remove_nat_In in Hxv. destruct Hxv as [Hxin Hxv].
        pose proof (Inc' x' Hx') as Hxv'. apply remove_nat_In in Hxv'. destruct Hxv' as [Hxin' Hxv'].
        destruct (conn_dec (remove_nat v vs) e x x') as [C|C].
        + apply PW'; assumption.
        + exfalso. destruct (conn_avoid vs e v x x' Hxx) as [C1 | [C1 C2]]; [exact (C C1)|].
          apply Hnex. exists x. split; [exact Hxin|]. exists x'. split; [exact Hxin'|].
          unfold Q. repeat split; auto. apply conn_sym; [exact e_sym | exact C2]. }
    lia.
Qed.

End Cut.

Theorem cut_vertex_separation_iff : forall g v,
  is_cut_vertex g v <->
  In v (nodes g) /\ exists a b, a <> v /\ b <> v /\
     conn (nodes g) (edge_b g) a v /\ conn (nodes g) (edge_b g) b v /\
     ~ conn (without_vertex g v) (edge_b g) a b.
Proof.
  intros g v. unfold is_cut_vertex, without_vertex. split.
  - intros [Hin (c & c' & H1 & H2 & Hlt)]. split; [exact Hin|].
    exact (cut_sep_exists (nodes g) (edge_b g) v (edge_b_sym g) c c' H1 H2 Hlt).
  - intros [Hin (a & b & Hav & Hbv & Hca & Hcb & Hnc)]. split; [exact Hin|].
    destruct (num_components_exists (nodes g) (edge_b g) (edge_b_sym g)) as [c Hc].
    destruct (num_components_exists (remove_nat v (nodes g)) (edge_b g) (edge_b_sym g)) as [c' Hc'].
    exists c, c'. split; [exact Hc|]. split; [exact Hc'|].
    exact (cut_sep_incr (nodes g) (edge_b g) v (edge_b_sym g) a b c c' Hav Hbv Hca Hcb Hnc Hc Hc').
Qed.

Print Assumptions cut_vertex_separation_iff.
Print Assumptions bridge_separation_iff.
