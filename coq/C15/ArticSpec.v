(* Specification of cut vertices and bridges ("removal increases the number of connected components")
   and a boolean removal-and-recount certificate evaluated on the IMPLEMENTATION's answers. *)
From Coq Require Import List Arith Bool Relations.
From SV Require Import C15.Graph.
Import ListNotations.

(* ---------- reachability-based definition.  A "restricted graph" is given by a node list vs and a
   symmetric boolean edge relation e. *)
Definition conn (vs : list nat) (e : nat -> nat -> bool) : nat -> nat -> Prop :=
  clos_refl_trans nat (fun x y => In x vs /\ In y vs /\ e x y = true).

(* c = number of connected components of (vs, e): a duplicate-free list of c representatives in vs,
   every node connected to one of them, no two of them connected *)
Definition num_components (vs : list nat) (e : nat -> nat -> bool) (c : nat) : Prop :=
  exists reps, NoDup reps /\ length reps = c /\ incl reps vs /\
    (forall x, In x vs -> exists r, In r reps /\ conn vs e x r) /\
    (forall r r', In r reps -> In r' reps -> conn vs e r r' -> r = r').

Definition without_vertex (g : graph) (v : nat) : list nat := remove_nat v (nodes g).
Definition without_edge (g : graph) (a b : nat) : nat -> nat -> bool :=
  fun x y => edge_b g x y && negb (((x =? a) && (y =? b)) || ((x =? b) && (y =? a))).

Definition is_cut_vertex (g : graph) (v : nat) : Prop :=
  In v (nodes g) /\
  exists c c', num_components (nodes g) (edge_b g) c /\
               num_components (without_vertex g v) (edge_b g) c' /\ c < c'.

Definition is_bridge (g : graph) (a b : nat) : Prop :=
  edge_b g a b = true /\
  exists c c', num_components (nodes g) (edge_b g) c /\
               num_components (nodes g) (without_edge g a b) c' /\ c < c'.

(* ---------- boolean removal-and-recount *)
(* one closure round: add every node of vs adjacent to the current set *)
Definition grow (vs : list nat) (e : nat -> nat -> bool) (R : list nat) : list nat :=
  R ++ filter (fun y => negb (memb y R) && existsb (fun x => e x y) R) vs.

Fixpoint grow_n (k : nat) (vs : list nat) (e : nat -> nat -> bool) (R : list nat) : list nat :=
  match k with 0 => R | S k' => grow_n k' vs e (grow vs e R) end.

Definition closed_b (vs : list nat) (e : nat -> nat -> bool) (R : list nat) : bool :=
  forallb (fun y => memb y R || negb (existsb (fun x => e x y) R)) vs.

(* the component of s (s in vs), or None if |vs| rounds did not close it (never happens; the check
   makes the soundness proof independent of a path-length argument) *)
Definition component (vs : list nat) (e : nat -> nat -> bool) (s : nat) : option (list nat) :=
  let R := grow_n (length vs) vs e [s] in
  if closed_b vs e R then Some R else None.

(* count components: scan vs, a node opens a new component iff it is in none of the components found *)
Fixpoint count_from (vs : list nat) (e : nat -> nat -> bool) (todo : list nat) (seen : list nat) (c : nat)
  : option nat :=
  match todo with
  | [] => Some c
  | v :: r =>
    if memb v seen then count_from vs e r seen c
    else match component vs e v with
         | None => None
         | Some R => count_from vs e r (R ++ seen) (S c)
         end
  end.

Definition count_components (vs : list nat) (e : nat -> nat -> bool) : option nat :=
  count_from vs e vs [] 0.

Definition is_cut_vertex_b (g : graph) (v : nat) : bool :=
  memb v (nodes g) &&
  match count_components (nodes g) (edge_b g), count_components (without_vertex g v) (edge_b g) with
  | Some c, Some c' => c <? c'
  | _, _ => false
  end.

Definition is_bridge_b (g : graph) (e : nat * nat) : bool :=
  edge_b g (fst e) (snd e) &&
  match count_components (nodes g) (edge_b g),
        count_components (nodes g) (without_edge g (fst e) (snd e)) with
  | Some c, Some c' => c <? c'
  | _, _ => false
  end.

(* the negative direction needs its own certificate: counts computed and NOT increased *)
Definition not_cut_vertex_b (g : graph) (v : nat) : bool :=
  negb (memb v (nodes g)) ||
  match count_components (nodes g) (edge_b g), count_components (without_vertex g v) (edge_b g) with
  | Some c, Some c' => c' <=? c
  | _, _ => false
  end.

Definition not_bridge_b (g : graph) (e : nat * nat) : bool :=
  negb (edge_b g (fst e) (snd e)) ||
  match count_components (nodes g) (edge_b g),
        count_components (nodes g) (without_edge g (fst e) (snd e)) with
  | Some c, Some c' => c' <=? c
  | _, _ => false
  end.

(* all candidate edges u<v of the symmetrised graph *)
Definition all_edges (g : graph) : list (nat * nat) :=
  flat_map (fun u => map (fun v => (u, v)) (filter (fun v => (u <? v) && edge_b g u v) (nodes g))) (nodes g).

(* per-run certificate: the answer `sol` is EXACTLY the set of cut vertices: every node in it passes
   is_cut_vertex_b and every node not in it passes not_cut_vertex_b *)
Definition ap_spec_check (g : graph) (sol : list nat) : bool :=
  forallb (fun v => is_cut_vertex_b g v) sol
  && forallb (fun v => memb v sol || not_cut_vertex_b g v) (nodes g).

(* bridges: every reported edge is canonical (u<v), a bridge, reported once; every other edge is not *)
Definition br_spec_check (g : graph) (sol : list (nat * nat)) : bool :=
  forallb (fun e => (fst e <? snd e) && is_bridge_b g e) sol
  && forallb (fun e => pair_memb e sol || not_bridge_b g e) (all_edges g)
  && (length sol =? length (filter (fun e => pair_memb e sol) (all_edges g))).
