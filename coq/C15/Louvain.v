(* Model of solvor/community.py: louvain (single-level local moving phase + final modularity).
   Definitions only.

   adj / degree     -> Graph.sadj (each undirected edge once, weight 1.0; degree[v] = |sadj g v|, an
                       integer-valued float, exact) ; total_weight = sum(degree)/2
   node_to_comm     -> association list node -> community id (ids are positions in the node list)
   comm_nodes       -> association list id -> member list (Python set; duplicate-free, see LouvainProofs)
   comm_degree      -> association list id -> Z
   The MOVE CHOICE (best_comm; depends on float modularity gains and on dict iteration order) is an
   ORACLE: `passes` holds, for every sweep of `while improved`, the community chosen for each node in
   node-list order, recorded from the real run.  The model checks only what the code guarantees
   structurally: the chosen community is the node's current one or the community of a neighbour
   (these are the only keys of comm_edges) - otherwise None; the sweep structure must match the
   loop condition (every sweep but the last moves a node, the last moves none) - otherwise None.
   The reported modularity is computed in Q by the formula of the code (resolution is a Q). *)
From Coq Require Import List Arith Bool ZArith QArith Qabs.
From SV Require Import C15.Graph.
Import ListNotations.

Record lst := {
  n2c : list (nat * nat);
  cnodes : list (nat * list nat);
  cdeg : list (nat * Z)
}.

Definition ldeg (g : graph) (v : nat) : Z := Z.of_nat (length (sadj g v)).

Fixpoint enumerate_from {A} (i : nat) (l : list A) : list (nat * A) :=
  match l with [] => [] | x :: r => (i, x) :: enumerate_from (S i) r end.

Definition linit (g : graph) : lst :=
  let en := enumerate_from 0 (nodes g) in
  {| n2c := map (fun p => (snd p, fst p)) en;
     cnodes := map (fun p => (fst p, [snd p])) en;
     cdeg := map (fun p => (fst p, ldeg g (snd p))) en |}.

Definition comm_of (s : lst) (v : nat) : nat := agetd 0%nat (n2c s) v.

(* keys of comm_edges for v, plus current_comm *)
Definition admissible (g : graph) (s : lst) (v target : nat) : bool :=
  (target =? comm_of s v)%nat || existsb (fun w => (comm_of s w =? target)%nat) (sadj g v).

(*  comm_nodes[current].remove(v); comm_degree[current] -= deg
    node_to_comm[v] = best; comm_nodes[best].add(v); comm_degree[best] += deg       *)
Definition visit (g : graph) (s : lst) (v target : nat) : option (lst * bool) :=
  if admissible g s v target then
    let cur := comm_of s v in
    let cn1 := aset (cnodes s) cur (remove_nat v (agetd [] (cnodes s) cur)) in
    let cd1 := aset (cdeg s) cur (agetd 0%Z (cdeg s) cur - ldeg g v)%Z in
    let cn2 := aset cn1 target (agetd [] cn1 target ++ [v]) in
    let cd2 := aset cd1 target (agetd 0%Z cd1 target + ldeg g v)%Z in
    Some ({| n2c := aset (n2c s) v target; cnodes := cn2; cdeg := cd2 |}, negb (target =? cur)%nat)
  else None.

(* one sweep `for v in node_list`; returns the state and `improved` *)
Fixpoint sweep (g : graph) (vs : list nat) (choices : list nat) (s : lst) (improved : bool)
  : option (lst * bool) :=
  match vs, choices with
  | [], [] => Some (s, improved)
  | v :: vs', t :: ch' =>
    match visit g s v t with
    | None => None
    | Some (s', moved) => sweep g vs' ch' s' (improved || moved)
    end
  | _, _ => None
  end.

(* while improved: ... ; the oracle list plays the role of fuel *)
Fixpoint sweeps (g : graph) (passes : list (list nat)) (s : lst) (iters : nat) : option (lst * nat) :=
  match passes with
  | [] => None
  | p :: rest =>
    match sweep g (nodes g) p s false with
    | None => None
    | Some (s', improved) =>
      if improved then sweeps g rest s' (S iters)
      else match rest with [] => Some (s', S iters) | _ => None end
    end
  end.

Open Scope Q_scope.
Definition zq (z : Z) : Q := inject_Z z.

Definition total_weight (g : graph) : Q :=
  zq (fold_right Z.add 0%Z (map (ldeg g) (nodes g))) / 2.

(* edges_within = sum(adj[v].get(w, 0.0) for v in comm for w in comm) / 2.0
   (repository commit e1593dd: every unordered pair is met twice; labels need not be orderable) *)
Definition edges_within (g : graph) (c : list nat) : Q :=
  zq (fold_right Z.add 0%Z
        (map (fun v => Z.of_nat (length (filter (fun w => edge_b g v w) c))) c)) / 2.

Definition comm_deg (g : graph) (c : list nat) : Z := fold_right Z.add 0%Z (map (ldeg g) c).

Definition modularity (g : graph) (res : Q) (comms : list (list nat)) : Q :=
  let m := total_weight g in
  fold_left (fun acc c =>
     let x := zq (comm_deg g c) / (2 * m) in
     acc + (edges_within g c / m - res * (x * x))) comms 0.

Record lres := { l_comms : list (list nat); l_objective : Q; l_iterations : nat; l_evaluations : nat }.

Definition louvain (g : graph) (res : Q) (passes : list (list nat)) : option lres :=
  match nodes g with
  | [] => Some {| l_comms := []; l_objective := 0; l_iterations := 0; l_evaluations := 0 |}
  | [v] => Some {| l_comms := [[v]]; l_objective := 0; l_iterations := 0; l_evaluations := 1 |}
  | _ =>
    if Qeq_bool (total_weight g) 0 then
      Some {| l_comms := map (fun v => [v]) (nodes g); l_objective := 0; l_iterations := 0;
              l_evaluations := length (nodes g) |}
    else
      match sweeps g passes (linit g) 0 with
      | None => None
      | Some (s, it) =>
        let comms := filter (fun c => match c with [] => false | _ => true end) (map snd (cnodes s)) in
        Some {| l_comms := comms; l_objective := Qred (modularity g res comms); l_iterations := it;
                l_evaluations := length (nodes g) |}
      end
  end.

(* observable: (communities, objective, iterations, evaluations) *)
Definition lv_corr (eps : Q) (g : graph) (res : Q) (passes : list (list nat))
           (o : list (list nat) * Q * nat * nat) : bool :=
  let '(cs, obj, it, ev) := o in
  match louvain g res passes with
  | None => false
  | Some r => setset_eqb (l_comms r) cs && Qle_bool (Qabs (l_objective r - obj)) eps
              && (l_iterations r =? it)%nat && (l_evaluations r =? ev)%nat
  end.

(* spec checker on the implementation's answer (independent of the move model): the communities are
   non-empty, pairwise disjoint, cover exactly the node set, and the reported objective is the
   modularity of that partition *)
Definition is_partition_b (g : graph) (cs : list (list nat)) : bool :=
  forallb (fun c => match c with [] => false | _ => true end) cs
  && nodup_b (concat cs) && set_eqb (concat cs) (nodes g).

Definition lv_spec_check (eps : Q) (g : graph) (res : Q) (cs : list (list nat)) (obj : Q) : bool :=
  is_partition_b g cs
  && (if Qeq_bool (total_weight g) 0 then Qeq_bool obj 0
      else Qle_bool (Qabs (modularity g res cs - obj)) eps).
