(* Soundness of the boolean removal-and-recount certificate of ArticSpec.v:
   count_components computes a number c with num_components vs e c, that number is unique, hence
   is_cut_vertex_b / is_bridge_b / not_cut_vertex_b / not_bridge_b / ap_spec_check / br_spec_check
   are sound for the Prop-level definitions is_cut_vertex / is_bridge. *)
From Coq Require Import List Arith Bool Relations Lia.
From SV Require Import C15.Graph C15.ArticSpec.
Import ListNotations.

(* ---------- small list facts *)
Lemma memb_In : forall x l, memb x l = true <-> In x l.
Proof.
  intros x l. unfold memb. rewrite existsb_exists. split.
  - intros [y [Hy He]]. apply Nat.eqb_eq in He. subst y. exact Hy.
  - intros H. exists x. split; [exact H | apply Nat.eqb_refl].
Qed.

Lemma memb_false : forall x l, memb x l = false <-> ~ In x l.
Proof.
  intros x l. rewrite <- memb_In. destruct (memb x l) eqn:E; split.
  - discriminate.
  - intro H. exfalso. apply H. reflexivity.
  - intros _ H. discriminate.
  - reflexivity.
Qed.

Lemma nodup_b_NoDup : forall l, nodup_b l = true -> NoDup l.
Proof.
  induction l as [|a l IH]; simpl; intro H.
  - constructor.
  - apply andb_prop in H. destruct H as [H1 H2]. constructor.
    + apply negb_true_iff in H1. apply memb_false in H1. exact H1.
    + apply IH. exact H2.
Qed.

Lemma remove_nat_In : forall x l y, In y (remove_nat x l) <-> In y l /\ y <> x.
Proof.
  intros x l y. induction l as [|a l IH]; simpl.
  - split; [intros [] | intros [[] _]].
  - destruct (x =? a) eqn:E.
    + apply Nat.eqb_eq in E. subst a. rewrite IH. split.
      * intros [H1 H2]. split; auto.
      * intros [[H1|H1] H2]; [congruence | auto].
    + apply Nat.eqb_neq in E. simpl. rewrite IH. split.
      * intros [H | [H1 H2]]; [subst y; split; auto | split; auto].
      * intros [[H|H] H2]; auto.
Qed.

Lemma remove_nat_NoDup : forall x l, NoDup l -> NoDup (remove_nat x l).
Proof.
  intros x l H. induction H as [|a l Ha Hl IH]; simpl.
  - constructor.
  - destruct (x =? a); [exact IH|]. constructor; [|exact IH].
    rewrite remove_nat_In. intros [H1 _]. exact (Ha H1).
Qed.

Lemma edge_b_sym : forall g u v, edge_b g u v = edge_b g v u.
Proof.
  intros g u v. unfold edge_b. rewrite (Nat.eqb_sym u v).
  rewrite (orb_comm (memb v (nbrs g u))).
  rewrite <- !andb_assoc. f_equal. rewrite !andb_assoc. f_equal. apply andb_comm.
Qed.

Lemma without_edge_sym : forall g a b x y, without_edge g a b x y = without_edge g a b y x.
Proof.
  intros g a b x y. unfold without_edge. rewrite (edge_b_sym g x y). f_equal. f_equal.
  rewrite orb_comm. f_equal; apply andb_comm.
Qed.

Lemma edge_b_nodes : forall g u v, edge_b g u v = true -> In u (nodes g) /\ In v (nodes g) /\ u <> v.
Proof.
  intros g u v H. unfold edge_b in H.
  apply andb_prop in H. destruct H as [H _].
  apply andb_prop in H. destruct H as [H H3].
  apply andb_prop in H. destruct H as [H1 H2].
  apply memb_In in H2. apply memb_In in H3.
  apply negb_true_iff in H1. apply Nat.eqb_neq in H1. auto.
Qed.

(* ---------- connectivity classes and the closure computation *)
Section Conn.
Variable vs : list nat.
Variable e : nat -> nat -> bool.
Hypothesis e_sym : forall x y, e x y = e y x.

Lemma conn_refl : forall x, conn vs e x x.
Proof. intro x. apply rt_refl. Qed.

Lemma conn_trans : forall x y z, conn vs e x y -> conn vs e y z -> conn vs e x z.
Proof. intros x y z H1 H2. exact (rt_trans _ _ _ _ _ H1 H2). Qed.

Lemma conn_sym : forall x y, conn vs e x y -> conn vs e y x.
Proof.
  intros x y H. unfold conn in *. induction H as [x y H | x | x y z H1 IH1 H2 IH2].
  - apply rt_step. destruct H as (Hx & Hy & He). repeat split; auto. rewrite e_sym. exact He.
  - apply rt_refl.
  - apply rt_trans with y; auto.
Qed.

Lemma conn_in : forall x y, conn vs e x y -> In x vs -> In y vs.
Proof.
  intros x y H. unfold conn in H. induction H as [x y H | x | x y z H1 IH1 H2 IH2]; intro Hx.
  - destruct H as (_ & Hy & _). exact Hy.
  - exact Hx.
  - auto.
Qed.

Lemma grow_In : forall R y, In y (grow vs e R) ->
  In y R \/ (In y vs /\ exists x, In x R /\ e x y = true).
Proof.
  intros R y H. unfold grow in H. apply in_app_or in H. destruct H as [H|H]; [left; exact H|].
  right. apply filter_In in H. destruct H as [Hy H]. apply andb_prop in H. destruct H as [_ H].
  apply existsb_exists in H. destruct H as [x [Hx He]]. split; [exact Hy|]. exists x. auto.
Qed.

Lemma grow_n_inv : forall s k R,
  (forall y, In y R -> In y vs /\ conn vs e s y) ->
  forall y, In y (grow_n k vs e R) -> In y vs /\ conn vs e s y.
Proof.
  intros s k. induction k as [|k IH]; simpl; intros R HR y Hy.
  - auto.
  - apply IH with (R := grow vs e R); [|exact Hy].
    intros z Hz. apply grow_In in Hz. destruct Hz as [Hz | (Hzv & x & Hx & He)]; [auto|].
    split; [exact Hzv|]. destruct (HR x Hx) as [Hxv Hc].
    apply conn_trans with x; [exact Hc|]. apply rt_step. auto.
Qed.

Lemma grow_n_incl : forall k R y, In y R -> In y (grow_n k vs e R).
Proof.
  induction k as [|k IH]; simpl; intros R y H; [exact H|].
  apply IH. unfold grow. apply in_or_app. left. exact H.
Qed.

Lemma closed_spec : forall R, closed_b vs e R = true ->
  forall x y, In x R -> In y vs -> e x y = true -> In y R.
Proof.
  intros R H x y Hx Hy He. unfold closed_b in H. rewrite forallb_forall in H.
  specialize (H y Hy). apply orb_prop in H. destruct H as [H|H].
  - apply memb_In. exact H.
  - apply negb_true_iff in H.
    assert (Hex : existsb (fun x0 => e x0 y) R = true).
    { apply existsb_exists. exists x. auto. }
    congruence.
Qed.

Lemma closed_conn : forall R, closed_b vs e R = true ->
  forall x y, conn vs e x y -> In x R -> In y R.
Proof.
  intros R HR x y H. unfold conn in H.
  induction H as [x y H | x | x y z H1 IH1 H2 IH2]; intro Hx.
  - destruct H as (_ & Hy & He). exact (closed_spec R HR x y Hx Hy He).
  - exact Hx.
  - auto.
Qed.

Lemma component_spec : forall s R, In s vs -> component vs e s = Some R ->
  forall y, In y R <-> conn vs e s y.
Proof.
  intros s R Hs H y. unfold component in H.
  destruct (closed_b vs e (grow_n (length vs) vs e [s])) eqn:Hc; [|discriminate].
  injection H as H. subst R. split.
  - intro Hy. apply (grow_n_inv s (length vs) [s]); [|exact Hy].
    intros z [Hz|[]]. subst z. split; [exact Hs | apply conn_refl].
  - intro Hy. apply (closed_conn _ Hc s y Hy). apply grow_n_incl. left. reflexivity.
Qed.

(* invariant of the scan *)
Lemma count_from_sound : forall todo seen c reps c',
  incl todo vs ->
  NoDup reps -> length reps = c -> incl reps vs ->
  (forall x, In x seen <-> exists r, In r reps /\ conn vs e r x) ->
  (forall r r', In r reps -> In r' reps -> conn vs e r r' -> r = r') ->
  count_from vs e todo seen c = Some c' ->
  exists reps', NoDup reps' /\ length reps' = c' /\ incl reps' vs /\
    (forall x, In x seen \/ In x todo -> exists r, In r reps' /\ conn vs e x r) /\
    (forall r r', In r reps' -> In r' reps' -> conn vs e r r' -> r = r').
Proof.
  induction todo as [|v todo IH]; intros seen c reps c' Htodo Hnd Hlen Hincl Hseen Hpw H; simpl in H.
  - injection H as H. subst c'. exists reps. repeat split; auto.
    intros x [Hx|[]]. apply Hseen in Hx. destruct Hx as [r [Hr Hc]].
    exists r. split; [exact Hr | apply conn_sym; exact Hc].
  - assert (Hv : In v vs) by (apply Htodo; left; reflexivity).
    assert (Htodo' : incl todo vs) by (intros z Hz; apply Htodo; right; exact Hz).
    destruct (memb v seen) eqn:Hm.
    + destruct (IH seen c reps c' Htodo' Hnd Hlen Hincl Hseen Hpw H)
        as (reps' & A & B & C & D & E).
      exists reps'. repeat split; auto.
      intros x [Hx|[Hx|Hx]]; [apply D; left; exact Hx | | apply D; right; exact Hx].
      subst x. apply D. left. apply memb_In. exact Hm.
    + destruct (component vs e v) as [R|] eqn:Hcomp; [|discriminate].
      pose proof (component_spec v R Hv Hcomp) as HR.
      apply memb_false in Hm.
      assert (Hvr : forall r, In r reps -> ~ conn vs e r v).
      { intros r Hr Hc. apply Hm. apply Hseen. exists r. auto. }
      destruct (IH (R ++ seen) (S c) (v :: reps) c' Htodo') as (reps' & A & B & C & D & E).
      * constructor; [|exact Hnd]. intro Hr. apply (Hvr v Hr). apply conn_refl.
      * simpl. rewrite Hlen. reflexivity.
      * intros z [Hz|Hz]; [subst z; exact Hv | apply Hincl; exact Hz].
      * intro x. rewrite in_app_iff. rewrite HR. rewrite Hseen. split.
        -- intros [Hx | [r [Hr Hc]]].
           ++ exists v. split; [left; reflexivity | exact Hx].
           ++ exists r. split; [right; exact Hr | exact Hc].
        -- intros [r [[Hr|Hr] Hc]].
           ++ subst r. left. exact Hc.
           ++ right. exists r. auto.
      * intros r r' [Hr|Hr] [Hr'|Hr'] Hc.
        -- congruence.
        -- subst r. exfalso. apply (Hvr r' Hr'). apply conn_sym. exact Hc.
        -- subst r'. exfalso. apply (Hvr r Hr). exact Hc.
        -- apply Hpw; auto.
      * exact H.
      * exists reps'. repeat split; auto.
        intros x [Hx|[Hx|Hx]].
        -- apply D. left. apply in_or_app. right. exact Hx.
        -- subst x. apply D. left. apply in_or_app. left. apply HR. apply conn_refl.
        -- apply D. right. exact Hx.
Qed.

Lemma count_components_sound_aux : forall c,
  count_components vs e = Some c -> num_components vs e c.
Proof.
  intros c H. unfold count_components in H.
  destruct (count_from_sound vs [] 0 [] c) as (reps & A & B & C & D & E).
  - apply incl_refl.
  - constructor.
  - reflexivity.
  - intros z [].
  - intro x. split; [intros [] | intros [r [[] _]]].
  - intros r r' [].
  - exact H.
  - exists reps. repeat split; auto.
Qed.

(* an "injection" between lists bounds the length *)
Lemma rel_inj_length : forall (R : nat -> nat -> Prop) (l l' : list nat),
  NoDup l ->
  (forall x, In x l -> exists y, In y l' /\ R x y) ->
  (forall x x' y, In x l -> In x' l -> R x y -> R x' y -> x = x') ->
  length l <= length l'.
Proof.
  intros R l. induction l as [|a l IH]; intros l' Hnd Hex Hinj; simpl; [lia|].
  inversion Hnd as [|a0 l0 Ha Hl]; subst a0 l0.
  destruct (Hex a (or_introl eq_refl)) as [y [Hy Hay]].
  apply in_split in Hy. destruct Hy as [l1 [l2 Hl']]. subst l'.
  rewrite app_length. simpl.
  assert (Hle : length l <= length (l1 ++ l2)).
  { apply IH; [exact Hl | |].
    - intros x Hx. destruct (Hex x (or_intror Hx)) as [y' [Hy' Hxy']].
      exists y'. split; [|exact Hxy'].
      apply in_app_or in Hy'. apply in_or_app. destruct Hy' as [Hy'|[Hy'|Hy']]; auto.
      subst y'. exfalso. apply Ha.
      rewrite (Hinj a x y (or_introl eq_refl) (or_intror Hx) Hay Hxy'). exact Hx.
    - intros x x' y0 Hx Hx'. apply Hinj; right; assumption. }
  rewrite app_length in Hle. lia.
Qed.

Lemma num_components_le : forall c c',
  num_components vs e c -> num_components vs e c' -> c <= c'.
Proof.
  intros c c' (reps & A & B & C & D & E) (reps' & A' & B' & C' & D' & E').
  subst c c'. apply (rel_inj_length (conn vs e)); [exact A | |].
  - intros x Hx. apply D'. apply C. exact Hx.
  - intros x x' y Hx Hx' H1 H2. apply E; auto.
    apply conn_trans with y; [exact H1 | apply conn_sym; exact H2].
Qed.

End Conn.

(* ================= (a) ================= *)
Theorem count_components_sound : forall vs e c,
  NoDup vs -> (forall x y, e x y = e y x) ->
  count_components vs e = Some c -> num_components vs e c.
Proof.
  intros vs e c _ Hsym H. apply count_components_sound_aux; assumption.
Qed.

(* ================= (c) uniqueness of the count ================= *)
Theorem num_components_unique : forall vs e c c',
  (forall x y, e x y = e y x) ->
  num_components vs e c -> num_components vs e c' -> c = c'.
Proof.
  intros vs e c c' Hsym H H'.
  pose proof (num_components_le vs e Hsym c c' H H').
  pose proof (num_components_le vs e Hsym c' c H' H). lia.
Qed.

(* ================= (b) ================= *)
Theorem is_cut_vertex_b_sound : forall g v,
  valid_graph g = true -> is_cut_vertex_b g v = true -> is_cut_vertex g v.
Proof.
  intros g v Hg H. unfold is_cut_vertex_b in H. apply andb_prop in H. destruct H as [Hv H].
  destruct (count_components (nodes g) (edge_b g)) as [c|] eqn:Hc; [|discriminate].
  destruct (count_components (without_vertex g v) (edge_b g)) as [c'|] eqn:Hc'; [|discriminate].
  apply Nat.ltb_lt in H. apply nodup_b_NoDup in Hg.
  split; [apply memb_In; exact Hv|]. exists c, c'. repeat split.
  - apply count_components_sound; [exact Hg | apply edge_b_sym | exact Hc].
  - apply count_components_sound; [apply remove_nat_NoDup; exact Hg | apply edge_b_sym | exact Hc'].
  - exact H.
Qed.

Theorem is_bridge_b_sound : forall g e,
  valid_graph g = true -> is_bridge_b g e = true -> is_bridge g (fst e) (snd e).
Proof.
  intros g e Hg H. unfold is_bridge_b in H. apply andb_prop in H. destruct H as [He H].
  destruct (count_components (nodes g) (edge_b g)) as [c|] eqn:Hc; [|discriminate].
  destruct (count_components (nodes g) (without_edge g (fst e) (snd e))) as [c'|] eqn:Hc';
    [|discriminate].
  apply Nat.ltb_lt in H. apply nodup_b_NoDup in Hg.
  split; [exact He|]. exists c, c'. repeat split.
  - apply count_components_sound; [exact Hg | apply edge_b_sym | exact Hc].
  - apply count_components_sound; [exact Hg | apply without_edge_sym | exact Hc'].
  - exact H.
Qed.

(* ================= negative certificates ================= *)
Theorem not_cut_vertex_b_sound : forall g v,
  valid_graph g = true -> not_cut_vertex_b g v = true -> ~ is_cut_vertex g v.
Proof.
  intros g v Hg H [Hv (c1 & c1' & H1 & H1' & Hlt)]. unfold not_cut_vertex_b in H.
  apply orb_prop in H. destruct H as [H|H].
  - apply negb_true_iff in H. apply memb_false in H. exact (H Hv).
  - destruct (count_components (nodes g) (edge_b g)) as [c|] eqn:Hc; [|discriminate].
    destruct (count_components (without_vertex g v) (edge_b g)) as [c'|] eqn:Hc'; [|discriminate].
    apply Nat.leb_le in H. apply nodup_b_NoDup in Hg.
    apply count_components_sound in Hc; [|exact Hg | apply edge_b_sym].
    apply count_components_sound in Hc'; [|apply remove_nat_NoDup; exact Hg | apply edge_b_sym].
    pose proof (num_components_unique _ _ _ _ (edge_b_sym g) H1 Hc).
    pose proof (num_components_unique _ _ _ _ (edge_b_sym g) H1' Hc'). lia.
Qed.

Theorem not_bridge_b_sound : forall g e,
  valid_graph g = true -> not_bridge_b g e = true -> ~ is_bridge g (fst e) (snd e).
Proof.
  intros g e Hg H [He (c1 & c1' & H1 & H1' & Hlt)]. unfold not_bridge_b in H.
  apply orb_prop in H. destruct H as [H|H].
  - rewrite He in H. discriminate.
  - destruct (count_components (nodes g) (edge_b g)) as [c|] eqn:Hc; [|discriminate].
    destruct (count_components (nodes g) (without_edge g (fst e) (snd e))) as [c'|] eqn:Hc';
      [|discriminate].
    apply Nat.leb_le in H. apply nodup_b_NoDup in Hg.
    apply count_components_sound in Hc; [|exact Hg | apply edge_b_sym].
    apply count_components_sound in Hc'; [|exact Hg | apply without_edge_sym].
    pose proof (num_components_unique _ _ _ _ (edge_b_sym g) H1 Hc).
    pose proof (num_components_unique _ _ _ _ (without_edge_sym g (fst e) (snd e)) H1' Hc'). lia.
Qed.

(* ================= the per-run certificates ================= *)
Lemma pair_memb_In : forall a b l, pair_memb (a, b) l = true <-> In (a, b) l.
Proof.
  intros a b l. unfold pair_memb. rewrite existsb_exists. simpl. split.
  - intros [[a' b'] [Hq H]]. simpl in H. apply andb_prop in H. destruct H as [H1 H2].
    apply Nat.eqb_eq in H1. apply Nat.eqb_eq in H2. subst a' b'. exact Hq.
  - intro H. exists (a, b). simpl. rewrite !Nat.eqb_refl. auto.
Qed.

Lemma all_edges_In : forall g a b,
  a < b -> edge_b g a b = true -> In (a, b) (all_edges g).
Proof.
  intros g a b Hlt He. destruct (edge_b_nodes g a b He) as (Ha & Hb & _).
  unfold all_edges. apply in_flat_map. exists a. split; [exact Ha|].
  apply in_map_iff. exists b. split; [reflexivity|].
  apply filter_In. split; [exact Hb|].
  apply andb_true_intro. split; [apply Nat.ltb_lt; exact Hlt | exact He].
Qed.

Theorem ap_spec_check_sound_iff : forall g sol,
  valid_graph g = true -> ap_spec_check g sol = true ->
  forall v, In v sol <-> is_cut_vertex g v.
Proof.
  intros g sol Hg H v. unfold ap_spec_check in H. apply andb_prop in H. destruct H as [H1 H2].
  rewrite forallb_forall in H1. rewrite forallb_forall in H2. split.
  - intro Hv. apply is_cut_vertex_b_sound; [exact Hg | apply H1; exact Hv].
  - intro Hc. pose proof Hc as [Hv _]. specialize (H2 v Hv).
    apply orb_prop in H2. destruct H2 as [H2|H2]; [apply memb_In; exact H2|].
    exfalso. exact (not_cut_vertex_b_sound g v Hg H2 Hc).
Qed.

Theorem ap_spec_check_sound : forall g sol,
  valid_graph g = true -> ap_spec_check g sol = true ->
  (forall v, In v sol -> is_cut_vertex g v) /\
  (forall v, In v (nodes g) -> (In v sol <-> is_cut_vertex g v)).
Proof.
  intros g sol Hg H. split.
  - intros v Hv. apply (ap_spec_check_sound_iff g sol Hg H v). exact Hv.
  - intros v _. apply (ap_spec_check_sound_iff g sol Hg H v).
Qed.

Theorem br_spec_check_sound : forall g sol,
  valid_graph g = true -> br_spec_check g sol = true ->
  (forall a b, In (a, b) sol -> a < b /\ is_bridge g a b) /\
  (forall a b, a < b -> is_bridge g a b -> In (a, b) sol).
Proof.
  intros g sol Hg H. unfold br_spec_check in H.
  apply andb_prop in H. destruct H as [H _].
  apply andb_prop in H. destruct H as [H1 H2].
  rewrite forallb_forall in H1. rewrite forallb_forall in H2. split.
  - intros a b Hab. specialize (H1 (a, b) Hab). simpl in H1.
    apply andb_prop in H1. destruct H1 as [Hlt Hb]. apply Nat.ltb_lt in Hlt.
    split; [exact Hlt|]. exact (is_bridge_b_sound g (a, b) Hg Hb).
  - intros a b Hlt Hbr. pose proof Hbr as [He _].
    specialize (H2 (a, b) (all_edges_In g a b Hlt He)).
    apply orb_prop in H2. destruct H2 as [H2|H2]; [apply pair_memb_In; exact H2|].
    exfalso. exact (not_bridge_b_sound g (a, b) Hg H2 Hbr).
Qed.

Print Assumptions count_components_sound.
Print Assumptions is_cut_vertex_b_sound.
Print Assumptions is_bridge_b_sound.
Print Assumptions num_components_unique.
Print Assumptions not_cut_vertex_b_sound.
Print Assumptions not_bridge_b_sound.
Print Assumptions ap_spec_check_sound_iff.
Print Assumptions ap_spec_check_sound.
Print Assumptions br_spec_check_sound.
