(* Exactness of the low-link DFS model, part 2: the global invariant Good (closedness of finished
   nodes, soundness/completeness of the answers reported so far), the bridge-completeness invariant NB,
   the per-call postcondition Post (tree connectivity of the discovered set, meaning of low), the
   loop invariant LI, and their preservation by the elementary state updates. *)
From Coq Require Import List Arith Bool Relations Lia.
From SV Require Import C15.Graph C15.ArticSpec C15.Artic C15.ArticSpecProofs C15.ArticProofs
  C15.ArticExactBase.
Import ListNotations.

Section G.
Variable g : graph.

Record Good (s : ast) (stk : list nat) : Prop := mkGood {
  g_inv : Inv g s;
  g_inj : forall x y d, aget (disc s) x = Some d -> aget (disc s) y = Some d -> x = y;
  g_stk : forall x, In x stk -> dsc s x;
  g_chain : chain (edge_b g) stk;
  g_closed : forall x y, dsc s x -> ~ In x stk -> edge_b g x y = true -> dsc s y;
  g_aps : forall u, In u (aps s) -> CutSep g u;
  g_brs : forall a b, In (a, b) (brs s) -> BridgeSep g a b;
  g_nocut : forall x, dsc s x -> ~ In x stk -> In x (aps s) \/ NonCut g x
}.

(* every edge from a finished node x to a node discovered earlier is reported or not a bridge *)
Definition NB (exc : nat -> nat -> Prop) (s : ast) (stk : list nat) : Prop :=
  forall x y, dsc s x -> ~ In x stk -> edge_b g x y = true -> discd s y < discd s x ->
    exc x y \/ In (canon x y) (brs s) \/ conn (nodes g) (without_edge g x y) x y.

Definition noexc : nat -> nat -> Prop := fun _ _ => False.
Definition pexc (v : nat) (po : option nat) : nat -> nat -> Prop := fun x y => x = v /\ po = Some y.

(* nodes discovered between s0 and s *)
Definition Dn (s0 s : ast) (a : nat) : Prop := aget (disc s0) a = None /\ dsc s a.

Record Post (s s' : ast) (v : nat) (po : option nat) : Prop := mkPost {
  p_disc : aget (disc s') v = Some (time s);
  p_tree : forall a, Dn s s' a -> connP (Dn s s') (edge_b g) v a;
  p_lu : forall x y, Dn s s' x -> edge_b g x y = true -> ~ (x = v /\ po = Some y) ->
           lowd s' v <= discd s' y;
  p_ll : time s <= lowd s' v \/
         exists x y, Dn s s' x /\ edge_b g x y = true /\ ~ (x = v /\ po = Some y) /\
                     dsc s' y /\ discd s' y <= lowd s' v
}.

Definition stk_top (v : nat) (stk : list nat) (po : option nat) : Prop :=
  match stk with
  | [] => po = None
  | p :: _ => po = Some p /\ edge_b g v p = true
  end.

Record LI (v : nat) (stk : list nat) (po : option nat) (s0 : ast) (ws : list nat) (children : nat)
          (s : ast) : Prop := mkLI {
  li_good : Good s (v :: stk);
  li_nb : NB noexc s (v :: stk);
  li_ext : ext v s0 s;
  li_discv : aget (disc s) v = Some (time s0);
  li_par : aget (par s) v = Some po;
  li_seen : forall y, edge_b g v y = true -> ~ In y ws -> dsc s y;
  li_tree : forall a, Dn s0 s a -> connP (Dn s0 s) (edge_b g) v a;
  li_lu : forall x y, Dn s0 s x -> edge_b g x y = true -> (x = v -> ~ In y ws /\ po <> Some y) ->
            lowd s v <= discd s y;
  li_ll : time s0 <= lowd s v \/
          exists x y, Dn s0 s x /\ edge_b g x y = true /\ ~ (x = v /\ po = Some y) /\
                      dsc s y /\ discd s y <= lowd s v;
  li_nocut : match po with
             | Some p => In v (aps s) \/
                         forall a, Dn s0 s a -> a <> v -> conn (without_vertex g v) (edge_b g) a p
             | None => (children = 0 /\ forall a, Dn s0 s a -> a = v) \/
                       (children = 1 /\ exists w1, forall a, Dn s0 s a -> a <> v ->
                                           conn (without_vertex g v) (edge_b g) a w1) \/
                       (2 <= children /\ In v (aps s))
             end;
  li_seal : po = None -> 1 <= children ->
            exists w1 (S : nat -> Prop), edge_b g v w1 = true /\ S w1 /\ (forall x, S x -> dsc s x) /\
              (forall x y, S x -> edge_b g x y = true -> y <> v -> S y)
}.

(* ---------- accessors of Inv *)
Lemma inv_disc : forall s x d, Inv g s -> aget (disc s) x = Some d ->
  In x (nodes g) /\ d < time s /\ lowd s x <= d.
Proof.
  intros s x d (_ & _ & _ & H4 & _) Hd. destruct (H4 x d Hd) as (A & B & l & Hl & Hle).
  split; [exact A|]. split; [exact B|]. unfold lowd, agetd. rewrite Hl. exact Hle.
Qed.

Lemma inv_dsc : forall s x, Inv g s -> dsc s x ->
  In x (nodes g) /\ discd s x < time s /\ lowd s x <= discd s x.
Proof.
  intros s x HI Hx. unfold dsc in Hx. destruct (aget (disc s) x) as [d|] eqn:E; [|congruence].
  rewrite (discd_Some s x d E). exact (inv_disc s x d HI E).
Qed.

Lemma Good_set_par : forall s stk w p, Good s stk -> Good (set_par s w p) stk.
Proof. intros s stk w p [A B C D E F G' H]. constructor; assumption. Qed.

Lemma NB_set_par : forall exc s stk w p, NB exc s stk -> NB exc (set_par s w p) stk.
Proof. intros exc s stk w p H. exact H. Qed.

Lemma Post_set_par : forall s s' w p v po, Post (set_par s w p) s' v po -> Post s s' v po.
Proof. intros s s' w p v po [A B C D]. constructor; assumption. Qed.

Lemma Good_set_low : forall s stk v x, Good s stk -> Good (set_low s v (Nat.min (lowd s v) x)) stk.
Proof.
  intros s stk v x [A B C D E F G' H]. constructor; try assumption.
  apply Inv_set_low. exact A.
Qed.

Lemma canon_sym : forall v w, v <> w -> canon v w = canon w v.
Proof.
  intros v w Hne. unfold canon. destruct (v <? w) eqn:E1; destruct (w <? v) eqn:E2;
    try reflexivity.
  - apply Nat.ltb_lt in E1. apply Nat.ltb_lt in E2. lia.
  - apply Nat.ltb_ge in E1. apply Nat.ltb_ge in E2. lia.
Qed.

(* edges out of the newly discovered set go to the new set or to the stack *)
Lemma escape : forall s s' stk, Good s stk -> Good s' stk ->
  forall x y, Dn s s' x -> edge_b g x y = true -> Dn s s' y \/ In y stk.
Proof.
  intros s s' stk G1 G2 x y [Hx Hx'] He.
  assert (Hns : ~ In x stk). { intro Hin. exact (g_stk _ _ G1 x Hin Hx). }
  pose proof (g_closed _ _ G2 x y Hx' Hns He) as Hy'.
  destruct (aget (disc s) y) as [d|] eqn:E; [|left; split; assumption].
  destruct (in_dec Nat.eq_dec y stk) as [Hin|Hout]; [right; exact Hin|].
  exfalso. assert (Hy : dsc s y) by (unfold dsc; rewrite E; discriminate).
  rewrite edge_b_sym in He. exact (g_closed _ _ G1 y x Hy Hout He Hx).
Qed.

(* ---------- after_child preserves Good when the new reports are justified *)
Lemma Good_after_child : forall s stk v w c, v <> w ->
  In v (nodes g) -> edge_b g v w = true -> Good s stk ->
  (ac_ap s v w c = true -> CutSep g v) ->
  (ac_br s v w = true -> BridgeSep g v w) ->
  Good (after_child s v w c) stk.
Proof.
  intros s stk v w c Hne Hv He [A B C D E F G' H] Hap Hbr.
  destruct (after_child_shape s v w c Hne) as (S1 & S2 & S3 & S4 & S5 & S6).
  constructor.
  - apply Inv_after_child; assumption.
  - rewrite S1. exact B.
  - unfold dsc. rewrite S1. exact C.
  - exact D.
  - unfold dsc. rewrite S1. exact E.
  - intros u Hu. apply S5 in Hu. destruct Hu as [Hu|[Hu Hc]]; [exact (F u Hu) | subst u; auto].
  - intros a b Hab. apply S6 in Hab. destruct Hab as [Hab|[Hab Hc]]; [exact (G' a b Hab)|].
    specialize (Hbr Hc). unfold canon in Hab. destruct (v <? w); injection Hab as Ea Eb; subst a b;
      [exact Hbr | apply BridgeSep_swap; exact Hbr].
  - intros x Hx Hns. unfold dsc in Hx. rewrite S1 in Hx.
    destruct (H x Hx Hns) as [Hin|Hnc]; [left; apply S5; left; exact Hin | right; exact Hnc].
Qed.

Lemma is_root_po : forall s v po, aget (par s) v = Some po ->
  is_root s v = match po with Some _ => false | None => true end.
Proof. intros s v po H. unfold is_root. rewrite H. reflexivity. Qed.

Lemma parent_is_po : forall s v w po, aget (par s) v = Some po ->
  (parent_is s v w = true <-> po = Some w).
Proof.
  intros s v w po H. unfold parent_is. rewrite H. destruct po as [p|].
  - rewrite Nat.eqb_eq. split; [intro E; subst p; reflexivity | intro E; injection E as E; exact E].
  - split; discriminate.
Qed.

(* ---------- entering v establishes the loop invariant *)
Lemma LI_enter : forall v stk po s0,
  valid_graph g = true -> In v (nodes g) -> aget (disc s0) v = None ->
  Good s0 stk -> NB noexc s0 stk -> aget (par s0) v = Some po -> stk_top v stk po ->
  LI v stk po s0 (uadj g v) 0 (enter s0 v).
Proof.
  intros v stk po s0 Hg Hv H0v [A B C D E F G' H] N0 Hpar Htop.
  assert (Hvs : ~ In v stk). { intro Hin. exact (C v Hin H0v). }
  assert (Hold : forall x, x <> v -> aget (disc (enter s0 v)) x = aget (disc s0) x).
  { intros x Hx. simpl. apply aget_aset_other. auto. }
  assert (Hnew : forall a, Dn s0 (enter s0 v) a -> a = v).
  { intros a [Ha Ha']. destruct (Nat.eq_dec a v) as [Heq|Hne]; [exact Heq|].
    exfalso. unfold dsc in Ha'. rewrite (Hold a Hne) in Ha'. exact (Ha' Ha). }
  constructor.
  - constructor.
    + apply Inv_enter; assumption.
    + intros x y d Hx Hy. simpl in Hx, Hy.
      destruct (Nat.eq_dec v x) as [Ex|Ex]; destruct (Nat.eq_dec v y) as [Ey|Ey].
      * congruence.
      * subst x. rewrite aget_aset_same in Hx. rewrite aget_aset_other in Hy by exact Ey.
        injection Hx as Hx. subst d. destruct (inv_disc s0 y _ A Hy) as (_ & Hlt & _). lia.
      * subst y. rewrite aget_aset_same in Hy. rewrite aget_aset_other in Hx by exact Ex.
        injection Hy as Hy. subst d. destruct (inv_disc s0 x _ A Hx) as (_ & Hlt & _). lia.
      * rewrite aget_aset_other in Hx by exact Ex. rewrite aget_aset_other in Hy by exact Ey.
        exact (B x y d Hx Hy).
    + intros x [Hx|Hx].
      * subst x. unfold dsc. simpl. rewrite aget_aset_same. discriminate.
      * apply (mono_enter s0 v). exact (C x Hx).
    + destruct stk as [|p r]; simpl; [exact I|]. destruct Htop as [_ Hvp]. split; [exact Hvp | exact D].
    + intros x y Hx Hns He.
      assert (Hxv : x <> v) by (intro Heq; apply Hns; left; auto).
      unfold dsc in Hx. rewrite (Hold x Hxv) in Hx.
      apply (mono_enter s0 v). apply (E x y Hx); [|exact He]. intro Hin. apply Hns. right. exact Hin.
    + exact F.
    + exact G'.
    + intros x Hx Hns.
      assert (Hxv : x <> v) by (intro Heq; apply Hns; left; auto).
      unfold dsc in Hx. rewrite (Hold x Hxv) in Hx.
      apply (H x Hx). intro Hin. apply Hns. right. exact Hin.
  - intros x y Hx Hns He Hlt.
    assert (Hxv : x <> v) by (intro Heq; apply Hns; left; auto).
    unfold dsc in Hx. rewrite (Hold x Hxv) in Hx.
    assert (Dx : discd (enter s0 v) x = discd s0 x) by (unfold discd, agetd; rewrite (Hold x Hxv); reflexivity).
    destruct (inv_dsc s0 x A Hx) as (_ & Hxt & _).
    assert (Hyv : y <> v).
    { intro Heq. subst y. rewrite Dx in Hlt. unfold discd at 1, agetd in Hlt. simpl in Hlt.
      rewrite aget_aset_same in Hlt. lia. }
    assert (Dy : discd (enter s0 v) y = discd s0 y) by (unfold discd, agetd; rewrite (Hold y Hyv); reflexivity).
    rewrite Dx, Dy in Hlt.
    apply (N0 x y Hx); [|exact He | exact Hlt]. intro Hin. apply Hns. right. exact Hin.
  - apply ext_enter. exact H0v.
  - simpl. apply aget_aset_same.
  - exact Hpar.
  - intros y He Hy. exfalso. apply Hy. apply (uadj_In g v y Hv). exact He.
  - intros a Ha. rewrite (Hnew a Ha). apply connP_refl.
  - intros x y Hx He Hc. exfalso. destruct (Hc (Hnew x Hx)) as [Hy _]. apply Hy.
    apply (uadj_In g v y Hv). rewrite <- (Hnew x Hx). exact He.
  - left. unfold lowd, agetd. simpl. rewrite aget_aset_same. lia.
  - destruct po as [p|].
    + right. intros a Ha Hne. exfalso. exact (Hne (Hnew a Ha)).
    + left. split; [reflexivity | exact Hnew].
  - intros _ Hc. lia.
Qed.

End G.

Arguments g_inv {g s stk}. Arguments g_inj {g s stk}. Arguments g_stk {g s stk}.
Arguments g_chain {g s stk}. Arguments g_closed {g s stk}. Arguments g_aps {g s stk}.
Arguments g_brs {g s stk}. Arguments g_nocut {g s stk}.
Arguments p_disc {g s s' v po}. Arguments p_tree {g s s' v po}. Arguments p_lu {g s s' v po}.
Arguments p_ll {g s s' v po}.
Arguments li_good {g v stk po s0 ws children s}. Arguments li_nb {g v stk po s0 ws children s}.
Arguments li_ext {g v stk po s0 ws children s}. Arguments li_discv {g v stk po s0 ws children s}.
Arguments li_par {g v stk po s0 ws children s}. Arguments li_seen {g v stk po s0 ws children s}.
Arguments li_tree {g v stk po s0 ws children s}. Arguments li_lu {g v stk po s0 ws children s}.
Arguments li_ll {g v stk po s0 ws children s}. Arguments li_nocut {g v stk po s0 ws children s}.
Arguments li_seal {g v stk po s0 ws children s}.
Arguments e_disc {v s s'}. Arguments e_new {v s s'}. Arguments e_par {v s s'}.
Arguments e_low {v s s'}. Arguments e_aps {v s s'}. Arguments e_brs {v s s'}.
Arguments e_time {v s s'}.

Lemma stk_top_some : forall g v stk p, stk_top g v stk (Some p) ->
  exists r, stk = p :: r /\ edge_b g v p = true.
Proof.
  intros g v stk p H. destruct stk as [|q r]; simpl in H; [discriminate|].
  destruct H as [E Hvp]. injection E as E. subst q. exists r. auto.
Qed.

Lemma stk_top_none : forall g v stk, stk_top g v stk None -> stk = [].
Proof. intros g v stk H. destruct stk as [|q r]; simpl in H; [reflexivity | destruct H; discriminate]. Qed.

Lemma option_case : forall (o : option nat), o = None \/ exists p, o = Some p.
Proof. intros [p|]; [right; exists p; reflexivity | left; reflexivity]. Qed.
