(* Basic facts about the graph representation and the containers used by the k-core model. *)
From Coq Require Import List Arith Bool Lia.
From SV Require Import C15.Graph C15.KCore C15.KCoreSpec.
Import ListNotations.

Lemma memb_In : forall x l, memb x l = true <-> In x l.
Proof.
  intros x l. unfold memb. rewrite existsb_exists. split.
  - intros [y [Hy He]]. apply Nat.eqb_eq in He. now subst.
  - intros H. exists x. split; [exact H | apply Nat.eqb_refl].
Qed.

Lemma memb_false : forall x l, memb x l = false <-> ~ In x l.
Proof.
  intros x l. rewrite <- memb_In. destruct (memb x l); split; intros H; congruence.
Qed.

Lemma nodup_b_NoDup : forall l, nodup_b l = true <-> NoDup l.
Proof.
  induction l as [|x r IH]; simpl.
  - split; [constructor | reflexivity].
  - rewrite andb_true_iff, negb_true_iff, memb_false, IH. split.
    + intros [H1 H2]. now constructor.
    + intros H. inversion H; subst. now split.
Qed.

Lemma edge_b_sym : forall g u v, edge_b g u v = edge_b g v u.
Proof.
  intros g u v. unfold edge_b. rewrite (Nat.eqb_sym u v).
  destruct (v =? u), (memb u (nodes g)), (memb v (nodes g)); simpl; try reflexivity.
  apply orb_comm.
Qed.

Lemma edge_b_nodes : forall g u v, edge_b g u v = true -> In u (nodes g) /\ In v (nodes g) /\ u <> v.
Proof.
  intros g u v H. unfold edge_b in H.
  repeat (apply andb_true_iff in H; destruct H as [H ?]).
  apply negb_true_iff, Nat.eqb_neq in H. rewrite <- !memb_In. auto.
Qed.

Lemma sadj_In : forall g v w, In w (sadj g v) <-> edge_b g v w = true.
Proof.
  intros g v w. unfold sadj. rewrite filter_In. split.
  - intros [_ H]. exact H.
  - intros H. split; [|exact H]. apply edge_b_nodes in H. tauto.
Qed.

Lemma sadj_sym : forall g v w, In w (sadj g v) <-> In v (sadj g w).
Proof. intros. rewrite !sadj_In, edge_b_sym. tauto. Qed.

Lemma NoDup_filter {A} (f : A -> bool) l : NoDup l -> NoDup (filter f l).
Proof.
  induction 1 as [|x l Hx Hl IH]; simpl; [constructor|].
  destruct (f x); [constructor|]; auto. rewrite filter_In. tauto.
Qed.

Lemma sadj_NoDup : forall g v, NoDup (nodes g) -> NoDup (sadj g v).
Proof. intros. now apply NoDup_filter. Qed.

Lemma sadj_nodes : forall g v w, In w (sadj g v) -> In w (nodes g) /\ In v (nodes g) /\ v <> w.
Proof. intros g v w H. apply sadj_In, edge_b_nodes in H. tauto. Qed.

(* ---- counting with filters *)
Lemma filter_length_le {A} (f : A -> bool) l : length (filter f l) <= length l.
Proof. induction l as [|x l IH]; simpl; [lia|]. destruct (f x); simpl; lia. Qed.

Lemma filter_length_mono {A} (f h : A -> bool) l :
  (forall x, In x l -> f x = true -> h x = true) -> length (filter f l) <= length (filter h l).
Proof.
  induction l as [|x l IH]; intros H; simpl; [lia|].
  assert (IH' := IH (fun y Hy => H y (or_intror Hy))).
  destruct (f x) eqn:Ef.
  - rewrite (H x (or_introl eq_refl) Ef). simpl. lia.
  - destruct (h x); simpl; lia.
Qed.

Lemma filter_ext_in' {A} (f h : A -> bool) l :
  (forall x, In x l -> f x = h x) -> filter f l = filter h l.
Proof.
  induction l as [|x l IH]; intros H; simpl; [reflexivity|].
  rewrite (H x (or_introl eq_refl)), IH; [reflexivity|]. intros y Hy. apply H. now right.
Qed.

(* removing one element v from the predicate over a NoDup list lowers the count by one iff it was counted *)
Lemma filter_length_remove1 : forall (p : nat -> bool) v l, NoDup l ->
  length (filter (fun x => p x && negb (x =? v)) l)
  = length (filter p l) - (if memb v l && p v then 1 else 0).
Proof.
  intros p v l Hl. induction Hl as [|x l Hx Hl IH]; simpl; [reflexivity|].
  destruct (Nat.eqb_spec v x) as [->|Hne].
  - rewrite Nat.eqb_refl, andb_false_r. simpl.
    assert (Hm : memb x l = false) by now apply memb_false.
    rewrite Hm in IH. simpl in IH. rewrite IH.
    destruct (p x); simpl; lia.
  - assert (Hxv : (x =? v) = false) by (apply Nat.eqb_neq; congruence).
    rewrite Hxv, andb_true_r. simpl. destruct (p x); simpl; rewrite IH.
    + destruct (memb v l && p v) eqn:E; [|lia].
      apply andb_true_iff in E. destruct E as [E1 E2]. apply memb_In in E1.
      assert (1 <= length (filter p l)).
      { clear -E1 E2. induction l as [|y l IH]; [destruct E1|]. simpl.
        destruct E1 as [->|E1]; [rewrite E2; simpl; lia|]. destruct (p y); simpl; auto; lia. }
      lia.
    + reflexivity.
Qed.

(* ---- upd *)
Lemma upd_same {A} (f : nat -> A) k x : upd f k x k = x.
Proof. unfold upd. now rewrite Nat.eqb_refl. Qed.
Lemma upd_other {A} (f : nat -> A) k x y : y <> k -> upd f k x y = f y.
Proof. intros H. unfold upd. apply Nat.eqb_neq in H. now rewrite H. Qed.

(* ---- association lists *)
Lemma aget_app_none {A} (l : list (nat * A)) k v x :
  aget l k = None -> aget (l ++ [(v, x)]) k = if v =? k then Some x else None.
Proof.
  induction l as [|[k' y] l IH]; simpl; intros H; [reflexivity|].
  destruct (k' =? k); [discriminate|]. now apply IH.
Qed.
Lemma aget_app_some {A} (l : list (nat * A)) k y v x :
  aget l k = Some y -> aget (l ++ [(v, x)]) k = Some y.
Proof.
  induction l as [|[k' z] l IH]; simpl; intros H; [discriminate|].
  destruct (k' =? k); [exact H|]. now apply IH.
Qed.
Lemma aget_In_fst {A} (l : list (nat * A)) k x : aget l k = Some x -> In k (map fst l).
Proof.
  induction l as [|[k' y] l IH]; simpl; intros H; [discriminate|].
  destruct (Nat.eqb_spec k' k); [now left | right; auto].
Qed.
Lemma aget_none_notin {A} (l : list (nat * A)) k : aget l k = None <-> ~ In k (map fst l).
Proof.
  induction l as [|[k' y] l IH]; simpl; [tauto|].
  destruct (Nat.eqb_spec k' k) as [->|Hne].
  - split; [discriminate | intros H; exfalso; apply H; now left].
  - rewrite IH. tauto.
Qed.
Lemma aget_In_pair {A} (l : list (nat * A)) k x : aget l k = Some x -> In (k, x) l.
Proof.
  induction l as [|[k' y] l IH]; simpl; intros H; [discriminate|].
  destruct (Nat.eqb_spec k' k) as [->|Hne]; [left; congruence | right; auto].
Qed.
Lemma In_pair_aget {A} (l : list (nat * A)) k x : NoDup (map fst l) -> In (k, x) l -> aget l k = Some x.
Proof.
  induction l as [|[k' y] l IH]; simpl; intros Hn H; [destruct H|].
  inversion Hn as [|? ? Hk Hn']; subst.
  destruct H as [H|H].
  - inversion H; subst. now rewrite Nat.eqb_refl.
  - destruct (Nat.eqb_spec k' k) as [->|Hne]; [|auto].
    exfalso. apply Hk. change k with (fst (k, x)). now apply in_map.
Qed.

(* ---- remove_nat *)
Lemma remove_nat_In : forall x y l, In y (remove_nat x l) <-> In y l /\ y <> x.
Proof.
  intros x y l. induction l as [|z l IH]; simpl; [tauto|].
  destruct (Nat.eqb_spec x z) as [->|Hne]; simpl; rewrite IH; intuition congruence.
Qed.
Lemma remove_nat_NoDup : forall x l, NoDup l -> NoDup (remove_nat x l).
Proof.
  intros x l H. induction H as [|z l Hz Hl IH]; simpl; [constructor|].
  destruct (x =? z); [exact IH|]. constructor; [|exact IH]. rewrite remove_nat_In. tauto.
Qed.
Lemma remove_nat_length : forall x l, NoDup l -> In x l -> S (length (remove_nat x l)) = length l.
Proof.
  intros x l H. induction H as [|z l Hz Hl IH]; simpl; intros Hx; [destruct Hx|].
  destruct (Nat.eqb_spec x z) as [->|Hne].
  - f_equal. clear -Hz. induction l as [|y l IH]; simpl; [reflexivity|].
    destruct (Nat.eqb_spec z y) as [->|Hn]; [exfalso; apply Hz; now left|].
    simpl. f_equal. apply IH. intros H. apply Hz. now right.
  - simpl. f_equal. apply IH. destruct Hx; congruence.
Qed.

Lemma nth_mod_In : forall (b : list nat) i, b <> [] -> In (nth (i mod length b) b 0) b.
Proof.
  intros b i Hb. apply nth_In. apply Nat.mod_upper_bound.
  destruct b; [congruence | simpl; lia].
Qed.

Lemma list_max_ge : forall l x, In x l -> x <= list_max l.
Proof.
  induction l as [|y l IH]; simpl; intros x H; [destruct H|].
  destruct H as [->|H]; [lia|]. specialize (IH x H). lia.
Qed.

Lemma NoDup_app_single {A} (l : list A) x : NoDup l -> ~ In x l -> NoDup (l ++ [x]).
Proof.
  induction 1 as [|y l Hy Hl IH]; simpl; intros Hx.
  - constructor; [tauto | constructor].
  - constructor.
    + rewrite in_app_iff. simpl. intros [H|[H|[]]]; [tauto | apply Hx; now left].
    + apply IH. tauto.
Qed.
