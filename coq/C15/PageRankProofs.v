(* Proofs about the PageRank model (C15/PageRank.v): the scores stay on the probability simplex
   (non-negative, sum 1) along every iteration, and on OPTIMAL the L1 residual of the damped equation is
   bounded by  d * n * tol.  All statements are for arbitrary graphs (no size bound).
   Toolbox and the double-sum exchange live in C15/PageRankLemmas.v. *)
From Coq Require Import List Arith Bool ZArith QArith Qabs Qminmax Lia Lqa.
From SV Require Import C15.Graph C15.PageRank C15.PageRankLemmas.
Import ListNotations.
Open Scope Q_scope.

(* ---------- the update as a function of the score function ---------- *)

Definition Fn (g : graph) (d : Q) (x : nat -> Q) (v : nat) : Q :=
  (1 - d) / qn (length (nodes g))
  + d * qsum (map (fun u => x u / qn (out_count g u)) (incoming g v))
  + d * qsum (map x (filter (fun v => (out_count g v =? 0)%nat) (nodes g))) / qn (length (nodes g)).

Lemma new_score_Fn : forall g d s v, new_score g d s v = Fn g d (score s) v.
Proof. reflexivity. Qed.

Lemma length_nonnil : forall (A : Type) (l : list A), l <> [] -> (length l <> 0)%nat.
Proof. intros A [|a l] Hl; [contradiction | discriminate]. Qed.

Lemma Qdiv_nonneg : forall a b, 0 <= a -> 0 <= b -> 0 <= a / b.
Proof.
  intros a b Ha Hb. unfold Qdiv. apply Qmult_le_0_compat. exact Ha.
  apply Qinv_le_0_compat. exact Hb.
Qed.

Lemma sum_Fn : forall g d x, NoDup (nodes g) -> nodes g <> [] ->
  qsum (map (Fn g d x) (nodes g)) == (1 - d) + d * qsum (map x (nodes g)).
Proof.
  intros g d x Hnd Hne.
  pose proof (qn_pos _ (length_nonnil _ _ Hne)) as Hn.
  set (n := qn (length (nodes g))) in *.
  set (D := qsum (map x (filter (fun v => (out_count g v =? 0)%nat) (nodes g)))).
  rewrite (qsum_map_ext_eq _ (Fn g d x)
    (fun v => ((1 - d) / n + d * D / n)
              + d * qsum (map (fun u => x u / qn (out_count g u)) (incoming g v)))).
  - rewrite qsum_map_plus, qsum_map_const, qsum_map_scale.
    rewrite (exchange g (fun u => x u / qn (out_count g u)) Hnd).
    pose proof (split_dangling g x (nodes g)) as Hs. fold D in Hs. fold n.
    rewrite <- Hs. field. lra.
  - intros v _. unfold Fn. fold n. fold D. ring.
Qed.

Lemma Fn_nonneg : forall g d x v, nodes g <> [] -> 0 <= d -> d <= 1 ->
  (forall u, In u (nodes g) -> 0 <= x u) -> 0 <= Fn g d x v.
Proof.
  intros g d x v Hne Hd0 Hd1 Hx.
  pose proof (qn_nonneg (length (nodes g))) as Hn.
  assert (H1 : 0 <= (1 - d) / qn (length (nodes g))).
  { apply Qdiv_nonneg. lra. exact Hn. }
  assert (H2 : 0 <= d * qsum (map (fun u => x u / qn (out_count g u)) (incoming g v))).
  { apply Qmult_le_0_compat. exact Hd0. apply qsum_map_nonneg. intros u Hu.
    apply Qdiv_nonneg. apply Hx. apply (In_incoming g v u Hu). apply qn_nonneg. }
  assert (H3 : 0 <= d * qsum (map x (filter (fun v => (out_count g v =? 0)%nat) (nodes g)))
                    / qn (length (nodes g))).
  { apply Qdiv_nonneg. apply Qmult_le_0_compat. exact Hd0. apply qsum_map_nonneg.
    intros u Hu. apply Hx. apply filter_In in Hu. destruct Hu as [Hu _]. exact Hu. exact Hn. }
  unfold Fn. lra.
Qed.

(* ---------- reading scores back ---------- *)

Lemma aget_map_key : forall (h : nat -> Q) (l : list nat) (v : nat), In v l ->
  aget (map (fun w => (w, h w)) l) v = Some (h v).
Proof.
  intros h l v. induction l as [|a l IH]; intros Hv.
  - destruct Hv.
  - cbn [map aget]. destruct (Nat.eqb a v) eqn:E.
    + apply Nat.eqb_eq in E. subst a. reflexivity.
    + destruct Hv as [Hv|Hv].
      * subst a. rewrite Nat.eqb_refl in E. discriminate E.
      * apply IH. exact Hv.
Qed.

Lemma score_step : forall g d s v, In v (nodes g) ->
  score (step g d s) v == new_score g d s v.
Proof.
  intros g d s v Hv. unfold score, agetd, step.
  rewrite (aget_map_key (fun w => Qred (new_score g d s w)) (nodes g) v Hv).
  apply Qred_correct.
Qed.

Lemma score_init : forall g v, In v (nodes g) ->
  score (init_scores g) v == 1 / qn (length (nodes g)).
Proof.
  intros g v Hv. unfold score, agetd, init_scores.
  rewrite (aget_map_key (fun _ => Qred (1 / qn (length (nodes g)))) (nodes g) v Hv).
  apply Qred_correct.
Qed.

(* ---------- the simplex invariant ---------- *)

Definition simplex (g : graph) (s : list (nat * Q)) : Prop :=
  (forall v, In v (nodes g) -> 0 <= score s v) /\ qsum (map (score s) (nodes g)) == 1.

Lemma simplex_init : forall g, nodes g <> [] -> simplex g (init_scores g).
Proof.
  intros g Hne.
  pose proof (qn_pos _ (length_nonnil _ _ Hne)) as Hn.
  split.
  - intros v Hv. rewrite (score_init g v Hv). apply Qdiv_nonneg; lra.
  - rewrite (qsum_map_ext_eq _ (score (init_scores g))
       (fun _ => 1 / qn (length (nodes g)))).
    + rewrite qsum_map_const. field. lra.
    + intros v Hv. apply score_init. exact Hv.
Qed.

Lemma simplex_step : forall g d s, NoDup (nodes g) -> nodes g <> [] -> 0 <= d -> d <= 1 ->
  simplex g s -> simplex g (step g d s).
Proof.
  intros g d s Hnd Hne Hd0 Hd1 [Hpos Hsum]. split.
  - intros v Hv. rewrite (score_step g d s v Hv). rewrite new_score_Fn.
    apply Fn_nonneg; assumption.
  - rewrite (qsum_map_ext_eq _ (score (step g d s)) (Fn g d (score s))).
    + rewrite (sum_Fn g d (score s) Hnd Hne). rewrite Hsum. ring.
    + intros v Hv. rewrite (score_step g d s v Hv). rewrite new_score_Fn. reflexivity.
Qed.

Lemma simplex_iterate : forall g d k s, NoDup (nodes g) -> nodes g <> [] -> 0 <= d -> d <= 1 ->
  simplex g s -> simplex g (iterate k g d s).
Proof.
  intros g d k. induction k as [|k IH]; intros s Hnd Hne Hd0 Hd1 Hs.
  - exact Hs.
  - cbn [iterate]. apply IH; try assumption. apply simplex_step; assumption.
Qed.

Lemma simplex_pr_loop : forall g d tol fuel it s last,
  NoDup (nodes g) -> nodes g <> [] -> 0 <= d -> d <= 1 ->
  simplex g s -> simplex g (p_scores (pr_loop fuel it g d tol s last)).
Proof.
  intros g d tol fuel. induction fuel as [|f IH]; intros it s last Hnd Hne Hd0 Hd1 Hs.
  - exact Hs.
  - cbn [pr_loop].
    destruct (qltb (Qred (max_diff g s (step g d s))) tol).
    + cbn [p_scores]. apply simplex_step; assumption.
    + apply IH; try assumption. apply simplex_step; assumption.
Qed.

(* ---------- L1 contraction of the update ---------- *)

Lemma Qabs_div_nonneg : forall a b, 0 <= b -> Qabs (a / b) == Qabs a / b.
Proof.
  intros a b Hb. unfold Qdiv. rewrite Qabs_Qmult, Qabs_Qinv, (Qabs_pos b Hb). reflexivity.
Qed.

Lemma Fn_diff_abs : forall g d x y v, nodes g <> [] -> 0 <= d ->
  Qabs (Fn g d x v - Fn g d y v)
  <= Fn g d (fun u => Qabs (x u - y u)) v - (1 - d) / qn (length (nodes g)).
Proof.
  intros g d x y v Hne Hd0.
  pose proof (qn_nonneg (length (nodes g))) as Hn.
  set (n := qn (length (nodes g))) in *.
  set (dl := filter (fun v => (out_count g v =? 0)%nat) (nodes g)).
  set (R := qsum (map (fun u => (x u - y u) / qn (out_count g u)) (incoming g v))).
  set (Dd := qsum (map (fun u => x u - y u) dl)).
  set (RW := qsum (map (fun u => Qabs (x u - y u) / qn (out_count g u)) (incoming g v))).
  set (DW := qsum (map (fun u => Qabs (x u - y u)) dl)).
  assert (E : Fn g d x v - Fn g d y v == d * R + d * Dd / n).
  { unfold Fn, R, Dd. fold n. fold dl.
    rewrite (qsum_map_ext_eq _ (fun u => (x u - y u) / qn (out_count g u))
               (fun u => x u / qn (out_count g u) - y u / qn (out_count g u))).
    - rewrite !qsum_map_minus. unfold Qdiv. ring.
    - intros u _. unfold Qdiv. ring. }
  assert (HR : Qabs R <= RW).
  { unfold R, RW. eapply Qle_trans. apply Qabs_qsum_map_le.
    apply qsum_map_le. intros u _. rewrite Qabs_div_nonneg. apply Qle_refl. apply qn_nonneg. }
  assert (HD : Qabs Dd <= DW).
  { unfold Dd, DW. apply Qabs_qsum_map_le. }
  assert (E1 : Qabs (d * R) == d * Qabs R).
  { rewrite Qabs_Qmult, (Qabs_pos d Hd0). reflexivity. }
  assert (E2 : Qabs (d * Dd / n) == d * Qabs Dd / n).
  { rewrite Qabs_div_nonneg by exact Hn. rewrite Qabs_Qmult, (Qabs_pos d Hd0). reflexivity. }
  assert (L1 : d * Qabs R <= d * RW).
  { rewrite (Qmult_comm d (Qabs R)), (Qmult_comm d RW). apply Qmult_le_compat_r; assumption. }
  assert (L2 : d * Qabs Dd / n <= d * DW / n).
  { unfold Qdiv. apply Qmult_le_compat_r.
    - rewrite (Qmult_comm d (Qabs Dd)), (Qmult_comm d DW). apply Qmult_le_compat_r; assumption.
    - apply Qinv_le_0_compat. exact Hn. }
  rewrite E.
  pose proof (Qabs_triangle (d * R) (d * Dd / n)) as Ht.
  assert (EF : Fn g d (fun u => Qabs (x u - y u)) v - (1 - d) / n == d * RW + d * DW / n).
  { unfold Fn, RW, DW. fold n. fold dl. ring. }
  rewrite EF. rewrite E1, E2 in Ht. lra.
Qed.

Lemma contraction : forall g d x y, NoDup (nodes g) -> nodes g <> [] -> 0 <= d ->
  qsum (map (fun v => Qabs (Fn g d x v - Fn g d y v)) (nodes g))
  <= d * qsum (map (fun u => Qabs (x u - y u)) (nodes g)).
Proof.
  intros g d x y Hnd Hne Hd0.
  pose proof (qn_pos _ (length_nonnil _ _ Hne)) as Hn.
  eapply Qle_trans.
  - apply qsum_map_le. intros v _. apply Fn_diff_abs; assumption.
  - rewrite (qsum_map_minus _ (Fn g d (fun u => Qabs (x u - y u)))
               (fun _ => (1 - d) / qn (length (nodes g)))).
    rewrite sum_Fn by assumption. rewrite qsum_map_const.
    apply Qle_lteq. right. field. lra.
Qed.

(* ---------- the stopping rule bounds every coordinate ---------- *)

Lemma fold_max_ge_init : forall (t : nat -> Q) l m,
  m <= fold_left (fun m v => Qmax m (t v)) l m.
Proof.
  intros t l. induction l as [|a l IH]; intros m.
  - apply Qle_refl.
  - cbn [fold_left]. eapply Qle_trans. apply (Q.le_max_l m (t a)). apply IH.
Qed.

Lemma fold_max_ge : forall (t : nat -> Q) l m v, In v l ->
  t v <= fold_left (fun m v => Qmax m (t v)) l m.
Proof.
  intros t l. induction l as [|a l IH]; intros m v Hv.
  - destruct Hv.
  - cbn [fold_left]. destruct Hv as [Hv|Hv].
    + subst a. eapply Qle_trans. apply (Q.le_max_r m (t v)). apply fold_max_ge_init.
    + apply IH. exact Hv.
Qed.

Lemma max_diff_ge : forall g s s' v, In v (nodes g) ->
  Qabs (score s' v - score s v) <= max_diff g s s'.
Proof.
  intros g s s' v Hv. unfold max_diff.
  apply (fold_max_ge (fun v => Qabs (score s' v - score s v)) (nodes g) 0 v Hv).
Qed.

Lemma qltb_lt : forall a b, qltb a b = true -> a < b.
Proof.
  intros a b H. unfold qltb in H. apply negb_true_iff in H.
  apply Qnot_le_lt. intros Hle. apply Qle_bool_iff in Hle. rewrite Hle in H. discriminate H.
Qed.

Lemma residual_step : forall g d tol sp, NoDup (nodes g) -> nodes g <> [] -> 0 <= d ->
  max_diff g sp (step g d sp) < tol ->
  residual g d (step g d sp) <= d * qn (length (nodes g)) * tol.
Proof.
  intros g d tol sp Hnd Hne Hd0 Hmd. unfold residual.
  rewrite (qsum_map_ext_eq _
     (fun v => Qabs (score (step g d sp) v - new_score g d (step g d sp) v))
     (fun v => Qabs (Fn g d (score sp) v - Fn g d (score (step g d sp)) v))).
  - eapply Qle_trans. apply contraction; assumption.
    assert (Hs : qsum (map (fun u => Qabs (score sp u - score (step g d sp) u)) (nodes g))
                 <= qn (length (nodes g)) * tol).
    { rewrite <- qsum_map_const. apply qsum_map_le. intros u Hu.
      rewrite Qabs_Qminus. apply Qlt_le_weak. eapply Qle_lt_trans.
      apply (max_diff_ge g sp (step g d sp) u Hu). exact Hmd. }
    rewrite <- Qmult_assoc. rewrite !(Qmult_comm d). apply Qmult_le_compat_r; assumption.
  - intros v Hv. rewrite (score_step g d sp v Hv). rewrite !new_score_Fn. reflexivity.
Qed.

Lemma pr_loop_optimal : forall g d tol fuel it s last,
  p_status (pr_loop fuel it g d tol s last) = P_OPTIMAL ->
  exists sp, p_scores (pr_loop fuel it g d tol s last) = step g d sp
             /\ qltb (Qred (max_diff g sp (step g d sp))) tol = true.
Proof.
  intros g d tol fuel. induction fuel as [|f IH]; intros it s last Hst.
  - cbn [pr_loop p_status] in Hst. discriminate Hst.
  - cbn [pr_loop] in Hst |- *.
    destruct (qltb (Qred (max_diff g s (step g d s))) tol) eqn:E.
    + exists s. split. reflexivity. exact E.
    + apply IH. exact Hst.
Qed.

Lemma pr_loop_iterations : forall g d tol fuel it s last,
  (it + (if (fuel =? 0)%nat then 0 else 1) <= p_iterations (pr_loop fuel it g d tol s last)
   <= it + fuel)%nat
  /\ (p_status (pr_loop fuel it g d tol s last) = P_MAX_ITER ->
      p_iterations (pr_loop fuel it g d tol s last) = (it + fuel)%nat).
Proof.
  intros g d tol fuel. induction fuel as [|f IH]; intros it s last.
  - cbn [pr_loop p_iterations p_status Nat.eqb]. split. lia. intros _. lia.
  - cbn [pr_loop Nat.eqb].
    destruct (qltb (Qred (max_diff g s (step g d s))) tol).
    + cbn [p_iterations p_status]. split. lia. intros H. discriminate H.
    + specialize (IH (S it) (step g d s) (Qred (max_diff g s (step g d s)))).
      destruct IH as [[Ha Hb] Hc]. split.
      * split. destruct (f =? 0)%nat; lia. lia.
      * intros H. rewrite (Hc H). lia.
Qed.

(* ---------- unfolding the entry point ---------- *)

Lemma pagerank_ok_inv : forall g d tol mi r, pagerank g d tol mi = PR_ok r ->
  nodes g <> [] /\ mi <> 0%nat /\ r = pr_loop mi 0 g d tol (init_scores g) 0.
Proof.
  intros g d tol mi r H. unfold pagerank in H.
  destruct (nodes g) as [|a l] eqn:E.
  - discriminate H.
  - destruct mi as [|m].
    + discriminate H.
    + injection H as H. split. discriminate. split. discriminate. symmetry. exact H.
Qed.

Lemma pagerank_noiter_inv : forall g d tol mi s, pagerank g d tol mi = PR_noiter s ->
  nodes g <> [] /\ mi = 0%nat /\ s = init_scores g.
Proof.
  intros g d tol mi s H. unfold pagerank in H.
  destruct (nodes g) as [|a l] eqn:E.
  - discriminate H.
  - destruct mi as [|m].
    + injection H as H. split. discriminate. split. reflexivity. symmetry. exact H.
    + discriminate H.
Qed.

(* ---------- final statements ---------- *)

Theorem pr_simplex_iterate : forall g d k,
  valid_graph g = true -> nodes g <> [] -> 0 <= d -> d <= 1 ->
  let s := iterate k g d (init_scores g) in
  (forall v, In v (nodes g) -> 0 <= score s v) /\ qsum (map (score s) (nodes g)) == 1.
Proof.
  intros g d k Hv Hne Hd0 Hd1. cbv zeta.
  apply (simplex_iterate g d k (init_scores g)); try assumption.
  - apply nodup_b_NoDup. exact Hv.
  - apply simplex_init. exact Hne.
Qed.

Theorem pr_simplex : forall g d tol mi r,
  valid_graph g = true -> 0 <= d -> d <= 1 -> pagerank g d tol mi = PR_ok r ->
  (forall v, In v (nodes g) -> 0 <= score (p_scores r) v)
  /\ qsum (map (score (p_scores r)) (nodes g)) == 1.
Proof.
  intros g d tol mi r Hv Hd0 Hd1 Hpr.
  apply pagerank_ok_inv in Hpr. destruct Hpr as [Hne [_ Hr]]. subst r.
  apply (simplex_pr_loop g d tol mi 0 (init_scores g) 0); try assumption.
  - apply nodup_b_NoDup. exact Hv.
  - apply simplex_init. exact Hne.
Qed.

Theorem pr_simplex_noiter : forall g d tol mi s,
  valid_graph g = true -> 0 <= d -> d <= 1 -> pagerank g d tol mi = PR_noiter s ->
  (forall v, In v (nodes g) -> 0 <= score s v) /\ qsum (map (score s) (nodes g)) == 1.
Proof.
  intros g d tol mi s Hv Hd0 Hd1 Hpr.
  apply pagerank_noiter_inv in Hpr. destruct Hpr as [Hne [_ Hs]]. subst s.
  apply simplex_init. exact Hne.
Qed.

Theorem pr_residual : forall g d tol mi r,
  valid_graph g = true -> 0 <= d -> d <= 1 -> pagerank g d tol mi = PR_ok r ->
  p_status r = P_OPTIMAL ->
  residual g d (p_scores r) <= d * qn (length (nodes g)) * tol.
Proof.
  intros g d tol mi r Hv Hd0 Hd1 Hpr Hst.
  apply pagerank_ok_inv in Hpr. destruct Hpr as [Hne [_ Hr]]. subst r.
  apply pr_loop_optimal in Hst. destruct Hst as [sp [Hsc Hlt]].
  rewrite Hsc. apply residual_step; try assumption.
  - apply nodup_b_NoDup. exact Hv.
  - apply qltb_lt in Hlt. rewrite Qred_correct in Hlt. exact Hlt.
Qed.

Theorem pr_iterations_bound : forall g d tol mi r, pagerank g d tol mi = PR_ok r ->
  (1 <= p_iterations r <= mi)%nat
  /\ (p_status r = P_MAX_ITER -> p_iterations r = mi).
Proof.
  intros g d tol mi r Hpr.
  apply pagerank_ok_inv in Hpr. destruct Hpr as [_ [Hmi Hr]]. subst r.
  pose proof (pr_loop_iterations g d tol mi 0 (init_scores g) 0) as [[Ha Hb] Hc].
  split.
  - apply Nat.eqb_neq in Hmi. rewrite Hmi in Ha. lia.
  - intros H. rewrite (Hc H). reflexivity.
Qed.

Print Assumptions pr_simplex_iterate.
Print Assumptions pr_simplex.
Print Assumptions pr_simplex_noiter.
Print Assumptions pr_residual.
Print Assumptions pr_iterations_bound.
