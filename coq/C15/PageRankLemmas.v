(* Lemmas for the PageRank model (C15/PageRank.v): qsum toolbox, node-list facts, and the double-sum
   exchange  sum_v sum_{u in incoming v} f u = sum_u out_count u * f u  (NoDup node list).
   Used by C15/PageRankProofs.v. *)
From Coq Require Import List Arith Bool ZArith QArith Qabs Qminmax Lia Lqa.
From SV Require Import C15.Graph C15.PageRank.
Import ListNotations.
Open Scope Q_scope.

(* ---------- qsum toolbox ---------- *)

Lemma qsum_cons : forall a l, qsum (a :: l) = a + qsum l.
Proof. reflexivity. Qed.

Lemma qsum_app : forall l1 l2, qsum (l1 ++ l2) == qsum l1 + qsum l2.
Proof.
  induction l1 as [|a l1 IH]; intros l2.
  - cbn [app]. change (qsum []) with 0. lra.
  - cbn [app]. rewrite !qsum_cons. rewrite IH. lra.
Qed.

Lemma qsum_map_ext_eq : forall (A : Type) (f h : A -> Q) (l : list A),
  (forall x, In x l -> f x == h x) -> qsum (map f l) == qsum (map h l).
Proof.
  intros A f h l. induction l as [|a l IH]; intros Hext.
  - reflexivity.
  - cbn [map]. rewrite !qsum_cons.
    rewrite (Hext a (or_introl eq_refl)).
    rewrite IH. reflexivity. intros x Hx. apply Hext. right. exact Hx.
Qed.

Lemma qsum_map_le : forall (A : Type) (f h : A -> Q) (l : list A),
  (forall x, In x l -> f x <= h x) -> qsum (map f l) <= qsum (map h l).
Proof.
  intros A f h l. induction l as [|a l IH]; intros Hext.
  - cbn [map qsum fold_right]. lra.
  - cbn [map]. rewrite !qsum_cons.
    assert (H1 : f a <= h a) by (apply Hext; left; reflexivity).
    assert (H2 : qsum (map f l) <= qsum (map h l)).
    { apply IH. intros x Hx. apply Hext. right. exact Hx. }
    lra.
Qed.

Lemma qsum_map_plus : forall (A : Type) (f h : A -> Q) (l : list A),
  qsum (map (fun x => f x + h x) l) == qsum (map f l) + qsum (map h l).
Proof.
  intros A f h l. induction l as [|a l IH].
  - cbn [map qsum fold_right]. lra.
  - cbn [map]. rewrite !qsum_cons. rewrite IH. lra.
Qed.

Lemma qsum_map_scale : forall (A : Type) (c : Q) (f : A -> Q) (l : list A),
  qsum (map (fun x => c * f x) l) == c * qsum (map f l).
Proof.
  intros A c f l. induction l as [|a l IH].
  - cbn [map qsum fold_right]. lra.
  - cbn [map]. rewrite !qsum_cons. rewrite IH. ring.
Qed.

Lemma qn_S : forall n, qn (S n) == 1 + qn n.
Proof.
  intros n. unfold qn. rewrite Nat2Z.inj_succ. unfold Z.succ.
  rewrite inject_Z_plus. change (inject_Z 1) with 1. lra.
Qed.

Lemma qn_0 : qn 0 == 0.
Proof. reflexivity. Qed.

Lemma qn_plus : forall a b, qn (a + b) == qn a + qn b.
Proof.
  intros a b. unfold qn. rewrite Nat2Z.inj_add. rewrite inject_Z_plus. reflexivity.
Qed.

Lemma qn_nonneg : forall n, 0 <= qn n.
Proof.
  induction n as [|n IH].
  - rewrite qn_0. lra.
  - rewrite qn_S. lra.
Qed.

Lemma qn_pos : forall n, (n <> 0)%nat -> 0 < qn n.
Proof.
  intros [|n] Hn.
  - contradiction.
  - rewrite qn_S. pose proof (qn_nonneg n) as H. lra.
Qed.

Lemma qsum_map_const : forall (A : Type) (c : Q) (l : list A),
  qsum (map (fun _ => c) l) == qn (length l) * c.
Proof.
  intros A c l. induction l as [|a l IH].
  - cbn [map qsum fold_right length]. rewrite qn_0. lra.
  - cbn [map length]. rewrite qsum_cons, IH, qn_S. ring.
Qed.

Lemma qsum_map_nonneg : forall (A : Type) (f : A -> Q) (l : list A),
  (forall x, In x l -> 0 <= f x) -> 0 <= qsum (map f l).
Proof.
  intros A f l. induction l as [|a l IH]; intros Hf.
  - cbn [map qsum fold_right]. lra.
  - cbn [map]. rewrite qsum_cons.
    assert (H1 : 0 <= f a) by (apply Hf; left; reflexivity).
    assert (H2 : 0 <= qsum (map f l)).
    { apply IH. intros x Hx. apply Hf. right. exact Hx. }
    lra.
Qed.

Lemma Qabs_qsum_map_le : forall (A : Type) (f : A -> Q) (l : list A),
  Qabs (qsum (map f l)) <= qsum (map (fun x => Qabs (f x)) l).
Proof.
  intros A f l. induction l as [|a l IH].
  - cbn [map qsum fold_right]. change (Qabs 0) with 0. lra.
  - cbn [map]. rewrite !qsum_cons.
    pose proof (Qabs_triangle (f a) (qsum (map f l))) as Ht. lra.
Qed.

Lemma qsum_map_minus : forall (A : Type) (f h : A -> Q) (l : list A),
  qsum (map (fun x => f x - h x) l) == qsum (map f l) - qsum (map h l).
Proof.
  intros A f h l. induction l as [|a l IH].
  - cbn [map qsum fold_right]. lra.
  - cbn [map]. rewrite !qsum_cons. rewrite IH. lra.
Qed.

(* ---------- node-list facts ---------- *)

Lemma memb_In : forall x l, memb x l = true <-> In x l.
Proof.
  intros x l. unfold memb. rewrite existsb_exists. split.
  - intros [y [Hy He]]. apply Nat.eqb_eq in He. subst y. exact Hy.
  - intros Hx. exists x. split. exact Hx. apply Nat.eqb_refl.
Qed.

Lemma nodup_b_NoDup : forall l, nodup_b l = true -> NoDup l.
Proof.
  induction l as [|a l IH]; intros Hl.
  - constructor.
  - cbn [nodup_b] in Hl. apply andb_true_iff in Hl. destruct Hl as [Ha Hr].
    constructor.
    + intros Hin. apply memb_In in Hin. rewrite Hin in Ha. discriminate Ha.
    + apply IH. exact Hr.
Qed.

Lemma in_set_nbrs_In : forall g u w, In w (in_set_nbrs g u) -> In w (nodes g).
Proof.
  intros g u w Hw. unfold in_set_nbrs in Hw. apply filter_In in Hw.
  destruct Hw as [_ Hm]. apply memb_In. exact Hm.
Qed.

(* ---------- indicator and counting sums ---------- *)

Lemma qsum_indicator_notin : forall x vs, ~ In x vs ->
  qsum (map (fun v => if Nat.eqb v x then 1 else 0) vs) == 0.
Proof.
  intros x vs. induction vs as [|a vs IH]; intros Hx.
  - reflexivity.
  - cbn [map]. rewrite qsum_cons.
    destruct (Nat.eqb a x) eqn:E.
    + apply Nat.eqb_eq in E. exfalso. apply Hx. left. exact E.
    + rewrite IH. lra. intros Hin. apply Hx. right. exact Hin.
Qed.

Lemma qsum_indicator : forall x vs, NoDup vs -> In x vs ->
  qsum (map (fun v => if Nat.eqb v x then 1 else 0) vs) == 1.
Proof.
  intros x vs Hnd. induction Hnd as [|a vs Ha Hnd IH]; intros Hx.
  - destruct Hx.
  - cbn [map]. rewrite qsum_cons.
    destruct (Nat.eqb a x) eqn:E.
    + apply Nat.eqb_eq in E. subst a. rewrite qsum_indicator_notin by exact Ha. lra.
    + destruct Hx as [Hx|Hx].
      * subst a. rewrite Nat.eqb_refl in E. discriminate E.
      * rewrite IH by exact Hx. lra.
Qed.

Lemma qsum_count : forall vs l, NoDup vs -> (forall x, In x l -> In x vs) ->
  qsum (map (fun v => qn (length (filter (Nat.eqb v) l))) vs) == qn (length l).
Proof.
  intros vs l Hnd. induction l as [|x l IH]; intros Hin.
  - cbn [filter length]. rewrite qsum_map_const. rewrite qn_0. lra.
  - rewrite (qsum_map_ext_eq _ _
       (fun v => (if Nat.eqb v x then 1 else 0) + qn (length (filter (Nat.eqb v) l)))).
    + rewrite qsum_map_plus. rewrite qsum_indicator.
      * rewrite IH. cbn [length]. rewrite qn_S. reflexivity.
        intros y Hy. apply Hin. right. exact Hy.
      * exact Hnd.
      * apply Hin. left. reflexivity.
    + intros v _. cbn [filter]. destruct (Nat.eqb v x).
      * cbn [length]. rewrite qn_S. reflexivity.
      * lra.
Qed.

(* ---------- the double-sum exchange ---------- *)

Definition inc_over (g : graph) (us : list nat) (v : nat) : list nat :=
  flat_map (fun u => map (fun _ => u) (filter (Nat.eqb v) (in_set_nbrs g u))) us.

Lemma incoming_inc_over : forall g v, incoming g v = inc_over g (nodes g) v.
Proof. reflexivity. Qed.

Lemma qsum_map_rep : forall (f : nat -> Q) (u : nat) (l : list nat),
  qsum (map f (map (fun _ => u) l)) == qn (length l) * f u.
Proof.
  intros f u l. rewrite map_map. rewrite qsum_map_const. reflexivity.
Qed.

Lemma qsum_inc_cons : forall g f u us v,
  qsum (map f (inc_over g (u :: us) v))
  == f u * qn (length (filter (Nat.eqb v) (in_set_nbrs g u))) + qsum (map f (inc_over g us v)).
Proof.
  intros g f u us v. unfold inc_over. cbn [flat_map].
  rewrite map_app, qsum_app, qsum_map_rep. ring.
Qed.

Lemma exchange_over : forall g (f : nat -> Q) us, NoDup (nodes g) ->
  qsum (map (fun v => qsum (map f (inc_over g us v))) (nodes g))
  == qsum (map (fun u => qn (out_count g u) * f u) us).
Proof.
  intros g f us Hnd. induction us as [|u us IH].
  - cbn [inc_over flat_map map]. change (qsum []) with 0.
    rewrite qsum_map_const. lra.
  - rewrite (qsum_map_ext_eq _ _
      (fun v => f u * qn (length (filter (Nat.eqb v) (in_set_nbrs g u)))
                + qsum (map f (inc_over g us v)))).
    + rewrite qsum_map_plus, qsum_map_scale, IH.
      rewrite qsum_count.
      * cbn [map]. rewrite qsum_cons. unfold out_count. ring.
      * exact Hnd.
      * intros x Hx. apply (in_set_nbrs_In g u). exact Hx.
    + intros v _. apply qsum_inc_cons.
Qed.

Lemma exchange : forall g (f : nat -> Q), NoDup (nodes g) ->
  qsum (map (fun v => qsum (map f (incoming g v))) (nodes g))
  == qsum (map (fun u => qn (out_count g u) * f u) (nodes g)).
Proof.
  intros g f Hnd. apply (exchange_over g f (nodes g) Hnd).
Qed.

Lemma In_incoming : forall g v u, In u (incoming g v) -> In u (nodes g).
Proof.
  intros g v u Hu. unfold incoming in Hu. apply in_flat_map in Hu.
  destruct Hu as [w [Hw Hm]]. apply in_map_iff in Hm. destruct Hm as [y [Hy _]].
  subst u. exact Hw.
Qed.

(* sum over non-dangling (weighted out/out) + sum over dangling = sum over all *)
Lemma split_dangling : forall g (h : nat -> Q) (l : list nat),
  qsum (map (fun u => qn (out_count g u) * (h u / qn (out_count g u))) l)
  + qsum (map h (filter (fun v => (out_count g v =? 0)%nat) l))
  == qsum (map h l).
Proof.
  intros g h l. induction l as [|a l IH].
  - reflexivity.
  - cbn [map filter]. destruct (out_count g a =? 0)%nat eqn:E.
    + apply Nat.eqb_eq in E. cbn [map]. rewrite !qsum_cons. rewrite <- IH.
      rewrite E. rewrite qn_0. unfold Qdiv. ring.
    + apply Nat.eqb_neq in E. rewrite !qsum_cons. rewrite <- IH.
      pose proof (qn_pos _ E) as Hp. field. lra.
Qed.
