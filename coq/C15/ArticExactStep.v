(* Exactness of the low-link DFS model, part 3: one iteration of the loop of v for an undiscovered
   neighbour w (recursive call, then after_child) re-establishes the loop invariant LI. *)
From Coq Require Import List Arith Bool Relations Lia.
From SV Require Import C15.Graph C15.ArticSpec C15.Artic C15.ArticSpecProofs C15.ArticProofs
  C15.ArticExactBase C15.ArticExactInv.
Import ListNotations.

Section Child.
Variable g : graph.
Variables (v : nat) (stk : list nat) (po : option nat) (s0 s s' : ast) (w : nat) (ws' : list nat)
          (children : nat).
Hypothesis Hv : In v (nodes g).
Hypothesis H0v : aget (disc s0) v = None.
Hypothesis G0 : Good g s0 stk.
Hypothesis Htop : stk_top g v stk po.
Hypothesis L : LI g v stk po s0 (w :: ws') children s.
Hypothesis Hw : aget (disc s) w = None.
Hypothesis He : edge_b g v w = true.
Hypothesis G1 : Good g s' (v :: stk).
Hypothesis N1 : NB g (pexc w (Some v)) s' (v :: stk).
Hypothesis X1 : forall u, ext u s s'.
Hypothesis P1 : Post g s s' w (Some v).

Let s'' := after_child s' v w (S children).
Let Gs : Good g s (v :: stk) := li_good L.

Lemma c_vw : v <> w.
Proof. intro E. subst w. rewrite (li_discv L) in Hw. discriminate. Qed.

Lemma c_dscv : dsc s v.
Proof. unfold dsc. rewrite (li_discv L). discriminate. Qed.

Lemma c_discdv' : discd s' v = time s0.
Proof. apply discd_Some. apply (e_disc (X1 v)). exact (li_discv L). Qed.

Lemma c_t0 : time s0 < time s.
Proof. destruct (inv_disc g s v _ (g_inv Gs) (li_discv L)) as (_ & H & _). exact H. Qed.

Lemma c_new : forall y, Dn s s' y -> time s <= discd s' y.
Proof.
  intros y [Hy Hy']. unfold dsc in Hy'. destruct (aget (disc s') y) as [d|] eqn:E; [|congruence].
  rewrite (discd_Some _ _ _ E). exact (e_new (X1 v) y d Hy E).
Qed.

Lemma c_stk_lt : forall y, In y stk -> discd s' y < time s0.
Proof.
  intros y Hy. pose proof (g_stk G0 y Hy) as H0.
  destruct (inv_dsc g s0 y (g_inv G0) H0) as (_ & Hlt & _).
  pose proof (ext_discd v s0 s y (li_ext L) H0) as E1.
  pose proof (ext_discd v s s' y (X1 v) (ext_dsc v s0 s y (li_ext L) H0)) as E2. lia.
Qed.

Lemma c_v_notstk : ~ In v stk.
Proof. intro Hin. exact (g_stk G0 v Hin H0v). Qed.

Lemma c_w_notvstk : ~ In w (v :: stk).
Proof. intro Hin. exact (g_stk Gs w Hin Hw). Qed.

Lemma c_Dn_ne_v : forall x, Dn s s' x -> x <> v.
Proof. intros x [Hx _] E. subst x. rewrite (li_discv L) in Hx. discriminate. Qed.

Lemma c_Dn_w : Dn s s' w.
Proof. split; [exact Hw|]. unfold dsc. rewrite (p_disc P1). discriminate. Qed.

Lemma c_esc : forall x y, Dn s s' x -> edge_b g x y = true -> Dn s s' y \/ In y (v :: stk).
Proof. exact (escape g s s' (v :: stk) Gs G1). Qed.

Lemma c_shape :
  disc s'' = disc s' /\ par s'' = par s' /\ time s'' = time s' /\
  low s'' = aset (low s') v (Nat.min (lowd s' v) (lowd s' w)) /\
  (forall x, In x (aps s'') <-> In x (aps s') \/ (x = v /\ ac_ap s' v w (S children) = true)) /\
  (forall p, In p (brs s'') <-> In p (brs s') \/ (p = canon v w /\ ac_br s' v w = true)).
Proof. exact (after_child_shape s' v w (S children) c_vw). Qed.

Lemma c_dsc'' : forall x, dsc s'' x <-> dsc s' x.
Proof. intro x. destruct c_shape as (S1 & _). unfold dsc. rewrite S1. tauto. Qed.

Lemma c_discd'' : forall x, discd s'' x = discd s' x.
Proof. intro x. destruct c_shape as (S1 & _). unfold discd. rewrite S1. reflexivity. Qed.

Lemma c_low'' : lowd s'' v = Nat.min (lowd s v) (lowd s' w).
Proof.
  destruct c_shape as (_ & _ & _ & S4 & _). unfold lowd at 1, agetd. rewrite S4, aget_aset_same.
  f_equal. unfold lowd, agetd. rewrite (e_low (X1 w) v c_dscv c_vw). reflexivity.
Qed.

(* ----- sealedness of the child's discovered set *)
Lemma c_seal_v : discd s' v <= lowd s' w ->
  forall x y, Dn s s' x -> edge_b g x y = true -> y <> v -> Dn s s' y.
Proof.
  intros Hlow x y Hx Hexy Hyv. destruct (c_esc x y Hx Hexy) as [Hy|[Hy|Hy]];
    [exact Hy | congruence |].
  exfalso. assert (Hn : ~ (x = w /\ Some v = Some y)) by (intros [_ E]; injection E as E; congruence).
  pose proof (p_lu P1 x y Hx Hexy Hn) as Hl. pose proof (c_stk_lt y Hy). rewrite c_discdv' in Hlow. lia.
Qed.

Lemma c_seal_root : stk = [] ->
  forall x y, Dn s s' x -> edge_b g x y = true -> y <> v -> Dn s s' y.
Proof.
  intros Hs x y Hx Hexy Hyv. destruct (c_esc x y Hx Hexy) as [Hy|[Hy|Hy]];
    [exact Hy | congruence |]. rewrite Hs in Hy. destruct Hy.
Qed.

Lemma c_conn_wv : conn (nodes g) (edge_b g) w v.
Proof. apply conn_step_edge. rewrite edge_b_sym. exact He. Qed.

Lemma c_cut_nonroot : forall p, po = Some p -> discd s' v <= lowd s' w -> CutSep g v.
Proof.
  intros p Hpo Hlow. pose proof Htop as Ht. rewrite Hpo in Ht.
  destruct (stk_top_some g v stk p Ht) as (r & Estk & Hvp).
  destruct (edge_b_nodes g v p Hvp) as (_ & _ & Hpv).
  split; [exact Hv|]. exists w, p. split; [intro E; exact (c_vw (eq_sym E))|].
  split; [auto|]. split; [exact c_conn_wv|].
  split; [apply conn_step_edge; rewrite edge_b_sym; exact Hvp|].
  apply (sealed_vertex g v (Dn s s') w p); [exact c_Dn_w | | exact (c_seal_v Hlow)].
  intros [Hp _]. apply (g_stk Gs p); [|exact Hp]. right. rewrite Estk. left. reflexivity.
Qed.

Lemma c_cut_root : po = None -> 1 <= children -> CutSep g v.
Proof.
  intros Hpo Hc. destruct (li_seal L Hpo Hc) as (w1 & S & Hvw1 & Sw1 & Sd & Scl).
  destruct (edge_b_nodes g v w1 Hvw1) as (_ & _ & Hne).
  split; [exact Hv|]. exists w1, w. split; [auto|]. split; [intro E; exact (c_vw (eq_sym E))|].
  split; [apply conn_step_edge; rewrite edge_b_sym; exact Hvw1|]. split; [exact c_conn_wv|].
  apply (sealed_vertex g v S w1 w); [exact Sw1 | | exact Scl].
  intro Sw. exact (Sd w Sw Hw).
Qed.

Lemma c_par' : aget (par s') v = Some po.
Proof. rewrite (e_par (X1 v) v c_dscv). exact (li_par L). Qed.

Lemma c_ap : ac_ap s' v w (S children) = true -> CutSep g v.
Proof.
  intro Hap. unfold ac_ap in Hap. rewrite (is_root_po s' v po c_par') in Hap.
  destruct (option_case po) as [Epo|[p Epo]]; rewrite Epo in Hap.
  - apply Nat.leb_le in Hap. apply c_cut_root; [exact Epo | lia].
  - apply Nat.leb_le in Hap. exact (c_cut_nonroot p Epo Hap).
Qed.

Lemma c_br : ac_br s' v w = true -> BridgeSep g v w.
Proof.
  intro Hbr. unfold ac_br in Hbr. apply Nat.ltb_lt in Hbr. rewrite c_discdv' in Hbr.
  apply BridgeSep_swap. split; [rewrite edge_b_sym; exact He|].
  apply (sealed_edge g w v (Dn s s') w v c_Dn_w).
  - intro H. exact (c_Dn_ne_v v H eq_refl).
  - intros x y Hx Hexy Hn1 Hn2. destruct (c_esc x y Hx Hexy) as [Hy|Hy]; [exact Hy|]. exfalso.
    assert (Hn : ~ (x = w /\ Some v = Some y)).
    { intros [E1 E2]. injection E2 as E2. apply Hn1. split; [exact E1 | symmetry; exact E2]. }
    pose proof (p_lu P1 x y Hx Hexy Hn) as Hl. destruct Hy as [Hy|Hy].
    + subst y. rewrite c_discdv' in Hl. lia.
    + pose proof (c_stk_lt y Hy). lia.
Qed.

Lemma c_good'' : Good g s'' (v :: stk).
Proof. apply Good_after_child; [exact c_vw | exact Hv | exact He | exact G1 | exact c_ap | exact c_br]. Qed.

(* the tree edge (v,w) is not a bridge when low[w] <= disc[v] *)
Lemma c_pair : ac_br s' v w = false -> conn (nodes g) (without_edge g w v) w v.
Proof.
  intro Hbr. unfold ac_br in Hbr. apply Nat.ltb_ge in Hbr. rewrite c_discdv' in Hbr.
  pose proof c_t0 as Ht0.
  destruct (p_ll P1) as [Hl | (x & y & Hx & Hexy & Hn & Hy' & Hl)]; [lia|].
  assert (Hy : In y (v :: stk)).
  { destruct (c_esc x y Hx Hexy) as [Hy|Hy]; [|exact Hy]. pose proof (c_new y Hy). lia. }
  apply conn_trans with x.
  - apply (connP_conn_edge g w v (Dn s s') w x); [|exact (p_tree P1 x Hx)].
    right. intro H. exact (c_Dn_ne_v v H eq_refl).
  - apply conn_trans with y.
    + apply rt_step. destruct (edge_b_nodes g x y Hexy) as (Nx & Ny & _).
      split; [exact Nx|]. split; [exact Ny|]. apply without_edge_true. split; [exact Hexy|]. split.
      * intros [E1 E2]. apply Hn. split; [exact E1 | rewrite E2; reflexivity].
      * intros [E1 _]. exact (c_Dn_ne_v x Hx E1).
    + apply (connP_conn_edge g w v (fun z => In z (v :: stk)) y v); [left; exact c_w_notvstk|].
      apply connP_sym; [apply edge_b_sym|]. apply chain_connP; [exact (g_chain Gs) | exact Hy].
Qed.

Lemma c_nb'' : NB g noexc s'' (v :: stk).
Proof.
  intros x y Hx Hns Hexy Hlt. destruct c_shape as (_ & _ & _ & _ & _ & S6).
  apply c_dsc'' in Hx. rewrite !c_discd'' in Hlt.
  destruct (N1 x y Hx Hns Hexy Hlt) as [[E1 E2] | [Hin | Hc]].
  - injection E2 as E2. subst x y. right. destruct (ac_br s' v w) eqn:Ebr.
    + left. apply S6. right. split; [apply canon_sym; intro E; exact (c_vw (eq_sym E)) | reflexivity].
    + right. exact (c_pair Ebr).
  - right. left. apply S6. left. exact Hin.
  - right. right. exact Hc.
Qed.

(* ----- the discovered sets *)
Lemma c_Dn_split : forall a, Dn s0 s'' a -> Dn s0 s a \/ Dn s s' a.
Proof.
  intros a [Ha Ha']. apply c_dsc'' in Ha'. destruct (dsc_dec s a) as [Hd|Hd].
  - left. split; assumption.
  - right. split; assumption.
Qed.

Lemma c_Dn_old : forall a, Dn s0 s a -> Dn s0 s'' a.
Proof. intros a [Ha Ha']. split; [exact Ha|]. apply c_dsc''. exact (ext_dsc v s s' a (X1 v) Ha'). Qed.

Lemma c_Dn_new : forall a, Dn s s' a -> Dn s0 s'' a.
Proof.
  intros a [Ha Ha']. split; [|apply c_dsc''; exact Ha'].
  destruct (aget (disc s0) a) as [d|] eqn:E; [|reflexivity].
  rewrite (e_disc (li_ext L) a d E) in Ha. discriminate.
Qed.

Lemma c_Dn_v : Dn s0 s'' v.
Proof. apply c_Dn_old. split; [exact H0v | exact c_dscv]. Qed.

Lemma c_closed_old : forall x y, Dn s0 s x -> x <> v -> edge_b g x y = true -> dsc s y.
Proof.
  intros x y [Hx Hx'] Hxv Hexy. apply (g_closed Gs x y Hx'); [|exact Hexy].
  intros [Hin|Hin]; [auto|]. exact (g_stk G0 x Hin Hx).
Qed.

Lemma c_seen'' : forall y, edge_b g v y = true -> ~ In y ws' -> dsc s'' y.
Proof.
  intros y Hey Hny. apply c_dsc''. destruct (Nat.eq_dec y w) as [E|E].
  - subst y. exact (proj2 c_Dn_w).
  - apply (ext_dsc v s s' y (X1 v)). apply (li_seen L y Hey). intros [Hin|Hin]; auto.
Qed.

Lemma c_tree'' : forall a, Dn s0 s'' a -> connP (Dn s0 s'') (edge_b g) v a.
Proof.
  intros a Ha. destruct (c_Dn_split a Ha) as [Ho|Hn].
  - apply connP_mono with (P := Dn s0 s) (e := edge_b g); [exact c_Dn_old | auto | exact (li_tree L a Ho)].
  - apply connP_trans with w.
    + apply connP_step; [exact c_Dn_v | exact (c_Dn_new w c_Dn_w) | exact He].
    + apply connP_mono with (P := Dn s s') (e := edge_b g); [exact c_Dn_new | auto | exact (p_tree P1 a Hn)].
Qed.

Lemma c_lu'' : forall x y, Dn s0 s'' x -> edge_b g x y = true ->
  (x = v -> ~ In y ws' /\ po <> Some y) -> lowd s'' v <= discd s'' y.
Proof.
  intros x y Hx Hexy Hc. rewrite c_low'', c_discd''.
  destruct (c_Dn_split x Hx) as [Ho|Hn].
  - destruct (Nat.eq_dec x v) as [Exv|Exv].
    + destruct (Hc Exv) as [Hny Hpo]. subst x. destruct (Nat.eq_dec y w) as [E|E].
      * subst y. destruct (inv_dsc g s' w (g_inv G1) (proj2 c_Dn_w)) as (_ & _ & Hl). lia.
      * assert (Hny' : ~ In y (w :: ws')) by (intros [Hin|Hin]; auto).
        pose proof (li_lu L v y Ho Hexy (fun _ => conj Hny' Hpo)) as Hl.
        rewrite (ext_discd v s s' y (X1 v) (li_seen L y Hexy Hny')). lia.
    + assert (Hl : lowd s v <= discd s y).
      { apply (li_lu L x y Ho Hexy). intro E. contradiction. }
      rewrite (ext_discd v s s' y (X1 v) (c_closed_old x y Ho Exv Hexy)). lia.
  - destruct (Nat.eq_dec x w) as [Exw|Exw]; [destruct (Nat.eq_dec y v) as [Eyv|Eyv]|].
    + subst x y. destruct (inv_dsc g s v (g_inv Gs) c_dscv) as (_ & _ & Hl).
      rewrite (ext_discd v s s' v (X1 v) c_dscv). lia.
    + assert (Hn' : ~ (x = w /\ Some v = Some y)) by (intros [_ E]; injection E as E; auto).
      pose proof (p_lu P1 x y Hn Hexy Hn'). lia.
    + assert (Hn' : ~ (x = w /\ Some v = Some y)) by (intros [E _]; auto).
      pose proof (p_lu P1 x y Hn Hexy Hn'). lia.
Qed.

Lemma c_po_w : po <> Some w.
Proof.
  intro Hpo. pose proof Htop as Ht. rewrite Hpo in Ht.
  destruct (stk_top_some g v stk w Ht) as (r & Estk & _).
  apply c_w_notvstk. right. rewrite Estk. left. reflexivity.
Qed.

Lemma c_ll'' : time s0 <= lowd s'' v \/
  exists x y, Dn s0 s'' x /\ edge_b g x y = true /\ ~ (x = v /\ po = Some y) /\
              dsc s'' y /\ discd s'' y <= lowd s'' v.
Proof.
  rewrite c_low''. destruct (le_lt_dec (lowd s v) (lowd s' w)) as [Hle|Hlt].
  - rewrite Nat.min_l by exact Hle.
    destruct (li_ll L) as [Hl | (x & y & Hx & Hexy & Hn & Hy & Hl)]; [left; exact Hl|].
    right. exists x, y. split; [exact (c_Dn_old x Hx)|]. split; [exact Hexy|]. split; [exact Hn|].
    split; [apply c_dsc''; exact (ext_dsc v s s' y (X1 v) Hy)|].
    rewrite c_discd'', (ext_discd v s s' y (X1 v) Hy). exact Hl.
  - rewrite Nat.min_r by lia. right.
    destruct (p_ll P1) as [Hl | (x & y & Hx & Hexy & Hn & Hy & Hl)].
    + exists v, w. split; [exact c_Dn_v|]. split; [exact He|].
      split; [intros [_ E]; exact (c_po_w E)|].
      split; [apply c_dsc''; exact (proj2 c_Dn_w)|].
      rewrite c_discd'', (discd_Some s' w _ (p_disc P1)). exact Hl.
    + exists x, y. split; [exact (c_Dn_new x Hx)|]. split; [exact Hexy|].
      split; [intros [E _]; exact (c_Dn_ne_v x Hx E)|].
      split; [apply c_dsc''; exact Hy|]. rewrite c_discd''. exact Hl.
Qed.

Lemma c_aps_mono : forall x, In x (aps s) -> In x (aps s'').
Proof.
  intros x Hx. destruct c_shape as (_ & _ & _ & _ & S5 & _). apply S5. left.
  exact (e_aps (X1 v) x Hx).
Qed.

(* every node of the child's set reaches w avoiding v *)
Lemma c_to_w : forall a, Dn s s' a -> conn (without_vertex g v) (edge_b g) a w.
Proof.
  intros a Ha. apply conn_sym; [apply edge_b_sym|].
  apply (connP_conn_vertex g v (Dn s s') w a c_Dn_ne_v). exact (p_tree P1 a Ha).
Qed.

Lemma c_w_to_p : forall p, po = Some p -> lowd s' w < discd s' v ->
  conn (without_vertex g v) (edge_b g) w p.
Proof.
  intros p Hpo Hlow. rewrite c_discdv' in Hlow. pose proof c_t0 as Ht0.
  pose proof Htop as Ht. rewrite Hpo in Ht.
  destruct (stk_top_some g v stk p Ht) as (r & Estk & Hvp).
  destruct (p_ll P1) as [Hl | (x & y & Hx & Hexy & Hn & Hy' & Hl)]; [lia|].
  assert (Hy : In y stk).
  { destruct (c_esc x y Hx Hexy) as [Hy|[Hy|Hy]]; [| |exact Hy].
    - pose proof (c_new y Hy). lia.
    - subst y. rewrite c_discdv' in Hl. lia. }
  assert (Hyv : y <> v) by (intro E; subst y; exact (c_v_notstk Hy)).
  apply conn_trans with x.
  - apply (connP_conn_vertex g v (Dn s s') w x c_Dn_ne_v). exact (p_tree P1 x Hx).
  - apply conn_trans with y.
    + apply rt_step. destruct (edge_b_nodes g x y Hexy) as (Nx & Ny & _).
      rewrite !without_vertex_In. pose proof (c_Dn_ne_v x Hx). auto.
    + apply conn_sym; [apply edge_b_sym|].
      apply (connP_conn_vertex g v (fun z => In z (p :: r)) p y).
      * intros z Hz E. subst z. apply c_v_notstk. rewrite Estk. exact Hz.
      * apply chain_connP; [rewrite <- Estk; exact (g_chain G0) | rewrite <- Estk; exact Hy].
Qed.

Lemma c_nocut'' :
  match po with
  | Some p => In v (aps s'') \/
              forall a, Dn s0 s'' a -> a <> v -> conn (without_vertex g v) (edge_b g) a p
  | None => (S children = 0 /\ forall a, Dn s0 s'' a -> a = v) \/
            (S children = 1 /\ exists w1, forall a, Dn s0 s'' a -> a <> v ->
                                conn (without_vertex g v) (edge_b g) a w1) \/
            (2 <= S children /\ In v (aps s''))
  end.
Proof.
  destruct c_shape as (_ & _ & _ & _ & S5 & _). pose proof (li_nocut L) as Hold.
  destruct (option_case po) as [Epo|[p Epo]].
  - assert (Hr : is_root s' v = true) by (rewrite (is_root_po s' v po c_par'), Epo; reflexivity).
    rewrite Epo in Hold |- *.
    destruct Hold as [[Hc Hall] | [[Hc [w1 Hall]] | [Hc Hin]]].
    + right. left. split; [lia|]. exists w. intros a Ha Hav.
      destruct (c_Dn_split a Ha) as [Ho|Hn]; [exfalso; exact (Hav (Hall a Ho)) | exact (c_to_w a Hn)].
    + right. right. split; [lia|]. apply S5. right. split; [reflexivity|].
      unfold ac_ap. rewrite Hr. subst children. reflexivity.
    + right. right. split; [lia | exact (c_aps_mono v Hin)].
  - assert (Hr : is_root s' v = false) by (rewrite (is_root_po s' v po c_par'), Epo; reflexivity).
    rewrite Epo in Hold |- *.
    destruct Hold as [Hin|Hall]; [left; exact (c_aps_mono v Hin)|].
    destruct (discd s' v <=? lowd s' w) eqn:Ecmp.
    + left. apply S5. right. split; [reflexivity|]. unfold ac_ap. rewrite Hr. exact Ecmp.
    + apply Nat.leb_gt in Ecmp. right. intros a Ha Hav.
      destruct (c_Dn_split a Ha) as [Ho|Hn]; [exact (Hall a Ho Hav)|].
      apply conn_trans with w; [exact (c_to_w a Hn) | exact (c_w_to_p p Epo Ecmp)].
Qed.

Lemma c_seal'' : po = None -> 1 <= S children ->
  exists w1 (S : nat -> Prop), edge_b g v w1 = true /\ S w1 /\ (forall x, S x -> dsc s'' x) /\
    (forall x y, S x -> edge_b g x y = true -> y <> v -> S y).
Proof.
  intros Hpo _. destruct (le_lt_dec 1 children) as [Hc|Hc].
  - destruct (li_seal L Hpo Hc) as (w1 & S & Hvw1 & Sw1 & Sd & Scl).
    exists w1, S. split; [exact Hvw1|]. split; [exact Sw1|]. split; [|exact Scl].
    intros x Sx. apply c_dsc''. exact (ext_dsc v s s' x (X1 v) (Sd x Sx)).
  - exists w, (Dn s s'). split; [exact He|]. split; [exact c_Dn_w|]. split.
    + intros x [_ Hx]. apply c_dsc''. exact Hx.
    + apply c_seal_root. apply (stk_top_none g v). rewrite <- Hpo. exact Htop.
Qed.

Theorem LI_child : LI g v stk po s0 ws' (S children) s''.
Proof.
  destruct c_shape as (S1 & S2 & _).
  constructor.
  - exact c_good''.
  - exact c_nb''.
  - apply ext_trans with s; [exact (li_ext L)|]. apply ext_trans with s'; [exact (X1 v)|].
    apply ext_after_child. exact c_vw.
  - rewrite S1. apply (e_disc (X1 v)). exact (li_discv L).
  - rewrite S2. exact c_par'.
  - exact c_seen''.
  - exact c_tree''.
  - exact c_lu''.
  - exact c_ll''.
  - exact c_nocut''.
  - exact c_seal''.
Qed.

End Child.
