(* Proofs about the model C15/Louvain.v (local moving phase of solvor/community.py: louvain).

   For ALL graphs and ALL oracle move sequences accepted by the model:
     - the three dictionaries node_to_comm / comm_nodes / comm_degree stay mutually consistent
       (lv_consistent; visit_consistent, sweep_consistent, sweeps_consistent);
     - the returned communities are non-empty and partition the node set (louvain_partition);
     - the returned objective is the modularity of the returned partition (louvain_modularity;
       definitional for the model: the model computes it with the formula of the code);
     - the boolean checkers applied to the implementation's answers are sound
       (is_partition_b_sound, lv_spec_check_sound).                                             *)
From Coq Require Import List Arith Bool ZArith QArith Qabs Lia Permutation.
From SV Require Import C15.Graph C15.Louvain C15.LouvainLemmas.
Import ListNotations.
Close Scope Q_scope.
Local Open Scope nat_scope.

(* ------------------------------------------------------------------ *)
(* A. the consistency invariant of the three dictionaries              *)

Record lv_consistent (g : graph) (s : lst) : Prop := {
  lc_kn : map fst (n2c s) = nodes g;
  lc_kc : map fst (cnodes s) = seq 0 (length (nodes g));
  lc_kd : map fst (cdeg s) = seq 0 (length (nodes g));
  lc_n : forall v c, aget (n2c s) v = Some c ->
         c < length (nodes g) /\ In v (agetd [] (cnodes s) c);
  lc_c : forall c l, aget (cnodes s) c = Some l ->
         NoDup l /\ forall v, In v l -> In v (nodes g) /\ aget (n2c s) v = Some c;
  lc_d : forall c, c < length (nodes g) ->
         aget (cdeg s) c = Some (comm_deg g (agetd [] (cnodes s) c))
}.

Lemma linit_consistent : forall g, valid_graph g = true -> lv_consistent g (linit g).
Proof.
  intros g Hv. unfold valid_graph in Hv. apply nodup_b_NoDup in Hv.
  unfold linit. constructor; cbn [n2c cnodes cdeg].
  - apply enum_keys_swap.
  - apply (enum_keys (fun x : nat => [x])).
  - apply (enum_keys (ldeg g)).
  - intros v c H. apply aget_enum_swap in H. destruct H as [_ H].
    rewrite Nat.sub_0_r in H. split.
    + apply nth_error_Some. congruence.
    + unfold agetd. rewrite (aget_enum (fun x : nat => [x])). simpl.
      rewrite Nat.sub_0_r, H. simpl. left. reflexivity.
  - intros c l H. rewrite (aget_enum (fun x : nat => [x])) in H. simpl in H.
    rewrite Nat.sub_0_r in H. destruct (nth_error (nodes g) c) as [x|] eqn:Hx; [|discriminate H].
    simpl in H. inversion H; subst l. split.
    + constructor; [simpl; tauto | constructor].
    + intros v [Hin|[]]. subst v. split.
      * eapply nth_error_In. exact Hx.
      * apply (aget_enum_swap_conv (nodes g) 0 c x Hv Hx).
  - intros c Hc. rewrite (aget_enum (ldeg g)). simpl. rewrite Nat.sub_0_r.
    unfold agetd. rewrite (aget_enum (fun x : nat => [x])). simpl. rewrite Nat.sub_0_r.
    destruct (nth_error (nodes g) c) as [x|] eqn:Hx.
    + simpl. rewrite comm_deg_cons. change (comm_deg g []) with 0%Z. f_equal. lia.
    + exfalso. apply nth_error_None in Hx. lia.
Qed.

Lemma lc_members : forall g s, lv_consistent g s -> forall c,
  NoDup (agetd [] (cnodes s) c) /\
  forall v, In v (agetd [] (cnodes s) c) -> In v (nodes g) /\ aget (n2c s) v = Some c.
Proof.
  intros g s HC c. unfold agetd. destruct (aget (cnodes s) c) as [l|] eqn:E.
  - apply (lc_c g s HC c l E).
  - split; [constructor | intros v []].
Qed.

Lemma node_comm : forall g s v, lv_consistent g s -> In v (nodes g) ->
  aget (n2c s) v = Some (comm_of s v).
Proof.
  intros g s v HC Hv. rewrite <- (lc_kn g s HC) in Hv.
  destruct (aget_keys _ _ Hv) as [c Hc]. unfold comm_of, agetd. rewrite Hc. reflexivity.
Qed.

Lemma admissible_lt : forall g s v t, lv_consistent g s -> In v (nodes g) ->
  admissible g s v t = true -> t < length (nodes g).
Proof.
  intros g s v t HC Hv H. unfold admissible in H. apply orb_true_iff in H.
  destruct H as [H|H].
  - apply Nat.eqb_eq in H. subst t.
    apply (lc_n g s HC v _ (node_comm g s v HC Hv)).
  - apply existsb_exists in H. destruct H as [w [Hw He]]. apply Nat.eqb_eq in He. subst t.
    unfold sadj in Hw. apply filter_In in Hw. destruct Hw as [Hw _].
    apply (lc_n g s HC w _ (node_comm g s w HC Hw)).
Qed.

Lemma visit_consistent_aux : forall g s v t, lv_consistent g s -> In v (nodes g) ->
  t < length (nodes g) ->
  let cur := comm_of s v in
  let cn1 := aset (cnodes s) cur (remove_nat v (agetd [] (cnodes s) cur)) in
  let cd1 := aset (cdeg s) cur (agetd 0%Z (cdeg s) cur - ldeg g v)%Z in
  let cn2 := aset cn1 t (agetd [] cn1 t ++ [v]) in
  let cd2 := aset cd1 t (agetd 0%Z cd1 t + ldeg g v)%Z in
  lv_consistent g {| n2c := aset (n2c s) v t; cnodes := cn2; cdeg := cd2 |}.
Proof.
  intros g s v t HC Hv Ht cur cn1 cd1 cn2 cd2.
  pose proof (node_comm g s v HC Hv) as Hcur. fold cur in Hcur.
  destruct (lc_n g s HC v cur Hcur) as [Hcurlt HvL].
  pose proof (lc_members g s HC) as HM.
  assert (Hkc1 : map fst cn1 = seq 0 (length (nodes g))).
  { unfold cn1. rewrite map_fst_aset; [apply (lc_kc g s HC)|].
    rewrite (lc_kc g s HC). apply in_seq. lia. }
  assert (Hkd1 : map fst cd1 = seq 0 (length (nodes g))).
  { unfold cd1. rewrite map_fst_aset; [apply (lc_kd g s HC)|].
    rewrite (lc_kd g s HC). apply in_seq. lia. }
  (* member list of the target before appending v *)
  set (X := agetd [] cn1 t).
  assert (HX : X = if Nat.eqb cur t then remove_nat v (agetd [] (cnodes s) cur)
                   else agetd [] (cnodes s) t).
  { unfold X, cn1. apply agetd_aset. }
  assert (HXnd : NoDup X).
  { rewrite HX. destruct (Nat.eqb cur t).
    - apply remove_nat_NoDup. apply HM.
    - apply HM. }
  assert (HXv : ~ In v X).
  { rewrite HX. destruct (Nat.eqb_spec cur t) as [E|E].
    - intro Hin. apply remove_nat_In in Hin. tauto.
    - intro Hin. apply HM in Hin. destruct Hin as [_ Hin]. congruence. }
  assert (HXm : forall u, In u X -> u <> v /\ In u (agetd [] (cnodes s) t)).
  { intros u Hu. split; [intro; subst u; tauto|]. rewrite HX in Hu.
    destruct (Nat.eqb_spec cur t) as [E|E].
    - apply remove_nat_In in Hu. subst t. tauto.
    - exact Hu. }
  assert (HL2 : forall c, agetd [] cn2 c =
            if Nat.eqb t c then X ++ [v]
            else if Nat.eqb cur c then remove_nat v (agetd [] (cnodes s) cur)
            else agetd [] (cnodes s) c).
  { intros c. unfold cn2. rewrite agetd_aset. fold X. unfold cn1. rewrite agetd_aset. reflexivity. }
  constructor; cbn [n2c cnodes cdeg].
  - rewrite map_fst_aset; [apply (lc_kn g s HC)|]. rewrite (lc_kn g s HC). exact Hv.
  - unfold cn2. rewrite map_fst_aset; [exact Hkc1|]. rewrite Hkc1. apply in_seq. lia.
  - unfold cd2. rewrite map_fst_aset; [exact Hkd1|]. rewrite Hkd1. apply in_seq. lia.
  - (* n2c -> cnodes *)
    intros u c Hu. rewrite aget_aset in Hu. rewrite HL2.
    destruct (Nat.eqb_spec v u) as [E|E].
    + inversion Hu; subst. rewrite Nat.eqb_refl. split; [exact Ht|].
      apply in_or_app. right. left. reflexivity.
    + destruct (lc_n g s HC u c Hu) as [Hc Hin]. split; [exact Hc|].
      destruct (Nat.eqb_spec t c) as [E1|E1].
      * apply in_or_app. left. rewrite HX. subst c.
        destruct (Nat.eqb_spec cur t) as [E2|E2].
        -- subst t. apply remove_nat_In. split; [exact Hin | congruence].
        -- exact Hin.
      * destruct (Nat.eqb_spec cur c) as [E2|E2].
        -- subst c. apply remove_nat_In. split; [exact Hin | congruence].
        -- exact Hin.
  - (* cnodes -> n2c *)
    intros c l Hl. unfold cn2 in Hl. rewrite aget_aset in Hl. fold X in Hl.
    destruct (Nat.eqb_spec t c) as [E1|E1].
    + inversion Hl; subst l c. split.
      * apply NoDup_app_snoc; assumption.
      * intros u Hu. rewrite aget_aset. apply in_app_or in Hu. destruct Hu as [Hu|[Hu|[]]].
        -- destruct (HXm u Hu) as [Hne Hin]. destruct (Nat.eqb_spec v u) as [E|E]; [congruence|].
           apply HM. exact Hin.
        -- subst u. rewrite Nat.eqb_refl. split; [exact Hv | reflexivity].
    + unfold cn1 in Hl. rewrite aget_aset in Hl. destruct (Nat.eqb_spec cur c) as [E2|E2].
      * inversion Hl; subst l c. split.
        -- apply remove_nat_NoDup. apply HM.
        -- intros u Hu. apply remove_nat_In in Hu. destruct Hu as [Hu Hne].
           rewrite aget_aset. destruct (Nat.eqb_spec v u) as [E|E]; [congruence|].
           apply HM. exact Hu.
      * destruct (lc_c g s HC c l Hl) as [Hnd Hmem]. split; [exact Hnd|].
        intros u Hu. destruct (Hmem u Hu) as [Hun Huc]. split; [exact Hun|].
        rewrite aget_aset. destruct (Nat.eqb_spec v u) as [E|E]; [|exact Huc].
        subst u. congruence.
  - (* cdeg *)
    intros c Hc. rewrite HL2. unfold cd2. rewrite aget_aset.
    assert (HD : forall k, k < length (nodes g) ->
                 agetd 0%Z (cdeg s) k = comm_deg g (agetd [] (cnodes s) k)).
    { intros k Hk. unfold agetd at 1. rewrite (lc_d g s HC k Hk). reflexivity. }
    assert (Hrem : comm_deg g (remove_nat v (agetd [] (cnodes s) cur))
                   = (comm_deg g (agetd [] (cnodes s) cur) - ldeg g v)%Z).
    { apply comm_deg_remove; [apply HM | exact HvL]. }
    destruct (Nat.eqb_spec t c) as [E1|E1].
    + subst c. f_equal. rewrite comm_deg_snoc. f_equal.
      unfold cd1. rewrite agetd_aset. rewrite HX.
      destruct (Nat.eqb_spec cur t) as [E2|E2].
      * rewrite Hrem. rewrite (HD cur Hcurlt). reflexivity.
      * apply HD. exact Ht.
    + unfold cd1. rewrite aget_aset. destruct (Nat.eqb_spec cur c) as [E2|E2].
      * f_equal. rewrite Hrem. rewrite (HD cur Hcurlt). reflexivity.
      * apply (lc_d g s HC c Hc).
Qed.

Lemma visit_consistent_pre : forall g s v t s' moved, lv_consistent g s -> In v (nodes g) ->
  visit g s v t = Some (s', moved) -> lv_consistent g s'.
Proof.
  intros g s v t s' moved HC Hv H. unfold visit in H.
  destruct (admissible g s v t) eqn:Hadm; [|discriminate H].
  pose proof (admissible_lt g s v t HC Hv Hadm) as Ht.
  inversion H; subst s' moved. apply visit_consistent_aux; assumption.
Qed.

Lemma sweep_consistent : forall g vs ch s imp s' imp',
  (forall v, In v vs -> In v (nodes g)) -> lv_consistent g s ->
  sweep g vs ch s imp = Some (s', imp') -> lv_consistent g s'.
Proof.
  intros g vs. induction vs as [|v vs' IH]; intros ch s imp s' imp' Hvs HC H.
  - destruct ch as [|t ch']; simpl in H; [|discriminate H]. inversion H; subst. exact HC.
  - destruct ch as [|t ch']; simpl in H; [discriminate H|].
    destruct (visit g s v t) as [[s1 moved]|] eqn:Hvis; [|discriminate H].
    apply (IH ch' s1 (imp || moved)%bool s' imp').
    + intros u Hu. apply Hvs. right. exact Hu.
    + apply (visit_consistent_pre g s v t s1 moved HC); [|exact Hvis]. apply Hvs. left. reflexivity.
    + exact H.
Qed.

Lemma sweeps_consistent_pre : forall g passes s it s' it', lv_consistent g s ->
  sweeps g passes s it = Some (s', it') -> lv_consistent g s'.
Proof.
  intros g passes. induction passes as [|p rest IH]; intros s it s' it' HC H; simpl in H.
  - discriminate H.
  - destruct (sweep g (nodes g) p s false) as [[s1 improved]|] eqn:Hsw; [|discriminate H].
    assert (HC1 : lv_consistent g s1).
    { apply (sweep_consistent g (nodes g) p s false s1 improved); auto. }
    destruct improved.
    + apply (IH s1 (S it) s' it' HC1 H).
    + destruct rest; [|discriminate H]. inversion H; subst. exact HC1.
Qed.

(* E. number of iterations = number of oracle passes *)
Lemma sweeps_iterations : forall g passes s it s' it',
  sweeps g passes s it = Some (s', it') -> it' = it + length passes.
Proof.
  intros g passes. induction passes as [|p rest IH]; intros s it s' it' H; simpl in H.
  - discriminate H.
  - destruct (sweep g (nodes g) p s false) as [[s1 improved]|]; [|discriminate H].
    destruct improved.
    + apply IH in H. simpl. lia.
    + destruct rest; [|discriminate H]. inversion H; subst. simpl. lia.
Qed.

(* ------------------------------------------------------------------ *)
(* B. the communities of a consistent state partition the node set      *)

Definition nonempty_b (c : list nat) : bool := match c with [] => false | _ => true end.

Lemma concat_filter_nonempty : forall ls : list (list nat),
  concat (filter nonempty_b ls) = concat ls.
Proof.
  induction ls as [|[|x r] ls' IH]; simpl.
  - reflexivity.
  - exact IH.
  - rewrite IH. reflexivity.
Qed.

Lemma In_concat_snd : forall (cn : list (nat * list nat)) u,
  In u (concat (map snd cn)) <-> exists c l, In (c, l) cn /\ In u l.
Proof.
  intros cn u. rewrite in_concat. split.
  - intros [l [Hl Hu]]. apply in_map_iff in Hl. destruct Hl as [[c l'] [E Hin]]. simpl in E. subst l'.
    exists c, l. split; assumption.
  - intros [c [l [Hin Hu]]]. exists l. split; [|exact Hu].
    change l with (snd (c, l)). apply in_map. exact Hin.
Qed.

Lemma NoDup_concat_assoc : forall (m : list (nat * nat)) (cn : list (nat * list nat)),
  NoDup (map fst cn) ->
  (forall c l, In (c, l) cn -> NoDup l /\ forall u, In u l -> aget m u = Some c) ->
  NoDup (concat (map snd cn)).
Proof.
  intros m cn. induction cn as [|[c l] r IH]; intros Hk HP; simpl.
  - constructor.
  - inversion Hk as [|c' r' Hnot Hk']; subst. apply NoDup_app_intro.
    + apply (HP c l). left. reflexivity.
    + apply IH; [exact Hk'|]. intros c2 l2 Hin. apply HP. right. exact Hin.
    + intros u Hu Hu2. apply In_concat_snd in Hu2. destruct Hu2 as [c2 [l2 [Hin2 Hu2]]].
      assert (E1 : aget m u = Some c). { apply (HP c l); [left; reflexivity | exact Hu]. }
      assert (E2 : aget m u = Some c2). { apply (HP c2 l2); [right; exact Hin2 | exact Hu2]. }
      assert (c = c2) by congruence. subst c2. apply Hnot.
      change c with (fst (c, l2)). apply in_map. exact Hin2.
Qed.

Lemma consistent_partition : forall g s, NoDup (nodes g) -> lv_consistent g s ->
  Permutation (concat (filter nonempty_b (map snd (cnodes s)))) (nodes g).
Proof.
  intros g s Hnd HC. rewrite concat_filter_nonempty.
  assert (Hk : NoDup (map fst (cnodes s))). { rewrite (lc_kc g s HC). apply seq_NoDup. }
  apply NoDup_Permutation.
  - apply (NoDup_concat_assoc (n2c s)); [exact Hk|].
    intros c l Hin. apply (In_aget _ _ _ Hk) in Hin.
    destruct (lc_c g s HC c l Hin) as [H1 H2]. split; [exact H1|]. intros u Hu. apply H2. exact Hu.
  - exact Hnd.
  - intros u. rewrite In_concat_snd. split.
    + intros [c [l [Hin Hu]]]. apply (In_aget _ _ _ Hk) in Hin.
      apply (lc_c g s HC c l Hin). exact Hu.
    + intros Hu. pose proof (node_comm g s u HC Hu) as Hc.
      destruct (lc_n g s HC u _ Hc) as [_ Hin]. unfold agetd in Hin.
      destruct (aget (cnodes s) (comm_of s u)) as [l|] eqn:E; [|destruct Hin].
      exists (comm_of s u), l. split; [apply aget_In; exact E | exact Hin].
Qed.

Lemma filter_nonempty_ne : forall (ls : list (list nat)) c, In c (filter nonempty_b ls) -> c <> [].
Proof.
  intros ls c H. apply filter_In in H. destruct H as [_ H]. intro E. subst c. discriminate H.
Qed.

Lemma concat_singletons : forall l : list nat, concat (map (fun v => [v]) l) = l.
Proof.
  induction l as [|x r IH]; simpl; [reflexivity | f_equal; exact IH].
Qed.

Lemma singletons_ne : forall (l : list nat) c, In c (map (fun v => [v]) l) -> c <> [].
Proof.
  intros l c Hc. apply in_map_iff in Hc. destruct Hc as [x [E _]]. subst c. discriminate.
Qed.

Lemma louvain_partition_pre : forall g res passes r, valid_graph g = true ->
  louvain g res passes = Some r ->
  (forall c, In c (l_comms r) -> c <> []) /\ Permutation (concat (l_comms r)) (nodes g).
Proof.
  intros g res passes r Hv H. pose proof (linit_consistent g Hv) as HC0.
  unfold valid_graph in Hv. apply nodup_b_NoDup in Hv.
  unfold louvain in H. destruct (nodes g) as [|a [|b rest]] eqn:En.
  - inversion H; subst r. simpl. split; [intros c [] | constructor].
  - inversion H; subst r. simpl. split.
    + intros c [E|[]]. subst c. discriminate.
    + apply Permutation_refl.
  - destruct (Qeq_bool (total_weight g) 0).
    + inversion H; subst r. cbn [l_comms]. split.
      * apply (singletons_ne (a :: b :: rest)).
      * change (Permutation (concat (map (fun v => [v]) (a :: b :: rest))) (a :: b :: rest)).
        rewrite concat_singletons. apply Permutation_refl.
    + destruct (sweeps g passes (linit g) 0) as [[s it]|] eqn:Hsw; [|discriminate H].
      inversion H; subst r. cbn [l_comms].
      pose proof (sweeps_consistent_pre g passes (linit g) 0 s it HC0 Hsw) as HC.
      split.
      * apply filter_nonempty_ne.
      * rewrite <- En. apply consistent_partition; [rewrite En; exact Hv | exact HC].
Qed.

(* C. definitional for the model: `louvain` computes l_objective with the modularity formula *)
Lemma louvain_modularity_pre : forall g res passes r, louvain g res passes = Some r ->
  ((total_weight g == 0)%Q \/ length (nodes g) <= 1 -> (l_objective r == 0)%Q) /\
  (~ (total_weight g == 0)%Q -> 2 <= length (nodes g) ->
   (l_objective r == modularity g res (l_comms r))%Q).
Proof.
  intros g res passes r H. unfold louvain in H. destruct (nodes g) as [|a [|b rest]] eqn:En.
  - inversion H; subst r. simpl. split; [intros _; reflexivity | intros _ Hl; lia].
  - inversion H; subst r. simpl. split; [intros _; reflexivity | intros _ Hl; lia].
  - destruct (Qeq_bool (total_weight g) 0) eqn:Eq.
    + apply Qeq_bool_iff in Eq. inversion H; subst r. cbn [l_objective]. split.
      * intros _. reflexivity.
      * intros Hne. contradiction.
    + apply Qeq_bool_neq in Eq.
      destruct (sweeps g passes (linit g) 0) as [[s it]|]; [|discriminate H].
      inversion H; subst r. cbn [l_objective l_comms]. split.
      * intros [H0|Hl]; [contradiction | simpl in Hl; lia].
      * intros _ _. apply Qred_correct.
Qed.

Lemma louvain_iterations : forall g res passes r, louvain g res passes = Some r ->
  ~ (total_weight g == 0)%Q -> 2 <= length (nodes g) -> l_iterations r = length passes.
Proof.
  intros g res passes r H Hne Hl. unfold louvain in H.
  destruct (nodes g) as [|a [|b rest]] eqn:En; [simpl in Hl; lia | simpl in Hl; lia |].
  destruct (Qeq_bool (total_weight g) 0) eqn:Eq.
  - apply Qeq_bool_iff in Eq. contradiction.
  - destruct (sweeps g passes (linit g) 0) as [[s it]|] eqn:Hsw; [|discriminate H].
    inversion H; subst r. cbn [l_iterations]. apply sweeps_iterations in Hsw. lia.
Qed.

(* ------------------------------------------------------------------ *)
(* D. soundness of the boolean checkers                                 *)

Lemma is_partition_b_sound_pre : forall g cs, valid_graph g = true -> is_partition_b g cs = true ->
  (forall c, In c cs -> c <> []) /\ NoDup (concat cs) /\
  (forall v, In v (concat cs) <-> In v (nodes g)).
Proof.
  intros g cs _ H. unfold is_partition_b in H.
  apply andb_true_iff in H. destruct H as [H H3]. apply andb_true_iff in H. destruct H as [H1 H2].
  split; [|split].
  - intros c Hc E. subst c. rewrite forallb_forall in H1. specialize (H1 [] Hc). discriminate H1.
  - apply nodup_b_NoDup. exact H2.
  - unfold set_eqb in H3. apply andb_true_iff in H3. destruct H3 as [Ha Hb].
    intros v. split; apply incl_b_incl; assumption.
Qed.

Lemma lv_spec_check_sound_pre : forall eps g res cs obj, lv_spec_check eps g res cs obj = true ->
  is_partition_b g cs = true /\
  (~ (total_weight g == 0)%Q -> (Qabs (modularity g res cs - obj) <= eps)%Q) /\
  ((total_weight g == 0)%Q -> (obj == 0)%Q).
Proof.
  intros eps g res cs obj H. unfold lv_spec_check in H.
  apply andb_true_iff in H. destruct H as [H1 H2]. split; [exact H1|].
  destruct (Qeq_bool (total_weight g) 0) eqn:Eq.
  - apply Qeq_bool_iff in Eq. split; [intros Hne; contradiction|].
    intros _. apply Qeq_bool_iff. exact H2.
  - apply Qeq_bool_neq in Eq. split; [|intros H0; contradiction].
    intros _. apply Qle_bool_iff. exact H2.
Qed.

(* non-vacuity: a valid graph (path 0-1-2) and an accepted oracle sequence with real moves *)
Example louvain_nonvacuous :
  let g := [(0, [1]); (1, [2]); (2, [])] in
  valid_graph g = true /\
  option_map l_comms (louvain g 1%Q [[1; 1; 1]; [1; 1; 1]]) = Some [[0; 1; 2]] /\
  option_map l_iterations (louvain g 1%Q [[1; 1; 1]; [1; 1; 1]]) = Some 2.
Proof. vm_compute. repeat split. Qed.

(* ------------------------------------------------------------------ *)
(* final statements                                                     *)

Theorem visit_consistent : forall g s v t s' moved, lv_consistent g s -> In v (nodes g) ->
  visit g s v t = Some (s', moved) -> lv_consistent g s'.
Proof. exact visit_consistent_pre. Qed.
Print Assumptions visit_consistent.

Theorem sweeps_consistent : forall g passes s it s' it', lv_consistent g s ->
  sweeps g passes s it = Some (s', it') -> lv_consistent g s'.
Proof. exact sweeps_consistent_pre. Qed.
Print Assumptions sweeps_consistent.

Theorem louvain_partition : forall g res passes r, valid_graph g = true ->
  louvain g res passes = Some r ->
  (forall c, In c (l_comms r) -> c <> []) /\ Permutation (concat (l_comms r)) (nodes g).
Proof. exact louvain_partition_pre. Qed.
Print Assumptions louvain_partition.

Theorem louvain_modularity : forall g res passes r, louvain g res passes = Some r ->
  ((total_weight g == 0)%Q \/ length (nodes g) <= 1 -> (l_objective r == 0)%Q) /\
  (~ (total_weight g == 0)%Q -> 2 <= length (nodes g) ->
   (l_objective r == modularity g res (l_comms r))%Q).
Proof. exact louvain_modularity_pre. Qed.
Print Assumptions louvain_modularity.

Theorem is_partition_b_sound : forall g cs, valid_graph g = true -> is_partition_b g cs = true ->
  (forall c, In c cs -> c <> []) /\ NoDup (concat cs) /\
  (forall v, In v (concat cs) <-> In v (nodes g)).
Proof. exact is_partition_b_sound_pre. Qed.
Print Assumptions is_partition_b_sound.

Theorem lv_spec_check_sound : forall eps g res cs obj, lv_spec_check eps g res cs obj = true ->
  is_partition_b g cs = true /\
  (~ (total_weight g == 0)%Q -> (Qabs (modularity g res cs - obj) <= eps)%Q) /\
  ((total_weight g == 0)%Q -> (obj == 0)%Q).
Proof. exact lv_spec_check_sound_pre. Qed.
Print Assumptions lv_spec_check_sound.

(* combined forms used by Props/C15.v *)
Lemma louvain_consistent_run : forall g passes s' it', valid_graph g = true ->
  sweeps g passes (linit g) 0 = Some (s', it') -> lv_consistent g s'.
Proof.
  intros g passes s' it' Hv H.
  exact (sweeps_consistent g passes (linit g) 0 s' it' (linit_consistent g Hv) H).
Qed.

Lemma lv_spec_check_sound_full : forall eps g res cs obj, valid_graph g = true ->
  lv_spec_check eps g res cs obj = true ->
  ((forall c, In c cs -> c <> []) /\ NoDup (concat cs) /\ (forall v, In v (concat cs) <-> In v (nodes g))) /\
  (~ (total_weight g == 0)%Q -> (Qabs (modularity g res cs - obj) <= eps)%Q) /\
  ((total_weight g == 0)%Q -> (obj == 0)%Q).
Proof.
  intros eps g res cs obj Hv H.
  destruct (lv_spec_check_sound eps g res cs obj H) as [Hp Hrest].
  split; [exact (is_partition_b_sound g cs Hv Hp) | exact Hrest].
Qed.
