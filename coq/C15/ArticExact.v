(* Exact correctness of the low-link DFS model of solvor/articulation.py (Artic.v):
   the reported articulation points are exactly the cut vertices and the reported bridges are exactly
   the (canonically oriented) bridges of the symmetrised simple graph, for every valid input.

   Layers:  ArticExactConn1/ArticExactConn  - counting definitions <-> separation (graph theory only)
            ArticExactBase                   - connP, sealed sets, chains, frame relation ext
            ArticExactInv                    - invariants Good / NB / Post / LI, LI_enter
            ArticExactStep                   - one child iteration (recursive call + after_child)
            ArticExactLoop                   - other iterations, end of loop, fuel induction, roots. *)
From Coq Require Import List Arith Bool Relations Lia.
From SV Require Import C15.Graph C15.ArticSpec C15.Artic C15.ArticSpecProofs C15.ArticProofs
  C15.ArticExactConn C15.ArticExactBase C15.ArticExactInv C15.ArticExactStep C15.ArticExactLoop.
Import ListNotations.

Lemma CutSep_iff : forall g v, CutSep g v <-> is_cut_vertex g v.
Proof. intros g v. unfold CutSep. symmetry. apply cut_vertex_separation_iff. Qed.

Lemma BridgeSep_iff : forall g a b, BridgeSep g a b <-> is_bridge g a b.
Proof. intros g a b. unfold BridgeSep. symmetry. apply bridge_separation_iff. Qed.

(* the final state: everything discovered, nothing open *)
Lemma run_final : forall g s, valid_graph g = true -> run g = Some s ->
  Good g s [] /\ NB g noexc s [] /\ (forall v, In v (nodes g) -> dsc s v).
Proof.
  intros g s Hg H. unfold run in H.
  destruct (Good_ainit g) as [G0 N0].
  destruct (roots_spec2 g _ Hg (nodes g) ainit s (incl_refl _) G0 N0 H) as [G1 N1].
  destruct (roots_inv g _ Hg (nodes g) ainit s (incl_refl _) (Inv_ainit g) H) as (_ & _ & Hall).
  split; [exact G1|]. split; [exact N1 | exact Hall].
Qed.

Theorem artic_points_exact : forall g s, valid_graph g = true -> run g = Some s ->
  forall v, In v (aps s) <-> is_cut_vertex g v.
Proof.
  intros g s Hg H v. destruct (run_final g s Hg H) as (G1 & _ & Hall). split.
  - intro Hv. apply CutSep_iff. exact (g_aps G1 v Hv).
  - intro Hc. apply CutSep_iff in Hc. pose proof Hc as [Hv _].
    destruct (g_nocut G1 v (Hall v Hv) (fun F => F)) as [Hin|Hnc]; [exact Hin|].
    exfalso. exact (NonCut_not_CutSep g v Hnc Hc).
Qed.

Theorem artic_bridges_exact : forall g s, valid_graph g = true -> run g = Some s ->
  forall a b, In (a, b) (brs s) <-> (a < b /\ is_bridge g a b).
Proof.
  intros g s Hg H a b. destruct (run_final g s Hg H) as (G1 & N1 & Hall). split.
  - intro Hab. split.
    + destruct (g_inv G1) as (_ & _ & H3 & _). exact (proj1 (H3 a b Hab)).
    + apply BridgeSep_iff. exact (g_brs G1 a b Hab).
  - intros [Hlt Hbr]. apply BridgeSep_iff in Hbr. pose proof Hbr as [He Hn].
    destruct (edge_b_nodes g a b He) as (Na & Nb & Hne).
    pose proof (Hall a Na) as Da. pose proof (Hall b Nb) as Db.
    assert (Hcan : canon a b = (a, b)) by (unfold canon; apply Nat.ltb_lt in Hlt; rewrite Hlt; reflexivity).
    destruct (lt_eq_lt_dec (discd s a) (discd s b)) as [[Hd|Hd]|Hd].
    + rewrite edge_b_sym in He.
      destruct (N1 b a Db (fun F => F) He Hd) as [[]|[Hin|Hc]].
      * rewrite <- (canon_sym a b Hne), Hcan in Hin. exact Hin.
      * exfalso. apply Hn. apply conn_without_edge_swap.
        apply conn_sym; [apply without_edge_sym | exact Hc].
    + exfalso. unfold dsc in Da, Db.
      destruct (aget (disc s) a) as [da|] eqn:Ea; [|congruence].
      destruct (aget (disc s) b) as [db|] eqn:Eb; [|congruence].
      rewrite (discd_Some s a da Ea), (discd_Some s b db Eb) in Hd. subst db.
      exact (Hne (g_inj G1 a b da Ea Eb)).
    + destruct (N1 a b Da (fun F => F) He Hd) as [[]|[Hin|Hc]].
      * rewrite Hcan in Hin. exact Hin.
      * exfalso. exact (Hn Hc).
Qed.

(* non-vacuity: a path 0-1-2 with a pendant triangle 2-3-4; cut vertices 1 and 2, bridges (0,1),(1,2) *)
Example exact_example :
  let g := [(0, [1]); (1, [2]); (2, [3; 4]); (3, [4]); (4, [])] in
  valid_graph g = true /\
  match run g with Some s => aps s = [2; 1] /\ brs s = [(1, 2); (0, 1)] | None => False end.
Proof. vm_compute. repeat split. Qed.

Print Assumptions artic_points_exact.
Print Assumptions artic_bridges_exact.
