(* Exactness of the low-link DFS model, part 4: the remaining loop iterations (discovered neighbour),
   the end of the loop (postcondition of dfs), the induction over the fuel, and the scan over roots. *)
From Coq Require Import List Arith Bool Relations Lia.
From SV Require Import C15.Graph C15.ArticSpec C15.Artic C15.ArticSpecProofs C15.ArticProofs
  C15.ArticExactBase C15.ArticExactInv C15.ArticExactStep.
Import ListNotations.

(* ---------- discovered neighbour: the parent is skipped *)
Lemma LI_skip : forall g v stk po s0 w ws' c s,
  LI g v stk po s0 (w :: ws') c s -> dsc s w -> po = Some w -> LI g v stk po s0 ws' c s.
Proof.
  intros g v stk po s0 w ws' c s [A B C D E F G' H I J K] Hw Hpo.
  constructor; try assumption.
  - intros y Hey Hny. destruct (Nat.eq_dec y w) as [Eq|Ne]; [subst y; exact Hw|].
    apply (F y Hey). intros [Hin|Hin]; auto.
  - intros x y Hx Hexy Hc. apply (H x y Hx Hexy). intro Exv. destruct (Hc Exv) as [Hny Hp].
    split; [|exact Hp]. intros [Hin|Hin]; [|exact (Hny Hin)]. subst y. exact (Hp Hpo).
Qed.

(* ---------- discovered neighbour, not the parent: low[v] = min(low[v], disc[w]) *)
Lemma LI_back : forall g v stk po s0 w ws' c s dw,
  aget (disc s0) v = None -> edge_b g v w = true ->
  LI g v stk po s0 (w :: ws') c s -> aget (disc s) w = Some dw -> po <> Some w ->
  LI g v stk po s0 ws' c (set_low s v (Nat.min (lowd s v) dw)).
Proof.
  intros g v stk po s0 w ws' c s dw H0v He [A B C D E F G' H I J K] Hw Hpo.
  assert (Hdw : dsc s w) by (unfold dsc; rewrite Hw; discriminate).
  assert (Hdv : dsc s v) by (unfold dsc; rewrite D; discriminate).
  assert (Hlow : lowd (set_low s v (Nat.min (lowd s v) dw)) v = Nat.min (lowd s v) dw).
  { unfold lowd at 1, agetd. simpl. rewrite aget_aset_same. reflexivity. }
  assert (Hd : forall t z, discd (set_low s v t) z = discd s z) by reflexivity.
  constructor.
  - apply Good_set_low. exact A.
  - exact B.
  - apply ext_trans with s; [exact C | apply ext_set_low].
  - exact D.
  - exact E.
  - intros y Hey Hny. destruct (Nat.eq_dec y w) as [Eq|Ne]; [subst y; exact Hdw|].
    apply (F y Hey). intros [Hin|Hin]; auto.
  - exact G'.
  - intros x y Hx Hexy Hc. rewrite Hlow.
    rewrite Hd.
    destruct (Nat.eq_dec x v) as [Exv|Exv].
    + destruct (Hc Exv) as [Hny Hp]. destruct (Nat.eq_dec y w) as [Eq|Ne].
      * subst y. rewrite (discd_Some s w dw Hw). lia.
      * assert (Hl : lowd s v <= discd s y).
        { apply (H x y Hx Hexy). intros _. split; [|exact Hp]. intros [Hin|Hin]; auto. }
        lia.
    + assert (Hl : lowd s v <= discd s y) by (apply (H x y Hx Hexy); intro Eq; contradiction). lia.
  - rewrite Hlow. destruct (le_lt_dec (lowd s v) dw) as [Hle|Hlt].
    + rewrite Nat.min_l by exact Hle. exact I.
    + rewrite Nat.min_r by lia. right. exists v, w.
      split; [split; [exact H0v | exact Hdv]|]. split; [exact He|].
      split; [intros [_ Ep]; exact (Hpo Ep)|]. split; [exact Hdw|].
      rewrite Hd, (discd_Some s w dw Hw). lia.
  - exact J.
  - exact K.
Qed.

(* ---------- the end of the loop of v *)
Lemma Dn_dec : forall s0 s a, Dn s0 s a \/ ~ Dn s0 s a.
Proof.
  intros s0 s a. unfold Dn. destruct (aget (disc s0) a) as [d|] eqn:E.
  - right. intros [H _]. discriminate.
  - destruct (dsc_dec s a) as [H|H]; [left; auto | right; intros [_ H']; exact (H' H)].
Qed.

Section Finish.
Variable g : graph.
Variables (v : nat) (stk : list nat) (po : option nat) (s0 s' : ast) (children : nat).
Hypothesis Hv : In v (nodes g).
Hypothesis H0v : aget (disc s0) v = None.
Hypothesis G0 : Good g s0 stk.
Hypothesis Htop : stk_top g v stk po.
Hypothesis L : LI g v stk po s0 [] children s'.

Lemma f_dscv : dsc s' v.
Proof. unfold dsc. rewrite (li_discv L). discriminate. Qed.

Lemma f_Dn_v : Dn s0 s' v.
Proof. split; [exact H0v | exact f_dscv]. Qed.

Lemma f_v_notstk : ~ In v stk.
Proof. intro Hin. exact (g_stk G0 v Hin H0v). Qed.

Lemma f_closed : forall x y, dsc s' x -> ~ In x stk -> edge_b g x y = true -> dsc s' y.
Proof.
  intros x y Hx Hns Hexy. destruct (Nat.eq_dec x v) as [E|E].
  - subst x. exact (li_seen L y Hexy (fun H => H)).
  - apply (g_closed (li_good L) x y Hx); [|exact Hexy]. intros [Hin|Hin]; auto.
Qed.

Lemma f_esc : forall x y, Dn s0 s' x -> edge_b g x y = true -> Dn s0 s' y \/ In y stk.
Proof.
  intros x y [Hx Hx'] Hexy.
  assert (Hns : ~ In x stk). { intro Hin. exact (g_stk G0 x Hin Hx). }
  pose proof (f_closed x y Hx' Hns Hexy) as Hy'.
  destruct (aget (disc s0) y) as [d|] eqn:E; [|left; split; assumption].
  destruct (in_dec Nat.eq_dec y stk) as [Hin|Hout]; [right; exact Hin|].
  exfalso. assert (Hy : dsc s0 y) by (unfold dsc; rewrite E; discriminate).
  rewrite edge_b_sym in Hexy. exact (g_closed G0 y x Hy Hout Hexy Hx).
Qed.

(* the component of v: discovered during the call, or attached to the stack avoiding v *)
Lemma f_comp : forall a, conn (nodes g) (edge_b g) a v ->
  Dn s0 s' a \/ exists y, In y stk /\ conn (without_vertex g v) (edge_b g) a y.
Proof.
  assert (Hgen : forall a b,
    clos_refl_trans_1n nat (fun x y => In x (nodes g) /\ In y (nodes g) /\ edge_b g x y = true) a b ->
    b = v -> Dn s0 s' a \/ exists y, In y stk /\ conn (without_vertex g v) (edge_b g) a y).
  { intros a b H. induction H as [a | a a1 b Hstep Hrest IH]; intro Eb.
    - subst a. left. exact f_Dn_v.
    - destruct Hstep as (Na & Na1 & Hexy).
      destruct (Dn_dec s0 s' a) as [Ha|Ha]; [left; exact Ha|]. right.
      assert (Hav : a <> v) by (intro E; subst a; exact (Ha f_Dn_v)).
      destruct (Dn_dec s0 s' a1) as [Ha1|Ha1].
      + rewrite edge_b_sym in Hexy. destruct (f_esc a1 a Ha1 Hexy) as [Hd|Hin]; [contradiction|].
        exists a. split; [exact Hin | apply rt_refl].
      + destruct (IH Eb) as [Hd|(y & Hy & Hc)]; [contradiction|].
        assert (Ha1v : a1 <> v) by (intro E; subst a1; exact (Ha1 f_Dn_v)).
        exists y. split; [exact Hy|]. apply conn_trans with a1; [|exact Hc].
        apply rt_step. rewrite !without_vertex_In. auto. }
  intros a H. apply clos_rt_rt1n in H. exact (Hgen a v H eq_refl).
Qed.

Lemma f_stk_to_top : forall p r y, stk = p :: r -> In y stk ->
  conn (without_vertex g v) (edge_b g) y p.
Proof.
  intros p r y Estk Hy. apply conn_sym; [apply edge_b_sym|].
  apply (connP_conn_vertex g v (fun z => In z (p :: r)) p y).
  - intros z Hz E. subst z. apply f_v_notstk. rewrite Estk. exact Hz.
  - apply chain_connP; [rewrite <- Estk; exact (g_chain G0) | rewrite <- Estk; exact Hy].
Qed.

Lemma f_nocut_v : In v (aps s') \/ NonCut g v.
Proof.
  pose proof (li_nocut L) as Hold. destruct (option_case po) as [Epo|[p Epo]]; rewrite Epo in Hold.
  - assert (Estk : stk = []) by (apply (stk_top_none g v); rewrite <- Epo; exact Htop).
    destruct Hold as [[Hc Hall] | [[Hc [w1 Hall]] | [Hc Hin]]].
    + right. exists v. intros a Hav Hca. exfalso.
      destruct (f_comp a Hca) as [Ha|(y & Hy & _)]; [exact (Hav (Hall a Ha))|].
      rewrite Estk in Hy. destruct Hy.
    + right. exists w1. intros a Hav Hca.
      destruct (f_comp a Hca) as [Ha|(y & Hy & _)]; [exact (Hall a Ha Hav)|].
      rewrite Estk in Hy. destruct Hy.
    + left. exact Hin.
  - pose proof Htop as Ht. rewrite Epo in Ht.
    destruct (stk_top_some g v stk p Ht) as (r & Estk & Hvp).
    destruct Hold as [Hin|Hall]; [left; exact Hin|]. right. exists p. intros a Hav Hca.
    destruct (f_comp a Hca) as [Ha|(y & Hy & Hcy)]; [exact (Hall a Ha Hav)|].
    apply conn_trans with y; [exact Hcy | exact (f_stk_to_top p r y Estk Hy)].
Qed.

Lemma f_good : Good g s' stk.
Proof.
  pose proof (li_good L) as [A B C D E F G' H]. constructor; try assumption.
  - intros x Hx. apply C. right. exact Hx.
  - exact (chain_tail _ v stk D).
  - exact f_closed.
  - intros x Hx Hns. destruct (Nat.eq_dec x v) as [Eq|Ne]; [subst x; exact f_nocut_v|].
    apply (H x Hx). intros [Hin|Hin]; auto.
Qed.

Lemma f_nb : NB g (pexc v po) s' stk.
Proof.
  intros x y Hx Hns Hexy Hlt. destruct (Nat.eq_dec x v) as [Exv|Exv].
  - subst x. rewrite (discd_Some s' v _ (li_discv L)) in Hlt.
    pose proof (f_closed v y Hx Hns Hexy) as Hy'.
    assert (Hy0 : dsc s0 y).
    { unfold dsc. intro E. unfold dsc in Hy'. destruct (aget (disc s') y) as [d|] eqn:E'; [|congruence].
      rewrite (discd_Some s' y d E') in Hlt. pose proof (e_new (li_ext L) y d E E'). lia. }
    assert (Hin : In y stk).
    { destruct (in_dec Nat.eq_dec y stk) as [Hin|Hout]; [exact Hin|]. exfalso.
      rewrite edge_b_sym in Hexy. exact (g_closed G0 y v Hy0 Hout Hexy H0v). }
    destruct (option_case po) as [Epo|[p Epo]].
    + exfalso. assert (Estk : stk = []) by (apply (stk_top_none g v); rewrite <- Epo; exact Htop).
      rewrite Estk in Hin. destruct Hin.
    + pose proof Htop as Ht. rewrite Epo in Ht.
      destruct (stk_top_some g v stk p Ht) as (r & Estk & Hvp).
      destruct (Nat.eq_dec p y) as [Epy|Epy]; [left; split; [reflexivity | rewrite Epo, Epy; reflexivity]|].
      right. right. destruct (edge_b_nodes g v p Hvp) as (Nv & Np & Hne).
      destruct (edge_b_nodes g v y Hexy) as (_ & _ & Hvy).
      apply conn_trans with p.
      * apply rt_step. split; [exact Nv|]. split; [exact Np|]. apply without_edge_true.
        split; [exact Hvp|]. split; intros [E1 E2]; auto.
      * apply (connP_conn_edge g v y (fun z => In z (p :: r)) p y).
        -- left. rewrite <- Estk. exact f_v_notstk.
        -- apply chain_connP; [rewrite <- Estk; exact (g_chain G0) | rewrite <- Estk; exact Hin].
  - destruct (li_nb L x y Hx) as [[]|Hr]; [intros [Hin|Hin]; auto | exact Hexy | exact Hlt |].
    right. exact Hr.
Qed.

Lemma f_post : Post g s0 s' v po.
Proof.
  constructor.
  - exact (li_discv L).
  - exact (li_tree L).
  - intros x y Hx Hexy Hn. apply (li_lu L x y Hx Hexy). intro E.
    split; [intro H; exact H | intro Hpo; apply Hn; split; assumption].
  - exact (li_ll L).
Qed.

End Finish.

(* ---------- the specification of one call, by induction on the fuel *)
Definition dfs_spec2 (g : graph) (f : nat) : Prop :=
  forall v s s' stk po, In v (nodes g) -> aget (disc s) v = None ->
    Good g s stk -> NB g noexc s stk -> aget (par s) v = Some po -> stk_top g v stk po ->
    dfs f g v s = Some s' ->
    Good g s' stk /\ NB g (pexc v po) s' stk /\ ext v s s' /\ Post g s s' v po.

Lemma loop_spec2 : forall g f v stk po s0, dfs_spec2 g f ->
  In v (nodes g) -> aget (disc s0) v = None -> Good g s0 stk -> stk_top g v stk po ->
  forall ws c s s', (forall w, In w ws -> edge_b g v w = true) ->
    LI g v stk po s0 ws c s -> dfs_loop (dfs f g) v ws c s = Some s' ->
    exists c', LI g v stk po s0 [] c' s'.
Proof.
  intros g f v stk po s0 IHf Hv H0v G0 Htop. induction ws as [|w ws IH]; intros c s s' Hws L H; simpl in H.
  - injection H as H. subst s'. exists c. exact L.
  - assert (He : edge_b g v w = true) by (apply Hws; left; reflexivity).
    assert (Hws' : forall w0, In w0 ws -> edge_b g v w0 = true)
      by (intros w0 Hw0; apply Hws; right; exact Hw0).
    destruct (aget (disc s) w) as [dw|] eqn:Hd.
    + assert (Hdw : dsc s w) by (unfold dsc; rewrite Hd; discriminate).
      destruct (parent_is s v w) eqn:Hp.
      * apply (parent_is_po s v w po (li_par L)) in Hp.
        exact (IH c s s' Hws' (LI_skip g v stk po s0 w ws c s L Hdw Hp) H).
      * assert (Hpo : po <> Some w).
        { intro E. apply (parent_is_po s v w po (li_par L)) in E. congruence. }
        exact (IH c _ s' Hws' (LI_back g v stk po s0 w ws c s dw H0v He L Hd Hpo) H).
    + destruct (dfs f g w (set_par s w (Some v))) as [a|] eqn:Hr; [|discriminate].
      destruct (edge_b_nodes g v w He) as (_ & Hw & _).
      assert (Htop' : stk_top g w (v :: stk) (Some v)).
      { simpl. split; [reflexivity | rewrite edge_b_sym; exact He]. }
      assert (Hpar : aget (par (set_par s w (Some v))) w = Some (Some v))
        by (simpl; apply aget_aset_same).
      destruct (IHf w (set_par s w (Some v)) a (v :: stk) (Some v) Hw Hd
                  (Good_set_par g s (v :: stk) w (Some v) (li_good L))
                  (NB_set_par g noexc s (v :: stk) w (Some v) (li_nb L)) Hpar Htop' Hr)
        as (G1 & N1 & X1 & P1).
      apply (IH (S c) (after_child a v w (S c)) s' Hws'); [|exact H].
      apply (LI_child g v stk po s0 s a w ws c Hv H0v G0 Htop L Hd He G1 N1).
      * intro u. exact (ext_child u w (Some v) s a Hd X1).
      * exact (Post_set_par g s a w (Some v) w (Some v) P1).
Qed.

Lemma dfs_spec2_all : forall g, valid_graph g = true -> forall f, dfs_spec2 g f.
Proof.
  intros g Hg f. induction f as [|f IHf]; intros v s s' stk po Hv H0v G0 N0 Hpar Htop H.
  - discriminate.
  - rewrite dfs_S in H.
    destruct (loop_spec2 g f v stk po s IHf Hv H0v G0 Htop (uadj g v) 0 (enter s v) s') as [c' L].
    + intros w Hw. apply (uadj_In g v w Hv). exact Hw.
    + apply LI_enter; assumption.
    + exact H.
    + split; [apply (f_good g v stk po s s' c'); assumption|].
      split; [apply (f_nb g v stk po s s' c'); assumption|].
      split; [exact (li_ext L) | apply (f_post g v stk po s s' c'); assumption].
Qed.

(* ---------- the scan over the roots *)
Lemma Good_ainit : forall g, Good g ainit [] /\ NB g noexc ainit [].
Proof.
  intro g. assert (Hn : forall x, ~ dsc ainit x) by (intros x Hx; apply Hx; reflexivity).
  split.
  - constructor.
    + apply Inv_ainit.
    + intros x y d H. discriminate.
    + intros x [].
    + exact I.
    + intros x y Hx. exfalso. exact (Hn x Hx).
    + intros u [].
    + intros a b [].
    + intros x Hx. exfalso. exact (Hn x Hx).
  - intros x y Hx. exfalso. exact (Hn x Hx).
Qed.

Lemma roots_spec2 : forall g fuel, valid_graph g = true ->
  forall vs s s', incl vs (nodes g) -> Good g s [] -> NB g noexc s [] ->
    roots fuel g vs s = Some s' -> Good g s' [] /\ NB g noexc s' [].
Proof.
  intros g fuel Hg. induction vs as [|v vs IH]; intros s s' Hincl G0 N0 H; simpl in H.
  - injection H as H. subst s'. split; assumption.
  - assert (Hv : In v (nodes g)) by (apply Hincl; left; reflexivity).
    assert (Hincl' : incl vs (nodes g)) by (intros z Hz; apply Hincl; right; exact Hz).
    destruct (aget (disc s) v) as [d|] eqn:Hd; [exact (IH s s' Hincl' G0 N0 H)|].
    destruct (dfs fuel g v (set_par s v None)) as [a|] eqn:Hr; [|discriminate].
    assert (Hpar : aget (par (set_par s v None)) v = Some None) by (simpl; apply aget_aset_same).
    destruct (dfs_spec2_all g Hg fuel v (set_par s v None) a [] None Hv Hd
                (Good_set_par g s [] v None G0) (NB_set_par g noexc s [] v None N0) Hpar eq_refl Hr)
      as (G1 & N1 & _ & _).
    apply (IH a s' Hincl' G1); [|exact H].
    intros x y Hx Hns Hexy Hlt. destruct (N1 x y Hx Hns Hexy Hlt) as [[_ E]|Hr']; [discriminate|].
    right. exact Hr'.
Qed.
