(* Model of solvor/articulation.py (after commit 640de1b): _undirected_adjacency, articulation_points
   and bridges (Tarjan low-link DFS over the symmetrised simple graph: {u,v} is an edge iff v in
   neighbors(u) or u in neighbors(v), both in the node set, u <> v).  Definitions only.

   _undirected_adjacency builds insertion-ordered dicts: first adj[v] = the in-set, non-self entries of
   neighbors(v) without repeats, in list order (`own`); then, for v in node order, v is appended to
   adj[w] for every w in adj[v] that does not have it yet.  Entries appended in that second pass only
   trigger no-op setdefaults later, so  adj[v] = own v ++ [u in node order | v in own u, u not in own v]
   (`uadj`).  ArticProofs shows  In w (uadj g v) <-> edge_b g v w  for nodes v.

   The two Python functions run the same DFS skeleton (discovery / low / parent / time / iterations);
   the model runs it once and keeps both result containers: `aps` (set, insertion order) with the
   root rule (root is a cut vertex iff it has >= 2 DFS children) and the non-root rule
   (low[w] >= discovery[v] for some DFS child w), and `brs` (list) with the bridge rule
   low[w] > discovery[v] and the canonical (min,max) orientation.
   `elif w != parent[v]`: every occurrence of the DFS parent in the adjacency of v is skipped; on the
   simple graph the parent occurs once, so this is exactly "do not use the tree edge backwards".
   The recursion `dfs(w)` runs on explicit fuel (depth); None when exhausted.  fuel = |nodes|+1. *)
From Coq Require Import List Arith Bool.
From SV Require Import C15.Graph.
Import ListNotations.

Fixpoint dedup (l : list nat) (seen : list nat) : list nat :=
  match l with
  | [] => []
  | x :: r => if memb x seen then dedup r seen else x :: dedup r (x :: seen)
  end.

Definition own (g : graph) (v : nat) : list nat :=
  dedup (filter (fun w => memb w (nodes g) && negb (w =? v)) (nbrs g v)) [].

Definition uadj (g : graph) (v : nat) : list nat :=
  own g v ++ filter (fun u => memb v (own g u) && negb (memb u (own g v))) (nodes g).

Record ast := {
  disc : list (nat * nat);
  low : list (nat * nat);
  par : list (nat * option nat);
  aps : list nat;
  brs : list (nat * nat);
  time : nat;
  iters : nat
}.

Definition set_low (s : ast) (v x : nat) : ast :=
  {| disc := disc s; low := aset (low s) v x; par := par s; aps := aps s; brs := brs s;
     time := time s; iters := iters s |}.
Definition set_par (s : ast) (w : nat) (p : option nat) : ast :=
  {| disc := disc s; low := low s; par := aset (par s) w p; aps := aps s; brs := brs s;
     time := time s; iters := iters s |}.
Definition add_ap (s : ast) (v : nat) : ast :=
  {| disc := disc s; low := low s; par := par s;
     aps := if memb v (aps s) then aps s else aps s ++ [v]; brs := brs s;
     time := time s; iters := iters s |}.
Definition add_br (s : ast) (e : nat * nat) : ast :=
  {| disc := disc s; low := low s; par := par s; aps := aps s; brs := brs s ++ [e];
     time := time s; iters := iters s |}.
Definition enter (s : ast) (v : nat) : ast :=
  {| disc := aset (disc s) v (time s); low := aset (low s) v (time s); par := par s; aps := aps s;
     brs := brs s; time := S (time s); iters := S (iters s) |}.

Definition lowd (s : ast) (v : nat) : nat := agetd 0 (low s) v.
Definition discd (s : ast) (v : nat) : nat := agetd 0 (disc s) v.
Definition is_root (s : ast) (v : nat) : bool :=
  match aget (par s) v with Some (Some _) => false | _ => true end.
Definition parent_is (s : ast) (v w : nat) : bool :=
  match aget (par s) v with Some (Some p) => p =? w | _ => false end.
Definition canon (v w : nat) : nat * nat := if v <? w then (v, w) else (w, v).

(* after dfs(w) returned inside the loop of v (children already incremented) *)
Definition after_child (s : ast) (v w children : nat) : ast :=
  let s1 := set_low s v (Nat.min (lowd s v) (lowd s w)) in
  let s2 := if is_root s1 v then (if 2 <=? children then add_ap s1 v else s1)
            else if discd s1 v <=? lowd s1 w then add_ap s1 v else s1 in
  if discd s2 v <? lowd s2 w then add_br s2 (canon v w) else s2.

Fixpoint dfs (fuel : nat) (g : graph) (v : nat) (s : ast) : option ast :=
  match fuel with
  | 0 => None
  | S f =>
    (fix loop (ws : list nat) (children : nat) (s : ast) {struct ws} : option ast :=
       match ws with
       | [] => Some s
       | w :: ws' =>
         match aget (disc s) w with
         | None =>
           match dfs f g w (set_par s w (Some v)) with
           | None => None
           | Some s' => loop ws' (S children) (after_child s' v w (S children))
           end
         | Some dw =>
           if parent_is s v w then loop ws' children s
           else loop ws' children (set_low s v (Nat.min (lowd s v) dw))
         end
       end) (uadj g v) 0 (enter s v)
  end.

(*  for v in node_list: if v not in discovery: parent[v] = None; dfs(v)  *)
Fixpoint roots (fuel : nat) (g : graph) (vs : list nat) (s : ast) : option ast :=
  match vs with
  | [] => Some s
  | v :: vs' =>
    match aget (disc s) v with
    | Some _ => roots fuel g vs' s
    | None =>
      match dfs fuel g v (set_par s v None) with
      | None => None
      | Some s' => roots fuel g vs' s'
      end
    end
  end.

Definition ainit : ast :=
  {| disc := []; low := []; par := []; aps := []; brs := []; time := 0; iters := 0 |}.

Definition run (g : graph) : option ast := roots (S (length (nodes g))) g (nodes g) ainit.

(* Result(solution, objective = len(solution), iterations, evaluations = n) *)
Definition articulation_points (g : graph) : option (list nat * nat * nat * nat) :=
  if length (nodes g) <=? 1 then Some ([], 0, 0, length (nodes g))
  else match run g with
       | None => None
       | Some s => Some (aps s, length (aps s), iters s, length (nodes g))
       end.

Definition bridges (g : graph) : option (list (nat * nat) * nat * nat * nat) :=
  if length (nodes g) <=? 1 then Some ([], 0, 0, length (nodes g))
  else match run g with
       | None => None
       | Some s => Some (brs s, length (brs s), iters s, length (nodes g))
       end.

(* observable comparison: solution as a set, the three counters exactly *)
Definition ap_corr (g : graph) (o : list nat * nat * nat * nat) : bool :=
  let '(sol, obj, it, ev) := o in
  match articulation_points g with
  | None => false
  | Some (sol', obj', it', ev') =>
    set_eqb sol' sol && nodup_b sol && (obj' =? obj) && (it' =? it) && (ev' =? ev)
  end.

Definition br_corr (g : graph) (o : list (nat * nat) * nat * nat * nat) : bool :=
  let '(sol, obj, it, ev) := o in
  match bridges g with
  | None => false
  | Some (sol', obj', it', ev') =>
    pairset_eqb sol' sol && (length sol =? length sol') && (obj' =? obj) && (it' =? it) && (ev' =? ev)
  end.
