(* Shared input representation for the C15 models (solvor/articulation.py, kcore.py, pagerank.py,
   community.py).  Definitions only.

   A call  f(nodes, neighbors)  is represented by the association list
        g = [(v, list(neighbors(v))) | v <- list(nodes)]      (in the order of `nodes`)
   Node labels are the actual integer labels used by the harness (nat).  Neighbour lists may contain
   labels outside the node set, the node itself, and duplicates.

   `sadj g v` is the symmetrised simple adjacency that kcore.py / community.py (and the repaired
   articulation.py) build once:   adj[v].add(w); adj[w].add(v)  for w in neighbors(v) if w in node_set
   and w != v  --  i.e. {u,v} is an edge iff u<>v, both are nodes, and v in neighbors(u) or u in
   neighbors(v).  The order of `sadj g v` (node-list order) is a modelling choice; the Python code
   iterates hash-ordered sets there, and every compared observable is order-free. *)
From Coq Require Import List Arith Bool.
Import ListNotations.

Definition graph := list (nat * list nat).

Definition nodes (g : graph) : list nat := map fst g.

Fixpoint nbrs (g : graph) (v : nat) : list nat :=
  match g with
  | [] => []
  | (u, l) :: r => if Nat.eqb u v then l else nbrs r v
  end.

Definition memb (x : nat) (l : list nat) : bool := existsb (Nat.eqb x) l.

Fixpoint nodup_b (l : list nat) : bool :=
  match l with [] => true | x :: r => negb (memb x r) && nodup_b r end.

(* inputs the models are stated for: the node list has no repeated node *)
Definition valid_graph (g : graph) : bool := nodup_b (nodes g).

Definition edge_b (g : graph) (u v : nat) : bool :=
  negb (u =? v) && memb u (nodes g) && memb v (nodes g)
  && (memb v (nbrs g u) || memb u (nbrs g v)).

Definition sadj (g : graph) (v : nat) : list nat := filter (edge_b g v) (nodes g).

(* insertion-ordered association lists (Python dict) *)
Fixpoint aget {A} (l : list (nat * A)) (k : nat) : option A :=
  match l with
  | [] => None
  | (k', x) :: r => if Nat.eqb k' k then Some x else aget r k
  end.

Fixpoint aset {A} (l : list (nat * A)) (k : nat) (x : A) : list (nat * A) :=
  match l with
  | [] => [(k, x)]
  | (k', y) :: r => if Nat.eqb k' k then (k', x) :: r else (k', y) :: aset r k x
  end.

Definition agetd {A} (d : A) (l : list (nat * A)) (k : nat) : A :=
  match aget l k with Some x => x | None => d end.

Fixpoint remove_nat (x : nat) (l : list nat) : list nat :=
  match l with
  | [] => []
  | y :: r => if Nat.eqb x y then remove_nat x r else y :: remove_nat x r
  end.

(* order-free comparison of observables *)
Definition incl_b (a b : list nat) : bool := forallb (fun x => memb x b) a.
Definition set_eqb (a b : list nat) : bool := incl_b a b && incl_b b a.

Definition pair_memb (p : nat * nat) (l : list (nat * nat)) : bool :=
  existsb (fun q => (fst p =? fst q) && (snd p =? snd q)) l.
Definition pairset_eqb (a b : list (nat * nat)) : bool :=
  forallb (fun p => pair_memb p b) a && forallb (fun p => pair_memb p a) b.

Definition sets_memb (s : list nat) (l : list (list nat)) : bool := existsb (set_eqb s) l.
Definition setset_eqb (a b : list (list nat)) : bool :=
  forallb (fun s => sets_memb s b) a && forallb (fun s => sets_memb s a) b
  && (length a =? length b).
