(* The peeling invariant and its preservation by one pop (KCore.pop_step). *)
From Coq Require Import List Arith Bool Lia.
From SV Require Import C15.Graph C15.KCore C15.KCoreSpec C15.KCoreLemmas.
Import ListNotations.

(* remaining nodes (no core number yet) and the degree of v among them *)
Definition remL (g : graph) (c : list (nat * nat)) : list nat :=
  filter (fun v => negb (has_core c v)) (nodes g).
Definition degR (g : graph) (c : list (nat * nat)) (v : nat) : nat := deg_in g (remL g c) v.

Lemma has_core_false : forall c w, has_core c w = false <-> aget c w = None.
Proof. intros c w. unfold has_core. destruct (aget c w); split; congruence. Qed.

Lemma remL_In : forall g c v, In v (remL g c) <-> In v (nodes g) /\ aget c v = None.
Proof.
  intros g c v. unfold remL. rewrite filter_In, negb_true_iff, has_core_false. tauto.
Qed.

Record Inv (g : graph) (k : nat) (s : kst) : Prop := {
  i_keys : forall v c, aget (core s) v = Some c -> In v (nodes g);
  i_nodup : NoDup (map fst (core s));
  i_inb : forall v, In v (nodes g) -> aget (core s) v = None -> In v (bkt s (deg s v));
  i_bkt : forall d v, In v (bkt s d) -> In v (nodes g) /\ aget (core s) v = None /\ deg s v = d;
  i_bnd : forall d, NoDup (bkt s d);
  i_deg : forall v, In v (nodes g) -> aget (core s) v = None ->
                    deg s v = Nat.max k (degR g (core s) v);
  i_max : forall v, In v (nodes g) -> deg s v <= max_degree g;
  i_up : forall S j, min_deg_ge g j S -> k < j -> forall v, In v S -> aget (core s) v = None;
  i_low : exists T, (forall v, In v (nodes g) -> aget (core s) v = None -> In v T) /\ min_deg_ge g k T;
  i_ok : forall v c, aget (core s) v = Some c -> core_number g v c /\ c <= k
}.

Lemma deg_in_mono : forall g S S' v, (forall w, In w S -> In w S') -> deg_in g S v <= deg_in g S' v.
Proof.
  intros g S S' v H. unfold deg_in. apply filter_length_mono.
  intros w _ Hw. apply memb_In. apply H. now apply memb_In.
Qed.

Section Fold.
  Variable g : graph.
  Variable k : nat.
  Variable c1 : list (nat * nat).
  Variable degR0 : nat -> nat.
  Hypothesis Hnd : NoDup (nodes g).

  (* state of the loop `for w in adj[v]` after the neighbours in P have been handled *)
  Record J (P : list nat) (s : kst) : Prop := {
    j_core : core s = c1;
    j_inb : forall w, In w (nodes g) -> aget c1 w = None -> In w (bkt s (deg s w));
    j_bkt : forall d w, In w (bkt s d) -> In w (nodes g) /\ aget c1 w = None /\ deg s w = d;
    j_bnd : forall d, NoDup (bkt s d);
    j_deg : forall w, In w (nodes g) -> aget c1 w = None ->
                      deg s w = Nat.max k (degR0 w - (if memb w P then 1 else 0));
    j_max : forall w, In w (nodes g) -> deg s w <= max_degree g
  }.

  Lemma memb_app_single : forall w P x, memb w (P ++ [x]) = memb w P || (w =? x).
  Proof. intros. unfold memb. rewrite existsb_app. simpl. now rewrite orb_false_r. Qed.

  Lemma relax_J : forall P s w, J P s -> In w (nodes g) -> ~ In w P -> J (P ++ [w]) (relax k s w).
  Proof.
    intros P s w HJ Hw HnP. destruct HJ as [Hc Hinb Hbkt Hbnd Hdeg Hmax].
    unfold relax. rewrite Hc.
    destruct (has_core c1 w) eqn:Ehc.
    { (* w already has a core number: nothing changes, and no remaining node is w *)
      constructor; auto.
      intros u Hu Hn. rewrite memb_app_single.
      destruct (Nat.eqb_spec u w) as [->|Hne].
      - apply has_core_false in Hn. congruence.
      - rewrite orb_false_r. now apply Hdeg. }
    apply has_core_false in Ehc.
    assert (HwP : memb w P = false) by now apply memb_false.
    assert (Hdw : deg s w = Nat.max k (degR0 w)).
    { rewrite (Hdeg w Hw Ehc), HwP. f_equal. lia. }
    destruct (k <? deg s w) eqn:Elt.
    - apply Nat.ltb_lt in Elt.
      set (old := deg s w) in *.
      assert (Hnb : Nat.max k (old - 1) = old - 1) by lia.
      rewrite Hnb.
      assert (Hneq : old - 1 <> old) by lia.
      constructor; simpl.
      + reflexivity.
      + intros u Hu Hn. destruct (Nat.eqb_spec u w) as [->|Hne].
        * rewrite upd_same, upd_same. now left.
        * rewrite (upd_other (deg s) w _ u Hne).
          specialize (Hinb u Hu Hn).
          destruct (Nat.eq_dec (deg s u) (old - 1)) as [E|E].
          -- rewrite E, upd_same. right. rewrite upd_other by exact Hneq. now rewrite <- E.
          -- rewrite upd_other by exact E.
             destruct (Nat.eq_dec (deg s u) old) as [E'|E'].
             ++ rewrite E', upd_same. apply remove_nat_In. split; [now rewrite <- E'|exact Hne].
             ++ now rewrite upd_other by exact E'.
      + intros d u Hin.
        destruct (Nat.eq_dec d (old - 1)) as [->|E].
        * rewrite upd_same in Hin. destruct Hin as [<-|Hin].
          -- rewrite upd_same. auto.
          -- rewrite upd_other in Hin by exact Hneq.
             destruct (Hbkt _ _ Hin) as (H1 & H2 & H3).
             assert (u <> w) by (intros ->; unfold old in *; lia).
             rewrite upd_other by assumption. auto.
        * rewrite upd_other in Hin by exact E.
          destruct (Nat.eq_dec d old) as [->|E'].
          -- rewrite upd_same in Hin. apply remove_nat_In in Hin. destruct Hin as [Hin Hne].
             destruct (Hbkt _ _ Hin) as (H1 & H2 & H3).
             rewrite upd_other by assumption. auto.
          -- rewrite upd_other in Hin by exact E'.
             destruct (Hbkt _ _ Hin) as (H1 & H2 & H3).
             assert (u <> w) by (intros ->; unfold old in *; congruence).
             rewrite upd_other by assumption. auto.
      + intros d. destruct (Nat.eq_dec d (old - 1)) as [->|E].
        * rewrite upd_same. rewrite upd_other by exact Hneq. constructor; [|apply Hbnd].
          intros Hin. destruct (Hbkt _ _ Hin) as (_ & _ & H3). unfold old in *. lia.
        * rewrite upd_other by exact E.
          destruct (Nat.eq_dec d old) as [->|E'].
          -- rewrite upd_same. apply remove_nat_NoDup, Hbnd.
          -- rewrite upd_other by exact E'. apply Hbnd.
      + intros u Hu Hn. rewrite memb_app_single.
        destruct (Nat.eqb_spec u w) as [->|Hne].
        * rewrite upd_same, orb_true_r. unfold old in *. lia.
        * rewrite upd_other by exact Hne. rewrite orb_false_r. now apply Hdeg.
      + intros u Hu. destruct (Nat.eqb_spec u w) as [->|Hne].
        * rewrite upd_same. specialize (Hmax w Hu). unfold old in *. lia.
        * rewrite upd_other by exact Hne. now apply Hmax.
    - apply Nat.ltb_ge in Elt.
      constructor; auto.
      intros u Hu Hn. rewrite memb_app_single.
      destruct (Nat.eqb_spec u w) as [->|Hne].
      + rewrite orb_true_r. lia.
      + rewrite orb_false_r. now apply Hdeg.
  Qed.

  Lemma fold_J : forall ws P s, NoDup (P ++ ws) -> (forall w, In w ws -> In w (nodes g)) ->
    J P s -> J (P ++ ws) (fold_left (relax k) ws s).
  Proof.
    induction ws as [|w ws IH]; intros P s Hn Hin HJ; simpl.
    - now rewrite app_nil_r.
    - replace (P ++ w :: ws) with ((P ++ [w]) ++ ws) in * by (rewrite <- app_assoc; reflexivity).
      apply IH; [exact Hn | intros u Hu; apply Hin; now right |].
      apply relax_J; [exact HJ | apply Hin; now left |].
      intros HP. rewrite <- app_assoc in Hn. simpl in Hn.
      apply NoDup_remove_2 in Hn. apply Hn. apply in_or_app. now left.
  Qed.
End Fold.

(* degree among the remaining nodes after v got its core number *)
Lemma degR_after : forall g c v k w, NoDup (nodes g) -> In v (nodes g) -> aget c v = None ->
  In w (nodes g) ->
  degR g (c ++ [(v, k)]) w = degR g c w - (if memb w (sadj g v) then 1 else 0).
Proof.
  intros g c v k w Hnd Hv Hcv Hw. unfold degR, deg_in.
  rewrite (filter_ext_in' (fun x => memb x (remL g (c ++ [(v, k)])))
                          (fun x => memb x (remL g c) && negb (x =? v)) (sadj g w)).
  - rewrite filter_length_remove1 by now apply sadj_NoDup.
    assert (Hm : memb v (remL g c) = true) by (apply memb_In, remL_In; auto).
    rewrite Hm, andb_true_r.
    assert (Hs : memb v (sadj g w) = memb w (sadj g v)).
    { destruct (memb w (sadj g v)) eqn:E.
      - apply memb_In. apply memb_In in E. now apply sadj_sym.
      - apply memb_false. apply memb_false in E. intros H. apply E. now apply sadj_sym. }
    now rewrite Hs.
  - intros x Hx. apply sadj_nodes in Hx. destruct Hx as (Hx & _ & _).
    destruct (Nat.eqb_spec x v) as [->|Hne]; simpl.
    + rewrite andb_false_r. apply memb_false. rewrite remL_In.
      intros [_ H]. rewrite (aget_app_none c v v k Hcv), Nat.eqb_refl in H. discriminate.
    + rewrite andb_true_r.
      destruct (aget c x) eqn:Ex.
      * assert (H1 : memb x (remL g c) = false) by (apply memb_false; rewrite remL_In; intros [_ H]; congruence).
        rewrite H1. apply memb_false. rewrite remL_In. intros [_ H].
        rewrite (aget_app_some c x n v k Ex) in H. discriminate.
      * assert (H1 : memb x (remL g c) = true) by (apply memb_In, remL_In; auto).
        rewrite H1. apply memb_In, remL_In. split; [exact Hx|].
        rewrite (aget_app_none c x v k Ex).
        assert (Hvx : (v =? x) = false) by (apply Nat.eqb_neq; congruence). now rewrite Hvx.
Qed.

Lemma remL_length_pop : forall g c v k, NoDup (nodes g) -> In v (nodes g) -> aget c v = None ->
  S (length (remL g (c ++ [(v, k)]))) = length (remL g c).
Proof.
  intros g c v k Hnd Hv Hc. unfold remL.
  rewrite (filter_ext_in' (fun x => negb (has_core (c ++ [(v, k)]) x))
                          (fun x => negb (has_core c x) && negb (x =? v)) (nodes g)).
  - rewrite filter_length_remove1 by exact Hnd.
    assert (Hm : memb v (nodes g) = true) by now apply memb_In.
    assert (Hh : has_core c v = false) by now apply has_core_false.
    rewrite Hm, Hh. simpl.
    assert (1 <= length (filter (fun x => negb (has_core c x)) (nodes g))).
    { assert (Hin : In v (filter (fun x => negb (has_core c x)) (nodes g))).
      { apply filter_In. split; [exact Hv|]. now rewrite Hh. }
      destruct (filter (fun x => negb (has_core c x)) (nodes g)); [destruct Hin | simpl; lia]. }
    lia.
  - intros x Hx. unfold has_core at 1.
    destruct (aget c x) eqn:Ex.
    + rewrite (aget_app_some c x n v k Ex). unfold has_core. now rewrite Ex.
    + rewrite (aget_app_none c x v k Ex). unfold has_core. rewrite Ex. simpl.
      rewrite (Nat.eqb_sym v x). now destruct (x =? v).
Qed.

(* one pop preserves the invariant *)
Lemma pop_step_Inv : forall pick g k s, NoDup (nodes g) -> Inv g k s -> bkt s k <> [] ->
  Inv g k (pop_step pick g k s) /\
  S (length (remL g (core (pop_step pick g k s)))) = length (remL g (core s)).
Proof.
  intros pick g k s Hnd HI Hb. unfold pop_step.
  set (b := bkt s k) in *.
  set (v := nth (pick b mod length b) b 0).
  assert (Hvb : In v b) by (apply nth_mod_In; exact Hb).
  destruct HI as [Hkeys Hnodup Hinb Hbkt Hbnd Hdeg Hmax Hup Hlow Hok].
  destruct (Hbkt k v Hvb) as (Hv & Hcv & Hdv).
  set (c1 := core s ++ [(v, k)]).
  set (s1 := {| deg := deg s; bkt := upd (bkt s) k (remove_nat v b); core := c1 |}).
  assert (Hc1_other : forall u, u <> v -> aget c1 u = aget (core s) u).
  { intros u Hu. unfold c1. destruct (aget (core s) u) eqn:E.
    - now apply aget_app_some.
    - rewrite (aget_app_none _ _ _ _ E).
      assert (Hvu : (v =? u) = false) by (apply Nat.eqb_neq; congruence). now rewrite Hvu. }
  assert (Hc1_v : aget c1 v = Some k).
  { unfold c1. rewrite (aget_app_none _ _ _ _ Hcv). now rewrite Nat.eqb_refl. }
  assert (Hc1_none : forall u, aget c1 u = None -> u <> v /\ aget (core s) u = None).
  { intros u Hu. assert (u <> v) by (intros ->; congruence). split; [assumption|].
    now rewrite <- Hc1_other. }
  assert (HJ0 : J g k c1 (degR g (core s)) [] s1).
  { constructor; simpl.
    - reflexivity.
    - intros w Hw Hn. destruct (Hc1_none w Hn) as [Hne Hn'].
      specialize (Hinb w Hw Hn').
      destruct (Nat.eq_dec (deg s w) k) as [E|E].
      + rewrite E, upd_same. apply remove_nat_In. split; [|exact Hne]. unfold b. now rewrite <- E.
      + now rewrite upd_other by exact E.
    - intros d w Hin. destruct (Nat.eq_dec d k) as [->|E].
      + rewrite upd_same in Hin. apply remove_nat_In in Hin. destruct Hin as [Hin Hne].
        destruct (Hbkt k w Hin) as (H1 & H2 & H3). rewrite Hc1_other by exact Hne. auto.
      + rewrite upd_other in Hin by exact E.
        destruct (Hbkt d w Hin) as (H1 & H2 & H3).
        assert (w <> v) by (intros ->; congruence).
        rewrite Hc1_other by assumption. auto.
    - intros d. destruct (Nat.eq_dec d k) as [->|E].
      + rewrite upd_same. apply remove_nat_NoDup, Hbnd.
      + rewrite upd_other by exact E. apply Hbnd.
    - intros w Hw Hn. destruct (Hc1_none w Hn) as [Hne Hn']. simpl.
      rewrite (Hdeg w Hw Hn'). f_equal. lia.
    - exact Hmax. }
  assert (HJ := fold_J g k c1 (degR g (core s)) (sadj g v) [] s1
                  (sadj_NoDup g v Hnd) (fun w Hw => proj1 (sadj_nodes g v w Hw)) HJ0).
  simpl in HJ. destruct HJ as [Jc Jinb Jbkt Jbnd Jdeg Jmax].
  assert (Hdegv : degR g (core s) v <= k).
  { specialize (Hdeg v Hv Hcv). lia. }
  (* no subgraph of min degree > k contains v *)
  assert (Hnov : forall S j, min_deg_ge g j S -> In v S -> j <= k).
  { intros S j HS HvS. destruct (le_lt_dec j k) as [Hle|Hlt]; [exact Hle|].
    destruct (HS v HvS) as [_ Hd].
    assert (deg_in g S v <= degR g (core s) v).
    { apply deg_in_mono. intros w Hw. apply remL_In. split.
      - now destruct (HS w Hw).
      - now apply (Hup S j HS Hlt). }
    lia. }
  split.
  - constructor; rewrite ?Jc.
    + intros u c Hu. destruct (Nat.eq_dec u v) as [->|Hne]; [exact Hv|].
      rewrite Hc1_other in Hu by exact Hne. eapply Hkeys; eauto.
    + unfold c1. rewrite map_app. simpl.
      apply NoDup_app_single; [exact Hnodup|]. now apply aget_none_notin.
    + exact Jinb.
    + exact Jbkt.
    + exact Jbnd.
    + intros w Hw Hn. rewrite (Jdeg w Hw Hn). f_equal.
      unfold c1. rewrite (degR_after g (core s) v k w Hnd Hv Hcv Hw). reflexivity.
    + exact Jmax.
    + intros S j HS Hj u Hu.
      destruct (Nat.eq_dec u v) as [->|Hne].
      * specialize (Hnov S j HS Hu). lia.
      * rewrite Hc1_other by exact Hne. eapply Hup; eauto.
    + destruct Hlow as [T [HT1 HT2]]. exists T. split; [|exact HT2].
      intros u Hu Hn. destruct (Hc1_none u Hn) as [_ Hn']. now apply HT1.
    + intros u c Hu. destruct (Nat.eq_dec u v) as [->|Hne].
      * rewrite Hc1_v in Hu. inversion Hu; subst c. split; [|lia].
        split.
        -- destruct Hlow as [T [HT1 HT2]]. exists T. split; [now apply HT1 | exact HT2].
        -- intros S j HvS HS. now apply (Hnov S j).
      * rewrite Hc1_other in Hu by exact Hne. now apply Hok.
  - rewrite Jc. unfold c1. now apply remL_length_pop.
Qed.
