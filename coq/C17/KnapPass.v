(* C17 - one pass of the knapsack DP (eps = 0): index-wise characterisation, soundness of the stored patterns,
   completeness w.r.t. all patterns that respect the per-item bounds processed so far. *)
From Coq Require Import List ZArith QArith Qabs Qround Bool Arith Lia.
From SV Require Import C17.Cg C17.CgSpec C17.GateProofs C17.PoolProofs C17.KnapLemmas.
Import ListNotations.

(* ---------------------------------------------------------------- index-wise view of a pass *)
Lemma zip_upd_length : forall eps v i dp sh, length (zip_upd eps v i dp sh) = length dp.
Proof.
  induction dp as [|c dp IH]; intros sh; simpl; [reflexivity|]. destruct sh; simpl; [reflexivity | rewrite IH; reflexivity].
Qed.

Lemma zip_upd_nth : forall eps v i dp sh w d, (w < length dp)%nat -> (w < length sh)%nat ->
  nth w (zip_upd eps v i dp sh) d = knap_upd eps v i (nth w dp d) (nth w sh None).
Proof.
  induction dp as [|c dp IH]; intros sh w d Hw Hs; simpl in *; [lia|].
  destruct sh as [|p sh]; simpl in *; [lia|].
  destruct w as [|w]; [reflexivity|]. apply IH; lia.
Qed.

Lemma nth_map_Some : forall (dp : list cell) k d, (k < length dp)%nat -> nth k (map Some dp) None = Some (nth k dp d).
Proof.
  induction dp as [|c dp IH]; intros k d Hk; simpl in *; [lia|]. destruct k; [reflexivity|]. apply IH. lia.
Qed.

Lemma shifted_nth : forall s (dp : list cell) w d, (w < length dp)%nat ->
  nth w (repeat None s ++ map Some dp) None = if Nat.ltb w s then None else Some (nth (w - s) dp d).
Proof.
  intros s dp w d Hw. destruct (Nat.ltb w s) eqn:E.
  - apply Nat.ltb_lt in E. rewrite app_nth1 by (rewrite repeat_length; exact E).
    apply nth_repeat.
  - apply Nat.ltb_ge in E. rewrite app_nth2 by (rewrite repeat_length; exact E).
    rewrite repeat_length. apply nth_map_Some. lia.
Qed.

Lemma knap_pass_length : forall eps v i s dp, length (knap_pass eps v i s dp) = length dp.
Proof. intros. unfold knap_pass. apply zip_upd_length. Qed.

Lemma knap_pass_nth : forall eps v i s dp w d, (w < length dp)%nat ->
  nth w (knap_pass eps v i s dp) d =
  knap_upd eps v i (nth w dp d) (if Nat.ltb w s then None else Some (nth (w - s) dp d)).
Proof.
  intros eps v i s dp w d Hw. unfold knap_pass.
  rewrite zip_upd_nth; [|exact Hw | rewrite app_length, repeat_length, map_length; lia].
  rewrite (shifted_nth s dp w d Hw). reflexivity.
Qed.

(* ---------------------------------------------------------------- order on cell values (None = -inf) *)
Definition vle (a b : option Q) : Prop :=
  match a, b with
  | None, _ => True
  | Some x, Some y => (x <= y)%Q
  | Some _, None => False
  end.

Lemma vle_refl : forall a, vle a a.
Proof. destruct a; simpl; [apply Qle_refl | exact I]. Qed.

Lemma vle_trans : forall a b c, vle a b -> vle b c -> vle a c.
Proof.
  intros [x|] [y|] [z|]; simpl; intros H1 H2; try exact I; try contradiction.
  eapply Qle_trans; eassumption.
Qed.

Lemma upd_ge_cur : forall v i cur prev, vle (fst cur) (fst (knap_upd 0 v i cur prev)).
Proof.
  intros v i cur prev. unfold knap_upd. destruct prev as [[[pv|] pp]|]; try apply vle_refl.
  destruct (fst cur) as [cv|] eqn:Ec; [|exact I].
  destruct (Qltb (cv + 0) (Qred (pv + v))) eqn:E.
  - cbn [fst vle]. apply Qltb_lt in E. apply Qlt_le_weak. eapply Qle_lt_trans; [|exact E]. rewrite Qplus_0_r. apply Qle_refl.
  - rewrite Ec. cbn [vle]. apply Qle_refl.
Qed.

Lemma upd_ge_prev : forall v i cur pv pp,
  exists u, fst (knap_upd 0 v i cur (Some (Some pv, pp))) = Some u /\ (pv + v <= u)%Q.
Proof.
  intros v i cur pv pp. unfold knap_upd. destruct (fst cur) as [cv|] eqn:Ec.
  - destruct (Qltb (cv + 0) (Qred (pv + v))) eqn:E.
    + exists (Qred (pv + v)). split; [reflexivity|]. rewrite Qred_correct. apply Qle_refl.
    + exists cv. split; [exact Ec|]. apply Qltb_false in E. rewrite Qred_correct, Qplus_0_r in E. exact E.
  - exists (Qred (pv + v)). split; [reflexivity|]. rewrite Qred_correct. apply Qle_refl.
Qed.

(* ---------------------------------------------------------------- the setting *)
Section Knap.
Variable n : nat.
Variable ss : list Z.          (* integer sizes of the DP *)
Variable vs : list Q.          (* values *)
Hypothesis Hss : length ss = n.
Hypothesis Hvs : length vs = n.
Hypothesis Hpos : Forall (fun x => (1 <= x)%Z) ss.

Definition d0 : cell := (None, repeat 0%Z n).

Lemma ss_nonneg : Forall (fun x => (0 <= x)%Z) ss.
Proof. eapply Forall_impl; [|exact Hpos]. intros x Hx. simpl in Hx. lia. Qed.

Lemma ss_nth_pos : forall i, (i < n)%nat -> (1 <= getz ss i)%Z.
Proof.
  intros i Hi. rewrite Forall_forall in Hpos. apply Hpos. unfold getz. apply nth_In. rewrite Hss. exact Hi.
Qed.

(* the stored pattern of a reachable cell has exactly the weight of its index and the value of the cell *)
Definition cell_sound (w : nat) (c : cell) : Prop :=
  forall u, fst c = Some u -> pat_ok n (snd c) /\ dotz ss (snd c) = Z.of_nat w /\ (u == dotq vs (snd c))%Q.
Definition dp_sound (dp : list cell) : Prop := forall w, (w < length dp)%nat -> cell_sound w (nth w dp d0).

Lemma upd_sound : forall v i s w cur prevc,
  (i < n)%nat -> v = getq vs i -> Z.of_nat s = getz ss i -> (s <= w)%nat ->
  cell_sound w cur -> cell_sound (w - s) prevc ->
  cell_sound w (knap_upd 0 v i cur (Some prevc)).
Proof.
  intros v i s w cur prevc Hi Hv Hs Hsw Hc Hp. unfold knap_upd.
  destruct prevc as [[pv|] pp]; [|exact Hc].
  assert (Hnew : cell_sound w (Some (Qred (pv + v)), incr_at i pp)).
  { intros u Hu. change (Some (Qred (pv + v)) = Some u) in Hu.
    assert (Hu' : u = Qred (pv + v)) by congruence. clear Hu. subst u. cbn [fst snd].
    destruct (Hp pv eq_refl) as [Hok [Hw Hval]]. cbn [fst snd] in Hok, Hw, Hval.
    split; [apply incr_at_ok; exact Hok|]. destruct Hok as [Hl Hf].
    rewrite incr_at_upd. split.
    - rewrite dotz_upd_at by (rewrite ?Hl, ?Hss; auto; lia). rewrite Hw. lia.
    - rewrite dotq_upd_at by (rewrite ?Hl, ?Hvs; auto; lia). rewrite Qred_correct, Hval, Hv.
      replace (getz pp i + 1 - getz pp i)%Z with 1%Z by lia. unfold z2q. simpl. ring. }
  destruct (fst cur) as [cv|] eqn:Ec; [|exact Hnew].
  destruct (Qltb (cv + 0) (Qred (pv + v))); [exact Hnew | exact Hc].
Qed.

Lemma pass_sound : forall v i s dp,
  (i < n)%nat -> v = getq vs i -> Z.of_nat s = getz ss i ->
  dp_sound dp -> dp_sound (knap_pass 0 v i s dp).
Proof.
  intros v i s dp Hi Hv Hs Hd w Hw. rewrite knap_pass_length in Hw.
  rewrite (knap_pass_nth 0 v i s dp w d0 Hw).
  destruct (Nat.ltb w s) eqn:E.
  - unfold knap_upd. apply Hd. exact Hw.
  - apply Nat.ltb_ge in E. apply (upd_sound v i s w); try assumption; apply Hd; lia.
Qed.

(* completeness: every pattern within the bounds is dominated by the cell of its weight *)
Variable cap : nat.
Definition dp_complete (bound : nat -> Z) (dp : list cell) : Prop :=
  forall a, pat_ok n a -> (forall j, (j < n)%nat -> (getz a j <= bound j)%Z) -> (dotz ss a <= Z.of_nat cap)%Z ->
  exists u, fst (nth (Z.to_nat (dotz ss a)) dp d0) = Some u /\ (dotq vs a <= u)%Q.

Definition setb (bound : nat -> Z) (i : nat) (x : Z) : nat -> Z := fun j => if Nat.eqb j i then x else bound j.

Lemma pass_mono : forall v i s dp w, (w < length dp)%nat ->
  vle (fst (nth w dp d0)) (fst (nth w (knap_pass 0 v i s dp) d0)).
Proof.
  intros v i s dp w Hw. rewrite (knap_pass_nth 0 v i s dp w d0 Hw). apply upd_ge_cur.
Qed.

Lemma pass_complete : forall v i s dp bound,
  (i < n)%nat -> v = getq vs i -> Z.of_nat s = getz ss i -> length dp = S cap -> (0 <= bound i)%Z ->
  dp_complete bound dp -> dp_complete (setb bound i (bound i + 1)%Z) (knap_pass 0 v i s dp).
Proof.
  intros v i s dp bound Hi Hv Hs Hlen Hb0 Hc a Ha Hb Hw.
  destruct Ha as [Hl Hf].
  assert (Hnn : (0 <= dotz ss a)%Z) by (apply dotz_nonneg; [apply ss_nonneg | exact Hf]).
  assert (Hwlt : (Z.to_nat (dotz ss a) < length dp)%nat) by (rewrite Hlen; lia).
  destruct (Z_le_gt_dec (getz a i) (bound i)) as [Hle|Hgt].
  - (* within the old bounds: the old cell dominates, the pass only increases it *)
    destruct (Hc a (conj Hl Hf)) as [u [Hu Hval]]; [|exact Hw|].
    + intros j Hj. specialize (Hb j Hj). unfold setb in Hb. destruct (Nat.eqb j i) eqn:E; [apply Nat.eqb_eq in E; subst; exact Hle | exact Hb].
    + pose proof (pass_mono v i s dp _ Hwlt) as Hm. rewrite Hu in Hm.
      destruct (fst (nth (Z.to_nat (dotz ss a)) (knap_pass 0 v i s dp) d0)) as [u'|] eqn:Eu; simpl in Hm; [|contradiction].
      exists u'. split; [reflexivity | eapply Qle_trans; eassumption].
  - (* one more copy of item i than before: remove it, use the cell s below *)
    assert (Hai : getz a i = (bound i + 1)%Z).
    { specialize (Hb i Hi). unfold setb in Hb. rewrite Nat.eqb_refl in Hb. lia. }
    set (a' := upd_at (fun x => (x - 1)%Z) i a).
    assert (Hil : (i < length a)%nat) by (rewrite Hl; exact Hi).
    assert (Hl' : length a' = n) by (unfold a'; rewrite upd_at_length; exact Hl).
    assert (Hf' : Forall (fun x => (0 <= x)%Z) a').
    { apply Forall_nth. intros j d Hj. rewrite (nth_indep _ d 0%Z Hj).
      unfold a' in Hj. rewrite upd_at_length in Hj.
      change (nth j a' 0%Z) with (getz a' j). unfold a'. rewrite getz_upd_at by exact Hj.
      assert (H0 : (0 <= getz a j)%Z).
      { rewrite Forall_forall in Hf. apply Hf. unfold getz. apply nth_In. exact Hj. }
      destruct (Nat.eqb j i) eqn:E; [apply Nat.eqb_eq in E; subst j; lia | exact H0]. }
    assert (Hw' : dotz ss a' = (dotz ss a - Z.of_nat s)%Z).
    { unfold a'. rewrite dotz_upd_at by (rewrite ?Hl, ?Hss; auto). rewrite Hs. lia. }
    assert (Hv' : (dotq vs a' == dotq vs a - v)%Q).
    { unfold a'. rewrite dotq_upd_at by (rewrite ?Hl, ?Hvs; auto). rewrite Hv.
      replace (getz a i - 1 - getz a i)%Z with (-1)%Z by lia. unfold z2q. simpl. ring. }
    assert (Hnn' : (0 <= dotz ss a')%Z) by (apply dotz_nonneg; [apply ss_nonneg | exact Hf']).
    destruct (Hc a' (conj Hl' Hf')) as [u [Hu Hval]].
    + intros j Hj. unfold a'. rewrite getz_upd_at by (rewrite Hl; exact Hj).
      specialize (Hb j Hj). unfold setb in Hb.
      destruct (Nat.eqb j i) eqn:E; [apply Nat.eqb_eq in E; subst j; lia | exact Hb].
    + lia.
    + rewrite (knap_pass_nth 0 v i s dp _ d0 Hwlt).
      assert (Hge : Nat.ltb (Z.to_nat (dotz ss a)) s = false) by (apply Nat.ltb_ge; lia).
      rewrite Hge.
      replace (Z.to_nat (dotz ss a) - s)%nat with (Z.to_nat (dotz ss a')) by lia.
      destruct (nth (Z.to_nat (dotz ss a')) dp d0) as [pvo pp] eqn:Ecell. simpl in Hu. subst pvo.
      destruct (upd_ge_prev v i (nth (Z.to_nat (dotz ss a)) dp d0) u pp) as [u' [Hu' Hle']].
      exists u'. split; [exact Hu'|].
      eapply Qle_trans; [|exact Hle'].
      setoid_replace (dotq vs a) with (dotq vs a' + v)%Q by (rewrite Hv'; ring).
      apply Qplus_le_compat; [exact Hval | apply Qle_refl].
Qed.
End Knap.
