(* C17_pricing_exact, final form: knapsack_pricing (eps = 0, positive integer sizes) never takes the unmodelled greedy
   fallback, returns a fitting pattern together with its exact value, and that value is the maximum over ALL fitting patterns. *)
From Coq Require Import List ZArith QArith Qabs Qround Bool Arith Lia.
From SV Require Import C17.Cg C17.CgSpec C17.GateProofs C17.PoolProofs C17.KnapLemmas C17.KnapPass C17.KnapProofs.
Import ListNotations.

(* a with the entries of non-positive value removed *)
Fixpoint zeroneg (y : list Q) (a : list Z) : list Z :=
  match y, a with
  | v :: y', x :: a' => (if Qleb v 0 then 0%Z else x) :: zeroneg y' a'
  | _, _ => []
  end.

Lemma zeroneg_length : forall y a, length y = length a -> length (zeroneg y a) = length a.
Proof.
  induction y as [|v y IH]; intros a Hl; destruct a as [|x a]; simpl in *; try discriminate; [reflexivity|].
  rewrite IH by lia. reflexivity.
Qed.

Lemma zeroneg_nonneg : forall y a, Forall (fun x => (0 <= x)%Z) a -> Forall (fun x => (0 <= x)%Z) (zeroneg y a).
Proof.
  induction y as [|v y IH]; intros a Ha; destruct a as [|x a]; simpl; try constructor.
  - inversion Ha; subst. destruct (Qleb v 0); lia.
  - inversion Ha; subst. apply IH. assumption.
Qed.

Lemma zeroneg_getz : forall y a j, length y = length a -> (j < length a)%nat ->
  getz (zeroneg y a) j = if Qleb (getq y j) 0 then 0%Z else getz a j.
Proof.
  induction y as [|v y IH]; intros a j Hl Hj; destruct a as [|x a]; simpl in *; try discriminate; [lia|].
  destruct j as [|j]; unfold getz, getq; simpl; [reflexivity|]. apply IH; lia.
Qed.

Lemma zeroneg_dotq : forall y a, Forall (fun x => (0 <= x)%Z) a -> (dotq y a <= dotq y (zeroneg y a))%Q.
Proof.
  induction y as [|v y IH]; intros a Ha; destruct a as [|x a]; simpl; try apply Qle_refl.
  inversion Ha; subst. apply Qplus_le_compat; [|apply IH; assumption].
  destruct (Qleb v 0) eqn:E; [|apply Qle_refl].
  apply Qleb_le in E. unfold z2q. simpl (inject_Z 0). rewrite Qmult_0_r.
  setoid_replace 0%Q with (0 * inject_Z x)%Q by ring.
  apply Qmult_le_compat_r; [exact E|]. change 0%Q with (inject_Z 0). rewrite <- Zle_Qle. assumption.
Qed.

Lemma zeroneg_dotz : forall y s a, Forall (fun x => (0 <= x)%Z) s -> Forall (fun x => (0 <= x)%Z) a ->
  (dotz s (zeroneg y a) <= dotz s a)%Z.
Proof.
  induction y as [|v y IH]; intros s a Hs Ha.
  - simpl. destruct s; simpl; [|]; pose proof (dotz_nonneg _ _ Hs Ha); simpl in *; lia.
  - destruct a as [|x a]; [destruct s; simpl; lia|].
    destruct s as [|sv s]; simpl; [lia|].
    inversion Hs; subst. inversion Ha; subst. specialize (IH s a H2 H4).
    destruct (Qleb v 0); nia.
Qed.

Lemma valid_sizes_scaled : forall sizes cap, valid_sizes sizes cap = true ->
  map (fun s => Z.max 1 (s * knap_scale)) sizes = map (fun s => (s * knap_scale)%Z) sizes.
Proof.
  intros sizes cap Hv. apply map_ext_in. intros s Hin. unfold valid_sizes in Hv. rewrite forallb_forall in Hv.
  specialize (Hv s Hin). apply andb_true_iff in Hv. destruct Hv as [H1 _]. apply Z.ltb_lt in H1. unfold knap_scale. lia.
Qed.

Lemma valid_sizes_pos : forall sizes cap, valid_sizes sizes cap = true -> Forall (fun x => (1 <= x)%Z) sizes.
Proof.
  intros sizes cap Hv. apply Forall_forall. intros s Hin. unfold valid_sizes in Hv. rewrite forallb_forall in Hv.
  specialize (Hv s Hin). apply andb_true_iff in Hv. destruct Hv as [H1 _]. apply Z.ltb_lt in H1. lia.
Qed.

Lemma max_copies_nth : forall sizes cap j, (j < length sizes)%nat ->
  getz (max_copies sizes cap) j = (if Z.ltb 0 (getz sizes j) then cap / getz sizes j else 0)%Z.
Proof.
  induction sizes as [|s sizes IH]; intros cap j Hj; simpl in Hj; [lia|].
  destruct j as [|j]; unfold getz; simpl; [reflexivity|]. apply IH. lia.
Qed.

Lemma knapsack_pricing_unfold : forall eps sizes cap values, sizes <> [] ->
  knapsack_pricing eps sizes cap values =
  (let '(best_pat, best_val) := knap_dp eps (map (fun s => Z.max 1 (s * knap_scale)) sizes) (cap * knap_scale)
                                        (max_copies sizes cap) values in
   if Qltb (z2q cap + eps) (z2q (dotz sizes best_pat)) then None else Some (best_pat, best_val)).
Proof. intros eps sizes cap values Hne. destruct sizes; [contradiction | reflexivity]. Qed.

Theorem knapsack_pricing_exact : forall sizes cap y,
  valid_sizes sizes cap = true -> length y = length sizes -> (0 <= cap)%Z ->
  exists pat v, knapsack_pricing 0 sizes cap y = Some (pat, v) /\
    fits sizes cap pat /\ (v == dotq y pat)%Q /\
    forall a, fits sizes cap a -> (dotq y a <= v)%Q.
Proof.
  intros sizes cap y Hv Hly Hcap0.
  destruct (list_eq_dec Z.eq_dec sizes []) as [Hnil|Hne].
  - subst sizes. destruct y; [|discriminate]. exists [], 0%Q. simpl.
    split; [reflexivity|]. split; [unfold fits; simpl; repeat split; [constructor | exact Hcap0]|].
    split; [reflexivity|]. intros a [Hl _]. destruct a; [|discriminate]. simpl. apply Qle_refl.
  - rewrite (knapsack_pricing_unfold 0 sizes cap y Hne).
    rewrite (valid_sizes_scaled sizes cap Hv).
    set (ssi := map (fun s => (s * knap_scale)%Z) sizes).
    set (n := length sizes).
    assert (Hss : length ssi = n) by (unfold ssi; rewrite map_length; reflexivity).
    assert (Hpos0 : Forall (fun x => (1 <= x)%Z) sizes) by (apply (valid_sizes_pos sizes cap Hv)).
    assert (Hpos : Forall (fun x => (1 <= x)%Z) ssi).
    { unfold ssi. apply Forall_forall. intros x Hx. apply in_map_iff in Hx. destruct Hx as [s [Hs Hin]]. subst x.
      rewrite Forall_forall in Hpos0. specialize (Hpos0 s Hin). unfold knap_scale. lia. }
    assert (Hnn0 : Forall (fun x => (0 <= x)%Z) sizes) by (eapply Forall_impl; [|exact Hpos0]; intros x Hx; simpl in Hx; lia).
    assert (Hcop : length (max_copies sizes cap) = n) by (unfold max_copies; rewrite map_length; reflexivity).
    assert (Hcz : (0 <= cap * knap_scale)%Z) by (unfold knap_scale; lia).
    destruct (knap_dp 0 ssi (cap * knap_scale) (max_copies sizes cap) y) as [bp bv] eqn:Edp.
    pose proof (knap_dp_ok 0 ssi (cap * knap_scale) (max_copies sizes cap) y) as Hok. rewrite Edp in Hok. simpl in Hok.
    rewrite Hss in Hok.
    destruct (knap_dp_spec n ssi y Hss Hly Hpos (Z.to_nat (cap * knap_scale)) (max_copies sizes cap) Hcop
                           (cap * knap_scale)%Z bp bv Hcz eq_refl Edp) as [Hval [Hwt Hmax]].
    assert (Hwt' : (dotz sizes bp <= cap)%Z).
    { unfold ssi in Hwt. rewrite dotz_scale in Hwt. unfold knap_scale in Hwt. lia. }
    assert (Hchk : Qltb (z2q cap + 0) (z2q (dotz sizes bp)) = false).
    { apply Qltb_false. rewrite Qplus_0_r. unfold z2q. rewrite <- Zle_Qle. exact Hwt'. }
    rewrite Hchk. exists bp, bv. split; [reflexivity|].
    split; [destruct Hok as [Hl Hf]; unfold fits; repeat split; assumption|].
    split; [exact Hval|].
    intros a [Hla [Hfa Hwa]].
    eapply Qle_trans; [apply (zeroneg_dotq y a Hfa)|].
    assert (Hlya : length y = length a) by (rewrite Hla; exact Hly).
    apply Hmax.
    + split; [rewrite zeroneg_length by exact Hlya; exact Hla | apply zeroneg_nonneg; exact Hfa].
    + intros j Hj. rewrite zeroneg_getz by (rewrite ?Hla; auto).
      unfold Bfun. destruct (Qleb (getq y j) 0); [lia|].
      rewrite max_copies_nth by exact Hj.
      assert (Hsj : (1 <= getz sizes j)%Z).
      { rewrite Forall_forall in Hpos0. apply Hpos0. unfold getz. apply nth_In. exact Hj. }
      replace (Z.ltb 0 (getz sizes j)) with true by (symmetry; apply Z.ltb_lt; lia).
      pose proof (dotz_ge_term sizes a j Hnn0 Hfa) as Hterm.
      assert (getz a j <= cap / getz sizes j)%Z by (apply Z.div_le_lower_bound; lia).
      lia.
    + unfold ssi. rewrite dotz_scale.
      pose proof (zeroneg_dotz y sizes a Hnn0 Hfa). unfold knap_scale. lia.
Qed.
