(* C17 deep, second round - status OPTIMAL of the whole-tree model of solve_bp is the true minimum (eps = 0).
   OPTIMAL is only ever claimed against the ROOT bound ceil(root LP value) of a converged root: the answers given before
   the tree search are those of the root model (Bp.v), sound by DeepIntegral.bp_root_optimal_sound; the answers given by
   the tree search satisfy `proven` against that bound (DeepBpTreeProofs.tree_loop_inv), and the root's dual vector
   certifies the bound (master_lp_duals_ok + exact pricing + weak duality, through OptimalProofs.certified_min). *)
From Coq Require Import List ZArith QArith Qabs Qround Bool Arith Lia Lqa.
From SV Require Import C17.Cg C17.CgSpec C17.Bp C17.GateProofs C17.PoolProofs C17.CgGateProofs C17.BpGateProofs
                       C17.DualityProofs C17.KnapExact C17.OptimalProofs C17.DeepMaster C17.DeepOptimal C17.DeepBp C17.DeepIntegral
                       C17.DeepBpTree C17.DeepBpTreeProofs.
Import ListNotations.

(* ---------------------------------------------------------------- the tree model continues the root model *)
Lemma bnp_link : forall eps gap is_cs pricing demands cols0 mi mn,
  branch_and_price eps gap is_cs pricing demands cols0 mi mn =
  match branch_and_price_root eps gap is_cs pricing demands cols0 mi with
  | None => None
  | Some r =>
      match b_out r with
      | BpDone st sol obj it => Some (mkTO (mkBA st sol obj 0 it) (b_pool r) [])
      | BpTree rb inc =>
          match b_lp r with
          | Some lp => tree_loop eps gap is_cs pricing demands mi mn rb (tree_fuel mn) (b_pool r) inc [(lp, O, [])] 1 0 (b_iters r) []
          | None => None
          end
      | _ => None
      end
  end.
Proof.
  intros. unfold branch_and_price, branch_and_price_root. rewrite bsolve_node_nil.
  destruct (solve_node_lp eps is_cs pricing demands mi cols0) as [[[[[[cols x] du] lp] it] cv]|]; [|reflexivity].
  destruct lp as [lp_obj|]; [|reflexivity].
  destruct (most_fractional eps 0 x (None, 0%Q)) as [fi|].
  - destruct (round_solution eps cols x demands) as [[sol total]|]; [|reflexivity].
    destruct (proven gap _ (inject_Z total)); reflexivity.
  - destruct (covers (build_solution eps cols x) demands); [reflexivity|].
    destruct (round_solution eps cols x demands) as [[sol total]|]; [|reflexivity].
    destruct (proven gap _ (inject_Z total)); reflexivity.
Qed.

Lemma solve_bp_tree_link : forall eps gap sizes width demands mi mn o,
  solve_bp_tree eps gap sizes width demands mi mn = TAns o ->
  match b_out (solve_bp_root eps gap sizes width demands mi) with
  | BpDone st sol obj it => to_ans o = mkBA st sol obj 0 it
  | BpTree rb inc =>
      exists lp, b_lp (solve_bp_root eps gap sizes width demands mi) = Some lp /\
        tree_loop eps gap true (cs_pricing eps sizes width) demands mi mn rb (tree_fuel mn)
                  (b_pool (solve_bp_root eps gap sizes width demands mi)) inc [(lp, O, [])] 1 0
                  (b_iters (solve_bp_root eps gap sizes width demands mi)) [] = Some o
  | _ => False
  end.
Proof.
  intros eps gap sizes width demands mi mn o H. unfold solve_bp_tree in H. unfold solve_bp_root.
  destruct demands as [|d0 demands'] eqn:Ed; [inversion H; reflexivity|]. rewrite <- Ed in *.
  destruct (forallb (Z.leb 0) demands); cbn [negb] in *; [|discriminate].
  destruct (forallb (Z.eqb 0) demands); [inversion H; reflexivity|].
  destruct (Nat.eqb (length sizes) (length demands)); cbn [negb] in *; [|discriminate].
  destruct (valid_sizes sizes width); cbn [negb] in *; [|discriminate].
  rewrite bnp_link in H.
  destruct (branch_and_price_root eps gap true (cs_pricing eps sizes width) demands (initial_patterns sizes width demands) mi)
    as [r|]; [|discriminate].
  destruct (b_out r) as [st sol obj it|rb inc| |]; try discriminate.
  - inversion H; reflexivity.
  - destruct (b_lp r) as [lp|]; [|discriminate].
    destruct (tree_loop eps gap true (cs_pricing eps sizes width) demands mi mn rb (tree_fuel mn) (b_pool r) inc [(lp, 0%nat, [])] 1 0 (b_iters r) [])
      as [o'|] eqn:Et; [|discriminate].
    inversion H; subst o'. exists lp. split; [reflexivity | exact Et].
Qed.

(* ---------------------------------------------------------------- what the root hands to the tree search (eps = 0) *)
Definition bp_tree_entry_facts (sizes : list Z) (width : Z) (demands : list Z) (R : bp_root) (rb : option Z) (inc : option (plan * Z)) : Prop :=
  exists lp,
    length sizes = length demands /\ valid_sizes sizes width = true /\ (0 <= width)%Z /\
    forallb (Z.leb 0) demands = true /\
    pool_ok sizes width (b_pool R) /\ b_lp R = Some lp /\ best_ok sizes width demands inc /\
    forall rbv, rb = Some rbv ->
      rbv = Qceil (lp - 0) /\
      master_lp true 0 (b_pool R) demands = Some (b_x R, b_duals R, Some lp) /\
      exists np pv, knapsack_pricing 0 sizes width (b_duals R) = Some (np, pv) /\ (pv <= 1)%Q.

Lemma bp_root_tree_inv : forall gap sizes width demands max_iter rb inc,
  b_out (solve_bp_root 0 gap sizes width demands max_iter) = BpTree rb inc ->
  bp_tree_entry_facts sizes width demands (solve_bp_root 0 gap sizes width demands max_iter) rb inc.
Proof.
  intros gap sizes width demands max_iter rb inc H. unfold solve_bp_root in *.
  destruct demands as [|d0 demands'] eqn:Ed; [simpl in H; discriminate|]. rewrite <- Ed in *.
  destruct (forallb (Z.leb 0) demands) eqn:Enn; cbn [negb] in *; [|simpl in H; discriminate].
  destruct (forallb (Z.eqb 0) demands) eqn:Ez; [simpl in H; discriminate|].
  destruct (Nat.eqb (length sizes) (length demands)) eqn:El; cbn [negb] in *; [|simpl in H; discriminate].
  destruct (valid_sizes sizes width) eqn:Ev; cbn [negb] in *; [|simpl in H; discriminate].
  apply Nat.eqb_eq in El.
  assert (Hw : (0 <= width)%Z).
  { assert (Hj : (0 < length sizes)%nat) by (rewrite El, Ed; simpl; lia).
    pose proof (valid_sizes_nth _ _ _ Ev Hj). lia. }
  destruct (branch_and_price_root 0 gap true (cs_pricing 0 sizes width) demands (initial_patterns sizes width demands) max_iter)
    as [r|] eqn:Eb; [|simpl in H; discriminate].
  unfold branch_and_price_root in Eb.
  destruct (solve_node_lp 0 true (cs_pricing 0 sizes width) demands max_iter (initial_patterns sizes width demands))
    as [[[[[[cols x] duals] lp] cg_iters] conv]|] eqn:En; [|discriminate].
  assert (He0 : (0 <= 0)%Q) by apply Qle_refl. assert (He1 : (0 < 1)%Q) by reflexivity.
  assert (Hpool : pool_ok sizes width cols).
  { apply (solve_node_lp_pool_ok _ _ _ _ _ _ _ _ _ _ _ _ He0 He1 Hw (initial_patterns_ok _ _ demands Ev) En). }
  destruct lp as [lp_obj|]; [|inversion Eb; subst r; simpl in H; discriminate].
  assert (Hrb : forall rbv, (if conv then Some (Qceil (lp_obj - 0)) else None) = Some rbv ->
            rbv = Qceil (lp_obj - 0) /\ master_lp true 0 cols demands = Some (x, duals, Some lp_obj) /\
            exists np pv, knapsack_pricing 0 sizes width duals = Some (np, pv) /\ (pv <= 1)%Q).
  { intros rbv E. destruct conv; [|discriminate]. inversion E; subst rbv. split; [reflexivity|].
    destruct (solve_node_lp_conv _ _ _ _ _ _ _ _ _ _ _ En) as [Em [np [pv [Ek Hpv]]]].
    split; [exact Em|]. exists np, pv. split; [exact Ek|]. apply Qleb_le in Hpv. rewrite Qplus_0_r in Hpv. exact Hpv. }
  assert (Hafter : forall r',
            match round_solution 0 cols x demands with
            | Some (sol0, total) =>
                if proven gap (if conv then Some (Qceil (lp_obj - 0)) else None) (inject_Z total)
                then Some (mkB (BpDone OPTIMAL (Some sol0) (Some total) cg_iters) cols x duals (Some lp_obj) cg_iters conv)
                else Some (mkB (BpTree (if conv then Some (Qceil (lp_obj - 0)) else None) (Some (sol0, total))) cols x duals (Some lp_obj) cg_iters conv)
            | None => Some (mkB (BpTree (if conv then Some (Qceil (lp_obj - 0)) else None) None) cols x duals (Some lp_obj) cg_iters conv)
            end = Some r' ->
            b_out r' = BpTree rb inc ->
            bp_tree_entry_facts sizes width demands r' rb inc).
  { intros r' Hr' Hout.
    destruct (round_solution 0 cols x demands) as [[sol0 total]|] eqn:Er.
    - pose proof (round_solution_ok 0 sizes width cols x demands sol0 total Hpool Er) as Hok.
      destruct (proven gap _ (inject_Z total)) eqn:Ep; inversion Hr'; subst r'; simpl in Hout; [discriminate|].
      injection Hout as E1 E2. subst rb inc.
      exists lp_obj. cbn [b_pool b_x b_duals b_lp]. repeat (split; [first [exact El | exact Ev | exact Hw | exact Enn | exact Hpool | reflexivity | exact Hok]|]).
      exact Hrb.
    - inversion Hr'; subst r'. simpl in Hout. injection Hout as E1 E2. subst rb inc.
      exists lp_obj. cbn [b_pool b_x b_duals b_lp]. repeat (split; [first [exact El | exact Ev | exact Hw | exact Enn | exact Hpool | reflexivity | exact I]|]).
      exact Hrb. }
  destruct (most_fractional 0 0 x (None, 0%Q)) as [fi|] eqn:Emf.
  - apply (Hafter r Eb H).
  - destruct (covers (build_solution 0 cols x) demands) eqn:Ec.
    + inversion Eb; subst r. simpl in H. discriminate.
    + apply (Hafter r Eb H).
Qed.

(* ---------------------------------------------------------------- C17_bp_tree_optimal_sound *)
Theorem bp_tree_optimal_sound : forall gap sizes width demands mi mn o obj,
  solve_bp_tree 0 gap sizes width demands mi mn = TAns o ->
  ba_status (to_ans o) = OPTIMAL -> ba_obj (to_ans o) = Some obj ->
  gap_ok gap obj = true ->
  is_min (fits sizes width) demands obj.
Proof.
  intros gap sizes width demands mi mn o obj H Hs Ho Hg.
  assert (He0 : (0 <= 0)%Q) by apply Qle_refl. assert (He1 : (0 < 1)%Q) by reflexivity.
  assert (Hne : ba_status (to_ans o) <> INFEASIBLE) by (rewrite Hs; discriminate).
  destruct (bp_tree_gate 0 gap sizes width demands mi mn o He0 He1 H Hne) as [sol [obj' [Esol [Eobj Hok]]]].
  rewrite Ho in Eobj. inversion Eobj; subst obj'.
  pose proof (solve_bp_tree_link 0 gap sizes width demands mi mn o H) as Hl.
  set (R := solve_bp_root 0 gap sizes width demands mi) in *.
  destruct (b_out R) as [st sol0 obj0 it|rb inc| |] eqn:Eout; try contradiction.
  - (* answered before the tree search: the root model's answer *)
    rewrite Hl in Hs, Ho, Esol. cbn [ba_status ba_obj ba_sol] in Hs, Ho, Esol. subst st sol0 obj0.
    apply (bp_root_optimal_sound gap sizes width demands mi sol obj it Eout Hg).
  - (* answered by the tree search: proven against the root bound *)
    destruct Hl as [lp [Elp Ht]].
    destruct (bp_root_tree_inv gap sizes width demands mi rb inc Eout)
      as [lp' [F1 [F2 [F3 [F4 [Hpool [Elp' [Hinc Hrb]]]]]]]].
    fold R in Hpool, Elp', Hrb. rewrite Elp in Elp'. inversion Elp'; subst lp'.
    destruct (tree_loop_inv 0 gap sizes width demands mi mn rb He0 He1 F3 _ _ _ _ _ _ _ _ _ Hpool Hinc Ht) as [Hans _].
    unfold ans_ok in Hans. rewrite Hs in Hans. destruct Hans as [sol1 [obj1 [E1 [E2 [_ Hpr]]]]].
    rewrite Ho in E2. inversion E2; subst obj1. specialize (Hpr eq_refl).
    destruct rb as [rbv|]; [|simpl in Hpr; discriminate].
    destruct (Hrb rbv eq_refl) as [Erb [Em [np [pv [Ek Hpv]]]]].
    pose proof (proven_bound gap rbv obj Hg Hpr) as Hle.
    apply (certified_min sizes width demands sol obj (b_duals R)); [exact Hok|].
    pose proof (master_lp_duals_length _ _ _ _ _ _ _ Em) as Hld.
    destruct (master_lp_duals_ok true _ _ _ _ _ Em) as [Hy [_ Hlp]]. specialize (Hlp lp eq_refl).
    unfold dual_cert_check. apply orb_true_iff. right.
    rewrite Ek. repeat (apply andb_true_iff; split).
    + apply Nat.eqb_eq. lia.
    + apply Nat.eqb_eq. lia.
    + exact F2.
    + apply Z.leb_le. exact F3.
    + apply forallb_Qleb0_intro. exact Hy.
    + apply Qleb_le. exact Hpv.
    + apply Z.leb_le. subst rbv. unfold Qceil in Hle.
      assert (E : (lp - 0 == lp)%Q) by ring. rewrite E in Hle. rewrite Hlp in Hle. exact Hle.
Qed.
