(* C17 deep, second round - model of the WHOLE of solvor/bp.py: on top of the root part (Bp.v) the best-first tree search of
   `_branch_and_price` (heap of (lp_obj, counter, node), pruning, incumbent updates, branching on the most fractional
   column), node records with their column bounds, `_solve_node_lp` with its column-generation loop at every node and
   `_solve_bounded_master_lp` WITH column bounds.  Definitions only; over Q with `eps` a parameter like Cg.v / Bp.v.

   How the code is read.
   * A node is `_BPNode(bound, column_bounds, depth)`; `depth` is never read, `bound` is always equal to the heap key it is
     pushed with, so a heap entry is `(lp_obj, counter, column_bounds)` (`hentry`).  `column_bounds` is a tuple of
     (col_idx, lower, upper) in the order the branchings were made along the path (`cbound`; upper None = float("inf")).
   * `col_bounds = {idx: (lo, hi) for idx, lo, hi in node.column_bounds}` : a LATER bound on the same column REPLACES the
     earlier one (it is not intersected with it) - `cb_dict` keeps that; the dictionary is only ever walked through
     `sorted(col_bounds.keys())`, so it is kept sorted by column index.
   * `_solve_bounded_master_lp`: variables x (n) | demand surplus (m) | slack of the upper-bound rows (n_upper) | surplus of the
     lower-bound rows (n_lower) | artificials (m + n_lower); rows = demand rows, then one row  x_idx - s + a = lo  per bound
     with lo > eps, then one row  x_idx + s = hi  per bound with hi < inf (both in increasing idx).  The phase-1 objective
     is built by looking for the row r with abs(tab[r][art_col] - 1.0) < eps: for eps > 0 that is row i for artificial i
     (demand rows and lower-bound rows come first, in the order of their artificials), which is what the model hard-wires
     (same convention as Bp.v: eps = 0 is the eps -> 0 limit of the model).  simplex_phase / drive_out_artificials /
     _pivot are the ones of Cg.v.  With no bounds the tableau is the one of `master_lp true` (proved:
     DeepBpTreeProofs.bounded_master_nil).
   * the column pool `columns` / `column_set` is ONE mutable list shared by all nodes: every node LP may append to it and
     column indices stored in bounds stay valid; the model threads it through the loop.
   * `heappop` returns the least entry for the tuple order (lp_obj, counter); counters are distinct, so the node record is
     never compared and the result does not depend on the heap's internal layout: the heap is a list, `heap_min` finds the
     least (key, counter), `heap_remove` deletes it.
   * best_obj is float("inf") or an integer-valued float: `option (plan * Z)`.
   * `while tree and nodes_explored < max_nodes` : every iteration pops one entry and an explored node pushes at most two, so
     at most 2 * max_nodes + 1 iterations happen; the model runs on that fuel (+1) and answers None should it run out
     (as it does when a simplex_phase call uses up its 100000 iterations or knapsack_pricing takes its greedy fallback).
   * on_progress is None. *)
From Coq Require Import List ZArith QArith Qabs Qround Bool Arith.
From SV Require Import C17.Cg C17.Bp.
Import ListNotations.
Open Scope Q_scope.

(* ---------------------------------------------------------------- column bounds *)
Definition cbound := (nat * Q * option Q)%type.
Definition cb_idx (e : cbound) : nat := fst (fst e).
Definition cb_lo (e : cbound) : Q := snd (fst e).
Definition cb_hi (e : cbound) : option Q := snd e.

Fixpoint cb_insert (e : cbound) (d : list cbound) : list cbound :=
  match d with
  | [] => [e]
  | e' :: d' => if Nat.ltb (cb_idx e) (cb_idx e') then e :: d
                else if Nat.eqb (cb_idx e) (cb_idx e') then e :: d'
                else e' :: cb_insert e d'
  end.
(* {idx: (lo, hi) for idx, lo, hi in node.column_bounds}, in the order of sorted(col_bounds.keys()) *)
Definition cb_dict (nb : list cbound) : list cbound := fold_left (fun d e => cb_insert e d) nb [].

Definition has_upper (e : cbound) : bool := match cb_hi e with Some _ => true | None => false end.
Definition upper_val (e : cbound) : Q := match cb_hi e with Some h => h | None => 0 end.

(* ---------------------------------------------------------------- _solve_bounded_master_lp(columns, demands, col_bounds, eps)
   `cb` is the dictionary (sorted by column index).  None = a simplex_phase call used up its 100000 iterations. *)
Definition bounded_master_lp (eps : Q) (columns : list pattern) (demands : list Z) (cb : list cbound) : option lp_result :=
  let m := length demands in
  let n := length columns in
  match columns with
  | [] => Some ([], repeat 0 m, None)
  | _ =>
      let lows := filter (fun e => Qltb eps (cb_lo e)) cb in          (* if lo > eps *)
      let ups := filter has_upper cb in                               (* if hi < float("inf") *)
      let nl := length lows in
      let nu := length ups in
      let n_orig := (n + m + nu + nl)%nat in
      let n_art := (m + nl)%nat in
      let n_rows := (m + nl + nu)%nat in
      let drows := mapi (fun i d => map (fun c => z2q (getz c i)) columns ++ unitq m i (-(1)) ++ repeat 0 nu ++ repeat 0 nl
                                      ++ unitq n_art i 1 ++ [z2q d]) demands in
      let lrows := mapi (fun k e => unitq n (cb_idx e) 1 ++ repeat 0 m ++ repeat 0 nu ++ unitq nl k (-(1))
                                      ++ unitq n_art (m + k) 1 ++ [cb_lo e]) lows in
      let urows := mapi (fun k e => unitq n (cb_idx e) 1 ++ repeat 0 m ++ unitq nu k 1 ++ repeat 0 nl
                                      ++ repeat 0 n_art ++ [upper_val e]) ups in
      let rows := drows ++ lrows ++ urows in
      (* phase 1 objective: for each artificial i: tab[-1][j] -= tab[row of i][j] for all j; tab[-1][art_col] = 0 *)
      let obj1 := fst (fold_left (fun (st : list Q * nat) r => (set_nth (n_orig + snd st) 0 (vsub (fst st) r), S (snd st)))
                                 (drows ++ lrows) (repeat 0 (S (n_orig + n_art)), O)) in
      let basis0 := seq n_orig n_art ++ seq (n + m) nu in
      let '(T1, basis1, ok1) := simplex_phase eps simplex_fuel n_orig (mkT rows obj1) basis0 in
      if negb ok1 then None
      else if Qltb (lastq (t_obj T1)) (- eps) then Some (repeat 0 n, repeat 0 m, None)
      else
        let '(T1d, basis1d) := drive_out_artificials eps n_orig n_rows T1 basis1 in
        let obj2_0 := repeat 1 n ++ repeat 0 (S (m + nu + nl + n_art)) in
        let obj2 := fst (fold_left (fun (st : list Q * nat) r =>
                                      let b := nth (snd st) basis1d O in
                                      let cost := if Nat.ltb b n then 1 else 0 in
                                      ((if Qltb eps (Qabs cost) then vsubmul cost (fst st) r else fst st), S (snd st)))
                                   (t_rows T1d) (obj2_0, O)) in
        let '(T2, basis2, ok2) := simplex_phase eps simplex_fuel n_orig (mkT (t_rows T1d) obj2) basis1d in
        if negb ok2 then None
        else
          let x := fst (fold_left (fun (st : list Q * nat) r =>
                                     let b := nth (snd st) basis2 O in
                                     ((if Nat.ltb b n then set_nth b (Qred (qmax 0 (lastq r))) (fst st) else fst st), S (snd st)))
                                  (t_rows T2) (repeat 0 n, O)) in
          let duals := map (fun i => getq (t_obj T2) (n + i)) (seq 0 m) in
          Some (x, duals, Some (Qred (- lastq (t_obj T2))))
  end.

(* ---------------------------------------------------------------- _solve_node_lp(columns, column_set, demands, col_bounds, ...)
   Same loop as Bp.node_loop, over the bounded master LP.  Result as in Bp.v: (columns, x_vals, duals, lp_obj, cg_iters,
   converged). *)
Fixpoint bnode_loop (eps : Q) (is_cs : bool) (pricing : list Q -> option (option pattern * Q)) (demands : list Z)
         (cb : list cbound) (fuel : nat) (cg_iters : nat) (columns : list pattern)
  : option (node_result + (list pattern * nat * bool)) :=
  match fuel with
  | O => Some (inr (columns, cg_iters, false))
  | S fuel' =>
      match bounded_master_lp eps columns demands cb with
      | None => None
      | Some (x, duals, None) => Some (inl (columns, x, duals, None, cg_iters, false))     (* if lp_obj == inf: return *)
      | Some (x, duals, Some _) =>
          match pricing duals with
          | None => None
          | Some (new_col, value) =>
              let stop := if is_cs then Qleb value (1 + eps)
                          else match new_col with None => true | Some _ => Qleb (- eps) value end in
              if stop then Some (inr (columns, cg_iters, true))
              else bnode_loop eps is_cs pricing demands cb fuel' (S cg_iters)
                              (match new_col with
                               | Some c => if pat_mem c columns then columns else columns ++ [c]
                               | None => columns
                               end)
          end
      end
  end.

Definition bsolve_node_lp (eps : Q) (is_cs : bool) (pricing : list Q -> option (option pattern * Q)) (demands : list Z)
           (cb : list cbound) (max_iter : nat) (columns : list pattern) : option node_result :=
  match bnode_loop eps is_cs pricing demands cb max_iter 0 columns with
  | None => None
  | Some (inl r) => Some r
  | Some (inr (cols, it, conv)) =>
      match bounded_master_lp eps cols demands cb with
      | None => None
      | Some (x, duals, lp) => Some (cols, x, duals, lp, it, conv)
      end
  end.

(* ---------------------------------------------------------------- the heap *)
Definition hentry := (Q * nat * list cbound)%type.          (* (lp_obj, counter, node.column_bounds) *)
Definition h_key (e : hentry) : Q := fst (fst e).
Definition h_cnt (e : hentry) : nat := snd (fst e).
Definition h_nb (e : hentry) : list cbound := snd e.

(* tuple order of Python on (lp_obj, counter, ...) *)
Definition hentry_lt (a b : hentry) : bool :=
  if Qeq_bool (h_key a) (h_key b) then Nat.ltb (h_cnt a) (h_cnt b) else Qltb (h_key a) (h_key b).
Fixpoint heap_min (best : hentry) (l : list hentry) : hentry :=
  match l with
  | [] => best
  | e :: l' => heap_min (if hentry_lt e best then e else best) l'
  end.
Definition heap_remove (c : nat) (l : list hentry) : list hentry := filter (fun e => negb (Nat.eqb (h_cnt e) c)) l.

(* ---------------------------------------------------------------- answers *)
Record bp_ans := mkBA {
  ba_status : Cg.status; ba_sol : option plan; ba_obj : option Z;
  ba_nodes : nat;          (* Result.iterations  = nodes_explored *)
  ba_iters : nat }.        (* Result.evaluations = total_cg_iters *)

(* what the model returns besides the answer: the final column pool and the explored nodes (column_bounds, node LP value),
   most recent first - neither is part of solve_bp's result; they are there for debugging a correspondence failure *)
Record tree_out := mkTO { to_ans : bp_ans; to_pool : list pattern; to_trace : list (list cbound * option Q) }.

(* v >= best_obj - eps *)
Definition dominated (eps : Q) (best : option (plan * Z)) (v : Q) : bool :=
  match best with None => false | Some (_, b) => Qleb (inject_Z b - eps) v end.
(* obj < best_obj - eps *)
Definition improves (eps : Q) (best : option (plan * Z)) (obj : Z) : bool :=
  match best with None => true | Some (_, b) => Qltb (inject_Z obj) (inject_Z b - eps) end.

(* the two `return`s after the loop *)
Definition tree_finish (gap_tol : Q) (rb : option Z) (cols : list pattern) (best : option (plan * Z)) (nodes total : nat)
           (trace : list (list cbound * option Q)) : tree_out :=
  match best with
  | None => mkTO (mkBA INFEASIBLE None None nodes total) cols trace
  | Some (sol, obj) =>
      mkTO (mkBA (if proven gap_tol rb (inject_Z obj) then OPTIMAL else FEASIBLE) (Some sol) (Some obj) nodes total) cols trace
  end.

(* while tree and nodes_explored < max_nodes: ... *)
Fixpoint tree_loop (eps gap_tol : Q) (is_cs : bool) (pricing : list Q -> option (option pattern * Q)) (demands : list Z)
         (max_iter max_nodes : nat) (rb : option Z) (fuel : nat)
         (cols : list pattern) (best : option (plan * Z)) (heap : list hentry) (counter nodes total : nat)
         (trace : list (list cbound * option Q)) : option tree_out :=
  match fuel with
  | O => None
  | S fuel' =>
      match heap with
      | [] => Some (tree_finish gap_tol rb cols best nodes total trace)
      | e0 :: rest =>
          if Nat.leb max_nodes nodes then Some (tree_finish gap_tol rb cols best nodes total trace)
          else
            let e := heap_min e0 rest in                                  (* _, _, node = heappop(tree) *)
            let heap' := heap_remove (h_cnt e) heap in
            let again := tree_loop eps gap_tol is_cs pricing demands max_iter max_nodes rb fuel' in
            if dominated eps best (h_key e)                               (* if node.bound >= best_obj - eps: continue *)
            then again cols best heap' counter nodes total trace
            else
              match bsolve_node_lp eps is_cs pricing demands (cb_dict (h_nb e)) max_iter cols with
              | None => None
              | Some (cols', x, _, lp, it, _) =>
                  let total' := (total + it)%nat in
                  let nodes' := S nodes in
                  let trace' := (h_nb e, lp) :: trace in
                  match lp with
                  | None => again cols' best heap' counter nodes' total' trace'           (* lp_obj == inf: continue *)
                  | Some lpv =>
                      if dominated eps best lpv then again cols' best heap' counter nodes' total' trace'
                      else
                        match most_fractional eps 0 x (None, 0) with
                        | None =>
                            let sol := build_solution eps cols' x in
                            let obj := plan_total sol in
                            if improves eps best obj && covers sol demands then
                              if proven gap_tol rb (inject_Z obj)
                              then Some (mkTO (mkBA OPTIMAL (Some sol) (Some obj) nodes' total') cols' trace')
                              else again cols' (Some (sol, obj)) heap' counter nodes' total' trace'
                            else again cols' best heap' counter nodes' total' trace'
                        | Some fi =>
                            let val := getq x fi in
                            let left := (lpv, counter, h_nb e ++ [(fi, 0, Some (inject_Z (Qfloor val)))]) in
                            let right := (lpv, S counter, h_nb e ++ [(fi, inject_Z (Qceiling val), None)]) in
                            again cols' best (heap' ++ [left; right]) (S (S counter)) nodes' total' trace'
                        end
                  end
              end
      end
  end.

Definition tree_fuel (max_nodes : nat) : nat := S (S (2 * max_nodes)).

(* def _branch_and_price(demands, columns, column_set, pricing_fn, is_cutting_stock, max_iter, max_nodes, gap_tol, eps, ...) *)
Definition branch_and_price (eps gap_tol : Q) (is_cs : bool) (pricing : list Q -> option (option pattern * Q))
           (demands : list Z) (columns0 : list pattern) (max_iter max_nodes : nat) : option tree_out :=
  match bsolve_node_lp eps is_cs pricing demands [] max_iter columns0 with
  | None => None
  | Some (cols, x, _, lp, cg_iters, conv) =>
      match lp with
      | None => Some (mkTO (mkBA INFEASIBLE None None 0 cg_iters) cols [])
      | Some lp_obj =>
          let rb := if conv then Some (Qceil (lp_obj - eps)) else None in
          let enter best := tree_loop eps gap_tol is_cs pricing demands max_iter max_nodes rb (tree_fuel max_nodes)
                                      cols best [(lp_obj, O, [])] 1 0 cg_iters [] in
          let after_integral :=
            match round_solution eps cols x demands with
            | Some (sol, total) =>
                if proven gap_tol rb (inject_Z total)
                then Some (mkTO (mkBA OPTIMAL (Some sol) (Some total) 0 cg_iters) cols [])
                else enter (Some (sol, total))
            | None => enter None
            end in
          match most_fractional eps 0 x (None, 0) with
          | None =>
              let sol := build_solution eps cols x in
              if covers sol demands
              then Some (mkTO (mkBA (if proven gap_tol rb lp_obj then OPTIMAL else FEASIBLE) (Some sol) (Some (plan_total sol))
                                    0 cg_iters) cols [])
              else after_integral
          | Some _ => after_integral
          end
      end
  end.

Inductive tree_outcome :=
| TAns (o : tree_out)
| TInvalid            (* ValueError from input validation *)
| TNoFuel.            (* not modelled: simplex_phase ran 100000 iterations / knapsack fallback / loop fuel *)

Definition tree_trivial : tree_out := mkTO (mkBA OPTIMAL (Some []) (Some 0%Z) 0 0) [] [].

(* solve_bp(demands, roll_width=, piece_sizes=, max_iter=, max_nodes=) *)
Definition solve_bp_tree (eps gap_tol : Q) (sizes : list Z) (width : Z) (demands : list Z) (max_iter max_nodes : nat)
  : tree_outcome :=
  match demands with
  | [] => TAns tree_trivial
  | _ =>
      if negb (forallb (Z.leb 0) demands) then TInvalid
      else if forallb (Z.eqb 0) demands then TAns tree_trivial
      else if negb (Nat.eqb (length sizes) (length demands)) then TInvalid
      else if negb (valid_sizes sizes width) then TInvalid
      else match branch_and_price eps gap_tol true (cs_pricing eps sizes width) demands
                                  (initial_patterns sizes width demands) max_iter max_nodes with
           | None => TNoFuel
           | Some r => TAns r
           end
  end.

(* solve_bp(demands, pricing_fn=, initial_columns=, max_iter=, max_nodes=) *)
Definition solve_bp_tree_custom (eps gap_tol : Q) (pricing : pricing_fn) (demands : list Z) (init : list pattern)
           (max_iter max_nodes : nat) : tree_outcome :=
  match demands with
  | [] => TAns tree_trivial
  | _ =>
      if negb (forallb (Z.leb 0) demands) then TInvalid
      else if forallb (Z.eqb 0) demands then TAns tree_trivial
      else if negb (forallb (fun c => Nat.eqb (length c) (length demands)) init) then TInvalid
      else match branch_and_price eps gap_tol false (fun y => Some (pricing y)) demands init max_iter max_nodes with
           | None => TNoFuel
           | Some r => TAns r
           end
  end.
