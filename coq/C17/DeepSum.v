(* C17 deep - finite sums over Q indexed by nat, and entry-wise descriptions of the row operations of the master simplex
   (rscale_div, vsubmul, elim_row with eps = 0, mapi, set_nth).  Lemmas only. *)
From Coq Require Import List ZArith QArith Qabs Qround Bool Arith Lia Lqa Setoid.
From SV Require Import C17.Cg C17.CgSpec C17.GateProofs C17.PoolProofs.
Import ListNotations.
Open Scope Q_scope.

(* sum_{i = s}^{s+k-1} f i *)
Fixpoint sumN (f : nat -> Q) (s k : nat) : Q :=
  match k with
  | O => 0
  | S k' => f s + sumN f (S s) k'
  end.

Lemma sumN_ext : forall f g k s,
  (forall i, (s <= i < s + k)%nat -> f i == g i) -> sumN f s k == sumN g s k.
Proof.
  intros f g k. induction k as [|k IH]; intros s H; simpl; [reflexivity|].
  rewrite (H s) by lia. rewrite (IH (S s)); [reflexivity|]. intros i Hi. apply H. lia.
Qed.

Lemma sumN_zero : forall k s, sumN (fun _ => 0) s k == 0.
Proof. induction k as [|k IH]; intros s; simpl; [reflexivity|]. rewrite IH. ring. Qed.

Lemma sumN_lin : forall f g c k s,
  sumN (fun i => f i - c * g i) s k == sumN f s k - c * sumN g s k.
Proof.
  intros f g c k. induction k as [|k IH]; intros s; simpl; [ring|]. rewrite IH. ring.
Qed.

Lemma sumN_plus : forall f g k s,
  sumN (fun i => f i + g i) s k == sumN f s k + sumN g s k.
Proof.
  intros f g k. induction k as [|k IH]; intros s; simpl; [ring|]. rewrite IH. ring.
Qed.

Lemma sumN_scal : forall f c k s, sumN (fun i => c * f i) s k == c * sumN f s k.
Proof.
  intros f c k. induction k as [|k IH]; intros s; simpl; [ring|]. rewrite IH. ring.
Qed.

(* sum of  [i = l] * c *)
Lemma sumN_delta_out : forall (c : Q) l k s, (l < s \/ s + k <= l)%nat ->
  sumN (fun i => if Nat.eqb i l then c else 0) s k == 0.
Proof.
  intros c l k. induction k as [|k IH]; intros s H; simpl; [reflexivity|].
  destruct (Nat.eqb s l) eqn:E; [apply Nat.eqb_eq in E; lia|]. rewrite IH by lia. ring.
Qed.

Lemma sumN_delta : forall (c : Q) l k s, (s <= l < s + k)%nat ->
  sumN (fun i => if Nat.eqb i l then c else 0) s k == c.
Proof.
  intros c l k. induction k as [|k IH]; intros s H; simpl; [lia|].
  destruct (Nat.eqb s l) eqn:E.
  - apply Nat.eqb_eq in E. rewrite sumN_delta_out by lia. ring.
  - apply Nat.eqb_neq in E. rewrite IH by lia. ring.
Qed.

Lemma sumN_nonpos : forall f k s, (forall i, (s <= i < s + k)%nat -> f i <= 0) -> sumN f s k <= 0.
Proof.
  intros f k. induction k as [|k IH]; intros s H; simpl; [apply Qle_refl|].
  assert (H1 : f s <= 0) by (apply H; lia).
  assert (H2 : sumN f (S s) k <= 0) by (apply IH; intros i Hi; apply H; lia). lra.
Qed.

(* dotq of a tabulated vector *)
Lemma dotq_tab : forall (g : nat -> Q) k s p,
  dotq (map g (seq s k)) p == sumN (fun i => g i * z2q (getz p (i - s))) s k.
Proof.
  intros g k. induction k as [|k IH]; intros s p; simpl; [reflexivity|].
  destruct p as [|x p].
  - rewrite (sumN_ext _ (fun _ => 0)).
    + rewrite sumN_zero. unfold getz, z2q. destruct (s - s)%nat; simpl; ring.
    + intros i Hi. unfold getz, z2q. destruct (i - s)%nat; simpl; ring.
  - rewrite IH. rewrite Nat.sub_diag. unfold getz at 2. simpl nth.
    apply Qplus_comp; [reflexivity|]. apply sumN_ext. intros i Hi.
    replace (i - s)%nat with (S (i - S s)) by lia. unfold getz. simpl. reflexivity.
Qed.

Lemma dotq_tab0 : forall (g : nat -> Q) k p,
  dotq (map g (seq 0 k)) p == sumN (fun i => g i * z2q (getz p i)) 0 k.
Proof.
  intros g k p. rewrite dotq_tab. apply sumN_ext. intros i Hi. rewrite Nat.sub_0_r. reflexivity.
Qed.

(* ---------------------------------------------------------------- entries of the row operations *)
Lemma rscale_div_length : forall piv r, length (rscale_div piv r) = length r.
Proof. intros. unfold rscale_div. apply map_length. Qed.

Lemma getq_rscale_div : forall piv r j, getq (rscale_div piv r) j == getq r j / piv.
Proof.
  intros piv r j. unfold getq, rscale_div.
  destruct (Nat.lt_ge_cases j (length r)) as [Hj|Hj].
  - rewrite (nth_indep _ 0 (Qred (0 / piv))) by (rewrite map_length; exact Hj).
    rewrite (map_nth (fun x => Qred (x / piv))). apply Qred_correct.
  - rewrite !nth_overflow by (rewrite ?map_length; exact Hj). unfold Qdiv. ring.
Qed.

Lemma vsubmul_length : forall f a p, length (vsubmul f a p) = length a.
Proof. intros f a. induction a as [|x a IH]; intros p; simpl; [reflexivity|]. rewrite IH. reflexivity. Qed.

Lemma getq_vsubmul : forall f a p j, (j < length a)%nat ->
  getq (vsubmul f a p) j == getq a j - f * getq p j.
Proof.
  intros f a. induction a as [|x a IH]; intros p j Hj; simpl in Hj; [lia|].
  destruct j as [|j].
  - unfold getq. cbn [vsubmul nth]. rewrite Qred_correct. destruct p; cbn [hd nth]; reflexivity.
  - unfold getq in *. cbn [vsubmul nth]. rewrite IH by lia. destruct p as [|y p]; cbn [tl nth]; [destruct j; reflexivity | reflexivity].
Qed.

Lemma Qabs_pos_false : forall f, Qltb 0 (Qabs f) = false -> f == 0.
Proof.
  intros f H. apply Qltb_false in H. pose proof (Qabs_nonneg f) as Hn.
  assert (H0 : Qabs f <= 0) by exact H.
  destruct (Qabs_Qle_condition f 0) as [H2 _]. specialize (H2 H0). lra.
Qed.

Lemma elim_row_length : forall eps e p r, length (elim_row eps e p r) = length r.
Proof. intros. unfold elim_row. destruct (Qltb eps (Qabs (getq r e))); [apply vsubmul_length | reflexivity]. Qed.

Lemma getq_elim_row : forall e p r j, (j < length r)%nat ->
  getq (elim_row 0 e p r) j == getq r j - getq r e * getq p j.
Proof.
  intros e p r j Hj. unfold elim_row. destruct (Qltb 0 (Qabs (getq r e))) eqn:E.
  - apply getq_vsubmul. exact Hj.
  - apply Qabs_pos_false in E. rewrite E. ring.
Qed.

(* ---------------------------------------------------------------- mapi / set_nth / nth *)
Lemma nth_mapi_from_gen : forall {A B} (f : nat -> A -> B) l k j da db, (j < length l)%nat ->
  nth j (mapi_from k f l) db = f (k + j)%nat (nth j l da).
Proof.
  intros A B f l. induction l as [|x l IH]; intros k j da db Hj; simpl in *; [lia|].
  destruct j as [|j]; [rewrite Nat.add_0_r; reflexivity|].
  rewrite (IH (S k) j da db) by lia. f_equal. lia.
Qed.

Lemma nth_mapi : forall {A B} (f : nat -> A -> B) l j da db, (j < length l)%nat ->
  nth j (mapi f l) db = f j (nth j l da).
Proof. intros. unfold mapi. rewrite (nth_mapi_from_gen f l 0 j da db) by assumption. reflexivity. Qed.

Lemma set_nth_length : forall {A} i (v : A) l, length (set_nth i v l) = length l.
Proof. intros A i v l. revert i. induction l as [|x l IH]; intros [|i]; simpl; try reflexivity. rewrite IH. reflexivity. Qed.

Lemma set_nth_same : forall {A} i (v : A) l d, (i < length l)%nat -> nth i (set_nth i v l) d = v.
Proof.
  intros A i v l. revert i. induction l as [|x l IH]; intros [|i] d H; simpl in *; try lia; [reflexivity|].
  apply IH. lia.
Qed.

Lemma set_nth_other : forall {A} i k (v : A) l d, k <> i -> nth k (set_nth i v l) d = nth k l d.
Proof.
  intros A i k v l. revert i k. induction l as [|x l IH]; intros [|i] [|k] d H; simpl; try reflexivity; try lia.
  apply IH. lia.
Qed.

Lemma getq_app1 : forall a b j, (j < length a)%nat -> getq (a ++ b) j = getq a j.
Proof. intros. unfold getq. apply app_nth1. assumption. Qed.

Lemma getq_app2 : forall a b j, (length a <= j)%nat -> getq (a ++ b) j = getq b (j - length a).
Proof. intros. unfold getq. apply app_nth2. assumption. Qed.

Lemma getq_tab : forall (g : nat -> Q) k j, (j < k)%nat -> getq (map g (seq 0 k)) j = g j.
Proof.
  intros g k j Hj. unfold getq. rewrite (nth_indep _ 0 (g O)) by (rewrite map_length, seq_length; exact Hj).
  rewrite map_nth. rewrite seq_nth by exact Hj. reflexivity.
Qed.

Lemma getq_repeat : forall (v : Q) k j, (j < k)%nat -> getq (repeat v k) j = v.
Proof.
  intros v k. induction k as [|k IH]; intros j Hj; [lia|]. destruct j as [|j]; [reflexivity|].
  unfold getq in *. simpl. apply IH. lia.
Qed.

Lemma lastq_getq : forall r k, length r = S k -> lastq r = getq r k.
Proof.
  intros r. induction r as [|x r IH]; intros k H; [discriminate|].
  destruct r as [|y r].
  - simpl in H. injection H as H. subst. reflexivity.
  - destruct k as [|k]; [discriminate|]. simpl in H. injection H as H.
    unfold lastq, getq in *. change (last (x :: y :: r) 0) with (last (y :: r) 0).
    rewrite (IH k) by (simpl; lia). reflexivity.
Qed.
