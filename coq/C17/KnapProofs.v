(* C17_pricing_exact: the knapsack DP (eps = 0) returns the maximum of y.a over ALL patterns that fit the roll. *)
From Coq Require Import List ZArith QArith Qabs Qround Bool Arith Lia.
From SV Require Import C17.Cg C17.CgSpec C17.GateProofs C17.PoolProofs C17.KnapLemmas C17.KnapPass.
Import ListNotations.

Lemma skipn_cons_nth : forall {A} (l : list A) i x r d,
  skipn i l = x :: r -> nth i l d = x /\ skipn (S i) l = r /\ (i < length l)%nat.
Proof.
  intros A l. induction l as [|y l IH]; intros i x r d H.
  - destruct i; discriminate.
  - destruct i as [|i]; simpl in H.
    + inversion H; subst. simpl. repeat split. lia.
    + destruct (IH i x r d H) as [H1 [H2 H3]]. simpl. repeat split; [exact H1 | exact H2 | lia].
Qed.

Lemma skipn_nonempty : forall {A} (l : list A) i, (i < length l)%nat -> exists x r, skipn i l = x :: r.
Proof.
  intros A l. induction l as [|y l IH]; intros i Hi; simpl in Hi; [lia|].
  destruct i as [|i]; simpl; [eauto|]. apply IH. lia.
Qed.

Lemma skipn_nil_length : forall {A} (l : list A) i, skipn i l = [] -> (length l <= i)%nat.
Proof.
  intros A l. induction l as [|y l IH]; intros i H; simpl; [lia|].
  destruct i as [|i]; simpl in H; [discriminate|]. specialize (IH i H). lia.
Qed.

Lemma all_zero_dots : forall a, Forall (fun x => x = 0%Z) a -> (forall s, dotz s a = 0%Z) /\ (forall y, (dotq y a == 0)%Q).
Proof.
  induction a as [|x a IH]; intros H; split; intros l; destruct l; simpl; try reflexivity.
  - apply Forall_cons_iff in H. destruct H as [Hx H]. subst x. destruct (IH H) as [H1 _]. rewrite H1. lia.
  - apply Forall_cons_iff in H. destruct H as [Hx H]. subst x. destruct (IH H) as [_ H2]. rewrite H2. unfold z2q. simpl. ring.
Qed.

Lemma nth_repeat_same : forall {A} (x : A) k w, nth w (repeat x k) x = x.
Proof. induction k as [|k IH]; intros w; destruct w; simpl; auto. Qed.

Section KnapMain.
Variable n : nat.
Variable ss : list Z.
Variable vs : list Q.
Hypothesis Hss : length ss = n.
Hypothesis Hvs : length vs = n.
Hypothesis Hpos : Forall (fun x => (1 <= x)%Z) ss.
Variable cap : nat.
Variable copies : list Z.
Hypothesis Hcopies : length copies = n.

Notation dpS := (dp_sound n ss vs).
Notation dpC := (dp_complete n ss vs cap).
Notation D0 := (d0 n).

Lemma dp_complete_weaken : forall b b' dp,
  (forall j, (j < n)%nat -> (b' j <= b j)%Z) -> dpC b dp -> dpC b' dp.
Proof.
  intros b b' dp Hb Hc a Ha Hab Hw. apply Hc; [exact Ha | | exact Hw].
  intros j Hj. specialize (Hab j Hj). specialize (Hb j Hj). lia.
Qed.

Lemma iter_complete : forall v i s k dp bound,
  (i < n)%nat -> v = getq vs i -> Z.of_nat s = getz ss i ->
  dpS dp -> dpC bound dp -> length dp = S cap -> (0 <= bound i)%Z ->
  dpS (iter_n k (knap_pass 0 v i s) dp) /\
  dpC (setb bound i (bound i + Z.of_nat k)%Z) (iter_n k (knap_pass 0 v i s) dp) /\
  length (iter_n k (knap_pass 0 v i s) dp) = S cap.
Proof.
  intros v i s k. induction k as [|k IH]; intros dp bound Hi Hv Hs Hsd Hcd Hlen Hb0.
  - simpl. split; [exact Hsd|]. split; [|exact Hlen].
    apply (dp_complete_weaken bound); [|exact Hcd]. intros j Hj. unfold setb. destruct (Nat.eqb j i) eqn:E; [|lia].
    apply Nat.eqb_eq in E. subst. lia.
  - simpl iter_n.
    assert (Hs1 : dpS (knap_pass 0 v i s dp)) by (apply (pass_sound n ss vs Hss Hvs); assumption).
    assert (Hc1 : dpC (setb bound i (bound i + 1)%Z) (knap_pass 0 v i s dp)).
    { apply (pass_complete n ss vs Hss Hvs Hpos cap); assumption. }
    assert (Hl1 : length (knap_pass 0 v i s dp) = S cap) by (rewrite knap_pass_length; exact Hlen).
    assert (Hb1 : (0 <= setb bound i (bound i + 1)%Z i)%Z) by (unfold setb; rewrite Nat.eqb_refl; lia).
    destruct (IH _ _ Hi Hv Hs Hs1 Hc1 Hl1 Hb1) as [H1 [H2 H3]].
    split; [exact H1|]. split; [|exact H3].
    eapply dp_complete_weaken; [|exact H2]. intros j Hj. unfold setb.
    destruct (Nat.eqb j i) eqn:E; [|lia]. rewrite Nat.eqb_refl. lia.
Qed.

(* the bound reached for item j once it has been processed *)
Definition Bfun (j : nat) : Z := if Qleb (getq vs j) 0 then 0%Z else Z.max 0 (getz copies j).
Definition boundI (i : nat) : nat -> Z := fun j => if Nat.ltb j i then Bfun j else 0%Z.

Lemma Bfun_nonneg : forall j, (0 <= Bfun j)%Z.
Proof. intros j. unfold Bfun. destruct (Qleb (getq vs j) 0); lia. Qed.

Lemma items_inv : forall ss' i cs' vs' dp,
  skipn i ss = ss' -> skipn i copies = cs' -> skipn i vs = vs' ->
  dpS dp -> dpC (boundI i) dp -> length dp = S cap ->
  dpS (knap_items 0 i ss' cs' vs' dp) /\ dpC (boundI n) (knap_items 0 i ss' cs' vs' dp) /\
  length (knap_items 0 i ss' cs' vs' dp) = S cap.
Proof.
  induction ss' as [|s ss' IH]; intros i cs' vs' dp Es Ec Ev Hsd Hcd Hlen.
  - simpl. split; [exact Hsd|]. split; [|exact Hlen].
    apply skipn_nil_length in Es. rewrite Hss in Es.
    eapply dp_complete_weaken; [|exact Hcd]. intros j Hj. unfold boundI.
    replace (Nat.ltb j n) with true by (symmetry; apply Nat.ltb_lt; lia).
    replace (Nat.ltb j i) with true by (symmetry; apply Nat.ltb_lt; lia). lia.
  - destruct (skipn_cons_nth ss i s ss' 0%Z Es) as [Hs [Es' Hi]]. rewrite Hss in Hi.
    destruct (skipn_nonempty copies i) as [c [cs'' Ec']]; [rewrite Hcopies; exact Hi|].
    destruct (skipn_nonempty vs i) as [v [vs'' Ev']]; [rewrite Hvs; exact Hi|].
    rewrite Ec' in Ec. rewrite Ev' in Ev. subst cs' vs'.
    destruct (skipn_cons_nth copies i c cs'' 0%Z Ec') as [Hc [Ec'' _]].
    destruct (skipn_cons_nth vs i v vs'' 0%Q Ev') as [Hv [Ev'' _]].
    cbn [knap_items].
    assert (Hstep : let dp1 := if Qleb v 0 then dp else iter_n (Z.to_nat c) (knap_pass 0 v i (Z.to_nat s)) dp in
                    dpS dp1 /\ dpC (boundI (S i)) dp1 /\ length dp1 = S cap).
    { destruct (Qleb v 0) eqn:Eq; cbn zeta.
      - split; [exact Hsd|]. split; [|exact Hlen].
        eapply dp_complete_weaken; [|exact Hcd]. intros j Hj. unfold boundI.
        destruct (Nat.eq_dec j i) as [He|Hne].
        + subst j. replace (Nat.ltb i (S i)) with true by (symmetry; apply Nat.ltb_lt; lia).
          replace (Nat.ltb i i) with false by (symmetry; apply Nat.ltb_ge; lia).
          unfold Bfun, getq. rewrite Hv, Eq. lia.
        + destruct (Nat.ltb j i) eqn:E1.
          * apply Nat.ltb_lt in E1. replace (Nat.ltb j (S i)) with true by (symmetry; apply Nat.ltb_lt; lia). lia.
          * apply Nat.ltb_ge in E1. replace (Nat.ltb j (S i)) with false by (symmetry; apply Nat.ltb_ge; lia). lia.
      - assert (Hs1 : (1 <= getz ss i)%Z) by (apply (ss_nth_pos n ss Hss Hpos); exact Hi).
        assert (Hb0 : (0 <= boundI i i)%Z).
        { unfold boundI. replace (Nat.ltb i i) with false by (symmetry; apply Nat.ltb_ge; lia). lia. }
        destruct (iter_complete v i (Z.to_nat s) (Z.to_nat c) dp (boundI i)) as [H1 [H2 H3]]; try assumption.
        + unfold getq. symmetry. exact Hv.
        + unfold getz. rewrite Hs. unfold getz in Hs1. rewrite Hs in Hs1. lia.
        + split; [exact H1|]. split; [|exact H3].
          eapply dp_complete_weaken; [|exact H2]. intros j Hj. unfold setb, boundI.
          destruct (Nat.eqb j i) eqn:E.
          * apply Nat.eqb_eq in E. subst j.
            replace (Nat.ltb i (S i)) with true by (symmetry; apply Nat.ltb_lt; lia).
            replace (Nat.ltb i i) with false by (symmetry; apply Nat.ltb_ge; lia).
            unfold Bfun, getq, getz. rewrite Hv, Eq, Hc. lia.
          * apply Nat.eqb_neq in E. destruct (Nat.ltb j i) eqn:E1.
            -- apply Nat.ltb_lt in E1. replace (Nat.ltb j (S i)) with true by (symmetry; apply Nat.ltb_lt; lia). lia.
            -- apply Nat.ltb_ge in E1. replace (Nat.ltb j (S i)) with false by (symmetry; apply Nat.ltb_ge; lia). lia. }
    cbn zeta in Hstep. destruct Hstep as [H1 [H2 H3]].
    apply (IH (S i)); assumption.
Qed.

(* ---- the initial table *)
Definition dp_init : list cell := (Some 0%Q, repeat 0%Z n) :: repeat (None, repeat 0%Z n) cap.

Lemma dp_init_length : length dp_init = S cap.
Proof. unfold dp_init. simpl. rewrite repeat_length. reflexivity. Qed.

Lemma dp_init_nth_pos : forall w, (0 < w)%nat -> fst (nth w dp_init D0) = None.
Proof.
  intros w Hw. destruct w as [|w]; [lia|].
  change (fst (nth w (repeat D0 cap) D0) = None). rewrite nth_repeat_same. reflexivity.
Qed.

Lemma dp_init_sound : dpS dp_init.
Proof.
  intros w Hw u Hu. destruct w as [|w].
  - unfold dp_init in *. simpl in *. injection Hu as Hu. subst u.
    split; [apply zeros_ok|]. split; [apply dotz_zeros | rewrite dotq_zeros; reflexivity].
  - rewrite dp_init_nth_pos in Hu by lia. discriminate.
Qed.

Lemma dp_init_complete : dpC (boundI 0) dp_init.
Proof.
  intros a [Hl Hf] Hb Hw.
  assert (Hz : Forall (fun x => x = 0%Z) a).
  { apply Forall_nth. intros j d Hj. rewrite (nth_indep _ d 0%Z Hj).
    assert (H0 : (0 <= nth j a 0)%Z) by (rewrite Forall_forall in Hf; apply Hf; apply nth_In; exact Hj).
    rewrite Hl in Hj. specialize (Hb j Hj). unfold boundI in Hb. simpl in Hb. unfold getz in Hb. lia. }
  destruct (all_zero_dots a Hz) as [H1 H2].
  rewrite H1. simpl. exists 0%Q. split; [reflexivity|]. rewrite H2. apply Qle_refl.
Qed.

(* ---- the final scan *)
Lemma knap_best_spec : forall dp w0 best,
  let r := knap_best 0 dp w0 best in
  (fst best <= fst r)%Q /\
  (forall k u, (k < length dp)%nat -> fst (nth k dp D0) = Some u -> (u <= fst r)%Q) /\
  (r = best \/ exists k, (k < length dp)%nat /\ snd r = (w0 + k)%nat /\ fst (nth k dp D0) = Some (fst r)).
Proof.
  induction dp as [|[[v|] p] dp IH]; intros w0 best; cbn [knap_best].
  - cbn zeta. split; [apply Qle_refl|]. split; [|left; reflexivity]. intros k u Hk. simpl in Hk. lia.
  - cbn zeta. set (best' := if Qltb (fst best + 0) v then (v, w0) else best).
    destruct (IH (S w0) best') as [H1 [H2 H3]].
    assert (Hb : (fst best <= fst best')%Q /\ (v <= fst best')%Q).
    { unfold best'. destruct (Qltb (fst best + 0) v) eqn:E; simpl.
      - apply Qltb_lt in E. rewrite Qplus_0_r in E. split; [apply Qlt_le_weak; exact E | apply Qle_refl].
      - apply Qltb_false in E. rewrite Qplus_0_r in E. split; [apply Qle_refl | exact E]. }
    destruct Hb as [Hb1 Hb2].
    split; [eapply Qle_trans; eassumption|]. split.
    + intros k u Hk Hu. destruct k as [|k]; simpl in Hu.
      * injection Hu as Hu. subst u. eapply Qle_trans; eassumption.
      * apply (H2 k u); [simpl in Hk; lia | exact Hu].
    + destruct H3 as [H3|[k [Hk [Hw Hv]]]].
      * rewrite H3. unfold best'. destruct (Qltb (fst best + 0) v); [|left; reflexivity].
        right. exists O. simpl. repeat split; [lia | lia].
      * right. exists (S k). simpl. repeat split; [lia | lia | exact Hv].
  - cbn zeta. destruct (IH (S w0) best) as [H1 [H2 H3]].
    split; [exact H1|]. split.
    + intros k u Hk Hu. destruct k as [|k]; simpl in Hu; [discriminate|].
      apply (H2 k u); [simpl in Hk; lia | exact Hu].
    + destruct H3 as [H3|[k [Hk [Hw Hv]]]]; [left; exact H3|].
      right. exists (S k). simpl. repeat split; [lia | lia | exact Hv].
Qed.

(* ---- the DP as a whole *)
Theorem knap_dp_spec : forall capz pat v,
  (0 <= capz)%Z -> cap = Z.to_nat capz ->
  knap_dp 0 ss capz copies vs = (pat, v) ->
  (v == dotq vs pat)%Q /\ (dotz ss pat <= capz)%Z /\
  forall a, pat_ok n a -> (forall j, (j < n)%nat -> (getz a j <= Bfun j)%Z) -> (dotz ss a <= capz)%Z ->
            (dotq vs a <= v)%Q.
Proof.
  intros capz pat v Hc0 Hcap H. unfold knap_dp in H. rewrite Hss, <- Hcap in H.
  change ((Some 0%Q, repeat 0%Z n) :: repeat (None, repeat 0%Z n) cap) with dp_init in H.
  destruct (items_inv ss 0 copies vs dp_init eq_refl eq_refl eq_refl dp_init_sound dp_init_complete dp_init_length)
    as [Hsd [Hcd Hlen]].
  set (dp := knap_items 0 0 ss copies vs dp_init) in *.
  pose proof (knap_best_spec dp 0 (0%Q, O)) as Hb. cbn zeta in Hb.
  destruct (knap_best 0 dp 0 (0%Q, O)) as [bv bw]. cbn [fst snd] in Hb. destruct Hb as [Hb0 [Hbmax Hbarg]].
  split; [|split].
  - destruct (Qltb 0 bv) eqn:Epos.
    + inversion H; subst pat v. clear H. apply Qltb_lt in Epos.
      destruct Hbarg as [Hbarg|[k [Hk [Hw Hv]]]].
      * inversion Hbarg; subst. exfalso. apply (Qlt_irrefl 0). exact Epos.
      * simpl in Hw. subst bw. destruct (Hsd k Hk bv Hv) as [_ [_ Hval]]. exact Hval.
    + inversion H; subst pat v. clear H. apply Qltb_false in Epos.
      rewrite dotq_zeros. apply Qle_antisym; assumption.
  - destruct (Qltb 0 bv) eqn:Epos.
    + inversion H; subst pat v. clear H. apply Qltb_lt in Epos.
      destruct Hbarg as [Hbarg|[k [Hk [Hw Hv]]]].
      * inversion Hbarg; subst. exfalso. apply (Qlt_irrefl 0). exact Epos.
      * simpl in Hw. subst bw. destruct (Hsd k Hk bv Hv) as [_ [Hwt _]]. eapply Z.le_trans; [apply Z.eq_le_incl; exact Hwt|]. rewrite Hlen in Hk. lia.
    + inversion H; subst pat v. clear H. rewrite dotz_zeros. exact Hc0.
  - intros a Ha Hbound Hw.
    assert (Hv : v = bv) by (destruct (Qltb 0 bv); inversion H; reflexivity). subst v.
    destruct (Hcd a Ha) as [u [Hu Hval]].
    + intros j Hj. unfold boundI. replace (Nat.ltb j n) with true by (symmetry; apply Nat.ltb_lt; lia). apply Hbound. exact Hj.
    + lia.
    + eapply Qle_trans; [exact Hval|]. apply (Hbmax (Z.to_nat (dotz ss a)) u); [|exact Hu].
      rewrite Hlen. destruct Ha as [Hl Hf].
      assert (0 <= dotz ss a)%Z by (apply dotz_nonneg; [eapply ss_nonneg; eassumption | exact Hf]). lia.
Qed.
End KnapMain.
