(* C17 deep - the ROOT answers of the solve_bp model (eps = 0): inversion of an OPTIMAL answer given before the tree search,
   and minimality from a bound  obj <= ceil(root LP value). *)
From Coq Require Import List ZArith QArith Qabs Qround Bool Arith Lia Lqa.
From SV Require Import C17.Cg C17.CgSpec C17.Bp C17.GateProofs C17.PoolProofs C17.CgGateProofs C17.BpGateProofs
                       C17.DualityProofs C17.KnapExact C17.OptimalProofs C17.DeepMaster C17.DeepOptimal.
Import ListNotations.

(* ---- the column-generation loop of the root node *)
Lemma node_loop_conv : forall eps sizes width demands fuel it cols cols' it',
  node_loop eps true (cs_pricing eps sizes width) demands fuel it cols = Some (inr (cols', it', true)) ->
  exists x duals o np pv,
    master_lp true eps cols' demands = Some (x, duals, Some o) /\
    knapsack_pricing eps sizes width duals = Some (np, pv) /\ Qleb pv (1 + eps) = true.
Proof.
  intros eps sizes width demands fuel. induction fuel as [|fuel IH]; intros it cols cols' it' H; simpl in H.
  - discriminate.
  - destruct (master_lp true eps cols demands) as [[[x duals] [lp|]]|] eqn:Em; [| |discriminate].
    + unfold cs_pricing in H at 1.
      destruct (knapsack_pricing eps sizes width duals) as [[np pv]|] eqn:Ek; [|discriminate].
      destruct (Qleb pv (1 + eps)) eqn:Eq.
      * inversion H; subst. exists x, duals, lp, np, pv. repeat split; assumption.
      * apply IH in H. exact H.
    + discriminate.
Qed.

Lemma node_loop_inl_conv : forall eps is_cs pricing demands fuel it cols c x d l i conv,
  node_loop eps is_cs pricing demands fuel it cols = Some (inl (c, x, d, l, i, conv)) -> conv = false /\ l = None.
Proof.
  intros eps is_cs pricing demands fuel. induction fuel as [|fuel IH]; intros it cols c x d l i conv H; simpl in H.
  - discriminate.
  - destruct (master_lp true eps cols demands) as [[[x0 duals] [lp|]]|]; [| |discriminate].
    + destruct (pricing duals) as [[nc v]|]; [|discriminate].
      destruct (if is_cs then Qleb v (1 + eps) else match nc with None => true | Some _ => Qleb (- eps) v end); [discriminate|].
      apply IH in H. exact H.
    + inversion H; subst. split; reflexivity.
Qed.

Lemma solve_node_lp_conv : forall eps sizes width demands max_iter cols cols' x duals lp it,
  solve_node_lp eps true (cs_pricing eps sizes width) demands max_iter cols = Some (cols', x, duals, lp, it, true) ->
  master_lp true eps cols' demands = Some (x, duals, lp) /\
  exists np pv, knapsack_pricing eps sizes width duals = Some (np, pv) /\ Qleb pv (1 + eps) = true.
Proof.
  intros eps sizes width demands max_iter cols cols' x duals lp it H. unfold solve_node_lp in H.
  destruct (node_loop eps true (cs_pricing eps sizes width) demands max_iter 0 cols) as [res|] eqn:En; [|discriminate].
  destruct res as [[[[[[c1 x1] d1] l1] i1] b1]|[[c2 i2] b2]].
  - inversion H; subst. apply node_loop_inl_conv in En. destruct En; discriminate.
  - destruct (master_lp true eps c2 demands) as [[[x2 d2] l2]|] eqn:Em; [|discriminate].
    inversion H; subst. split; [exact Em|].
    destruct (node_loop_conv _ _ _ _ _ _ _ _ _ En) as [x' [duals' [o [np [pv [Em' [Ek Hpv]]]]]]].
    rewrite Em in Em'. inversion Em'; subst. exists np, pv. split; assumption.
Qed.

(* ---- inversion of an OPTIMAL root answer *)
Definition bp_root_facts (gap : Q) (sizes : list Z) (width : Z) (demands : list Z) (R : bp_root) (sol : plan) (obj : Z) : Prop :=
  (sol = [] /\ obj = 0%Z /\ b_lp R = Some 0%Q) \/
  exists lp,
    length sizes = length demands /\ valid_sizes sizes width = true /\ (0 <= width)%Z /\
    forallb (Z.leb 0) demands = true /\
    pool_ok sizes width (b_pool R) /\ b_lp R = Some lp /\
    master_lp true 0 (b_pool R) demands = Some (b_x R, b_duals R, Some lp) /\
    (exists np pv, knapsack_pricing 0 sizes width (b_duals R) = Some (np, pv) /\ (pv <= 1)%Q) /\
    (proven gap (Some (Qceil (lp - 0))) (inject_Z obj) = true \/
     (most_fractional 0 0 (b_x R) (None, 0%Q) = None /\ sol = build_solution 0 (b_pool R) (b_x R) /\ obj = plan_total sol)).

Lemma bp_root_inv : forall gap sizes width demands max_iter sol obj it,
  b_out (solve_bp_root 0 gap sizes width demands max_iter) = BpDone OPTIMAL (Some sol) (Some obj) it ->
  bp_root_facts gap sizes width demands (solve_bp_root 0 gap sizes width demands max_iter) sol obj.
Proof.
  intros gap sizes width demands max_iter sol obj it H. unfold solve_bp_root in *.
  assert (Htriv : b_out bp_trivial = BpDone OPTIMAL (Some sol) (Some obj) it -> sol = [] /\ obj = 0%Z /\ b_lp bp_trivial = Some 0%Q).
  { intros Hb. simpl in Hb. inversion Hb; subst. repeat split; reflexivity. }
  destruct demands as [|d0 demands'] eqn:Ed; [left; apply Htriv; exact H|]. rewrite <- Ed in *.
  destruct (forallb (Z.leb 0) demands) eqn:Enn; cbn [negb] in *; [|simpl in H; discriminate].
  destruct (forallb (Z.eqb 0) demands) eqn:Ez; [left; apply Htriv; exact H|].
  destruct (Nat.eqb (length sizes) (length demands)) eqn:El; cbn [negb] in *; [|simpl in H; discriminate].
  destruct (valid_sizes sizes width) eqn:Ev; cbn [negb] in *; [|simpl in H; discriminate].
  apply Nat.eqb_eq in El.
  assert (Hw : (0 <= width)%Z).
  { assert (Hj : (0 < length sizes)%nat) by (rewrite El, Ed; simpl; lia).
    pose proof (valid_sizes_nth _ _ _ Ev Hj). lia. }
  destruct (branch_and_price_root 0 gap true (cs_pricing 0 sizes width) demands (initial_patterns sizes width demands) max_iter)
    as [r|] eqn:Eb; [|simpl in H; discriminate].
  unfold branch_and_price_root in Eb.
  destruct (solve_node_lp 0 true (cs_pricing 0 sizes width) demands max_iter (initial_patterns sizes width demands))
    as [[[[[[cols x] duals] lp] cg_iters] conv]|] eqn:En; [|discriminate].
  assert (He0 : (0 <= 0)%Q) by apply Qle_refl. assert (He1 : (0 < 1)%Q) by reflexivity.
  assert (Hpool : pool_ok sizes width cols).
  { apply (solve_node_lp_pool_ok _ _ _ _ _ _ _ _ _ _ _ _ He0 He1 Hw (initial_patterns_ok _ _ demands Ev) En). }
  destruct lp as [lp_obj|]; [|inversion Eb; subst r; simpl in H; discriminate].
  (* OPTIMAL needs `proven`, which needs a root bound, i.e. conv = true *)
  assert (Hcommon : conv = true ->
            exists lp, length sizes = length demands /\ valid_sizes sizes width = true /\ (0 <= width)%Z /\
              true = true /\ pool_ok sizes width cols /\ Some lp_obj = Some lp /\
              master_lp true 0 cols demands = Some (x, duals, Some lp) /\
              (exists np pv, knapsack_pricing 0 sizes width duals = Some (np, pv) /\ (pv <= 1)%Q) /\ lp = lp_obj).
  { intros Hc. subst conv. destruct (solve_node_lp_conv _ _ _ _ _ _ _ _ _ _ _ En) as [Em [np [pv [Ek Hpv]]]].
    exists lp_obj. split; [exact El|]. split; [exact Ev|]. split; [exact Hw|]. split; [reflexivity|].
    split; [exact Hpool|]. split; [reflexivity|]. split; [exact Em|]. split; [|reflexivity].
    exists np, pv. split; [exact Ek|].
    apply Qleb_le in Hpv. rewrite Qplus_0_r in Hpv. exact Hpv. }
  assert (Hafter : forall r',
            match round_solution 0 cols x demands with
            | Some (sol0, total) =>
                if proven gap (if conv then Some (Qceil (lp_obj - 0)) else None) (inject_Z total)
                then Some (mkB (BpDone OPTIMAL (Some sol0) (Some total) cg_iters) cols x duals (Some lp_obj) cg_iters conv)
                else Some (mkB (BpTree (if conv then Some (Qceil (lp_obj - 0)) else None) (Some (sol0, total))) cols x duals (Some lp_obj) cg_iters conv)
            | None => Some (mkB (BpTree (if conv then Some (Qceil (lp_obj - 0)) else None) None) cols x duals (Some lp_obj) cg_iters conv)
            end = Some r' ->
            b_out r' = BpDone OPTIMAL (Some sol) (Some obj) it ->
            bp_root_facts gap sizes width demands r' sol obj).
  { intros r' Hr' Hout.
    destruct (round_solution 0 cols x demands) as [[sol0 total]|] eqn:Er.
    - destruct (proven gap _ (inject_Z total)) eqn:Ep; inversion Hr'; subst r'; simpl in Hout; [|discriminate].
      injection Hout as E1 E2 E3. subst sol0 total.
      destruct conv; [|simpl in Ep; discriminate].
      destruct (Hcommon eq_refl) as [lp [F1 [F2 [F3 [_ [F5 [F5' [F6 [F7 F8]]]]]]]]]. subst lp.
      right. exists lp_obj. cbn [b_pool b_x b_duals b_lp].
      split; [exact F1|]. split; [exact F2|]. split; [exact F3|]. split; [exact Enn|]. split; [exact F5|].
      split; [reflexivity|]. split; [exact F6|]. split; [exact F7|]. left. exact Ep.
    - inversion Hr'; subst r'. simpl in Hout. discriminate. }
  destruct (most_fractional 0 0 x (None, 0%Q)) as [fi|] eqn:Emf.
  - apply (Hafter r Eb H).
  - destruct (covers (build_solution 0 cols x) demands) eqn:Ec.
    + inversion Eb; subst r. simpl in H.
      destruct (proven gap (if conv then Some (Qceil (lp_obj - 0)) else None) lp_obj) eqn:Ep; [|discriminate].
      injection H as E1 E2 E3. subst sol obj.
      destruct conv; [|simpl in Ep; discriminate].
      destruct (Hcommon eq_refl) as [lp [F1 [F2 [F3 [_ [F5 [F5' [F6 [F7 F8]]]]]]]]]. subst lp.
      right. exists lp_obj. cbn [b_pool b_x b_duals b_lp].
      split; [exact F1|]. split; [exact F2|]. split; [exact F3|]. split; [exact Enn|]. split; [exact F5|].
      split; [reflexivity|]. split; [exact F6|]. split; [exact F7|].
      right. split; [exact Emf|]. split; reflexivity.
    + apply (Hafter r Eb H).
Qed.

(* ---- minimality from the bound obj <= ceil(root LP) *)
Theorem bp_root_min_of_bound : forall gap sizes width demands max_iter sol obj it,
  b_out (solve_bp_root 0 gap sizes width demands max_iter) = BpDone OPTIMAL (Some sol) (Some obj) it ->
  (forall lp, b_lp (solve_bp_root 0 gap sizes width demands max_iter) = Some lp -> (obj <= Qceil lp)%Z) ->
  is_min (fits sizes width) demands obj.
Proof.
  intros gap sizes width demands max_iter sol obj it H Hb.
  assert (He0 : (0 <= 0)%Q) by apply Qle_refl. assert (He1 : (0 < 1)%Q) by reflexivity.
  pose proof (solve_bp_root_gate 0 gap sizes width demands max_iter OPTIMAL sol obj it He0 He1 H) as Hg.
  apply (certified_min sizes width demands sol obj (b_duals (solve_bp_root 0 gap sizes width demands max_iter))); [exact Hg|].
  destruct (bp_root_inv gap sizes width demands max_iter sol obj it H)
    as [[_ [Ho _]]|[lp [F1 [F2 [F3 [F4 [F5 [Elp [F6 [[np [pv [Ek Hpv]]] _]]]]]]]]]].
  - subst obj. reflexivity.
  - set (R := solve_bp_root 0 gap sizes width demands max_iter) in *.
    pose proof (master_lp_duals_length _ _ _ _ _ _ _ F6) as Hld.
    destruct (master_lp_duals_ok true _ _ _ _ _ F6) as [Hy [_ Hlp]].
    specialize (Hb lp Elp). specialize (Hlp lp eq_refl).
    unfold dual_cert_check. apply orb_true_iff. right.
    rewrite Ek. repeat (apply andb_true_iff; split).
    + apply Nat.eqb_eq. lia.
    + apply Nat.eqb_eq. lia.
    + exact F2.
    + apply Z.leb_le. exact F3.
    + apply forallb_Qleb0_intro. exact Hy.
    + apply Qleb_le. exact Hpv.
    + apply Z.leb_le. unfold Qceil in Hb. rewrite Hlp in Hb. exact Hb.
Qed.

(* the answers that come from the rounded incumbent: `proven` + a gap tolerance below 1/obj gives the bound *)
Definition gap_ok (gap : Q) (obj : Z) : bool := Qleb (gap * qmax (Qabs (inject_Z obj)) (1 # 10000000000)) 1.

Lemma qmax_pos_r : forall a b, (0 < b)%Q -> (0 < qmax a b)%Q.
Proof.
  intros a b Hb. unfold qmax. destruct (Qleb a b) eqn:E; [exact Hb|].
  destruct (Qlt_le_dec b a) as [Hlt|Hle]; [eapply Qlt_trans; [exact Hb | exact Hlt]|].
  apply Qleb_le in Hle. rewrite Hle in E. discriminate.
Qed.

Lemma proven_bound : forall gap rb obj,
  gap_ok gap obj = true -> proven gap (Some rb) (inject_Z obj) = true -> (obj <= rb)%Z.
Proof.
  intros gap rb obj Hg Hp. unfold gap_ok in Hg. apply Qleb_le in Hg. unfold proven in Hp.
  apply andb_true_iff in Hp. destruct Hp as [_ Hp]. apply Qltb_lt in Hp.
  set (M := qmax (Qabs (inject_Z obj)) (1 # 10000000000)) in *.
  assert (HM : (0 < M)%Q) by (apply qmax_pos_r; reflexivity).
  assert (H1 : (inject_Z obj - inject_Z rb < gap * M)%Q).
  { apply (Qmult_lt_r _ _ M HM) in Hp.
    assert (E : ((inject_Z obj - inject_Z rb) / M * M == inject_Z obj - inject_Z rb)%Q) by (field; lra).
    rewrite E in Hp. exact Hp. }
  assert (H2 : (inject_Z obj < inject_Z (rb + 1))%Q).
  { rewrite inject_Z_plus. change (inject_Z 1) with 1%Q. lra. }
  rewrite <- Zlt_Qlt in H2. lia.
Qed.

(* What is left for the answers given when the root LP is integral: the plan built from x has at most ceil(lp) rolls.
   (Primal side of the simplex: x is read off a primal-feasible optimal tableau, so sum x = lp.)  Proved in DeepPrimal*.v. *)
Definition integral_bound_statement : Prop :=
  forall (cols : list pattern) demands x y lp,
    master_lp true 0 cols demands = Some (x, y, Some lp) ->
    NoDup cols -> forallb (Z.leb 0) demands = true ->
    most_fractional 0 0 x (None, 0%Q) = None ->
    (plan_total (build_solution 0 cols x) <= Qceil lp)%Z.

Theorem bp_root_optimal_partial : forall gap sizes width demands max_iter sol obj it,
  integral_bound_statement ->
  b_out (solve_bp_root 0 gap sizes width demands max_iter) = BpDone OPTIMAL (Some sol) (Some obj) it ->
  gap_ok gap obj = true ->
  is_min (fits sizes width) demands obj.
Proof.
  intros gap sizes width demands max_iter sol obj it HA H Hg.
  apply (bp_root_min_of_bound gap sizes width demands max_iter sol obj it H).
  intros lp Elp.
  destruct (bp_root_inv gap sizes width demands max_iter sol obj it H)
    as [[_ [Ho Elp']]|[lp' [F1 [F2 [F3 [F4 [[_ Hnd] [Elp' [F6 [_ [Hp|[Hmf [Es Eo]]]]]]]]]]]]].
  - rewrite Elp in Elp'. inversion Elp'; subst. reflexivity.
  - rewrite Elp in Elp'. inversion Elp'; subst lp'.
    pose proof (proven_bound gap _ obj Hg Hp) as Hle. unfold Qceil in *.
    assert (E : (lp - 0 == lp)%Q) by ring. rewrite E in Hle. exact Hle.
  - rewrite Elp in Elp'. inversion Elp'; subst lp'. subst obj sol.
    apply (HA _ _ _ _ _ F6 Hnd F4 Hmf).
Qed.
