(* C17_optimal: soundness of the per-run dual certificates, and what status OPTIMAL of the model means. *)
From Coq Require Import List ZArith QArith Qabs Qround Bool Arith Lia.
From SV Require Import C17.Cg C17.CgSpec C17.GateProofs C17.PoolProofs C17.CgGateProofs C17.DualityProofs C17.KnapExact.
Import ListNotations.

Lemma forallb_Qleb0 : forall y, forallb (Qleb 0) y = true -> Forall (fun v => (0 <= v)%Q) y.
Proof.
  intros y H. apply Forall_forall. intros v Hv. rewrite forallb_forall in H. apply Qleb_le. apply H. exact Hv.
Qed.

(* the certificate proves dual feasibility for ALL fitting patterns *)
Lemma dual_cert_feasible : forall sizes width y v p,
  valid_sizes sizes width = true -> length y = length sizes -> (0 <= width)%Z ->
  forallb (Qleb 0) y = true ->
  knapsack_pricing 0 sizes width y = Some (p, v) -> (v <= 1)%Q ->
  dual_feasible (fits sizes width) y.
Proof.
  intros sizes width y v p Hv Hl Hw Hy Hk Hv1. split; [apply forallb_Qleb0; exact Hy|].
  intros a Ha. destruct (knapsack_pricing_exact sizes width y Hv Hl Hw) as [p' [v' [Hk' [_ [_ Hmax]]]]].
  rewrite Hk in Hk'. inversion Hk'; subst. eapply Qle_trans; [apply Hmax; exact Ha | exact Hv1].
Qed.

Theorem dual_cert_sound : forall sizes width demands y r,
  dual_cert_check sizes width demands y r = true ->
  forall P, covering (fits sizes width) demands P -> (r <= rolls P)%Z.
Proof.
  intros sizes width demands y r H P HP. unfold dual_cert_check in H.
  apply orb_true_iff in H. destruct H as [H|H].
  - apply Z.leb_le in H. pose proof (rolls_nonneg _ _ _ HP). lia.
  - repeat (apply andb_true_iff in H; destruct H as [H ?]).
    rename H0 into Hr, H1 into Hk, H2 into Hy, H3 into Hw, H4 into Hv, H5 into Hld.
    apply Nat.eqb_eq in H. apply Nat.eqb_eq in Hld. apply Z.leb_le in Hw. apply Z.leb_le in Hr.
    destruct (knapsack_pricing 0 sizes width y) as [[p v]|] eqn:Ek; [|discriminate].
    apply Qleb_le in Hk.
    assert (Hdf : dual_feasible (fits sizes width) y) by (eapply dual_cert_feasible; eassumption).
    pose proof (dual_bound_ceil (fits sizes width) y demands P Hdf) as Hb.
    assert (Hll : length demands = length y) by lia.
    specialize (Hb Hll HP). lia.
Qed.

Theorem dual_cert_custom_sound : forall cols demands y r,
  dual_cert_custom cols demands y r = true ->
  forall P, covering (fun a => In a cols) demands P -> (r <= rolls P)%Z.
Proof.
  intros cols demands y r H P HP. unfold dual_cert_custom in H.
  apply orb_true_iff in H. destruct H as [H|H].
  - apply Z.leb_le in H. pose proof (rolls_nonneg _ _ _ HP). lia.
  - repeat (apply andb_true_iff in H; destruct H as [H ?]).
    rename H0 into Hr, H1 into Hc, H2 into Hy.
    apply Nat.eqb_eq in H. apply Z.leb_le in Hr.
    assert (Hdf : dual_feasible (fun a => In a cols) y).
    { split; [apply forallb_Qleb0; exact Hy|]. intros a Ha. rewrite forallb_forall in Hc. apply Qleb_le. apply Hc. exact Ha. }
    pose proof (dual_bound_ceil (fun a => In a cols) y demands P Hdf) as Hb.
    assert (Hll : length demands = length y) by lia.
    specialize (Hb Hll HP). lia.
Qed.

(* gate + certificate = minimality; this is what is evaluated, inside coqc, on every OPTIMAL answer of the IMPLEMENTATION *)
Theorem certified_min : forall sizes width demands P obj y,
  plan_ok sizes width demands P obj = true ->
  dual_cert_check sizes width demands y obj = true ->
  is_min (fits sizes width) demands obj.
Proof.
  intros sizes width demands P obj y Hg Hc. destruct (plan_ok_sound _ _ _ _ _ Hg) as [Hcov Hobj].
  split.
  - exists P. split; [exact Hcov | symmetry; exact Hobj].
  - intros P' HP'. apply (dual_cert_sound sizes width demands y obj Hc P' HP').
Qed.

Theorem certified_min_custom : forall cols demands P obj y,
  plan_ok_custom cols demands P obj = true ->
  dual_cert_custom cols demands y obj = true ->
  is_min (fun a => In a cols) demands obj.
Proof.
  intros cols demands P obj y Hg Hc. destruct (plan_ok_custom_sound _ _ _ _ Hg) as [Hcov Hobj].
  split.
  - exists P. split; [exact Hcov | symmetry; exact Hobj].
  - intros P' HP'. apply (dual_cert_custom_sound cols demands y obj Hc P' HP').
Qed.

(* The full statement we would like (not proved: it needs the soundness of the master simplex - that the final tableau's
   dual vector is >= 0 and satisfies y.d >= lp_obj): *)
Definition optimal_sound_full_statement : Prop :=
  forall sizes width demands max_iter r,
    solve_cg 0 sizes width demands max_iter = Done r -> r_status r = OPTIMAL ->
    is_min (fits sizes width) demands (r_obj r).

(* Proved: OPTIMAL from the model + the per-run certificate on the model's own final duals => true minimum. *)
Theorem optimal_partial : forall eps sizes width demands max_iter r,
  (0 <= eps)%Q -> (eps < 1)%Q ->
  solve_cg eps sizes width demands max_iter = Done r -> r_status r = OPTIMAL ->
  dual_cert_check sizes width demands (r_duals r) (r_obj r) = true ->
  is_min (fits sizes width) demands (r_obj r).
Proof.
  intros eps sizes width demands max_iter r He0 He1 H Hs Hc.
  apply (certified_min sizes width demands (r_plan r) (r_obj r) (r_duals r)); [|exact Hc].
  apply (solve_cg_gate eps sizes width demands max_iter r He0 He1 H). rewrite Hs. reflexivity.
Qed.

(* ---------------------------------------------------------------- eps = 0: the knapsack part of the certificate is a theorem *)
Lemma master_lp_duals_length : forall drive eps cols demands x duals lp,
  master_lp drive eps cols demands = Some (x, duals, lp) -> length duals = length demands.
Proof.
  intros drive eps cols demands x duals lp H. unfold master_lp in H.
  destruct cols as [|c cols].
  - inversion H; subst. apply repeat_length.
  - repeat match type of H with
           | context [simplex_phase ?a ?b ?c ?d ?e] => destruct (simplex_phase a b c d e) as [[? ?] ?]
           | context [if negb ?b then _ else _] => destruct b; cbn [negb] in H
           | context [if Qltb ?a ?b then _ else _] => destruct (Qltb a b)
           | context [if drive then ?a else ?b] => destruct (if drive then a else b) as [? ?]
           end; try discriminate;
    inversion H; subst; rewrite ?repeat_length, ?map_length, ?seq_length; reflexivity.
Qed.

Lemma cs_loop_conv : forall eps sizes width demands fuel it pool pool' it',
  cs_loop eps sizes width demands fuel it pool = Some (pool', it', true) ->
  exists x duals lp np pv,
    master_lp false eps pool' demands = Some (x, duals, lp) /\
    knapsack_pricing eps sizes width duals = Some (np, pv) /\ Qleb pv (1 + eps) = true.
Proof.
  intros eps sizes width demands fuel. induction fuel as [|fuel IH]; intros it pool pool' it' H; simpl in H.
  - discriminate.
  - destruct (master_lp false eps pool demands) as [[[x duals] lp]|] eqn:Em; [|discriminate].
    destruct (knapsack_pricing eps sizes width duals) as [[np pv]|] eqn:Ek; [|discriminate].
    destruct (Qleb pv (1 + eps)) eqn:Eq.
    + inversion H; subst. exists x, duals, lp, np, pv. repeat split; assumption.
    + apply IH in H. exact H.
Qed.

Theorem optimal_partial_eps0 : forall sizes width demands max_iter r,
  solve_cg 0 sizes width demands max_iter = Done r -> r_status r = OPTIMAL ->
  simplex_residue demands r = true ->
  is_min (fits sizes width) demands (r_obj r).
Proof.
  intros sizes width demands max_iter r H Hs Hres.
  assert (He0 : (0 <= 0)%Q) by apply Qle_refl. assert (He1 : (0 < 1)%Q) by reflexivity.
  apply (optimal_partial 0 sizes width demands max_iter r He0 He1 H Hs).
  unfold simplex_residue in Hres. apply andb_true_iff in Hres. destruct Hres as [Hy Hlp].
  unfold solve_cg in H.
  assert (Htriv : forall r', trivial_result = Done r' -> dual_cert_check sizes width demands (r_duals r') (r_obj r') = true).
  { intros r' Hr'. inversion Hr'; subst. reflexivity. }
  destruct demands as [|d0 demands'] eqn:Ed; [apply Htriv; exact H|]. rewrite <- Ed in *.
  destruct (forallb (Z.leb 0) demands); simpl in H; [|discriminate].
  destruct (forallb (Z.eqb 0) demands); [apply Htriv; exact H|].
  unfold solve_cutting_stock in H.
  destruct (Nat.eqb (length sizes) (length demands)) eqn:El; simpl in H; [|discriminate].
  destruct (valid_sizes sizes width) eqn:Ev; simpl in H; [|discriminate].
  apply Nat.eqb_eq in El.
  assert (Hw : (0 <= width)%Z).
  { assert (Hj : (0 < length sizes)%nat) by (rewrite El, Ed; simpl; lia).
    pose proof (valid_sizes_nth _ _ _ Ev Hj). lia. }
  destruct (cs_loop 0 sizes width demands max_iter 0 (initial_patterns sizes width demands)) as [[[pats it] conv]|] eqn:Eloop;
    [|discriminate].
  destruct (master_lp false 0 pats demands) as [[[x duals] lp]|] eqn:Em; [|discriminate].
  destruct (round_up 0 pats x) as [sol total].
  destruct (covers sol demands); simpl in H; [|inversion H; subst r; simpl in Hs; discriminate].
  unfold finish in H. destruct lp as [o|]; [|discriminate].
  inversion H; subst r. clear H. simpl in *.
  destruct conv; simpl in Hs; [|discriminate].
  destruct (Z.leb total (Qceil (o - 0))) eqn:Et; [|discriminate]. apply Z.leb_le in Et.
  destruct (cs_loop_conv _ _ _ _ _ _ _ _ _ Eloop) as [x' [duals' [lp' [np [pv [Em' [Ek Hpv]]]]]]].
  rewrite Em in Em'. inversion Em'; subst x' duals' lp'. clear Em'.
  pose proof (master_lp_duals_length _ _ _ _ _ _ _ Em) as Hld.
  unfold dual_cert_check. apply orb_true_iff. right.
  rewrite Ek. repeat (apply andb_true_iff; split).
  - apply Nat.eqb_eq. lia.
  - apply Nat.eqb_eq. lia.
  - exact Ev.
  - apply Z.leb_le. exact Hw.
  - exact Hy.
  - apply Qleb_le in Hpv. apply Qleb_le. rewrite Qplus_0_r in Hpv. exact Hpv.
  - apply Z.leb_le. eapply Z.le_trans; [exact Et|]. unfold Qceil.
    apply Qceiling_resp_le. apply Qleb_le in Hlp. unfold Qminus. rewrite Qplus_0_r. exact Hlp.
Qed.
