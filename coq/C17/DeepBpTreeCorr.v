(* Boolean checks evaluated by the generated correspondence files of the deep part (coq/Cases/C17/tree_*.v).
   Definitions only. *)
From Coq Require Import List ZArith QArith Qabs Qround Bool Arith.
From SV Require Import Common.Corr C17.Cg C17.CgSpec C17.Bp C17.Corr C17.DeepBpTree.
Import ListNotations.
Open Scope Q_scope.

(* what solve_bp returned: status, solution, objective (None = inf), iterations (= nodes explored), evaluations (= column
   generation iterations over all nodes); or ValueError *)
Inductive tree_obs :=
| TObs (st : status) (sol : option plan) (obj : option Z) (nodes evals : nat)
| TObsInvalid.

(* input (with max_iter), max_nodes, observation *)
Definition tree_case := (cg_input * nat * tree_obs)%type.

Definition run_tree (eps : Q) (i : cg_input) (max_nodes : nat) : tree_outcome :=
  match i with
  | InCs s w d mi => solve_bp_tree eps gap_default s w d mi max_nodes
  | InCustom cols init d mi => solve_bp_tree_custom eps gap_default (custom_pricing tie_default cols) d init mi max_nodes
  end.

Definition ans_eqb (a b : bp_ans) : bool :=
  status_eqb (ba_status a) (ba_status b) && oplan_eqb (ba_sol a) (ba_sol b) && oz_eqb (ba_obj a) (ba_obj b)
  && Nat.eqb (ba_nodes a) (ba_nodes b) && Nat.eqb (ba_iters a) (ba_iters b).

(* the model's full answer = the implementation's *)
Definition corr_tree (c : tree_case) : bool :=
  match run_tree eps_default (fst (fst c)) (snd (fst c)), snd c with
  | TAns o, TObs st sol obj nodes evals => ans_eqb (to_ans o) (mkBA st sol obj nodes evals)
  | TInvalid, TObsInvalid => true
  | _, _ => false
  end.

Definition tree_outcome_deqb (a b : tree_outcome) : bool :=
  match a, b with
  | TAns o, TAns o' => ans_eqb (to_ans o) (to_ans o') && pool_eqb (to_pool o) (to_pool o')
  | TInvalid, TInvalid | TNoFuel, TNoFuel => true
  | _, _ => false
  end.

(* eps = 0, 1e-9 and 1e-7 take the same discrete decisions (answer and final column pool) *)
Definition stable_tree (c : tree_case) : bool :=
  let r := run_tree eps_default (fst (fst c)) (snd (fst c)) in
  tree_outcome_deqb (run_tree 0 (fst (fst c)) (snd (fst c))) r && tree_outcome_deqb (run_tree eps7 (fst (fst c)) (snd (fst c))) r.

(* the proved gate on the IMPLEMENTATION's plan *)
Definition gate_tree (c : tree_case) : bool :=
  match snd c with
  | TObs st sol obj _ _ =>
      if usable st then
        match sol, obj with
        | Some sol, Some obj =>
            match fst (fst c) with
            | InCs s w d _ => plan_ok s w d sol obj
            | InCustom cols _ d _ => plan_ok_custom cols d sol obj
            end
        | _, _ => false
        end
      else true
  | TObsInvalid => true
  end.
