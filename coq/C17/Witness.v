(* C17 - witnesses: the instance on which the pinned solve_bp labelled a 5-roll plan OPTIMAL, and non-vacuity examples. *)
From Coq Require Import List ZArith QArith Qround Bool Lia.
From SV Require Import C17.Cg C17.CgSpec C17.GateProofs C17.OptimalProofs.
Import ListNotations.
Open Scope Z_scope.

Definition witness_plan : plan := [([0;1;0], 1); ([3;0;0], 1); ([1;0;2], 1); ([0;0;2], 1)].
Definition witness_duals : list Q := [1 # 3; 1%Q; 1 # 3]%Q.

Lemma witness_gate : plan_ok [2;6;2] 7 [4;1;4] witness_plan 4 = true.
Proof. vm_compute. reflexivity. Qed.

Lemma witness_cert : dual_cert_check [2;6;2] 7 [4;1;4] witness_duals 4 = true.
Proof. vm_compute. reflexivity. Qed.

Lemma bp_pinned_refuted :
  covering (fits [2;6;2] 7) [4;1;4] witness_plan /\ rolls witness_plan = 4 /\
  is_min (fits [2;6;2] 7) [4;1;4] 4 /\ ~ is_min (fits [2;6;2] 7) [4;1;4] 5.
Proof.
  destruct (plan_ok_sound _ _ _ _ _ witness_gate) as [Hc Hr].
  split; [exact Hc|]. split; [reflexivity|]. split.
  - exact (certified_min _ _ _ _ _ _ witness_gate witness_cert).
  - intros [_ Hmin]. specialize (Hmin witness_plan Hc). vm_compute in Hmin. apply Hmin. reflexivity.
Qed.

Lemma nonvacuous_optimal :
  exists r, solve_cg eps_default [3;5;4;7] 12 [6;5;4;3] 1000 = Done r /\ r_status r = OPTIMAL /\ r_obj r = 7 /\
            r_iters r = 2%nat /\ dual_cert_check [3;5;4;7] 12 [6;5;4;3] (r_duals r) (r_obj r) = true.
Proof.
  eexists. split; [vm_compute; reflexivity|]. repeat split; vm_compute; reflexivity.
Qed.

Lemma nonvacuous_feasible :
  exists r, solve_cg eps_default [2;6;2] 7 [4;1;4] 1000 = Done r /\ r_status r = FEASIBLE /\ r_obj r = 5.
Proof.
  eexists. split; [vm_compute; reflexivity|]. split; reflexivity.
Qed.
