(* C17 deep, second round - non-vacuity: eps = 0 runs of the whole-tree model that go through the tree search. *)
From Coq Require Import List ZArith QArith Qround Bool Lia.
From SV Require Import C17.Cg C17.CgSpec C17.Bp C17.DeepBp C17.DeepBpTree.
Import ListNotations.
Open Scope Z_scope.

(* OPTIMAL found INSIDE the tree: root LP 23/6 (bound 4), rounded incumbent 5, third explored node is integral with 4 rolls *)
Lemma tree_nonvacuous_optimal :
  exists o, solve_bp_tree 0 gap_default [5;4;3] 12 [3;4;5] 30 20 = TAns o /\
            ba_status (to_ans o) = OPTIMAL /\ ba_obj (to_ans o) = Some 4 /\ ba_nodes (to_ans o) = 3%nat /\
            to_trace o = [([(2%nat, 1%Q, None)], Some 4%Q); ([(2%nat, 0%Q, Some 0%Q)], Some 5%Q); ([], Some (23 # 6)%Q)] /\
            gap_ok gap_default 4 = true.
Proof. eexists. split; [vm_compute; reflexivity|]. repeat split; reflexivity. Qed.

(* FEASIBLE after the heap ran empty (5 nodes): 5 rolls although 4 suffice ((1,1,0) x 2 + (0,1,1) + (0,0,2)) - the status is
   honest, the tree is not exhaustive (node LPs do not price against the branching rows) *)
Lemma tree_nonvacuous_feasible :
  exists o, solve_bp_tree 0 gap_default [6;5;4] 11 [2;3;3] 30 20 = TAns o /\
            ba_status (to_ans o) = FEASIBLE /\ ba_obj (to_ans o) = Some 5 /\ ba_nodes (to_ans o) = 5%nat /\
            plan_ok [6;5;4] 11 [2;3;3] [([1;1;0], 2); ([0;1;1], 1); ([0;0;2], 1)] 4 = true.
Proof. eexists. split; [vm_compute; reflexivity|]. repeat split; reflexivity. Qed.

(* the bounded master LP: x_2 >= 1 and x_3 >= 2 (the earlier bound x_2 <= 0 on the same column is REPLACED, as in the code's dict) *)
Lemma tree_nonvacuous_bounded_master :
  cb_dict [(2%nat, 0%Q, Some 0%Q); (3%nat, 2%Q, None); (2%nat, 1%Q, None)] = [(2%nat, 1%Q, None); (3%nat, 2%Q, None)] /\
  bounded_master_lp 0 [[2;0;0];[0;3;0];[0;0;4];[1;1;1]] [3;4;5] [(2%nat, 1%Q, None); (3%nat, 2%Q, None)]
  = Some ([1 # 2; 2 # 3; 1; 2]%Q, [1 # 2; 1 # 3; 0]%Q, Some (25 # 6)%Q) /\
  bounded_master_lp 0 [[2;0;0];[0;3;0];[0;0;4];[1;1;1]] [3;4;5] [(2%nat, 0%Q, Some 0%Q)]
  = Some ([0; 0; 0; 5]%Q, [0; 0; 1]%Q, Some 5%Q).
Proof. repeat split; vm_compute; reflexivity. Qed.
