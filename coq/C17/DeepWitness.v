(* C17 deep - non-vacuity: eps = 0 runs of the model that reach OPTIMAL, and a master LP whose duals are non-trivial. *)
From Coq Require Import List ZArith QArith Qround Bool Lia.
From SV Require Import C17.Cg C17.CgSpec C17.Bp C17.DeepMaster C17.DeepOptimal C17.DeepBp.
Import ListNotations.
Open Scope Z_scope.

Lemma deep_nonvacuous_optimal :
  exists r, solve_cg 0 [3;5;4;7] 12 [6;5;4;3] 1000 = Done r /\ r_status r = OPTIMAL /\ r_obj r = 7 /\
            r_duals r = [1 # 4; 5 # 12; 1 # 3; 7 # 12]%Q /\ r_lp r = Some (20 # 3)%Q.
Proof. eexists. split; [vm_compute; reflexivity|]. repeat split; reflexivity. Qed.

Lemma deep_nonvacuous_master :
  master_lp false 0 [[4;0;0;0];[0;2;0;0];[0;0;3;0];[0;0;0;1]] [6;5;4;3]
  = Some ([3 # 2; 5 # 2; 4 # 3; 3]%Q, [1 # 4; 1 # 2; 1 # 3; 1]%Q, Some (25 # 3)%Q).
Proof. vm_compute. reflexivity. Qed.

(* solve_bp root, eps = 0: an OPTIMAL answer from the rounded incumbent (fractional root LP, 20/3) ... *)
Lemma deep_nonvacuous_bp_rounded :
  exists sol it, b_out (solve_bp_root 0 gap_default [3;5;4;7] 12 [6;5;4;3] 1000) = BpDone OPTIMAL (Some sol) (Some 7) it /\
                 b_lp (solve_bp_root 0 gap_default [3;5;4;7] 12 [6;5;4;3] 1000) = Some (20 # 3)%Q /\
                 gap_ok gap_default 7 = true.
Proof. eexists. eexists. split; [vm_compute; reflexivity|]. split; vm_compute; reflexivity. Qed.

(* ... and one from an integral root LP (x = [2; 2]) *)
Lemma deep_nonvacuous_bp_integral :
  exists sol it, b_out (solve_bp_root 0 gap_default [3;4] 12 [8;6] 1000) = BpDone OPTIMAL (Some sol) (Some 4) it /\
                 b_x (solve_bp_root 0 gap_default [3;4] 12 [8;6] 1000) = [2; 2]%Q /\
                 gap_ok gap_default 4 = true.
Proof. eexists. eexists. split; [vm_compute; reflexivity|]. split; vm_compute; reflexivity. Qed.
