(* Model of the ROOT part of solvor/bp.py: solve_bp, _solve_bp_cutting_stock, _solve_bp_custom, _branch_and_price up to
   the creation of the search tree, _solve_node_lp and _solve_bounded_master_lp for col_bounds = {}, _most_fractional,
   _build_solution, _covers, _round_solution, and the status rule `proven`.  Definitions only.

   NOT modelled: the best-first tree search (heap, branching rows, _solve_bounded_master_lp with column bounds).  When
   the code enters the tree the model answers `Tree` with the root bound and the rounded incumbent; what can be said about
   the final answer then is `tree_answer_ok` (status OPTIMAL iff `proven objective`, never worse than the rounded
   incumbent, INFEASIBLE only without one) - the harness checks exactly that, plus the gate and the exact oracle.

   `_solve_bounded_master_lp` builds its phase-1 objective by looking for the row r with abs(tab[r][art_col] - 1.0) < eps;
   without column bounds that is row i of artificial i (for eps > 0), i.e. the same tableau as cg's master: `master_lp true`.
   (For eps = 0 the code's test `... < eps` never succeeds and its phase-1 objective stays zero; `master_lp true 0` is the
   eps -> 0 limit of the model, not the code run with eps = 0.  The harness only runs the code with its default eps = 1e-9.) *)
From Coq Require Import List ZArith QArith Qabs Qround Bool Arith.
From SV Require Import C17.Cg.
Import ListNotations.
Open Scope Q_scope.

(* def _solve_node_lp(columns, column_set, demands, {}, pricing_fn, is_cutting_stock, max_iter, eps)
   `pricing` returns None for "not modelled" (knapsack fallback), Some (new_col, value) otherwise.
   Result: (columns, x_vals, duals, lp_obj, cg_iters, converged); the code does not return the duals, the model keeps
   them for the per-run dual certificate. *)
Definition node_result := (list pattern * list Q * list Q * option Q * nat * bool)%type.

Fixpoint node_loop (eps : Q) (is_cs : bool) (pricing : list Q -> option (option pattern * Q)) (demands : list Z)
         (fuel : nat) (cg_iters : nat) (columns : list pattern) : option (node_result + (list pattern * nat * bool)) :=
  match fuel with
  | O => Some (inr (columns, cg_iters, false))
  | S fuel' =>
      match master_lp true eps columns demands with
      | None => None
      | Some (x, duals, None) => Some (inl (columns, x, duals, None, cg_iters, false))     (* if lp_obj == inf: return *)
      | Some (x, duals, Some _) =>
          match pricing duals with
          | None => None
          | Some (new_col, value) =>
              let stop := if is_cs then Qleb value (1 + eps)
                          else match new_col with None => true | Some _ => Qleb (- eps) value end in
              if stop then Some (inr (columns, cg_iters, true))
              else node_loop eps is_cs pricing demands fuel' (S cg_iters)
                             (match new_col with
                              | Some c => if pat_mem c columns then columns else columns ++ [c]
                              | None => columns
                              end)
          end
      end
  end.

Definition solve_node_lp (eps : Q) (is_cs : bool) (pricing : list Q -> option (option pattern * Q)) (demands : list Z)
           (max_iter : nat) (columns : list pattern) : option node_result :=
  match node_loop eps is_cs pricing demands max_iter 0 columns with
  | None => None
  | Some (inl r) => Some r
  | Some (inr (cols, it, conv)) =>
      match master_lp true eps cols demands with
      | None => None
      | Some (x, duals, lp) => Some (cols, x, duals, lp, it, conv)
      end
  end.

(* abs(x - round(x)) *)
Definition frac_part (x : Q) : Q := let f := x - inject_Z (Qfloor x) in qmin f (1 - f).
(* int(round(x)) for x within eps < 1/2 of an integer *)
Definition round_nearest (x : Q) : Z := Qfloor (x + (1 # 2)).

(* def _most_fractional(x_vals, eps) -> index or None *)
Fixpoint most_fractional (eps : Q) (i : nat) (xs : list Q) (best : option nat * Q) : option nat :=
  match xs with
  | [] => fst best
  | x :: xs' =>
      let best' := if Qltb eps x
                   then let fr := frac_part x in
                        if Qltb eps fr && Qltb (snd best) fr then (Some i, fr) else best
                   else best in
      most_fractional eps (S i) xs' best'
  end.

(* def _build_solution(x_vals, columns, eps) *)
Definition build_solution (eps : Q) (columns : list pattern) (x : list Q) : plan :=
  fold_left (fun sol (px : pattern * Q) =>
               if Qltb eps (snd px) then
                 let count := round_nearest (snd px) in
                 if Z.ltb 0 count then dict_set (fst px) count sol else sol
               else sol) (combine columns x) [].

Definition plan_total (sol : plan) : Z := fold_right (fun pc acc => (snd pc + acc)%Z) 0%Z sol.

(* def _round_solution(x_vals, columns, demands, eps) *)
Definition round_solution (eps : Q) (columns : list pattern) (x : list Q) (demands : list Z) : option (plan * Z) :=
  let rounded := map (fun v => if Qltb eps v then Qceil (v - eps) else 0%Z) x in
  let cr := combine columns rounded in
  if forallb (fun i => Z.leb (getz demands i) (fold_right (fun cr acc => (getz (fst cr) i * snd cr + acc)%Z) 0%Z cr))
             (seq 0 (length demands))
  then Some (fold_left (fun (st : plan * Z) (cr : pattern * Z) =>
                          if Z.ltb 0 (snd cr) then (dict_set (fst cr) (snd cr) (fst st), (snd st + snd cr)%Z) else st)
                       cr ([], 0%Z))
  else None.

(* root_bound = ceil(lp_obj - eps) if converged else -inf;
   proven(obj) = obj - root_bound < 1 - eps and (obj - root_bound) / max(abs(obj), 1e-10) < gap_tol
   The first conjunct exists since /repo b06cee9 (roll counts are integers: a plan one roll above the bound is never
   "proven", however small the relative gap).  It is modelled as  obj - root_bound < 1 : every call but one passes an integer
   obj, for which `< 1 - eps` and `< 1` agree for all 0 <= eps < 1; the remaining call (root LP integral) passes lp_obj with
   root_bound = ceil(lp_obj - eps), so lp_obj - root_bound <= eps and both forms are true for eps < 1/2. *)
Definition proven (gap_tol : Q) (root_bound : option Z) (obj : Q) : bool :=
  match root_bound with
  | None => false
  | Some rb => Qltb (obj - inject_Z rb) 1
               && Qltb ((obj - inject_Z rb) / qmax (Qabs obj) (1 # 10000000000)) gap_tol
  end.

Inductive bp_outcome :=
| BpDone (status : Cg.status) (sol : option plan) (obj : option Z) (cg_iters : nat)     (* returned before the tree *)
| BpTree (root_bound : option Z) (incumbent : option (plan * Z))                         (* enters the tree search *)
| BpInvalid
| BpNoFuel.

Record bp_root := mkB { b_out : bp_outcome; b_pool : list pattern; b_x : list Q; b_duals : list Q; b_lp : option Q; b_iters : nat; b_conv : bool }.

Definition branch_and_price_root (eps gap_tol : Q) (is_cs : bool) (pricing : list Q -> option (option pattern * Q))
           (demands : list Z) (columns0 : list pattern) (max_iter : nat) : option bp_root :=
  match solve_node_lp eps is_cs pricing demands max_iter columns0 with
  | None => None
  | Some (columns, x, duals, lp, cg_iters, conv) =>
      let mk o := Some (mkB o columns x duals lp cg_iters conv) in
      match lp with
      | None => mk (BpDone INFEASIBLE None None cg_iters)
      | Some lp_obj =>
          let root_bound := if conv then Some (Qceil (lp_obj - eps)) else None in
          let after_integral :=
            match round_solution eps columns x demands with
            | Some (sol, total) =>
                if proven gap_tol root_bound (inject_Z total) then mk (BpDone OPTIMAL (Some sol) (Some total) cg_iters)
                else mk (BpTree root_bound (Some (sol, total)))
            | None => mk (BpTree root_bound None)
            end in
          match most_fractional eps 0 x (None, 0) with
          | None =>
              let sol := build_solution eps columns x in
              if covers sol demands
              then mk (BpDone (if proven gap_tol root_bound lp_obj then OPTIMAL else FEASIBLE) (Some sol) (Some (plan_total sol)) cg_iters)
              else after_integral
          | Some _ => after_integral
          end
      end
  end.

Definition gap_default : Q := 1 # 1000000.

Definition bp_trivial : bp_root := mkB (BpDone OPTIMAL (Some []) (Some 0%Z) O) [] [] [] (Some 0) O true.

Definition cs_pricing (eps : Q) (sizes : list Z) (width : Z) : list Q -> option (option pattern * Q) := fun duals =>
  match knapsack_pricing eps sizes width duals with
  | None => None
  | Some (p, v) => Some (Some p, v)
  end.

(* solve_bp(demands, roll_width=, piece_sizes=, max_iter=) *)
Definition solve_bp_root (eps gap_tol : Q) (sizes : list Z) (width : Z) (demands : list Z) (max_iter : nat) : bp_root :=
  let bad o := mkB o [] [] [] None O false in
  match demands with
  | [] => bp_trivial
  | _ =>
      if negb (forallb (Z.leb 0) demands) then bad BpInvalid
      else if forallb (Z.eqb 0) demands then bp_trivial
      else if negb (Nat.eqb (length sizes) (length demands)) then bad BpInvalid
      else if negb (valid_sizes sizes width) then bad BpInvalid
      else match branch_and_price_root eps gap_tol true (cs_pricing eps sizes width) demands
                                       (initial_patterns sizes width demands) max_iter with
           | None => bad BpNoFuel
           | Some r => r
           end
  end.

(* solve_bp(demands, pricing_fn=, initial_columns=, max_iter=) *)
Definition solve_bp_custom_root (eps gap_tol : Q) (pricing : pricing_fn) (demands : list Z) (init : list pattern)
           (max_iter : nat) : bp_root :=
  let bad o := mkB o [] [] [] None O false in
  match demands with
  | [] => bp_trivial
  | _ =>
      if negb (forallb (Z.leb 0) demands) then bad BpInvalid
      else if forallb (Z.eqb 0) demands then bp_trivial
      else if negb (forallb (fun c => Nat.eqb (length c) (length demands)) init) then bad BpInvalid
      else match branch_and_price_root eps gap_tol false (fun y => Some (pricing y)) demands init max_iter with
           | None => bad BpNoFuel
           | Some r => r
           end
  end.

(* What every answer produced by the tree search satisfies, given the model's root (see the return statements of
   _branch_and_price after the tree is created: OPTIMAL iff proven(best_obj); INFEASIBLE iff no incumbent). *)
Definition tree_answer_ok (gap_tol : Q) (root_bound : option Z) (incumbent : option (plan * Z))
           (st : Cg.status) (obj : option Z) : bool :=
  match st, obj with
  | INFEASIBLE, None => match incumbent with None => true | Some _ => false end
  | INFEASIBLE, Some _ => false
  | _, None => false
  | _, Some o =>
      status_eqb st (if proven gap_tol root_bound (inject_Z o) then OPTIMAL else FEASIBLE)
      && match incumbent with Some (_, t) => Z.leb o t | None => true end
  end.
