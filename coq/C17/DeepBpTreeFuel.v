(* C17 deep, second round - the fuel of the tree loop of DeepBpTree.tree_loop is never the reason for an answer None:
   every iteration pops one heap entry and an explored node pushes two, so  length heap + 2 * (max_nodes - nodes_explored)
   strictly decreases; any two fuels above it give the same result.  (`while tree and nodes_explored < max_nodes` terminates.) *)
From Coq Require Import List ZArith QArith Bool Arith Lia.
From SV Require Import C17.Cg C17.Bp C17.DeepBpTree.
Import ListNotations.

Lemma heap_min_in : forall l b, In (heap_min b l) (b :: l).
Proof.
  induction l as [|e l IH]; intros b; cbn [heap_min]; [left; reflexivity|].
  destruct (IH (if hentry_lt e b then e else b)) as [H|H].
  - destruct (hentry_lt e b); [right; left; exact H | left; exact H].
  - right. right. exact H.
Qed.

Lemma filter_length_le' : forall {A} (f : A -> bool) l, (length (filter f l) <= length l)%nat.
Proof. intros A f l. induction l as [|a l IH]; simpl; [lia|]. destruct (f a); simpl; lia. Qed.

Lemma filter_length_lt : forall {A} (f : A -> bool) l a, In a l -> f a = false -> (length (filter f l) < length l)%nat.
Proof.
  intros A f l a. induction l as [|b l IH]; intros Hin Hf; [destruct Hin|]. simpl. destruct Hin as [->|Hin].
  - rewrite Hf. pose proof (filter_length_le' f l). lia.
  - specialize (IH Hin Hf). destruct (f b); simpl; lia.
Qed.

Lemma heap_remove_lt : forall e l, In e l -> (length (heap_remove (h_cnt e) l) < length l)%nat.
Proof.
  intros e l Hin. unfold heap_remove. apply (filter_length_lt _ l e Hin). rewrite Nat.eqb_refl. reflexivity.
Qed.

Definition tmeasure (mn : nat) (heap : list hentry) (nodes : nat) : nat := (length heap + 2 * (mn - nodes))%nat.

Lemma tree_loop_fuel_irrelevant : forall eps gap is_cs pricing demands mi mn rb fuel fuel' cols best heap counter nodes total trace,
  (tmeasure mn heap nodes < fuel)%nat -> (tmeasure mn heap nodes < fuel')%nat ->
  tree_loop eps gap is_cs pricing demands mi mn rb fuel cols best heap counter nodes total trace =
  tree_loop eps gap is_cs pricing demands mi mn rb fuel' cols best heap counter nodes total trace.
Proof.
  intros eps gap is_cs pricing demands mi mn rb fuel.
  induction fuel as [|fuel IH]; intros fuel' cols best heap counter nodes total trace H1 H2; [lia|].
  destruct fuel' as [|fuel']; [lia|]. cbn [tree_loop].
  destruct heap as [|e0 rest]; [reflexivity|].
  destruct (Nat.leb mn nodes) eqn:El; [reflexivity|]. apply Nat.leb_gt in El.
  set (e := heap_min e0 rest).
  pose proof (heap_remove_lt e (e0 :: rest) (heap_min_in rest e0)) as Hrm.
  set (heap' := heap_remove (h_cnt e) (e0 :: rest)) in *.
  unfold tmeasure in *.
  assert (Ha : forall n', (nodes <= n')%nat -> (length heap' + 2 * (mn - n') < fuel)%nat /\ (length heap' + 2 * (mn - n') < fuel')%nat) by (intros; lia).
  destruct (dominated eps best (h_key e)); [apply IH; apply (Ha nodes); lia|].
  destruct (bsolve_node_lp eps is_cs pricing demands (cb_dict (h_nb e)) mi cols) as [[[[[[cols' x] du] lp] it] cv]|]; [|reflexivity].
  destruct lp as [lpv|]; [|apply IH; apply (Ha (S nodes)); lia].
  destruct (dominated eps best lpv); [apply IH; apply (Ha (S nodes)); lia|].
  destruct (most_fractional eps 0 x (None, 0%Q)) as [fi|].
  - apply IH; rewrite app_length; cbn [length]; lia.
  - destruct (improves eps best (plan_total (build_solution eps cols' x)) && covers (build_solution eps cols' x) demands);
      [|apply IH; apply (Ha (S nodes)); lia].
    destruct (proven gap rb (inject_Z (plan_total (build_solution eps cols' x)))); [reflexivity|].
    apply IH; apply (Ha (S nodes)); lia.
Qed.

(* the fuel branch_and_price gives the loop is enough: more changes nothing *)
Theorem tree_fuel_enough : forall eps gap is_cs pricing demands mi mn rb extra cols best lp it,
  tree_loop eps gap is_cs pricing demands mi mn rb (tree_fuel mn + extra) cols best [(lp, O, [])] 1 0 it [] =
  tree_loop eps gap is_cs pricing demands mi mn rb (tree_fuel mn) cols best [(lp, O, [])] 1 0 it [].
Proof.
  intros. apply tree_loop_fuel_irrelevant; unfold tmeasure, tree_fuel; cbn [length]; lia.
Qed.
