(* C17 deep - soundness of the dual vector of the master LP (eps = 0):  `master_lp_duals_ok`.
   Whenever master_lp (cg's `_solve_master_lp`, drive = false; bp's root LP, drive = true) returns, its dual vector y is
   non-negative, prices every pool column at most 1, and y.d equals the reported LP objective. *)
From Coq Require Import List ZArith QArith Qabs Qround Bool Arith Lia Lqa Setoid.
From SV Require Import C17.Cg C17.CgSpec C17.GateProofs C17.PoolProofs C17.DeepSum C17.DeepInv C17.DeepPhase C17.DeepInit.
Import ListNotations.
Open Scope Q_scope.

Definition m_obj1 (n m : nat) (rows : list row) : row :=
  fst (fold_left (fun (st : list Q * nat) r => (set_nth (n + m + snd st) 0 (vsub (fst st) r), S (snd st)))
                 rows (repeat 0 (S (n + m + m)), O)).

Definition m_x (n : nat) (basis2 : list nat) (T2 : tableau) : list Q :=
  fst (fold_left (fun (st : list Q * nat) r =>
                    let b := nth (snd st) basis2 O in
                    ((if Nat.ltb b n then set_nth b (Qred (qmax 0 (lastq r))) (fst st) else fst st), S (snd st)))
                 (t_rows T2) (repeat 0 n, O)).

Lemma master_lp_eq : forall drive eps (columns : list pattern) demands, columns <> [] ->
  master_lp drive eps columns demands =
  let m := length demands in
  let n := length columns in
  let rows := m_rows columns demands in
  let '(T1, basis1, ok1) := simplex_phase eps simplex_fuel (n + m) (mkT rows (m_obj1 n m rows)) (seq (n + m) m) in
  if negb ok1 then None
  else if Qltb (lastq (t_obj T1)) (- eps) then Some (repeat 0 n, repeat 0 m, None)
  else
    let '(T1d, basis1d) := if drive then drive_out_artificials eps (n + m) m T1 basis1 else (T1, basis1) in
    let '(T2, basis2, ok2) := simplex_phase eps simplex_fuel (n + m)
                                (mkT (t_rows T1d) (m_obj2 eps n m basis1d (t_rows T1d))) basis1d in
    if negb ok2 then None
    else Some (m_x n basis2 T2, map (fun i => getq (t_obj T2) (n + i)) (seq 0 m), Some (Qred (- lastq (t_obj T2)))).
Proof. intros drive eps columns demands H. destruct columns as [|c cs]; [congruence | reflexivity]. Qed.

Lemma dotq_repeat0 : forall k p, dotq (repeat 0 k) p == 0.
Proof.
  induction k as [|k IH]; intros p; [reflexivity|]. destruct p as [|x p]; [reflexivity|].
  cbn [repeat dotq]. rewrite IH. ring.
Qed.

Lemma Forall_repeat0 : forall k, Forall (fun v => 0 <= v) (repeat 0 k).
Proof. intros k. apply Forall_forall. intros v Hv. apply repeat_spec in Hv. subst. apply Qle_refl. Qed.

Lemma duals_sum : forall n m obj (W : nat -> Q),
  (forall i, (i < m)%nat -> getq obj (n + i) == - mu n m obj i) ->
  sumN (fun i => getq obj (n + i) * W i) 0 m == - sumN (fun i => mu n m obj i * W i) 0 m.
Proof.
  intros n m obj W H. rewrite (sumN_ext _ (fun i => (-(1)) * (mu n m obj i * W i))).
  - rewrite sumN_scal. ring.
  - intros i Hi. rewrite H by lia. ring.
Qed.

Theorem master_lp_duals_ok : forall drive (cols : list pattern) demands x y lp,
  master_lp drive 0 cols demands = Some (x, y, lp) ->
  Forall (fun v => 0 <= v) y /\
  (forall p, In p cols -> dotq y p <= 1) /\
  (forall o, lp = Some o -> o == dotq y demands).
Proof.
  intros drive cols demands x y lp H.
  assert (Hzero : forall k, Forall (fun v => 0 <= v) (repeat 0 k) /\
                            (forall p, In p cols -> dotq (repeat 0 k) p <= 1) /\
                            (forall o, @None Q = Some o -> o == dotq (repeat 0 k) demands)).
  { intros k. split; [apply Forall_repeat0|]. split; [|intros o Ho; discriminate].
    intros p _. rewrite dotq_repeat0. lra. }
  destruct cols as [|c cs] eqn:Ec.
  - cbn in H. inversion H; subst. apply Hzero.
  - rewrite <- Ec in *. rewrite master_lp_eq in H by (rewrite Ec; discriminate). cbv zeta in H.
    set (n := length cols) in *. set (m := length demands) in *.
    pose proof (rows0_inv cols demands) as HR0. fold n m in HR0.
    destruct (simplex_phase 0 simplex_fuel (n + m) (mkT (m_rows cols demands) (m_obj1 n m (m_rows cols demands))) (seq (n + m) m))
      as [[T1 b1] ok1] eqn:E1.
    destruct (phase_inv n m (colA cols) (demD demands) _ (mkT (m_rows cols demands) (m_obj1 n m (m_rows cols demands))) _ _ _ _ HR0 E1) as [HR1 _].
    destruct ok1; cbn [negb] in H; [|discriminate].
    destruct (Qltb (lastq (t_obj T1)) (- 0)); [inversion H; subst; apply Hzero|].
    assert (HR1d : rowsInv n m (colA cols) (demD demands)
                     (t_rows (fst (if drive then drive_out_artificials 0 (n + m) m T1 b1 else (T1, b1))))
                     (snd (if drive then drive_out_artificials 0 (n + m) m T1 b1 else (T1, b1)))).
    { destruct drive; [apply drive_rows; exact HR1 | exact HR1]. }
    destruct (if drive then drive_out_artificials 0 (n + m) m T1 b1 else (T1, b1)) as [T1d b1d]. cbn [fst snd] in HR1d.
    destruct (m_obj2_inv n m (colA cols) (demD demands) _ _ HR1d) as [HO1 HO2].
    destruct (simplex_phase 0 simplex_fuel (n + m) (mkT (t_rows T1d) (m_obj2 0 n m b1d (t_rows T1d))) b1d)
      as [[T2 b2] ok2] eqn:E2.
    destruct (phase_inv n m (colA cols) (demD demands) _ (mkT (t_rows T1d) (m_obj2 0 n m b1d (t_rows T1d))) _ _ _ _ HR1d E2) as [HR2 HOf]. cbn [t_rows t_obj] in HOf.
    destruct ok2; cbn [negb] in H; [|discriminate].
    destruct (HOf HO1 HO2) as [HO1' [HO2' Hfe]]. specialize (Hfe eq_refl).
    pose proof (optimal_obj_nonneg n m (colA cols) (demD demands) _ _ _ HR2 HO1' HO2' Hfe) as Hnn.
    destruct HO1' as [Lo [H1 [H2 H3]]].
    assert (Ey : y = map (fun i => getq (t_obj T2) (n + i)) (seq 0 m)) by congruence.
    assert (Elp : lp = Some (Qred (- lastq (t_obj T2)))) by congruence. subst y lp. clear H.
    split; [|split].
    + apply Forall_forall. intros v Hv. apply in_map_iff in Hv. destruct Hv as [i [Hv Hi]]. subst v.
      apply in_seq in Hi. apply Hnn. lia.
    + intros p Hp. destruct (In_nth cols p [] Hp) as [j [Hj Ej]]. fold n in Hj.
      rewrite dotq_tab0.
      rewrite (sumN_ext _ (fun i => getq (t_obj T2) (n + i) * colA cols j i))
        by (intros i _; unfold colA; rewrite Ej; reflexivity).
      rewrite (duals_sum n m _ _ H2).
      pose proof (H1 j Hj) as E. assert (Hj' : (j < n + m)%nat) by lia. pose proof (Hnn j Hj'). lra.
    + intros o Ho. assert (Eo : o = Qred (- lastq (t_obj T2))) by congruence. rewrite Eo. rewrite Qred_correct.
      rewrite (lastq_getq _ _ Lo). rewrite H3. rewrite dotq_tab0.
      symmetry. exact (duals_sum n m (t_obj T2) (demD demands) H2).
Qed.
