(* Model of solvor/utils/pricing.py (knapsack_pricing, simplex_phase, drive_out_artificials, _pivot) and of
   solvor/cg.py (solve_cg, _solve_cutting_stock, _solve_custom, _solve_master_lp).  Definitions only.

   Shape A over Q: the float arithmetic of the code is carried out in exact rationals, `eps : Q` is a
   parameter (the code's default is 1e-9; the optimality theorems are for eps = 0, the harness checks on
   every run that eps = 0, 1e-9 and 1e-7 take the same decisions on the explored inputs).

   Representation.
   * A tableau row `tab[i]` is a `list Q` whose LAST element is the right-hand side (`tab[i][-1]`);
     `tab` = (rows, obj) where obj is `tab[-1]`.
   * `basis_set` of simplex_phase always equals set(basis) (both are updated together), so
     `j not in basis_set` is a membership test on `basis`.
   * float("inf") is `None` in `option Q` (`dp_val[w] = -inf`, `lp_obj = inf`, `min_ratio = inf`).
   * A dict pattern -> count is an association list in insertion order (`dict_set`).
   * knapsack_pricing: sizes and capacity are integers here (the property's quantifier), so
     `int(x * 100 + 0.5)` = 100 * x exactly.  One pass of the inner loop
         for w in range(cap_int, size_i - 1, -1): ... dp[prev_w] ... dp[w] = ...
     reads only cells below the one it writes and walks downwards, so it never reads a cell written in the
     same pass: the pass is the pointwise map  new[w] = upd(old[w], old[w - size_i])  (`knap_pass`).
     The greedy fallback (`total_size > capacity + eps`) is NOT modelled: `knapsack_pricing` returns `None`
     there; KnapProofs shows that this never happens for positive integer sizes.
   * simplex_phase runs at most 100000 iterations and then returns silently; the model reports that as
     `false` in the third component and every caller turns it into the error value `None`.
   * `on_progress` is None (no call-back). *)
From Coq Require Import List ZArith QArith Qabs Qround Bool Arith.
Import ListNotations.
Open Scope Q_scope.

Definition Qleb (a b : Q) : bool := Qle_bool a b.
Definition Qltb (a b : Q) : bool := negb (Qle_bool b a).
Definition Qceil (x : Q) : Z := Qceiling x.                 (* math.ceil *)
Definition z2q (z : Z) : Q := inject_Z z.
Definition qmax (a b : Q) : Q := if Qleb a b then b else a.
Definition qmin (a b : Q) : Q := if Qleb a b then a else b.

Definition pattern := list Z.
Fixpoint pat_eqb (a b : pattern) : bool :=
  match a, b with
  | [], [] => true
  | x :: a', y :: b' => Z.eqb x y && pat_eqb a' b'
  | _, _ => false
  end.
Definition pat_mem (p : pattern) (l : list pattern) : bool := existsb (pat_eqb p) l.

Definition getq (l : list Q) (j : nat) : Q := nth j l 0.
Definition getz (l : list Z) (j : nat) : Z := nth j l 0%Z.
Definition lastq (l : list Q) : Q := last l 0.

Fixpoint set_nth {A} (i : nat) (v : A) (l : list A) : list A :=
  match l, i with
  | [], _ => []
  | _ :: xs, O => v :: xs
  | x :: xs, S j => x :: set_nth j v xs
  end.
Fixpoint mapi_from {A B} (i : nat) (f : nat -> A -> B) (l : list A) : list B :=
  match l with
  | [] => []
  | x :: xs => f i x :: mapi_from (S i) f xs
  end.
Definition mapi {A B} (f : nat -> A -> B) (l : list A) : list B := mapi_from 0 f l.
Definition mem_nat (j : nat) (l : list nat) : bool := existsb (Nat.eqb j) l.

(* sum(v[i] * a[i]) over Q and sum(s[i] * a[i]) over Z *)
Fixpoint dotq (y : list Q) (a : list Z) : Q :=
  match y, a with
  | v :: y', x :: a' => v * z2q x + dotq y' a'
  | _, _ => 0
  end.
Fixpoint dotz (s a : list Z) : Z :=
  match s, a with
  | v :: s', x :: a' => (v * x + dotz s' a')%Z
  | _, _ => 0%Z
  end.

(* =====================================================================  knapsack_pricing *)
Definition cell := (option Q * pattern)%type.          (* dp_val[w] (None = -inf), dp_pat[w] *)

Definition incr_at (i : nat) (p : pattern) : pattern := mapi (fun k x => if Nat.eqb k i then (x + 1)%Z else x) p.

(* body of the w loop:  if dp_val[prev_w] > -inf: new_val = ...; if new_val > dp_val[w] + eps: ... *)
Definition knap_upd (eps v : Q) (i : nat) (cur : cell) (prev : option cell) : cell :=
  match prev with
  | Some (Some pv, pp) =>
      let nv := Qred (pv + v) in
      match fst cur with
      | None => (Some nv, incr_at i pp)
      | Some cv => if Qltb (cv + eps) nv then (Some nv, incr_at i pp) else cur
      end
  | _ => cur
  end.

Fixpoint zip_upd (eps v : Q) (i : nat) (dp : list cell) (sh : list (option cell)) : list cell :=
  match dp, sh with
  | c :: dp', p :: sh' => knap_upd eps v i c p :: zip_upd eps v i dp' sh'
  | _, _ => dp
  end.

(* one `for w in range(cap_int, size_i - 1, -1)` pass; s = size_i *)
Definition knap_pass (eps v : Q) (i s : nat) (dp : list cell) : list cell :=
  zip_upd eps v i dp (repeat None s ++ map Some dp).

Fixpoint iter_n {A} (k : nat) (f : A -> A) (x : A) : A :=
  match k with O => x | S k' => iter_n k' f (f x) end.

(* for i in range(n): if values[i] <= eps: continue; for _ in range(max_copies[i]): pass *)
Fixpoint knap_items (eps : Q) (i : nat) (sizes_int : list Z) (copies : list Z) (values : list Q)
         (dp : list cell) : list cell :=
  match sizes_int, copies, values with
  | s :: ss, c :: cs, v :: vs =>
      let dp' := if Qleb v eps then dp
                 else iter_n (Z.to_nat c) (knap_pass eps v i (Z.to_nat s)) dp in
      knap_items eps (S i) ss cs vs dp'
  | _, _, _ => dp
  end.

(* for w in range(cap_int + 1): if dp_val[w] > best_val + eps: best_val, best_w = dp_val[w], w *)
Fixpoint knap_best (eps : Q) (dp : list cell) (w : nat) (best : Q * nat) : Q * nat :=
  match dp with
  | [] => best
  | (Some v, _) :: dp' => knap_best eps dp' (S w) (if Qltb (fst best + eps) v then (v, w) else best)
  | (None, _) :: dp' => knap_best eps dp' (S w) best
  end.

Definition knap_scale : Z := 100.

Definition max_copies (sizes : list Z) (cap : Z) : list Z :=
  map (fun s => if Z.ltb 0 s then Z.div cap s else 0%Z) sizes.

(* The DP proper, on already scaled integer data; returns (best_pat, best_val). *)
Definition knap_dp (eps : Q) (sizes_int : list Z) (cap_int : Z) (copies : list Z) (values : list Q) : pattern * Q :=
  let n := length sizes_int in
  let zero := repeat 0%Z n in
  let dp0 := (Some 0, zero) :: repeat (None, zero) (Z.to_nat cap_int) in
  let dp := knap_items eps 0 sizes_int copies values dp0 in
  let '(best_val, best_w) := knap_best eps dp 0 (0, O) in
  let best_pat := if Qltb eps best_val then snd (nth best_w dp (None, zero)) else zero in
  (best_pat, best_val).

Definition knapsack_pricing (eps : Q) (sizes : list Z) (cap : Z) (values : list Q) : option (pattern * Q) :=
  match sizes with
  | [] => Some ([], 0)
  | _ =>
      let copies := max_copies sizes cap in
      let cap_int := (cap * knap_scale)%Z in
      let sizes_int := map (fun s => Z.max 1 (s * knap_scale)) sizes in
      let '(best_pat, best_val) := knap_dp eps sizes_int cap_int copies values in
      (* total_size = sum(best_pat[i] * sizes[i]);  if total_size > capacity + eps: greedy fallback *)
      if Qltb (z2q cap + eps) (z2q (dotz sizes best_pat)) then None
      else Some (best_pat, best_val)
  end.

(* =====================================================================  simplex tableau *)
Definition row := list Q.
Record tableau := mkT { t_rows : list row; t_obj : row }.

Definition rscale_div (piv : Q) (r : row) : row := map (fun x => Qred (x / piv)) r.      (* tab[leave][j] /= piv *)
Fixpoint vsubmul (f : Q) (a p : list Q) : list Q :=                                      (* a[j] -= f * p[j] *)
  match a with
  | [] => []
  | x :: a' => Qred (x - f * hd 0 p) :: vsubmul f a' (tl p)
  end.

(* def _pivot(tab, basis, leave, enter, n_rows, eps) *)
Definition elim_row (eps : Q) (enter : nat) (prow : row) (r : row) : row :=
  let f := getq r enter in
  if Qltb eps (Qabs f) then vsubmul f r prow else r.

Definition pivot (eps : Q) (T : tableau) (basis : list nat) (leave enter : nat) : tableau * list nat :=
  let r := nth leave (t_rows T) [] in
  let piv := getq r enter in
  let prow := rscale_div piv r in
  (mkT (mapi (fun i x => if Nat.eqb i leave then prow else elim_row eps enter prow x) (t_rows T))
       (elim_row eps enter prow (t_obj T)),
   set_nth leave enter basis).

(* Bland entering: first j in range(n_orig) with j not in basis_set and tab[-1][j] < -eps *)
Fixpoint find_enter (eps : Q) (basis : list nat) (n_orig : nat) (j : nat) (oc : list Q) : option nat :=
  match n_orig, oc with
  | S k, x :: oc' =>
      if negb (mem_nat j basis) && Qltb x (- eps) then Some j
      else find_enter eps basis k (S j) oc'
  | _, _ => None
  end.

(* ratio test:
     if tab[i][enter] > eps:
         ratio = tab[i][-1] / tab[i][enter]
         if ratio < min_ratio - eps:   min_ratio, leave = ratio, i
         elif abs(ratio - min_ratio) <= eps and leave >= 0 and basis[i] < basis[leave]:   leave = i   *)
Definition ratio_step (eps : Q) (basis : list nat) (e : nat) (i : nat) (r : row)
           (st : option nat * option Q) : option nat * option Q :=
  let a := getq r e in
  if Qltb eps a then
    let ratio := Qred (lastq r / a) in
    match snd st with
    | None => (Some i, Some ratio)
    | Some mr =>
        if Qltb ratio (mr - eps) then (Some i, Some ratio)
        else if Qleb (Qabs (ratio - mr)) eps then
               match fst st with
               | Some l => if Nat.ltb (nth i basis O) (nth l basis O) then (Some i, snd st) else st
               | None => st
               end
             else st
    end
  else st.

Fixpoint ratio_loop (eps : Q) (basis : list nat) (e : nat) (i : nat) (rows : list row)
         (st : option nat * option Q) : option nat * option Q :=
  match rows with
  | [] => st
  | r :: rs => ratio_loop eps basis e (S i) rs (ratio_step eps basis e i r st)
  end.
Definition find_leave (eps : Q) (basis : list nat) (T : tableau) (e : nat) : option nat :=
  fst (ratio_loop eps basis e 0 (t_rows T) (None, None)).

(* def simplex_phase(tab, basis, n_orig, n_rows, eps): `for _ in range(100_000)`.
   Third component: true = returned from inside the loop, false = the 100000 iterations were used up. *)
Fixpoint simplex_phase (eps : Q) (fuel : nat) (n_orig : nat) (T : tableau) (basis : list nat)
  : tableau * list nat * bool :=
  match fuel with
  | O => (T, basis, false)
  | S fuel' =>
      match find_enter eps basis n_orig 0 (t_obj T) with
      | None => (T, basis, true)
      | Some e =>
          match find_leave eps basis T e with
          | None => (T, basis, true)
          | Some l =>
              let '(T', basis') := pivot eps T basis l e in
              simplex_phase eps fuel' n_orig T' basis'
          end
      end
  end.
Definition simplex_fuel : nat := 100 * 1000.

(* def drive_out_artificials(tab, basis, n_orig, n_rows, eps) *)
(* max((j for j in range(n_orig) if j not in basis), key=lambda j: abs(tab[i][j]), default=-1): first maximal *)
Fixpoint argmax_abs (basis : list nat) (n_orig : nat) (j : nat) (r : list Q) (best : option (nat * Q)) : option (nat * Q) :=
  match n_orig, r with
  | S k, x :: r' =>
      let best' := if mem_nat j basis then best
                   else match best with
                        | None => Some (j, Qabs x)
                        | Some (_, bx) => if Qltb bx (Qabs x) then Some (j, Qabs x) else best
                        end in
      argmax_abs basis k (S j) r' best'
  | _, _ => best
  end.

Definition drive_step (eps : Q) (n_orig : nat) (st : tableau * list nat) (i : nat) : tableau * list nat :=
  let '(T, basis) := st in
  if Nat.ltb (nth i basis O) n_orig then st
  else match argmax_abs basis n_orig 0 (nth i (t_rows T) []) None with
       | Some (e, ax) => if Qltb eps ax then pivot eps T basis i e else st
       | None => st
       end.
Definition drive_out_artificials (eps : Q) (n_orig n_rows : nat) (T : tableau) (basis : list nat) : tableau * list nat :=
  fold_left (drive_step eps n_orig) (seq 0 n_rows) (T, basis).

(* =====================================================================  master LP *)
Definition unitq (k i : nat) (v : Q) : list Q := map (fun j => if Nat.eqb j i then v else 0) (seq 0 k).
Definition vsub (a b : list Q) : list Q := vsubmul 1 a b.

(* result: (x_vals, duals, objective) with objective None = float("inf") *)
Definition lp_result := (list Q * list Q * option Q)%type.

(* `_solve_master_lp(columns, demands, eps)` of cg.py (drive = false) and `_solve_bounded_master_lp(columns, demands, {},
   eps)` of bp.py WITHOUT column bounds (drive = true: same tableau, plus drive_out_artificials after phase 1).
   None = a simplex_phase call used up its 100000 iterations. *)
Definition master_lp (drive : bool) (eps : Q) (columns : list pattern) (demands : list Z) : option lp_result :=
  let m := length demands in
  let n := length columns in
  match columns with
  | [] => Some ([], repeat 0 m, None)
  | _ =>
      let n_vars := (n + m + m)%nat in
      let rows := mapi (fun i d => map (fun c => z2q (getz c i)) columns ++ unitq m i (-(1)) ++ unitq m i 1 ++ [z2q d]) demands in
      (* phase 1 objective: for i: tab[-1][j] -= tab[i][j] for all j; tab[-1][n + m + i] = 0 *)
      let obj1 := fst (fold_left (fun (st : list Q * nat) r => (set_nth (n + m + snd st) 0 (vsub (fst st) r), S (snd st)))
                                 rows (repeat 0 (S n_vars), O)) in
      let basis0 := seq (n + m) m in
      let '(T1, basis1, ok1) := simplex_phase eps simplex_fuel (n + m) (mkT rows obj1) basis0 in
      if negb ok1 then None
      else if Qltb (lastq (t_obj T1)) (- eps) then Some (repeat 0 n, repeat 0 m, None)
      else
        let '(T1d, basis1d) := if drive then drive_out_artificials eps (n + m) m T1 basis1 else (T1, basis1) in
        (* phase 2 objective: costs 1 on the x columns, then eliminate the basic ones *)
        let obj2_0 := repeat 1 n ++ repeat 0 (S (m + m)) in
        let obj2 := fst (fold_left (fun (st : list Q * nat) r =>
                                      let b := nth (snd st) basis1d O in
                                      let cost := if Nat.ltb b n then 1 else 0 in
                                      ((if Qltb eps (Qabs cost) then vsubmul cost (fst st) r else fst st), S (snd st)))
                                   (t_rows T1d) (obj2_0, O)) in
        let '(T2, basis2, ok2) := simplex_phase eps simplex_fuel (n + m) (mkT (t_rows T1d) obj2) basis1d in
        if negb ok2 then None
        else
          (* x_vals[b] = max(0.0, tab[i][-1]) for basic b < n *)
          let x := fst (fold_left (fun (st : list Q * nat) r =>
                                     let b := nth (snd st) basis2 O in
                                     ((if Nat.ltb b n then set_nth b (Qred (qmax 0 (lastq r))) (fst st) else fst st), S (snd st)))
                                  (t_rows T2) (repeat 0 n, O)) in
          let duals := map (fun i => getq (t_obj T2) (n + i)) (seq 0 m) in
          Some (x, duals, Some (Qred (- lastq (t_obj T2))))
  end.

(* =====================================================================  solve_cg *)
Inductive status := OPTIMAL | FEASIBLE | INFEASIBLE.
Definition status_eqb (a b : status) : bool :=
  match a, b with OPTIMAL, OPTIMAL | FEASIBLE, FEASIBLE | INFEASIBLE, INFEASIBLE => true | _, _ => false end.

Definition plan := list (pattern * Z).
Fixpoint dict_set (k : pattern) (v : Z) (d : plan) : plan :=
  match d with
  | [] => [(k, v)]
  | (k', v') :: d' => if pat_eqb k k' then (k', v) :: d' else (k', v') :: dict_set k v d'
  end.

(* for pattern, x in zip(patterns, x_vals): if x > eps: count = ceil(x - eps); if count > 0: solution[pattern] = count; total += count *)
Definition round_step (eps : Q) (st : plan * Z) (px : pattern * Q) : plan * Z :=
  let '(p, x) := px in
  if Qltb eps x then
    let count := Qceil (x - eps) in
    if Z.ltb 0 count then (dict_set p count (fst st), (snd st + count)%Z) else st
  else st.
Definition round_up (eps : Q) (patterns : list pattern) (x : list Q) : plan * Z :=
  fold_left (round_step eps) (combine patterns x) ([], 0%Z).

(* produced = sum(p[i] * cnt for p, cnt in solution.items()) *)
Definition produced (sol : plan) (i : nat) : Z := fold_right (fun pc acc => (getz (fst pc) i * snd pc + acc)%Z) 0%Z sol.
(* for i in range(n): if produced < demands[i]: return INFEASIBLE *)
Definition covers (sol : plan) (demands : list Z) : bool :=
  forallb (fun i => Z.leb (getz demands i) (produced sol i)) (seq 0 (length demands)).

Record cg_result := mkR {
  r_status : status; r_plan : plan; r_obj : Z; r_iters : nat;
  r_pool : list pattern; r_duals : list Q; r_lp : option Q; r_conv : bool }.

Inductive outcome :=
| Done (r : cg_result)
| Overflow          (* math.ceil(float("inf")) raises OverflowError *)
| Invalid           (* ValueError from input validation *)
| NoFuel.           (* not modelled: a simplex_phase call ran 100000 iterations / knapsack fallback *)

Definition initial_patterns (sizes : list Z) (width : Z) (demands : list Z) : list pattern :=
  let n := length sizes in
  flat_map (fun j => if Z.ltb 0 (getz demands j)
                     then [map (fun i => if Nat.eqb i j then Z.div width (getz sizes j) else 0%Z) (seq 0 n)]
                     else []) (seq 0 n).

(* status rule shared by both modes: lb = ceil(lp_obj - eps); OPTIMAL if converged and total <= lb *)
Definition finish (eps : Q) (sol : plan) (total : Z) (iters : nat) (pool : list pattern) (duals : list Q)
           (lp : option Q) (conv : bool) : outcome :=
  match lp with
  | None => Overflow
  | Some o =>
      let lb := Qceil (o - eps) in
      Done (mkR (if conv && Z.leb total lb then OPTIMAL else FEASIBLE) sol total iters pool duals lp conv)
  end.

(* while iteration < max_iter: ... ; `fuel` = max_iter - iteration.  Returns (patterns, iteration, converged). *)
Fixpoint cs_loop (eps : Q) (sizes : list Z) (width : Z) (demands : list Z) (fuel : nat) (iteration : nat)
         (patterns : list pattern) : option (list pattern * nat * bool) :=
  match fuel with
  | O => Some (patterns, iteration, false)
  | S fuel' =>
      match master_lp false eps patterns demands with
      | None => None
      | Some (_, duals, _) =>
          match knapsack_pricing eps sizes width duals with
          | None => None
          | Some (new_pattern, pricing_value) =>
              if Qleb pricing_value (1 + eps) then Some (patterns, iteration, true)
              else cs_loop eps sizes width demands fuel' (S iteration)
                           (if pat_mem new_pattern patterns then patterns else patterns ++ [new_pattern])
          end
      end
  end.

Definition valid_sizes (sizes : list Z) (width : Z) : bool :=
  forallb (fun s => Z.ltb 0 s && Z.leb s width) sizes.

Definition solve_cutting_stock (eps : Q) (sizes : list Z) (width : Z) (demands : list Z) (max_iter : nat) : outcome :=
  if negb (Nat.eqb (length sizes) (length demands)) then Invalid
  else if negb (valid_sizes sizes width) then Invalid
  else
    match cs_loop eps sizes width demands max_iter 0 (initial_patterns sizes width demands) with
    | None => NoFuel
    | Some (patterns, iteration, conv) =>
        match master_lp false eps patterns demands with
        | None => NoFuel
        | Some (x, duals, lp) =>
            let '(sol, total) := round_up eps patterns x in
            if negb (covers sol demands)
            then Done (mkR INFEASIBLE sol total iteration patterns duals lp conv)
            else finish eps sol total iteration patterns duals lp conv
        end
    end.

(* ---- custom mode.  `pricing` is the user's call-back: duals -> (column or None, reduced_cost). *)
Definition pricing_fn := list Q -> option pattern * Q.

Fixpoint custom_loop (eps : Q) (pricing : pricing_fn) (demands : list Z) (fuel : nat) (iteration : nat)
         (columns : list pattern) : option (list pattern * nat * bool) :=
  match fuel with
  | O => Some (columns, iteration, false)
  | S fuel' =>
      match master_lp false eps columns demands with
      | None => None
      | Some (_, duals, _) =>
          match pricing duals with
          | (None, _) => Some (columns, iteration, true)
          | (Some new_col, rc) =>
              if Qleb (- eps) rc then Some (columns, iteration, true)
              else custom_loop eps pricing demands fuel' (S iteration)
                               (if pat_mem new_col columns then columns else columns ++ [new_col])
          end
      end
  end.

Definition solve_custom (eps : Q) (pricing : pricing_fn) (demands : list Z) (init : list pattern) (max_iter : nat) : outcome :=
  if negb (forallb (fun c => Nat.eqb (length c) (length demands)) init) then Invalid
  else
    match custom_loop eps pricing demands max_iter 0 init with
    | None => NoFuel
    | Some (columns, iteration, conv) =>
        match master_lp false eps columns demands with
        | None => NoFuel
        | Some (x, duals, lp) =>
            let '(sol, total) := round_up eps columns x in
            finish eps sol total iteration columns duals lp conv
        end
    end.

Definition trivial_result : outcome := Done (mkR OPTIMAL [] 0%Z O [] [] (Some 0) true).

(* def solve_cg(demands, *, roll_width, piece_sizes, max_iter, eps) - cutting-stock mode *)
Definition solve_cg (eps : Q) (sizes : list Z) (width : Z) (demands : list Z) (max_iter : nat) : outcome :=
  match demands with
  | [] => trivial_result
  | _ =>
      if negb (forallb (Z.leb 0) demands) then Invalid
      else if forallb (Z.eqb 0) demands then trivial_result
      else solve_cutting_stock eps sizes width demands max_iter
  end.

(* solve_cg(demands, pricing_fn=..., initial_columns=...) *)
Definition solve_cg_custom (eps : Q) (pricing : pricing_fn) (demands : list Z) (init : list pattern) (max_iter : nat) : outcome :=
  match demands with
  | [] => trivial_result
  | _ =>
      if negb (forallb (Z.leb 0) demands) then Invalid
      else if forallb (Z.eqb 0) demands then trivial_result
      else solve_custom eps pricing demands init max_iter
  end.

(* The harness's pricing call-back (harness/props/C17.py: make_pricing): exact pricing over an explicit column
   set, first column whose reduced cost 1 - y.c beats the best so far by more than 1e-9. *)
Definition custom_pricing (tie : Q) (cols : list pattern) : pricing_fn := fun duals =>
  match fold_left (fun (best : option (pattern * Q)) c =>
                     let rc := Qred (1 - dotq duals c) in
                     match best with
                     | None => Some (c, rc)
                     | Some (_, brc) => if Qltb rc (brc - tie) then Some (c, rc) else best
                     end) cols None with
  | None => (None, 0)
  | Some (c, rc) => (Some c, rc)
  end.

Definition eps_default : Q := 1 # 1000000000.
