(* C17 - the readable specification of a cutting-stock / column-covering plan, and the boolean gates.
   Definitions only (the soundness lemmas are in GateProofs.v / DualityProofs.v / KnapProofs.v). *)
From Coq Require Import List ZArith QArith Qround Bool Arith.
From SV Require Import C17.Cg.
Import ListNotations.

(* ---- patterns *)
(* a fits the roll: a non-negative integer vector, one entry per piece type, sum(size_i * a_i) <= width *)
Definition fits (sizes : list Z) (width : Z) (a : pattern) : Prop :=
  length a = length sizes /\ Forall (fun x => (0 <= x)%Z) a /\ (dotz sizes a <= width)%Z.
Definition fitsb (sizes : list Z) (width : Z) (a : pattern) : bool :=
  Nat.eqb (length a) (length sizes) && forallb (Z.leb 0) a && Z.leb (dotz sizes a) width.

(* ---- plans.  `feas` says which patterns / columns may be used (cutting stock: `fits sizes width`;
   custom mode: membership in the explicit column set). *)
Definition rolls (P : plan) : Z := fold_right (fun pc acc => (snd pc + acc)%Z) 0%Z P.

(* P uses admissible patterns a non-negative number of times and produces at least demand_i pieces of every type i *)
Definition covering (feas : pattern -> Prop) (demands : list Z) (P : plan) : Prop :=
  Forall (fun pc => feas (fst pc) /\ (0 <= snd pc)%Z) P /\
  forall i, (i < length demands)%nat -> (getz demands i <= produced P i)%Z.

(* r is the true minimum number of rolls *)
Definition is_min (feas : pattern -> Prop) (demands : list Z) (r : Z) : Prop :=
  (exists P, covering feas demands P /\ rolls P = r) /\
  forall P, covering feas demands P -> (r <= rolls P)%Z.

(* ---- the boolean gate (what solve_cg / solve_bp verify before answering OPTIMAL / FEASIBLE) *)
Definition plan_ok (sizes : list Z) (width : Z) (demands : list Z) (P : plan) (obj : Z) : bool :=
  forallb (fun pc => fitsb sizes width (fst pc) && Z.leb 0 (snd pc)) P
  && covers P demands
  && Z.eqb obj (rolls P).

Definition plan_ok_custom (cols : list pattern) (demands : list Z) (P : plan) (obj : Z) : bool :=
  forallb (fun pc => pat_mem (fst pc) cols && Z.leb 0 (snd pc)) P
  && covers P demands
  && Z.eqb obj (rolls P).

(* ---- fractional plans (for weak duality): counts in Q *)
Definition fplan := list (pattern * Q).
Definition frolls (P : fplan) : Q := fold_right (fun pc acc => snd pc + acc) 0 P.
Definition fproduced (P : fplan) (i : nat) : Q := fold_right (fun pc acc => z2q (getz (fst pc) i) * snd pc + acc) 0 P.
Definition fcovering (feas : pattern -> Prop) (demands : list Z) (P : fplan) : Prop :=
  Forall (fun pc => feas (fst pc) /\ 0 <= snd pc) P /\
  forall i, (i < length demands)%nat -> z2q (getz demands i) <= fproduced P i.

(* y is feasible for the dual of the FULL covering LP: y >= 0 and y.a <= 1 for every admissible pattern *)
Definition dual_feasible (feas : pattern -> Prop) (y : list Q) : Prop :=
  Forall (fun v => 0 <= v) y /\ forall a, feas a -> dotq y a <= 1.

(* ---- per-run dual certificate, cutting stock: y >= 0, the knapsack maximum of y over ALL fitting patterns
   (the DP, eps = 0) is <= 1, and rolls <= ceil(y . d); r <= 0 needs no certificate *)
Definition dual_cert_check (sizes : list Z) (width : Z) (demands : list Z) (y : list Q) (r : Z) : bool :=
  Z.leb r 0 ||
  Nat.eqb (length y) (length sizes)
  && Nat.eqb (length demands) (length sizes)
  && valid_sizes sizes width
  && Z.leb 0 width
  && forallb (Qleb 0) y
  && match knapsack_pricing 0 sizes width y with
     | Some (_, v) => Qleb v 1
     | None => false
     end
  && Z.leb r (Qceiling (dotq y demands)).

(* custom mode: the column set is explicit, dual feasibility is checked column by column *)
Definition dual_cert_custom (cols : list pattern) (demands : list Z) (y : list Q) (r : Z) : bool :=
  Z.leb r 0 ||
  Nat.eqb (length y) (length demands)
  && forallb (Qleb 0) y
  && forallb (fun c => Qleb (dotq y c) 1) cols
  && Z.leb r (Qceiling (dotq y demands)).

(* valid input of the cutting-stock mode (the property's quantifier) *)
Definition valid_input (sizes : list Z) (width : Z) (demands : list Z) : bool :=
  Nat.eqb (length sizes) (length demands) && valid_sizes sizes width && forallb (Z.leb 0) demands.

(* what is still taken from the run when eps = 0 (see OptimalProofs.optimal_partial_eps0): the final master LP's dual
   vector is non-negative and its value y.d is not below the LP objective *)
Definition simplex_residue (demands : list Z) (r : cg_result) : bool :=
  forallb (Qleb 0) (r_duals r)
  && match r_lp r with Some lp => Qleb lp (dotq (r_duals r) demands) | None => false end.
