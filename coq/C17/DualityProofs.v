(* C17_weak_duality: a dual vector y >= 0 with y.a <= 1 for every admissible pattern bounds the number of rolls of
   every (even fractional) covering plan from below by y.d; hence ceil(y.d) <= true minimum. *)
From Coq Require Import List ZArith QArith Qabs Qround Bool Arith Lia Lqa.
From SV Require Import C17.Cg C17.CgSpec C17.GateProofs.
Import ListNotations.
Open Scope Q_scope.

(* sum_p c_p * (y . a_p) *)
Definition wsum (y : list Q) (P : fplan) : Q := fold_right (fun pc acc => snd pc * dotq y (fst pc) + acc) 0 P.
Definition tlplan (P : fplan) : fplan := map (fun pc => (tl (fst pc), snd pc)) P.

Lemma dotq_nil_r : forall y, dotq y [] = 0.
Proof. destruct y; reflexivity. Qed.

Lemma wsum_nil : forall P, wsum [] P == 0.
Proof. induction P as [|pc P IH]; simpl; [reflexivity|]. rewrite IH. ring. Qed.

Lemma wsum_cons : forall v y P, wsum (v :: y) P == v * fproduced P 0 + wsum y (tlplan P).
Proof.
  intros v y. induction P as [|[a c] P IH]; simpl.
  - ring.
  - rewrite IH. destruct a as [|x a]; simpl.
    + rewrite dotq_nil_r. unfold getz, z2q. simpl. ring.
    + unfold getz. simpl. ring.
Qed.

Lemma fproduced_tl : forall P i, fproduced (tlplan P) i = fproduced P (S i).
Proof.
  induction P as [|[a c] P IH]; intros i; simpl; [reflexivity|].
  rewrite IH. f_equal. destruct a as [|x a]; unfold getz; simpl; [destruct i; reflexivity | reflexivity].
Qed.

Lemma dot_le_wsum : forall y d P,
  Forall (fun v => 0 <= v) y -> length d = length y ->
  (forall i, (i < length d)%nat -> z2q (getz d i) <= fproduced P i) ->
  dotq y d <= wsum y P.
Proof.
  induction y as [|v y IH]; intros d P Hy Hl Hc.
  - simpl. rewrite wsum_nil. apply Qle_refl.
  - destruct d as [|x d]; [discriminate|]. simpl in Hl. injection Hl as Hl.
    apply Forall_cons_iff in Hy. destruct Hy as [Hv Hy].
    simpl dotq. rewrite wsum_cons.
    apply Qplus_le_compat.
    + rewrite (Qmult_comm v (z2q x)), (Qmult_comm v (fproduced P 0)).
      apply Qmult_le_compat_r; [|exact Hv]. apply (Hc O). simpl. lia.
    + apply IH; [exact Hy | exact Hl |]. intros i Hi. rewrite fproduced_tl.
      apply (Hc (S i)). simpl. lia.
Qed.

Lemma wsum_le_frolls : forall y P,
  Forall (fun pc => dotq y (fst pc) <= 1 /\ 0 <= snd pc) P -> wsum y P <= frolls P.
Proof.
  intros y. induction P as [|[a c] P IH]; intros H; simpl.
  - apply Qle_refl.
  - apply Forall_cons_iff in H. destruct H as [[H1 H2] H]. simpl in H1, H2.
    apply Qplus_le_compat; [|apply IH; exact H].
    setoid_replace c with (c * 1) at 2 by ring.
    rewrite (Qmult_comm c (dotq y a)), (Qmult_comm c 1).
    apply Qmult_le_compat_r; assumption.
Qed.

(* Weak duality for fractional plans. *)
Theorem weak_duality_frac : forall (feas : pattern -> Prop) y d P,
  dual_feasible feas y -> length d = length y -> fcovering feas d P ->
  dotq y d <= frolls P.
Proof.
  intros feas y d P [Hy Hf] Hl [HP Hc].
  apply Qle_trans with (wsum y P).
  - apply dot_le_wsum; assumption.
  - apply wsum_le_frolls. apply Forall_forall. intros pc Hin. rewrite Forall_forall in HP.
    destruct (HP pc Hin) as [H1 H2]. split; [apply Hf; exact H1 | exact H2].
Qed.

(* ---- integer plans are fractional plans *)
Definition to_fplan (P : plan) : fplan := map (fun pc => (fst pc, z2q (snd pc))) P.

Lemma frolls_to_fplan : forall P, frolls (to_fplan P) == z2q (rolls P).
Proof.
  induction P as [|[a c] P IH]; simpl; [reflexivity|].
  rewrite IH. unfold z2q. rewrite inject_Z_plus. reflexivity.
Qed.

Lemma fproduced_to_fplan : forall P i, fproduced (to_fplan P) i == z2q (produced P i).
Proof.
  intros P i. induction P as [|[a c] P IH]; simpl; [reflexivity|].
  rewrite IH. unfold z2q. rewrite inject_Z_plus, inject_Z_mult. reflexivity.
Qed.

Lemma covering_to_fplan : forall feas d P, covering feas d P -> fcovering feas d (to_fplan P).
Proof.
  intros feas d P [HP Hc]. split.
  - unfold to_fplan. apply Forall_forall. intros pc Hin. apply in_map_iff in Hin. destruct Hin as [[a c] [He Hin]].
    subst pc. simpl. rewrite Forall_forall in HP. destruct (HP _ Hin) as [H1 H2]. simpl in H1, H2.
    split; [exact H1|]. unfold z2q. change 0 with (inject_Z 0). rewrite <- Zle_Qle. exact H2.
  - intros i Hi. rewrite fproduced_to_fplan. unfold z2q. rewrite <- Zle_Qle. apply Hc. exact Hi.
Qed.

(* Weak duality for integer plans, and the rounded bound. *)
Theorem weak_duality : forall (feas : pattern -> Prop) y d P,
  dual_feasible feas y -> length d = length y -> covering feas d P ->
  dotq y d <= z2q (rolls P).
Proof.
  intros feas y d P Hy Hl Hc. rewrite <- frolls_to_fplan.
  apply (weak_duality_frac feas); [exact Hy | exact Hl | apply covering_to_fplan; exact Hc].
Qed.

Theorem dual_bound_ceil : forall (feas : pattern -> Prop) y d P,
  dual_feasible feas y -> length d = length y -> covering feas d P ->
  (Qceiling (dotq y d) <= rolls P)%Z.
Proof.
  intros feas y d P Hy Hl Hc. pose proof (weak_duality feas y d P Hy Hl Hc) as H.
  apply Qceiling_resp_le in H. unfold z2q in H. rewrite Qceiling_Z in H. exact H.
Qed.

(* consequence for the true minimum *)
Corollary dual_bound_min : forall (feas : pattern -> Prop) y d r,
  dual_feasible feas y -> length d = length y -> is_min feas d r ->
  (Qceiling (dotq y d) <= r)%Z.
Proof.
  intros feas y d r Hy Hl [[P [Hc Hr]] _]. subst r. apply (dual_bound_ceil feas); assumption.
Qed.
