(* C17 deep - the ROOT answers of the solve_bp model given when the root LP is integral (eps = 0): the plan built from x has
   exactly lp rolls; with DeepBp this gives `bp_root_optimal_sound`. *)
From Coq Require Import List ZArith QArith Qabs Qround Bool Arith Lia Lqa Setoid.
From SV Require Import C17.Cg C17.CgSpec C17.Bp C17.GateProofs C17.PoolProofs C17.DeepSum C17.DeepMaster C17.DeepPrimalX C17.DeepBp.
Import ListNotations.
Open Scope Q_scope.

(* ---------------------------------------------------------------- floor / round *)
Lemma Qfloor_unique : forall y z, inject_Z z <= y -> y < inject_Z (z + 1) -> Qfloor y = z.
Proof.
  intros y z H1 H2. pose proof (Qfloor_le y) as F1. pose proof (Qlt_floor y) as F2.
  assert (A1 : inject_Z (Qfloor y) < inject_Z (z + 1)) by (eapply Qle_lt_trans; eassumption).
  assert (A2 : inject_Z z < inject_Z (Qfloor y + 1)) by (eapply Qle_lt_trans; eassumption).
  rewrite <- Zlt_Qlt in A1, A2. lia.
Qed.

Lemma frac_zero_integral : forall v, frac_part v <= 0 -> v == inject_Z (Qfloor v).
Proof.
  intros v H. unfold frac_part in H. cbv zeta in H.
  pose proof (Qfloor_le v) as F1. pose proof (Qlt_floor v) as F2.
  rewrite inject_Z_plus in F2. change (inject_Z 1) with 1 in F2.
  unfold qmin in H. destruct (Qleb (v - inject_Z (Qfloor v)) (1 - (v - inject_Z (Qfloor v)))); lra.
Qed.

Lemma round_integral : forall v, v == inject_Z (Qfloor v) -> round_nearest v = Qfloor v.
Proof.
  intros v H. unfold round_nearest. apply Qfloor_unique.
  - rewrite <- H. lra.
  - rewrite inject_Z_plus. change (inject_Z 1) with 1. rewrite <- H. lra.
Qed.

(* ---------------------------------------------------------------- _most_fractional *)
Lemma mf_some : forall xs i best k, fst best = Some k -> most_fractional 0 i xs best <> None.
Proof.
  induction xs as [|x xs IH]; intros i best k H; cbn [most_fractional].
  - rewrite H. discriminate.
  - destruct (Qltb 0 x); [|apply (IH _ _ k H)].
    destruct (Qltb 0 (frac_part x) && Qltb (snd best) (frac_part x))%bool; [apply (IH _ _ i); reflexivity | apply (IH _ _ k H)].
Qed.

Lemma mf_none : forall xs i b, most_fractional 0 i xs (None, b) = None ->
  forall v, In v xs -> 0 < v -> ~ (0 < frac_part v /\ b < frac_part v).
Proof.
  induction xs as [|x xs IH]; intros i b H v Hin Hv [H1 H2]; [destruct Hin|]. cbn [most_fractional] in H.
  destruct (Qltb 0 x) eqn:Ex.
  - cbn [snd] in H.
    destruct (Qltb 0 (frac_part x) && Qltb b (frac_part x))%bool eqn:Ef.
    + apply (mf_some xs (S i) (Some i, frac_part x) i eq_refl H).
    + destruct Hin as [->|Hin]; [|apply (IH _ _ H v Hin Hv); split; assumption].
      apply andb_false_iff in Ef. destruct Ef as [Ef|Ef]; apply Qltb_false in Ef; lra.
  - destruct Hin as [->|Hin]; [apply Qltb_false in Ex; lra | apply (IH _ _ H v Hin Hv); split; assumption].
Qed.

(* ---------------------------------------------------------------- _build_solution *)
Definition bstep (sol : plan) (px : pattern * Q) : plan :=
  if Qltb 0 (snd px) then
    let count := round_nearest (snd px) in
    if Z.ltb 0 count then dict_set (fst px) count sol else sol
  else sol.

Fixpoint qsuml (l : list Q) : Q := match l with [] => 0 | v :: l' => v + qsuml l' end.

Lemma plan_total_rolls : forall sol, plan_total sol = rolls sol.
Proof. reflexivity. Qed.

Lemma build_total : forall (cols : list pattern) xs sol,
  NoDup cols -> (forall k, In k (map fst sol) -> ~ In k cols) ->
  Forall (fun v => 0 <= v /\ (0 < v -> v == inject_Z (round_nearest v))) xs ->
  inject_Z (plan_total (fold_left bstep (combine cols xs) sol)) == inject_Z (plan_total sol) + qsuml (firstn (length cols) xs).
Proof.
  induction cols as [|p cols IH]; intros xs sol Hnd Hk Hx.
  - cbn [combine fold_left length firstn qsuml]. ring.
  - destruct xs as [|v xs]; [cbn [combine fold_left length firstn qsuml]; ring|].
    apply NoDup_cons_iff in Hnd. destruct Hnd as [Hnp Hnd]. apply Forall_cons_iff in Hx. destruct Hx as [[Hv0 Hvi] Hx].
    cbn [combine fold_left length firstn qsuml]. unfold bstep at 2. cbn [fst snd].
    destruct (Qltb 0 v) eqn:Ev.
    + apply Qltb_lt in Ev. specialize (Hvi Ev).
      assert (Hc : (0 < round_nearest v)%Z).
      { rewrite Hvi in Ev. change 0 with (inject_Z 0) in Ev. rewrite <- Zlt_Qlt in Ev. exact Ev. }
      cbv zeta. apply Z.ltb_lt in Hc. rewrite Hc.
      assert (Hfresh : ~ In p (map fst sol)) by (intros Hin; apply (Hk p Hin); left; reflexivity).
      rewrite (dict_set_fresh p _ sol Hfresh). rewrite IH; [|exact Hnd| |exact Hx].
      * rewrite !plan_total_rolls, rolls_app. cbn [rolls fold_right snd]. rewrite inject_Z_plus, Z.add_0_r.
        rewrite Hvi at 2. change (plan_total sol) with (rolls sol). ring.
      * intros k Hin Hin'. rewrite map_app in Hin. apply in_app_or in Hin. destruct Hin as [Hin|[Hin|[]]].
        -- apply (Hk k Hin). right. exact Hin'.
        -- cbn [fst] in Hin. subst k. contradiction.
    + apply Qltb_false in Ev. rewrite IH; [|exact Hnd| |exact Hx].
      * assert (E0 : v == 0) by lra. rewrite E0. ring.
      * intros k Hin Hin'. apply (Hk k Hin). right. exact Hin'.
Qed.

Lemma sumN_shift : forall f k s, sumN f (S s) k == sumN (fun i => f (S i)) s k.
Proof. intros f k. induction k as [|k IH]; intros s; cbn [sumN]; [reflexivity|]. rewrite IH. reflexivity. Qed.

Lemma qsuml_sumN : forall l, qsuml l == sumN (getq l) 0 (length l).
Proof.
  induction l as [|v l IH]; cbn [qsuml length sumN]; [reflexivity|].
  rewrite sumN_shift. rewrite IH. unfold getq at 2. cbn [nth]. apply Qplus_comp; [reflexivity|].
  apply sumN_ext. intros i _. reflexivity.
Qed.

(* ---------------------------------------------------------------- the bound *)
Theorem integral_bound : integral_bound_statement.
Proof.
  intros cols demands x y lp H Hnd Hd Hmf.
  destruct (master_lp_primal_ok true cols demands x y lp H Hd) as [Hl [Hnn Hsum]].
  assert (Hx : Forall (fun v => 0 <= v /\ (0 < v -> v == inject_Z (round_nearest v))) x).
  { apply Forall_forall. intros v Hin. split.
    - destruct (In_nth x v 0 Hin) as [p [_ Ep]]. rewrite <- Ep. apply (Hnn p).
    - intros Hv. pose proof (mf_none x 0 0 Hmf v Hin Hv) as Hf.
      assert (Hfr : frac_part v <= 0).
      { destruct (Qlt_le_dec 0 (frac_part v)) as [Hpos|Hle]; [exfalso; apply Hf; split; exact Hpos | exact Hle]. }
      pose proof (frac_zero_integral v Hfr) as Hi. rewrite (round_integral v Hi). exact Hi. }
  assert (Et : inject_Z (plan_total (build_solution 0 cols x)) == lp).
  { unfold build_solution. change (fold_left _ (combine cols x) []) with (fold_left bstep (combine cols x) []).
    rewrite (build_total cols x [] Hnd); [|intros k []|exact Hx].
    rewrite <- Hl, firstn_all. cbn [plan_total fold_right]. rewrite qsuml_sumN. rewrite Hl. rewrite Hsum.
    change (inject_Z 0) with 0. ring. }
  unfold Qceil. rewrite <- Et. rewrite Qceiling_Z. apply Z.le_refl.
Qed.

(* (3) OPTIMAL answers of the solve_bp model given before the tree search are minimal (eps = 0), provided the relative
   gap tolerance cannot hide a whole roll: gap * max(|obj|, 1e-10) <= 1. *)
Theorem bp_root_optimal_sound : forall gap sizes width demands max_iter sol obj it,
  b_out (solve_bp_root 0 gap sizes width demands max_iter) = BpDone OPTIMAL (Some sol) (Some obj) it ->
  gap_ok gap obj = true ->
  is_min (fits sizes width) demands obj.
Proof.
  intros gap sizes width demands max_iter sol obj it. apply bp_root_optimal_partial. exact integral_bound.
Qed.
