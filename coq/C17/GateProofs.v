(* C17 - soundness of the boolean gate `plan_ok` and basic list lemmas shared by the other proof files. *)
From Coq Require Import List ZArith QArith Qabs Qround Bool Arith Lia.
From SV Require Import C17.Cg C17.CgSpec.
Import ListNotations.

(* ---------------------------------------------------------------- pattern equality *)
Lemma pat_eqb_eq : forall a b, pat_eqb a b = true <-> a = b.
Proof.
  induction a as [|x a IH]; intros [|y b]; simpl; split; intros H; try reflexivity; try discriminate.
  - apply andb_true_iff in H. destruct H as [H1 H2]. apply Z.eqb_eq in H1. apply IH in H2. subst. reflexivity.
  - inversion H; subst. apply andb_true_iff. split; [apply Z.eqb_refl | apply IH; reflexivity].
Qed.

Lemma pat_mem_In : forall p l, pat_mem p l = true <-> In p l.
Proof.
  intros p l. unfold pat_mem. rewrite existsb_exists. split.
  - intros [x [Hx He]]. apply pat_eqb_eq in He. subst. exact Hx.
  - intros H. exists p. split; [exact H | apply pat_eqb_eq; reflexivity].
Qed.

Lemma pat_mem_false : forall p l, pat_mem p l = false -> ~ In p l.
Proof.
  intros p l H Hin. apply pat_mem_In in Hin. rewrite Hin in H. discriminate.
Qed.

(* ---------------------------------------------------------------- fits *)
Lemma fitsb_fits : forall sizes width a, fitsb sizes width a = true <-> fits sizes width a.
Proof.
  intros sizes width a. unfold fitsb, fits. rewrite !andb_true_iff, Nat.eqb_eq, Z.leb_le, forallb_forall, Forall_forall.
  split.
  - intros [[H1 H2] H3]. repeat split; try assumption. intros x Hx. apply Z.leb_le. apply H2. exact Hx.
  - intros [H1 [H2 H3]]. repeat split; try assumption. intros x Hx. apply Z.leb_le. apply H2. exact Hx.
Qed.

(* ---------------------------------------------------------------- covers *)
Lemma covers_spec : forall P demands,
  covers P demands = true <-> (forall i, (i < length demands)%nat -> (getz demands i <= produced P i)%Z).
Proof.
  intros P demands. unfold covers. rewrite forallb_forall. split.
  - intros H i Hi. apply Z.leb_le. apply H. apply in_seq. lia.
  - intros H i Hi. apply in_seq in Hi. apply Z.leb_le. apply H. lia.
Qed.

(* ---------------------------------------------------------------- the gate is sound (cutting stock and custom) *)
Lemma plan_ok_sound : forall sizes width demands P obj,
  plan_ok sizes width demands P obj = true ->
  covering (fits sizes width) demands P /\ obj = rolls P.
Proof.
  intros sizes width demands P obj H. unfold plan_ok in H.
  apply andb_true_iff in H. destruct H as [H Ho]. apply andb_true_iff in H. destruct H as [Hp Hc].
  split; [split|].
  - apply Forall_forall. intros pc Hin. rewrite forallb_forall in Hp. specialize (Hp pc Hin).
    apply andb_true_iff in Hp. destruct Hp as [Hf Hn]. split; [apply fitsb_fits; exact Hf | apply Z.leb_le; exact Hn].
  - apply covers_spec. exact Hc.
  - apply Z.eqb_eq. exact Ho.
Qed.

Lemma plan_ok_complete : forall sizes width demands P,
  covering (fits sizes width) demands P -> plan_ok sizes width demands P (rolls P) = true.
Proof.
  intros sizes width demands P [Hf Hc]. unfold plan_ok. rewrite !andb_true_iff. repeat split.
  - apply forallb_forall. intros pc Hin. rewrite Forall_forall in Hf. destruct (Hf pc Hin) as [H1 H2].
    apply andb_true_iff. split; [apply fitsb_fits; exact H1 | apply Z.leb_le; exact H2].
  - apply covers_spec. exact Hc.
  - apply Z.eqb_refl.
Qed.

Lemma plan_ok_custom_sound : forall cols demands P obj,
  plan_ok_custom cols demands P obj = true ->
  covering (fun a => In a cols) demands P /\ obj = rolls P.
Proof.
  intros cols demands P obj H. unfold plan_ok_custom in H.
  apply andb_true_iff in H. destruct H as [H Ho]. apply andb_true_iff in H. destruct H as [Hp Hc].
  split; [split|].
  - apply Forall_forall. intros pc Hin. rewrite forallb_forall in Hp. specialize (Hp pc Hin).
    apply andb_true_iff in Hp. destruct Hp as [Hf Hn]. split; [apply pat_mem_In; exact Hf | apply Z.leb_le; exact Hn].
  - apply covers_spec. exact Hc.
  - apply Z.eqb_eq. exact Ho.
Qed.

(* ---------------------------------------------------------------- rolls / produced over append, dict_set on a fresh key *)
Lemma rolls_app : forall P Q, rolls (P ++ Q) = (rolls P + rolls Q)%Z.
Proof. induction P as [|pc P IH]; intros Q; simpl; [reflexivity | rewrite IH; lia]. Qed.

Lemma dict_set_fresh : forall k v d, ~ In k (map fst d) -> dict_set k v d = d ++ [(k, v)].
Proof.
  induction d as [|[k' v'] d IH]; intros Hn; simpl; [reflexivity|].
  destruct (pat_eqb k k') eqn:E.
  - apply pat_eqb_eq in E. subst. exfalso. apply Hn. simpl. left. reflexivity.
  - rewrite IH; [reflexivity|]. intros Hin. apply Hn. simpl. right. exact Hin.
Qed.

Lemma rolls_nonneg : forall (feas : pattern -> Prop) demands P, covering feas demands P -> (0 <= rolls P)%Z.
Proof.
  intros feas demands P [Hf _]. induction Hf as [|pc P [_ Hc] _ IH]; simpl; lia.
Qed.
