(* C17_gate for the solve_cg model: every plan returned with status OPTIMAL / FEASIBLE passes the boolean gate. *)
From Coq Require Import List ZArith QArith Qabs Qround Bool Arith Lia.
From SV Require Import C17.Cg C17.CgSpec C17.GateProofs C17.PoolProofs.
Import ListNotations.

Lemma cs_loop_pool_ok : forall eps sizes width demands fuel it pool pool' it' conv,
  (0 <= eps)%Q -> (eps < 1)%Q -> (0 <= width)%Z ->
  pool_ok sizes width pool ->
  cs_loop eps sizes width demands fuel it pool = Some (pool', it', conv) ->
  pool_ok sizes width pool'.
Proof.
  intros eps sizes width demands fuel. induction fuel as [|fuel IH]; intros it pool pool' it' conv He0 He1 Hw Hp H; simpl in H.
  - inversion H; subst. exact Hp.
  - destruct (master_lp false eps pool demands) as [[[x duals] lp]|]; [|discriminate].
    destruct (knapsack_pricing eps sizes width duals) as [[np pv]|] eqn:Ek; [|discriminate].
    destruct (Qleb pv (1 + eps)).
    + inversion H; subst. exact Hp.
    + apply (IH _ _ _ _ _ He0 He1 Hw) in H; [exact H|].
      apply pool_ok_add; [exact Hp|]. apply (knapsack_pricing_fits eps sizes width duals np pv); assumption.
Qed.

(* ---- the round-up loop over a duplicate-free pool *)
Lemma round_step_cases : forall eps sol total p x,
  round_step eps (sol, total) (p, x) = (sol, total) \/
  exists c, (0 < c)%Z /\ round_step eps (sol, total) (p, x) = (dict_set p c sol, (total + c)%Z).
Proof.
  intros eps sol total p x. unfold round_step. simpl.
  destruct (Qltb eps x); [|left; reflexivity].
  destruct (Z.ltb 0 (Qceil (x - eps))) eqn:Ec; [|left; reflexivity].
  right. exists (Qceil (x - eps)). split; [apply Z.ltb_lt; exact Ec | reflexivity].
Qed.

Lemma round_up_inv : forall eps (F : pattern -> Prop) pats xs sol total,
  NoDup pats -> Forall F pats ->
  (forall k, In k (map fst sol) -> ~ In k pats) ->
  total = rolls sol -> Forall (fun pc => F (fst pc) /\ (0 <= snd pc)%Z) sol ->
  snd (fold_left (round_step eps) (combine pats xs) (sol, total)) = rolls (fst (fold_left (round_step eps) (combine pats xs) (sol, total))) /\
  Forall (fun pc => F (fst pc) /\ (0 <= snd pc)%Z) (fst (fold_left (round_step eps) (combine pats xs) (sol, total))).
Proof.
  intros eps F pats. induction pats as [|p pats IH]; intros xs sol total Hnd HF Hk Ht Hs.
  - simpl. split; assumption.
  - destruct xs as [|x xs]; [simpl; split; assumption|].
    apply NoDup_cons_iff in Hnd. destruct Hnd as [Hnp Hnd']. apply Forall_cons_iff in HF. destruct HF as [HFp HF'].
    cbn [combine fold_left].
    destruct (round_step_cases eps sol total p x) as [E|[c [Hc E]]]; unfold plan in E; rewrite E.
    + apply IH; try assumption. intros k Hin Hin'. apply (Hk k Hin). right. exact Hin'.
    + assert (Hfresh : ~ In p (map fst sol)) by (intros Hin; apply (Hk p Hin); left; reflexivity).
      rewrite (dict_set_fresh p _ sol Hfresh).
      apply IH; try assumption.
      * intros k Hin Hin'. rewrite map_app in Hin. apply in_app_or in Hin. destruct Hin as [Hin|[Hin|[]]].
        -- apply (Hk k Hin). right. exact Hin'.
        -- simpl in Hin. subst. contradiction.
      * rewrite rolls_app. simpl. lia.
      * apply Forall_app. split; [assumption|]. constructor; [|constructor]. simpl. split; [exact HFp | lia].
Qed.

Lemma round_up_ok : forall eps sizes width pats xs,
  pool_ok sizes width pats ->
  snd (round_up eps pats xs) = rolls (fst (round_up eps pats xs)) /\
  Forall (fun pc => fits sizes width (fst pc) /\ (0 <= snd pc)%Z) (fst (round_up eps pats xs)).
Proof.
  intros eps sizes width pats xs [Hf Hn]. unfold round_up.
  apply (round_up_inv eps (fits sizes width)); try assumption.
  - intros k [].
  - reflexivity.
  - constructor.
Qed.

Lemma covers_nil_zero : forall demands, forallb (Z.eqb 0) demands = true -> covers [] demands = true.
Proof.
  intros demands H. apply covers_spec. intros i Hi. simpl.
  rewrite forallb_forall in H. assert (Hin : In (getz demands i) demands) by (unfold getz; apply nth_In; exact Hi).
  specialize (H _ Hin). apply Z.eqb_eq in H. lia.
Qed.

Definition usable_status (s : status) : bool := match s with INFEASIBLE => false | _ => true end.

Lemma plan_ok_intro : forall sizes width demands P obj,
  Forall (fun pc => fits sizes width (fst pc) /\ (0 <= snd pc)%Z) P -> covers P demands = true -> obj = rolls P ->
  plan_ok sizes width demands P obj = true.
Proof.
  intros sizes width demands P obj Hf Hc Ho. unfold plan_ok. rewrite !andb_true_iff. repeat split.
  - apply forallb_forall. intros pc Hin. rewrite Forall_forall in Hf. destruct (Hf pc Hin) as [H1 H2].
    apply andb_true_iff. split; [apply fitsb_fits; exact H1 | apply Z.leb_le; exact H2].
  - exact Hc.
  - subst. apply Z.eqb_refl.
Qed.

Lemma trivial_gate : forall sizes width demands r,
  forallb (Z.eqb 0) demands = true -> trivial_result = Done r ->
  plan_ok sizes width demands (r_plan r) (r_obj r) = true.
Proof.
  intros sizes width demands r Hz H. inversion H; subst. simpl.
  apply plan_ok_intro; [constructor | apply covers_nil_zero; exact Hz | reflexivity].
Qed.

(* The gate, for the cutting-stock model of solve_cg. *)
Theorem solve_cg_gate : forall eps sizes width demands max_iter r,
  (0 <= eps)%Q -> (eps < 1)%Q ->
  solve_cg eps sizes width demands max_iter = Done r ->
  usable_status (r_status r) = true ->
  plan_ok sizes width demands (r_plan r) (r_obj r) = true.
Proof.
  intros eps sizes width demands max_iter r He0 He1 H Hu. unfold solve_cg in H.
  destruct demands as [|d0 demands'] eqn:Ed.
  - apply (trivial_gate sizes width [] r); [reflexivity | exact H].
  - rewrite <- Ed in *.
    destruct (forallb (Z.leb 0) demands); simpl in H; [|discriminate].
    destruct (forallb (Z.eqb 0) demands) eqn:Ez; [apply trivial_gate; assumption|].
    unfold solve_cutting_stock in H.
    destruct (Nat.eqb (length sizes) (length demands)) eqn:El; simpl in H; [|discriminate].
    destruct (valid_sizes sizes width) eqn:Ev; simpl in H; [|discriminate].
    apply Nat.eqb_eq in El.
    assert (Hw : (0 <= width)%Z).
    { assert (Hj : (0 < length sizes)%nat) by (rewrite El, Ed; simpl; lia).
      pose proof (valid_sizes_nth _ _ _ Ev Hj). lia. }
    destruct (cs_loop eps sizes width demands max_iter 0 (initial_patterns sizes width demands)) as [[[pats it] conv]|] eqn:Eloop;
      [|discriminate].
    assert (Hpool : pool_ok sizes width pats).
    { apply (cs_loop_pool_ok _ _ _ _ _ _ _ _ _ _ He0 He1 Hw (initial_patterns_ok _ _ demands Ev) Eloop). }
    destruct (master_lp false eps pats demands) as [[[x duals] lp]|]; [|discriminate].
    pose proof (round_up_ok eps sizes width pats x Hpool) as [Hr Hf].
    destruct (round_up eps pats x) as [sol total]. simpl in Hr, Hf.
    destruct (covers sol demands) eqn:Ec; simpl in H.
    + unfold finish in H. destruct lp as [o|]; [|discriminate].
      inversion H; subst r. simpl. apply plan_ok_intro; assumption.
    + inversion H; subst r. simpl in Hu. discriminate.
Qed.
