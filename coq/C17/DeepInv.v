(* C17 deep - the tableau invariants of the master simplex (eps = 0) and their preservation by `pivot`.

   Tableau layout of `_solve_master_lp`: n pattern columns, m surplus columns, m artificial columns, right-hand side.
   Original row i:  [ a_{0,i} .. a_{n-1,i} | -e_i | e_i | d_i ].

   R1 (`Lin`)     every current row is a linear combination of the original rows, the multipliers being the row's entries
                  in the artificial columns (`mu r i = r[n+m+i]`);
   R2 (`canon`)   column basis[k] of the rows is the unit vector e_k;
   O1 (`ObjInv`)  phase-2 objective row = c0 - sum_i y_i * (original row i) with y_i = obj[n+i] = -obj[n+m+i];
   O2 (`objInv2`) phase-2 objective row = c0 - sum_k c0[basis[k]] * (current row k), column by column.
   c0 = (1,..,1 | 0 | 0 | 0) is the cost row. *)
From Coq Require Import List ZArith QArith Qabs Qround Bool Arith Lia Lqa Setoid.
From SV Require Import C17.Cg C17.CgSpec C17.GateProofs C17.PoolProofs C17.DeepSum.
Import ListNotations.
Open Scope Q_scope.

Definition ent (rows : list row) (k j : nat) : Q := getq (nth k rows []) j.

Lemma getq_overflow : forall r j, (length r <= j)%nat -> getq r j = 0.
Proof. intros. unfold getq. apply nth_overflow. assumption. Qed.

Lemma getq_elim_row_all : forall e p r j, length p = length r ->
  getq (elim_row 0 e p r) j == getq r j - getq r e * getq p j.
Proof.
  intros e p r j Hl. destruct (Nat.lt_ge_cases j (length r)) as [Hj|Hj].
  - apply getq_elim_row. exact Hj.
  - rewrite (getq_overflow (elim_row 0 e p r) j) by (rewrite elim_row_length; lia).
    rewrite (getq_overflow r j), (getq_overflow p j) by lia. ring.
Qed.

Section Inv.
Variables (n m : nat) (A : nat -> nat -> Q) (D : nat -> Q).

Definition NN : nat := (n + m + m)%nat.
Definition mu (r : row) (i : nat) : Q := getq r (n + m + i).
Definition c0 (j : nat) : Q := if Nat.ltb j n then 1 else 0.

Definition Lin (r : row) : Prop :=
  length r = S NN /\
  (forall j, (j < n)%nat -> getq r j == sumN (fun i => mu r i * A j i) 0 m) /\
  (forall i, (i < m)%nat -> getq r (n + i) == - mu r i) /\
  getq r NN == sumN (fun i => mu r i * D i) 0 m.

Definition ObjInv (o : row) : Prop :=
  length o = S NN /\
  (forall j, (j < n)%nat -> getq o j == 1 + sumN (fun i => mu o i * A j i) 0 m) /\
  (forall i, (i < m)%nat -> getq o (n + i) == - mu o i) /\
  getq o NN == sumN (fun i => mu o i * D i) 0 m.

(* r' = a - f * p entry by entry *)
Definition comb (r' a : row) (f : Q) (p : row) : Prop :=
  length r' = length a /\ forall j, getq r' j == getq a j - f * getq p j.

Lemma comb_sum : forall r' a f p (W : nat -> Q), comb r' a f p ->
  sumN (fun i => mu r' i * W i) 0 m == sumN (fun i => mu a i * W i) 0 m - f * sumN (fun i => mu p i * W i) 0 m.
Proof.
  intros r' a f p W [_ H]. rewrite <- sumN_lin. apply sumN_ext. intros i _. unfold mu. rewrite H. ring.
Qed.

Lemma Lin_comb : forall r' a f p, comb r' a f p -> Lin a -> Lin p -> Lin r'.
Proof.
  intros r' a f p Hc [La [Ha1 [Ha2 Ha3]]] [Lp [Hp1 [Hp2 Hp3]]]. pose proof Hc as [Hl H].
  split; [lia|]. split; [|split].
  - intros j Hj. rewrite (comb_sum _ _ _ _ _ Hc). rewrite H, Ha1, Hp1 by exact Hj. reflexivity.
  - intros i Hi. unfold mu. rewrite !H. rewrite Ha2, Hp2 by exact Hi. unfold mu. ring.
  - rewrite (comb_sum _ _ _ _ _ Hc). rewrite H, Ha3, Hp3. reflexivity.
Qed.

Lemma ObjInv_comb : forall r' a f p, comb r' a f p -> ObjInv a -> Lin p -> ObjInv r'.
Proof.
  intros r' a f p Hc [La [Ha1 [Ha2 Ha3]]] [Lp [Hp1 [Hp2 Hp3]]]. pose proof Hc as [Hl H].
  split; [lia|]. split; [|split].
  - intros j Hj. rewrite (comb_sum _ _ _ _ _ Hc). rewrite H, Ha1, Hp1 by exact Hj. ring.
  - intros i Hi. unfold mu. rewrite !H. rewrite Ha2, Hp2 by exact Hi. unfold mu. ring.
  - rewrite (comb_sum _ _ _ _ _ Hc). rewrite H, Ha3, Hp3. reflexivity.
Qed.

Lemma Lin_scale : forall piv r, ~ piv == 0 -> Lin r -> Lin (rscale_div piv r).
Proof.
  intros piv r Hp [L [H1 [H2 H3]]].
  assert (Hs : forall W, sumN (fun i => mu (rscale_div piv r) i * W i) 0 m == sumN (fun i => mu r i * W i) 0 m / piv).
  { intros W. unfold Qdiv. rewrite Qmult_comm. rewrite <- sumN_scal. apply sumN_ext. intros i _.
    unfold mu. rewrite getq_rscale_div. unfold Qdiv. ring. }
  split; [rewrite rscale_div_length; exact L|]. split; [|split].
  - intros j Hj. rewrite Hs, getq_rscale_div, H1 by exact Hj. reflexivity.
  - intros i Hi. unfold mu. rewrite !getq_rscale_div. rewrite H2 by exact Hi. unfold mu. field. exact Hp.
  - rewrite Hs, getq_rscale_div, H3. reflexivity.
Qed.

Lemma comb_vsubmul : forall f a p, length p = length a -> comb (vsubmul f a p) a f p.
Proof.
  intros f a p Hl. split; [apply vsubmul_length|]. intros j.
  destruct (Nat.lt_ge_cases j (length a)) as [Hj|Hj].
  - apply getq_vsubmul. exact Hj.
  - rewrite (getq_overflow (vsubmul f a p) j) by (rewrite vsubmul_length; lia).
    rewrite (getq_overflow a j), (getq_overflow p j) by lia. ring.
Qed.

Lemma comb_elim_row : forall e p r, length p = length r -> comb (elim_row 0 e p r) r (getq r e) p.
Proof. intros e p r Hl. split; [apply elim_row_length|]. intros j. apply getq_elim_row_all. exact Hl. Qed.

(* ---------------------------------------------------------------- tableau-level invariants *)
Definition canon (rows : list row) (basis : list nat) : Prop :=
  forall k k', (k < m)%nat -> (k' < m)%nat -> ent rows k' (nth k basis O) == if Nat.eqb k k' then 1 else 0.

Definition rowsInv (rows : list row) (basis : list nat) : Prop :=
  length rows = m /\ length basis = m /\ Forall Lin rows /\ canon rows basis.

Definition objInv2 (rows : list row) (basis : list nat) (o : row) : Prop :=
  forall j, getq o j == c0 j - sumN (fun k => c0 (nth k basis O) * ent rows k j) 0 m.

Lemma Forall_nth_Lin : forall rows k, Forall Lin rows -> (k < length rows)%nat -> Lin (nth k rows []).
Proof. intros rows k H Hk. rewrite Forall_forall in H. apply H. apply nth_In. exact Hk. Qed.

(* entries after a pivot on (l, e) with non-zero pivot element *)
Lemma pivot_entries : forall rows obj basis l e,
  length rows = m -> Forall Lin rows -> (l < m)%nat ->
  let T' := fst (pivot 0 (mkT rows obj) basis l e) in
  let piv := ent rows l e in
  (forall k j, (k < m)%nat ->
     ent (t_rows T') k j == if Nat.eqb k l then ent rows l j / piv
                            else ent rows k j - ent rows k e * (ent rows l j / piv)) /\
  (length obj = S NN -> forall j, getq (t_obj T') j == getq obj j - getq obj e * (ent rows l j / piv)).
Proof.
  intros rows obj basis l e Hlen HL Hl. unfold pivot. cbn beta iota zeta delta [fst t_rows t_obj].
  assert (Lprow : length (rscale_div (getq (nth l rows []) e) (nth l rows [])) = S NN).
  { rewrite rscale_div_length. apply (Forall_nth_Lin rows l HL). lia. }
  split.
  - intros k j Hk. unfold ent at 1.
    rewrite (nth_mapi _ rows k (@nil Q) (@nil Q)) by lia.
    destruct (Nat.eqb k l) eqn:E.
    + rewrite getq_rscale_div. reflexivity.
    + rewrite getq_elim_row_all.
      * rewrite getq_rscale_div. reflexivity.
      * rewrite Lprow. symmetry. apply (Forall_nth_Lin rows k HL). lia.
  - intros Ho j. rewrite getq_elim_row_all by (rewrite Lprow; symmetry; exact Ho).
    rewrite getq_rscale_div. reflexivity.
Qed.

Lemma pivot_basis : forall eps T basis l e, snd (pivot eps T basis l e) = set_nth l e basis.
Proof. reflexivity. Qed.

Lemma pivot_rows : forall rows obj basis l e,
  rowsInv rows basis -> (l < m)%nat -> ~ ent rows l e == 0 ->
  rowsInv (t_rows (fst (pivot 0 (mkT rows obj) basis l e))) (snd (pivot 0 (mkT rows obj) basis l e)).
Proof.
  intros rows obj basis l e [Hlen [Hbl [HL Hc]]] Hl Hp.
  destruct (pivot_entries rows obj basis l e Hlen HL Hl) as [Hent _]. cbn zeta in Hent.
  rewrite pivot_basis.
  split; [|split; [|split]].
  - unfold pivot. cbn [fst t_rows]. rewrite mapi_length. exact Hlen.
  - rewrite set_nth_length. exact Hbl.
  - unfold pivot. cbn [fst t_rows].
    assert (Lrl : Lin (nth l rows [])) by (apply Forall_nth_Lin; [exact HL | lia]).
    assert (Lprow : Lin (rscale_div (getq (nth l rows []) e) (nth l rows []))) by (apply Lin_scale; assumption).
    unfold mapi. apply (mapi_from_Forall Lin Lin); [|exact HL].
    intros i x Hx. destruct (Nat.eqb i l); [exact Lprow|].
    apply (Lin_comb _ x (getq x e) (rscale_div (getq (nth l rows []) e) (nth l rows []))); [|exact Hx|exact Lprow].
    apply comb_elim_row. destruct Lprow as [L1 _]. destruct Hx as [L2 _]. lia.
  - intros k k' Hk Hk'. rewrite (Hent k' _ Hk').
    destruct (Nat.eq_dec k l) as [Ekl|Ekl].
    + subst k. rewrite set_nth_same by lia. rewrite (Nat.eqb_sym l k').
      destruct (Nat.eqb k' l) eqn:E.
      * field. exact Hp.
      * field. exact Hp.
    + rewrite set_nth_other by exact Ekl.
      assert (Hz : ent rows l (nth k basis O) == 0).
      { rewrite (Hc k l Hk Hl). apply Nat.eqb_neq in Ekl. rewrite Ekl. reflexivity. }
      destruct (Nat.eqb k' l) eqn:E.
      * apply Nat.eqb_eq in E. subst k'. rewrite Hz. apply Nat.eqb_neq in Ekl. rewrite Ekl. field. exact Hp.
      * rewrite Hz. rewrite (Hc k k' Hk Hk'). field. exact Hp.
Qed.

Lemma pivot_obj : forall rows obj basis l e,
  rowsInv rows basis -> (l < m)%nat -> ~ ent rows l e == 0 ->
  ObjInv obj -> objInv2 rows basis obj ->
  ObjInv (t_obj (fst (pivot 0 (mkT rows obj) basis l e))) /\
  objInv2 (t_rows (fst (pivot 0 (mkT rows obj) basis l e))) (snd (pivot 0 (mkT rows obj) basis l e))
          (t_obj (fst (pivot 0 (mkT rows obj) basis l e))).
Proof.
  intros rows obj basis l e [Hlen [Hbl [HL Hc]]] Hl Hp HO1 HO2.
  destruct (pivot_entries rows obj basis l e Hlen HL Hl) as [Hent Hobj]. cbn zeta in Hent, Hobj.
  pose proof HO1 as [Lo _]. specialize (Hobj Lo).
  split.
  - unfold pivot. cbn [fst t_obj].
    assert (Lrl : Lin (nth l rows [])) by (apply Forall_nth_Lin; [exact HL | lia]).
    assert (Lprow : Lin (rscale_div (getq (nth l rows []) e) (nth l rows []))) by (apply Lin_scale; assumption).
    apply (ObjInv_comb _ obj (getq obj e) (rscale_div (getq (nth l rows []) e) (nth l rows []))); [|exact HO1|exact Lprow].
    apply comb_elim_row. destruct Lprow as [L1 _]. lia.
  - rewrite pivot_basis. intros j. rewrite Hobj.
    set (w := ent rows l j / ent rows l e).
    assert (HS : sumN (fun k => c0 (nth k (set_nth l e basis) O) * ent (t_rows (fst (pivot 0 (mkT rows obj) basis l e))) k j) 0 m
                 == sumN (fun k => c0 (nth k basis O) * ent rows k j) 0 m
                    - w * sumN (fun k => c0 (nth k basis O) * ent rows k e) 0 m + c0 e * w).
    { transitivity (sumN (fun k => c0 (nth k basis O) * ent rows k j) 0 m
                    - w * sumN (fun k => c0 (nth k basis O) * ent rows k e) 0 m
                    + sumN (fun i => if Nat.eqb i l then c0 e * w else 0) 0 m);
        [|rewrite (sumN_delta (c0 e * w) l m 0) by lia; reflexivity].
      rewrite <- sumN_lin. rewrite <- sumN_plus. apply sumN_ext. intros k Hk.
      rewrite (Hent k j) by lia.
      destruct (Nat.eqb k l) eqn:E.
      - apply Nat.eqb_eq in E. subst k. rewrite set_nth_same by lia. unfold w. field. exact Hp.
      - apply Nat.eqb_neq in E. rewrite set_nth_other by exact E. unfold w. field. exact Hp. }
    rewrite HS. rewrite (HO2 j), (HO2 e). ring.
Qed.

End Inv.
