(* C17 deep - primal side, phase 1: the phase-1 objective row built by the code satisfies O2 for the cost row c1
   (1 on the artificial columns); when phase 1 ends with objective value >= 0 every row whose basic variable is
   artificial has right-hand side 0; drive_out_artificials then changes no right-hand side. *)
From Coq Require Import List ZArith QArith Qabs Qround Bool Arith Lia Lqa Setoid.
From SV Require Import C17.Cg C17.CgSpec C17.GateProofs C17.PoolProofs C17.DeepSum C17.DeepInv C17.DeepPhase C17.DeepInit
                       C17.DeepMaster C17.DeepPrimal.
Import ListNotations.
Open Scope Q_scope.

Definition inr (a b j : nat) : bool := Nat.leb a j && Nat.ltb j b.
Lemma inr_true : forall a b j, inr a b j = true <-> (a <= j < b)%nat.
Proof.
  intros a b j. unfold inr. rewrite andb_true_iff, Nat.leb_le, Nat.ltb_lt. reflexivity.
Qed.
Lemma inr_false : forall a b j, inr a b j = false <-> ~ (a <= j < b)%nat.
Proof.
  intros a b j. rewrite <- inr_true. destruct (inr a b j); split; intros H.
  - discriminate.
  - exfalso. apply H. reflexivity.
  - intros H'. discriminate.
  - reflexivity.
Qed.

Lemma set_nth_overflow : forall {A} i (v : A) l, (length l <= i)%nat -> set_nth i v l = l.
Proof.
  intros A i v l. revert i. induction l as [|x l IH]; intros [|i] H; simpl in *; try reflexivity; try lia.
  rewrite IH by lia. reflexivity.
Qed.

Lemma getq_set_nth0 : forall p v j, getq (set_nth p 0 v) j = if Nat.eqb j p then 0 else getq v j.
Proof.
  intros p v j. unfold getq. destruct (Nat.eqb j p) eqn:E.
  - apply Nat.eqb_eq in E. subst j. destruct (Nat.lt_ge_cases p (length v)) as [H|H].
    + apply set_nth_same. exact H.
    + rewrite set_nth_overflow by exact H. apply nth_overflow. exact H.
  - apply Nat.eqb_neq in E. apply set_nth_other. exact E.
Qed.

Lemma firstn_snoc : forall {A} (l : list A) t d, (t < length l)%nat -> firstn (S t) l = firstn t l ++ [nth t l d].
Proof.
  intros A l. induction l as [|x l IH]; intros t d H; simpl in H; [lia|].
  destruct t as [|t]; [reflexivity|].
  change (firstn (S (S t)) (x :: l)) with (x :: firstn (S t) l).
  change (firstn (S t) (x :: l)) with (x :: firstn t l).
  change (nth (S t) (x :: l) d) with (nth t l d).
  rewrite (IH t d) by lia. reflexivity.
Qed.

Lemma sumN_snoc : forall f k s, sumN f s (S k) == sumN f s k + f (s + k)%nat.
Proof.
  intros f k. induction k as [|k IH]; intros s.
  - cbn [sumN]. rewrite Nat.add_0_r. ring.
  - change (sumN f s (S (S k))) with (f s + sumN f (S s) (S k)). rewrite IH. cbn [sumN].
    replace (S s + k)%nat with (s + S k)%nat by lia. ring.
Qed.

Lemma sumN_nonneg : forall f k s, (forall i, (s <= i < s + k)%nat -> 0 <= f i) -> 0 <= sumN f s k.
Proof.
  intros f k. induction k as [|k IH]; intros s H; cbn [sumN]; [apply Qle_refl|].
  assert (0 <= f s) by (apply H; lia). assert (0 <= sumN f (S s) k) by (apply IH; intros; apply H; lia). lra.
Qed.

Lemma sumN_nonneg_le0 : forall f k s, (forall i, (s <= i < s + k)%nat -> 0 <= f i) -> sumN f s k <= 0 ->
  forall i, (s <= i < s + k)%nat -> f i == 0.
Proof.
  intros f k. induction k as [|k IH]; intros s Hn Hs i Hi; [lia|]. cbn [sumN] in Hs.
  assert (H1 : 0 <= f s) by (apply Hn; lia).
  assert (H2 : 0 <= sumN f (S s) k) by (apply sumN_nonneg; intros i' Hi'; apply Hn; lia).
  destruct (Nat.eq_dec i s) as [->|Hne]; [lra|].
  apply (IH (S s)); [intros i' Hi'; apply Hn; lia | lra | lia].
Qed.

Section Phase1.
Variables (columns : list pattern) (demands : list Z).
Notation n := (length columns).
Notation m := (length demands).
Notation A := (colA columns).
Notation D := (demD demands).
Notation rows0 := (m_rows columns demands).

Definition c1 (j : nat) : Q := if inr (n + m) (n + m + m) j then 1 else 0.

Definition step1 (st : list Q * nat) (r : row) : list Q * nat :=
  (set_nth (n + m + snd st) 0 (vsub (fst st) r), S (snd st)).

Lemma obj1_prefix : forall t, (t <= m)%nat ->
  snd (fold_left step1 (firstn t rows0) (repeat 0 (S (n + m + m)), O)) = t /\
  length (fst (fold_left step1 (firstn t rows0) (repeat 0 (S (n + m + m)), O))) = S (n + m + m) /\
  forall j, getq (fst (fold_left step1 (firstn t rows0) (repeat 0 (S (n + m + m)), O))) j ==
            if inr (n + m) (n + m + t) j then 0 else - sumN (fun k => ent rows0 k j) 0 t.
Proof.
  induction t as [|t IH]; intros Ht.
  - cbn [firstn fold_left fst snd sumN]. split; [reflexivity|]. split; [apply repeat_length|].
    intros j. rewrite getq_repeat0. destruct (inr (n + m) (n + m + 0) j); ring.
  - destruct IH as [Hs [Hl Hg]]; [lia|].
    rewrite (firstn_snoc rows0 t []) by (rewrite m_rows_length; lia). rewrite fold_left_app.
    set (st := fold_left step1 (firstn t rows0) (repeat 0 (S (n + m + m)), O)) in *.
    cbn [fold_left]. unfold step1 at 1 2 3. cbn [fst snd]. rewrite Hs.
    assert (Lr : length (nth t rows0 []) = S (n + m + m)) by (apply (row0_len columns demands t); lia).
    split; [reflexivity|]. split; [rewrite set_nth_length; unfold vsub; rewrite vsubmul_length; exact Hl|].
    intros j. rewrite getq_set_nth0.
    destruct (Nat.eqb j (n + m + t)) eqn:Ej.
    + apply Nat.eqb_eq in Ej. replace (inr (n + m) (n + m + S t) j) with true; [reflexivity|].
      symmetry. apply inr_true. lia.
    + apply Nat.eqb_neq in Ej. unfold vsub.
      destruct (comb_vsubmul 1 (fst st) (nth t rows0 [])) as [_ Hc]; [lia|]. rewrite Hc. rewrite Hg.
      fold (ent rows0 t j).
      destruct (inr (n + m) (n + m + t) j) eqn:E1.
      * apply inr_true in E1. replace (inr (n + m) (n + m + S t) j) with true by (symmetry; apply inr_true; lia).
        replace j with (n + m + (j - (n + m)))%nat by lia.
        rewrite (row0_a columns demands t (j - (n + m))) by lia.
        replace (Nat.eqb (j - (n + m)) t) with false by (symmetry; apply Nat.eqb_neq; lia). ring.
      * apply inr_false in E1. replace (inr (n + m) (n + m + S t) j) with false by (symmetry; apply inr_false; lia).
        rewrite sumN_snoc. cbn [Nat.add]. ring.
Qed.

Lemma m_obj1_spec :
  length (m_obj1 n m rows0) = S (n + m + m) /\
  objInv2g m c1 rows0 (seq (n + m) m) (m_obj1 n m rows0).
Proof.
  destruct (obj1_prefix m (le_n _)) as [_ [Hl Hg]].
  assert (Ef : firstn m rows0 = rows0) by (apply firstn_all2; rewrite m_rows_length; lia).
  rewrite Ef in Hl, Hg. change (fst (fold_left step1 rows0 (repeat 0 (S (n + m + m)), O))) with (m_obj1 n m rows0) in Hl, Hg.
  split; [exact Hl|]. intros j. rewrite Hg.
  rewrite (sumN_ext (fun k => c1 (nth k (seq (n + m) m) O) * ent rows0 k j) (fun k => ent rows0 k j)).
  2:{ intros k Hk. rewrite seq_nth by lia. unfold c1.
      replace (inr (n + m) (n + m + m) (n + m + k)) with true by (symmetry; apply inr_true; lia). ring. }
  unfold c1. destruct (inr (n + m) (n + m + m) j) eqn:E.
  - apply inr_true in E.
    rewrite (sumN_ext _ (fun k => if Nat.eqb k (j - (n + m)) then 1 else 0)).
    + rewrite sumN_delta by lia. ring.
    + intros k Hk. replace j with (n + m + (j - (n + m)))%nat at 1 by lia.
      rewrite (row0_a columns demands k (j - (n + m))) by lia. rewrite Nat.eqb_sym. reflexivity.
  - ring.
Qed.

Lemma rows0_primal : forallb (Z.leb 0) demands = true -> primal n m rows0.
Proof.
  intros Hd k Hk. unfold NN. rewrite (row0_d columns demands k Hk). unfold demD, z2q.
  rewrite forallb_forall in Hd. assert (Hin : In (getz demands k) demands) by (unfold getz; apply nth_In; exact Hk).
  specialize (Hd _ Hin). apply Z.leb_le in Hd. rewrite <- (Zle_Qle 0). exact Hd.
Qed.

Lemma basis0_bound : basisBound n m (seq (n + m) m).
Proof. intros k Hk. rewrite seq_nth by exact Hk. lia. Qed.

End Phase1.

(* ---------------------------------------------------------------- end of phase 1, drive-out *)
Section Drive.
Variables (n m : nat) (A : nat -> nat -> Q) (D : nat -> Q).
Notation NN := (NN n m).
Notation rowsInv := (rowsInv n m A D).

Definition c1g (j : nat) : Q := if inr (n + m) (n + m + m) j then 1 else 0.

Definition artz (rows : list row) (basis : list nat) : Prop :=
  forall k, (k < m)%nat -> (n + m <= nth k basis O)%nat -> ent rows k NN == 0.

Lemma art_zero : forall rows basis obj,
  primal n m rows -> basisBound n m basis -> objInv2g m c1g rows basis obj ->
  ~ getq obj NN < 0 -> artz rows basis.
Proof.
  intros rows basis obj HP HB HO Hnn k Hk Hbk.
  pose proof (HO NN) as E.
  assert (Ec : c1g NN = 0).
  { unfold c1g. replace (inr (n + m) (n + m + m) NN) with false; [reflexivity|]. symmetry. apply inr_false. unfold DeepInv.NN. lia. }
  rewrite Ec in E.
  assert (Hs : sumN (fun k => c1g (nth k basis O) * ent rows k NN) 0 m <= 0).
  { apply Qnot_lt_le in Hnn. lra. }
  assert (Hz : c1g (nth k basis O) * ent rows k NN == 0).
  { apply (sumN_nonneg_le0 (fun k => c1g (nth k basis O) * ent rows k NN) m 0); [|exact Hs|lia].
    intros i Hi. assert (Hi' : (i < m)%nat) by lia. specialize (HP i Hi'). unfold c1g.
    destruct (inr (n + m) (n + m + m) (nth i basis O)); lra. }
  unfold c1g in Hz. replace (inr (n + m) (n + m + m) (nth k basis O)) with true in Hz; [lra|].
  symmetry. apply inr_true. specialize (HB k Hk). lia.
Qed.

Lemma argmax_abs_range : forall basis k r j best e ax,
  argmax_abs basis k j r best = Some (e, ax) ->
  best = Some (e, ax) \/ (j <= e < j + k)%nat.
Proof.
  intros basis k. induction k as [|k IH]; intros r j best e ax H; simpl in H; [left; exact H|].
  destruct r as [|x r]; [left; exact H|].
  apply IH in H. destruct H as [H|H]; [|right; lia].
  destruct (mem_nat j basis); [left; exact H|].
  destruct best as [[bj bx]|].
  - destruct (Qltb bx (Qabs x)); [|left; exact H]. inversion H; subst. right. lia.
  - inversion H; subst. right. lia.
Qed.

Definition DInv (rows : list row) (basis : list nat) : Prop :=
  rowsInv rows basis /\ primal n m rows /\ basisBound n m basis /\ artz rows basis.

Lemma drive_step_DInv : forall T basis i, (i < m)%nat ->
  DInv (t_rows T) basis ->
  DInv (t_rows (fst (drive_step 0 (n + m) (T, basis) i))) (snd (drive_step 0 (n + m) (T, basis) i)).
Proof.
  intros T basis i Hi HD. pose proof HD as [HR [HP [HB HZ]]]. unfold drive_step.
  destruct (Nat.ltb (nth i basis O) (n + m)) eqn:Elt; [exact HD|]. apply Nat.ltb_ge in Elt.
  destruct (argmax_abs basis (n + m) 0 (nth i (t_rows T) []) None) as [[e ax]|] eqn:Ea; [|exact HD].
  destruct (Qltb 0 ax) eqn:Eq; [|exact HD].
  destruct (argmax_abs_spec _ _ _ _ _ _ _ Ea) as [Hb|[_ Hax]]; [discriminate|].
  destruct (argmax_abs_range _ _ _ _ _ _ _ Ea) as [Hb|He]; [discriminate|].
  rewrite Nat.sub_0_r in Hax. apply Qltb_lt in Eq.
  destruct T as [rows obj]. cbn [t_rows] in *.
  assert (Hp : ~ ent rows i e == 0).
  { unfold ent, getq. intros Hz. rewrite Hax, Hz in Eq. apply (Qlt_irrefl 0). exact Eq. }
  assert (Hzi : ent rows i NN == 0) by (apply HZ; assumption).
  pose proof (pivot_rhs_zero n m A D rows obj basis i e HR Hi Hp Hzi) as Hrhs.
  pose proof HR as [_ [Hbl _]].
  split; [apply pivot_rows; assumption|]. split; [|split].
  - intros k Hk. rewrite (Hrhs k Hk). apply HP. exact Hk.
  - rewrite pivot_basis. apply pivot_basisBound; [exact HB | lia | exact Hbl].
  - rewrite pivot_basis. intros k Hk Hbk. rewrite (Hrhs k Hk).
    destruct (Nat.eq_dec k i) as [->|Hne].
    + rewrite set_nth_same in Hbk by lia. lia.
    + rewrite set_nth_other in Hbk by exact Hne. apply HZ; assumption.
Qed.

Lemma drive_DInv : forall T basis,
  DInv (t_rows T) basis ->
  DInv (t_rows (fst (drive_out_artificials 0 (n + m) m T basis))) (snd (drive_out_artificials 0 (n + m) m T basis)).
Proof.
  intros T basis HD. unfold drive_out_artificials.
  assert (Hgen : forall l st, (forall i, In i l -> (i < m)%nat) -> DInv (t_rows (fst st)) (snd st) ->
            DInv (t_rows (fst (fold_left (drive_step 0 (n + m)) l st))) (snd (fold_left (drive_step 0 (n + m)) l st))).
  { induction l as [|i l IH]; intros st Hl Hst; [exact Hst|]. cbn [fold_left]. apply IH.
    - intros i' Hi'. apply Hl. right. exact Hi'.
    - destruct st as [T0 b0]. apply drive_step_DInv; [apply Hl; left; reflexivity | exact Hst]. }
  apply Hgen; [|exact HD]. intros i Hi. apply in_seq in Hi. lia.
Qed.

End Drive.
