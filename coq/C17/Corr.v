(* Boolean checks evaluated by the generated correspondence files (coq/Cases/C17/*.v).  Definitions only. *)
From Coq Require Import List ZArith QArith Qabs Qround Bool Arith.
From SV Require Import Common.Corr C17.Cg C17.CgSpec C17.Bp.
Import ListNotations.
Open Scope Q_scope.

Definition tol7 : Q := 1 # 10000000.
Definition eps7 : Q := 1 # 10000000.
Definition tie_default : Q := 1 # 1000000000.

Definition qclose (a b : Q) : bool := Qleb (Qabs (a - b)) tol7.
Definition oq_close (a b : option Q) : bool :=
  match a, b with None, None => true | Some x, Some y => qclose x y | _, _ => false end.
Definition plan_eqb : plan -> plan -> bool := list_eqb (pair_eqb pat_eqb Z.eqb).
Definition pool_eqb : list pattern -> list pattern -> bool := list_eqb pat_eqb.
Definition usable (s : status) : bool := match s with INFEASIBLE => false | _ => true end.

(* ------------------------------------------------------------------ solve_cg *)
Inductive cg_obs :=
| ObsDone (st : status) (obj : Z) (sol : plan) (iters : nat) (pool : list pattern) (duals : list Q) (lp : option Q)
| ObsOverflow
| ObsInvalid.

Inductive cg_input :=
| InCs (sizes : list Z) (width : Z) (demands : list Z) (max_iter : nat)
| InCustom (cols init : list pattern) (demands : list Z) (max_iter : nat).

Definition cg_case := (cg_input * cg_obs)%type.

Definition run_cg (eps : Q) (i : cg_input) : outcome :=
  match i with
  | InCs s w d mi => solve_cg eps s w d mi
  | InCustom cols init d mi => solve_cg_custom eps (custom_pricing tie_default cols) d init mi
  end.

Definition is_trivial (o : outcome) : bool := match o with Done r => match r_pool r with [] => true | _ => false end | _ => false end.

Definition corr_cg (c : cg_case) : bool :=
  match run_cg eps_default (fst c), snd c with
  | Done r, ObsDone st obj sol iters pool duals lp =>
      status_eqb (r_status r) st && Z.eqb (r_obj r) obj && plan_eqb (r_plan r) sol && Nat.eqb (r_iters r) iters
      && (is_trivial (Done r)        (* the early return solves no LP: nothing recorded *)
          || pool_eqb (r_pool r) pool && list_eqb qclose (r_duals r) duals && oq_close (r_lp r) lp)
  | Overflow, ObsOverflow => true
  | Invalid, ObsInvalid => true
  | _, _ => false
  end.

Definition outcome_deqb (a b : outcome) : bool :=
  match a, b with
  | Done r, Done r' =>
      status_eqb (r_status r) (r_status r') && Z.eqb (r_obj r) (r_obj r') && plan_eqb (r_plan r) (r_plan r')
      && Nat.eqb (r_iters r) (r_iters r') && pool_eqb (r_pool r) (r_pool r') && Bool.eqb (r_conv r) (r_conv r')
  | Overflow, Overflow | Invalid, Invalid | NoFuel, NoFuel => true
  | _, _ => false
  end.

(* eps = 0, 1e-9 and 1e-7 take the same discrete decisions *)
Definition stable_cg (c : cg_case) : bool :=
  let r := run_cg eps_default (fst c) in
  outcome_deqb (run_cg 0 (fst c)) r && outcome_deqb (run_cg eps7 (fst c)) r.

(* the proved gate on the IMPLEMENTATION's plan *)
Definition gate_cg (c : cg_case) : bool :=
  match snd c with
  | ObsDone st obj sol _ _ _ _ =>
      if usable st then
        match fst c with
        | InCs s w d _ => plan_ok s w d sol obj
        | InCustom cols _ d _ => plan_ok_custom cols d sol obj
        end
      else true
  | _ => true
  end.

(* the proved dual certificate on the MODEL's final duals whenever the implementation says OPTIMAL *)
Definition cert_cg (c : cg_case) : bool :=
  match snd c with
  | ObsDone OPTIMAL obj _ _ _ _ _ =>
      match run_cg eps_default (fst c) with
      | Done r =>
          match fst c with
          | InCs s w d _ => dual_cert_check s w d (r_duals r) obj
          | InCustom cols _ d _ => dual_cert_custom cols d (r_duals r) obj
          end
      | _ => false
      end
  | _ => true
  end.

(* ------------------------------------------------------------------ solve_bp *)
(* what the first _solve_node_lp call returned: columns, x_vals, lp_obj, cg_iters, converged *)
Definition root_obs := (list pattern * list Q * option Q * nat * bool)%type.

Record bp_obs := mkBO {
  o_status : status; o_sol : option plan; o_obj : option Z; o_iters : nat; o_evals : nat;
  o_root : option root_obs; o_nodes : nat }.      (* o_nodes = number of _solve_node_lp calls *)

Inductive bp_answer := BAns (o : bp_obs) | BInvalid.
Definition bp_case := (cg_input * bp_answer)%type.

Definition run_bp (eps : Q) (i : cg_input) : bp_root :=
  match i with
  | InCs s w d mi => solve_bp_root eps gap_default s w d mi
  | InCustom cols init d mi => solve_bp_custom_root eps gap_default (custom_pricing tie_default cols) d init mi
  end.

Definition oplan_eqb (a b : option plan) : bool := option_eqb plan_eqb a b.
Definition oz_eqb (a b : option Z) : bool := option_eqb Z.eqb a b.

Definition root_agrees (r : bp_root) (o : option root_obs) : bool :=
  match o with
  | None => match b_pool r with [] => true | _ => false end
  | Some (pool, x, lp, it, conv) =>
      pool_eqb (b_pool r) pool && list_eqb qclose (b_x r) x && oq_close (b_lp r) lp
      && Nat.eqb (b_iters r) it && Bool.eqb (b_conv r) conv
  end.

Definition corr_bp (c : bp_case) : bool :=
  let r := run_bp eps_default (fst c) in
  match b_out r, snd c with
  | BpInvalid, BInvalid => true
  | BpDone st sol obj cg_iters, BAns o =>
      root_agrees r (o_root o)
      && status_eqb st (o_status o) && oplan_eqb sol (o_sol o) && oz_eqb obj (o_obj o)
      && Nat.eqb (o_iters o) 0 && Nat.eqb (o_evals o) cg_iters && Nat.leb (o_nodes o) 1
  | BpTree rb inc, BAns o =>
      root_agrees r (o_root o) && tree_answer_ok gap_default rb inc (o_status o) (o_obj o)
  | _, _ => false
  end.

Definition bp_root_deqb (a b : bp_root) : bool :=
  pool_eqb (b_pool a) (b_pool b) && Nat.eqb (b_iters a) (b_iters b) && Bool.eqb (b_conv a) (b_conv b)
  && match b_out a, b_out b with
     | BpDone st sol obj it, BpDone st' sol' obj' it' =>
         status_eqb st st' && oplan_eqb sol sol' && oz_eqb obj obj' && Nat.eqb it it'
     | BpTree rb inc, BpTree rb' inc' =>
         oz_eqb rb rb' && option_eqb (pair_eqb plan_eqb Z.eqb) inc inc'
     | BpInvalid, BpInvalid | BpNoFuel, BpNoFuel => true
     | _, _ => false
     end.

Definition stable_bp (c : bp_case) : bool :=
  let r := run_bp eps_default (fst c) in
  bp_root_deqb (run_bp 0 (fst c)) r && bp_root_deqb (run_bp eps7 (fst c)) r.

Definition gate_bp (c : bp_case) : bool :=
  match snd c with
  | BAns o =>
      if usable (o_status o) then
        match o_sol o, o_obj o with
        | Some sol, Some obj =>
            match fst c with
            | InCs s w d _ => plan_ok s w d sol obj
            | InCustom cols _ d _ => plan_ok_custom cols d sol obj
            end
        | _, _ => false
        end
      else true
  | BInvalid => true
  end.

(* OPTIMAL from solve_bp (root or tree): the certificate is the model's ROOT dual vector *)
Definition cert_bp (c : bp_case) : bool :=
  match snd c with
  | BAns o =>
      match o_status o, o_obj o with
      | OPTIMAL, Some obj =>
          let r := run_bp eps_default (fst c) in
          match fst c with
          | InCs s w d _ => dual_cert_check s w d (b_duals r) obj
          | InCustom cols _ d _ => dual_cert_custom cols d (b_duals r) obj
          end
      | OPTIMAL, None => false
      | _, _ => true
      end
  | BInvalid => true
  end.

(* hypothesis of C17_optimal_partial_eps0, evaluated on the eps = 0 model run whenever that run says OPTIMAL *)
Definition residue_cg (c : cg_case) : bool :=
  match fst c with
  | InCs s w d mi =>
      match solve_cg 0 s w d mi with
      | Done r => match r_status r with OPTIMAL => simplex_residue d r | _ => true end
      | _ => true
      end
  | _ => true
  end.
