(* C17_gate for the root part of the solve_bp model: every plan returned before the tree search passes the gate. *)
From Coq Require Import List ZArith QArith Qabs Qround Bool Arith Lia.
From SV Require Import C17.Cg C17.CgSpec C17.Bp C17.GateProofs C17.PoolProofs C17.CgGateProofs.
Import ListNotations.

(* ---- the pool of the root node *)
Lemma node_loop_pool_ok : forall eps sizes width demands fuel it cols res,
  (0 <= eps)%Q -> (eps < 1)%Q -> (0 <= width)%Z ->
  pool_ok sizes width cols ->
  node_loop eps true (cs_pricing eps sizes width) demands fuel it cols = Some res ->
  match res with
  | inl (cols', _, _, _, _, _) => pool_ok sizes width cols'
  | inr (cols', _, _) => pool_ok sizes width cols'
  end.
Proof.
  intros eps sizes width demands fuel. induction fuel as [|fuel IH]; intros it cols res He0 He1 Hw Hp H; simpl in H.
  - inversion H; subst. exact Hp.
  - destruct (master_lp true eps cols demands) as [[[x duals] [lp|]]|]; [| |discriminate].
    + unfold cs_pricing in H at 1.
      destruct (knapsack_pricing eps sizes width duals) as [[np pv]|] eqn:Ek; [|discriminate].
      destruct (Qleb pv (1 + eps)).
      * inversion H; subst. exact Hp.
      * apply (IH _ _ _ He0 He1 Hw) in H; [exact H|].
        apply pool_ok_add; [exact Hp|]. apply (knapsack_pricing_fits eps sizes width duals np pv); assumption.
    + inversion H; subst. exact Hp.
Qed.

Lemma solve_node_lp_pool_ok : forall eps sizes width demands max_iter cols cols' x duals lp it conv,
  (0 <= eps)%Q -> (eps < 1)%Q -> (0 <= width)%Z ->
  pool_ok sizes width cols ->
  solve_node_lp eps true (cs_pricing eps sizes width) demands max_iter cols = Some (cols', x, duals, lp, it, conv) ->
  pool_ok sizes width cols'.
Proof.
  intros eps sizes width demands max_iter cols cols' x duals lp it conv He0 He1 Hw Hp H. unfold solve_node_lp in H.
  destruct (node_loop eps true (cs_pricing eps sizes width) demands max_iter 0 cols) as [res|] eqn:En; [|discriminate].
  pose proof (node_loop_pool_ok _ _ _ _ _ _ _ _ He0 He1 Hw Hp En) as Hres.
  destruct res as [[[[[[c1 x1] d1] l1] i1] b1]|[[c2 i2] b2]].
  - inversion H; subst. exact Hres.
  - destruct (master_lp true eps c2 demands) as [[[x2 d2] l2]|]; [|discriminate].
    inversion H; subst. exact Hres.
Qed.

(* ---- dictionaries *)
Lemma dict_set_Forall : forall (Q : pattern * Z -> Prop) k v d, Forall Q d -> Q (k, v) -> Forall Q (dict_set k v d).
Proof.
  intros Q k v d. induction d as [|[k' v'] d IH]; intros Hd Hq; simpl.
  - constructor; [exact Hq | constructor].
  - apply Forall_cons_iff in Hd. destruct Hd as [H1 Hd]. destruct (pat_eqb k k') eqn:E.
    + apply pat_eqb_eq in E. subst k'. constructor; assumption.
    + constructor; [exact H1 | apply IH; assumption].
Qed.

Lemma build_solution_ok : forall eps (F : pattern -> Prop) cols x,
  Forall F cols -> Forall (fun pc => F (fst pc) /\ (0 <= snd pc)%Z) (build_solution eps cols x).
Proof.
  intros eps F cols x HF. unfold build_solution.
  assert (Hgen : forall l sol, Forall (fun px : pattern * Q => F (fst px)) l ->
            Forall (fun pc : pattern * Z => F (fst pc) /\ (0 <= snd pc)%Z) sol ->
            Forall (fun pc : pattern * Z => F (fst pc) /\ (0 <= snd pc)%Z)
              (fold_left (fun sol (px : pattern * Q) =>
                 if Qltb eps (snd px) then
                   let count := round_nearest (snd px) in
                   if Z.ltb 0 count then dict_set (fst px) count sol else sol
                 else sol) l sol)).
  { induction l as [|px l IH]; intros sol Hl Hs; simpl; [exact Hs|].
    apply Forall_cons_iff in Hl. destruct Hl as [Hpx Hl]. apply IH; [exact Hl|].
    destruct (Qltb eps (snd px)); [|exact Hs].
    destruct (Z.ltb 0 (round_nearest (snd px))) eqn:Ec; [|exact Hs].
    apply Z.ltb_lt in Ec. apply dict_set_Forall; [exact Hs|]. simpl. split; [exact Hpx | lia]. }
  apply Hgen; [|constructor].
  apply Forall_forall. intros [p q] Hin. apply in_combine_l in Hin. simpl. rewrite Forall_forall in HF. apply HF. exact Hin.
Qed.

(* ---- _round_solution over a duplicate-free pool *)
Definition crsum (l : list (pattern * Z)) (i : nat) : Z := fold_right (fun cr acc => (getz (fst cr) i * snd cr + acc)%Z) 0%Z l.
Definition rs_step (st : plan * Z) (cr : pattern * Z) : plan * Z :=
  if Z.ltb 0 (snd cr) then (dict_set (fst cr) (snd cr) (fst st), (snd st + snd cr)%Z) else st.

Lemma produced_app : forall P Q i, produced (P ++ Q) i = (produced P i + produced Q i)%Z.
Proof. induction P as [|pc P IH]; intros Q i; simpl; [reflexivity | rewrite IH; lia]. Qed.

Lemma produced_single : forall p c i, produced [(p, c)] i = (getz p i * c)%Z.
Proof. intros. unfold produced. simpl. lia. Qed.

Lemma crsum_cons : forall p c l i, crsum ((p, c) :: l) i = (getz p i * c + crsum l i)%Z.
Proof. reflexivity. Qed.

Lemma rs_inv : forall (F : pattern -> Prop) l sol total,
  NoDup (map fst l) -> Forall (fun cr => F (fst cr) /\ Forall (fun x => (0 <= x)%Z) (fst cr)) l ->
  (forall k, In k (map fst sol) -> ~ In k (map fst l)) ->
  total = rolls sol -> Forall (fun pc => F (fst pc) /\ (0 <= snd pc)%Z) sol ->
  snd (fold_left rs_step l (sol, total)) = rolls (fst (fold_left rs_step l (sol, total))) /\
  Forall (fun pc => F (fst pc) /\ (0 <= snd pc)%Z) (fst (fold_left rs_step l (sol, total))) /\
  forall i, (produced sol i + crsum l i <= produced (fst (fold_left rs_step l (sol, total))) i)%Z.
Proof.
  intros F l. induction l as [|[p c] l IH]; intros sol total Hnd HF Hk Ht Hs.
  - simpl. split; [exact Ht|]. split; [exact Hs|]. intros i. lia.
  - simpl map in Hnd, Hk. apply NoDup_cons_iff in Hnd. destruct Hnd as [Hnp Hnd].
    apply Forall_cons_iff in HF. destruct HF as [[HFp Hpn] HF]. simpl in HFp, Hpn.
    cbn [fold_left].
    destruct (Z.ltb 0 c) eqn:Ec.
    + assert (Hfresh : ~ In p (map fst sol)) by (intros Hin; apply (Hk p Hin); left; reflexivity).
      assert (Estep : rs_step (sol, total) (p, c) = (sol ++ [(p, c)], (total + c)%Z)).
      { unfold rs_step. cbn [fst snd]. rewrite Ec, (dict_set_fresh p c sol Hfresh). reflexivity. }
      rewrite Estep. apply Z.ltb_lt in Ec.
      destruct (IH (sol ++ [(p, c)]) (total + c)%Z Hnd HF) as [H1 [H2 H3]].
      * intros k Hin Hin'. rewrite map_app in Hin. apply in_app_or in Hin. destruct Hin as [Hin|[Hin|[]]].
        -- apply (Hk k Hin). right. exact Hin'.
        -- simpl in Hin. subst. contradiction.
      * rewrite rolls_app. simpl. lia.
      * apply Forall_app. split; [exact Hs|]. constructor; [|constructor]. simpl. split; [exact HFp | lia].
      * split; [exact H1|]. split; [exact H2|]. intros i. specialize (H3 i).
        rewrite produced_app, produced_single in H3. rewrite crsum_cons. lia.
    + assert (Estep : rs_step (sol, total) (p, c) = (sol, total)).
      { unfold rs_step. cbn [fst snd]. rewrite Ec. reflexivity. }
      rewrite Estep. apply Z.ltb_ge in Ec.
      destruct (IH sol total Hnd HF) as [H1 [H2 H3]]; try assumption.
      * intros k Hin Hin'. apply (Hk k Hin). right. exact Hin'.
      * split; [exact H1|]. split; [exact H2|]. intros i. specialize (H3 i). rewrite crsum_cons.
        assert (0 <= getz p i)%Z.
        { unfold getz. destruct (nth_in_or_default i p 0%Z) as [Hin|Hd]; [|rewrite Hd; lia].
          rewrite Forall_forall in Hpn. apply Hpn. exact Hin. }
        nia.
Qed.

Lemma NoDup_combine_fst : forall {A B} (l : list A) (l' : list B), NoDup l -> NoDup (map fst (combine l l')).
Proof.
  intros A B l. induction l as [|a l IH]; intros l' Hn; simpl; [constructor|].
  destruct l' as [|b l']; simpl; [constructor|].
  apply NoDup_cons_iff in Hn. destruct Hn as [Ha Hn]. constructor; [|apply IH; exact Hn].
  intros Hin. apply in_map_iff in Hin. destruct Hin as [[a' b'] [He Hin]]. simpl in He. subst a'.
  apply in_combine_l in Hin. contradiction.
Qed.

Lemma round_solution_ok : forall eps sizes width cols x demands sol total,
  pool_ok sizes width cols ->
  round_solution eps cols x demands = Some (sol, total) ->
  plan_ok sizes width demands sol total = true.
Proof.
  intros eps sizes width cols x demands sol total [Hf Hn] H. unfold round_solution in H.
  set (rounded := map (fun v => if Qltb eps v then Qceil (v - eps) else 0%Z) x) in H.
  set (cr := combine cols rounded) in H.
  destruct (forallb _ (seq 0 (length demands))) eqn:Ecov; [|discriminate].
  change (fold_left _ cr ([], 0%Z)) with (fold_left rs_step cr ([], 0%Z)) in H.
  destruct (rs_inv (fits sizes width) cr [] 0%Z) as [H1 [H2 H3]].
  - apply NoDup_combine_fst. exact Hn.
  - apply Forall_forall. intros [p c] Hin. apply in_combine_l in Hin. rewrite Forall_forall in Hf.
    specialize (Hf p Hin). simpl. split; [exact Hf|]. destruct Hf as [_ [Hnn _]]. exact Hnn.
  - intros k [].
  - reflexivity.
  - constructor.
  - injection H as H. rewrite H in H1, H2, H3. cbn [fst snd] in H1, H2, H3.
    apply plan_ok_intro; [exact H2 | | exact H1].
    apply covers_spec. intros i Hi. rewrite forallb_forall in Ecov.
    assert (Hin : In i (seq 0 (length demands))) by (apply in_seq; lia).
    specialize (Ecov i Hin). apply Z.leb_le in Ecov. specialize (H3 i). simpl in H3.
    change (fold_right _ 0%Z cr) with (crsum cr i) in Ecov. lia.
Qed.

(* ---- the theorem *)
Theorem solve_bp_root_gate : forall eps gap sizes width demands max_iter st sol obj it,
  (0 <= eps)%Q -> (eps < 1)%Q ->
  b_out (solve_bp_root eps gap sizes width demands max_iter) = BpDone st (Some sol) (Some obj) it ->
  plan_ok sizes width demands sol obj = true.
Proof.
  intros eps gap sizes width demands max_iter st sol obj it He0 He1 H. unfold solve_bp_root in H.
  assert (Htriv : forallb (Z.eqb 0) demands = true -> b_out bp_trivial = BpDone st (Some sol) (Some obj) it ->
                  plan_ok sizes width demands sol obj = true).
  { intros Hz Hb. simpl in Hb. inversion Hb; subst.
    apply plan_ok_intro; [constructor | apply covers_nil_zero; exact Hz | reflexivity]. }
  destruct demands as [|d0 demands'] eqn:Ed; [apply Htriv; [reflexivity | exact H]|]. rewrite <- Ed in *.
  destruct (forallb (Z.leb 0) demands); cbn [negb] in H; [|simpl in H; discriminate].
  destruct (forallb (Z.eqb 0) demands) eqn:Ez; [apply Htriv; [reflexivity | exact H]|].
  destruct (Nat.eqb (length sizes) (length demands)) eqn:El; cbn [negb] in H; [|simpl in H; discriminate].
  destruct (valid_sizes sizes width) eqn:Ev; cbn [negb] in H; [|simpl in H; discriminate].
  apply Nat.eqb_eq in El.
  assert (Hw : (0 <= width)%Z).
  { assert (Hj : (0 < length sizes)%nat) by (rewrite El, Ed; simpl; lia).
    pose proof (valid_sizes_nth _ _ _ Ev Hj). lia. }
  destruct (branch_and_price_root eps gap true (cs_pricing eps sizes width) demands (initial_patterns sizes width demands) max_iter)
    as [r|] eqn:Eb; [|simpl in H; discriminate].
  unfold branch_and_price_root in Eb.
  destruct (solve_node_lp eps true (cs_pricing eps sizes width) demands max_iter (initial_patterns sizes width demands))
    as [[[[[[cols x] duals] lp] cg_iters] conv]|] eqn:En; [|discriminate].
  assert (Hpool : pool_ok sizes width cols).
  { apply (solve_node_lp_pool_ok _ _ _ _ _ _ _ _ _ _ _ _ He0 He1 Hw (initial_patterns_ok _ _ demands Ev) En). }
  destruct lp as [lp_obj|]; [|inversion Eb; subst r; simpl in H; discriminate].
  assert (Hafter : forall r',
            match round_solution eps cols x demands with
            | Some (sol0, total) =>
                if proven gap (if conv then Some (Qceil (lp_obj - eps)) else None) (inject_Z total)
                then Some (mkB (BpDone OPTIMAL (Some sol0) (Some total) cg_iters) cols x duals (Some lp_obj) cg_iters conv)
                else Some (mkB (BpTree (if conv then Some (Qceil (lp_obj - eps)) else None) (Some (sol0, total))) cols x duals (Some lp_obj) cg_iters conv)
            | None => Some (mkB (BpTree (if conv then Some (Qceil (lp_obj - eps)) else None) None) cols x duals (Some lp_obj) cg_iters conv)
            end = Some r' ->
            b_out r' = BpDone st (Some sol) (Some obj) it -> plan_ok sizes width demands sol obj = true).
  { intros r' Hr' Hout.
    destruct (round_solution eps cols x demands) as [[sol0 total]|] eqn:Er.
    - destruct (proven gap _ (inject_Z total)); inversion Hr'; subst r'; simpl in Hout; [|discriminate].
      injection Hout as E1 E2 E3 E4. subst sol0 total. apply (round_solution_ok eps sizes width cols x demands _ _ Hpool Er).
    - inversion Hr'; subst r'. simpl in Hout. discriminate. }
  destruct (most_fractional eps 0 x (None, 0%Q)) as [fi|].
  - apply (Hafter r Eb H).
  - destruct (covers (build_solution eps cols x) demands) eqn:Ec.
    + inversion Eb; subst r. simpl in H. injection H as E1 E2 E3 E4. subst sol obj.
      apply plan_ok_intro; [|exact Ec | reflexivity].
      apply build_solution_ok. destruct Hpool as [Hf _]. exact Hf.
    + apply (Hafter r Eb H).
Qed.
