(* C17 - invariants of the column pool of the cutting-stock model: every pattern fits the roll, no duplicates.
   Ingredients: initial patterns, patterns stored in the knapsack DP cells, the explicit total_size check. *)
From Coq Require Import List ZArith QArith Qabs Qround Bool Arith Lia.
From SV Require Import C17.Cg C17.CgSpec C17.GateProofs.
Import ListNotations.

(* ---------------------------------------------------------------- Q comparisons *)
Lemma Qleb_le : forall a b, Qleb a b = true <-> (a <= b)%Q.
Proof. intros a b. unfold Qleb. apply Qle_bool_iff. Qed.

Lemma Qltb_lt : forall a b, Qltb a b = true <-> (a < b)%Q.
Proof.
  intros a b. unfold Qltb. rewrite negb_true_iff. split.
  - intros H. apply Qnot_le_lt. intros Hle. apply Qle_bool_iff in Hle. rewrite Hle in H. discriminate.
  - intros H. destruct (Qle_bool b a) eqn:E; [|reflexivity]. apply Qle_bool_iff in E. exfalso. exact (Qlt_not_le _ _ H E).
Qed.

Lemma Qltb_false : forall a b, Qltb a b = false <-> (b <= a)%Q.
Proof.
  intros a b. unfold Qltb. rewrite negb_false_iff. apply Qle_bool_iff.
Qed.

(* ---------------------------------------------------------------- mapi / set_nth / repeat lengths *)
Lemma mapi_from_length : forall {A B} (f : nat -> A -> B) l k, length (mapi_from k f l) = length l.
Proof. induction l as [|x l IH]; intros k; simpl; [reflexivity | rewrite IH; reflexivity]. Qed.

Lemma mapi_length : forall {A B} (f : nat -> A -> B) l, length (mapi f l) = length l.
Proof. intros. apply mapi_from_length. Qed.

Lemma mapi_from_Forall : forall {A B} (P : A -> Prop) (R : B -> Prop) (f : nat -> A -> B) l k,
  (forall i x, P x -> R (f i x)) -> Forall P l -> Forall R (mapi_from k f l).
Proof.
  induction l as [|x l IH]; intros k Hf Hl; simpl; constructor; inversion Hl; subst; auto.
Qed.

(* ---------------------------------------------------------------- dot product with a scaled unit vector *)
Definition unit_pat (n j : nat) (c : Z) : pattern := map (fun i => if Nat.eqb i j then c else 0%Z) (seq 0 n).

Lemma dotz_zero_from : forall sizes k j c, (j < k)%nat ->
  dotz sizes (map (fun i => if Nat.eqb i j then c else 0%Z) (seq k (length sizes))) = 0%Z.
Proof.
  induction sizes as [|s sizes IH]; intros k j c Hlt; simpl; [reflexivity|].
  destruct (Nat.eqb k j) eqn:E; [apply Nat.eqb_eq in E; lia|].
  rewrite IH by lia. lia.
Qed.

Lemma dotz_unit_from : forall sizes k j c, (k <= j < k + length sizes)%nat ->
  dotz sizes (map (fun i => if Nat.eqb i j then c else 0%Z) (seq k (length sizes))) = (getz sizes (j - k) * c)%Z.
Proof.
  induction sizes as [|s sizes IH]; intros k j c Hr; simpl in *; [lia|].
  destruct (Nat.eqb k j) eqn:E.
  - apply Nat.eqb_eq in E. subst. rewrite dotz_zero_from by lia. rewrite Nat.sub_diag. unfold getz. simpl. lia.
  - apply Nat.eqb_neq in E. rewrite IH by lia. unfold getz.
    replace (j - k)%nat with (S (j - S k)) by lia. simpl. lia.
Qed.

Lemma dotz_unit : forall sizes j c, (j < length sizes)%nat ->
  dotz sizes (unit_pat (length sizes) j c) = (getz sizes j * c)%Z.
Proof.
  intros sizes j c Hj. unfold unit_pat. rewrite dotz_unit_from by lia. rewrite Nat.sub_0_r. reflexivity.
Qed.

Lemma nth_map_seq : forall {A} (f : nat -> A) n k j d, (j < n)%nat -> nth j (map f (seq k n)) d = f (k + j)%nat.
Proof.
  intros A f n. induction n as [|n IH]; intros k j d Hj; [lia|].
  simpl. destruct j as [|j]; [rewrite Nat.add_0_r; reflexivity|].
  rewrite IH by lia. f_equal. lia.
Qed.

Lemma unit_pat_nth_same : forall n j c, (j < n)%nat -> nth j (unit_pat n j c) 0%Z = c.
Proof.
  intros n j c Hj. unfold unit_pat. rewrite nth_map_seq by exact Hj. simpl. rewrite Nat.eqb_refl. reflexivity.
Qed.

Lemma unit_pat_nth_other : forall n j j' c, (j < n)%nat -> j <> j' -> nth j (unit_pat n j' c) 0%Z = 0%Z.
Proof.
  intros n j j' c Hj Hne. unfold unit_pat. rewrite nth_map_seq by exact Hj. simpl.
  destruct (Nat.eqb j j') eqn:E; [apply Nat.eqb_eq in E; contradiction | reflexivity].
Qed.

(* ---------------------------------------------------------------- valid sizes *)
Lemma valid_sizes_nth : forall sizes width j, valid_sizes sizes width = true -> (j < length sizes)%nat ->
  (0 < getz sizes j <= width)%Z.
Proof.
  intros sizes width j Hv Hj. unfold valid_sizes in Hv. rewrite forallb_forall in Hv.
  assert (Hin : In (getz sizes j) sizes) by (unfold getz; apply nth_In; exact Hj).
  specialize (Hv _ Hin). apply andb_true_iff in Hv. destruct Hv as [H1 H2].
  apply Z.ltb_lt in H1. apply Z.leb_le in H2. lia.
Qed.

(* ---------------------------------------------------------------- the pool invariant *)
Definition pool_ok (sizes : list Z) (width : Z) (pool : list pattern) : Prop :=
  Forall (fits sizes width) pool /\ NoDup pool.

Lemma unit_pat_fits : forall sizes width j, valid_sizes sizes width = true -> (j < length sizes)%nat ->
  fits sizes width (unit_pat (length sizes) j (width / getz sizes j)).
Proof.
  intros sizes width j Hv Hj. destruct (valid_sizes_nth _ _ _ Hv Hj) as [Hp Hw].
  unfold fits. repeat split.
  - unfold unit_pat. rewrite map_length, seq_length. reflexivity.
  - unfold unit_pat. apply Forall_forall. intros x Hx. apply in_map_iff in Hx. destruct Hx as [i [Hi _]].
    destruct (Nat.eqb i j); subst; [apply Z.div_pos; lia | lia].
  - rewrite dotz_unit by exact Hj. apply Z.mul_div_le. exact Hp.
Qed.

Lemma initial_patterns_In : forall sizes width demands p,
  In p (initial_patterns sizes width demands) ->
  exists j, (j < length sizes)%nat /\ p = unit_pat (length sizes) j (width / getz sizes j).
Proof.
  intros sizes width demands p H. unfold initial_patterns in H. apply in_flat_map in H.
  destruct H as [j [Hj Hp]]. apply in_seq in Hj.
  destruct (Z.ltb 0 (getz demands j)); simpl in Hp; [|contradiction].
  destruct Hp as [Hp|[]]. exists j. split; [lia | symmetry; exact Hp].
Qed.

Lemma NoDup_flat_map_seq : forall (f : nat -> list pattern) n k,
  (forall j, length (f j) <= 1)%nat ->
  (forall j j' p, (k <= j < k + n)%nat -> (k <= j' < k + n)%nat -> In p (f j) -> In p (f j') -> j = j') ->
  NoDup (flat_map f (seq k n)).
Proof.
  intros f n. induction n as [|n IH]; intros k H1 Hinj; simpl; [constructor|].
  assert (Hrest : NoDup (flat_map f (seq (S k) n))).
  { apply IH; [assumption|]. intros j j' p Hj Hj'. apply Hinj; lia. }
  destruct (f k) as [|p [|q l]] eqn:E; simpl.
  - exact Hrest.
  - constructor; [|exact Hrest]. intros Hin. apply in_flat_map in Hin. destruct Hin as [j' [Hj' Hp]].
    apply in_seq in Hj'. assert (k = j') by (apply (Hinj k j' p); [lia | lia | rewrite E; left; reflexivity | exact Hp]). lia.
  - specialize (H1 k). rewrite E in H1. simpl in H1. lia.
Qed.

Lemma initial_patterns_ok : forall sizes width demands,
  valid_sizes sizes width = true -> pool_ok sizes width (initial_patterns sizes width demands).
Proof.
  intros sizes width demands Hv. split.
  - apply Forall_forall. intros p Hp. apply initial_patterns_In in Hp. destruct Hp as [j [Hj Hp]]. subst.
    apply unit_pat_fits; assumption.
  - unfold initial_patterns. apply NoDup_flat_map_seq.
    + intros j. destruct (Z.ltb 0 (getz demands j)); simpl; lia.
    + intros j j' p Hj Hj' Hp Hp'.
      destruct (Z.ltb 0 (getz demands j)); simpl in Hp; [|contradiction].
      destruct (Z.ltb 0 (getz demands j')); simpl in Hp'; [|contradiction].
      destruct Hp as [Hp|[]]. destruct Hp' as [Hp'|[]].
      destruct (Nat.eq_dec j j') as [He|Hne]; [exact He|exfalso].
      assert (H1 : nth j p 0%Z = (width / getz sizes j)%Z).
      { rewrite <- Hp. apply (unit_pat_nth_same (length sizes) j). lia. }
      assert (H2 : nth j p 0%Z = 0%Z).
      { rewrite <- Hp'. apply (unit_pat_nth_other (length sizes) j j'); [lia | assumption]. }
      assert (Hjj : (j < length sizes)%nat) by lia.
      destruct (valid_sizes_nth _ _ _ Hv Hjj) as [Hpos Hw].
      assert (1 <= width / getz sizes j)%Z by (apply Z.div_le_lower_bound; lia).
      lia.
Qed.

(* ---------------------------------------------------------------- patterns stored in the DP cells *)
Definition pat_ok (n : nat) (p : pattern) : Prop := length p = n /\ Forall (fun x => (0 <= x)%Z) p.
Definition cell_ok (n : nat) (c : cell) : Prop := pat_ok n (snd c).

Lemma zeros_ok : forall n, pat_ok n (repeat 0%Z n).
Proof.
  intros n. split; [apply repeat_length|]. apply Forall_forall. intros x Hx. apply repeat_spec in Hx. lia.
Qed.

Lemma incr_at_ok : forall n i p, pat_ok n p -> pat_ok n (incr_at i p).
Proof.
  intros n i p [Hl Hf]. split.
  - unfold incr_at. rewrite mapi_length. exact Hl.
  - unfold incr_at, mapi. apply (mapi_from_Forall (fun x => (0 <= x)%Z)); [|exact Hf].
    intros k x Hx. destruct (Nat.eqb k i); lia.
Qed.

Lemma knap_upd_ok : forall n eps v i cur prev,
  cell_ok n cur -> (forall c, prev = Some c -> cell_ok n c) -> cell_ok n (knap_upd eps v i cur prev).
Proof.
  intros n eps v i cur prev Hc Hp. unfold knap_upd.
  destruct prev as [[[pv|] pp]|]; try exact Hc.
  assert (Hpp : pat_ok n pp) by (apply (Hp (Some pv, pp)); reflexivity).
  destruct (fst cur) as [cv|].
  - destruct (Qltb (cv + eps) (Qred (pv + v))); [apply incr_at_ok; exact Hpp | exact Hc].
  - apply incr_at_ok. exact Hpp.
Qed.

Lemma zip_upd_ok : forall n eps v i dp sh,
  Forall (cell_ok n) dp -> Forall (fun o => forall c, o = Some c -> cell_ok n c) sh ->
  Forall (cell_ok n) (zip_upd eps v i dp sh).
Proof.
  induction dp as [|c dp IH]; intros sh Hd Hs; simpl; [constructor|].
  destruct sh as [|p sh]; [exact Hd|].
  inversion Hd; subst. inversion Hs; subst.
  constructor; [apply knap_upd_ok; assumption | apply IH; assumption].
Qed.

Lemma knap_pass_ok : forall n eps v i s dp, Forall (cell_ok n) dp -> Forall (cell_ok n) (knap_pass eps v i s dp).
Proof.
  intros n eps v i s dp Hd. unfold knap_pass. apply zip_upd_ok; [exact Hd|].
  apply Forall_app. split.
  - apply Forall_forall. intros o Ho. apply repeat_spec in Ho. subst. intros c Hc. discriminate.
  - apply Forall_forall. intros o Ho. apply in_map_iff in Ho. destruct Ho as [c' [Hc' Hin]]. subst.
    intros c Hc. inversion Hc; subst. rewrite Forall_forall in Hd. apply Hd. exact Hin.
Qed.

Lemma iter_n_inv : forall {A} (P : A -> Prop) (f : A -> A) k x, (forall y, P y -> P (f y)) -> P x -> P (iter_n k f x).
Proof. induction k as [|k IH]; intros x Hf Hx; simpl; [exact Hx | apply IH; [exact Hf | apply Hf; exact Hx]]. Qed.

Lemma knap_items_ok : forall n eps ss i cs vs dp,
  Forall (cell_ok n) dp -> Forall (cell_ok n) (knap_items eps i ss cs vs dp).
Proof.
  induction ss as [|s ss IH]; intros i cs vs dp Hd; simpl; [exact Hd|].
  destruct cs as [|c cs]; [exact Hd|]. destruct vs as [|v vs]; [exact Hd|].
  apply IH. destruct (Qleb v eps); [exact Hd|].
  apply (iter_n_inv (fun d => Forall (cell_ok n) d)); [|exact Hd].
  intros y Hy. apply knap_pass_ok. exact Hy.
Qed.

Lemma knap_dp_ok : forall eps sizes_int cap_int copies values,
  pat_ok (length sizes_int) (fst (knap_dp eps sizes_int cap_int copies values)).
Proof.
  intros eps sizes_int cap_int copies values. unfold knap_dp.
  set (n := length sizes_int). set (zero := repeat 0%Z n).
  set (dp := knap_items eps 0 sizes_int copies values _).
  assert (Hdp : Forall (cell_ok n) dp).
  { apply knap_items_ok. constructor; [apply zeros_ok|].
    apply Forall_forall. intros c Hc. apply repeat_spec in Hc. subst. apply zeros_ok. }
  destruct (knap_best eps dp 0 (0%Q, O)) as [best_val best_w]. simpl.
  destruct (Qltb eps best_val); [|apply zeros_ok].
  destruct (nth_in_or_default best_w dp (None, zero)) as [Hin|Hd].
  - rewrite Forall_forall in Hdp. apply Hdp. exact Hin.
  - rewrite Hd. apply zeros_ok.
Qed.

Lemma knapsack_pricing_fits : forall eps sizes cap values pat v,
  (0 <= eps)%Q -> (eps < 1)%Q -> (0 <= cap)%Z ->
  knapsack_pricing eps sizes cap values = Some (pat, v) -> fits sizes cap pat.
Proof.
  intros eps sizes cap values pat v He0 He1 Hcap H. unfold knapsack_pricing in H.
  destruct sizes as [|s0 sizes'] eqn:Es.
  - inversion H; subst. unfold fits. simpl. repeat split; [constructor | exact Hcap].
  - rewrite <- Es in *.
    set (si := map (fun s => Z.max 1 (s * knap_scale)) sizes) in H.
    pose proof (knap_dp_ok eps si (cap * knap_scale) (max_copies sizes cap) values) as Hok.
    destruct (knap_dp eps si (cap * knap_scale) (max_copies sizes cap) values) as [bp bv]. simpl in Hok.
    destruct (Qltb (z2q cap + eps) (z2q (dotz sizes bp))) eqn:Echk; [discriminate|].
    inversion H; subst pat v. clear H.
    destruct Hok as [Hl Hf]. unfold si in Hl. rewrite map_length in Hl.
    unfold fits. repeat split; [exact Hl | exact Hf |].
    apply Qltb_false in Echk. unfold z2q in Echk.
    assert (Hlt : (inject_Z (dotz sizes bp) < inject_Z (cap + 1))%Q).
    { rewrite inject_Z_plus. eapply Qle_lt_trans; [exact Echk|].
      apply Qplus_lt_r. exact He1. }
    rewrite <- Zlt_Qlt in Hlt. lia.
Qed.

(* ---------------------------------------------------------------- the column-generation loop keeps the pool invariant *)
Lemma NoDup_snoc : forall {A} (l : list A) x, NoDup l -> ~ In x l -> NoDup (l ++ [x]).
Proof.
  induction l as [|y l IH]; intros x Hn Hx; simpl.
  - constructor; [intros [] | constructor].
  - inversion Hn; subst. constructor.
    + intros Hin. apply in_app_or in Hin. destruct Hin as [Hin|[Hin|[]]]; [contradiction|].
      subst. apply Hx. left. reflexivity.
    + apply IH; [assumption|]. intros Hin. apply Hx. right. exact Hin.
Qed.

Lemma pool_ok_add : forall sizes width pool p,
  pool_ok sizes width pool -> fits sizes width p ->
  pool_ok sizes width (if pat_mem p pool then pool else pool ++ [p]).
Proof.
  intros sizes width pool p [Hf Hn] Hp. destruct (pat_mem p pool) eqn:E; [split; assumption|].
  apply pat_mem_false in E. split.
  - apply Forall_app. split; [exact Hf | constructor; [exact Hp | constructor]].
  - apply NoDup_snoc; assumption.
Qed.
