(* C17 deep - simplex_phase (eps = 0) preserves the tableau invariants of DeepInv; its two exits:
   "no entering column" gives non-negative reduced costs on all x and surplus columns, and the silent
   "no leaving row" exit (unbounded direction) cannot happen while the phase-2 objective invariant O2 holds. *)
From Coq Require Import List ZArith QArith Qabs Qround Bool Arith Lia Lqa Setoid.
From SV Require Import C17.Cg C17.CgSpec C17.GateProofs C17.PoolProofs C17.DeepSum C17.DeepInv.
Import ListNotations.
Open Scope Q_scope.

(* ---------------------------------------------------------------- find_enter *)
Lemma find_enter_some : forall eps basis k oc j e,
  find_enter eps basis k j oc = Some e ->
  (j <= e < j + k)%nat /\ mem_nat e basis = false /\ Qltb (nth (e - j) oc 0) (- eps) = true.
Proof.
  intros eps basis k. induction k as [|k IH]; intros oc j e H; simpl in H; [discriminate|].
  destruct oc as [|x oc]; [discriminate|].
  destruct (negb (mem_nat j basis) && Qltb x (- eps))%bool eqn:E.
  - inversion H; subst. apply andb_true_iff in E. destruct E as [E1 E2]. apply negb_true_iff in E1.
    rewrite Nat.sub_diag. simpl. repeat split; try assumption; lia.
  - apply IH in H. destruct H as [H1 [H2 H3]]. split; [lia|]. split; [exact H2|].
    replace (e - j)%nat with (S (e - S j)) by lia. simpl. exact H3.
Qed.

Lemma find_enter_none : forall eps basis k oc j,
  find_enter eps basis k j oc = None ->
  forall t, (t < k)%nat -> (t < length oc)%nat -> mem_nat (j + t) basis = true \/ Qltb (nth t oc 0) (- eps) = false.
Proof.
  intros eps basis k. induction k as [|k IH]; intros oc j H t Ht Hl; [lia|]. simpl in H.
  destruct oc as [|x oc]; [simpl in Hl; lia|].
  destruct (negb (mem_nat j basis) && Qltb x (- eps))%bool eqn:E; [discriminate|].
  destruct t as [|t].
  - rewrite Nat.add_0_r. simpl. apply andb_false_iff in E. destruct E as [E|E]; [left; apply negb_false_iff; exact E | right; exact E].
  - simpl in Hl. replace (j + S t)%nat with (S j + t)%nat by lia. simpl nth. apply (IH oc (S j) H t); lia.
Qed.

(* ---------------------------------------------------------------- ratio test *)
Lemma ratio_step_fst : forall eps basis e i r st,
  fst (ratio_step eps basis e i r st) = fst st \/
  (fst (ratio_step eps basis e i r st) = Some i /\ Qltb eps (getq r e) = true).
Proof.
  intros eps basis e i r [l mr]. unfold ratio_step. cbn [fst snd].
  destruct (Qltb eps (getq r e)) eqn:Ea; [|left; reflexivity].
  destruct mr as [mr|]; [|right; split; reflexivity].
  destruct (Qltb (Qred (lastq r / getq r e)) (mr - eps)); [right; split; reflexivity|].
  destruct (Qleb (Qabs (Qred (lastq r / getq r e) - mr)) eps); [|left; reflexivity].
  destruct l as [l|]; [|left; reflexivity].
  destruct (Nat.ltb (nth i basis O) (nth l basis O)); [right; split; reflexivity | left; reflexivity].
Qed.

Lemma ratio_loop_some : forall eps basis e (P : nat -> Prop) rs i st l,
  (forall t, (t < length rs)%nat -> Qltb eps (getq (nth t rs []) e) = true -> P (i + t)%nat) ->
  (forall l0, fst st = Some l0 -> P l0) ->
  fst (ratio_loop eps basis e i rs st) = Some l -> P l.
Proof.
  intros eps basis e P rs. induction rs as [|r rs IH]; intros i st l Hrs Hst H; simpl in H.
  - apply Hst. exact H.
  - apply (IH (S i) (ratio_step eps basis e i r st) l); [| |exact H].
    + intros t Ht Hq. replace (S i + t)%nat with (i + S t)%nat by lia. apply Hrs; [simpl; lia | exact Hq].
    + intros l0 Hl0. destruct (ratio_step_fst eps basis e i r st) as [E|[E Hq]].
      * apply Hst. rewrite <- E. exact Hl0.
      * rewrite E in Hl0. inversion Hl0; subst. replace l0 with (l0 + 0)%nat by lia. apply Hrs; [simpl; lia | exact Hq].
Qed.

Definition Jst (st : option nat * option Q) : Prop := fst st = None -> snd st = None.

Lemma ratio_step_J : forall eps basis e i r st, Jst st ->
  Jst (ratio_step eps basis e i r st) /\
  (fst st <> None -> fst (ratio_step eps basis e i r st) <> None) /\
  (Qltb eps (getq r e) = true -> fst (ratio_step eps basis e i r st) <> None).
Proof.
  intros eps basis e i r [l mr] HJ. unfold Jst in *. unfold ratio_step. cbn [fst snd] in *.
  destruct (Qltb eps (getq r e)) eqn:Ea.
  - destruct mr as [mr|].
    + destruct l as [l|]; [|specialize (HJ eq_refl); discriminate].
      destruct (Qltb (Qred (lastq r / getq r e)) (mr - eps)); cbn [fst snd]; [repeat split; intros; discriminate|].
      destruct (Qleb (Qabs (Qred (lastq r / getq r e) - mr)) eps); cbn [fst snd]; [|repeat split; intros; discriminate].
      destruct (Nat.ltb (nth i basis O) (nth l basis O)); cbn [fst snd]; repeat split; intros; discriminate.
    + cbn [fst snd]. repeat split; intros; discriminate.
  - cbn [fst snd]. repeat split; [exact HJ | intros H; exact H | intros; discriminate].
Qed.

Lemma ratio_loop_keeps_some : forall eps basis e rs i st, Jst st -> fst st <> None ->
  fst (ratio_loop eps basis e i rs st) <> None.
Proof.
  intros eps basis e rs. induction rs as [|r rs IH]; intros i st HJ Hs; simpl; [exact Hs|].
  destruct (ratio_step_J eps basis e i r st HJ) as [HJ' [H1 _]]. apply IH; [exact HJ' | apply H1; exact Hs].
Qed.

Lemma ratio_loop_none : forall eps basis e rs i st, Jst st ->
  fst (ratio_loop eps basis e i rs st) = None ->
  forall t, (t < length rs)%nat -> Qltb eps (getq (nth t rs []) e) = false.
Proof.
  intros eps basis e rs. induction rs as [|r rs IH]; intros i st HJ H t Ht; simpl in Ht; [lia|]. simpl in H.
  destruct (ratio_step_J eps basis e i r st HJ) as [HJ' [_ H2]].
  destruct (Qltb eps (getq r e)) eqn:Ea.
  - exfalso. apply (ratio_loop_keeps_some eps basis e rs (S i) _ HJ' (H2 eq_refl)). exact H.
  - destruct t as [|t]; [exact Ea|]. simpl nth. apply (IH (S i) _ HJ' H). lia.
Qed.

Lemma find_leave_some : forall basis T e l, find_leave 0 basis T e = Some l ->
  (l < length (t_rows T))%nat /\ 0 < ent (t_rows T) l e.
Proof.
  intros basis T e l H. unfold find_leave in H.
  apply (ratio_loop_some 0 basis e (fun l => (l < length (t_rows T))%nat /\ 0 < ent (t_rows T) l e) _ _ _ _) in H.
  - exact H.
  - intros t Ht Hq. simpl. split; [exact Ht|]. apply Qltb_lt. exact Hq.
  - intros l0 Hl0. discriminate.
Qed.

Lemma find_leave_none : forall basis T e, find_leave 0 basis T e = None ->
  forall k, (k < length (t_rows T))%nat -> ent (t_rows T) k e <= 0.
Proof.
  intros basis T e H k Hk. unfold find_leave in H.
  apply Qltb_false. apply (ratio_loop_none 0 basis e (t_rows T) 0 (None, None)); [intros _; reflexivity | exact H | exact Hk].
Qed.

(* ---------------------------------------------------------------- the phase *)
Section Phase.
Variables (n m : nat) (A : nat -> nat -> Q) (D : nat -> Q).
Notation rowsInv := (rowsInv n m A D).
Notation ObjInv := (ObjInv n m A D).
Notation objInv2 := (objInv2 n m).
Notation c0 := (c0 n).

Lemma c0_nonneg : forall j, 0 <= c0 j.
Proof. intros j. unfold DeepInv.c0. destruct (Nat.ltb j n); lra. Qed.

(* the silent `if leave == -1: return` exit is impossible under O2 *)
Lemma no_unbounded : forall rows basis obj e,
  rowsInv rows basis -> objInv2 rows basis obj ->
  getq obj e < 0 -> (forall k, (k < m)%nat -> ent rows k e <= 0) -> False.
Proof.
  intros rows basis obj e HR HO Hneg Hcol.
  assert (HS : sumN (fun k => c0 (nth k basis O) * ent rows k e) 0 m <= 0).
  { apply sumN_nonpos. intros k Hk. assert (Hk' : (k < m)%nat) by lia. specialize (Hcol k Hk').
    unfold DeepInv.c0. destruct (Nat.ltb (nth k basis O) n); lra. }
  pose proof (HO e) as He. pose proof (c0_nonneg e). lra.
Qed.

Lemma mem_nat_nth : forall j l, mem_nat j l = true -> exists k, (k < length l)%nat /\ nth k l O = j.
Proof.
  intros j l H. unfold mem_nat in H. apply existsb_exists in H. destruct H as [x [Hin Hx]].
  apply Nat.eqb_eq in Hx. subst x. destruct (In_nth l j O Hin) as [k [Hk Hn]]. exists k. split; assumption.
Qed.

Lemma basic_obj_zero : forall rows basis obj k,
  rowsInv rows basis -> objInv2 rows basis obj -> (k < m)%nat -> getq obj (nth k basis O) == 0.
Proof.
  intros rows basis obj k [Hlen [Hbl [HL Hc]]] HO Hk. rewrite (HO (nth k basis O)).
  rewrite (sumN_ext _ (fun k' => if Nat.eqb k' k then c0 (nth k basis O) else 0)).
  - rewrite sumN_delta by lia. ring.
  - intros k' Hk'. assert (Hk2 : (k' < m)%nat) by lia. rewrite (Hc k k' Hk Hk2). rewrite (Nat.eqb_sym k k').
    destruct (Nat.eqb k' k) eqn:E; [apply Nat.eqb_eq in E; subst k'; ring | ring].
Qed.

Lemma optimal_obj_nonneg : forall rows basis obj,
  rowsInv rows basis -> ObjInv obj -> objInv2 rows basis obj ->
  find_enter 0 basis (n + m) 0 obj = None ->
  forall j, (j < n + m)%nat -> 0 <= getq obj j.
Proof.
  intros rows basis obj HR HO1 HO2 Hfe j Hj.
  destruct HO1 as [Lo _].
  assert (Hjl : (j < length obj)%nat) by (rewrite Lo; unfold NN; lia).
  destruct (find_enter_none 0 basis (n + m) obj 0 Hfe j Hj Hjl) as [Hm|Hq].
  - simpl in Hm. destruct (mem_nat_nth _ _ Hm) as [k [Hk Hn]].
    destruct HR as [Hlen [Hbl HR']]. rewrite <- Hn.
    rewrite (basic_obj_zero rows basis obj k); [apply Qle_refl | split; [exact Hlen | split; [exact Hbl | exact HR']] | exact HO2 | lia].
  - apply Qltb_false in Hq. unfold getq. lra.
Qed.

Lemma phase_inv : forall fuel T basis T' basis' ok,
  rowsInv (t_rows T) basis ->
  simplex_phase 0 fuel (n + m) T basis = (T', basis', ok) ->
  rowsInv (t_rows T') basis' /\
  (ObjInv (t_obj T) -> objInv2 (t_rows T) basis (t_obj T) ->
   ObjInv (t_obj T') /\ objInv2 (t_rows T') basis' (t_obj T') /\
   (ok = true -> find_enter 0 basis' (n + m) 0 (t_obj T') = None)).
Proof.
  induction fuel as [|fuel IH]; intros T basis T' basis' ok HR H; cbn [simplex_phase] in H.
  - inversion H; subst. split; [exact HR|]. intros H1 H2. split; [exact H1 | split; [exact H2 | intros; discriminate]].
  - destruct (find_enter 0 basis (n + m) 0 (t_obj T)) as [e|] eqn:Efe.
    + destruct (find_leave 0 basis T e) as [l|] eqn:Efl.
      * destruct (find_leave_some basis T e l Efl) as [Hl Hpos].
        pose proof HR as [Hlen _]. rewrite Hlen in Hl.
        assert (Hp : ~ ent (t_rows T) l e == 0) by (intros Hz; rewrite Hz in Hpos; apply (Qlt_irrefl 0); exact Hpos).
        destruct T as [rows obj]. cbn [t_rows t_obj] in *.
        pose proof (pivot_rows n m A D rows obj basis l e HR Hl Hp) as HR'.
        pose proof (pivot_obj n m A D rows obj basis l e HR Hl Hp) as HO'.
        destruct (pivot 0 (mkT rows obj) basis l e) as [T1 b1] eqn:Ep. cbn [fst snd] in HR', HO'.
        destruct (IH T1 b1 T' basis' ok HR' H) as [HRf HOf].
        split; [exact HRf|]. intros H1 H2. destruct (HO' H1 H2) as [H1' H2']. apply HOf; assumption.
      * inversion H; subst. split; [exact HR|]. intros H1 H2.
        exfalso. destruct (find_enter_some 0 basis' (n + m) (t_obj T') 0 e Efe) as [_ [_ Hq]].
        apply Qltb_lt in Hq. rewrite Nat.sub_0_r in Hq.
        apply (no_unbounded (t_rows T') basis' (t_obj T') e HR H2).
        -- unfold getq. lra.
        -- intros k Hk. apply (find_leave_none basis' T' e Efl). destruct HR as [Hlen _]. rewrite Hlen. exact Hk.
    + inversion H; subst. split; [exact HR|]. intros H1 H2. split; [exact H1 | split; [exact H2 | intros _; exact Efe]].
Qed.

End Phase.
